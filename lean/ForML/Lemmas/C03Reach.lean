/-
C03 — helper lemmas: subscription bookkeeping (`Wired`) and reachability along apply subscriptions (`Reach`).

`Wired g`: every recorded subscription is *the* subscription of its input port (`subscribe` refuses a second one) and
its publisher exists.  `Reach g a b`: `b` is `a` or a transitive subscriber of `a` — the nodes `Segment.copy`
follows.  A construction that touches only what it created (`Frame`) cannot make an older node reachable.
-/
import ForML.Lemmas.C03Prim

namespace ForML.Compose

/-! ### subscriptions are functional -/

structure Wired (g : Graph) : Prop where
  pubsLt : ∀ e ∈ g.edges, e.pub.node < g.next
  keys : ∀ e ∈ g.edges, g.inputOf e.sub e.port = some e.pub
  /-- no input port is subscribed twice -/
  nodup : g.edges.Pairwise (fun e e' => ¬ (e.sub = e'.sub ∧ e.port = e'.port))

theorem Wired.empty : Wired {} := by
  refine ⟨?_, ?_, List.Pairwise.nil⟩ <;> intro e he <;> simp at he

theorem Wired.bump {g} (h : Wired g) : Wired g.bump :=
  ⟨fun e he => by have := h.pubsLt e he; simp; omega, fun e he => h.keys e he, h.nodup⟩

theorem Wired.pushNode {g} (h : Wired g) (n : Node) : Wired (g.pushNode n) :=
  ⟨fun e he => h.pubsLt e he, fun e he => h.keys e he, h.nodup⟩

theorem Wired.pushTrain {g} (h : Wired g) (t : Training) : Wired (g.pushTrain t) :=
  ⟨fun e he => h.pubsLt e he, fun e he => h.keys e he, h.nodup⟩

/-- a free input port has no recorded subscription -/
theorem no_edge_of_free {g : Graph} {s k : Nat} (hfree : g.inputOf s k = none) : ∀ e ∈ g.edges, ¬ (e.sub = s ∧ e.port = k) := by
  intro e he hk
  unfold Graph.inputOf at hfree
  have : g.edges.find? (fun e => e.sub == s && e.port == k) = none := by
    cases hf : g.edges.find? (fun e => e.sub == s && e.port == k) with
    | none => rfl
    | some x => simp [hf] at hfree
  have := List.find?_eq_none.mp this e he
  simp [hk.1, hk.2] at this

theorem Wired.pushEdge {g} (h : Wired g) (e : Edge) (hp : e.pub.node < g.next) (hfree : g.inputOf e.sub e.port = none) :
    Wired (g.pushEdge e) := by
  refine ⟨?_, ?_, ?_⟩
  rotate_left 2
  · show (g.edges ++ [e]).Pairwise _
    rw [List.pairwise_append]
    refine ⟨h.nodup, List.pairwise_singleton _ _, ?_⟩
    intro a ha b hb
    simp only [List.mem_singleton] at hb
    subst hb
    exact no_edge_of_free hfree a ha
  · intro e' he'
    simp only [Graph.pushEdge, List.mem_append, List.mem_singleton] at he'
    rcases he' with he' | he'
    · exact h.pubsLt e' he'
    · subst he'; exact hp
  · intro e' he'
    simp only [Graph.pushEdge, List.mem_append, List.mem_singleton] at he'
    rw [inputOf_pushEdge]
    rcases he' with he' | he'
    · rw [h.keys e' he']; rfl
    · subst he'
      rw [hfree]
      simp

/-- the publisher of a recorded input exists -/
theorem Wired.pub_lt {g} (h : Wired g) {s k : Nat} {q : PubRef} (hq : g.inputOf s k = some q) : q.node < g.next := by
  unfold Graph.inputOf at hq
  cases hf : g.edges.find? (fun e => e.sub == s && e.port == k) with
  | none => simp [hf] at hq
  | some e =>
    simp [hf] at hq
    subst hq
    exact h.pubsLt e (List.mem_of_find?_eq_some hf)

/-- an input lookup comes from a recorded subscription -/
theorem inputOf_mem {g : Graph} {s k : Nat} {q : PubRef} (hq : g.inputOf s k = some q) : (⟨s, k, q⟩ : Edge) ∈ g.edges := by
  unfold Graph.inputOf at hq
  cases hf : g.edges.find? (fun e => e.sub == s && e.port == k) with
  | none => simp [hf] at hq
  | some e =>
    simp [hf] at hq
    have hm := List.mem_of_find?_eq_some hf
    have hp := List.find?_some hf
    simp at hp
    obtain ⟨es, ek, ep⟩ := e
    simp at hp hq
    obtain ⟨h1, h2⟩ := hp
    subst h1; subst h2; subst hq
    exact hm

/-! ### reachability -/

inductive Reach (g : Graph) (a : Nat) : Nat → Prop
  | refl : Reach g a a
  | step {p s k i : Nat} : Reach g a p → g.inputOf s k = some ⟨p, i⟩ → Reach g a s

theorem Reach.trans {g a b c} (h1 : Reach g a b) (h2 : Reach g b c) : Reach g a c := by
  induction h2 with
  | refl => exact h1
  | step _ he ih => exact Reach.step ih he

/-- a reachable node other than the start has an input that is reachable -/
theorem Reach.inv {g a n} (h : Reach g a n) : n = a ∨ ∃ k q, g.inputOf n k = some q ∧ Reach g a q.node := by
  cases h with
  | refl => exact Or.inl rfl
  | step hp he => exact Or.inr ⟨_, _, he, hp⟩

theorem Reach.mono {g g' a n} (hm : ∀ s k q, g.inputOf s k = some q → g'.inputOf s k = some q) (h : Reach g a n) :
    Reach g' a n := by
  induction h with
  | refl => exact Reach.refl
  | step _ he ih => exact Reach.step ih (hm _ _ _ he)

theorem Reach.one {g a s k} {q : PubRef} (h : Reach g a q.node) (he : g.inputOf s k = some q) : Reach g a s := by
  obtain ⟨p, i⟩ := q
  exact Reach.step h he

/-- a frame cannot make an older node reachable: its inputs are what they were, and those are older still -/
theorem Reach.old {gL g' : Graph} (hf : Frame gL g') (hw : Wired gL) {a n : Nat} (hn : n < gL.next) (h : Reach g' a n) :
    Reach gL a n := by
  induction h with
  | refl => exact Reach.refl
  | step hp he ih =>
    rw [hf.input _ _ hn] at he
    have := hw.pub_lt he
    exact Reach.step (ih this) he

/-- everything reachable from a node created after `gL` was created after `gL` -/
theorem Reach.new {gL g' : Graph} (hf : Frame gL g') (hw : Wired gL) {a n : Nat} (ha : gL.next ≤ a) (h : Reach g' a n) :
    gL.next ≤ n := by
  induction h with
  | refl => exact ha
  | step hp he ih =>
    rename_i p s k i
    by_cases hs : s < gL.next
    · rw [hf.input _ _ hs] at he
      have := hw.pub_lt he
      simp at this
      omega
    · omega

end ForML.Compose
