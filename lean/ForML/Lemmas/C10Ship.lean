/-
C10 — the delivery semantic survives construction from every spelling / from the enum member and
every reconstruction of the ordinal specs (pickle, cloudpickle, copy, deepcopy), so a launch whose
extraction components crossed a process boundary delivers what the local launch delivers.
-/
import ForML.Model.OrdinalShip

namespace ForML.Ordinal

/-! ### `Ordinal.__new__` -/

/-- the constructor resolves: nothing / `''` ↦ exactly-once (the documented default), a member ↦
itself, a spelling ↦ what `Once(spelling)` says -/
theorem C10_ordinal_new (m : Once) (s : String) (hs : s ≠ "") :
    ordinalNew .none = .ok .exactly ∧ ordinalNew (.str "") = .ok .exactly ∧
    ordinalNew (.member m) = .ok m ∧ ordinalNew (.str s) = parseOnce s := by
  simp [ordinalNew, ordinalNewWith, OnceArg.truthy, onceCall, hs]

/-- the string constructor of Model/Ordinal (`ordinalOnce`) is the string part of `ordinalNew` -/
theorem C10_ordinal_new_str (s : Option String) :
    ordinalNew (match s with | none => .none | some s => .str s) = ordinalOnce s := by
  cases s with
  | none => rfl
  | some s =>
    by_cases h : s = ""
    · subst h; rfl
    · simp [ordinalNew, ordinalNewWith, OnceArg.truthy, onceCall, ordinalOnce, h]

/-- giving the member is the same as giving any of its spellings (alias table, any letter case is
covered by `parseOnce` lower-casing) -/
theorem C10_member_same_as_spelling :
    ∀ p ∈ aliasTable, ordinalNew (.str p.1) = ordinalNew (.member p.2) := by
  decide +kernel

/-! ### reconstruction -/

/-- **reconstruction is the identity**: whatever specs exist, `cls.__new__(cls, *__getnewargs__())`
rebuilds exactly them — same column, same semantic -/
theorem C10_reconstruct_id (o : OrdinalSpec) : o.reconstruct = .ok o := by
  cases o
  simp [OrdinalSpec.reconstruct, OrdinalSpec.reconstructWith, OrdinalSpec.newWith, OrdinalSpec.newargs,
    ordinalNewWith, OnceArg.truthy, onceCall]

/-- **reconstruct ∘ construct**: for every column and every way of naming the semantic (nothing, a
spelling, the member) that the constructor accepts, the reconstructed specs have the same column
and the same semantic as the constructed ones — and the semantic is the one the argument names -/
theorem C10_construct_reconstruct (col : Nat) (a : OnceArg) (o : OrdinalSpec)
    (h : OrdinalSpec.new col a = .ok o) :
    o.reconstruct = .ok o ∧ o.column = col ∧ ordinalNew a = .ok o.once := by
  refine ⟨C10_reconstruct_id o, ?_⟩
  unfold OrdinalSpec.new OrdinalSpec.newWith at h
  unfold ordinalNew
  cases hn : ordinalNewWith onceCall a with
  | error e => simp [hn] at h
  | ok m =>
    simp only [hn, Except.ok.injEq] at h
    subst h
    exact ⟨rfl, rfl⟩

/-- what the constructor refuses, it refuses before anything is shipped (a `ValueError` for an
unknown spelling): there are no specs whose reconstruction fails -/
theorem C10_reconstruct_total (o : OrdinalSpec) : ∃ o', o.reconstruct = .ok o' := ⟨o, C10_reconstruct_id o⟩

/-- every spelling of the alias table, the member and the default, constructed and then
reconstructed: the semantic is the one named -/
theorem C10_spelling_reconstruct (col : Nat) :
    (∀ p ∈ aliasTable, ∃ o, OrdinalSpec.new col (.str p.1) = .ok o ∧ o.once = p.2 ∧ o.reconstruct = .ok o) ∧
    (∀ m : Once, ∃ o, OrdinalSpec.new col (.member m) = .ok o ∧ o.once = m ∧ o.reconstruct = .ok o) ∧
    (∃ o, OrdinalSpec.new col .none = .ok o ∧ o.once = .exactly ∧ o.reconstruct = .ok o) := by
  refine ⟨?_, ?_, ?_⟩
  · intro p hp
    have hm := C10_member_same_as_spelling p hp
    have hmem : ordinalNew (.member p.2) = .ok p.2 := rfl
    rw [hmem] at hm
    refine ⟨⟨col, p.2⟩, ?_, rfl, C10_reconstruct_id _⟩
    unfold ordinalNew at hm
    simp [OrdinalSpec.new, OrdinalSpec.newWith, hm]
  · intro m
    exact ⟨⟨col, m⟩, rfl, rfl, C10_reconstruct_id _⟩
  · exact ⟨⟨col, .exactly⟩, rfl, rfl, C10_reconstruct_id _⟩

/-- any number of round trips -/
theorem C10_ship_id (n : Nat) (o : Option OrdinalSpec) : shipN n o = .ok o := by
  induction n with
  | zero => rfl
  | succ n ih =>
    cases o with
    | none => simpa [shipN, shipOrdinal] using ih
    | some s => simpa [shipN, shipOrdinal, C10_reconstruct_id s] using ih

/-- necessity of the member branch: a constructor that resolves spellings only (and lets every other
argument fall back to the default) turns reconstructed at-least-once specs into exactly-once ones —
the semantic would silently change whenever the specs cross a process boundary -/
theorem C10_reconstruct_stronly_counterexample :
    ¬ (∀ o : OrdinalSpec, o.reconstructWith onceCallStrOnly = .ok o) := by
  intro h
  have := h ⟨0, .atleast⟩
  revert this
  decide

/-- … while for spellings that constructor is indistinguishable from the real one (which is why a
test that builds the source in-process cannot tell them apart) -/
theorem C10_stronly_same_on_strings (col : Nat) (s : Option String) :
    OrdinalSpec.newWith onceCallStrOnly col (match s with | none => .none | some s => .str s)
      = OrdinalSpec.new col (match s with | none => .none | some s => .str s) := by
  cases s with
  | none => rfl
  | some s => rfl

/-! ### launches with shipped components -/

section
variable {α : Type} [LE α] [LT α] [DecidableLE α] [DecidableLT α] [DecidableEq α]

/-- **shipping does not change what is delivered**: however many times the components that carry
the ordinal specs (the `Ordinal`, the driver's `extract.Statement`, the driver actor builder) are
sent through a round trip before the driver runs, every window delivers what the unshipped launch
delivers (and what is refused is refused identically) -/
theorem C10_shipped_windows (kindOf : Nat → Kind) (ordinal : Option Nat) (a : OnceArg) (n : Nat)
    (wins : List (Option (Raw α) × Option (Raw α))) (data : List α) :
    sourceWindows kindOf ordinal a n wins data = sourceWindows kindOf ordinal a 0 wins data := by
  unfold sourceWindows
  cases extractNew ordinal a with
  | error e => rfl
  | ok o => simp [C10_ship_id n o, shipN]

/-- the source constructor resolves the semantic as `ordinalNew` does, and refuses a semantic given
without an ordinal column -/
theorem C10_extract_new (c : Nat) (a : OnceArg) :
    (extractNew (some c) a = (match ordinalNew a with | .ok m => .ok (some ⟨c, m⟩) | .error e => .error e)) ∧
    (extractNew none a = if a.truthy then .error .invalidError else .ok none) := by
  constructor
  · unfold extractNew OrdinalSpec.new OrdinalSpec.newWith ordinalNew
    cases ordinalNewWith onceCall a <;> rfl
  · rfl

/-- `sourceWindows` for a source built from a member and for one built from any of its spellings
are the same history -/
theorem C10_member_windows (kindOf : Nat → Kind) (c : Nat) (n : Nat)
    (wins : List (Option (Raw α) × Option (Raw α))) (data : List α) :
    ∀ p ∈ aliasTable, sourceWindows kindOf (some c) (.str p.1) n wins data
      = sourceWindows kindOf (some c) (.member p.2) n wins data := by
  intro p hp
  have h := C10_member_same_as_spelling p hp
  unfold sourceWindows extractNew OrdinalSpec.new OrdinalSpec.newWith
  unfold ordinalNew at h
  rw [h]

end

/-! ### non-vacuity (tests) -/

example : OrdinalSpec.new 3 (.str "At-Least-Once") = .ok ⟨3, .atleast⟩ := by decide +kernel
example : (⟨3, .atleast⟩ : OrdinalSpec).reconstruct = .ok ⟨3, .atleast⟩ := by decide
example : (⟨3, .atleast⟩ : OrdinalSpec).reconstructWith onceCallStrOnly = .ok ⟨3, .exactly⟩ := by decide
example : OrdinalSpec.new 3 (.str "twice") = .error .valueError := by decide +kernel
example : extractNew none (.member .atmost) = .error .invalidError := by decide
example : sourceWindows (fun _ => Kind.integer) (some 0) (.member .atleast) 2
    [(some ⟨.int, (1 : Int), true⟩, some ⟨.int, 3, true⟩), (some ⟨.int, 3, true⟩, some ⟨.int, 5, true⟩)] [0, 1, 3, 5, 6]
    = .ok [.ok [1, 2], .ok [2, 3]] := by decide

end ForML.Ordinal
