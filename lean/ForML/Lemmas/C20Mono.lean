/- Nothing a lookup or an import does ever removes a binding, a search path or a `sys.modules` entry (C20):
the monotonicity behind "an answer does not depend on what was looked up or imported before". -/
import ForML.Lemmas.C20Comm

namespace ForML.Bank

/-- `b'` has every binding and every search path of `b` -/
def BankLe (b b' : Bank) : Prop :=
  (∀ r c, lookupRef r b.provider = some c → lookupRef r b'.provider = some c) ∧ (∀ p ∈ b.paths, p ∈ b'.paths)

def StLe (s s' : St) : Prop :=
  (∀ i, BankLe (getBank i s.banks) (getBank i s'.banks)) ∧ (∀ m ∈ s.loaded, m ∈ s'.loaded)

theorem BankLe.refl (b : Bank) : BankLe b b := ⟨fun _ _ h => h, fun _ h => h⟩
theorem BankLe.trans {a b c : Bank} (h1 : BankLe a b) (h2 : BankLe b c) : BankLe a c :=
  ⟨fun r x h => h2.1 r x (h1.1 r x h), fun p h => h2.2 p (h1.2 p h)⟩
theorem StLe.refl (s : St) : StLe s s := ⟨fun _ => BankLe.refl _, fun _ h => h⟩
theorem StLe.trans {a b c : St} (h1 : StLe a b) (h2 : StLe b c) : StLe a c :=
  ⟨fun i => (h1.1 i).trans (h2.1 i), fun m h => h2.2 m (h1.2 m h)⟩

theorem mem_addPaths_left {ps : List PathE} {p : PathE} (h : p ∈ ps) (qs : List PathE) : p ∈ addPaths ps qs := by
  induction qs generalizing ps with
  | nil => simpa [addPaths] using h
  | cons q qs ih =>
    simp only [addPaths]
    apply ih
    split
    · exact h
    · exact List.mem_append_left _ h

/-- `Bank.add` only ever adds: an existing binding is kept (re-binding happens only to the same class identity) -/
theorem add_le {b b' : Bank} {c : ClassDef} (h : b.add c = .ok b') : BankLe b b' := by
  have hcol := (collides_false_iff b c).1 (add_ok' h).1
  refine ⟨?_, ?_⟩
  · intro r x hx
    rw [lookup_after_add h]
    by_cases hc : c.abstract = false ∧ r ∈ refs c
    · simp only [hc, and_self, if_true]
      rw [hcol r hc.2 x hx]
    · simp only [hc, if_false]; exact hx
  · intro p hp
    rw [paths_after_add h]
    exact mem_addPaths_left hp _

theorem addToBanks_le (c : ClassDef) (is : List ClassId) (st : St) : StLe st (addToBanks st c is).1 := by
  induction is generalizing st with
  | nil => exact StLe.refl _
  | cons i rest ih =>
    simp only [addToBanks]
    cases hadd : (getBank i st.banks).add c with
    | error e => exact StLe.refl _
    | ok b =>
      simp only
      refine StLe.trans ?_ (ih _)
      refine ⟨?_, fun _ h => h⟩
      intro j
      simp only [getBank_setBank]
      split
      · rename_i hij; subst hij; exact add_le hadd
      · exact BankLe.refl _

theorem initSubclass_le (c : ClassDef) (st : St) : StLe st (initSubclass st c).1 := by
  unfold initSubclass
  split
  · exact StLe.refl _
  · exact addToBanks_le c _ st

theorem execClasses_le (cs : List ClassDef) (st : St) : StLe st (execClasses st cs).1 := by
  induction cs generalizing st with
  | nil => exact StLe.refl _
  | cons c rest ih =>
    simp only [execClasses]
    have h1 := initSubclass_le c st
    cases hi : initSubclass st c with
    | mk s1 e1 =>
      rw [hi] at h1
      cases e1 with
      | some e => exact h1
      | none => exact h1.trans (ih s1)

theorem execMod_le (w : World) (st : St) (m : Mod) : ∀ r, execMod w st m = some r → StLe st r.1 := by
  intro r hr
  unfold execMod at hr
  cases hf : findMod m w with
  | none => simp [hf] at hr
  | some d =>
    simp only [hf] at hr
    split at hr
    · cases hr; exact StLe.refl _
    · have h1 := execClasses_le d.classes st
      cases he : execClasses st d.classes with
      | mk s1 e1 =>
        rw [he] at h1
        cases e1 with
        | some e => simp [he] at hr; subst hr; exact h1
        | none =>
          simp [he] at hr; subst hr
          exact ⟨h1.1, fun x hx => List.mem_cons_of_mem _ (h1.2 x hx)⟩

theorem importSubs_le (w : World) (pkg : Nat) (subs : List Nat) (st : St) : StLe st (importSubs w st pkg subs).1 := by
  induction subs generalizing st with
  | nil => exact StLe.refl _
  | cons s rest ih =>
    simp only [importSubs]
    cases he : execMod w st ⟨pkg, some s⟩ with
    | none => exact ih st
    | some r =>
      have h1 := execMod_le w st _ r he
      obtain ⟨s1, e1⟩ := r
      cases e1 with
      | some e => exact h1
      | none => exact h1.trans (ih s1)

theorem importMod_le (w : World) (st : St) (m : Mod) : ∀ r, importMod w st m = some r → StLe st r.1 := by
  intro r hr
  unfold importMod at hr
  cases hsub : m.sub with
  | none => simp only [hsub] at hr; exact execMod_le w st m r hr
  | some s =>
    simp only [hsub] at hr
    cases he : execMod w st ⟨m.pkg, none⟩ with
    | none => simp [he] at hr
    | some r1 =>
      have h1 := execMod_le w st _ r1 he
      obtain ⟨s1, e1⟩ := r1
      cases e1 with
      | some e => simp [he] at hr; subst hr; exact h1
      | none => simp only [he] at hr; exact h1.trans (execMod_le w s1 m r hr)

theorem afterNotFound_le (w : World) (st : St) (m : Mod) : StLe st (afterNotFound w st m) := by
  unfold afterNotFound
  cases m.sub with
  | none => exact StLe.refl _
  | some s =>
    simp only
    cases he : execMod w st ⟨m.pkg, none⟩ with
    | none => exact StLe.refl _
    | some r =>
      obtain ⟨st', e⟩ := r
      cases e with
      | some e => exact StLe.refl _
      | none => exact execMod_le w st _ _ he

theorem loadPath_le (w : World) (st : St) (p : PathE) : StLe st (loadPath w st p).1 := by
  unfold loadPath
  cases hi : importMod w st p.mod with
  | none => exact afterNotFound_le w st _
  | some r =>
    have h1 := importMod_le w st _ r hi
    obtain ⟨s1, e1⟩ := r
    cases e1 with
    | some e => exact h1
    | none =>
      simp only
      split
      · exact h1.trans (importSubs_le w _ _ s1)
      · exact h1

theorem getLoop_le (w : World) (iface : ClassId) (r : Ref) (n : Nat) (st : St) (searched : List Mod) :
    StLe st (getLoop w iface r n st searched).1 := by
  induction n generalizing st searched with
  | zero => exact StLe.refl _
  | succ n ih =>
    simp only [getLoop]
    split
    · exact StLe.refl _
    · cases hn : nextPath (getBank iface st.banks) r searched with
      | none => exact StLe.refl _
      | some p =>
        simp only
        have h1 := loadPath_le w st p
        cases hl : loadPath w st p with
        | mk s1 e1 =>
          rw [hl] at h1
          cases e1 with
          | some e => exact h1
          | none => exact h1.trans (ih s1 _)

/-- a lookup never removes anything from the process state — in particular no search path of any bank -/
theorem get_le (w : World) (st : St) (iface : ClassId) (r : Ref) : StLe st (get w st iface r).1 := by
  unfold get
  have h1 := getLoop_le w iface r (searchFuel w) st []
  cases hl : getLoop w iface r (searchFuel w) st [] with
  | mk s1 e1 =>
    rw [hl] at h1
    cases e1 with
    | some e => exact h1
    | none =>
      simp only [finish]
      split <;> exact h1

/-- a returned class is bound in the resulting state -/
theorem get_ok_bound (w : World) (st : St) (iface : ClassId) (r : Ref) (c : ClassId)
    (h : (get w st iface r).2 = .ok c) :
    lookupRef r (getBank iface (get w st iface r).1.banks).provider = some c := by
  unfold get at h ⊢
  generalize getLoop w iface r (searchFuel w) st [] = res at h ⊢
  obtain ⟨s1, e1⟩ := res
  cases e1 with
  | some e => simp [finish] at h
  | none =>
    simp only [finish] at h ⊢
    cases h2 : lookupRef r (getBank iface s1.banks).provider with
    | none => simp [h2] at h
    | some d => simp only [h2] at h ⊢; cases h; rfl

/-- a bound reference is answered from the table (the loop is not entered) -/
theorem get_of_bound (w : World) (st : St) (iface : ClassId) (r : Ref) (c : ClassId)
    (h : lookupRef r (getBank iface st.banks).provider = some c) : get w st iface r = (st, .ok c) := by
  simp [get, searchFuel, getLoop, h, finish]

/-- what a process does between two lookups: `import` statements (each in try/except) and other lookups -/
inductive HOp where
  | imp : Mod → HOp
  | get : ClassId → Ref → HOp

def runHist (w : World) (st : St) : List HOp → St
  | [] => st
  | .imp m :: rest =>
    match importMod w st m with
    | none => runHist w (afterNotFound w st m) rest
    | some (st', _) => runHist w st' rest
  | .get i r :: rest => runHist w (get w st i r).1 rest

theorem runHist_le (w : World) (ops : List HOp) (st : St) : StLe st (runHist w st ops) := by
  induction ops generalizing st with
  | nil => exact StLe.refl _
  | cons op rest ih =>
    cases op with
    | imp m =>
      simp only [runHist]
      cases hi : importMod w st m with
      | none => exact (afterNotFound_le w st m).trans (ih _)
      | some r =>
        obtain ⟨s1, e1⟩ := r
        exact (importMod_le w st m _ hi).trans (ih s1)
    | get i r =>
      simp only [runHist]
      exact (get_le w st i r).trans (ih _)

theorem runHist_sound (w : World) (ops : List HOp) (st : St) (hs : StSound (InWorld w) st) :
    StSound (InWorld w) (runHist w st ops) := by
  induction ops generalizing st with
  | nil => exact hs
  | cons op rest ih =>
    cases op with
    | imp m =>
      simp only [runHist]
      cases hi : importMod w st m with
      | none => exact ih _ (afterNotFound_sound w st m hs)
      | some r =>
        obtain ⟨s1, e1⟩ := r
        exact ih s1 (importMod_sound w st m hs _ hi)
    | get i r =>
      simp only [runHist]
      exact ih _ (get_sound w st i r hs).1

/-! ### `importlib.reload` -/

theorem reloadClasses_le (interned : List Nat) (cs : List ClassDef) (st : St) : StLe st (reloadClasses interned st cs).1 := by
  induction cs generalizing st with
  | nil => exact StLe.refl _
  | cons c rest ih =>
    simp only [reloadClasses]
    split
    · exact StLe.refl _
    · have h1 := initSubclass_le c st
      cases hi : initSubclass st c with
      | mk s1 e1 =>
        rw [hi] at h1
        cases e1 with
        | some e => exact h1
        | none => exact h1.trans (ih s1)

theorem reloadClasses_sound {U : ClassDef → Prop} (interned : List Nat) (cs : List ClassDef) (hU : ∀ c ∈ cs, U c) (st : St)
    (hs : StSound U st) : StSound U (reloadClasses interned st cs).1 := by
  induction cs generalizing st with
  | nil => simpa [reloadClasses] using hs
  | cons c rest ih =>
    simp only [reloadClasses]
    split
    · exact hs
    · have h1 := initSubclass_sound (hU c (by simp)) st hs
      cases hi : initSubclass st c with
      | mk s1 e1 =>
        rw [hi] at h1
        cases e1 with
        | some e => simpa using h1
        | none => exact ih (fun c hc => hU c (List.mem_cons_of_mem _ hc)) s1 h1

/-- executing a class statement again (same module, same qualname string) re-registers the class: no collision, every
binding as before -/
theorem add_again {b b1 : Bank} {c : ClassDef} (h : b.add c = .ok b1) :
    ∃ b2, b1.add c = .ok b2 ∧ ∀ r, lookupRef r b2.provider = lookupRef r b1.provider := by
  have hcol : collides b1 c = false := by
    rw [collides_false_iff]
    intro r hr d hd
    rw [lookup_after_add h] at hd
    by_cases ha : c.abstract = false
    · simp only [ha, hr, and_self, if_true, Option.some.injEq] at hd
      exact hd.symm
    · have hcb := (collides_false_iff b c).1 (add_ok' h).1
      simp only [ha] at hd
      exact hcb r hr d hd
  obtain ⟨b2, hb2⟩ := add_of_not_collides hcol
  refine ⟨b2, hb2, ?_⟩
  intro r
  rw [lookup_after_add hb2, lookup_after_add h]
  by_cases hx : c.abstract = false ∧ r ∈ refs c <;> simp [hx]

end ForML.Bank
