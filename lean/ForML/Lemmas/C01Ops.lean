/-
C01 — `Table.add` as a straight-line program over the primitives, and the decomposition of a program run into
three independent folds (index, absolute linkage, prefixed linkage) plus the error flag.
-/
import ForML.Lemmas.C01Prim

namespace ForML.Flow
open CState Segment

/-- one primitive step of the compiler -/
inductive Op where
  | checkFresh (k : Key)                 -- `assert node.uid not in self._index`
  | isetAbsent (o : Obj) (k : Key)       -- `if state not in self._index: self._index.set(Loader, state)`
  | iset (o : Obj) (k : Key)             -- `Index.set`
  | ensureCommitter                      -- `if not self._committer: self._committer = self._index.set(Committer)`
  | ireset (a b : Key)                   -- `Index.reset`
  | linsert (k a : Key) (i : Option Nat) -- `Linkage.insert`
  | linsertC (a : Key) (i : Nat)         -- `Linkage.insert(self._committer, dumper, offset)`
  | prepend (k a : Key)                  -- `Linkage.prepend`
  | fail (e : CErr)
  deriving Repr

def Op.apply (s : CState) : Op → CState
  | .checkFresh k => if (aget k s.index).isSome then s.raise .assertion else s
  | .isetAbsent o k => if (aget k s.index).isNone then s.iset o k else s
  | .iset o k => s.iset o k
  | .ensureCommitter =>
    if s.committer.isNone then { s.iset ⟨.committer, .committer⟩ .committer with committer := some .committer } else s
  | .ireset a b => s.ireset a b
  | .linsert k a i => s.linsert k a i
  | .linsertC a i => s.linsert (s.committer.getD .committer) a (some i)
  | .prepend k a => s.prepend k a
  | .fail e => s.raise e

def runOps (s : CState) (ops : List Op) : CState := ops.foldl Op.apply s

theorem runOps_append (s : CState) (a b : List Op) : runOps s (a ++ b) = runOps (runOps s a) b := by
  simp [runOps, List.foldl_append]

/-- the functor object of worker `w` -/
def functorObj (g : Segment) (A : Option Assets) (w : Worker) : Obj := ⟨.uid w.uid, (g.functorSym A w).instr⟩

/-- key preset as the state of `w` (before alias resolution) -/
def stateKey (g : Segment) (A : Option Assets) (w : Worker) : Key :=
  if g.isTrainer w && persistentW A w then .loader w.gid else .gid w.gid

/-- `Linkage.update` as a program -/
def updProg (g : Segment) (w : Worker) : List Op :=
  if w.szout = 1 then
    (g.subscribers w.uid 0).map (fun e => Op.linsert (.uid e.sub) (.uid w.uid) (some e.subPort.index))
  else
    (List.range w.szout).flatMap (fun i =>
      [Op.iset ⟨.getter w.uid i, .getter i⟩ (.getter w.uid i), Op.linsert (.getter w.uid i) (.uid w.uid) none] ++
        (g.subscribers w.uid i).map (fun e => Op.linsert (.uid e.sub) (.getter w.uid i) (some e.subPort.index)))

/-- link of the dumper into the committer at the group's list position -/
def commitOp (A : Option Assets) (w : Worker) : Op :=
  match A.bind (·.offset w.gid) with
  | some off => Op.linsertC (.dumper w.uid) off
  | none => Op.fail .unexpected

/-- the persistent trainer's block: committer, dumper, loader re-keyed -/
def dumpProg (g : Segment) (A : Option Assets) (w : Worker) : List Op :=
  if g.isTrainer w && persistentW A w then
    [Op.ensureCommitter, Op.iset ⟨.dumper w.uid, .dumper⟩ (.dumper w.uid), Op.linsert (.dumper w.uid) (.uid w.uid) none,
     commitOp A w, Op.ireset (.gid w.gid) (.loader w.gid)]
  else []

/-- `Table.add(node)` up to (excluding) `Linkage.update`, as a program -/
def progHead (g : Segment) (A : Option Assets) (w : Worker) : List Op :=
  [Op.checkFresh (.uid w.uid)]
  ++ (if persistentW A w then [Op.isetAbsent ⟨.loader w.gid, .loader w.gid⟩ (.gid w.gid)] else [])
  ++ dumpProg g A w
  ++ (if g.hasPreset A w then [Op.prepend (.uid w.uid) (stateKey g A w)] else [])
  ++ (if g.isTrainer w then [Op.iset (functorObj g A w) (.uid w.uid), Op.iset (functorObj g A w) (.gid w.gid)]
      else [Op.iset (functorObj g A w) (.uid w.uid)])

/-- `Table.add(node)` as a program -/
def prog (g : Segment) (A : Option Assets) (w : Worker) : List Op :=
  progHead g A w ++ (if g.trained w.uid then [] else updProg g w)

theorem update_eq (s : CState) (g : Segment) (w : Worker) : s.update g w = runOps s (updProg g w) := by
  unfold CState.update updProg runOps
  split
  · rw [List.foldl_map]; rfl
  · rw [List.foldl_flatMap]
    congr 1
    funext s i
    simp only [List.foldl_append, List.foldl_cons, List.foldl_nil, List.foldl_map]
    rfl

/-- body of `add` with the conditions it reads from the node as parameters (definitionally `add`) -/
def addCore (tr dv pers stateful : Bool) (off : Option Nat) (n : Uid) (γ : Gid) (actor : Actor)
    (upd : CState → CState) (s : CState) : CState :=
  let uid := Key.uid n
  let s := if (aget uid s.index).isSome then s.raise .assertion else s
  let s := if pers && (aget (Key.gid γ) s.index).isNone then s.iset ⟨.loader γ, .loader γ⟩ (.gid γ) else s
  let isTrainer := stateful && tr
  let s := if isTrainer && pers then
      let s := if s.committer.isNone
        then { s.iset ⟨.committer, .committer⟩ .committer with committer := some .committer } else s
      let dumper := Key.dumper n
      let s := s.iset ⟨dumper, .dumper⟩ dumper
      let s := s.linsert dumper uid none
      let s := match off with
        | some off => s.linsert (s.committer.getD .committer) dumper (some off)
        | none => s.raise .unexpected
      s.ireset (.gid γ) (.loader γ)
    else s
  let state := if isTrainer && pers then Key.loader γ else Key.gid γ
  let preset := stateful && (pers || dv)
  let s := if preset then s.prepend uid state else s
  let functor : Obj := ⟨uid, .functor actor (if isTrainer then .train else .apply) (if preset then [.setState] else [])⟩
  let aliases := if isTrainer then [uid, Key.gid γ] else [uid]
  let s := aliases.foldl (fun s k => s.iset functor k) s
  if !tr then upd s else s

def progCore (tr dv pers stateful : Bool) (off : Option Nat) (n : Uid) (γ : Gid) (actor : Actor) : List Op :=
  let F : Obj := ⟨.uid n, .functor actor (if stateful && tr then .train else .apply)
    (if stateful && (pers || dv) then [.setState] else [])⟩
  [Op.checkFresh (.uid n)]
  ++ (if pers then [Op.isetAbsent ⟨.loader γ, .loader γ⟩ (.gid γ)] else [])
  ++ (if stateful && tr && pers then
        [Op.ensureCommitter, Op.iset ⟨.dumper n, .dumper⟩ (.dumper n), Op.linsert (.dumper n) (.uid n) none,
         (match off with
          | some off => Op.linsertC (.dumper n) off
          | none => Op.fail .unexpected),
         Op.ireset (.gid γ) (.loader γ)]
      else [])
  ++ (if stateful && (pers || dv) then
        [Op.prepend (.uid n) (if stateful && tr && pers then .loader γ else .gid γ)] else [])
  ++ (if stateful && tr then [Op.iset F (.uid n), Op.iset F (.gid γ)] else [Op.iset F (.uid n)])

theorem addCore_eq (tr dv pers stateful : Bool) (off : Option Nat) (n : Uid) (γ : Gid) (actor : Actor)
    (upd : CState → CState) (s : CState) :
    addCore tr dv pers stateful off n γ actor upd s =
      if tr then runOps s (progCore tr dv pers stateful off n γ actor)
      else upd (runOps s (progCore tr dv pers stateful off n γ actor)) := by
  cases tr <;> cases dv <;> cases pers <;> cases stateful <;> (try (cases off)) <;>
    simp [addCore, progCore, runOps, Op.apply]

theorem add_head_eq (g : Segment) (A : Option Assets) (s : CState) (w : Worker) :
    add g A s w = if g.trained w.uid then runOps s (progHead g A w) else (runOps s (progHead g A w)).update g w := by
  have h1 : add g A s w = addCore (g.trained w.uid) (g.derived w) (persistentW A w) w.stateful
      (A.bind (·.offset w.gid)) w.uid w.gid w.actor (·.update g w) s := rfl
  have h2 : progHead g A w = progCore (g.trained w.uid) (g.derived w) (persistentW A w) w.stateful
      (A.bind (·.offset w.gid)) w.uid w.gid w.actor := rfl
  rw [h1, h2, addCore_eq]

theorem add_eq (g : Segment) (A : Option Assets) (s : CState) (w : Worker) : add g A s w = runOps s (prog g A w) := by
  rw [add_head_eq, prog, runOps_append]
  split
  · simp [runOps]
  · rw [update_eq]

/-! ### the three components evolve independently -/

abbrev IdxS := List (Key × Obj) × Option Key
abbrev AbsS := List (Key × List (Option Key))
abbrev PreS := List (Key × List Key)

/-- effect of one step on `Index` (+ `Table._committer`); `none` = an assertion fires -/
def idxStep (ic : IdxS) : Op → Option IdxS
  | .checkFresh k => if (aget k ic.1).isSome then none else some ic
  | .isetAbsent o k => if (aget k ic.1).isNone then some (ic.1 ++ [(k, o)], ic.2) else some ic
  | .iset o k => if (aget k ic.1).isSome then none else some (ic.1 ++ [(k, o)], ic.2)
  | .ensureCommitter =>
    if ic.2.isNone then
      (if (aget Key.committer ic.1).isSome then none
       else some (ic.1 ++ [(Key.committer, ⟨.committer, .committer⟩)], some .committer))
    else some ic
  | .ireset a b =>
    match aget a ic.1 with
    | none => none
    | some o => if (aget b (adel a ic.1)).isSome then none else some (adel a ic.1 ++ [(b, o)], ic.2)
  | .fail _ => none
  | _ => some ic

def absIns (abs : AbsS) (k a : Key) (i : Option Nat) : Option AbsS :=
  let args := (aget k abs).getD []
  if (i = none ∧ ¬ args.length ≤ 1) ∨ (args.getD (i.getD 0) none).isSome then none
  else some (aset k (CState.putAt args (i.getD 0) a) abs)

/-- effect of one step on `Linkage._absolute` -/
def absStep (abs : AbsS) : Op → Option AbsS
  | .linsert k a i => absIns abs k a i
  | .linsertC a i => absIns abs .committer a (some i)
  | _ => some abs

/-- effect of one step on `Linkage._prefixed` -/
def preStep (pre : PreS) : Op → PreS
  | .prepend k a => aset k ((aget k pre).getD [] ++ [a]) pre
  | _ => pre

def idxRun : IdxS → List Op → Option IdxS
  | ic, [] => some ic
  | ic, op :: r => (idxStep ic op).bind (idxRun · r)

def absRun : AbsS → List Op → Option AbsS
  | abs, [] => some abs
  | abs, op :: r => (absStep abs op).bind (absRun · r)

def preRun (pre : PreS) (ops : List Op) : PreS := ops.foldl preStep pre

theorem idxRun_append (ic : IdxS) (a b : List Op) : idxRun ic (a ++ b) = (idxRun ic a).bind (idxRun · b) := by
  induction a generalizing ic with
  | nil => rfl
  | cons op r ih =>
    simp only [List.cons_append, idxRun]
    cases idxStep ic op with
    | none => rfl
    | some ic' => exact ih ic'

theorem absRun_append (abs : AbsS) (a b : List Op) : absRun abs (a ++ b) = (absRun abs a).bind (absRun · b) := by
  induction a generalizing abs with
  | nil => rfl
  | cons op r ih =>
    simp only [List.cons_append, absRun]
    cases absStep abs op with
    | none => rfl
    | some abs' => exact ih abs'

theorem preRun_append (pre : PreS) (a b : List Op) : preRun pre (a ++ b) = preRun (preRun pre a) b := by
  simp [preRun, List.foldl_append]

/-- `Table._committer` is unset or the committer key -/
def CommOK (c : Option Key) : Prop := c = none ∨ c = some Key.committer

theorem CState.ext' {s t : CState} (h1 : s.index = t.index) (h2 : s.absolute = t.absolute) (h3 : s.prefixed = t.prefixed)
    (h4 : s.committer = t.committer) (h5 : s.fail = t.fail) : s = t := by
  cases s; cases t; simp_all

theorem absIns_linsert {s : CState} {k a : Key} {i : Option Nat} {B : AbsS} (h : absIns s.absolute k a i = some B) :
    (s.linsert k a i).absolute = B ∧ (s.linsert k a i).fail = s.fail := by
  unfold absIns at h
  simp only at h
  split at h
  · cases h
  · rename_i hc
    cases h
    simp only [not_or, not_and, Decidable.not_not, Bool.not_eq_true, Option.isSome_eq_false_iff,
      Option.isNone_iff_eq_none] at hc
    refine ⟨CState.linsert_absolute s k a i, CState.linsert_fail hc.1 ?_⟩
    exact hc.2

theorem step_decomp {s : CState} {op : Op} {I' : List (Key × Obj)} {c' : Option Key} {B' : AbsS}
    (hf : s.fail = none) (hc : CommOK s.committer)
    (hi : idxStep (s.index, s.committer) op = some (I', c')) (ha : absStep s.absolute op = some B') :
    Op.apply s op = ⟨I', B', preStep s.prefixed op, c', none⟩ ∧ CommOK c' := by
  cases op with
  | checkFresh k =>
    simp only [idxStep] at hi
    split at hi
    · cases hi
    · rename_i h
      cases hi; cases ha
      simp only [Op.apply, h]
      exact ⟨CState.ext' rfl rfl rfl rfl hf, hc⟩
  | isetAbsent o k =>
    simp only [idxStep] at hi
    cases ha
    split at hi
    · rename_i h
      cases hi
      have hfr := CState.iset_fresh (s := s) (o := o) (k := k) (by simpa [CState.ix] using h)
      simp only [Op.apply, h, if_true]
      exact ⟨CState.ext' hfr.1 (by simp) (by simp [preStep]) (by simp) (by rw [hfr.2, hf]), hc⟩
    · rename_i h
      cases hi
      simp only [Op.apply, h]
      exact ⟨CState.ext' rfl rfl rfl rfl hf, hc⟩
  | iset o k =>
    simp only [idxStep] at hi
    cases ha
    split at hi
    · cases hi
    · rename_i h
      cases hi
      have hfr := CState.iset_fresh (s := s) (o := o) (k := k) (by simpa [CState.ix] using h)
      simp only [Op.apply]
      exact ⟨CState.ext' hfr.1 (by simp) (by simp [preStep]) (by simp) (by rw [hfr.2, hf]), hc⟩
  | ensureCommitter =>
    simp only [idxStep] at hi
    cases ha
    split at hi
    · rename_i hn
      split at hi
      · cases hi
      · rename_i h
        cases hi
        have hfr := CState.iset_fresh (s := s) (o := ⟨.committer, .committer⟩) (k := .committer)
          (by simpa [CState.ix] using h)
        simp only [Op.apply, hn, if_true]
        exact ⟨CState.ext' hfr.1 (by simp) (by simp [preStep]) rfl (by simp only; rw [hfr.2, hf]), Or.inr rfl⟩
    · rename_i hn
      cases hi
      simp only [Op.apply, hn]
      exact ⟨CState.ext' rfl rfl rfl rfl hf, hc⟩
  | ireset a b =>
    simp only [idxStep] at hi
    cases ha
    cases hget : aget a s.index with
    | none => simp [hget] at hi
    | some o =>
      simp only [hget] at hi
      split at hi
      · cases hi
      · rename_i h
        cases hi
        have hr := CState.ireset_ok (s := s) (orig := a) (new := b) (o := o) hget (by simpa using h)
        simp only [Op.apply]
        exact ⟨CState.ext' hr.1 (by simp) (by simp [preStep]) (by simp) (by rw [hr.2, hf]), hc⟩
  | linsert k a i =>
    cases hi
    simp only [absStep] at ha
    have := absIns_linsert ha
    simp only [Op.apply]
    exact ⟨CState.ext' (by simp) this.1 (by simp [preStep]) (by simp) (by rw [this.2, hf]), hc⟩
  | linsertC a i =>
    cases hi
    simp only [absStep] at ha
    have hk : s.committer.getD Key.committer = Key.committer := by
      rcases hc with h | h <;> simp [h]
    have := absIns_linsert ha
    simp only [Op.apply, hk]
    exact ⟨CState.ext' (by simp) this.1 (by simp [preStep]) (by simp) (by rw [this.2, hf]), hc⟩
  | prepend k a =>
    cases hi; cases ha
    simp only [Op.apply]
    exact ⟨CState.ext' rfl rfl rfl rfl hf, hc⟩
  | fail e => simp [idxStep] at hi

/-- a program run = the three component runs, when no assertion fires -/
theorem runOps_decomp (ops : List Op) : ∀ (s : CState) (I' : List (Key × Obj)) (c' : Option Key) (B' : AbsS),
    s.fail = none → CommOK s.committer → idxRun (s.index, s.committer) ops = some (I', c') →
    absRun s.absolute ops = some B' →
    runOps s ops = ⟨I', B', preRun s.prefixed ops, c', none⟩ ∧ CommOK c' := by
  induction ops with
  | nil =>
    intro s I' c' B' hf hc hi ha
    cases hi; cases ha
    exact ⟨CState.ext' rfl rfl rfl rfl hf, hc⟩
  | cons op r ih =>
    intro s I' c' B' hf hc hi ha
    simp only [idxRun, absRun] at hi ha
    cases h1 : idxStep (s.index, s.committer) op with
    | none => simp [h1] at hi
    | some ic1 =>
      cases h2 : absStep s.absolute op with
      | none => simp [h2] at ha
      | some B1 =>
        obtain ⟨I1, c1⟩ := ic1
        simp only [h1, h2, Option.bind_some] at hi ha
        obtain ⟨hstep, hc1⟩ := step_decomp hf hc h1 h2
        have := ih (Op.apply s op) I' c' B' (by rw [hstep]) (by rw [hstep]; exact hc1)
          (by rw [hstep]; exact hi) (by rw [hstep]; exact ha)
        simp only [runOps, List.foldl_cons] at this ⊢
        rw [this.1]
        refine ⟨?_, this.2⟩
        rw [hstep]
        simp [preRun]

end ForML.Flow
