/-
C01 — `segment.accept(table)` as one program; the prefixed-linkage component of the final state.
-/
import ForML.Lemmas.C01Ops

namespace ForML.Flow
open CState Segment

/-- the program run for visited node `n` -/
def nodeProg (g : Segment) (A : Option Assets) (n : Uid) : List Op :=
  match g.worker? n with
  | some w => prog g A w
  | none => [Op.fail .assertion]

def allProg (g : Segment) (A : Option Assets) (order : List Uid) : List Op := order.flatMap (nodeProg g A)

theorem addAll_eq (g : Segment) (A : Option Assets) (order : List Uid) :
    addAll g A order = runOps CState.init (allProg g A order) := by
  unfold addAll allProg
  generalize CState.init = s
  induction order generalizing s with
  | nil => rfl
  | cons n r ih =>
    simp only [List.foldl_cons, List.flatMap_cons, runOps_append]
    rw [ih]
    congr 1
    unfold nodeProg
    cases g.worker? n with
    | none => rfl
    | some w => exact add_eq g A s w

theorem allProg_snoc (g : Segment) (A : Option Assets) (vis : List Uid) (n : Uid) :
    allProg g A (vis ++ [n]) = allProg g A vis ++ nodeProg g A n := by
  simp [allProg]

/-! ### prefixed linkage -/

def Op.isPrepend : Op → Bool
  | .prepend _ _ => true
  | _ => false

theorem preRun_noPrepend (pre : PreS) (ops : List Op) (h : ∀ op ∈ ops, op.isPrepend = false) : preRun pre ops = pre := by
  induction ops generalizing pre with
  | nil => rfl
  | cons op r ih =>
    simp only [preRun, List.foldl_cons]
    have : preStep pre op = pre := by
      have := h op List.mem_cons_self
      cases op <;> simp_all [preStep, Op.isPrepend]
    rw [this]
    exact ih pre (fun o ho => h o (List.mem_cons_of_mem _ ho))

theorem updProg_noPrepend (g : Segment) (w : Worker) : ∀ op ∈ updProg g w, op.isPrepend = false := by
  intro op hop
  unfold updProg at hop
  split at hop
  · simp only [List.mem_map] at hop
    obtain ⟨e, _, rfl⟩ := hop; rfl
  · simp only [List.mem_flatMap, List.mem_range, List.mem_append, List.mem_cons, List.mem_map] at hop
    obtain ⟨i, _, (rfl | rfl | h) | ⟨e, _, rfl⟩⟩ := hop
    · rfl
    · rfl
    · cases h
    · rfl

theorem preRun_prog (g : Segment) (A : Option Assets) (w : Worker) (pre : PreS) :
    preRun pre (prog g A w) =
      if g.hasPreset A w then aset (.uid w.uid) ((aget (Key.uid w.uid) pre).getD [] ++ [stateKey g A w]) pre else pre := by
  unfold prog progHead
  simp only [preRun_append]
  have hupd : ∀ p, preRun p (if g.trained w.uid then [] else updProg g w) = p := by
    intro p
    split
    · rfl
    · exact preRun_noPrepend p _ (updProg_noPrepend g w)
  rw [hupd]
  have h1 : ∀ p, preRun p [Op.checkFresh (.uid w.uid)] = p := fun _ => rfl
  have h2 : ∀ p, preRun p (if persistentW A w then [Op.isetAbsent ⟨.loader w.gid, .loader w.gid⟩ (.gid w.gid)] else []) = p := by
    intro p; split <;> rfl
  have h3 : ∀ p, preRun p (dumpProg g A w) = p := by
    intro p
    unfold dumpProg commitOp
    split
    · cases A.bind (·.offset w.gid) <;> rfl
    · rfl
  have h5 : ∀ p, preRun p (if g.isTrainer w then [Op.iset (functorObj g A w) (.uid w.uid), Op.iset (functorObj g A w) (.gid w.gid)]
      else [Op.iset (functorObj g A w) (.uid w.uid)]) = p := by
    intro p; split <;> rfl
  rw [h5, h1, h2, h3]
  split <;> rfl

/-- what `Linkage._prefixed` holds after visiting `vis` -/
structure PreInv (g : Segment) (A : Option Assets) (vis : List Uid) (pre : PreS) : Prop where
  keys : (pre.map (·.1)).Nodup
  sound : ∀ k l, aget k pre = some l →
    ∃ w, g.worker? w.uid = some w ∧ k = .uid w.uid ∧ w.uid ∈ vis ∧ g.hasPreset A w = true ∧ l = [stateKey g A w]
  complete : ∀ w, g.worker? w.uid = some w → w.uid ∈ vis → g.hasPreset A w = true →
    aget (.uid w.uid) pre = some [stateKey g A w]

theorem snoc_induction {α : Type} {P : List α → Prop} (h0 : P []) (hs : ∀ l a, P l → P (l ++ [a])) : ∀ l, P l := by
  intro l
  rw [← List.reverse_reverse l]
  induction l.reverse with
  | nil => exact h0
  | cons a r ih => rw [List.reverse_cons]; exact hs _ _ ih

theorem aset_keys_nodup {κ α : Type} [DecidableEq κ] {k : κ} {v : α} {l : List (κ × α)} (h : (l.map (·.1)).Nodup) :
    ((aset k v l).map (·.1)).Nodup := by
  induction l with
  | nil => simp [aset]
  | cons y r ih =>
    obtain ⟨k', v'⟩ := y
    simp only [List.map_cons, List.nodup_cons] at h
    simp only [aset]
    split
    · subst_vars; simpa using h
    · rename_i hne
      simp only [List.map_cons, List.nodup_cons]
      refine ⟨?_, ih h.2⟩
      intro hmem
      rcases aset_keys_mem.mp hmem with heq | hmem
      · exact hne heq
      · exact h.1 hmem

theorem preInv_all (g : Segment) (A : Option Assets) (order : List Uid) (hnd : order.Nodup)
    (hw : ∀ n ∈ order, (g.worker? n).isSome) : PreInv g A order (preRun [] (allProg g A order)) := by
  revert hnd hw
  refine snoc_induction (P := fun order => order.Nodup → (∀ n ∈ order, (g.worker? n).isSome) →
    PreInv g A order (preRun [] (allProg g A order))) ?_ ?_ order
  · intro _ _
    exact ⟨by simp [allProg, preRun], fun k l h => by simp [allProg, preRun, aget] at h, fun w _ h => by cases h⟩
  · intro vis n ih hnd hw
    have hnd' : vis.Nodup := (List.nodup_append.mp hnd).1
    have hn : n ∉ vis := fun h => (List.nodup_append.mp hnd).2.2 n h n (by simp) rfl
    have ih := ih hnd' (fun m hm => hw m (List.mem_append_left _ hm))
    obtain ⟨w, hwn⟩ := Option.isSome_iff_exists.mp (hw n (by simp))
    obtain ⟨_, rfl⟩ := worker?_some hwn
    rw [allProg_snoc, preRun_append]
    generalize preRun [] (allProg g A vis) = pre at ih
    have hnp : nodeProg g A w.uid = prog g A w := by simp [nodeProg, hwn]
    rw [hnp, preRun_prog]
    have hfresh : aget (Key.uid w.uid) pre = none := by
      cases h : aget (Key.uid w.uid) pre with
      | none => rfl
      | some l =>
        obtain ⟨w', _, hk, hv, _⟩ := ih.sound _ _ h
        have hk' : w.uid = w'.uid := Key.uid.inj hk
        exact absurd hv (by rw [← hk']; exact hn)
    split
    · rename_i hpre
      simp only [hfresh, Option.getD_none, List.nil_append]
      refine ⟨aset_keys_nodup ih.keys, ?_, ?_⟩
      · intro k l h
        rw [aget_aset] at h
        split at h
        · cases h; subst_vars
          exact ⟨w, hwn, rfl, by simp, hpre, rfl⟩
        · obtain ⟨w', h1, h2, h3, h4, h5⟩ := ih.sound k l h
          exact ⟨w', h1, h2, List.mem_append_left _ h3, h4, h5⟩
      · intro w' hw' hv hp
        rw [aget_aset]
        split
        · rename_i heq
          have heq' : w.uid = w'.uid := Key.uid.inj heq
          have : w' = w := by rw [← heq', hwn] at hw'; cases hw'; rfl
          subst this; rfl
        · rename_i hne
          rcases List.mem_append.mp hv with hv | hv
          · exact ih.complete w' hw' hv hp
          · simp only [List.mem_singleton] at hv
            exact absurd (congrArg Key.uid hv.symm) hne
    · rename_i hpre
      refine ⟨ih.keys, ?_, ?_⟩
      · intro k l h
        obtain ⟨w', h1, h2, h3, h4, h5⟩ := ih.sound k l h
        exact ⟨w', h1, h2, List.mem_append_left _ h3, h4, h5⟩
      · intro w' hw' hv hp
        rcases List.mem_append.mp hv with hv | hv
        · exact ih.complete w' hw' hv hp
        · simp only [List.mem_singleton] at hv
          have : w' = w := by rw [hv] at hw'; rw [hw'] at hwn; cases hwn; rfl
          subst this
          exact absurd hp hpre

end ForML.Flow
