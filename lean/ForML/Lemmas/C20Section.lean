/- Section resolution (`Model/ConfSection.lean`): the sorted multi-section result and its independence of the order in
which the references are listed (C20). -/
import ForML.Model.ConfSection
import ForML.Lemmas.C20Conf

namespace ForML.Conf

/-- `resolveSection` (Model/Conf.lean) is `Section.__new__` + the extraction `extractKw` on the section's options -/
theorem resolveSection_extract (cfg : Cfg) (g r kp kq : Nat) :
    resolveSection cfg g r kp kq =
      match child cfg g with
      | none => .error .missing
      | some (.table gt) =>
        (match lookup r gt with
         | none => .error .missing
         | some (.table kw) => extractKw kw kp kq
         | some _ => .error .malformed)
      | some _ => .error .malformed := by
  unfold resolveSection
  cases child cfg g with
  | none => rfl
  | some v =>
    cases v with
    | scalar _ => rfl
    | list _ => rfl
    | table gt =>
      simp only
      cases lookup r gt with
      | none => rfl
      | some s =>
        cases s with
        | scalar _ => rfl
        | list _ => rfl
        | table kw => rfl

/-! ### `Feed.__lt__` is the lexicographic order of (priority, provider reference) -/

/-- `a` may stand before `b` -/
def Entry.le (a b : Entry) : Bool := !b.lt a

theorem Entry.le_iff (a b : Entry) : a.le b = true ↔ a.prio < b.prio ∨ (a.prio = b.prio ∧ a.ref ≤ b.ref) := by
  unfold Entry.le Entry.lt
  by_cases h : b.prio = a.prio
  · rw [if_pos h]; simp only [Bool.not_eq_true', decide_eq_false_iff_not]; omega
  · rw [if_neg h]; simp only [Bool.not_eq_true', decide_eq_false_iff_not]; omega

theorem Entry.le_total (a b : Entry) : a.le b = true ∨ b.le a = true := by
  rw [Entry.le_iff, Entry.le_iff]; omega

theorem Entry.le_trans {a b c : Entry} (h1 : a.le b = true) (h2 : b.le c = true) : a.le c = true := by
  rw [Entry.le_iff] at *; omega

theorem Entry.le_of_lt {a b : Entry} (h : a.lt b = true) : a.le b = true := by
  rw [Entry.le_iff]
  simp only [Entry.lt] at h
  by_cases hp : a.prio = b.prio
  · simp only [hp, if_true, decide_eq_true_eq] at h; omega
  · simp only [hp, if_false, decide_eq_true_eq] at h; omega

theorem Entry.le_of_not_lt {a b : Entry} (h : a.lt b = false) : b.le a = true := by
  simp [Entry.le, h]

/-! ### `sorted` -/

theorem insertE_perm (e : Entry) (l : List Entry) : (insertE e l).Perm (e :: l) := by
  induction l with
  | nil => simp [insertE]
  | cons x rest ih =>
    simp only [insertE]
    split
    · exact List.Perm.refl _
    · exact (List.Perm.cons x ih).trans (List.Perm.swap e x rest)

theorem foldl_insertE_perm (l acc : List Entry) : (l.foldl (fun acc e => insertE e acc) acc).Perm (acc ++ l) := by
  induction l generalizing acc with
  | nil => simp
  | cons e l ih =>
    simp only [List.foldl_cons]
    refine (ih (insertE e acc)).trans ?_
    refine (List.Perm.append_right l (insertE_perm e acc)).trans ?_
    simp only [List.cons_append]
    exact (List.perm_middle (l₁ := acc) (a := e) (l₂ := l)).symm

/-- the sorted result lists exactly the entries it was given -/
theorem sortE_perm (l : List Entry) : (sortE l).Perm l := by
  simpa [sortE] using foldl_insertE_perm l []

def SortedE (l : List Entry) : Prop := l.Pairwise (fun a b => a.le b = true)

theorem insertE_sorted (e : Entry) (l : List Entry) (h : SortedE l) : SortedE (insertE e l) := by
  induction l with
  | nil => simp [insertE, SortedE]
  | cons x rest ih =>
    have hx := List.pairwise_cons.1 h
    simp only [insertE]
    split
    · rename_i hlt
      refine List.pairwise_cons.2 ⟨?_, h⟩
      intro y hy
      rcases List.mem_cons.1 hy with rfl | hy
      · exact Entry.le_of_lt hlt
      · exact Entry.le_trans (Entry.le_of_lt hlt) (hx.1 y hy)
    · rename_i hlt
      refine List.pairwise_cons.2 ⟨?_, ih hx.2⟩
      intro y hy
      rcases List.mem_cons.1 ((insertE_perm e rest).mem_iff.1 hy) with rfl | hy
      · exact Entry.le_of_not_lt (by simpa using hlt)
      · exact hx.1 y hy

theorem foldl_insertE_sorted (l acc : List Entry) (h : SortedE acc) :
    SortedE (l.foldl (fun acc e => insertE e acc) acc) := by
  induction l generalizing acc with
  | nil => exact h
  | cons e l ih => exact ih _ (insertE_sorted e acc h)

/-- the result of `sorted` is in `Feed.__lt__` order -/
theorem sortE_sorted (l : List Entry) : SortedE (sortE l) :=
  foldl_insertE_sorted l [] List.Pairwise.nil

/-- entries that `Feed.__lt__` cannot tell apart are the same entry (distinct (priority, provider) keys) -/
def KeysDistinct (l : List Entry) : Prop := ∀ a ∈ l, ∀ b ∈ l, a.prio = b.prio → a.ref = b.ref → a = b

/-- with distinct keys the sorted result does not depend on the order in which the entries were given -/
theorem sortE_perm_eq {l l' : List Entry} (hp : l.Perm l') (hk : KeysDistinct l) : sortE l = sortE l' := by
  apply List.Perm.eq_of_pairwise (le := fun a b => a.le b = true)
  · intro a b ha hb h1 h2
    have ha' : a ∈ l := (sortE_perm l).mem_iff.1 ha
    have hb' : b ∈ l := hp.mem_iff.2 ((sortE_perm l').mem_iff.1 hb)
    rw [Entry.le_iff] at h1 h2
    exact hk a ha' b hb' (by omega) (by omega)
  · exact sortE_sorted l
  · exact sortE_sorted l'
  · exact ((sortE_perm l).trans hp).trans (sortE_perm l').symm

/-! ### the list of references -/

theorem entries_perm (cfg : Cfg) (group kp kq kr prio0 : Nat) {rs rs' : List Nat} (hp : rs.Perm rs') :
    ∀ xs, entries cfg group kp kq kr prio0 rs = .ok xs →
      ∃ xs', entries cfg group kp kq kr prio0 rs' = .ok xs' ∧ xs.Perm xs' := by
  induction hp with
  | nil => intro xs h; exact ⟨xs, h, List.Perm.refl _⟩
  | cons r _ ih =>
    intro xs h
    simp only [entries] at h ⊢
    cases hf : feedEntry cfg group r kp kq kr prio0 with
    | error e => simp [hf] at h
    | ok x =>
      simp only [hf] at h ⊢
      rename_i l1 l2 _
      cases he : entries cfg group kp kq kr prio0 l1 with
      | error e => simp [he] at h
      | ok ys =>
        simp only [he] at h
        cases h
        obtain ⟨ys', hys', hperm⟩ := ih ys he
        exact ⟨x :: ys', by simp [hys'], List.Perm.cons x hperm⟩
  | swap a b l =>
    intro xs h
    simp only [entries] at h ⊢
    cases hb : feedEntry cfg group b kp kq kr prio0 with
    | error e => simp [hb] at h
    | ok xb =>
      simp only [hb] at h ⊢
      cases ha : feedEntry cfg group a kp kq kr prio0 with
      | error e => simp [ha] at h
      | ok xa =>
        simp only [ha] at h ⊢
        cases he : entries cfg group kp kq kr prio0 l with
        | error e => simp [he] at h
        | ok ys =>
          simp only [he] at h ⊢
          cases h
          exact ⟨xa :: xb :: ys, rfl, List.Perm.swap xa xb ys⟩
  | trans _ _ ih1 ih2 =>
    intro xs h
    obtain ⟨ys, hys, hp1⟩ := ih1 xs h
    obtain ⟨zs, hzs, hp2⟩ := ih2 ys hys
    exact ⟨zs, hzs, hp1.trans hp2⟩

/-- one reference that does not resolve makes the whole multi-section fail -/
theorem entries_error (cfg : Cfg) (group kp kq kr prio0 : Nat) (rs : List Nat) (r : Nat) (hr : r ∈ rs) (e : SecErr)
    (h : feedEntry cfg group r kp kq kr prio0 = .error e) :
    ∃ e', entries cfg group kp kq kr prio0 rs = .error e' := by
  induction rs with
  | nil => simp at hr
  | cons r0 rest ih =>
    simp only [entries]
    cases hf : feedEntry cfg group r0 kp kq kr prio0 with
    | error e0 => exact ⟨e0, rfl⟩
    | ok x =>
      simp only
      rcases List.mem_cons.1 hr with hr | hr
      · subst hr; rw [h] at hf; cases hf
      · obtain ⟨e', he'⟩ := ih hr
        exact ⟨e', by simp [he']⟩

/-! ### R5: what `Provider._extract` leaves at every key (`kwargs.pop('provider')`, `kwargs.update(kwargs.pop('params', {}))`) -/

theorem lookup_filter_ne (k j : Nat) (t : Tbl) :
    lookup k (t.filter (fun e => e.1 != j)) = if k = j then none else lookup k t := by
  induction t with
  | nil => simp [lookup]
  | cons e r ih =>
    obtain ⟨k', v⟩ := e
    rw [List.filter_cons]
    by_cases h : k' = j
    · have hb : ((k', v).1 != j) = false := by simp [h]
      simp only [hb, Bool.false_eq_true, ↓reduceIte]
      rw [ih]
      by_cases hk : k = j
      · simp [hk]
      · have hk' : ¬ k' = k := by omega
        simp [hk, lookup, hk']
    · have hb : ((k', v).1 != j) = true := by simp [h]
      simp only [hb, ↓reduceIte]
      by_cases hk : k' = k
      · have hk' : ¬ k = j := by omega
        simp [lookup, hk, hk']
      · simp [lookup, hk, ih]

/-- the options that survive the two `pop`s -/
def restKw (kw : Tbl) (kp kq k : Nat) : Option Cfg := if k = kp ∨ k = kq then none else lookup k kw

/-- no `params` table: the provider option is taken out, everything else is a generic option as written -/
theorem extractKw_plain (kw : Tbl) (kp kq : Nat) (hne : kq ≠ kp) (h : lookup kq kw = none) :
    ∃ out, extractKw kw kp kq = .ok (lookup kp kw, out) ∧ ∀ k, lookup k out = restKw kw kp kq k := by
  have hq : lookup kq (kw.filter (fun e => e.1 != kp)) = none := by rw [lookup_filter_ne]; simp [hne, h]
  refine ⟨(kw.filter (fun e => e.1 != kp)).filter (fun e => e.1 != kq), by simp only [extractKw, hq], ?_⟩
  intro k
  rw [lookup_filter_ne, lookup_filter_ne, restKw]
  by_cases h1 : k = kq <;> by_cases h2 : k = kp <;> simp [h1, h2]

/-- a `params` table: its entries win over the section's own options of the same name (`dict.update`), `provider` and
`params` themselves are gone unless `params` brings them back -/
theorem extractKw_params (kw : Tbl) (kp kq : Nat) (ps : Tbl) (hne : kq ≠ kp) (h : lookup kq kw = some (.table ps)) :
    ∃ out, extractKw kw kp kq = .ok (lookup kp kw, out) ∧
      ∀ k, lookup k out = match lookup k ps with
        | some v => some v
        | none => restKw kw kp kq k := by
  have hq : lookup kq (kw.filter (fun e => e.1 != kp)) = some (.table ps) := by rw [lookup_filter_ne]; simp [hne, h]
  refine ⟨((kw.filter (fun e => e.1 != kp)).filter (fun e => e.1 != kq)).filter (fun e => (lookup e.1 ps).isNone) ++ ps,
    by simp only [extractKw, hq], ?_⟩
  intro k
  rw [lookup_append, lookup_filter_absent, lookup_filter_ne, lookup_filter_ne, restKw]
  cases hps : lookup k ps with
  | some v => simp
  | none => by_cases h1 : k = kq <;> by_cases h2 : k = kp <;> simp [h1, h2] <;> (cases lookup k kw <;> rfl)

/-- `params` that is not a table: the resolution fails, it never yields the remaining options only -/
theorem extractKw_malformed (kw : Tbl) (kp kq : Nat) (v : Cfg) (hne : kq ≠ kp) (h : lookup kq kw = some v)
    (hv : ∀ ps, v ≠ .table ps) : extractKw kw kp kq = .error .malformed := by
  have hq : lookup kq (kw.filter (fun e => e.1 != kp)) = some v := by rw [lookup_filter_ne]; simp [hne, h]
  cases v with
  | table ps => exact absurd rfl (hv ps)
  | scalar _ => simp only [extractKw, hq]
  | list _ => simp only [extractKw, hq]

end ForML.Conf
