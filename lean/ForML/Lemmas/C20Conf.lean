/- Helper lemmas for the configuration half of C20 (core Lean only). -/
import ForML.Model.Conf

namespace ForML.Conf

theorem lookup_append (k : Nat) (a b : Tbl) :
    lookup k (a ++ b) = match lookup k a with
      | some v => some v
      | none => lookup k b := by
  induction a with
  | nil => simp [lookup]
  | cons e r ih =>
    obtain ⟨k', v⟩ := e
    by_cases h : k' = k <;> simp [lookup, h, ih]

theorem lookup_mergeL (k : Nat) (l r : Tbl) :
    lookup k (mergeL l r) = match lookup k l with
      | none => none
      | some v => match lookup k r with
        | some w => some (merge v w)
        | none => some v := by
  induction l with
  | nil => simp [mergeL, lookup]
  | cons e rest ih =>
    obtain ⟨k', v⟩ := e
    by_cases h : k' = k
    · subst h
      cases hr : lookup k' r <;> simp [mergeL, lookup, hr]
    · cases hr : lookup k' r <;> simp [mergeL, lookup, hr, h, ih]

theorem lookup_filter_absent (k : Nat) (l r : Tbl) :
    lookup k (r.filter (fun e => (lookup e.1 l).isNone)) =
      if (lookup k l).isNone then lookup k r else none := by
  induction r with
  | nil => simp [lookup]
  | cons e rest ih =>
    obtain ⟨k', v⟩ := e
    by_cases h : k' = k
    · subst h
      cases hl : lookup k' l <;> simp [List.filter, lookup, hl, ih]
    · cases hl : lookup k' l <;> simp [List.filter, lookup, hl, h, ih]

/-- key by key: a common key is merged, a key of one side only is copied -/
def combine : Option Cfg → Option Cfg → Option Cfg
  | some v, some w => some (merge v w)
  | some v, none => some v
  | none, w => w

theorem child_merge_tables (l r : Tbl) (k : Nat) :
    child (merge (.table l) (.table r)) k = combine (lookup k l) (lookup k r) := by
  simp only [merge, child, lookup_append, lookup_mergeL, lookup_filter_absent]
  cases lookup k l <;> cases lookup k r <;> simp [combine]

theorem merge_not_table_right (a c : Cfg) (h : ∀ t, c ≠ .table t) (k : Nat) : child (merge a c) k = none := by
  cases c with
  | table t => exact absurd rfl (h t)
  | scalar v => cases a <;> simp [merge, child]
  | list ys => cases a <;> simp [merge, child]

theorem merge_not_table_left (a : Cfg) (r : Tbl) (h : ∀ t, a ≠ .table t) : merge a (.table r) = .table r := by
  cases a with
  | table t => exact absurd rfl (h t)
  | scalar v => simp [merge]
  | list ys => simp [merge]

theorem obs_nil (c : Cfg) : obs c [] = some (leaf c) := by simp [obs, get]

theorem obs_cons (c : Cfg) (k : Nat) (p : Path) :
    obs c (k :: p) = match child c k with
      | some v => obs v p
      | none => none := by
  simp only [obs, get]
  cases child c k <;> simp

theorem untouched_cons (c : Cfg) (k : Nat) (p : Path) :
    untouched c (k :: p) = match c with
      | .table t => (match lookup k t with
        | none => true
        | some v => untouched v p)
      | _ => false := by
  cases c with
  | scalar v => simp [untouched]
  | list v => simp [untouched]
  | table t => simp only [untouched]; rfl

theorem untouched_obs_none (c : Cfg) (p : Path) (h : untouched c p = true) : obs c p = none := by
  induction p generalizing c with
  | nil => simp [untouched] at h
  | cons k p ih =>
    cases c with
    | scalar v => simp [untouched] at h
    | list v => simp [untouched] at h
    | table t =>
      rw [obs_cons]
      simp only [untouched] at h
      simp only [child]
      cases hk : lookup k t with
      | none => rfl
      | some v => simp [hk] at h; simpa using ih v h

/-- The path-wise effect of one `merge` (the engine of every stack theorem). -/
theorem obs_merge (a c : Cfg) (p : Path) :
    obs (merge a c) p = stepLeaf (obs a p) (obs c p) (untouched c p) := by
  induction p generalizing a c with
  | nil =>
    cases a <;> cases c <;> simp [obs_nil, merge, leaf, stepLeaf]
  | cons k p ih =>
    cases c with
    | scalar v =>
      rw [obs_cons, merge_not_table_right a _ (by intro t h; cases h)]
      simp [obs_cons, child, untouched, stepLeaf]
    | list ys =>
      rw [obs_cons, merge_not_table_right a _ (by intro t h; cases h)]
      simp [obs_cons, child, untouched, stepLeaf]
    | table r =>
      cases a with
      | scalar v =>
        rw [merge_not_table_left _ _ (by intro t h; cases h)]
        simp only [obs_cons (.scalar v), child]
        cases h : obs (.table r) (k :: p) with
        | none => simp [stepLeaf]
        | some l => cases l <;> simp [stepLeaf]
      | list xs =>
        rw [merge_not_table_left _ _ (by intro t h; cases h)]
        simp only [obs_cons (.list xs), child]
        cases h : obs (.table r) (k :: p) with
        | none => simp [stepLeaf]
        | some l => cases l <;> simp [stepLeaf]
      | table l =>
        rw [obs_cons, child_merge_tables, obs_cons (.table l), obs_cons (.table r), untouched_cons]
        simp only [child]
        cases hl : lookup k l with
        | none =>
          cases hr : lookup k r with
          | none => simp [combine, stepLeaf]
          | some w =>
            simp only [combine]
            cases h : obs w p with
            | none => simp [stepLeaf]
            | some lf => cases lf <;> simp [stepLeaf]
        | some v =>
          cases hr : lookup k r with
          | none => simp [combine, stepLeaf]
          | some w => simp only [combine]; exact ih v w

theorem layered_snoc (b : Option Leaf) (xs : List Cfg) (c : Cfg) (p : Path) :
    layered b (xs ++ [c]) p = layered (stepLeaf b (obs c p) (untouched c p)) xs p := by
  induction xs with
  | nil => simp [layered]
  | cons x r ih => simp [layered, ih]

theorem obs_stack (base : Cfg) (cs : List Cfg) (p : Path) :
    obs (stack base cs) p = layered (obs base p) cs.reverse p := by
  induction cs generalizing base with
  | nil => simp [stack, layered]
  | cons c cs ih =>
    have : stack base (c :: cs) = stack (merge base c) cs := by simp [stack]
    rw [this, ih, List.reverse_cons, layered_snoc, obs_merge]

/-! ### lists -/

theorem mem_mergeList (old new : List Nat) (v : Nat) : v ∈ mergeList old new ↔ v ∈ new ∨ v ∈ old := by
  simp only [mergeList, List.mem_append, List.mem_filter]
  constructor
  · rintro (h | ⟨h, _⟩)
    · exact Or.inl h
    · exact Or.inr h
  · intro h
    by_cases hn : v ∈ new
    · exact Or.inl hn
    · rcases h with h | h
      · exact Or.inl h
      · exact Or.inr ⟨h, by simpa using hn⟩

theorem nodup_mergeList (old new : List Nat) (ho : old.Nodup) (hn : new.Nodup) : (mergeList old new).Nodup := by
  simp only [mergeList]
  rw [List.nodup_append]
  refine ⟨hn, ho.filter _, ?_⟩
  intro a ha b hb hab
  subst hab
  simp only [List.mem_filter] at hb
  have := hb.2
  simp at this
  exact this ha

theorem nodupB_iff (xs : List Nat) : nodupB xs = true ↔ xs.Nodup := by
  induction xs with
  | nil => simp [nodupB]
  | cons x r ih => simp [nodupB, ih]

theorem filter_mergeList (xs ys zs : List Nat) :
    (mergeList xs ys).filter (fun v => !zs.contains v)
      = ys.filter (fun v => !zs.contains v) ++ (xs.filter (fun v => !ys.contains v)).filter (fun v => !zs.contains v) := by
  simp [mergeList]

theorem mergeList_assoc (xs ys zs : List Nat) :
    mergeList (mergeList xs ys) zs = mergeList xs (mergeList ys zs) := by
  simp only [mergeList, List.filter_append, List.append_assoc, List.filter_filter]
  congr 2
  apply List.filter_congr
  intro v _
  by_cases hz : v ∈ zs <;> by_cases hy : v ∈ ys <;> simp [hz, hy]

/-! ### `allLists` -/

theorem allListsL_lookup (P : List Nat → Bool) (t : Tbl) (k : Nat) (v : Cfg)
    (h : allListsL P t = true) (hk : lookup k t = some v) : allLists P v = true := by
  induction t with
  | nil => simp [lookup] at hk
  | cons e r ih =>
    obtain ⟨k', w⟩ := e
    simp only [allListsL, Bool.and_eq_true] at h
    by_cases hkk : k' = k
    · simp [lookup, hkk] at hk; subst hk; exact h.1
    · simp [lookup, hkk] at hk; exact ih h.2 hk

theorem allLists_obs (P : List Nat → Bool) (c : Cfg) (p : Path) (xs : List Nat)
    (h : allLists P c = true) (ho : obs c p = some (.list xs)) : P xs = true := by
  induction p generalizing c with
  | nil =>
    cases c <;> simp [obs_nil, leaf] at ho
    subst ho; simpa [allLists] using h
  | cons k p ih =>
    rw [obs_cons] at ho
    cases c with
    | scalar v => simp [child] at ho
    | list v => simp [child] at ho
    | table t =>
      simp only [child] at ho
      cases hk : lookup k t with
      | none => simp [hk] at ho
      | some v =>
        simp [hk] at ho
        exact ih v (allListsL_lookup P t k v (by simpa [allLists] using h) hk) ho

/-! ### `compat` -/

theorem compatL_lookup (l r : Tbl) (k : Nat) (v w : Cfg) (h : compatL l r = true)
    (hl : lookup k l = some v) (hr : lookup k r = some w) : compat v w = true := by
  induction l with
  | nil => simp [lookup] at hl
  | cons e rest ih =>
    obtain ⟨k', u⟩ := e
    simp only [compatL, Bool.and_eq_true] at h
    by_cases hkk : k' = k
    · subst hkk
      simp [lookup] at hl; subst hl
      simpa [hr] using h.1
    · simp [lookup, hkk] at hl; exact ih h.2 hl

end ForML.Conf

/-! ### the same source once more (R5): `merge` is idempotent in its right argument, path by path -/
namespace ForML.Conf

theorem mergeList_idem (xs ys : List Nat) : mergeList (mergeList xs ys) ys = mergeList xs ys := by
  simp only [mergeList, List.filter_append, List.filter_filter]
  have h1 : ys.filter (fun v => !ys.contains v) = [] := by
    simp [List.filter_eq_nil_iff]
  rw [h1, List.nil_append]
  congr 1
  apply List.filter_congr
  intro v _
  cases ys.contains v <;> rfl

theorem mergeList_self (ys : List Nat) : mergeList ys ys = ys := by
  simp [mergeList, List.filter_eq_nil_iff]

theorem stepLeaf_idem (acc oc : Option Leaf) (u : Bool) :
    stepLeaf (stepLeaf acc oc u) oc u = stepLeaf acc oc u := by
  cases oc with
  | none => cases u <;> simp [stepLeaf]
  | some l =>
    cases l with
    | scalar v => simp [stepLeaf]
    | table => simp [stepLeaf]
    | list ys =>
      cases acc with
      | none => simp [stepLeaf, mergeList_self]
      | some a => cases a <;> simp [stepLeaf, mergeList_idem, mergeList_self]

end ForML.Conf
