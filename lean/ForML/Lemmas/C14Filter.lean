/-
C14 — helper lemmas, part 4: the parser state.  The hints do not depend on the back-end (`run_indep`), visiting a
source only adds factors for its own tables (`run_factors`), every registered factor belongs to a table and comes from
a condition registered so far (`FactorsTables`, `FromSeen`), the factors of the tables below a node come from the
conditions pending above it (`Justified`) — for both variants of the parser (`fix`).
Used by `ForML.Lemmas.C14Outer` (`run_prune`).
-/
import ForML.Lemmas.C14Prune
import ForML.Lemmas.C14Cols

namespace ForML.PushDown
open ForML.Dsl

/-! ### membership in the factors after `filter` / `release` / `visit_join` -/

theorem filter_factors_mem {fix len : Bool} {st : Segs} {e : Feature} {ex : List Source} {x : Source × Feature}
    (h : x ∈ (st.filter fix len e ex).factors) :
    x ∈ st.factors ∨ ∃ m, factorsOf len e = .ok m ∧ x ∈ m ∧ x.1 ∉ ex := by
  unfold Segs.filter at h
  cases hf : factorsOf len e with
  | ok m =>
    simp only [hf] at h
    rcases mem_addAll.mp h with h | h
    · exact Or.inl h
    · obtain ⟨hm, hx⟩ := List.mem_filter.mp h
      exact Or.inr ⟨m, rfl, hm, by simpa using hx⟩
  | error x =>
    simp only [hf] at h
    exact Or.inl h

theorem filter_factors_mono {fix len : Bool} {st : Segs} {e : Feature} {ex : List Source} {x : Source × Feature}
    (h : x ∈ st.factors) : x ∈ (st.filter fix len e ex).factors := by
  unfold Segs.filter
  cases hf : factorsOf len e with
  | ok m => exact mem_addAll.mpr (Or.inl h)
  | error x => exact h

theorem filterOpt_factors_mem {fix len : Bool} {st : Segs} {c : FeatureOpt} {ex : List Source} {x : Source × Feature}
    (h : x ∈ (st.filterOpt fix len c ex).factors) :
    x ∈ st.factors ∨ ∃ p ∈ optList c, ∃ m, factorsOf len p = .ok m ∧ x ∈ m ∧ x.1 ∉ ex := by
  cases c with
  | none => exact Or.inl h
  | some c =>
    rcases filter_factors_mem h with h | ⟨m, hm, hx, hex⟩
    · exact Or.inl h
    · exact Or.inr ⟨c, by simp [optList], m, hm, hx, hex⟩

theorem filterOpt_factors_mono {fix len : Bool} {st : Segs} {c : FeatureOpt} {ex : List Source} {x : Source × Feature}
    (h : x ∈ st.factors) : x ∈ (st.filterOpt fix len c ex).factors := by
  cases c with
  | none => exact h
  | some c => exact filter_factors_mono h

theorem release_factors_mem {st : Segs} {os : List Source} {x : Source × Feature} :
    x ∈ (st.release os).factors ↔ x ∈ st.factors ∧ x.1 ∉ os := by
  simp [Segs.release, List.mem_filter]

/-- what `visit_join` leaves in the factors: what was there minus the released origins, and the factors of the
condition minus the exempt origins -/
theorem joinCtx_factors_mem {fix len : Bool} {st : Segs} {l r : Source} {k : JoinKind} {c : FeatureOpt}
    {x : Source × Feature} (h : x ∈ (joinCtx fix len st l r k c).factors) :
    (x ∈ st.factors ∧ x.1 ∉ released fix l r k) ∨
      ∃ p ∈ optList c, ∃ m, factorsOf len p = .ok m ∧ x ∈ m ∧ x.1 ∉ exempt fix l r k := by
  unfold joinCtx at h
  rcases filterOpt_factors_mem h with h | h
  · exact Or.inl (release_factors_mem.mp h)
  · exact Or.inr h

/-! ### scoping -/

/-- the table of a factor is the origin of an element of the condition -/
theorem factor_table_mem {len : Bool} {p : Feature} {m : FMap} {x : Source × Feature}
    (h : factorsOf len p = .ok m) (hx : x ∈ m) : ∃ n, (x.1, n) ∈ elems p := by
  obtain ⟨t, f⟩ := x
  have k := factorsP_sound len trivialSem (toPred p) m h t f hx
  obtain ⟨e, he⟩ := List.exists_mem_of_ne_nil _ k.nonempty
  refine ⟨e.2, ?_⟩
  have := (mem_elemsP_toPred p e).mp (k.sub e he)
  have ht := k.own e he
  cases e
  simp_all

theorem factor_isTable {len : Bool} {p : Feature} {m : FMap} {x : Source × Feature}
    (h : factorsOf len p = .ok m) (hx : x ∈ m) : isTable x.1 = true := by
  obtain ⟨t, f⟩ := x
  exact (factorsP_sound len trivialSem (toPred p) m h t f hx).table

theorem scopedIn_mem {os : List Source} {F : List Feature} (h : scopedIn os F = true) {e : Elem} (he : e ∈ elemsAll F) :
    e.1 ∈ os := by
  unfold scopedIn at h
  rw [List.all_eq_true] at h
  simpa using h e he

theorem elemsAll_optList {c : FeatureOpt} {p : Feature} (hp : p ∈ optList c) {e : Elem} (he : e ∈ elems p) :
    e ∈ elemsAll (optList c) := by
  cases c with
  | none => simp [optList] at hp
  | some c =>
    simp only [optList, List.mem_singleton] at hp
    subst hp
    simpa [elemsAll, optList] using he

/-- a factor of a scoped join condition belongs to an origin of the join -/
theorem factor_in_scope {len : Bool} {l r : Source} {c : FeatureOpt}
    (hs : scopedIn (origins l ++ origins r) (optList c) = true) {p : Feature} (hp : p ∈ optList c) {m : FMap}
    (hm : factorsOf len p = .ok m) {x : Source × Feature} (hx : x ∈ m) : x.1 ∈ origins l ∨ x.1 ∈ origins r := by
  obtain ⟨n, hn⟩ := factor_table_mem hm hx
  simpa using scopedIn_mem hs (elemsAll_optList hp hn)

/-! ### invariants of the parser state -/

/-- every registered factor belongs to a table (never to a reference) -/
def FactorsTables (st : Segs) : Prop := ∀ x ∈ st.factors, isTable x.1 = true

/-- every registered factor is a factor of one of the conditions `Q` registered so far -/
def FromSeen (len : Bool) (Q : List Feature) (st : Segs) : Prop :=
  ∀ x ∈ st.factors, ∃ p ∈ Q, ∃ m, factorsOf len p = .ok m ∧ x ∈ m

/-- every factor registered for one of the origins `ts` is a factor of a condition in `P` -/
def Justified (len : Bool) (P : List Feature) (st : Segs) (ts : List Source) : Prop :=
  ∀ x ∈ st.factors, x.1 ∈ ts → ∃ p ∈ P, ∃ m, factorsOf len p = .ok m ∧ x ∈ m

theorem FromSeen.mono {len : Bool} {Q Q' : List Feature} {st : Segs} (h : FromSeen len Q st) (hq : ∀ p ∈ Q, p ∈ Q') :
    FromSeen len Q' st := fun x hx => by
  obtain ⟨p, hp, m, hm, hxm⟩ := h x hx
  exact ⟨p, hq p hp, m, hm, hxm⟩

theorem factorsTables_joinCtx {fix len : Bool} {st : Segs} (l r : Source) (k : JoinKind) (c : FeatureOpt)
    (h : FactorsTables st) : FactorsTables (joinCtx fix len st l r k c) := by
  intro x hx
  rcases joinCtx_factors_mem hx with ⟨hx, _⟩ | ⟨p, _, m, hm, hxm, _⟩
  · exact h x hx
  · exact factor_isTable hm hxm

theorem fromSeen_joinCtx {fix len : Bool} {Q : List Feature} {st : Segs} (l r : Source) (k : JoinKind) (c : FeatureOpt)
    (h : FromSeen len Q st) : FromSeen len (optList c ++ Q) (joinCtx fix len st l r k c) := by
  intro x hx
  rcases joinCtx_factors_mem hx with ⟨hx, _⟩ | ⟨p, hp, m, hm, hxm, _⟩
  · obtain ⟨p, hp, m, hm, hxm⟩ := h x hx
    exact ⟨p, by simp [hp], m, hm, hxm⟩
  · exact ⟨p, by simp [hp], m, hm, hxm⟩

theorem queryCtx_factors_mem {fix len : Bool} {err : Option Err} {src : Source} {sel : Features} {pre : FeatureOpt}
    {grp : Features} {post : FeatureOpt} {ord : Orderings} {x : Source × Feature}
    (hx : x ∈ (queryCtx fix len err src sel pre grp post ord).factors) :
    ∃ p ∈ optList pre, ∃ m, factorsOf len p = .ok m ∧ x ∈ m := by
  unfold queryCtx at hx
  simp only [select_factors] at hx
  rcases filterOpt_factors_mem hx with hx | ⟨p, hp, m, hm, hxm, _⟩
  · simp at hx
  · exact ⟨p, hp, m, hm, hxm⟩

theorem justified_queryCtx (fix len : Bool) (err : Option Err) (src : Source) (sel : Features) (pre : FeatureOpt)
    (grp : Features) (post : FeatureOpt) (ord : Orderings) (ts : List Source) :
    Justified len (optList pre) (queryCtx fix len err src sel pre grp post ord) ts :=
  fun _ hx _ => queryCtx_factors_mem hx

theorem fromSeen_queryCtx (fix len : Bool) (err : Option Err) (src : Source) (sel : Features) (pre : FeatureOpt)
    (grp : Features) (post : FeatureOpt) (ord : Orderings) :
    FromSeen len (optList pre) (queryCtx fix len err src sel pre grp post ord) :=
  fun _ hx => queryCtx_factors_mem hx

theorem factorsTables_queryCtx (fix len : Bool) (err : Option Err) (src : Source) (sel : Features) (pre : FeatureOpt)
    (grp : Features) (post : FeatureOpt) (ord : Orderings) :
    FactorsTables (queryCtx fix len err src sel pre grp post ord) := fun _ hx => by
  obtain ⟨p, _, m, hm, hxm⟩ := queryCtx_factors_mem hx
  exact factor_isTable hm hxm

/-! ### what visiting a source does to the state -/

/-- tables, references to tables and statements leave the factors of the enclosing context alone -/
theorem run_factors_closed (fix len : Bool) (S : Sem) (B : Backend) (db : Db) :
    ∀ (s : Source) (st : Segs), grammarScoped s = true → (isTable s || isStmt s) = true →
      (run fix len S B db s st).st.factors = st.factors
  | .table n fs, st, _, _ => by simp [run]
  | .ref i nm, st, _, h => by simp [isTable, isStmt] at h
  | .join l r k c, st, _, h => by simp [isTable, isStmt] at h
  | .set l r k, st, hw, _ => by
    simp only [grammarScoped, Bool.and_eq_true] at hw
    simp only [run]
    rw [run_factors_closed fix len S B db r _ hw.2 (by simp [hw.1.1.2]),
      run_factors_closed fix len S B db l _ hw.1.2 (by simp [hw.1.1.1])]
  | .query src sel pre grp post ord rows, st, _, _ => by simp [run]

theorem run_ref_factors (fix len : Bool) (S : Sem) (B : Backend) (db : Db) (i : Source) (nm : String) (st : Segs)
    (hw : grammarScoped (.ref i nm) = true) : (run fix len S B db (.ref i nm) st).st.factors = st.factors := by
  simp only [grammarScoped, Bool.and_eq_true] at hw
  simp only [run]
  by_cases ht : isTable i = true
  · simp [ht]
  · simp only [ht, Bool.false_eq_true, if_false]
    exact run_factors_closed fix len S B db i st hw.2 hw.1

/-- visiting a source only adds factors for tables among its own origins -/
theorem run_factors (fix len : Bool) (S : Sem) (B : Backend) (db : Db) :
    ∀ (s : Source) (st : Segs), grammarScoped s = true → joinsScoped s = true →
      ∀ x ∈ (run fix len S B db s st).st.factors, x ∈ st.factors ∨ x.1 ∈ origins s
  | .table n fs, st, _, _, x, hx => by
    simp only [run] at hx
    exact Or.inl hx
  | .ref i nm, st, hw, _, x, hx => by
    rw [run_ref_factors fix len S B db i nm st hw] at hx
    exact Or.inl hx
  | .join l r k c, st, hw, hj, x, hx => by
    simp only [grammarScoped, Bool.and_eq_true] at hw
    simp only [joinsScoped, Bool.and_eq_true] at hj
    simp only [run] at hx
    simp only [origins, List.mem_append]
    rcases run_factors fix len S B db r _ hw.2 hj.2 x hx with hx | hx
    · rcases run_factors fix len S B db l _ hw.1 hj.1.2 x hx with hx | hx
      · rcases joinCtx_factors_mem hx with ⟨hx, _⟩ | ⟨p, hp, m, hm, hxm, _⟩
        · exact Or.inl hx
        · exact Or.inr (factor_in_scope hj.1.1 hp hm hxm)
      · exact Or.inr (Or.inl hx)
    · exact Or.inr (Or.inr hx)
  | .set l r k, st, hw, _, x, hx => by
    rw [run_factors_closed fix len S B db (.set l r k) st hw (by simp [isStmt])] at hx
    exact Or.inl hx
  | .query src sel pre grp post ord rows, st, _, _, x, hx => by
    simp only [run] at hx
    exact Or.inl hx

/-- visiting a join tree keeps the invariants: factors belong to tables and come from the conditions registered so
far, which now include the conditions of the tree -/
theorem run_invariants (fix len : Bool) (S : Sem) (B : Backend) (db : Db) :
    ∀ (s : Source) (Q : List Feature) (st : Segs), grammarScoped s = true → FactorsTables st → FromSeen len Q st →
      FactorsTables (run fix len S B db s st).st ∧ FromSeen len (condsOf s ++ Q) (run fix len S B db s st).st
  | .table n fs, Q, st, _, ht, hq => by
    simpa [run, condsOf] using And.intro ht hq
  | .ref i nm, Q, st, hw, ht, hq => by
    have := run_ref_factors fix len S B db i nm st hw
    refine ⟨fun x hx => ht x (this ▸ hx), fun x hx => ?_⟩
    simpa [condsOf] using hq x (this ▸ hx)
  | .join l r k c, Q, st, hw, ht, hq => by
    simp only [grammarScoped, Bool.and_eq_true] at hw
    simp only [run, condsOf]
    have h1 := run_invariants fix len S B db l (optList c ++ Q) (joinCtx fix len st l r k c) hw.1
      (factorsTables_joinCtx l r k c ht) (fromSeen_joinCtx l r k c hq)
    have h2 := run_invariants fix len S B db r _ _ hw.2 h1.1 h1.2
    exact ⟨h2.1, h2.2.mono (fun p hp => by
      simp only [List.mem_append] at hp ⊢
      rcases hp with h | h | h | h <;> simp [h])⟩
  | .set l r k, Q, st, hw, ht, hq => by
    have := run_factors_closed fix len S B db (.set l r k) st hw (by simp [isStmt])
    refine ⟨fun x hx => ht x (this ▸ hx), fun x hx => ?_⟩
    simpa [condsOf] using hq x (this ▸ hx)
  | .query src sel pre grp post ord rows, Q, st, _, ht, hq => by
    simp only [run, condsOf, List.nil_append]
    exact ⟨fun x hx => ht x hx, fun x hx => hq x hx⟩

/-- the parser state and the offered hints do not depend on the semantics, the back-end or the data -/
theorem run_indep (fix len : Bool) (S1 S2 : Sem) (B1 B2 : Backend) (db1 db2 : Db) :
    ∀ (s : Source) (st : Segs),
      (run fix len S1 B1 db1 s st).st = (run fix len S2 B2 db2 s st).st ∧
      (run fix len S1 B1 db1 s st).hints = (run fix len S2 B2 db2 s st).hints
  | .table n fs, st => by simp [run]
  | .ref i nm, st => by
    simp only [run]
    by_cases ht : isTable i = true
    · simp [ht]
    · simp only [ht, Bool.false_eq_true, if_false]
      exact run_indep fix len S1 S2 B1 B2 db1 db2 i st
  | .join l r k c, st => by
    simp only [run]
    have ha := run_indep fix len S1 S2 B1 B2 db1 db2 l (joinCtx fix len st l r k c)
    have hb := run_indep fix len S1 S2 B1 B2 db1 db2 r (run fix len S2 B2 db2 l (joinCtx fix len st l r k c)).st
    rw [ha.1, ha.2, hb.1, hb.2]
    exact ⟨rfl, rfl⟩
  | .set l r k, st => by
    simp only [run]
    have ha := run_indep fix len S1 S2 B1 B2 db1 db2 l st
    have hb := run_indep fix len S1 S2 B1 B2 db1 db2 r (run fix len S2 B2 db2 l st).st
    rw [ha.1, ha.2, hb.1, hb.2]
    exact ⟨rfl, rfl⟩
  | .query src sel pre grp post ord rows, st => by
    simp only [run]
    have ha := run_indep fix len S1 S2 B1 B2 db1 db2 src (queryCtx fix len st.err src sel pre grp post ord)
    exact ⟨by rw [ha.1], ha.2⟩

/-! ### the offered filter on one row -/

theorem get_of_row {e : Env} {t : Source} {r : Row} (h : e.row t = r) (n : String) : e.get t n = r.get n := by
  simp [Env.get, h]

/-- a row rejected by the offered filter is doomed by the condition the failing factor came from -/
theorem doomed_of_not_passes (len : Bool) (S : Sem) {P : List Feature} {st : Segs} {t : Source}
    (hj : Justified len P st [t]) {r : Row} (hp : passes S (hintOf st t t) r = false) : Doomed S P [(t, r)] := by
  unfold passes at hp
  simp only [Bool.or_eq_false_iff] at hp
  obtain ⟨hne, hall⟩ := hp
  have hne' : (hintOf st t t).pred ≠ [] := by
    intro h
    simp [h] at hne
  obtain ⟨f, hf⟩ := List.exists_mem_of_ne_nil _ hne'
  have hf' : (t, f) ∈ st.factors := by
    simp only [hintOf, List.mem_map, List.mem_filter] at hf
    obtain ⟨x, ⟨hx, hxt⟩, rfl⟩ := hf
    have : x.1 = t := by simpa using hxt
    cases x
    simp_all
  obtain ⟨p, hpP, m, hm, hxm⟩ := hj (t, f) hf' (by simp)
  have k := factorsP_sound len S (toPred p) m hm t f hxm
  refine ⟨p, hpP, fun e' hext htrue => ?_⟩
  have h1 : eval S e' f = .bool true := k.sound e' (by rw [evalP_toPred]; exact htrue)
  have h2 : eval S e' f = eval S [(t, r)] f := by
    apply eval_congr
    intro el hel
    have ht := k.own el hel
    rw [ht]
    have hrow : e'.row t = Env.row [(t, r)] t := hext t (by simp [dom])
    simp [Env.get, hrow]
  have h3 : holds S [(t, r)] f = false := by
    rw [List.any_eq_false] at hall
    have := hall f hf
    simpa [hintOf] using this
  rw [h2] at h1
  simp [holds, h1] at h3

/-- a segment without factors offers no filter -/
theorem hint_pred_nil {st : Segs} {k t : Source} (h : ∀ f, (k, f) ∉ st.factors) : (hintOf st k t).pred = [] := by
  simp only [hintOf]
  apply List.eq_nil_iff_forall_not_mem.mpr
  intro f hf
  simp only [List.mem_map, List.mem_filter] at hf
  obtain ⟨x, ⟨hx, hxt⟩, rfl⟩ := hf
  have : x.1 = k := by simpa using hxt
  apply h x.2
  cases x
  simp_all

theorem passes_of_pred_nil (S : Sem) {h : Hint} (hp : h.pred = []) (r : Row) : passes S h r = true := by
  simp [passes, hp]

theorem noFactorFor_spec {len : Bool} {P : List Feature} {os : List Source} (h : noFactorFor len P os = true)
    {o : Source} (ho : o ∈ os) {p : Feature} (hp : p ∈ P) {m : FMap} (hm : factorsOf len p = .ok m) {f : Feature} :
    (o, f) ∉ m := by
  intro hf
  unfold noFactorFor at h
  rw [List.all_eq_true] at h
  have := h o ho
  rw [List.all_eq_true] at this
  have := this p hp
  simp only [factorTables, hm, Bool.not_eq_true', List.contains_eq_mem, decide_eq_false_iff_not, List.mem_map, not_exists,
    not_and] at this
  exact this (o, f) hf rfl

theorem noFactorFor_spec' {len : Bool} {P : List Feature} {os : List Source} (h : noFactorFor len P os = true)
    {x : Source × Feature} (ho : x.1 ∈ os) {p : Feature} (hp : p ∈ P) {m : FMap} (hm : factorsOf len p = .ok m) :
    x ∉ m := by
  obtain ⟨o, f⟩ := x
  exact noFactorFor_spec h ho hp hm

/-- the scan behind a reference to a table is offered no filter: its own segment never holds a factor in the repaired
code, and in the code that exists the statement is outside the region of C14-F2 -/
theorem ref_pred_nil {fix len : Bool} {Q : List Feature} {st : Segs} {i : Source} {nm : String}
    (ht : FactorsTables st) (hq : FromSeen len Q st) (hs : (fix || noFactorFor len Q [i]) = true) :
    (hintOf st (keyOf fix (.ref i nm)) i).pred = [] := by
  apply hint_pred_nil
  intro f hf
  cases fix with
  | true =>
    have := ht _ hf
    simp [keyOf, isTable] at this
  | false =>
    simp only [Bool.false_or] at hs
    obtain ⟨p, hp, m, hm, hxm⟩ := hq _ hf
    exact noFactorFor_spec (o := i) hs (by simp) hp hm (by simpa [keyOf, inst] using hxm)

end ForML.PushDown
