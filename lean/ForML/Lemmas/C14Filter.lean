/-
C14 — helper lemmas, part 4: the hints do not depend on the back-end, visiting a source only adds factors for its
own tables, and pushing the offered row filters into the scans of an inner-join tree only removes rows which the
pending conditions reject anyway (`run_prune`).  Used by `ForML.Props.C14` (`C14_filter_partial`).
-/
import ForML.Lemmas.C14Prune
import ForML.Lemmas.C14Cols

namespace ForML.PushDown
open ForML.Dsl

theorem filter_factors_mem {len : Bool} {st : Segs} {e : Feature} {x : Source × Feature}
    (h : x ∈ (st.filter len e).factors) : x ∈ st.factors ∨ ∃ m, factorsOf len e = .ok m ∧ x ∈ m := by
  unfold Segs.filter at h
  cases hf : factorsOf len e with
  | ok m =>
    simp only [hf] at h
    rcases mem_addAll.mp h with h | h
    · exact Or.inl h
    · exact Or.inr ⟨m, rfl, h⟩
  | error x =>
    simp only [hf] at h
    exact Or.inl h

theorem filter_factors_mono {len : Bool} {st : Segs} {e : Feature} {x : Source × Feature}
    (h : x ∈ st.factors) : x ∈ (st.filter len e).factors := by
  unfold Segs.filter
  cases hf : factorsOf len e with
  | ok m => exact mem_addAll.mpr (Or.inl h)
  | error x => exact h

theorem filter_factors_new {len : Bool} {st : Segs} {e : Feature} {m : FMap} {x : Source × Feature}
    (hf : factorsOf len e = .ok m) (h : x ∈ m) : x ∈ (st.filter len e).factors := by
  unfold Segs.filter
  simp only [hf]
  exact mem_addAll.mpr (Or.inr h)

theorem filterOpt_factors_mem {len : Bool} {st : Segs} {c : FeatureOpt} {x : Source × Feature}
    (h : x ∈ (st.filterOpt len c).factors) :
    x ∈ st.factors ∨ ∃ p ∈ optList c, ∃ m, factorsOf len p = .ok m ∧ x ∈ m := by
  cases c with
  | none => exact Or.inl h
  | some c =>
    rcases filter_factors_mem h with h | ⟨m, hm, hx⟩
    · exact Or.inl h
    · exact Or.inr ⟨c, by simp [optList], m, hm, hx⟩

theorem filterOpt_factors_mono {len : Bool} {st : Segs} {c : FeatureOpt} {x : Source × Feature}
    (h : x ∈ st.factors) : x ∈ (st.filterOpt len c).factors := by
  cases c with
  | none => exact h
  | some c => exact filter_factors_mono h

/-- the table of a factor is the origin of an element of the condition -/
theorem factor_table_mem {len : Bool} {p : Feature} {m : FMap} {x : Source × Feature}
    (h : factorsOf len p = .ok m) (hx : x ∈ m) : ∃ n, (x.1, n) ∈ elems p := by
  obtain ⟨t, f⟩ := x
  have k := factorsP_sound len trivialSem (toPred p) m h t f hx
  obtain ⟨e, he⟩ := List.exists_mem_of_ne_nil _ k.nonempty
  refine ⟨e.2, ?_⟩
  have := (mem_elemsP_toPred p e).mp (k.sub e he)
  have ht := k.own e he
  cases e
  simp_all

theorem scopedIn_mem {os : List Source} {F : List Feature} (h : scopedIn os F = true) {e : Elem} (he : e ∈ elemsAll F) :
    e.1 ∈ os := by
  unfold scopedIn at h
  rw [List.all_eq_true] at h
  simpa using h e he

theorem elemsAll_optList {c : FeatureOpt} {p : Feature} (hp : p ∈ optList c) {e : Elem} (he : e ∈ elems p) :
    e ∈ elemsAll (optList c) := by
  cases c with
  | none => simp [optList] at hp
  | some c =>
    simp only [optList, List.mem_singleton] at hp
    subst hp
    simpa [elemsAll, optList] using he

/-- tables and statements leave the factors of the enclosing context alone -/
theorem run_factors_closed (len : Bool) (S : Sem) (B : Backend) (db : Db) :
    ∀ (s : Source) (st : Segs), wellScoped s = true → (isTable s || isStmt s) = true →
      (run len S B db s st).st.factors = st.factors
  | .table n fs, st, _, _ => by simp [run]
  | .ref i nm, st, _, h => by simp [isTable, isStmt] at h
  | .join l r k c, st, _, h => by simp [isTable, isStmt] at h
  | .set l r k, st, hw, _ => by
    simp only [wellScoped, Bool.and_eq_true] at hw
    simp only [run]
    rw [run_factors_closed len S B db r _ hw.2 (by simp [hw.1.1.2]),
      run_factors_closed len S B db l _ hw.1.2 (by simp [hw.1.1.1])]
  | .query src sel pre grp post ord rows, st, _, _ => by simp [run]

/-- visiting a source only adds factors for tables among its own origins -/
theorem run_factors (len : Bool) (S : Sem) (B : Backend) (db : Db) :
    ∀ (s : Source) (st : Segs), wellScoped s = true → joinsScoped s = true →
      ∀ x ∈ (run len S B db s st).st.factors, x ∈ st.factors ∨ x.1 ∈ origins s
  | .table n fs, st, _, _, x, hx => by
    simp only [run] at hx
    exact Or.inl hx
  | .ref i nm, st, hw, _, x, hx => by
    simp only [wellScoped, Bool.and_eq_true] at hw
    simp only [run] at hx
    rw [run_factors_closed len S B db i st hw.2 hw.1] at hx
    exact Or.inl hx
  | .join l r k c, st, hw, hj, x, hx => by
    simp only [wellScoped, Bool.and_eq_true] at hw
    simp only [joinsScoped, Bool.and_eq_true] at hj
    simp only [run] at hx
    simp only [origins, List.mem_append]
    rcases run_factors len S B db r _ hw.2 hj.2 x hx with hx | hx
    · rcases run_factors len S B db l _ hw.1 hj.1.2 x hx with hx | hx
      · rcases filterOpt_factors_mem hx with hx | ⟨p, hp, m, hm, hxm⟩
        · exact Or.inl hx
        · obtain ⟨n, hn⟩ := factor_table_mem hm hxm
          have := scopedIn_mem hj.1.1 (elemsAll_optList hp hn)
          exact Or.inr (by simpa using this)
      · exact Or.inr (Or.inl hx)
    · exact Or.inr (Or.inr hx)
  | .set l r k, st, hw, _, x, hx => by
    rw [run_factors_closed len S B db (.set l r k) st hw (by simp [isStmt])] at hx
    exact Or.inl hx
  | .query src sel pre grp post ord rows, st, _, _, x, hx => by
    simp only [run] at hx
    exact Or.inl hx

/-- the environments of an inner-join tree bind exactly its origins, in order -/
theorem run_dom (len : Bool) (S : Sem) (B : Backend) (db : Db) :
    ∀ (s : Source) (st : Segs), innerOnly s = true → ∀ e ∈ (run len S B db s st).envs, dom e = origins s
  | .table n fs, st, _, e, he => by
    simp only [run, List.mem_map] at he
    obtain ⟨r, _, rfl⟩ := he
    simp [dom, origins]
  | .ref i nm, st, _, e, he => by
    simp only [run, List.mem_map] at he
    obtain ⟨r, _, rfl⟩ := he
    simp [dom, origins, rebind]
  | .join l r k c, st, hi, e, he => by
    simp only [innerOnly, Bool.and_eq_true, Bool.or_eq_true, beq_iff_eq] at hi
    simp only [run] at he
    have hmem : e ∈ (prod (run len S B db l (st.filterOpt len c)).envs
        (run len S B db r (run len S B db l (st.filterOpt len c)).st).envs) := by
      rcases hi.1.1 with rfl | rfl <;> exact (List.mem_filter.mp he).1
    simp only [prod, List.mem_flatMap, List.mem_map] at hmem
    obtain ⟨el, hel, er, her, rfl⟩ := hmem
    rw [dom_append, run_dom len S B db l _ hi.1.2 el hel, run_dom len S B db r _ hi.2 er her]
    simp [origins]
  | .set l r k, st, _, e, he => by
    simp only [run, List.mem_map] at he
    obtain ⟨r, _, rfl⟩ := he
    simp [dom, origins]
  | .query src sel pre grp post ord rows, st, _, e, he => by
    simp only [run, List.mem_map] at he
    obtain ⟨r, _, rfl⟩ := he
    simp [dom, origins]

/-- the parser state and the offered hints do not depend on the semantics, the back-end or the data -/
theorem run_indep (len : Bool) (S1 S2 : Sem) (B1 B2 : Backend) (db1 db2 : Db) :
    ∀ (s : Source) (st : Segs),
      (run len S1 B1 db1 s st).st = (run len S2 B2 db2 s st).st ∧
      (run len S1 B1 db1 s st).hints = (run len S2 B2 db2 s st).hints
  | .table n fs, st => by simp [run]
  | .ref i nm, st => by
    simp only [run]
    exact run_indep len S1 S2 B1 B2 db1 db2 i st
  | .join l r k c, st => by
    simp only [run]
    have ha := run_indep len S1 S2 B1 B2 db1 db2 l (st.filterOpt len c)
    have hb := run_indep len S1 S2 B1 B2 db1 db2 r (run len S2 B2 db2 l (st.filterOpt len c)).st
    rw [ha.1, ha.2, hb.1, hb.2]
    exact ⟨rfl, rfl⟩
  | .set l r k, st => by
    simp only [run]
    have ha := run_indep len S1 S2 B1 B2 db1 db2 l st
    have hb := run_indep len S1 S2 B1 B2 db1 db2 r (run len S2 B2 db2 l st).st
    rw [ha.1, ha.2, hb.1, hb.2]
    exact ⟨rfl, rfl⟩
  | .query src sel pre grp post ord rows, st => by
    simp only [run]
    have ha := run_indep len S1 S2 B1 B2 db1 db2 src (queryCtx len st.err src sel pre grp post ord)
    exact ⟨by rw [ha.1], ha.2⟩


/-- every factor registered so far belongs to a table of the enclosing query -/
def FactorsWithin (st : Segs) (O : List Source) : Prop := ∀ x ∈ st.factors, x.1 ∈ O

/-- every factor registered for one of the tables `ts` is a factor of a condition in `P` -/
def Justified (len : Bool) (P : List Feature) (st : Segs) (ts : List Source) : Prop :=
  ∀ x ∈ st.factors, x.1 ∈ ts → ∃ p ∈ P, ∃ m, factorsOf len p = .ok m ∧ x ∈ m

theorem get_of_row {e : Env} {t : Source} {r : Row} (h : e.row t = r) (n : String) : e.get t n = r.get n := by
  simp [Env.get, h]

/-- a row rejected by the offered filter is doomed by the condition the failing factor came from -/
theorem doomed_of_not_passes (len : Bool) (S : Sem) {P : List Feature} {st : Segs} {t : Source}
    (hj : Justified len P st [t]) {r : Row} (hp : passes S (hintOf st t) r = false) : Doomed S P [(t, r)] := by
  unfold passes at hp
  simp only [Bool.or_eq_false_iff] at hp
  obtain ⟨hne, hall⟩ := hp
  have hne' : (hintOf st t).pred ≠ [] := by
    intro h
    simp [h] at hne
  obtain ⟨f, hf⟩ := List.exists_mem_of_ne_nil _ hne'
  have hf' : (t, f) ∈ st.factors := by
    simp only [hintOf, List.mem_map, List.mem_filter] at hf
    obtain ⟨x, ⟨hx, hxt⟩, rfl⟩ := hf
    have : x.1 = t := by simpa using hxt
    cases x
    simp_all
  obtain ⟨p, hpP, m, hm, hxm⟩ := hj (t, f) hf' (by simp)
  have k := factorsP_sound len S (toPred p) m hm t f hxm
  refine ⟨p, hpP, fun e' hext htrue => ?_⟩
  have h1 : eval S e' f = .bool true := k.sound e' (by rw [evalP_toPred]; exact htrue)
  have h2 : eval S e' f = eval S [(t, r)] f := by
    apply eval_congr
    intro el hel
    have ht := k.own el hel
    rw [ht]
    have hrow : e'.row t = Env.row [(t, r)] t := hext t (by simp [dom])
    simp [Env.get, hrow]
  have h3 : holds S [(t, r)] f = false := by
    rw [List.any_eq_false] at hall
    have := hall f hf
    simpa [hintOf] using this
  rw [h2] at h1
  simp [holds, h1] at h3

theorem noAliased_mem {O : List Source} (h : noAliasedScan O = true) {i : Source} {nm : String}
    (hr : Source.ref i nm ∈ O) (ht : isTable i = true) : i ∉ O := by
  unfold noAliasedScan at h
  rw [List.all_eq_true] at h
  have := h _ hr
  simp only [ht, Bool.true_and, Bool.not_eq_true', List.contains_eq_mem, decide_eq_false_iff_not] at this
  exact this

theorem passes_of_no_factor (S : Sem) {st : Segs} {t : Source} (h : ∀ f, (t, f) ∉ st.factors) (r : Row) :
    passes S (hintOf st t) r = true := by
  have : (hintOf st t).pred = [] := by
    simp only [hintOf]
    apply List.eq_nil_iff_forall_not_mem.mpr
    intro f hf
    simp only [List.mem_map, List.mem_filter] at hf
    obtain ⟨x, ⟨hx, hxt⟩, rfl⟩ := hf
    have : x.1 = t := by simpa using hxt
    apply h x.2
    cases x
    simp_all
  simp [passes, this]

theorem prune_prod {S : Sem} {P : List Feature} {ol orr : List Source} {L' L R' R : List Env}
    (hL : Prune (Doomed S P) L' L) (hR : Prune (Doomed S P) R' R)
    (hdl : ∀ e ∈ L, dom e = ol) (hdr : ∀ e ∈ R, dom e = orr) (hdisj : ∀ o ∈ orr, o ∉ ol) :
    Prune (Doomed S P) (prod L' R') (prod L R) := by
  unfold prod
  refine Prune.flatMap _ _ hL ?_ ?_
  · intro el hel
    refine Prune.map _ hR ?_
    intro er her hd
    exact hd.append_right el (by rw [hdr er her, hdl el hel]; exact hdisj)
  · intro el _ hd b hb
    obtain ⟨er, _, rfl⟩ := List.mem_map.mp hb
    exact hd.append_left er


theorem justified_queryCtx (len : Bool) (err : Option Err) (src : Source) (sel : Features) (pre : FeatureOpt)
    (grp : Features) (post : FeatureOpt) (ord : Orderings) (ts : List Source) :
    Justified len (optList pre) (queryCtx len err src sel pre grp post ord) ts := by
  intro x hx _
  unfold queryCtx at hx
  simp only [select_factors] at hx
  rcases filterOpt_factors_mem hx with hx | hx
  · simp at hx
  · exact hx

theorem within_queryCtx (len : Bool) (err : Option Err) (src : Source) (sel : Features) (pre : FeatureOpt)
    (grp : Features) (post : FeatureOpt) (ord : Orderings) (hs : scopedIn (origins src) (optList pre) = true) :
    FactorsWithin (queryCtx len err src sel pre grp post ord) (origins src) := by
  intro x hx
  obtain ⟨p, hp, m, hm, hxm⟩ := justified_queryCtx len err src sel pre grp post ord [x.1] x hx (by simp)
  obtain ⟨n, hn⟩ := factor_table_mem hm hxm
  simpa using scopedIn_mem hs (elemsAll_optList hp hn)


/-- **Pushing the offered row filters into the scans of an inner-join tree only removes rows the pending conditions
reject anyway; a statement as a whole yields the same rows.** -/
theorem run_prune (len : Bool) (S : Sem) (db : Db) :
    ∀ (s : Source), innerOnly s = true → wellScoped s = true →
      (∀ (O : List Source) (P : List Feature) (st : Segs), joinsScoped s = true → (origins s).Nodup →
          (∀ o ∈ origins s, o ∈ O) → noAliasedScan O = true → FactorsWithin st O → Justified len P st (origins s) →
          Prune (Doomed S P) (run len S .honourRows db s st).envs (run len S .ignore db s st).envs)
      ∧ (isStmt s = true → ∀ st, (run len S .honourRows db s st).envs = (run len S .ignore db s st).envs)
  | .table n fs, _, _ => by
    refine ⟨?_, by simp [isStmt]⟩
    intro O P st _ _ _ _ _ hj
    simp only [run, Backend.honourRows, Backend.ignore]
    refine Prune.map _ (Prune.of_filter (D := fun r => Doomed S P [(Source.table n fs, r)]) _ _ ?_) (fun _ _ h => h)
    intro r _ hr
    exact doomed_of_not_passes len S (by simpa [origins] using hj) hr
  | .ref i nm, hi, hw => by
    refine ⟨?_, by simp [isStmt]⟩
    intro O P st _ _ hO hna hfw _
    simp only [innerOnly] at hi
    simp only [wellScoped, Bool.and_eq_true, Bool.or_eq_true] at hw
    simp only [run]
    apply Prune.of_eq
    congr 1
    rcases hw.1 with ht | hs
    · cases i with
      | table n fs =>
        have hno : ∀ f, (Source.table n fs, f) ∉ st.factors := by
          intro f hf
          exact noAliased_mem hna (hO (.ref (.table n fs) nm) (by simp [origins])) ht (hfw _ hf)
        simp only [run, Backend.honourRows, Backend.ignore]
        congr 1
        apply List.filter_eq_self.mpr
        intro r _
        exact passes_of_no_factor S hno r
      | _ => simp [isTable] at ht
    · exact (run_prune len S db i hi hw.2).2 hs st
  | .join l r k c, hi, hw => by
    refine ⟨?_, by simp [isStmt]⟩
    intro O P st hjs hnd hO hna hfw hj
    simp only [innerOnly, Bool.and_eq_true, Bool.or_eq_true, beq_iff_eq] at hi
    simp only [wellScoped, Bool.and_eq_true] at hw
    simp only [joinsScoped, Bool.and_eq_true] at hjs
    simp only [origins, List.nodup_append] at hnd
    have hOl : ∀ o ∈ origins l, o ∈ O := fun o ho => hO o (by simp [origins, ho])
    have hOr : ∀ o ∈ origins r, o ∈ O := fun o ho => hO o (by simp [origins, ho])
    -- state after registering the join condition
    have hfw1 : FactorsWithin (st.filterOpt len c) O := by
      intro x hx
      rcases filterOpt_factors_mem hx with hx | ⟨p, hp, m, hm, hxm⟩
      · exact hfw x hx
      · obtain ⟨n, hn⟩ := factor_table_mem hm hxm
        have := scopedIn_mem hjs.1.1 (elemsAll_optList hp hn)
        exact hO _ (by simpa [origins] using this)
    have hj1 : ∀ ts, (∀ t ∈ ts, t ∈ origins (.join l r k c)) →
        Justified len (optList c ++ P) (st.filterOpt len c) ts := by
      intro ts hts x hx hxt
      rcases filterOpt_factors_mem hx with hx | ⟨p, hp, m, hm, hxm⟩
      · obtain ⟨p, hp, m, hm, hxm⟩ := hj x hx (hts _ hxt)
        exact ⟨p, by simp [hp], m, hm, hxm⟩
      · exact ⟨p, by simp [hp], m, hm, hxm⟩
    have iha := (run_prune len S db l hi.1.2 hw.1).1 O (optList c ++ P) (st.filterOpt len c) hjs.1.2 hnd.1 hOl hna hfw1
      (hj1 _ (fun t ht => by simp [origins, ht]))
    -- state after visiting the left side (the same for both back-ends)
    have hst : (run len S .honourRows db l (st.filterOpt len c)).st = (run len S .ignore db l (st.filterOpt len c)).st :=
      (run_indep len S S .honourRows .ignore db db l _).1
    have hfw2 : FactorsWithin (run len S .ignore db l (st.filterOpt len c)).st O := by
      intro x hx
      rcases run_factors len S .ignore db l _ hw.1 hjs.1.2 x hx with hx | hx
      · exact hfw1 x hx
      · exact hOl _ hx
    have hj2 : Justified len (optList c ++ P) (run len S .ignore db l (st.filterOpt len c)).st (origins r) := by
      intro x hx hxt
      rcases run_factors len S .ignore db l _ hw.1 hjs.1.2 x hx with hx | hx
      · exact hj1 (origins r) (fun t ht => by simp [origins, ht]) x hx hxt
      · exact absurd rfl (hnd.2.2 _ hx _ hxt)
    have ihb := (run_prune len S db r hi.2 hw.2).1 O (optList c ++ P) _ hjs.2 hnd.2.1 hOr hna hfw2 hj2
    simp only [run]
    rw [hst]
    have hprod := prune_prod iha ihb (run_dom len S .ignore db l _ hi.1.2) (run_dom len S .ignore db r _ hi.2)
      (fun o ho hol => hnd.2.2 o hol o ho rfl)
    have hfil := hprod.filter (fun e => holdsOpt S e c)
    have hres : Prune (Doomed S P)
        ((prod (run len S .honourRows db l (st.filterOpt len c)).envs
          (run len S .honourRows db r (run len S .ignore db l (st.filterOpt len c)).st).envs).filter (fun e => holdsOpt S e c))
        ((prod (run len S .ignore db l (st.filterOpt len c)).envs
          (run len S .ignore db r (run len S .ignore db l (st.filterOpt len c)).st).envs).filter (fun e => holdsOpt S e c)) := by
      refine hfil.mono ?_
      intro e he hd
      have hon := (List.mem_filter.mp he).2
      cases c with
      | none => simpa [optList] using hd
      | some c => exact Doomed.not_holds (by simpa [optList] using hd) (by simpa [holdsOpt] using hon)
    rcases hi.1.1 with rfl | rfl <;> simpa [joinRows] using hres
  | .set l r k, hi, hw => by
    simp only [innerOnly, Bool.and_eq_true] at hi
    simp only [wellScoped, Bool.and_eq_true] at hw
    have heq : ∀ st, (run len S .honourRows db (.set l r k) st).envs = (run len S .ignore db (.set l r k) st).envs := by
      intro st
      simp only [run]
      rw [(run_prune len S db l hi.1 hw.1.2).2 hw.1.1.1 st, (run_indep len S S .honourRows .ignore db db l st).1,
        (run_prune len S db r hi.2 hw.2).2 hw.1.1.2 _]
    exact ⟨fun _ _ st _ _ _ _ _ _ => Prune.of_eq (heq st), fun _ => heq⟩
  | .query src sel pre grp post ord rows, hi, hw => by
    simp only [innerOnly] at hi
    simp only [wellScoped, Bool.and_eq_true, decide_eq_true_eq] at hw
    have heq : ∀ st, (run len S .honourRows db (.query src sel pre grp post ord rows) st).envs =
        (run len S .ignore db (.query src sel pre grp post ord rows) st).envs := by
      intro st
      simp only [run]
      have hp := (run_prune len S db src hi hw.2).1 (origins src) (optList pre)
        (queryCtx len st.err src sel pre grp post ord) hw.1.1.1.2 hw.1.1.1.1 (fun o ho => ho) hw.1.2
        (within_queryCtx len st.err src sel pre grp post ord hw.1.1.2)
        (justified_queryCtx len st.err src sel pre grp post ord (origins src))
      have hk := hp.filter_eq (fun e => holdsOpt S e pre) (by
        intro e _ hd
        cases pre with
        | none =>
          obtain ⟨p, hp, _⟩ := hd
          simp [optList] at hp
        | some p =>
          obtain ⟨q, hq, hf⟩ := hd
          simp only [optList, List.mem_singleton] at hq
          subst hq
          have := hf e (Extends.refl e)
          simpa [holdsOpt, holds] using this)
      rw [hk]
    exact ⟨fun _ _ st _ _ _ _ _ _ => Prune.of_eq (heq st), fun _ => heq⟩

end ForML.PushDown
