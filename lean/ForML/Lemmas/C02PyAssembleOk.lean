/-
C02 helper lemmas: `Expression.__init__` never runs out of providers. Every provider deque of an assembled node
holds exactly as many terms as there are argument occurrences still to be served (plus the final term of the
last node), so `popleft` never hits an empty deque and nothing is outstanding at the end.
-/
import ForML.Lemmas.C02PyAssemble

namespace ForML.Flow.PyFunc
open ForML.Flow

theorem fork_length (q : Key) (U : Term) (n : Nat) : (fork q U n).length = if n > 1 then n else 1 := by
  unfold fork
  split <;> simp

theorem Providers.set_keys : ∀ (p : Providers) (k : Key) (d : List Term), (p.get k).isSome →
    (p.set k d).map (·.1) = p.map (·.1)
  | [], k, d, h => by simp [Providers.get] at h
  | (k', d') :: r, k, d, h => by
    simp only [Providers.set]
    split
    · rename_i he; subst he; simp
    · rename_i hne
      simp only [Providers.get, hne, if_false] at h
      simp [Providers.set_keys r k d h]

theorem Providers.get_of_mem : ∀ (p : Providers), (p.map (·.1)).Nodup → ∀ {k : Key} {d : List Term},
    (k, d) ∈ p → p.get k = some d
  | [], _, _, _, h => by cases h
  | (k', d') :: r, hn, k, d, h => by
    simp only [List.map_cons, List.nodup_cons] at hn
    simp only [Providers.get]
    rcases List.mem_cons.1 h with h1 | h1
    · cases h1; simp
    · have : k' ≠ k := fun e => hn.1 (e ▸ List.mem_map_of_mem (f := (·.1)) h1)
      simp [this, Providers.get_of_mem r hn.2 h1]

/-- all argument occurrences still to be served -/
def todoOf (ns : List Node) : List Key := ns.flatMap (·.args)

/-- every node's `szout` counts the argument occurrences after it -/
def SzOK : List Node → Prop
  | [] => True
  | n :: rest => n.szout = (todoOf rest).count n.key ∧ SzOK rest

/-- counting invariant of the provider deques -/
structure CInv (p : Providers) (keys : List Key) (lastKey : Key) (seen : List Key) (rest : List Node)
    (todo : List Key) : Prop where
  keys : p.map (·.1) = keys
  raw : ∀ n ∈ rest, p.get n.key = some [.raw n.key n.raw]
  cnt : ∀ k ∈ seen, ∃ d, p.get k = some d ∧ d.length = todo.count k + (if k = lastKey then 1 else 0)

theorem popArgs_count {keys : List Key} {lastKey : Key} {seen : List Key} {rest : List Node}
    (hdisj : ∀ n ∈ rest, n.key ∉ seen) :
    ∀ (as : List Key) (p : Providers) (todo' : List Key), (∀ a ∈ as, a ∈ seen) →
      CInv p keys lastKey seen rest (as ++ todo') →
      ∃ Us p', popArgs as p = .ok (Us, p') ∧ Us.length = as.length ∧ CInv p' keys lastKey seen rest todo' := by
  intro as
  induction as with
  | nil => intro p todo' _ h; exact ⟨[], p, rfl, rfl, by simpa using h⟩
  | cons a as ih =>
    intro p todo' hin h
    have ha := hin a (List.mem_cons_self ..)
    obtain ⟨d, hg, hl⟩ := h.cnt a ha
    simp only [List.cons_append, List.count_cons_self] at hl
    cases d with
    | nil => simp at hl; omega
    | cons x d' =>
      have hpop : popleft p a = .ok (x, p.set a d') := by simp [popleft, hg]
      have h1 : CInv (p.set a d') keys lastKey seen rest (as ++ todo') := by
        refine ⟨?_, ?_, ?_⟩
        · rw [Providers.set_keys p a d' (by simp [hg]), h.keys]
        · intro n hn
          have : n.key ≠ a := fun e => hdisj n hn (e ▸ ha)
          rw [Providers.get_set]; simp [this, h.raw n hn]
        · intro k hk
          rw [Providers.get_set]
          by_cases hka : k = a
          · subst hka
            refine ⟨d', by simp, ?_⟩
            simp only [List.length_cons] at hl
            omega
          · obtain ⟨dk, hgk, hlk⟩ := h.cnt k hk
            refine ⟨dk, by simp [hka, hgk], ?_⟩
            have hne : ¬ (a == k) = true := by simpa using fun e : a = k => hka e.symm
            simp only [List.cons_append, List.count_cons, hne, if_false] at hlk
            simpa using hlk
      obtain ⟨Us, p', hr, hlen, hinv⟩ := ih (p.set a d') todo' (fun b hb => hin b (List.mem_cons_of_mem _ hb)) h1
      exact ⟨x :: Us, p', by simp [popArgs, hpop, hr], by simp [hlen], hinv⟩

theorem assemble_count {keys : List Key} {lastKey : Key} :
    ∀ (rest : List Node) (seen : List Key) (p : Providers), (rest.map (·.key)).Nodup →
      (∀ n ∈ rest, n.key ∉ seen) → Earlier seen rest → (∀ n ∈ rest, n.args ≠ []) → SzOK rest →
      (∀ n ∈ rest, (n.key ≠ lastKey → 1 ≤ n.szout) ∧ (n.key = lastKey → n.szout = 0)) →
      CInv p keys lastKey seen rest (todoOf rest) →
      ∃ p', assemble rest p = .ok p' ∧ CInv p' keys lastKey (seen ++ rest.map (·.key)) [] [] := by
  intro rest
  induction rest with
  | nil => intro seen p _ _ _ _ _ _ h; exact ⟨p, rfl, by simpa [todoOf] using h⟩
  | cons n rest ih =>
    intro seen p hnd hdisj hearly hargs hsz hszout h
    simp only [List.map_cons, List.nodup_cons] at hnd
    have htodo : todoOf (n :: rest) = n.args ++ todoOf rest := by simp [todoOf]
    rw [htodo] at h
    obtain ⟨Us, p1, hpa, hlen, h1⟩ := popArgs_count hdisj n.args p (todoOf rest) hearly.1 h
    have hrawn := h1.raw n (List.mem_cons_self ..)
    have hown : popleft p1 n.key = .ok (.raw n.key n.raw, p1.set n.key []) := by simp [popleft, hrawn]
    have hne := hargs n (List.mem_cons_self ..)
    cases Us with
    | nil => simp at hlen; exact absurd (List.length_eq_zero_iff.1 hlen.symm) hne
    | cons U0 Us0 =>
      have hget : (p1.set n.key []).get n.key = some [] := by rw [Providers.get_set]; simp
      let p3 := (p1.set n.key []).set n.key (fork n.key (.call n.key n.raw (U0 :: Us0)) n.szout)
      have h3 : CInv p3 keys lastKey (seen ++ [n.key]) rest (todoOf rest) := by
        refine ⟨?_, ?_, ?_⟩
        · show ((p1.set n.key []).set n.key _).map (·.1) = keys
          rw [Providers.set_keys _ _ _ (by simp [hget]), Providers.set_keys _ _ _ (by simp [hrawn]), h1.keys]
        · intro m hm
          have hne' : m.key ≠ n.key := fun e => hnd.1 (e ▸ List.mem_map_of_mem hm)
          show ((p1.set n.key []).set n.key _).get m.key = _
          rw [Providers.get_set, Providers.get_set]
          simp [hne', h1.raw m (List.mem_cons_of_mem _ hm)]
        · intro k hk
          show ∃ d, ((p1.set n.key []).set n.key _).get k = some d ∧ _
          rw [Providers.get_set]
          by_cases hkn : k = n.key
          · subst hkn
            refine ⟨fork n.key (.call n.key n.raw (U0 :: Us0)) n.szout, by simp, ?_⟩
            rw [fork_length]
            have hs := hsz.1
            have hso := hszout n (List.mem_cons_self ..)
            by_cases hl : n.key = lastKey
            · have := hso.2 hl
              have hc : (todoOf rest).count n.key = 0 := by rw [← hs]; exact this
              simp [hl, this]
              rw [← hl]; exact hc
            · have := hso.1 hl
              simp only [hl, if_false, Nat.add_zero, ← hs]
              split <;> omega
          · rcases List.mem_append.1 hk with h2 | h2
            · obtain ⟨dk, hgk, hlk⟩ := h1.cnt k h2
              refine ⟨dk, ?_, hlk⟩
              rw [Providers.get_set]
              simp [hkn, hgk]
            · simp at h2; exact absurd h2 hkn
      obtain ⟨p', hp', hinv'⟩ := ih (seen ++ [n.key]) p3 hnd.2
        (by
          intro m hm hin
          rcases List.mem_append.1 hin with h2 | h2
          · exact hdisj m (List.mem_cons_of_mem _ hm) h2
          · simp at h2; exact hnd.1 (h2 ▸ List.mem_map_of_mem hm))
        hearly.2 (fun m hm => hargs m (List.mem_cons_of_mem _ hm)) hsz.2
        (fun m hm => hszout m (List.mem_cons_of_mem _ hm)) h3
      refine ⟨p', ?_, by simpa [List.append_assoc] using hinv'⟩
      simp only [assemble, hpa, hown, hget, Option.getD_some, List.nil_append]
      exact hp'

end ForML.Flow.PyFunc
