/-
C03 — helper lemmas: in `⟦e⟧` the train-mode output, the labels and the trained states do not depend on the
apply-mode input (semantic counterpart of "the apply path feeds neither the train nor the label path").
Needed where a scope is expanded once and its apply path re-used on other data (`Segment.copy`).
-/
import ForML.Model.Denote

namespace ForML.Compose

/-- train output, label output and trained states are independent of the apply-mode input -/
def Scope.Indep (S : Scope) : Prop :=
  ∀ xa xa' xt xl, (S xa xt xl).train = (S xa' xt xl).train ∧ (S xa xt xl).label = (S xa' xt xl).label ∧
    (S xa xt xl).states = (S xa' xt xl).states

theorem flatMap_congr' {α β} {f g : α → List β} : ∀ (l : List α), (∀ a ∈ l, f a = g a) → l.flatMap f = l.flatMap g := by
  intro l
  induction l with
  | nil => intro _; rfl
  | cons x xs ih =>
    intro h
    rw [List.flatMap_cons, List.flatMap_cons, h x List.mem_cons_self, ih (fun a ha => h a (List.mem_cons_of_mem _ ha))]

theorem indep_origin : Scope.Indep Scope.origin := fun _ _ _ _ => ⟨rfl, rfl, rfl⟩

theorem indep_wrap (lab app trn : Option Actor) (S : Scope) (hS : S.Indep) : (denoteWrap lab app trn S).Indep := by
  intro xa xa' xt xl
  obtain ⟨e1, e2, e3⟩ := hS xa xa' xt xl
  refine ⟨?_, ?_, ?_⟩ <;> simp only [denoteWrap, e1, e2, e3]

theorem indep_mapreduce (ms : List Actor) (r : Nat) (S : Scope) (hS : S.Indep) : (denoteMapReduce ms r S).Indep := by
  intro xa xa' xt xl
  obtain ⟨e1, e2, e3⟩ := hS xa xa' xt xl
  refine ⟨?_, ?_, ?_⟩ <;> simp only [denoteMapReduce, e1, e2, e3]

theorem indep_debug (a t : Actor) (S : Scope) (hS : S.Indep) : (denoteDebug a t S).Indep := by
  intro xa xa' xt xl
  obtain ⟨e1, e2, e3⟩ := hS xa xa' xt xl
  refine ⟨?_, ?_, ?_⟩ <;> simp only [denoteDebug, e1, e2, e3]

theorem indep_stack (bases : List Scope) (hB : ∀ B ∈ bases, B.Indep) (n sp ap st rd : Nat) (S : Scope) (hS : S.Indep) :
    (denoteStack bases n sp ap st rd S).Indep := by
  intro xa xa' xt xl
  unfold denoteStack
  simp only
  have ef : ∀ k, (S xa (.proj (2 * k) (.apply sp (.state sp .none xt xl) [xt])) (.proj (2 * k) (.apply sp (.state sp .none xt xl) [xl]))).train
      = (S xa' (.proj (2 * k) (.apply sp (.state sp .none xt xl) [xt])) (.proj (2 * k) (.apply sp (.state sp .none xt xl) [xl]))).train :=
    fun k => (hS _ _ _ _).1
  have el : ∀ k, (S xa (.proj (2 * k) (.apply sp (.state sp .none xt xl) [xt])) (.proj (2 * k) (.apply sp (.state sp .none xt xl) [xl]))).label
      = (S xa' (.proj (2 * k) (.apply sp (.state sp .none xt xl) [xt])) (.proj (2 * k) (.apply sp (.state sp .none xt xl) [xl]))).label :=
    fun k => (hS _ _ _ _).2.1
  have es : ∀ k, (S xa (.proj (2 * k) (.apply sp (.state sp .none xt xl) [xt])) (.proj (2 * k) (.apply sp (.state sp .none xt xl) [xl]))).states
      = (S xa' (.proj (2 * k) (.apply sp (.state sp .none xt xl) [xt])) (.proj (2 * k) (.apply sp (.state sp .none xt xl) [xl]))).states :=
    fun k => (hS _ _ _ _).2.2
  refine ⟨?_, trivial, ?_⟩
  · simp only [ef, el]
  · congr 1
    · congr 1
      apply flatMap_congr'
      intro k _
      exact es k
    · apply flatMap_congr'
      intro B hBm
      apply flatMap_congr'
      intro k _
      rw [ef k, el k]
      exact (hB B hBm _ _ _ _).2.2

theorem indep_api (op : ApiOp) (S : Scope) (hS : S.Indep) : (denoteApi op S).Indep := by
  intro xa xa' xt xl
  obtain ⟨e1, e2, e3⟩ := hS xa xa' xt xl
  cases op with
  | tee _ => exact ⟨e1, e2, e3⟩
  | extend oa ot ol v => refine ⟨?_, ?_, ?_⟩ <;> simp only [denoteApi, e1, e2, e3]
  | labelMix t => refine ⟨?_, ?_, ?_⟩ <;> simp only [denoteApi, e1, e2, e3]
  | monitor a => refine ⟨?_, ?_, ?_⟩ <;> simp only [denoteApi, e1, e2, e3]

mutual
  theorem indep_denoteC : ∀ (e : Expr) (S : Scope), S.Indep → (denoteC e S).Indep
    | .wrap lab app trn, S, hS => by rw [denoteC]; exact indep_wrap lab app trn S hS
    | .mapreduce ms r, S, hS => by rw [denoteC]; exact indep_mapreduce ms r S hS
    | .debug a t, S, hS => by rw [denoteC]; exact indep_debug a t S hS
    | .api op, S, hS => by rw [denoteC]; exact indep_api op S hS
    | .stack bases n s a k r, S, hS => by
      rw [denoteC]; exact indep_stack _ (indep_denoteAll bases) n s a k r S hS
    | .seq l r, S, hS => by
      rw [denoteC]
      have hT := indep_denoteC r _ (indep_denoteC l _ indep_origin)
      intro xa xa' xt xl
      obtain ⟨e1, e2, e3⟩ := hS xa xa' xt xl
      simp only [e1, e2, e3]
      obtain ⟨t1, t2, t3⟩ := hT (S xa xt xl).apply (S xa' xt xl).apply (S xa' xt xl).train (S xa' xt xl).label
      exact ⟨t1, t2, by rw [t3]⟩

  theorem indep_denoteAll : ∀ (bs : List Expr), ∀ B ∈ denoteAll bs, B.Indep
    | [], B, hB => by simp [denoteAll] at hB
    | b :: bs, B, hB => by
      rw [denoteAll] at hB
      rcases List.mem_cons.mp hB with h | h
      · rw [h]; exact indep_denoteC b _ indep_origin
      · exact indep_denoteAll bs B h
end

end ForML.Compose
