/-
Helper lemmas for the codec tables of C19, part 5 (core Lean only): the JSON layouts (document trees) through `Json.to_pandas`,
columns and records layouts.
-/
import ForML.Lemmas.C19TableRt

namespace ForML.Codec

/-! ### the JSON layouts through `Json.to_pandas` -/

/-- what comes back for a cell written by `to_json` -/
def jsonBack (asFloat : Bool) : Val → Val
  | .int i => if asFloat then .float (i < 0) ⟨i.natAbs, 0⟩ else .int i
  | .float neg d => .float neg d.jsonRender
  | .text s => .text s
  | .bool b => .bool b
  | .null => .null
  | .inf _ => .null

theorem jsonCell_cell (a : Bool) (v : Val) : (jsonCell a v).cell = some (jsonBack a v) := by
  cases v with
  | int i => cases a <;> rfl
  | _ => rfl

theorem mapM_some {α β : Type} (l : List α) (f : α → Option β) (g : α → β) (h : ∀ x ∈ l, f x = some (g x)) :
    l.mapM f = some (l.map g) := by
  induction l with
  | nil => rfl
  | cons a r ih =>
    rw [List.mapM_cons, h a (by simp), ih (fun x hx => h x (List.mem_cons_of_mem _ hx))]
    rfl

theorem assocGet_none (k : Str) (ms : List (Str × JVal)) (h : ∀ kv ∈ ms, kv.1 ≠ k) : assocGet k ms = none := by
  induction ms with
  | nil => rfl
  | cons kv r ih =>
    obtain ⟨k', v⟩ := kv
    simp only [assocGet]
    rw [ih (fun x hx => h x (List.mem_cons_of_mem _ hx))]
    have : k' ≠ k := h (k', v) (by simp)
    simp [this]

/-- lookup of a column's name among the members built from the columns (distinct names) -/
theorem assocGet_cols (cols : List Column) (hn : (cols.map (·.name)).Nodup) (g : Column → JVal) (c : Column) (hc : c ∈ cols) :
    assocGet c.name (cols.map fun c' => (c'.name, g c')) = some (g c) := by
  induction cols with
  | nil => simp at hc
  | cons c0 r ih =>
    simp only [List.map_cons, List.nodup_cons] at hn
    simp only [List.map_cons, assocGet]
    rcases List.mem_cons.mp hc with rfl | hr
    · have : assocGet c.name (r.map fun c' => (c'.name, g c')) = none := by
        apply assocGet_none
        intro kv hkv
        obtain ⟨x, hx, rfl⟩ := List.mem_map.mp hkv
        intro e
        exact hn.1 (List.mem_map.mpr ⟨x, hx, e⟩)
      rw [this]; simp
    · rw [ih hn.2 hr]

theorem range_map_comp (l : List α) (d : α) (g : α → β) : (List.range l.length).map (fun i => g (getD' l i d)) = l.map g := by
  have := congrArg (List.map g) (range_map_getD' l d)
  simpa [List.map_map, Function.comp_def] using this

theorem jsonCells_back (c : Column) : c.jsonCells.map (fun j => (j.cell).getD .null) = c.cells.map (jsonBack (c.kind == .int && c.hasNull)) := by
  unfold Column.jsonCells
  rw [List.map_map]
  apply List.map_congr_left
  intro v _
  simp [jsonCell_cell]

structure JsonFacts (cl : Bool) (t : Table) : Prop where
  ne : t.cols ≠ []
  rows : t.nrows ≠ 0
  sniff : cl = true → ∀ c ∈ t.cols, c.name ≠ "instances".toList ∧ c.name ≠ "inputs".toList
  exact : ∀ c ∈ t.cols, c.jsonRounded = false

theorem jsonFacts_of_verdict (cl : Bool) (t : Table) (hv : t.jsonVerdict cl = .same) : JsonFacts cl t := by
  unfold Table.jsonVerdict at hv
  split at hv
  · cases hv
  · rename_i h1
    split at hv
    · cases hv
    · rename_i h2
      split at hv
      · cases hv
      · split at hv
        · cases hv
        · rename_i h4
          simp only [Bool.or_eq_true, beq_iff_eq, not_or] at h1
          refine ⟨?_, h1.2, ?_, ?_⟩
          · intro e; rw [e] at h1; simp at h1
          · intro hcl c hc
            have h2' := Bool.eq_false_iff.mpr h2
            rw [hcl, Bool.true_and] at h2'
            have := List.any_eq_false.mp h2' c hc
            simp only [Bool.or_eq_true, beq_iff_eq, not_or] at this
            exact this
          · intro c hc
            have := List.any_eq_false.mp (Bool.eq_false_iff.mpr h4) c hc
            exact Bool.eq_false_iff.mpr this

/-- a cell that is neither an infinity nor a float that the encoder rounds comes back as the same value -/
theorem jsonBack_same (a : Bool) (v : Val) (hinf : ∀ n, v ≠ .inf n) (hr : ∀ n d, v = .float n d → d.jsonRender.same d = true) :
    (jsonBack a v).same v = true := by
  cases v with
  | int i =>
    cases a
    · simp [jsonBack, Val.same]
    · simp only [jsonBack, if_true, Val.same, Nat.pow_zero, Int.mul_one, beq_iff_eq]
      by_cases h : i < 0 <;> simp [h] <;> omega
  | float n d => simp [jsonBack, Val.same, hr n d rfl]
  | text s => simp [jsonBack, Val.same]
  | bool b => simp [jsonBack, Val.same]
  | null => simp [jsonBack, Val.same]
  | inf n => exact absurd rfl (hinf n)

theorem column_json_same (c : Column) (hk : c.cells.all (Val.ofKind c.kind) = true) (hr : c.jsonRounded = false) (a : Bool) :
    sameCells (c.cells.map (jsonBack a)) c.cells = true := by
  unfold Column.jsonRounded at hr
  have hr' := List.any_eq_false.mp hr
  have hk' := List.all_eq_true.mp hk
  suffices h : ∀ cells : List Val, (∀ v ∈ cells, (∀ n, v ≠ .inf n) ∧ ∀ n d, v = .float n d → d.jsonRender.same d = true) →
      sameCells (cells.map (jsonBack a)) cells = true by
    apply h
    intro v hv
    constructor
    · intro n e; subst e
      have := hk' _ hv
      cases c.kind <;> simp [Val.ofKind] at this
    · intro n d e; subst e
      have := hr' _ hv
      simpa using this
  intro cells h
  induction cells with
  | nil => rfl
  | cons v r ih =>
    simp only [List.map_cons, sameCells, Bool.and_eq_true]
    exact ⟨jsonBack_same a v (h v (by simp)).1 (h v (by simp)).2, ih (fun x hx => h x (List.mem_cons_of_mem _ hx))⟩

theorem zip_map_pair (cols : List Column) (g : Column → β) : (cols.map (·.name)).zip (cols.map g) = cols.map (fun c => (c.name, g c)) := by
  induction cols with
  | nil => rfl
  | cons c r ih => simp [ih]

theorem frame_eq {cols : List Column} {g : Column → List Val} :
    Frame.table ((cols.map (·.name)).zip (cols.map g)) (cols.map (·.kind)) = ⟨cols.map (fun c => ⟨c.name, c.kind, g c⟩)⟩ := by
  have := frame_table_cols cols g
  cases hft : Frame.table ((cols.map (·.name)).zip (cols.map g)) (cols.map (·.kind))
  rw [hft] at this; simp only at this; rw [this]

/-- the frame of the cells as they come back is the same table -/
theorem table_json_frame_same (cl : Bool) (t : Table) (hwf : t.wf = true) (hv : t.jsonVerdict cl = .same) :
    (Frame.table (t.cols.map fun c => (c.name, c.cells.map (jsonBack (c.kind == .int && c.hasNull)))) (t.cols.map (·.kind))).same t = true := by
  have F := jsonFacts_of_verdict cl t hv
  have W := wfFacts t hwf
  rw [← zip_map_pair, frame_eq]
  exact table_same_of_cols t.cols _ (fun c hc => column_json_same c (W.kinds c hc) (F.exact c hc) _)

/-- **columns layout**: the frame `Json.to_pandas` makes of the document -/
theorem table_json_columns_frame (t : Table) (hwf : t.wf = true) (hv : t.jsonVerdict true = .same) :
    jsonToPandas t.jsonColumns = some (t.cols.map fun c => (c.name, c.cells.map (jsonBack (c.kind == .int && c.hasNull)))) := by
  have F := jsonFacts_of_verdict true t hv
  let back := fun c : Column => c.cells.map (jsonBack (c.kind == .int && c.hasNull))
  show jsonToPandas t.jsonColumns = some (t.cols.map fun c => (c.name, back c))
  unfold Table.jsonColumns jsonToPandas
  simp only
  have hno : ∀ k : Str, (∀ c ∈ t.cols, c.name ≠ k) →
      assocGet k (t.cols.map fun c => (c.name, JVal.obj ((rowLabels c.cells.length).zip c.jsonCells))) = none := by
    intro k hk
    apply assocGet_none
    intro kv hkv
    obtain ⟨c, hc, rfl⟩ := List.mem_map.mp hkv
    exact hk c hc
  rw [hno _ (fun c hc => (F.sniff rfl c hc).1), hno _ (fun c hc => (F.sniff rfl c hc).2)]
  simp only
  unfold fromColumns
  rw [List.mapM_map]
  apply mapM_some
  intro c _
  simp only [Function.comp]
  have : ((rowLabels c.cells.length).zip c.jsonCells).mapM (fun kc : Str × JVal => JVal.cell kc.2)
      = some (back c) := by
    rw [mapM_some _ _ (fun kc => (kc.2.cell).getD .null)]
    · congr 1
      have hz : ((rowLabels c.cells.length).zip c.jsonCells).map (fun kc => (kc.2.cell).getD .null)
          = c.jsonCells.map (fun j => (j.cell).getD .null) := by
        have hl : c.jsonCells.length ≤ (rowLabels c.cells.length).length := by simp [Column.jsonCells, rowLabels]
        have hfun : (fun kc : Str × JVal => (kc.2.cell).getD Val.null) = (fun j : JVal => (j.cell).getD Val.null) ∘ Prod.snd := rfl
        rw [hfun, ← List.map_map, List.map_snd_zip hl]
      rw [hz, jsonCells_back]
    · intro kc hkc
      have hmem : kc.2 ∈ c.jsonCells := (List.of_mem_zip hkc).2
      unfold Column.jsonCells at hmem
      obtain ⟨v, _, hv⟩ := List.mem_map.mp hmem
      rw [← hv, jsonCell_cell]; rfl
  rw [this]; rfl

theorem table_json_columns_roundtrip (t : Table) (hwf : t.wf = true) (hv : t.jsonVerdict true = .same) :
    ∃ f, jsonToPandas t.jsonColumns = some f ∧ (Frame.table f (t.cols.map (·.kind))).same t = true :=
  ⟨_, table_json_columns_frame t hwf hv, table_json_frame_same true t hwf hv⟩

/-! ### records layout -/

theorem mapM_congr_mem {α β : Type} (l : List α) (f g : α → Option β) (h : ∀ x ∈ l, f x = g x) : l.mapM f = l.mapM g := by
  induction l with
  | nil => rfl
  | cons a r ih =>
    rw [List.mapM_cons, List.mapM_cons, h a (by simp), ih (fun x hx => h x (List.mem_cons_of_mem _ hx))]

/-- `DataFrame.from_records` on the records the encoder writes: one column per name, the cells in record order -/
theorem fromRecords_spec (cols : List Column) (hnd : (cols.map (·.name)).Nodup) (n : Nat) (hn : n ≠ 0)
    (cellAt : Column → Nat → JVal) (res : Column → List Val)
    (hres : ∀ c ∈ cols, (List.range n).mapM (fun i => (cellAt c i).cell) = some (res c)) :
    fromRecords ((List.range n).map fun i => JVal.obj (cols.map fun c => (c.name, cellAt c i)))
      = some (cols.map fun c => (c.name, res c)) := by
  generalize hrecs : ((List.range n).map fun i => JVal.obj (cols.map fun c => (c.name, cellAt c i))) = recs
  have hcons : ∃ rest, recs = JVal.obj (cols.map fun c => (c.name, cellAt c 0)) :: rest := by
    obtain ⟨m, rfl⟩ : ∃ m, n = m + 1 := ⟨n - 1, by omega⟩
    rw [List.range_succ_eq_map] at hrecs
    simp only [List.map_cons] at hrecs
    exact ⟨_, hrecs.symm⟩
  obtain ⟨rest, hrest⟩ := hcons
  -- the lookups of one column over all records
  have hcol : ∀ c ∈ cols, recs.mapM (recordCell c.name) = some (res c) := by
    intro c hc
    rw [← hrecs, List.mapM_map, ← hres c hc]
    apply mapM_congr_mem
    intro i _
    simp only [Function.comp, recordCell]
    rw [assocGet_cols cols hnd (fun c' => cellAt c' i) c hc]
    rfl
  unfold fromRecords
  rw [hrest]
  simp only
  rw [← hrest]
  have hnames : (cols.map fun c => (c.name, cellAt c 0)).map (·.1) = cols.map (·.name) := by
    simp [List.map_map, Function.comp_def]
  rw [hnames, List.mapM_map]
  apply mapM_some
  intro c hc
  simp only [Function.comp]
  rw [hcol c hc]
  rfl

/-- **records layout**: the frame `Json.to_pandas` makes of the document -/
theorem table_json_records_frame (t : Table) (hwf : t.wf = true) (hv : t.jsonVerdict false = .same) :
    jsonToPandas t.jsonRecords = some (t.cols.map fun c => (c.name, c.cells.map (jsonBack (c.kind == .int && c.hasNull)))) := by
  have F := jsonFacts_of_verdict false t hv
  have W := wfFacts t hwf
  let back := fun c : Column => c.cells.map (jsonBack (c.kind == .int && c.hasNull))
  show jsonToPandas t.jsonRecords = some (t.cols.map fun c => (c.name, back c))
  unfold Table.jsonRecords jsonToPandas
  simp only
  have hrows : (toRows (t.cols.map Column.jsonCells) JVal.null t.nrows).map (fun row => JVal.obj ((t.cols.map (·.name)).zip row))
      = (List.range t.nrows).map fun i => JVal.obj (t.cols.map fun c => (c.name, getD' c.jsonCells i JVal.null)) := by
    unfold toRows rowAt
    rw [List.map_map]
    apply List.map_congr_left
    intro i _
    simp only [Function.comp, List.map_map]
    have := zip_map_pair t.cols (fun c => getD' c.jsonCells i JVal.null)
    simp only [Function.comp_def] at this ⊢
    rw [this]
  rw [hrows]
  apply fromRecords_spec t.cols W.names t.nrows F.rows (fun c i => getD' c.jsonCells i JVal.null) back
  intro c hc
  have hlen : c.jsonCells.length = t.nrows := by simp [Column.jsonCells, W.len c hc]
  rw [mapM_some _ _ (fun i => ((getD' c.jsonCells i JVal.null).cell).getD Val.null)]
  · rw [← hlen, range_map_comp c.jsonCells JVal.null (fun j => (j.cell).getD Val.null), jsonCells_back]
  · intro i hi
    have hi' : i < c.jsonCells.length := by rw [hlen]; simpa using hi
    have hmem := getD'_mem c.jsonCells i JVal.null hi'
    unfold Column.jsonCells at hmem
    obtain ⟨v, _, hv⟩ := List.mem_map.mp hmem
    unfold Column.jsonCells
    rw [← hv, jsonCell_cell]; rfl

theorem table_json_records_roundtrip (t : Table) (hwf : t.wf = true) (hv : t.jsonVerdict false = .same) :
    ∃ f, jsonToPandas t.jsonRecords = some f ∧ (Frame.table f (t.cols.map (·.kind))).same t = true :=
  ⟨_, table_json_records_frame t hwf hv, table_json_frame_same false t hwf hv⟩

/-! ### the decoder after `Json.to_pandas`: `Schema.from_frame` in a fresh process -/

theorem jsonBack_bool (a : Bool) (v : Val) (h : (match jsonBack a v with | .bool _ => true | _ => false) = true) : ∃ b, v = .bool b := by
  cases v with
  | bool b => exact ⟨b, rfl⟩
  | int i => cases a <;> simp [jsonBack] at h
  | _ => simp [jsonBack] at h

theorem jsonBack_null (a : Bool) (v : Val) (h : (jsonBack a v == .null) = true) : v = .null ∨ ∃ n, v = .inf n := by
  cases v with
  | null => exact Or.inl rfl
  | inf n => exact Or.inr ⟨n, rfl⟩
  | int i => cases a <;> simp [jsonBack] at h
  | _ => simp [jsonBack] at h

theorem frame_not_untypable (t : Table) (hk : ∀ c ∈ t.cols, c.cells.all (Val.ofKind c.kind) = true)
    (hb : ∀ c ∈ t.cols, (c.kind == .bool && c.hasNull) = false) :
    Frame.untypable (t.cols.map fun c => (c.name, c.cells.map (jsonBack (c.kind == .int && c.hasNull)))) = false := by
  unfold Frame.untypable
  rw [List.any_map]
  apply Bool.eq_false_iff.mpr
  intro hany
  obtain ⟨c, hc, hcol⟩ := List.any_eq_true.mp hany
  simp only [Function.comp, Bool.and_eq_true, List.any_map] at hcol
  obtain ⟨hnull, hbool⟩ := hcol
  obtain ⟨v, hv, hvb⟩ := List.any_eq_true.mp hbool
  obtain ⟨w, hw, hwn⟩ := List.any_eq_true.mp hnull
  have hkv := List.all_eq_true.mp (hk c hc) v hv
  have hkw := List.all_eq_true.mp (hk c hc) w hw
  obtain ⟨b, rfl⟩ := jsonBack_bool _ v hvb
  -- a cell that comes back as a boolean was one: the column is boolean
  have hkind : c.kind = .bool := by
    cases hkc : c.kind <;> rw [hkc] at hkv <;> simp [Val.ofKind] at hkv ⊢
  -- a cell that comes back missing was missing (no infinity is ever written)
  have hnullc : c.hasNull = true := by
    unfold Column.hasNull
    rw [List.any_eq_true]
    refine ⟨w, hw, ?_⟩
    rcases jsonBack_null _ w hwn with rfl | ⟨n, rfl⟩
    · rfl
    · rw [hkind] at hkw; simp [Val.ofKind] at hkw
  have := hb c hc
  rw [hkind, hnullc] at this
  simp at this

theorem jsonDecode_of_frame (doc : JVal) (t : Table) (hne : t.cols ≠ []) (hrows : t.nrows ≠ 0)
    (hlen : ∀ c ∈ t.cols, c.cells.length = t.nrows)
    (hk : ∀ c ∈ t.cols, c.cells.all (Val.ofKind c.kind) = true) (hb : ∀ c ∈ t.cols, (c.kind == .bool && c.hasNull) = false)
    (h : jsonToPandas doc = some (t.cols.map fun c => (c.name, c.cells.map (jsonBack (c.kind == .int && c.hasNull))))) :
    jsonDecode doc = some (t.cols.map fun c => (c.name, c.cells.map (jsonBack (c.kind == .int && c.hasNull)))) := by
  unfold jsonDecode
  rw [h]
  simp only
  have h1 : (t.cols.map fun c => (c.name, c.cells.map (jsonBack (c.kind == .int && c.hasNull)))).isEmpty = false := by
    cases hc : t.cols with
    | nil => exact absurd hc hne
    | cons _ _ => rfl
  have h2 : (t.cols.map fun c => (c.name, c.cells.map (jsonBack (c.kind == .int && c.hasNull)))).any (fun col => col.2.isEmpty) = false := by
    rw [List.any_map]
    apply Bool.eq_false_iff.mpr
    intro hany
    obtain ⟨c, hc, he⟩ := List.any_eq_true.mp hany
    simp only [Function.comp, List.isEmpty_iff, List.map_eq_nil_iff] at he
    have := hlen c hc
    rw [he] at this
    exact hrows this.symm
  rw [h1, h2, frame_not_untypable t hk hb]
  rfl

theorem json_bool_facts (cl : Bool) (t : Table) (hv : t.jsonVerdict cl = .same) :
    ∀ c ∈ t.cols, (c.kind == .bool && c.hasNull) = false := by
  unfold Table.jsonVerdict at hv
  split at hv
  · cases hv
  · split at hv
    · cases hv
    · split at hv
      · cases hv
      · rename_i h3
        intro c hc
        have := List.any_eq_false.mp (Bool.eq_false_iff.mpr h3) c hc
        exact Bool.eq_false_iff.mpr this

end ForML.Codec
