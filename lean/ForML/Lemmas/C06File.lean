/-
C06 — file origins: the options the user configures win over the class defaults, and a file described by the effective
options loads to exactly its content.  Core Lean only.
-/
import ForML.Model.FileOrigin

namespace ForML.C06
open ForML.Rel ForML.FileOrigin

theorem lookup_append {β : Type} (k : String) : ∀ (a b : List (String × β)),
    (a ++ b).lookup k = (a.lookup k).orElse (fun _ => b.lookup k)
  | [], b => by simp [List.lookup]
  | (k', v) :: a, b => by
    by_cases h : k = k'
    · subst h; simp [List.lookup]
    · have : (k == k') = false := by simpa using h
      simp [List.lookup, this, lookup_append k a b]

theorem lookup_filter_absent (k : String) (b : Options) : ∀ (a : Options), b.lookup k = none →
    (a.filter (fun kv => (b.lookup kv.1).isNone)).lookup k = a.lookup k
  | [], _ => rfl
  | (k', v) :: a, hb => by
    by_cases h : k = k'
    · subst h; simp [List.filter, hb, List.lookup]
    · have hk : (k == k') = false := by simpa using h
      by_cases hf : (b.lookup k').isNone = true
      · simp [List.filter, hf, List.lookup, hk, lookup_filter_absent k b a hb]
      · simp [List.filter, hf, List.lookup, hk, lookup_filter_absent k b a hb]

/-- `a | b`: a key of `b` has `b`'s value, any other key `a`'s -/
theorem lookup_merge (a b : Options) (k : String) :
    (merge a b).lookup k = match b.lookup k with
      | some v => some v
      | none => a.lookup k := by
  unfold merge
  rw [lookup_append]
  cases hb : b.lookup k with
  | some v => rfl
  | none => simp [lookup_filter_absent k b a hb]

theorem loadCsv_writeCsv (opts : Options) (cols : List String) (rows file : List Row)
    (h : writeCsv opts cols rows = some file) : loadCsv opts file = some rows := by
  unfold writeCsv at h
  unfold loadCsv
  cases hn : headerLines opts with
  | none => simp [hn] at h
  | some n =>
    simp only [hn, Option.map_some, Option.some.injEq] at h ⊢
    subst h
    simp

end ForML.C06
