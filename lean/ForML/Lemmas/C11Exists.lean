/-
C11 helper lemmas, part 10: tracing with an explicit tail (`exists` of `Traversal.tail(expected)`).
The search is depth first and stops at the first hit (`any`), so a cycle beside the found path goes unnoticed (by
design); what it answers is still exact: `found` comes with a repetition-free walk from the head to the tail,
`Cyclic` with a walk from the head that runs into a node it has passed, `Disconnected` only when no walk reaches
the tail.
-/
import ForML.Model.Graph

namespace ForML.Graph

/-- a walk over mapper subscriptions (as `mappers(expected)` yields them) -/
def TrailE (g : G) (t : Nat) : Nat → List Nat → Prop
  | _, [] => True
  | p, y :: ys => y ∈ mappers g p (some t) ∧ TrailE g t y ys

/-- the same walk, never stepping on a node of `ms` or on a node it has passed (`members` of the traversal) -/
def TrailM (g : G) (t : Nat) : List Nat → Nat → List Nat → Prop
  | _, _, [] => True
  | ms, p, y :: ys => y ∈ mappers g p (some t) ∧ memNode g y ms = false ∧ TrailM g t (y :: ms) y ys

theorem TrailM.trailE {g : G} {t : Nat} : ∀ {ys : List Nat} {ms : List Nat} {p : Nat}, TrailM g t ms p ys → TrailE g t p ys := by
  intro ys
  induction ys with
  | nil => intro _ _ _; trivial
  | cons y ys ih => intro ms p h; exact ⟨h.1, ih h.2.2⟩

/-- one step of the fold of `existsT` -/
def estep (fuel : Nat) (g : G) (t : Nat) (ms : List Nat) (acc : Found) (n : Nat) : Found :=
  match acc with
  | .notFound => if memNode g n ms then .cyclic else existsT fuel g t n (n :: ms)
  | r => r

theorem existsT_succ (fuel : Nat) (g : G) (t p : Nat) (ms : List Nat) :
    existsT (fuel + 1) g t p ms =
      if eqNode g p t then .found else (mappers g p (some t)).foldl (estep fuel g t ms) .notFound := rfl

theorem estep_absorb (fuel : Nat) (g : G) (t : Nat) (ms : List Nat) : ∀ (ns : List Nat) (r : Found),
    r ≠ .notFound → ns.foldl (estep fuel g t ms) r = r := by
  intro ns
  induction ns with
  | nil => intro r _; rfl
  | cons n ns ih =>
    intro r hr
    simp only [List.foldl_cons]
    have : estep fuel g t ms r n = r := by
      unfold estep
      cases r <;> first | rfl | exact absurd rfl hr
    rw [this]
    exact ih r hr

/-- what the fold answers: the answer of the first child that does not answer `notFound` -/
theorem estep_fold (fuel : Nat) (g : G) (t : Nat) (ms : List Nat) : ∀ (ns : List Nat),
    (ns.foldl (estep fuel g t ms) .notFound = .notFound ∧
      ∀ n ∈ ns, memNode g n ms = false ∧ existsT fuel g t n (n :: ms) = .notFound) ∨
    (∃ n ∈ ns, ns.foldl (estep fuel g t ms) .notFound ≠ .notFound ∧
      ((memNode g n ms = true ∧ ns.foldl (estep fuel g t ms) .notFound = .cyclic) ∨
       (memNode g n ms = false ∧ existsT fuel g t n (n :: ms) = ns.foldl (estep fuel g t ms) .notFound))) := by
  intro ns
  induction ns with
  | nil => exact .inl ⟨rfl, by simp⟩
  | cons n ns ih =>
    simp only [List.foldl_cons]
    by_cases hm : memNode g n ms = true
    · have hv : estep fuel g t ms .notFound n = .cyclic := by simp [estep, hm]
      have hne : Found.cyclic ≠ Found.notFound := by decide
      rw [hv, estep_absorb fuel g t ms ns .cyclic hne]
      exact .inr ⟨n, List.mem_cons_self, hne, .inl ⟨hm, rfl⟩⟩
    · have hm' : memNode g n ms = false := by simpa using hm
      have hv : estep fuel g t ms .notFound n = existsT fuel g t n (n :: ms) := by simp [estep, hm']
      rw [hv]
      by_cases hr : existsT fuel g t n (n :: ms) = .notFound
      · rw [hr]
        rcases ih with ⟨h1, h2⟩ | ⟨m, hmem, h1, h2⟩
        · left
          refine ⟨h1, ?_⟩
          intro x hx
          rcases List.mem_cons.mp hx with rfl | hx
          · exact ⟨hm', hr⟩
          · exact h2 x hx
        · exact .inr ⟨m, List.mem_cons_of_mem _ hmem, h1, h2⟩
      · rw [estep_absorb fuel g t ms ns _ hr]
        exact .inr ⟨n, List.mem_cons_self, hr, .inr ⟨hm', rfl⟩⟩

/-- `found`: a repetition-free walk from the pivot ends in (a node that compares equal to) the tail -/
theorem existsT_found (g : G) (t : Nat) : ∀ (fuel p : Nat) (ms : List Nat), existsT fuel g t p ms = .found →
    ∃ ys, TrailM g t ms p ys ∧ eqNode g (ys.getLastD p) t = true := by
  intro fuel
  induction fuel with
  | zero => intro p ms h; simp [existsT] at h
  | succ k ih =>
    intro p ms h
    rw [existsT_succ] at h
    by_cases he : eqNode g p t = true
    · exact ⟨[], trivial, by simpa using he⟩
    · simp only [he, Bool.false_eq_true, ↓reduceIte] at h
      rcases estep_fold k g t ms (mappers g p (some t)) with ⟨h1, _⟩ | ⟨n, hn, _, h2⟩
      · rw [h1] at h; cases h
      · rw [h] at h2
        rcases h2 with ⟨_, hc⟩ | ⟨hm, hx⟩
        · cases hc
        · obtain ⟨ys, hy, hl⟩ := ih n (n :: ms) hx
          exact ⟨n :: ys, ⟨hn, hm, hy⟩, by rw [List.getLastD_cons]; exact hl⟩

/-- `Cyclic`: a repetition-free walk from the pivot whose next step runs into a node it has passed (or a member) -/
theorem existsT_cyclic (g : G) (t : Nat) : ∀ (fuel p : Nat) (ms : List Nat), existsT fuel g t p ms = .cyclic →
    ∃ ys n, TrailM g t ms p ys ∧ n ∈ mappers g (ys.getLastD p) (some t) ∧ memNode g n (ys.reverse ++ ms) = true := by
  intro fuel
  induction fuel with
  | zero => intro p ms h; simp [existsT] at h
  | succ k ih =>
    intro p ms h
    rw [existsT_succ] at h
    by_cases he : eqNode g p t = true
    · simp [he] at h
    · simp only [he, Bool.false_eq_true, ↓reduceIte] at h
      rcases estep_fold k g t ms (mappers g p (some t)) with ⟨h1, _⟩ | ⟨n, hn, _, h2⟩
      · rw [h1] at h; cases h
      · rw [h] at h2
        rcases h2 with ⟨hm, _⟩ | ⟨hm, hx⟩
        · exact ⟨[], n, trivial, by simpa using hn, by simpa using hm⟩
        · obtain ⟨ys, m, hy, hmm, hmem⟩ := ih n (n :: ms) hx
          refine ⟨n :: ys, m, ⟨hn, hm, hy⟩, by rw [List.getLastD_cons]; exact hmm, ?_⟩
          have e : (n :: ys).reverse ++ ms = ys.reverse ++ n :: ms := by simp
          rw [e]; exact hmem

/-- `notFound` (-> `Disconnected tail`): no walk from the pivot reaches the tail -/
theorem existsT_notFound (g : G) (t : Nat) : ∀ (fuel p : Nat) (ms : List Nat), existsT fuel g t p ms = .notFound →
    ∀ ys, TrailE g t p ys → eqNode g (ys.getLastD p) t = false := by
  intro fuel
  induction fuel with
  | zero => intro p ms h; simp [existsT] at h
  | succ k ih =>
    intro p ms h ys hy
    rw [existsT_succ] at h
    by_cases he : eqNode g p t = true
    · simp [he] at h
    · simp only [he, Bool.false_eq_true, ↓reduceIte] at h
      cases ys with
      | nil => simpa using he
      | cons y ys =>
        rcases estep_fold k g t ms (mappers g p (some t)) with ⟨_, h2⟩ | ⟨n, _, h1, _⟩
        · have := ih y (y :: ms) (h2 y hy.1).2 ys hy.2
          rw [List.getLastD_cons]; exact this
        · exact absurd h h1

/-- what `Segment(h, t)` with an explicit tail answers -/
theorem segment_explicit (g : G) (h t : Nat) :
    (segment g h (some t) = .err .noNode) ∨ (segment g h (some t) = .err .simpleHead) ∨
    (existsT (fuelOf g) g t h [h] = .found ∧ (segment g h (some t) = .node t ∨ segment g h (some t) = .err .simpleTail)) ∨
    (existsT (fuelOf g) g t h [h] = .cyclic ∧ segment g h (some t) = .err .cyclic) ∨
    (existsT (fuelOf g) g t h [h] = .notFound ∧ segment g h (some t) = .err .disconnected) ∨
    (existsT (fuelOf g) g t h [h] = .depth ∧ segment g h (some t) = .err .recursion) := by
  unfold segment
  split
  · exact .inl rfl
  · split
    · exact .inr (.inl rfl)
    · simp only
      split
      · exact .inl rfl
      · rename_i hlen
        cases hex : existsT (fuelOf g) g t h [h] with
        | found =>
          right; right; left
          refine ⟨rfl, ?_⟩
          simp only
          have hlt : t < g.nodes.length := by omega
          rw [List.getElem?_eq_getElem hlt]
          simp only
          split
          · exact .inr rfl
          · exact .inl rfl
        | cyclic => exact .inr (.inr (.inr (.inl ⟨rfl, rfl⟩)))
        | notFound => exact .inr (.inr (.inr (.inr (.inl ⟨rfl, rfl⟩))))
        | depth => exact .inr (.inr (.inr (.inr (.inr ⟨rfl, rfl⟩))))

/-- a traced explicit tail is the tail asked for, and both ends are nodes -/
theorem segment_some_node (g : G) (h t tl : Nat) (hs : segment g h (some t) = .node tl) :
    tl = t ∧ h < g.nodes.length ∧ t < g.nodes.length := by
  unfold segment at hs
  split at hs
  · cases hs
  · rename_i hn heq
    have hh : h < g.nodes.length := (List.getElem?_eq_some_iff.mp heq).1
    split at hs
    · cases hs
    · simp only at hs
      split at hs
      · cases hs
      · rename_i hlen
        have ht : t < g.nodes.length := by omega
        split at hs
        · rw [List.getElem?_eq_getElem ht] at hs
          simp only at hs
          split at hs
          · cases hs
          · cases hs; exact ⟨rfl, hh, ht⟩
        · cases hs
        · cases hs
        · cases hs

end ForML.Graph
