/-
C04 helper lemmas, part 5: the fuel of the traversal model never runs out — `Comp.fuel` steps always empty the
stack, and more fuel does not change the result (so `Comp.visit` is the complete `Traversal.each` order).
-/
import ForML.Model.Persist

namespace ForML.Persist

namespace Comp

/-- potential: pending stack entries + subscriptions of publishers not yet visited -/
def potential (c : Comp) (stack seen : List Nat) : Nat :=
  stack.length + (c.edges.filter (fun e => !seen.contains e.1)).length

theorem next_length_le (c : Comp) (t u : Nat) : (c.next t u).length ≤ (c.subs u).length := by
  simp only [next]
  split
  · exact List.length_filter_le _ _
  · exact Nat.le_refl _

theorem filter_unseen_split (c : Comp) (seen : List Nat) (u : Nat) (hu : seen.contains u = false) :
    (c.edges.filter (fun e => !seen.contains e.1)).length
      = (c.edges.filter (fun e => !(seen ++ [u]).contains e.1)).length + (c.subs u).length := by
  simp only [subs, List.length_map]
  induction c.edges with
  | nil => rfl
  | cons e es ih =>
    obtain ⟨a, b⟩ := e
    simp only [List.filter_cons]
    by_cases h1 : a = u
    · subst h1
      have hs2 : (seen ++ [a]).contains a = true := by simp
      simp only [hu, hs2, Bool.not_false, Bool.not_true, if_true, Bool.false_eq_true, if_false,
        beq_self_eq_true, List.length_cons]
      omega
    · have hne : (a == u) = false := by simp [h1]
      have hs2 : (seen ++ [u]).contains a = seen.contains a := by
        simp [h1]
      simp only [hs2, hne, Bool.false_eq_true, if_false]
      cases hsc : seen.contains a with
      | true => simpa using ih
      | false =>
        simp only [Bool.not_false, if_true, List.length_cons]
        omega

/-- one step on an unseen node lowers the potential -/
theorem potential_push (c : Comp) (t u : Nat) (rest seen : List Nat) (hu : seen.contains u = false) :
    c.potential (c.next t u ++ rest) (seen ++ [u]) + 1 ≤ c.potential (u :: rest) seen := by
  have h1 := filter_unseen_split c seen u hu
  have h2 := next_length_le c t u
  simp only [potential, List.length_append, List.length_cons]
  omega

/-- with enough fuel, extra fuel changes nothing -/
theorem dfs_fuel_add (c : Comp) (t : Nat) :
    ∀ (f : Nat) (stack seen : List Nat), c.potential stack seen ≤ f →
      ∀ k, c.dfs t (f + k) stack seen = c.dfs t f stack seen := by
  intro f
  induction f with
  | zero =>
    intro stack seen hp k
    have hs : stack = [] := by
      cases stack with
      | nil => rfl
      | cons x xs => simp [potential] at hp
    subst hs
    cases k <;> simp [dfs]
  | succ f ih =>
    intro stack seen hp k
    cases stack with
    | nil =>
      have : f + 1 + k = (f + k) + 1 := by omega
      rw [this]
      simp [dfs]
    | cons u rest =>
      have : f + 1 + k = (f + k) + 1 := by omega
      rw [this]
      simp only [dfs]
      cases hsu : seen.contains u with
      | true =>
        simp only [if_true]
        apply ih
        simp only [potential, List.length_cons] at hp ⊢
        omega
      | false =>
        simp only [Bool.false_eq_true, if_false]
        apply ih
        have := potential_push c t u rest seen hsu
        omega

theorem potential_init (c : Comp) (h : Nat) : c.potential [h] [] ≤ c.fuel := by
  simp only [potential, fuel, List.length_cons, List.length_nil]
  have := List.length_filter_le (fun e : Nat × Nat => !([] : List Nat).contains e.1) c.edges
  omega

/-- `visit` is independent of any additional fuel -/
theorem visit_fuel (c : Comp) (h t k : Nat) : c.dfs t (c.fuel + k) [h] [] = c.visit h t :=
  dfs_fuel_add c t c.fuel [h] [] (potential_init c h) k

end Comp

end ForML.Persist
