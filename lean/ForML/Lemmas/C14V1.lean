/-
C14 — helper lemmas, part 10: the hypotheses of the first version of `C14_filter_partial` (`innerOnly`, `wellScopedV1`:
no outer join anywhere, no table scanned both directly and through a reference) imply the present ones
(`grammarScoped`, `safe false`): the proved fragment only grew.  Used by `ForML.Props.C14` (`C14_safe_of_v1`).
-/
import ForML.Lemmas.C14Uses

namespace ForML.PushDown
open ForML.Dsl

theorem noAliased_mem {O : List Source} (h : noAliasedScan O = true) {i : Source} {nm : String}
    (hr : Source.ref i nm ∈ O) (ht : isTable i = true) : i ∉ O := by
  unfold noAliasedScan at h
  rw [List.all_eq_true] at h
  have := h _ hr
  simp only [ht, Bool.true_and, Bool.not_eq_true', List.contains_eq_mem, decide_eq_false_iff_not] at this
  exact this

/-- conditions over the origins `O` yield no factor for a table outside `O` -/
theorem noFactorFor_of_scoped {len : Bool} {Q : List Feature} {O : List Source} {i : Source}
    (hQ : ∀ p ∈ Q, ∀ e ∈ elems p, e.1 ∈ O) (hi : i ∉ O) : noFactorFor len Q [i] = true := by
  unfold noFactorFor
  simp only [List.all_cons, List.all_nil, Bool.and_true, List.all_eq_true, Bool.not_eq_true', List.contains_eq_mem,
    decide_eq_false_iff_not]
  intro p hp hin
  unfold factorTables at hin
  cases hm : factorsOf len p with
  | error e => simp [hm] at hin
  | ok m =>
    simp only [hm, List.mem_map] at hin
    obtain ⟨x, hx, rfl⟩ := hin
    obtain ⟨n, hn⟩ := factor_table_mem hm hx
    exact hi (hQ p hp _ hn)

theorem wellScopedV1_grammar : ∀ (s : Source), wellScopedV1 s = true → grammarScoped s = true
  | .table _ _, _ => rfl
  | .ref i _, h => by
    simp only [wellScopedV1, Bool.and_eq_true] at h
    simp [grammarScoped, h.1, wellScopedV1_grammar i h.2]
  | .join l r _ _, h => by
    simp only [wellScopedV1, Bool.and_eq_true] at h
    simp [grammarScoped, wellScopedV1_grammar l h.1, wellScopedV1_grammar r h.2]
  | .set l r _, h => by
    simp only [wellScopedV1, Bool.and_eq_true] at h
    simp [grammarScoped, h.1.1.1, h.1.1.2, wellScopedV1_grammar l h.1.2, wellScopedV1_grammar r h.2]
  | .query src _ _ _ _ _ _, h => by
    simp only [wellScopedV1, Bool.and_eq_true, decide_eq_true_eq] at h
    simp [grammarScoped, h.1.1.1.1, h.1.1.1.2, wellScopedV1_grammar src h.2]

/-- statements without outer joins and without aliased scans lie outside the regions of both findings -/
theorem safe_of_v1 (len : Bool) :
    ∀ (s : Source), innerOnly s = true → wellScopedV1 s = true →
      (∀ (O : List Source) (P Q : List Feature), (∀ o ∈ origins s, o ∈ O) → noAliasedScan O = true →
          joinsScoped s = true → (∀ p ∈ Q, ∀ e ∈ elems p, e.1 ∈ O) → safe false len P Q s = true)
      ∧ (isStmt s = true → ∀ P Q, safe false len P Q s = true)
  | .table _ _, _, _ => ⟨fun _ _ _ _ _ _ _ => rfl, by simp [isStmt]⟩
  | .ref i nm, hi, hw => by
    refine ⟨?_, by simp [isStmt]⟩
    intro O P Q hO hna _ hQ
    simp only [innerOnly] at hi
    simp only [wellScopedV1, Bool.and_eq_true, Bool.or_eq_true] at hw
    simp only [safe]
    by_cases ht : isTable i = true
    · simp only [ht, if_true, Bool.false_or]
      exact noFactorFor_of_scoped hQ (noAliased_mem (nm := nm) hna (hO _ (by simp [origins])) ht)
    · simp only [ht, Bool.false_eq_true, if_false]
      rcases hw.1 with ht' | hs
      · exact absurd ht' ht
      · exact (safe_of_v1 len i hi hw.2).2 hs [] []
  | .join l r k c, hi, hw => by
    refine ⟨?_, by simp [isStmt]⟩
    intro O P Q hO hna hjs hQ
    simp only [innerOnly, Bool.and_eq_true, Bool.or_eq_true, beq_iff_eq] at hi
    simp only [wellScopedV1, Bool.and_eq_true] at hw
    simp only [joinsScoped, Bool.and_eq_true] at hjs
    have hOl : ∀ o ∈ origins l, o ∈ O := fun o ho => hO o (by simp [origins, ho])
    have hOr : ∀ o ∈ origins r, o ∈ O := fun o ho => hO o (by simp [origins, ho])
    have hc : ∀ p ∈ optList c, ∀ e ∈ elems p, e.1 ∈ O := by
      intro p hp e he
      have := scopedIn_mem hjs.1.1 (elemsAll_optList hp he)
      exact hO _ (by simpa [origins] using this)
    have hQ1 : ∀ p ∈ optList c ++ Q, ∀ e ∈ elems p, e.1 ∈ O := by
      intro p hp
      rcases List.mem_append.mp hp with hp | hp
      · exact hc p hp
      · exact hQ p hp
    have hQ2 : ∀ p ∈ condsOf l ++ (optList c ++ Q), ∀ e ∈ elems p, e.1 ∈ O := by
      intro p hp
      rcases List.mem_append.mp hp with hp | hp
      · intro e he
        exact hOl _ (conds_scoped l hjs.1.2 e (List.mem_flatMap.mpr ⟨p, hp, he⟩))
      · exact hQ1 p hp
    have hl := (safe_of_v1 len l hi.1.2 hw.1).1 O (optList c ++ P) _ hOl hna hjs.1.2 hQ1
    have hr := (safe_of_v1 len r hi.2 hw.2).1 O (optList c ++ P) _ hOr hna hjs.2 hQ2
    rcases hi.1.1 with rfl | rfl <;> simp [safe, hl, hr]
  | .set l r k, hi, hw => by
    simp only [innerOnly, Bool.and_eq_true] at hi
    simp only [wellScopedV1, Bool.and_eq_true] at hw
    have h : ∀ P Q, safe false len P Q (.set l r k) = true := by
      intro P Q
      simp [safe, (safe_of_v1 len l hi.1 hw.1.2).2 hw.1.1.1 [] [], (safe_of_v1 len r hi.2 hw.2).2 hw.1.1.2 [] []]
    exact ⟨fun _ P Q _ _ _ _ => h P Q, fun _ => h⟩
  | .query src sel pre grp post ord rows, hi, hw => by
    simp only [innerOnly] at hi
    simp only [wellScopedV1, Bool.and_eq_true, decide_eq_true_eq] at hw
    have h : ∀ P Q, safe false len P Q (.query src sel pre grp post ord rows) = true := by
      intro P Q
      simp only [safe]
      refine (safe_of_v1 len src hi hw.2).1 (origins src) _ _ (fun o ho => ho) hw.1.2 hw.1.1.1.2 ?_
      intro p hp e he
      exact scopedIn_mem hw.1.1.2 (elemsAll_optList hp he)
    exact ⟨fun _ P Q _ _ _ _ => h P Q, fun _ => h⟩

end ForML.PushDown
