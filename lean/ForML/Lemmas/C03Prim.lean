/-
C03 — helper lemmas, part 2: the primitive construction steps.

Every primitive of the construction monad (`fresh`, `newWorker`, `fork`, `newFuture`, `subscribe`, `train`,
`derived`) is described by an explicit successor graph built from four `push` operations; lookups through the
pushes are computed by `simp`.  `Frame g g'`: a construction that touches only what it created leaves every
lookup of an older uid / gid unchanged — certified valuations survive (`Inv.ofFrame`); new nodes become live
one at a time (`Inv.setLive`), a hole is bound by adding the local constraint (`Inv.bindFuture`).
-/
import ForML.Lemmas.C03Eval

namespace ForML.Compose

/-! ### graph successor operations -/

def Graph.bump (g : Graph) : Graph := { g with next := g.next + 1 }
def Graph.pushNode (g : Graph) (n : Node) : Graph := { g with nodes := g.nodes ++ [n] }
def Graph.pushEdge (g : Graph) (e : Edge) : Graph := { g with edges := g.edges ++ [e] }
def Graph.pushTrain (g : Graph) (t : Training) : Graph := { g with trains := g.trains ++ [t] }

@[simp] theorem bump_next (g : Graph) : g.bump.next = g.next + 1 := rfl
@[simp] theorem pushNode_next (g : Graph) (n) : (g.pushNode n).next = g.next := rfl
@[simp] theorem pushEdge_next (g : Graph) (e) : (g.pushEdge e).next = g.next := rfl
@[simp] theorem pushTrain_next (g : Graph) (t) : (g.pushTrain t).next = g.next := rfl

@[simp] theorem bump_trains (g : Graph) : g.bump.trains = g.trains := rfl
@[simp] theorem pushNode_trains (g : Graph) (n) : (g.pushNode n).trains = g.trains := rfl
@[simp] theorem pushEdge_trains (g : Graph) (e) : (g.pushEdge e).trains = g.trains := rfl
@[simp] theorem pushTrain_trains (g : Graph) (t) : (g.pushTrain t).trains = g.trains ++ [t] := rfl

@[simp] theorem kindOf_bump (g : Graph) (u) : g.bump.kindOf u = g.kindOf u := rfl
@[simp] theorem kindOf_pushEdge (g : Graph) (e u) : (g.pushEdge e).kindOf u = g.kindOf u := rfl
@[simp] theorem kindOf_pushTrain (g : Graph) (t u) : (g.pushTrain t).kindOf u = g.kindOf u := rfl
theorem kindOf_pushNode (g : Graph) (n : Node) (u : Nat) :
    (g.pushNode n).kindOf u = (g.kindOf u).or (if n.uid = u then some n.kind else none) := by
  unfold Graph.kindOf Graph.pushNode
  simp only [List.find?_append, Option.map_or]
  congr 1
  by_cases h : n.uid = u <;> simp [h]

@[simp] theorem inputOf_bump (g : Graph) (u k) : g.bump.inputOf u k = g.inputOf u k := rfl
@[simp] theorem inputOf_pushNode (g : Graph) (n u k) : (g.pushNode n).inputOf u k = g.inputOf u k := rfl
@[simp] theorem inputOf_pushTrain (g : Graph) (t u k) : (g.pushTrain t).inputOf u k = g.inputOf u k := rfl
theorem inputOf_pushEdge (g : Graph) (e : Edge) (u k : Nat) :
    (g.pushEdge e).inputOf u k = (g.inputOf u k).or (if e.sub = u ∧ e.port = k then some e.pub else none) := by
  unfold Graph.inputOf Graph.pushEdge
  simp only [List.find?_append, Option.map_or]
  congr 1
  by_cases h : e.sub = u ∧ e.port = k
  · simp [h]
  · have : (e.sub == u && e.port == k) = false := by
      cases hh : (e.sub == u && e.port == k)
      · rfl
      · simp at hh; exact absurd hh h
    simp [h, this]

@[simp] theorem trainerOf_bump (g : Graph) (u) : g.bump.trainerOf u = g.trainerOf u := rfl
@[simp] theorem trainerOf_pushNode (g : Graph) (n u) : (g.pushNode n).trainerOf u = g.trainerOf u := rfl
@[simp] theorem trainerOf_pushEdge (g : Graph) (e u) : (g.pushEdge e).trainerOf u = g.trainerOf u := rfl
theorem trainerOf_pushTrain (g : Graph) (t : Training) (gid : Nat) :
    (g.pushTrain t).trainerOf gid = (g.trainerOf gid).or (if t.gid = gid then some t else none) := by
  unfold Graph.trainerOf Graph.pushTrain
  simp only [List.find?_append]
  congr 1
  by_cases h : t.gid = gid <;> simp [h]

/-! ### bounds: everything recorded is below `next` -/

structure Bounded (g : Graph) : Prop where
  nodesLt : ∀ n ∈ g.nodes, n.uid < g.next
  gidsLt : ∀ n ∈ g.nodes, ∀ gid a i o, n.kind = .worker gid a i o → gid < g.next
  edgesLt : ∀ e ∈ g.edges, e.sub < g.next
  trainsLt : ∀ t ∈ g.trains, t.gid < g.next

theorem Inv.bounded {g W} (hi : Inv g W) : Bounded g := ⟨hi.nodesLt, hi.gidsLt, hi.edgesLt, hi.trainsLt⟩

theorem Bounded.empty : Bounded {} := by
  constructor <;> intro x hx <;> simp at hx

theorem Bounded.bump {g} (hb : Bounded g) : Bounded g.bump := by
  constructor
  · intro n hn; have := hb.nodesLt n hn; simp; omega
  · intro n hn gid a i o hk; have := hb.gidsLt n hn gid a i o hk; simp; omega
  · intro e he; have := hb.edgesLt e he; simp; omega
  · intro t ht; have := hb.trainsLt t ht; simp; omega

theorem Bounded.pushNode {g} (hb : Bounded g) (n : Node) (hu : n.uid < g.next)
    (hg : ∀ gid a i o, n.kind = .worker gid a i o → gid < g.next) : Bounded (g.pushNode n) := by
  constructor
  · intro m hm
    simp only [Graph.pushNode, List.mem_append, List.mem_singleton] at hm
    rcases hm with hm | hm
    · exact hb.nodesLt m hm
    · subst hm; exact hu
  · intro m hm gid a i o hk
    simp only [Graph.pushNode, List.mem_append, List.mem_singleton] at hm
    rcases hm with hm | hm
    · exact hb.gidsLt m hm gid a i o hk
    · subst hm; exact hg gid a i o hk
  · exact hb.edgesLt
  · exact hb.trainsLt

theorem Bounded.pushEdge {g} (hb : Bounded g) (e : Edge) (hs : e.sub < g.next) : Bounded (g.pushEdge e) := by
  constructor
  · exact hb.nodesLt
  · exact hb.gidsLt
  · intro m hm
    simp only [Graph.pushEdge, List.mem_append, List.mem_singleton] at hm
    rcases hm with hm | hm
    · exact hb.edgesLt m hm
    · subst hm; exact hs
  · exact hb.trainsLt

theorem Bounded.pushTrain {g} (hb : Bounded g) (t : Training) (hs : t.gid < g.next) : Bounded (g.pushTrain t) := by
  constructor
  · exact hb.nodesLt
  · exact hb.gidsLt
  · exact hb.edgesLt
  · intro m hm
    simp only [Graph.pushTrain, List.mem_append, List.mem_singleton] at hm
    rcases hm with hm | hm
    · exact hb.trainsLt m hm
    · subst hm; exact hs

theorem Bounded.kindOf_none {g} (hb : Bounded g) {u : Nat} (hu : g.next ≤ u) : g.kindOf u = none := by
  unfold Graph.kindOf
  have : g.nodes.find? (fun n => n.uid == u) = none := by
    apply List.find?_eq_none.mpr
    intro n hn
    have := hb.nodesLt n hn
    simp; omega
  simp [this]

theorem Bounded.inputOf_none {g} (hb : Bounded g) {u : Nat} (hu : g.next ≤ u) (k : Nat) : g.inputOf u k = none := by
  unfold Graph.inputOf
  have : g.edges.find? (fun e => e.sub == u && e.port == k) = none := by
    apply List.find?_eq_none.mpr
    intro e he
    have := hb.edgesLt e he
    simp; omega
  simp [this]

theorem Bounded.trainerOf_none {g} (hb : Bounded g) {gid : Nat} (hu : g.next ≤ gid) : g.trainerOf gid = none := by
  unfold Graph.trainerOf
  apply List.find?_eq_none.mpr
  intro t ht
  have := hb.trainsLt t ht
  simp; omega

/-- the group of a recorded worker is below `next` -/
theorem Bounded.gid_lt {g} (hb : Bounded g) {u gid a i o} (hk : g.kindOf u = some (.worker gid a i o)) : gid < g.next := by
  unfold Graph.kindOf at hk
  cases hf : g.nodes.find? (fun n => n.uid == u) with
  | none => simp [hf] at hk
  | some n =>
    simp [hf] at hk
    exact hb.gidsLt n (List.mem_of_find?_eq_some hf) gid a i o hk

theorem Bounded.uid_lt {g} (hb : Bounded g) {u k} (hk : g.kindOf u = some k) : u < g.next := by
  unfold Graph.kindOf at hk
  cases hf : g.nodes.find? (fun n => n.uid == u) with
  | none => simp [hf] at hk
  | some n =>
    have h1 := hb.nodesLt n (List.mem_of_find?_eq_some hf)
    have h2 := List.find?_some hf
    simp at h2
    omega

/-! ### frames -/

/-- `g'` extends `g` without touching anything `g` knows (uids and gids below `g.next`) -/
structure Frame (g g' : Graph) : Prop where
  next_le : g.next ≤ g'.next
  kind : ∀ u, u < g.next → g'.kindOf u = g.kindOf u
  input : ∀ u k, u < g.next → g'.inputOf u k = g.inputOf u k
  trainer : ∀ gid, gid < g.next → g'.trainerOf gid = g.trainerOf gid

theorem Frame.refl (g : Graph) : Frame g g := ⟨Nat.le_refl _, fun _ _ => rfl, fun _ _ _ => rfl, fun _ _ => rfl⟩

theorem Frame.trans {g1 g2 g3} (h12 : Frame g1 g2) (h23 : Frame g2 g3) : Frame g1 g3 := by
  have := h12.next_le
  constructor
  · exact Nat.le_trans h12.next_le h23.next_le
  · intro u hu; rw [h23.kind u (by omega), h12.kind u hu]
  · intro u k hu; rw [h23.input u k (by omega), h12.input u k hu]
  · intro gid hu; rw [h23.trainer gid (by omega), h12.trainer gid hu]

theorem Frame.bump {g0 g} (hf : Frame g0 g) : Frame g0 g.bump :=
  ⟨by have := hf.next_le; simp; omega, fun u hu => by simp [hf.kind u hu], fun u k hu => by simp [hf.input u k hu],
    fun gid hu => by simp [hf.trainer gid hu]⟩

theorem Frame.pushNode {g0 g} (hf : Frame g0 g) (n : Node) (hn0 : g0.next ≤ n.uid) :
    Frame g0 (g.pushNode n) := by
  refine ⟨by simpa using hf.next_le, ?_, fun u k hu => by simp [hf.input u k hu], fun gid hu => by simp [hf.trainer gid hu]⟩
  intro u hu
  rw [kindOf_pushNode, hf.kind u hu]
  have : ¬ n.uid = u := by omega
  simp [this]

theorem Frame.pushEdge {g0 g} (hf : Frame g0 g) (e : Edge) (hn0 : g0.next ≤ e.sub) : Frame g0 (g.pushEdge e) := by
  refine ⟨by simpa using hf.next_le, fun u hu => by simp [hf.kind u hu], ?_, fun gid hu => by simp [hf.trainer gid hu]⟩
  intro u k hu
  rw [inputOf_pushEdge, hf.input u k hu]
  have : ¬ (e.sub = u ∧ e.port = k) := by omega
  simp [this]

theorem Frame.pushTrain {g0 g} (hf : Frame g0 g) (t : Training) (hn0 : g0.next ≤ t.gid) : Frame g0 (g.pushTrain t) := by
  refine ⟨by simpa using hf.next_le, fun u hu => by simp [hf.kind u hu], fun u k hu => by simp [hf.input u k hu], ?_⟩
  intro gid hu
  rw [trainerOf_pushTrain, hf.trainer gid hu]
  have : ¬ t.gid = gid := by omega
  simp [this]

theorem Frame.isOpen {g g'} (hf : Frame g g') {u} (hu : u < g.next) : g'.isOpen u ↔ g.isOpen u := by
  unfold Graph.isOpen
  rw [hf.kind u hu, hf.input u 0 hu]

/-! ### the primitives as explicit successor graphs -/

theorem run_fresh (g : Graph) : Run fresh g g.next g.bump := rfl

theorem run_newWorker (a : Actor) (szin szout : Nat) (g : Graph) :
    Run (newWorker a szin szout) g ⟨g.next, g.next + 1, a, szin, szout⟩
      (g.bump.bump.pushNode ⟨g.next, .worker (g.next + 1) a szin szout⟩) := rfl

theorem run_fork (w : WRef) (g : Graph) :
    Run (fork w) g { w with uid := g.next } (g.bump.pushNode ⟨g.next, .worker w.gid w.actor w.szin w.szout⟩) := rfl

theorem run_newFuture (g : Graph) : Run newFuture g g.next (g.bump.pushNode ⟨g.next, .future⟩) := rfl

theorem run_subscribe (s k : Nat) (p : PubRef) (g : Graph) (h : g.inputOf s k = none) :
    Run (subscribe s k p) g () (g.pushEdge ⟨s, k, p⟩) := by
  unfold Run subscribe
  simp only [h]
  rfl

theorem run_train (w : WRef) (tr lb : PubRef) (g : Graph) (hs : w.actor.stateful = true) (h : g.trainerOf w.gid = none) :
    Run (train w tr lb) g () (g.pushTrain ⟨w.gid, w.uid, w.actor, tr, lb⟩) := by
  unfold Run train
  simp only [hs, h]
  rfl

theorem run_derived (w : WRef) (g : Graph) :
    Run (derived w) g (w.actor.stateful && g.trains.any (fun t => t.gid == w.gid && t.node != w.uid)) g := rfl

/-! ### worlds: updates and agreement -/

@[simp] theorem set_live (W : World) (u v r n) : (W.set u v r).live n ↔ (n = u ∨ W.live n) := Iff.rfl
@[simp] theorem set_h_self (W : World) (u v r) : (W.set u v r).h u = r := by simp [World.set]
theorem set_h_other (W : World) (u v r n) (h : n ≠ u) : (W.set u v r).h n = W.h n := by simp [World.set, h]
@[simp] theorem set_σ_self (W : World) (u v r i) : (W.set u v r).σ ⟨u, i⟩ = v i := by simp [World.set]
theorem set_σ_other (W : World) (u v r) (p : PubRef) (h : p.node ≠ u) : (W.set u v r).σ p = W.σ p := by simp [World.set, h]

/-- `W'` agrees with `W` below `b` -/
def Agree (b : Nat) (W W' : World) : Prop :=
  ∀ n, n < b → (W'.live n ↔ W.live n) ∧ W'.h n = W.h n ∧ ∀ i, W'.σ ⟨n, i⟩ = W.σ ⟨n, i⟩

theorem Agree.refl (b : Nat) (W : World) : Agree b W W := fun _ _ => ⟨Iff.rfl, rfl, fun _ => rfl⟩

theorem Agree.trans {b b' W1 W2 W3} (h12 : Agree b W1 W2) (h23 : Agree b' W2 W3) (hb : b ≤ b') : Agree b W1 W3 := by
  intro n hn
  obtain ⟨a1, a2, a3⟩ := h12 n hn
  obtain ⟨b1, b2, b3⟩ := h23 n (by omega)
  exact ⟨b1.trans a1, b2.trans a2, fun i => (b3 i).trans (a3 i)⟩

theorem Agree.set {b W W'} (ha : Agree b W W') (u v r) (hu : b ≤ u) : Agree b W (W'.set u v r) := by
  intro n hn
  obtain ⟨a1, a2, a3⟩ := ha n hn
  have hne : n ≠ u := by omega
  refine ⟨?_, ?_, ?_⟩
  · simp [hne, a1]
  · rw [set_h_other _ _ _ _ _ hne, a2]
  · intro i; rw [set_σ_other _ _ _ _ _ (by simpa using hne), a3]

theorem RefOk.agree {b W W' q r} (ha : Agree b W W') (hq : q.node < b) (h : RefOk W q r) : RefOk W' q r := by
  obtain ⟨a1, a2, _⟩ := ha q.node hq
  exact ⟨a1.mpr h.1, by rw [a2]; exact h.2⟩

theorem Agree.σ {b W W'} (ha : Agree b W W') (q : PubRef) (hq : q.node < b) : W'.σ q = W.σ q := by
  have := (ha q.node hq).2.2 q.idx
  simpa using this

/-- transport of the local constraint of an old live node along a frame and an agreeing world -/
theorem GoodNode.transport {g g' W W' n} (hi : Inv g W) (hf : Frame g g') (ha : Agree g.next W W')
    (hl : W.live n) (hg : GoodNode g W n) : GoodNode g' W' n := by
  have hn := (hi.liveLt n hl).1
  have hlt : ∀ q : PubRef, W.live q.node → q.node < g.next := fun q hq => (hi.liveLt q.node hq).1
  have hh : W'.h n = W.h n := (ha n hn).2.1
  unfold GoodNode at hg ⊢
  rw [hf.kind n hn]
  cases hk : g.kindOf n with
  | none => simp [hk] at hg
  | some k =>
    cases k with
    | future =>
      simp only [hk] at hg ⊢
      rw [hf.input n 0 hn]
      cases hin : g.inputOf n 0 with
      | none => trivial
      | some q =>
        simp only [hin] at hg ⊢
        obtain ⟨hr, hσ⟩ := hg
        refine ⟨?_, ?_⟩
        · rw [hh]; exact hr.agree ha (hlt q hr.1)
        · intro i
          rw [(ha n hn).2.2 i, ha.σ q (hlt q hr.1)]
          exact hσ i
    | worker gid a szin szout =>
      simp only [hk] at hg ⊢
      obtain ⟨ins, hins, st, hst, hσ⟩ := hg
      refine ⟨ins, ?_, st, ?_, ?_⟩
      · intro k hk'
        obtain ⟨h1, h2⟩ := hins k hk'
        refine ⟨by rw [hf.input n k hn]; exact h1, ?_⟩
        rw [hh]; exact h2.agree ha (hlt _ h2.1)
      · unfold GoodState StateFor at hst ⊢
        rw [hf.trainer gid (hi.bounded.gid_lt hk)]
        by_cases hsf : a.stateful = true
        · simp only [hsf, if_true] at hst ⊢
          cases ht : g.trainerOf gid with
          | none => simp only [ht] at hst ⊢; exact hst
          | some t =>
            simp only [ht] at hst ⊢
            obtain ⟨h1, h2, h3⟩ := hst
            refine ⟨by rw [hh]; exact h1.agree ha (hlt _ h1.1), by rw [hh]; exact h2.agree ha (hlt _ h2.1), ?_⟩
            rw [ha.σ _ (hlt _ h1.1), ha.σ _ (hlt _ h2.1)]
            exact h3
        · simp only [hsf] at hst ⊢
          exact hst
      · intro i
        rw [(ha n hn).2.2 i, hσ i]
        congr 2
        apply List.map_congr_left
        intro k hk'
        have := (hins k (List.mem_range.mp hk')).2
        rw [ha.σ _ (hlt _ this.1)]

/-- a frame whose new live nodes are all good certifies the extended graph -/
theorem Inv.extend {g g' W W'} (hi : Inv g W) (hf : Frame g g') (hb : Bounded g') (ha : Agree g.next W W')
    (hlt : ∀ n, W'.live n → n < g'.next ∧ W'.h n < g'.next)
    (hnew : ∀ n, W'.live n → g.next ≤ n → GoodNode g' W' n) : Inv g' W' := by
  refine ⟨hb.nodesLt, hb.gidsLt, hb.edgesLt, hb.trainsLt, hlt, ?_⟩
  intro n hl
  by_cases hn : n < g.next
  · have hl0 : W.live n := ((ha n hn).1).mp hl
    exact GoodNode.transport hi hf ha hl0 (hi.good n hl0)
  · exact hnew n hl (by omega)

theorem Inv.ofFrame {g g' W} (hi : Inv g W) (hf : Frame g g') (hb : Bounded g') : Inv g' W := by
  apply Inv.extend hi hf hb (Agree.refl _ _)
  · intro n hl
    have := hi.liveLt n hl
    have := hf.next_le
    omega
  · intro n hl hn
    have := (hi.liveLt n hl).1
    omega

/-- making one more (not yet live) node live, once its local constraint holds -/
theorem Inv.setLive {g W} (hi : Inv g W) (u : Nat) (v : Nat → Val) (r : Nat) (hu : ¬ W.live u) (hun : u < g.next)
    (hr : r < g.next) (hg : GoodNode g (W.set u v r) u) : Inv g (W.set u v r) := by
  refine ⟨hi.nodesLt, hi.gidsLt, hi.edgesLt, hi.trainsLt, ?_, ?_⟩
  · intro n hl
    rcases hl with hl | hl
    · subst hl; simp; omega
    · have hne : n ≠ u := fun h => hu (h ▸ hl)
      rw [set_h_other _ _ _ _ _ hne]
      exact hi.liveLt n hl
  · intro n hl
    rcases hl with hl | hl
    · subst hl; exact hg
    · -- an old live node: everything it refers to is live in `W`, hence different from `u`
      have hne : n ≠ u := fun h => hu (h ▸ hl)
      have hq : ∀ q : PubRef, W.live q.node → q.node ≠ u := fun q hq h => hu (h ▸ hq)
      have href : ∀ q : PubRef, ∀ r', RefOk W q r' → RefOk (W.set u v r) q r' := by
        intro q r' h
        exact ⟨Or.inr h.1, by rw [set_h_other _ _ _ _ _ (hq q h.1)]; exact h.2⟩
      have hg0 := hi.good n hl
      unfold GoodNode at hg0 ⊢
      cases hk : g.kindOf n with
      | none => simp [hk] at hg0
      | some k =>
        cases k with
        | future =>
          simp only [hk] at hg0 ⊢
          cases hin : g.inputOf n 0 with
          | none => trivial
          | some q =>
            simp only [hin] at hg0 ⊢
            obtain ⟨h1, h2⟩ := hg0
            refine ⟨by rw [set_h_other _ _ _ _ _ hne]; exact href q _ h1, ?_⟩
            intro i
            rw [set_σ_other _ _ _ _ _ (by simpa using hne), set_σ_other _ _ _ _ _ (hq q h1.1)]
            exact h2 i
        | worker gid a szin szout =>
          simp only [hk] at hg0 ⊢
          obtain ⟨ins, hins, st, hst, hσ⟩ := hg0
          refine ⟨ins, ?_, st, ?_, ?_⟩
          · intro k hk'
            obtain ⟨h1, h2⟩ := hins k hk'
            exact ⟨h1, by rw [set_h_other _ _ _ _ _ hne]; exact href _ _ h2⟩
          · unfold GoodState StateFor at hst ⊢
            by_cases hsf : a.stateful = true
            · simp only [hsf, if_true] at hst ⊢
              cases ht : g.trainerOf gid with
              | none => simp only [ht] at hst ⊢; exact hst
              | some t =>
                simp only [ht] at hst ⊢
                obtain ⟨h1, h2, h3⟩ := hst
                refine ⟨by rw [set_h_other _ _ _ _ _ hne]; exact href _ _ h1,
                  by rw [set_h_other _ _ _ _ _ hne]; exact href _ _ h2, ?_⟩
                rw [set_σ_other _ _ _ _ _ (hq _ h1.1), set_σ_other _ _ _ _ _ (hq _ h2.1)]
                exact h3
            · simp only [hsf] at hst ⊢
              exact hst
          · intro i
            rw [set_σ_other _ _ _ _ _ (by simpa using hne), hσ i]
            congr 2
            apply List.map_congr_left
            intro k hk'
            have := (hins k (List.mem_range.mp hk')).2
            rw [set_σ_other _ _ _ _ _ (hq _ this.1)]

/-- binding a live hole: the new subscription only adds the local constraint of the hole -/
theorem Inv.bindFuture {g W} (hi : Inv g W) (u : Nat) (q : PubRef) (hl : W.live u) (ho : g.isOpen u)
    (hq : RefOk W q (W.h u)) (hσ : ∀ i, W.σ ⟨u, i⟩ = W.σ q) : Inv (g.pushEdge ⟨u, 0, q⟩) W := by
  have hb : Bounded (g.pushEdge ⟨u, 0, q⟩) := hi.bounded.pushEdge _ (hi.liveLt u hl).1
  refine ⟨hb.nodesLt, hb.gidsLt, hb.edgesLt, hb.trainsLt, ?_, ?_⟩
  · intro n hn; simpa using hi.liveLt n hn
  · intro n hn
    have hg0 := hi.good n hn
    unfold GoodNode at hg0 ⊢
    simp only [kindOf_pushEdge, trainerOf_pushEdge, GoodState, StateFor]
    by_cases hnu : n = u
    · subst hnu
      obtain ⟨hk, hin⟩ := ho
      simp only [hk, inputOf_pushEdge, hin]
      simp
      exact ⟨hq, hσ⟩
    · have hin : ∀ k, (g.pushEdge ⟨u, 0, q⟩).inputOf n k = g.inputOf n k := by
        intro k
        rw [inputOf_pushEdge]
        have : ¬ (u = n ∧ 0 = k) := fun h => hnu h.1.symm
        simp [this]
      cases hk : g.kindOf n with
      | none => simp [hk] at hg0
      | some k =>
        cases k with
        | future =>
          simp only [hk, hin] at hg0 ⊢
          exact hg0
        | worker gid a szin szout =>
          simp only [hk, hin] at hg0 ⊢
          simpa only [GoodState, StateFor] using hg0

end ForML.Compose
