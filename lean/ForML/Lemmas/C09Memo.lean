/-
Helper lemmas for C09: the match cache as a memo over a key function (transparent for every history on which the key is
injective), and `Importer.match` on pools whose members may fail to come up (`scan` = `find?` of the first decisive
slot of the priority-ordered pool).  Core Lean only.
-/
import ForML.Model.Matcher
import ForML.Lemmas.C09

namespace ForML.Matcher

open ForML.Dsl

/-! ### memo -/

theorem memoSeqFrom_transparent {κ ε α : Type} [DecidableEq κ] (key : Source → κ) (f : Source → Except ε α) :
    ∀ (ss : List Source) (c : Memo κ α),
      (∀ a ∈ ss, ∀ b ∈ ss, key a = key b → a = b) →
      (∀ p ∈ c, ∀ s ∈ ss, p.1 = key s → f s = .ok p.2) →
      memoSeqFrom key f c ss = ss.map f
  | [], _, _, _ => rfl
  | s :: ss, c, hinj, hc => by
    have hinj' : ∀ a ∈ ss, ∀ b ∈ ss, key a = key b → a = b :=
      fun a ha b hb => hinj a (List.mem_cons_of_mem _ ha) b (List.mem_cons_of_mem _ hb)
    have hc' : ∀ p ∈ c, ∀ s' ∈ ss, p.1 = key s' → f s' = .ok p.2 :=
      fun p hp s' hs' => hc p hp s' (List.mem_cons_of_mem _ hs')
    simp only [memoSeqFrom, List.map_cons]
    unfold memoStep
    cases hl : (c.find? (fun p => decide (p.1 = key s))).map (·.2) with
    | some a =>
      simp only [Option.map_eq_some_iff] at hl
      obtain ⟨p, hp, rfl⟩ := hl
      have hm := List.mem_of_find?_eq_some hp
      have hk : p.1 = key s := by simpa using List.find?_some hp
      simp only
      rw [hc p hm s (List.mem_cons_self) hk, memoSeqFrom_transparent key f ss c hinj' hc']
    | none =>
      simp only
      cases hf : f s with
      | error e =>
        simp only
        rw [memoSeqFrom_transparent key f ss c hinj' hc']
      | ok a =>
        simp only
        rw [memoSeqFrom_transparent key f ss _ hinj' ?_]
        intro p hp s' hs' hk
        rcases List.mem_cons.mp hp with rfl | hp
        · have : s = s' := hinj s List.mem_cons_self s' (List.mem_cons_of_mem _ hs') hk
          rw [← this]; exact hf
        · exact hc' p hp s' hs' hk

/-! ### scanning a pool whose members may fail -/

/-- the slot ends the scan: it fails to come up, or it covers -/
def decisive (fails : Nat → Option String) (s : Source) (p : Nat × Slot) : Bool :=
  (fails p.1).isSome || covers p.2.sources s

/-- what the first decisive slot makes of the scan -/
def outcomeOf (fails : Nat → Option String) : Option (Nat × Slot) → Outcome
  | none => .missing
  | some p =>
    match fails p.1 with
    | some e => .raised e
    | none => .selected p.1

theorem scan_eq_find (fails : Nat → Option String) (s : Source) :
    ∀ l : List (Nat × Slot), (scan fails l s).1 = outcomeOf fails (l.find? (decisive fails s))
  | [] => rfl
  | (i, f) :: rest => by
    have ih := scan_eq_find fails s rest
    unfold scan
    cases hf : fails i with
    | some e => simp [List.find?, decisive, hf, outcomeOf]
    | none =>
      cases hc : covers f.sources s
      · simp [List.find?, decisive, hf, hc, ih]
      · simp [List.find?, decisive, hf, hc, outcomeOf]

/-- the touched slots: everything before the first decisive slot, and that slot -/
theorem scan_touched (fails : Nat → Option String) (s : Source) :
    ∀ l : List (Nat × Slot), ∀ j, j ∈ (scan fails l s).2 →
      ∃ pre x post, l = pre ++ x :: post ∧ x.1 = j ∧ ∀ y ∈ pre, decisive fails s y = false
  | [], j, h => by simp [scan] at h
  | (i, f) :: rest, j, h => by
    unfold scan at h
    cases hf : fails i with
    | some e =>
      simp only [hf, List.mem_singleton] at h
      exact ⟨[], (i, f), rest, rfl, h.symm, by simp⟩
    | none =>
      cases hc : covers f.sources s
      · simp only [hf, hc, Bool.false_eq_true, if_false, List.mem_cons] at h
        rcases h with rfl | h
        · exact ⟨[], (j, f), rest, rfl, rfl, by simp⟩
        · obtain ⟨pre, x, post, hl, hx, hpre⟩ := scan_touched fails s rest j h
          refine ⟨(i, f) :: pre, x, post, by simp [hl], hx, ?_⟩
          intro y hy
          rcases List.mem_cons.mp hy with rfl | hy
          · simp [decisive, hf, hc]
          · exact hpre y hy
      · simp only [hf, hc, if_true, List.mem_singleton] at h
        exact ⟨[], (i, f), rest, rfl, h.symm, by simp⟩

/-- with every member healthy the scan is `Importer.match` -/
theorem scan_healthy (fails : Nat → Option String) (s : Source) (l : List (Nat × Slot))
    (h : ∀ x ∈ l, fails x.1 = none) :
    (scan fails l s).1 = match (l.find? (fun p => covers p.2.sources s)) with
      | some p => .selected p.1
      | none => .missing := by
  induction l with
  | nil => rfl
  | cons x rest ih =>
    obtain ⟨i, f⟩ := x
    have hi : fails i = none := h (i, f) List.mem_cons_self
    have ih' := ih (fun y hy => h y (List.mem_cons_of_mem _ hy))
    unfold scan
    cases hc : covers f.sources s
    · simp [hi, hc, List.find?, ih']
    · simp [hi, hc, List.find?]

end ForML.Matcher
