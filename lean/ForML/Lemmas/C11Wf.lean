/-
C11 helper lemmas, part 2: the well-formedness invariant `Wf` (everything but the one-publisher rule) is kept
when `publishTo` appends its edges, for a fresh subscription (`publish`) and for subscriptions already held by
a placeholder (`Future.register`).
-/
import ForML.Lemmas.C11Publish

namespace ForML.Graph

theorem mem_inputs (g : G) (s : Sub) : s.port ∈ inputs g s.node ↔ s ∈ g.ports := by
  unfold inputs
  simp only [List.mem_map, List.mem_filter, decide_eq_true_eq]
  constructor
  · rintro ⟨x, ⟨hx, hn⟩, hp⟩
    have : x = s := by cases x; cases s; simp_all
    exact this ▸ hx
  · intro h; exact ⟨s, ⟨h, rfl⟩, rfl⟩

theorem mem_inputs' (g : G) (n : Nat) (p : Port) : p ∈ inputs g n ↔ (⟨n, p⟩ : Sub) ∈ g.ports :=
  mem_inputs g ⟨n, p⟩

theorem filter_ne_self (l : List Sub) (s : Sub) (h : s ∉ l) : l.filter (· ≠ s) = l := by
  apply List.filter_eq_self.mpr
  intro a ha; simp; intro hs; exact h (hs ▸ ha)

theorem filter_ne_append (l : List Sub) (s : Sub) (h : s ∉ l) : (l ++ [s]).filter (· ≠ s) = l := by
  rw [List.filter_append, filter_ne_self l s h]; simp

theorem isFuture_of_isWorker (g : G) (n : Nat) (h : isWorker g n = true) : isFuture g n = false := by
  unfold isWorker at h; unfold isFuture
  split at h <;> simp_all

theorem isWorker_lt (g : G) (n : Nat) (h : isWorker g n = true) : n < g.nodes.length := by
  unfold isWorker at h
  cases hn : g.nodes[n]? with
  | none => simp [hn] at h
  | some _ => exact (List.getElem?_eq_some_iff.mp hn).1

theorem isFuture_lt (g : G) (n : Nat) (h : isFuture g n = true) : n < g.nodes.length := by
  unfold isFuture at h
  cases hn : g.nodes[n]? with
  | none => simp [hn] at h
  | some _ => exact (List.getElem?_eq_some_iff.mp hn).1

theorem gid_of_worker (g : G) (n : Nat) (h : isWorker g n = true) : ∃ k, gid? g n = some k := by
  unfold isWorker at h; unfold gid?
  split at h <;> simp_all

theorem trained_false (g : G) (n : Nat) (h : trained g n = false) (q : Sub) (hq : q ∈ g.ports)
    (hn : q.node = n) : q.port.isApply = true := by
  unfold trained at h
  have hm : q.port ∈ inputs g n := hn ▸ (mem_inputs g q).mpr hq
  have := List.any_eq_false.mp h q.port hm
  simpa using this

theorem trained_true (g : G) (q : Sub) (hq : q ∈ g.ports) (ha : q.port.isApply = false) :
    trained g q.node = true := by
  unfold trained
  exact List.any_eq_true.mpr ⟨q.port, (mem_inputs g q).mpr hq, by simp [ha]⟩

/-- what the checks of `Subscription.__new__` establish -/
theorem subscription_none (g : G) (s : Sub) (h : subscription g s = none) :
    s ∉ g.ports ∧
    (∀ q ∈ g.ports, q.node = s.node → (inputs g s.node).any Port.isApply = s.port.isApply) ∧
    (s.port.isApply = false → publishes g s.node = false) ∧ isFuture g s.node = false ∧
    (s.port.isApply = false → (group g s.node).any (fun m => m != s.node && trained g m) = false) := by
  unfold subscription at h
  simp only at h
  split at h
  · cases h
  · rename_i h4
    split at h
    · cases h
    · rename_i h1
      split at h
      · cases h
      · rename_i h2
        split at h
        · cases h
        · rename_i h3
          split at h
          · cases h
          · rename_i h5
            refine ⟨fun hm => h1 ((mem_inputs g s).mpr hm), ?_, ?_, by simpa using h4, ?_⟩
            · intro q hq hqn
              have hne : (inputs g s.node).isEmpty = false := by
                have : q.port ∈ inputs g s.node := by
                  rw [← hqn]; exact (mem_inputs g q).mpr hq
                cases hi : inputs g s.node with
                | nil => rw [hi] at this; cases this
                | cons _ _ => rfl
              simp only [hne, Bool.not_false, Bool.true_and, bne_iff_ne, ne_eq, Decidable.not_not] at h2
              exact h2.symm
            · intro hp
              simp only [hp, Bool.not_false, Bool.true_and, Bool.not_eq_true] at h3
              exact h3
            · intro hp
              simp only [hp, Bool.not_false, Bool.true_and, Bool.not_eq_true] at h5
              exact h5

/-- `any isApply` over the subscribed ports of a node decides the kind of every edge into it (I3 + I6) -/
theorem any_apply (g : G) (i3 : I3 g) (i6 : I6 g) (e : Edge) (he : e ∈ g.edges) :
    (inputs g e.sub.node).any Port.isApply = e.sub.port.isApply := by
  have hin : e.sub.port ∈ inputs g e.sub.node := (mem_inputs g e.sub).mpr (i6.2 e he)
  cases hb : e.sub.port.isApply with
  | true => exact List.any_eq_true.mpr ⟨_, hin, hb⟩
  | false =>
    apply List.any_eq_false.mpr
    intro q hq
    obtain ⟨e', he', hs'⟩ := i6.1 ⟨e.sub.node, q⟩ ((mem_inputs' g _ _).mp hq)
    have := i3 e he e' he' (by rw [hs'])
    rw [hs'] at this
    simp only at this
    rw [← this, hb]; simp

/-- precondition on the group for a train/label subscription (established by `Worker.train`'s fork check) -/
def TrainOK (g : G) (s : Sub) : Prop :=
  s.port.isApply = false → ∀ e ∈ g.edges, e.sub.port.isApply = false →
    gid? g e.sub.node = gid? g s.node → e.sub.node = s.node

/-- a publisher that may publish: a placeholder, or a worker all of whose subscribed ports are apply ports -/
def CanPub (g : G) (n : Nat) : Prop :=
  isFuture g n = true ∨ ∀ e ∈ g.edges, e.sub.node = n → e.sub.port.isApply = true

theorem not_worker_and_future (g : G) (n : Nat) (h1 : isWorker g n = true) (h2 : isFuture g n = true) : False := by
  rw [isFuture_of_isWorker g n h1] at h2; cases h2

/-- appending edges that carry one fresh subscription which passed every check keeps `Wf` -/
theorem wf_publish (g : G) (s : Sub) (L : List Edge) (hw : Wf g)
    (h2 : ∀ e ∈ g.edges, e.sub.node = s.node → e.sub.port.isApply = s.port.isApply)
    (h3 : s.port.isApply = false → ∀ e ∈ g.edges, e.pub ≠ s.node)
    (h4 : isWorker g s.node = true)
    (h8 : TrainOK g s)
    (hne : ∃ e, e ∈ L)
    (hL : ∀ e ∈ L, e.sub = s ∧ e.pub ≠ s.node ∧ e.pub < g.nodes.length ∧ CanPub g e.pub) :
    Wf { g with edges := g.edges ++ L, ports := g.ports ++ [s] } := by
  obtain ⟨i2, i3, i4, i5, i6, i7, i8⟩ := hw
  refine ⟨?_, ?_, ?_, ?_, ?_, ?_, ?_⟩
  · intro e he
    rcases List.mem_append.mp he with he | he
    · exact i2 e he
    · obtain ⟨a, b, _, _⟩ := hL e he; rw [a]; exact b
  · intro e he e' he' hn
    rcases List.mem_append.mp he with he | he <;> rcases List.mem_append.mp he' with he' | he'
    · exact i3 e he e' he' hn
    · rw [(hL e' he').1] at hn ⊢; exact h2 e he hn
    · rw [(hL e he).1] at hn ⊢; exact (h2 e' he' hn.symm).symm
    · rw [(hL e he).1, (hL e' he').1]
  · intro e he e' he' ha ha' hg
    rcases List.mem_append.mp he with he | he <;> rcases List.mem_append.mp he' with he' | he'
    · exact i4 e he e' he' ha ha' hg
    · rw [(hL e' he').1] at ha' hg ⊢; exact h8 ha' e he ha hg
    · rw [(hL e he).1] at ha hg ⊢; exact (h8 ha e' he' ha' hg.symm).symm
    · rw [(hL e he).1, (hL e' he').1]
  · intro e he e' he' ha
    rcases List.mem_append.mp he with he | he <;> rcases List.mem_append.mp he' with he' | he'
    · exact i5 e he e' he' ha
    · obtain ⟨_, _, _, hc⟩ := hL e' he'
      intro heq
      rcases hc with hc | hc
      · exact not_worker_and_future g _ (i7 e he).2 (heq ▸ hc)
      · have := hc e he heq.symm
        rw [this] at ha; cases ha
    · rw [(hL e he).1] at ha ⊢; exact h3 ha e' he'
    · rw [(hL e he).1]; exact (hL e' he').2.1
  · constructor
    · intro q hq
      rcases List.mem_append.mp hq with hq | hq
      · obtain ⟨e, he, hs⟩ := i6.1 q hq
        exact ⟨e, List.mem_append_left _ he, hs⟩
      · obtain ⟨e, he⟩ := hne
        simp only [List.mem_singleton] at hq
        exact ⟨e, List.mem_append_right _ he, by rw [(hL e he).1, hq]⟩
    · intro e he
      rcases List.mem_append.mp he with he | he
      · exact List.mem_append_left _ (i6.2 e he)
      · rw [(hL e he).1]; simp
  · intro e he
    rcases List.mem_append.mp he with he | he
    · exact i7 e he
    · obtain ⟨a, _, c, _⟩ := hL e he
      exact ⟨c, by rw [a]; exact h4⟩
  · exact i8

/-- appending edges that carry subscriptions already held (by a placeholder) and one registration keeps `Wf` -/
theorem wf_register (g : G) (r : Reg) (L : List Edge) (hw : Wf g)
    (hr : isFuture g r.fut = true ∧ r.pub < g.nodes.length)
    (hL : ∀ e ∈ L, (∃ e0 ∈ g.edges, e0.sub = e.sub) ∧ e.pub ≠ e.sub.node ∧ e.pub < g.nodes.length ∧
      CanPub g e.pub) :
    Wf { g with edges := g.edges ++ L, regs := g.regs ++ [r] } := by
  obtain ⟨i2, i3, i4, i5, i6, i7, i8⟩ := hw
  have rep : ∀ e ∈ g.edges ++ L, ∃ e0 ∈ g.edges, e0.sub = e.sub := by
    intro e he
    rcases List.mem_append.mp he with he | he
    · exact ⟨e, he, rfl⟩
    · exact (hL e he).1
  refine ⟨?_, ?_, ?_, ?_, ?_, ?_, ?_⟩
  · intro e he
    rcases List.mem_append.mp he with he | he
    · exact i2 e he
    · exact (hL e he).2.1
  · intro e he e' he' hn
    obtain ⟨e0, h0, hs0⟩ := rep e he
    obtain ⟨e1, h1, hs1⟩ := rep e' he'
    rw [← hs0, ← hs1] at hn ⊢
    exact i3 e0 h0 e1 h1 hn
  · intro e he e' he' ha ha' hg
    obtain ⟨e0, h0, hs0⟩ := rep e he
    obtain ⟨e1, h1, hs1⟩ := rep e' he'
    rw [← hs0] at ha hg ⊢
    rw [← hs1] at ha' hg ⊢
    exact i4 e0 h0 e1 h1 ha ha' hg
  · intro e he e' he' ha
    obtain ⟨e0, h0, hs0⟩ := rep e he
    rw [← hs0] at ha ⊢
    rcases List.mem_append.mp he' with he' | he'
    · exact i5 e0 h0 e' he' ha
    · obtain ⟨_, _, _, hc⟩ := hL e' he'
      intro heq
      rcases hc with hc | hc
      · exact not_worker_and_future g _ (i7 e0 h0).2 (heq ▸ hc)
      · have := hc e0 h0 heq.symm
        rw [this] at ha; cases ha
  · constructor
    · intro q hq
      obtain ⟨e, he, hs⟩ := i6.1 q hq
      exact ⟨e, List.mem_append_left _ he, hs⟩
    · intro e he
      obtain ⟨e0, h0, hs0⟩ := rep e he
      rw [← hs0]; exact i6.2 e0 h0
  · intro e he
    rcases List.mem_append.mp he with he | he
    · exact i7 e he
    · obtain ⟨⟨e0, h0, hs0⟩, _, c, _⟩ := hL e he
      exact ⟨c, by rw [← hs0]; exact (i7 e0 h0).2⟩
  · intro r' hr'
    rcases List.mem_append.mp hr' with hr' | hr'
    · exact i8 r' hr'
    · simp only [List.mem_singleton] at hr'
      subst hr'; exact hr

end ForML.Graph
