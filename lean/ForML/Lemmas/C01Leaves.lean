/-
C01 — `Linkage.leaves` of the final state: non-empty (the `'Not acyclic'` assertion does not fire on a linked
well-formed segment), every leaf is registered, and the stub getters are exactly the getters of unused output ports.
-/
import ForML.Lemmas.C01Args

namespace ForML.Flow
open CState Segment

theorem exists_max {α : Type} (f : α → Nat) : ∀ (l : List α), l ≠ [] → ∃ x ∈ l, ∀ y ∈ l, f y ≤ f x := by
  intro l
  induction l with
  | nil => intro h; exact absurd rfl h
  | cons a r ih =>
    intro _
    cases r with
    | nil => exact ⟨a, List.mem_cons_self, fun y hy => by simp at hy; subst hy; exact Nat.le_refl _⟩
    | cons b r' =>
      obtain ⟨x, hx, hmax⟩ := ih (by simp)
      by_cases hax : f x ≤ f a
      · refine ⟨a, List.mem_cons_self, ?_⟩
        intro y hy
        rcases List.mem_cons.mp hy with rfl | hy
        · exact Nat.le_refl _
        · exact Nat.le_trans (hmax y hy) hax
      · refine ⟨x, List.mem_cons_of_mem _ hx, ?_⟩
        intro y hy
        rcases List.mem_cons.mp hy with rfl | hy
        · omega
        · exact hmax y hy

section
variable {g : Segment} {A : Option Assets} {rank : Uid → Nat} {order : List Uid} {s : CState}

/-- a link goes from a lower ranked instruction to a higher ranked one -/
theorem linkSpec_rank (h : WF g rank) {w : Worker} (hw : w ∈ g.workers) {k : Key} {j : Nat} {a : Key}
    (hl : LinkSpec g A w k j a) : g.keyRank rank a < g.keyRank rank k := by
  rcases linkSpec_inv hl with ⟨rfl, _, rfl, _⟩ | ⟨rfl, rfl, _⟩ | ⟨i, rfl, _, rfl, _⟩ | ⟨e, rfl, _, rfl, _, he, hpub, _⟩
  · simp [keyRank]
  · have := le_maxRank rank hw
    simp only [keyRank]; omega
  · simp [keyRank]
  · have h1 := (h.edge e he).rank
    rw [hpub] at h1
    split <;> simp only [keyRank] <;> omega

/-- keys of the two linkage maps -/
theorem Final.abs_key (hf : Final g A order s) (h : WF g rank) (ho : OrderOK g order) {k : Key}
    (hk : k ∈ s.absolute.map (·.1)) : ∃ w ∈ g.workers, ∃ j a, LinkSpec g A w k j a := by
  rcases (hf.abs.keys k).mp hk with h0 | ⟨op, hop, j, ht⟩
  · cases h0
  · obtain ⟨w, hw, _, hl⟩ := allProg_links h ho.sub hop ht
    exact ⟨w, hw, j, _, hl⟩

theorem Final.pre_key (hf : Final g A order s) {k : Key} (hk : k ∈ s.prefixed.map (·.1)) :
    ∃ w, g.worker? w.uid = some w ∧ k = .uid w.uid ∧ g.hasPreset A w = true ∧ aget k s.prefixed = some [stateKey g A w] := by
  cases hg : aget k s.prefixed with
  | none => exact absurd hk (aget_none_iff.mp hg)
  | some l =>
    obtain ⟨w, h1, h2, _, h4, h5⟩ := hf.pre.sound k l hg
    exact ⟨w, h1, h2, h4, by rw [h5]⟩

/-- who is somebody's argument -/
theorem Final.parent_iff (hf : Final g A order s) (h : WF g rank) (ho : OrderOK g order) (k : Key) :
    (some k) ∈ (s.absolute.flatMap (·.2) ++ s.prefixed.flatMap (fun p => p.2.map some)) ↔
      (∃ w ∈ g.workers, ∃ k' j, LinkSpec g A w k' j k) ∨
      (∃ w ∈ g.workers, g.hasPreset A w = true ∧ k = stateKey g A w) := by
  have hnd : (s.absolute.map (·.1)).Nodup := hf.abs.nodup (by simp)
  simp only [List.mem_append, List.mem_flatMap, List.mem_map, Option.some.injEq, exists_eq_right]
  constructor
  · rintro (⟨⟨k', l⟩, hm, hin⟩ | ⟨⟨k', l⟩, hm, hin⟩)
    · left
      obtain ⟨j, hj, hget⟩ := List.getElem_of_mem hin
      have hag := aget_of_mem_nodup hnd hm
      have hs : slot s.absolute k' j = some k := by
        simp [slot, hag, List.getD_eq_getElem?_getD, List.getElem?_eq_getElem hj, hget]
      obtain ⟨w, hw, hl⟩ := (hf.slot_iff h ho k' j k).mp hs
      exact ⟨w, hw, k', j, hl⟩
    · right
      have hag := aget_of_mem_nodup hf.pre.keys hm
      obtain ⟨w, h1, _, _, h4, h5⟩ := hf.pre.sound k' l hag
      subst h5
      simp only [List.mem_singleton] at hin
      exact ⟨w, (worker?_some h1).1, h4, hin⟩
  · rintro (⟨w, hw, k', j, hl⟩ | ⟨w, hw, hp, rfl⟩)
    · left
      have hs := (hf.slot_iff h ho k' j k).mpr ⟨w, hw, hl⟩
      unfold slot at hs
      cases hag : aget k' s.absolute with
      | none => simp [hag] at hs
      | some l =>
        refine ⟨(k', l), mem_of_aget hag, ?_⟩
        simp only [hag, Option.getD_some, List.getD_eq_getElem?_getD] at hs
        cases hl' : l[j]? with
        | none => simp [hl'] at hs
        | some x =>
          simp only [hl', Option.getD_some] at hs
          subst hs
          exact List.mem_of_getElem? hl'
    · right
      have := hf.pre.complete w (worker?_of_mem h.nodup hw) (ho.all w hw) hp
      exact ⟨(_, _), mem_of_aget this, by simp⟩

/-- `assert children or not parents, 'Not acyclic'` holds: with at least one linkage key the highest ranked key is a
leaf; without any key nothing is anybody's argument -/
theorem Final.leaves_ok (hf : Final g A order s) (h : WF g rank) (ho : OrderOK g order) :
    s.leaves ≠ [] ∨ s.parents = [] := by
  by_cases hK : s.absolute.map (·.1) ++ s.prefixed.map (·.1) = []
  · right
    simp only [List.append_eq_nil_iff, List.map_eq_nil_iff] at hK
    simp [CState.parents, hK.1, hK.2]
  left
  obtain ⟨k, hk, hmax⟩ := exists_max (g.keyRank rank) _ hK
  -- the highest ranked key is nobody's argument
  intro hnil
  have : k ∈ s.leaves := by
    unfold CState.leaves
    simp only [List.mem_filter, Bool.not_eq_eq_eq_not, Bool.not_true, List.contains_eq_mem, decide_eq_false_iff_not]
    refine ⟨hk, ?_⟩
    intro hpar
    rcases (hf.parent_iff h ho k).mp hpar with ⟨w, hw, k', j, hl'⟩ | ⟨w, hw, hp, rfl⟩
    · have hlt := linkSpec_rank h hw hl'
      have hk' : k' ∈ s.absolute.map (·.1) ++ s.prefixed.map (·.1) := by
        apply List.mem_append_left
        have hs := (hf.slot_iff h ho k' j k).mpr ⟨w, hw, hl'⟩
        apply Classical.byContradiction
        intro hnot
        rw [← aget_none_iff] at hnot
        simp [slot, hnot] at hs
      have := hmax k' hk'
      omega
    · have hk' : Key.uid w.uid ∈ s.absolute.map (·.1) ++ s.prefixed.map (·.1) := by
        apply List.mem_append_right
        have := hf.pre.complete w (worker?_of_mem h.nodup hw) (ho.all w hw) hp
        apply Classical.byContradiction
        intro hnot
        rw [← aget_none_iff] at hnot
        rw [hnot] at this; cases this
      have := hmax _ hk'
      have h0 : g.keyRank rank (stateKey g A w) = 0 := by
        unfold stateKey; split <;> rfl
      rw [h0] at this
      simp only [keyRank] at this
      omega
  rw [hnil] at this; cases this

/-- every leaf is a registered instruction -/
theorem Final.leaf_registered (hf : Final g A order s) (h : WF g rank) (ho : OrderOK g order) {k : Key}
    (hk : k ∈ s.leaves) : ∃ o, aget k s.index = some o := by
  unfold CState.leaves at hk
  simp only [List.mem_filter, List.mem_append] at hk
  rcases hk.1 with hk | hk
  · obtain ⟨w, hw, j, a, hl⟩ := hf.abs_key h ho hk
    rcases linkSpec_inv hl with ⟨rfl, _, _, hT, hP⟩ | ⟨rfl, _, hT, hP, _⟩ | ⟨i, rfl, _, _, htr, hne, hi⟩ |
      ⟨e, rfl, _, _, _, he, _, _⟩
    · exact ⟨_, (hf.idx.c_pt w hw (ho.all w hw) hT hP).2.1⟩
    · exact ⟨_, (hf.idx.c_pt w hw (ho.all w hw) hT hP).2.2⟩
    · exact ⟨_, hf.idx.c_getter w hw (ho.all w hw) htr hne i hi⟩
    · obtain ⟨sw, hsw, _⟩ := (h.edge e he).sub
      obtain ⟨hswm, hswu⟩ := worker?_some hsw
      exact ⟨_, by rw [← hswu]; exact hf.idx.c_uid sw hswm (ho.all sw hswm)⟩
  · obtain ⟨w, hw, rfl, _, _⟩ := hf.pre_key hk
    exact ⟨_, hf.idx.c_uid w (worker?_some hw).1 (ho.all w (worker?_some hw).1)⟩

end

end ForML.Flow
