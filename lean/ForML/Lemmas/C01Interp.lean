/-
C01 (shared with C02) — theory of the reference interpreter of `ForML/Model/Symbols.lean`.

For every table that admits *some* rank function (arguments strictly below the instruction — i.e. the
table is acyclic), with no bound on its size:
  * `Table.value` does not depend on the fuel once it exceeds the table length (`value_stable`,
    `value_fuel`), and satisfies the expected fix-point equation (`value_unfold`);
  * the memoising executor `run` computes exactly `Table.value` for every instruction
    (`run_get`), executes every instruction of the table exactly once (`run_trace_nodup`,
    `run_trace_mem`) and nothing else.
-/
import ForML.Model.Symbols

namespace ForML.Flow

/-! ### generic list facts -/

theorem countP_lt_of_imp {α} (p q : α → Bool) (l : List α)
    (himp : ∀ x ∈ l, p x = true → q x = true) (x : α) (hx : x ∈ l) (hq : q x = true) (hp : p x = false) :
    l.countP p < l.countP q := by
  induction l with
  | nil => cases hx
  | cons y r ih =>
    have hle : r.countP p ≤ r.countP q := by
      apply List.countP_mono_left
      intro z hz hpz
      exact himp z (List.mem_cons_of_mem _ hz) hpz
    rcases List.mem_cons.mp hx with rfl | hxr
    · simp [hq, hp]; omega
    · have := ih (fun z hz => himp z (List.mem_cons_of_mem _ hz)) hxr
      have hy := himp y (List.mem_cons_self)
      simp only [List.countP_cons]
      cases hpy : p y <;> cases hqy : q y <;> simp_all <;> omega

/-! ### tables -/

/-- `r` is an acyclicity witness of `t`: every argument of every symbol ranks strictly below it -/
def Table.Ranked (t : Table) (r : Key → Nat) : Prop := ∀ s ∈ t, ∀ a ∈ s.args, r a < r s.id

theorem Table.find_some {t : Table} {k : Key} {s : Symbol} (h : t.find k = some s) : s ∈ t ∧ s.id = k := by
  induction t with
  | nil => simp [Table.find] at h
  | cons x r ih =>
    simp only [Table.find] at h
    split at h
    · cases h; exact ⟨List.mem_cons_self, by assumption⟩
    · have := ih h; exact ⟨List.mem_cons_of_mem _ this.1, this.2⟩

theorem Table.find_none {t : Table} {k : Key} (h : t.find k = none) : ∀ s ∈ t, s.id ≠ k := by
  induction t with
  | nil => intro s hs; cases hs
  | cons x r ih =>
    simp only [Table.find] at h
    split at h
    · cases h
    · intro s hs
      rcases List.mem_cons.mp hs with rfl | hs
      · assumption
      · exact ih h s hs

theorem Table.find_isSome_of_mem {t : Table} {s : Symbol} (h : s ∈ t) : (t.find s.id).isSome := by
  cases hf : t.find s.id with
  | some _ => rfl
  | none => exact absurd rfl (Table.find_none hf s h)

/-- bounded rank derived from any rank: number of symbols ranking at most like `k` -/
def Table.cnt (t : Table) (r : Key → Nat) (k : Key) : Nat := t.countP (fun s => decide (r s.id ≤ r k))

theorem Table.cnt_le (t : Table) (r : Key → Nat) (k : Key) : t.cnt r k ≤ t.length := List.countP_le_length

theorem Table.cnt_lt {t : Table} {r : Key → Nat} (hr : t.Ranked r) {s : Symbol} (hs : s ∈ t) {a : Key}
    (ha : a ∈ s.args) : t.cnt r a < t.cnt r s.id := by
  have hlt := hr s hs a ha
  apply countP_lt_of_imp _ _ t _ s hs
  · simp
  · simp; omega
  · intro x _ hx
    simp at hx ⊢
    omega

theorem Table.value_succ (A : Option Assets) (t : Table) (f : Nat) (k : Key) :
    Table.value A t (f + 1) k =
      match t.find k with
      | none => .error .unbound
      | some s => exec A s.instr (s.args.map (Table.value A t f)) := rfl

/-- fuel beyond `cnt k` does not change the value -/
theorem Table.value_stable (A : Option Assets) {t : Table} {r : Key → Nat} (hr : t.Ranked r) :
    ∀ n k, t.cnt r k ≤ n → ∀ f, n + 1 ≤ f → Table.value A t f k = Table.value A t (n + 1) k := by
  intro n
  induction n with
  | zero =>
    intro k hk f hf
    obtain ⟨f', rfl⟩ : ∃ f', f = f' + 1 := ⟨f - 1, by omega⟩
    rw [Table.value_succ, Table.value_succ]
    cases hfind : t.find k with
    | none => rfl
    | some s =>
      obtain ⟨hs, rfl⟩ := Table.find_some hfind
      have hnil : s.args = [] := by
        cases hargs : s.args with
        | nil => rfl
        | cons a as =>
          have := Table.cnt_lt hr hs (a := a) (by simp [hargs])
          omega
      simp [hnil]
  | succ n ih =>
    intro k hk f hf
    obtain ⟨f', rfl⟩ : ∃ f', f = f' + 1 := ⟨f - 1, by omega⟩
    rw [Table.value_succ, Table.value_succ]
    cases hfind : t.find k with
    | none => rfl
    | some s =>
      obtain ⟨hs, rfl⟩ := Table.find_some hfind
      have : s.args.map (Table.value A t f') = s.args.map (Table.value A t (n + 1)) := by
        apply List.map_congr_left
        intro a ha
        have := Table.cnt_lt hr hs ha
        exact ih a (by omega) f' (by omega)
      simp [this]

/-- the default fuel `t.length + 1` is enough: any larger fuel gives the same value -/
theorem Table.value_fuel (A : Option Assets) {t : Table} {r : Key → Nat} (hr : t.Ranked r) (k : Key) (f : Nat)
    (hf : t.fuel ≤ f) : Table.value A t f k = Table.value A t t.fuel k :=
  Table.value_stable A hr t.length k (Table.cnt_le t r k) f hf

/-- fix-point equation of the denotation at the default fuel -/
theorem Table.value_unfold (A : Option Assets) {t : Table} {r : Key → Nat} (hr : t.Ranked r) {k : Key} {s : Symbol}
    (hfind : t.find k = some s) :
    Table.value A t t.fuel k = exec A s.instr (s.args.map (Table.value A t t.fuel)) := by
  have h2 := Table.value_fuel A hr k (t.fuel + 1) (by omega)
  rw [← h2, Table.value_succ, hfind]

theorem Table.value_unbound (A : Option Assets) {t : Table} {k : Key} (hfind : t.find k = none) :
    Table.value A t t.fuel k = .error .unbound := by
  simp [Table.fuel, Table.value_succ, hfind]

/-! ### the memoising executor -/

theorem lookupVal_cons (k k' : Key) (v : Val) (l : List (Key × Val)) :
    lookupVal k ((k', v) :: l) = if k' = k then some v else lookupVal k l := rfl

/-- argument evaluation loop of `evalM` -/
def evalArgs (ev : Memo → Key → Memo × Val) : Memo → List Val → List Key → Memo × List Val
  | m, vs, [] => (m, vs)
  | m, vs, a :: as => evalArgs ev (ev m a).1 (vs ++ [(ev m a).2]) as

theorem foldl_eq_evalArgs (ev : Memo → Key → Memo × Val) (m : Memo) (vs : List Val) (args : List Key) :
    args.foldl (fun (acc : Memo × List Val) a => let (m1, v) := ev acc.1 a; (m1, acc.2 ++ [v])) (m, vs)
      = evalArgs ev m vs args := by
  induction args generalizing m vs with
  | nil => rfl
  | cons a as ih => simp only [List.foldl_cons, evalArgs]; exact ih _ _

theorem evalM_succ (A : Option Assets) (t : Table) (f : Nat) (m : Memo) (k : Key) :
    evalM A t (f + 1) m k =
      match m.get k with
      | some v => (m, v)
      | none =>
        match t.find k with
        | none => (m, .error .unbound)
        | some s =>
          let r := evalArgs (evalM A t f) m [] s.args
          (⟨(k, exec A s.instr r.2) :: r.1.vals, r.1.trace ++ [k]⟩, exec A s.instr r.2) := by
  cases hg : m.get k with
  | some v => simp [evalM, hg]
  | none =>
    cases hf : t.find k with
    | none => simp [evalM, hg, hf]
    | some s => simp only [evalM, hg, hf]; rw [foldl_eq_evalArgs]

/-- consistency of a memo w.r.t. the denotation -/
structure MemoOK (A : Option Assets) (t : Table) (m : Memo) : Prop where
  sound : ∀ k v, m.get k = some v → v = Table.value A t t.fuel k
  nodup : m.trace.Nodup
  traced : ∀ k, k ∈ m.trace ↔ (m.get k).isSome
  known : ∀ k ∈ m.trace, (t.find k).isSome

/-- `m'` extends `m` by executions of instructions ranking below `b` -/
structure MemoExt (r : Key → Nat) (b : Nat) (m m' : Memo) : Prop where
  keep : ∀ k v, m.get k = some v → m'.get k = some v
  extra : ∀ k, k ∈ m'.trace → k ∈ m.trace ∨ r k < b

theorem MemoExt.refl (r : Key → Nat) (b : Nat) (m : Memo) : MemoExt r b m m :=
  ⟨fun _ _ h => h, fun _ h => Or.inl h⟩

theorem MemoExt.trans {r : Key → Nat} {b b' : Nat} {m m' m'' : Memo} (h1 : MemoExt r b m m')
    (h2 : MemoExt r b' m' m'') (hb : b ≤ b') : MemoExt r b' m m'' :=
  ⟨fun k v h => h2.keep k v (h1.keep k v h), fun k h => by
    rcases h2.extra k h with h | h
    · rcases h1.extra k h with h | h
      · exact Or.inl h
      · exact Or.inr (by omega)
    · exact Or.inr h⟩

/-- what one `evalM` call guarantees -/
structure EvalSpec (A : Option Assets) (t : Table) (r : Key → Nat) (m : Memo) (k : Key) (res : Memo × Val) : Prop where
  val : res.2 = Table.value A t t.fuel k
  ok : MemoOK A t res.1
  ext : MemoExt r (r k + 1) m res.1
  got : (t.find k).isSome → res.1.get k = some res.2

theorem evalArgs_spec (A : Option Assets) (t : Table) (r : Key → Nat) (ev : Memo → Key → Memo × Val) (b : Nat)
    (args : List Key)
    (hev : ∀ a ∈ args, ∀ m, MemoOK A t m → EvalSpec A t r m a (ev m a))
    (hb : ∀ a ∈ args, r a < b) :
    ∀ m vs, MemoOK A t m →
      (evalArgs ev m vs args).2 = vs ++ args.map (Table.value A t t.fuel) ∧
      MemoOK A t (evalArgs ev m vs args).1 ∧ MemoExt r b m (evalArgs ev m vs args).1 := by
  induction args with
  | nil => intro m vs hm; simp [evalArgs, hm, MemoExt.refl]
  | cons a as ih =>
    intro m vs hm
    have h1 := hev a List.mem_cons_self m hm
    have ih' := ih (fun a' ha' => hev a' (List.mem_cons_of_mem _ ha')) (fun a' ha' => hb a' (List.mem_cons_of_mem _ ha'))
      (ev m a).1 (vs ++ [(ev m a).2]) h1.ok
    simp only [evalArgs]
    refine ⟨?_, ih'.2.1, ?_⟩
    · rw [ih'.1, h1.val]; simp
    · exact MemoExt.trans h1.ext ih'.2.2 (hb a List.mem_cons_self)

theorem Memo.get_cons (k k' : Key) (v : Val) (vals : List (Key × Val)) (tr : List Key) :
    (Memo.mk ((k', v) :: vals) tr).get k = if k' = k then some v else (Memo.mk vals tr).get k := rfl

theorem Memo.get_trace_irrel (vals : List (Key × Val)) (tr tr' : List Key) (k : Key) :
    (Memo.mk vals tr).get k = (Memo.mk vals tr').get k := rfl

theorem evalM_spec (A : Option Assets) {t : Table} {r : Key → Nat} (hr : t.Ranked r) :
    ∀ f m k, MemoOK A t m → t.cnt r k < f → EvalSpec A t r m k (evalM A t f m k) := by
  intro f
  induction f with
  | zero => intro m k _ h; omega
  | succ f ih =>
    intro m k hm hk
    rw [evalM_succ]
    cases hg : m.get k with
    | some v =>
      exact ⟨hm.sound k v hg, hm, MemoExt.refl _ _ _, fun _ => hg⟩
    | none =>
      cases hfind : t.find k with
      | none =>
        exact ⟨(Table.value_unbound A hfind).symm, hm, MemoExt.refl _ _ _, fun h => by simp [hfind] at h⟩
      | some s =>
        obtain ⟨hs, hid⟩ := Table.find_some hfind
        have hargs := evalArgs_spec A t r (evalM A t f) (r k) s.args
          (fun a ha m' hm' => ih m' a hm' (by have := Table.cnt_lt hr hs ha; rw [hid] at this; omega))
          (fun a ha => by have := hr s hs a ha; rw [hid] at this; exact this) m [] hm
        obtain ⟨hvs, hok, hext⟩ := hargs
        simp only [List.nil_append] at hvs
        have hval : exec A s.instr (evalArgs (evalM A t f) m [] s.args).2 = Table.value A t t.fuel k := by
          rw [hvs, Table.value_unfold A hr hfind]
        have hknotin : k ∉ (evalArgs (evalM A t f) m [] s.args).1.trace := by
          intro hmem
          rcases hext.extra k hmem with h | h
          · have := (hm.traced k).mp h; simp [hg] at this
          · omega
        refine ⟨hval, ⟨?_, ?_, ?_, ?_⟩, ⟨?_, ?_⟩, ?_⟩
        · intro k' v' hget
          simp only [Memo.get_cons] at hget
          split at hget
          · cases hget; subst_vars; exact hval
          · exact hok.sound k' v' hget
        · simp only
          rw [List.nodup_append]
          refine ⟨hok.nodup, by simp, ?_⟩
          intro a ha b hb
          simp at hb; subst hb
          intro h; subst h; exact hknotin ha
        · intro k'
          simp only [Memo.get_cons, List.mem_append, List.mem_singleton]
          by_cases hkk : k = k'
          · simp [hkk]
          · simp only [hkk, if_false]
            have htr := hok.traced k'
            simp only [Memo.get] at htr ⊢
            rw [← htr]
            constructor
            · rintro (h | h)
              · exact h
              · exact absurd h.symm hkk
            · exact Or.inl
        · intro k' hk'
          simp only [List.mem_append, List.mem_singleton] at hk'
          rcases hk' with h | rfl
          · exact hok.known k' h
          · simp [hfind]
        · intro k' v' hget
          simp only [Memo.get_cons]
          have hne : k ≠ k' := by intro h; subst h; simp [hg] at hget
          simp only [hne, if_false]
          exact hext.keep k' v' hget
        · intro k' hk'
          simp only [List.mem_append, List.mem_singleton] at hk'
          rcases hk' with h | rfl
          · rcases hext.extra k' h with h | h
            · exact Or.inl h
            · exact Or.inr (by omega)
          · exact Or.inr (by omega)
        · intro _
          simp [Memo.get_cons]

theorem MemoOK.empty (A : Option Assets) (t : Table) : MemoOK A t ⟨[], []⟩ :=
  ⟨fun k v h => by simp [Memo.get, lookupVal] at h, List.nodup_nil, fun k => by simp [Memo.get, lookupVal],
   fun k h => by cases h⟩

theorem run_fold (A : Option Assets) {t : Table} {r : Key → Nat} (hr : t.Ranked r) (pre : List Symbol) :
    ∀ m, MemoOK A t m → (∀ s ∈ pre, s ∈ t) →
      MemoOK A t (pre.foldl (fun m s => (evalM A t t.fuel m s.id).1) m) ∧
      (∀ k v, m.get k = some v → (pre.foldl (fun m s => (evalM A t t.fuel m s.id).1) m).get k = some v) ∧
      (∀ s ∈ pre, (pre.foldl (fun m s => (evalM A t t.fuel m s.id).1) m).get s.id
          = some (Table.value A t t.fuel s.id)) := by
  induction pre with
  | nil => intro m hm _; exact ⟨hm, fun _ _ h => h, fun _ h => by cases h⟩
  | cons x rest ih =>
    intro m hm hsub
    have hx := evalM_spec A hr t.fuel m x.id hm (by have := Table.cnt_le t r x.id; simp [Table.fuel]; omega)
    have ih' := ih (evalM A t t.fuel m x.id).1 hx.ok (fun s hs => hsub s (List.mem_cons_of_mem _ hs))
    simp only [List.foldl_cons]
    refine ⟨ih'.1, fun k v h => ih'.2.1 k v (hx.ext.keep k v h), ?_⟩
    intro s hs
    rcases List.mem_cons.mp hs with rfl | hs
    · have hgot := hx.got (Table.find_isSome_of_mem (hsub s List.mem_cons_self))
      rw [hx.val] at hgot
      exact ih'.2.1 _ _ hgot
    · exact ih'.2.2 s hs

/-- the memoising executor computes the denotation of every instruction of an acyclic table -/
theorem run_get (A : Option Assets) {t : Table} {r : Key → Nat} (hr : t.Ranked r) {s : Symbol} (hs : s ∈ t) :
    (run A t).get s.id = some (Table.value A t t.fuel s.id) :=
  (run_fold A hr t ⟨[], []⟩ (MemoOK.empty A t) (fun _ h => h)).2.2 s hs

/-- no instruction is executed twice -/
theorem run_trace_nodup (A : Option Assets) {t : Table} {r : Key → Nat} (hr : t.Ranked r) : (run A t).trace.Nodup :=
  (run_fold A hr t ⟨[], []⟩ (MemoOK.empty A t) (fun _ h => h)).1.nodup

/-- exactly the instructions of the table are executed -/
theorem run_trace_mem (A : Option Assets) {t : Table} {r : Key → Nat} (hr : t.Ranked r) (k : Key) :
    k ∈ (run A t).trace ↔ ∃ s ∈ t, s.id = k := by
  have h := run_fold A hr t ⟨[], []⟩ (MemoOK.empty A t) (fun _ h => h)
  constructor
  · intro hk
    have := h.1.known k hk
    cases hf : t.find k with
    | none => simp [hf] at this
    | some s => exact ⟨s, (Table.find_some hf).1, (Table.find_some hf).2⟩
  · rintro ⟨s, hs, rfl⟩
    apply (h.1.traced s.id).mpr
    have := h.2.2 s hs
    rw [this]; rfl

/-- every symbol's arguments were executed before it (dependency order is not needed by C01, the
memo soundness above already implies each argument value is the denotation) -/
theorem run_get_unbound (A : Option Assets) {t : Table} {r : Key → Nat} (hr : t.Ranked r) (k : Key)
    (hk : ∀ s ∈ t, s.id ≠ k) : (run A t).get k = none := by
  have h := run_fold A hr t ⟨[], []⟩ (MemoOK.empty A t) (fun _ h => h)
  cases hg : (run A t).get k with
  | none => rfl
  | some v =>
    have : k ∈ (run A t).trace := (h.1.traced k).mpr (by unfold run at hg; simp [hg])
    obtain ⟨s, hs, hid⟩ := (run_trace_mem A hr k).mp this
    exact absurd hid (hk s hs)

end ForML.Flow
