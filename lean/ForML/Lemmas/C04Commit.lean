/-
C04 helper lemmas, part 8: (a) once the generation key of an instance is resolved, every later load of the same
action reads the same generation whatever other processes commit in between; (b) at every micro-step of a commit
every listed generation has all the states its tag lists.
-/
import ForML.Model.PersistCommit
import ForML.Lemmas.C04Binding

namespace ForML.Persist

/-! ### (a) the generation is pinned -/

theorem loadKeyed_pinned (P : List Nat) {k : Nat} {reg : Registry} {g : Generation} (h1 : k ≠ 0)
    (hk : reg[k - 1]? = some g) (gid : Nat) :
    loadKeyed P ⟨some k⟩ reg gid = (Assets.load ⟨P, .ok (some g)⟩ gid, ⟨some k⟩) := by
  have hlt : k - 1 < reg.length := by
    cases hl : reg[k - 1]? with
    | none => rw [hl] at hk; cases hk
    | some _ => exact (List.getElem?_eq_some_iff.mp hl).1
  have hle : k ≤ reg.length := by omega
  have hne : (k != 0) = true := by simpa using h1
  simp only [loadKeyed, Assets.load, LevelKey.key, hne, hle, decide_true, Bool.and_self, if_true, hk]
  split
  · cases g.states[List.idxOf gid P]? <;> rfl
  · rfl

theorem runEvents_pinned (P : List Nat) {k : Nat} {g : Generation} (h1 : k ≠ 0) :
    ∀ (evs : List Ev) (reg : Registry), reg[k - 1]? = some g →
      runEvents P ⟨some k⟩ reg evs = (loadsOf evs).map (fun gid => Assets.load ⟨P, .ok (some g)⟩ gid) := by
  intro evs
  induction evs with
  | nil => intro reg _; rfl
  | cons e rest ih =>
    intro reg hk
    cases e with
    | commit g' =>
      simp only [runEvents, loadsOf]
      apply ih
      have hlt : k - 1 < reg.length := (List.getElem?_eq_some_iff.mp hk).1
      rw [List.getElem?_append_left hlt]
      exact hk
    | load gid =>
      simp only [runEvents, loadsOf, List.map_cons, loadKeyed_pinned P h1 hk]
      rw [ih reg hk]

/-- the first load resolves the key to the generation `select` names and stores it -/
theorem first_load_pins (P : List Nat) {sel : Option Nat} {reg : Registry} {g : Generation}
    (hsel : select reg sel = .ok (some g)) {gid : Nat} (hin : P.contains gid = true) :
    ∃ k, k ≠ 0 ∧ reg[k - 1]? = some g ∧
      loadKeyed P ⟨sel⟩ reg gid = (Assets.load ⟨P, .ok (some g)⟩ gid, ⟨some k⟩) := by
  cases sel with
  | some k =>
    simp only [select] at hsel
    split at hsel
    · cases hsel
    · rename_i hk0
      have h1 : k ≠ 0 := by simpa using hk0
      cases hk : reg[k - 1]? with
      | none => rw [hk] at hsel; cases hsel
      | some g' =>
        rw [hk] at hsel
        cases hsel
        exact ⟨k, h1, hk, loadKeyed_pinned P h1 hk gid⟩
  | none =>
    simp only [select] at hsel
    have hlast : reg.getLast? = some g := by
      cases h : reg.getLast? with
      | none => rw [h] at hsel; cases hsel
      | some g' => rw [h] at hsel; cases hsel; rfl
    have hne : reg ≠ [] := by
      intro e; rw [e] at hlast; cases hlast
    have hlen : reg.length ≠ 0 := by
      intro e; exact hne (List.length_eq_zero_iff.mp e)
    have hk : reg[reg.length - 1]? = some g := by
      rw [← hlast, List.getLast?_eq_getElem?]
    refine ⟨reg.length, hlen, hk, ?_⟩
    have hn0 : (reg.length == 0) = false := by simpa using hlen
    simp only [loadKeyed, hin, if_true, LevelKey.key, hn0, Bool.false_eq_true, if_false, hk, Assets.load]
    cases g.states[List.idxOf gid P]? <;> rfl

/-! ### (b) a listed generation is complete at every micro-step -/

theorem runAll_append (s : Store) (a b : List Op) :
    runAll s (a ++ b) = (runAll s a).bind (fun s' => runAll s' b) := by
  induction a generalizing s with
  | nil => rfl
  | cons op rest ih =>
    simp only [List.cons_append, runAll]
    cases applyOp s op with
    | none => rfl
    | some s' => exact ih s'

theorem runOps_append (s : Store) (a b : List Op) :
    runOps s (a ++ b) = match runAll s a with
      | some s' => runOps s' b
      | none => runOps s a := by
  induction a generalizing s with
  | nil => rfl
  | cons op rest ih =>
    simp only [List.cons_append, runOps, runAll]
    cases applyOp s op with
    | none => rfl
    | some s' => exact ih s'

def Op.safe : Op → Bool
  | .publishTag _ _ _ => false
  | _ => true

theorem complete_addFile (g : GenDir) (f : Nat × Origin) (h : g.complete = true) :
    ({ g with files := g.files ++ [f] } : GenDir).complete = true := by
  simp only [GenDir.complete] at h ⊢
  cases ht : g.tag with
  | none => simp
  | some t =>
    obtain ⟨run, sids⟩ := t
    rw [ht] at h
    simp only [List.all_eq_true] at h ⊢
    intro sid hs
    have := h sid hs
    simp only [List.any_append, this, Bool.true_or]

theorem ok_iff (s : Store) : s.ok = true ↔ ∀ g ∈ s.gens, g.complete = true := by
  simp only [Store.ok, List.all_eq_true]

theorem applyOp_ok_safe {s s' : Store} {op : Op} (hs : s.ok = true) (hop : op.safe = true)
    (h : applyOp s op = some s') : s'.ok = true := by
  rw [ok_iff] at hs ⊢
  cases op with
  | stage sid o =>
    simp only [applyOp, Option.some.injEq] at h
    subst h
    exact hs
  | mkdir k =>
    simp only [applyOp] at h
    split at h
    · cases h; exact hs
    · cases h
      intro g hg
      simp only [List.mem_append, List.mem_singleton] at hg
      cases hg with
      | inl h' => exact hs g h'
      | inr h' => subst h'; rfl
  | move k sid =>
    simp only [applyOp] at h
    cases hf : s.staged.find? (fun f => f.1 == sid) with
    | none => rw [hf] at h; cases h
    | some f =>
      rw [hf] at h
      cases h
      intro g hg
      simp only [updGen, List.mem_map] at hg
      obtain ⟨g0, hg0, rfl⟩ := hg
      split
      · exact complete_addFile g0 f (hs g0 hg0)
      · exact hs g0 hg0
  | stageTag k =>
    simp only [applyOp, Option.some.injEq] at h
    subst h
    exact hs
  | publishTag k run sids => cases hop

theorem runOps_ok_safe : ∀ (ops : List Op) (s : Store), s.ok = true → (∀ op ∈ ops, op.safe = true) →
    (runOps s ops).ok = true := by
  intro ops
  induction ops with
  | nil => intro s hs _; exact hs
  | cons op rest ih =>
    intro s hs hall
    simp only [runOps]
    cases h : applyOp s op with
    | none => exact hs
    | some s' =>
      exact ih s' (applyOp_ok_safe hs (hall op List.mem_cons_self) h)
        (fun o ho => hall o (List.mem_cons_of_mem _ ho))

theorem runAll_ok_safe : ∀ (ops : List Op) (s s' : Store), s.ok = true → (∀ op ∈ ops, op.safe = true) →
    runAll s ops = some s' → s'.ok = true := by
  intro ops
  induction ops with
  | nil => intro s s' hs _ h; cases h; exact hs
  | cons op rest ih =>
    intro s s' hs hall h
    simp only [runAll] at h
    cases h1 : applyOp s op with
    | none => rw [h1] at h; cases h
    | some s1 =>
      rw [h1] at h
      exact ih s1 s' (applyOp_ok_safe hs (hall op List.mem_cons_self) h1)
        (fun o ho => hall o (List.mem_cons_of_mem _ ho)) h

/-- every generation directory with key `k` holds a file of state `sid` -/
def HasFile (k sid : Nat) (s : Store) : Prop :=
  ∀ g ∈ s.gens, g.key = k → g.files.any (fun f => f.1 == sid) = true

theorem move_hasFile {s s' : Store} {k sid : Nat} (h : applyOp s (.move k sid) = some s') : HasFile k sid s' := by
  simp only [applyOp] at h
  cases hf : s.staged.find? (fun f => f.1 == sid) with
  | none => rw [hf] at h; cases h
  | some f =>
    rw [hf] at h
    cases h
    have hfs : (f.1 == sid) = true := by
      have := List.find?_some hf
      exact this
    intro g hg hk
    simp only [updGen, List.mem_map] at hg
    obtain ⟨g0, _, rfl⟩ := hg
    split
    · simp [List.any_append, hfs]
    · rename_i hne
      split at hk
      · rename_i heq; exact absurd heq hne
      · simp only [beq_iff_eq] at hne
        exact absurd hk hne

theorem move_keeps_hasFile {s s' : Store} {k sid sid' : Nat} (hh : HasFile k sid s)
    (h : applyOp s (.move k sid') = some s') : HasFile k sid s' := by
  simp only [applyOp] at h
  cases hf : s.staged.find? (fun f => f.1 == sid') with
  | none => rw [hf] at h; cases h
  | some f =>
    rw [hf] at h
    cases h
    intro g hg hk
    simp only [updGen, List.mem_map] at hg
    obtain ⟨g0, hg0, rfl⟩ := hg
    split
    · rename_i heq
      have := hh g0 hg0 (by simpa using heq)
      simp [List.any_append, this]
    · rename_i hne
      split at hk
      · rename_i heq; exact absurd heq hne
      · exact hh g0 hg0 hk

theorem moves_hasFile (k : Nat) : ∀ (sids : List Nat) (s s' : Store),
    runAll s (sids.map (fun sid => Op.move k sid)) = some s' → ∀ sid ∈ sids, HasFile k sid s' := by
  intro sids
  induction sids with
  | nil => intro s s' _ sid hs; cases hs
  | cons x rest ih =>
    intro s s' h sid hs
    simp only [List.map_cons, runAll] at h
    cases h1 : applyOp s (.move k x) with
    | none => rw [h1] at h; cases h
    | some s1 =>
      rw [h1] at h
      cases hs with
      | head =>
        -- the file is there after its own move and stays there
        have base := move_hasFile h1
        clear ih h1
        revert s1
        induction rest generalizing s' with
        | nil => intro s1 h base; simp only [List.map_nil, runAll] at h; cases h; exact base
        | cons y ys ih2 =>
          intro s1 h base
          simp only [List.map_cons, runAll] at h
          cases h2 : applyOp s1 (.move k y) with
          | none => rw [h2] at h; cases h
          | some s2 =>
            rw [h2] at h
            exact ih2 s' s2 h (move_keeps_hasFile base h2)
      | tail _ hmem => exact ih s1 s' h sid hmem

theorem stageTag_keeps {s s' : Store} {k k' sid : Nat} (hh : HasFile k sid s)
    (h : applyOp s (.stageTag k') = some s') : HasFile k sid s' := by
  simp only [applyOp, Option.some.injEq] at h
  subst h
  exact hh

theorem publish_ok {s : Store} {k run : Nat} {sids : List Nat} (hs : s.ok = true)
    (hfiles : ∀ sid ∈ sids, HasFile k sid s) :
    ∀ s', applyOp s (.publishTag k run sids) = some s' → s'.ok = true := by
  intro s' h
  simp only [applyOp, Option.some.injEq] at h
  subst h
  rw [ok_iff] at hs ⊢
  intro g hg
  simp only [updGen, List.mem_map] at hg
  obtain ⟨g0, hg0, rfl⟩ := hg
  split
  · rename_i heq
    simp only [GenDir.complete, List.all_eq_true]
    intro sid hsid
    exact hfiles sid hsid g0 hg0 (by simpa using heq)
  · exact hs g0 hg0

theorem prepareOps_safe (k : Nat) (states : List (Nat × Origin)) : ∀ op ∈ prepareOps k states, op.safe = true := by
  intro op hop
  simp only [prepareOps, List.mem_append, List.mem_map, List.mem_singleton] at hop
  rcases hop with ((⟨f, _, rfl⟩ | rfl) | ⟨f, _, rfl⟩) | rfl <;> rfl

/-- after all preparing micro-steps succeeded, generation `k` holds every state of the tag -/
theorem prepare_hasFiles (k : Nat) (states : List (Nat × Origin)) (s s' : Store)
    (h : runAll s (prepareOps k states) = some s') : ∀ sid ∈ states.map (·.1), HasFile k sid s' := by
  simp only [prepareOps, List.append_assoc, runAll_append] at h
  cases h1 : runAll s (states.map (fun f => Op.stage f.1 f.2)) with
  | none => rw [h1] at h; cases h
  | some s1 =>
    rw [h1] at h
    simp only [Option.bind_some] at h
    cases h2 : runAll s1 [Op.mkdir k] with
    | none => rw [h2] at h; cases h
    | some s2 =>
      rw [h2] at h
      simp only [Option.bind_some] at h
      cases h3 : runAll s2 (states.map (fun f => Op.move k f.1)) with
      | none => rw [h3] at h; cases h
      | some s3 =>
        rw [h3] at h
        simp only [Option.bind_some, runAll] at h
        have hm : runAll s2 ((states.map (·.1)).map (fun sid => Op.move k sid)) = some s3 := by
          rw [List.map_map]; exact h3
        intro sid hsid
        have := moves_hasFile k (states.map (·.1)) s2 s3 hm sid hsid
        cases h4 : applyOp s3 (Op.stageTag k) with
        | none => rw [h4] at h; cases h
        | some s4 =>
          rw [h4] at h
          cases h
          exact stageTag_keeps this h4

end ForML.Persist
