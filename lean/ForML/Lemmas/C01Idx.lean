/-
C01 — the index component (`Table.Index` + `Table._committer`): closed form of one `Table.add` on the index.
-/
import ForML.Lemmas.C01AbsFinal

namespace ForML.Flow
open CState Segment

/-! ### association list facts -/

theorem aget_append {κ α : Type} [DecidableEq κ] (k : κ) (l1 l2 : List (κ × α)) :
    aget k (l1 ++ l2) = match aget k l1 with | some x => some x | none => aget k l2 := by
  induction l1 with
  | nil => rfl
  | cons y r ih =>
    obtain ⟨k', v'⟩ := y
    simp only [List.cons_append, aget_cons]
    split
    · rfl
    · exact ih

theorem adel_append_of_mem {κ α : Type} [DecidableEq κ] {k : κ} {l1 : List (κ × α)} (l2 : List (κ × α))
    (h : (aget k l1).isSome) : adel k (l1 ++ l2) = adel k l1 ++ l2 := by
  induction l1 with
  | nil => simp [aget] at h
  | cons y r ih =>
    obtain ⟨k', v'⟩ := y
    simp only [List.cons_append, adel]
    split
    · rfl
    · rename_i hne
      simp only [aget_cons, hne, if_false] at h
      rw [ih h]; rfl

theorem adel_of_not_mem {κ α : Type} [DecidableEq κ] {k : κ} {l : List (κ × α)} (h : aget k l = none) : adel k l = l := by
  induction l with
  | nil => rfl
  | cons y r ih =>
    obtain ⟨k', v'⟩ := y
    simp only [aget_cons] at h
    split at h
    · cases h
    · rename_i hne
      simp only [adel, hne, if_false]
      rw [ih h]

theorem adel_append_singleton_self {κ α : Type} [DecidableEq κ] {k : κ} {v : α} {l : List (κ × α)} (h : aget k l = none) :
    adel k (l ++ [(k, v)]) = l := by
  induction l with
  | nil => simp [adel]
  | cons y r ih =>
    obtain ⟨k', v'⟩ := y
    simp only [aget_cons] at h
    split at h
    · cases h
    · rename_i hne
      simp only [List.cons_append, adel, hne, if_false]
      rw [ih h]

theorem aget_fresh_append {κ α : Type} [DecidableEq κ] {k : κ} {l1 l2 : List (κ × α)} (h1 : aget k l1 = none)
    (h2 : aget k l2 = none) : aget k (l1 ++ l2) = none := by
  rw [aget_append, h1]; exact h2

theorem aget_append_left {κ α : Type} [DecidableEq κ] {k : κ} {l1 : List (κ × α)} (l2 : List (κ × α)) {v : α}
    (h1 : aget k l1 = some v) : aget k (l1 ++ l2) = some v := by
  rw [aget_append, h1]

theorem aget_append_right {κ α : Type} [DecidableEq κ] {k : κ} {l1 : List (κ × α)} (l2 : List (κ × α))
    (h1 : aget k l1 = none) : aget k (l1 ++ l2) = aget k l2 := by
  rw [aget_append, h1]

theorem aget_singleton_ne {κ α : Type} [DecidableEq κ] {k k' : κ} {v : α} (hne : k' ≠ k) : aget k [(k', v)] = none := by
  simp [aget, hne]

theorem aget_singleton_self {κ α : Type} [DecidableEq κ] {k : κ} {v : α} : aget k [(k, v)] = some v := by
  simp [aget]

theorem aget_ite_ne {κ α : Type} [DecidableEq κ] {k k' : κ} {v : α} (c : Prop) [Decidable c] (hne : k' ≠ k) :
    aget k (if c then [(k', v)] else []) = none := by
  split
  · exact aget_singleton_ne hne
  · rfl

/-! ### objects -/

abbrev loaderObj (γ : Gid) : Obj := ⟨.loader γ, .loader γ⟩
abbrev getterObj (n : Uid) (i : Nat) : Obj := ⟨.getter n i, .getter i⟩
abbrev dumperObj (n : Uid) : Obj := ⟨.dumper n, .dumper⟩
abbrev committerObj : Obj := ⟨.committer, .committer⟩

/-- the getter instructions `Linkage.update` registers for `w` -/
def getterEntries (g : Segment) (w : Worker) : List (Key × Obj) :=
  if g.trained w.uid || w.szout = 1 then []
  else (List.range w.szout).map (fun i => (Key.getter w.uid i, getterObj w.uid i))

/-! ### running index-only programs -/

theorem idxRun_cons (ic : IdxS) (op : Op) (r : List Op) : idxRun ic (op :: r) = (idxStep ic op).bind (idxRun · r) := rfl

theorem idxStep_link (ic : IdxS) (k a : Key) (i : Option Nat) : idxStep ic (.linsert k a i) = some ic := rfl

/-- index effect of `Linkage.update`: one fresh getter per output port -/
theorem idxRun_updProg {g : Segment} {w : Worker} (htr : g.trained w.uid = false) (I : List (Key × Obj)) (c : Option Key)
    (hfresh : ∀ i, aget (Key.getter w.uid i) I = none) :
    idxRun (I, c) (updProg g w) = some (I ++ getterEntries g w, c) := by
  unfold updProg getterEntries
  have hlinks : ∀ (ic : IdxS) (l : List Edge) (f : Edge → Op), (∀ e, ∃ k a i, f e = Op.linsert k a i) →
      idxRun ic (l.map f) = some ic := by
    intro ic l f hf
    induction l with
    | nil => rfl
    | cons e r ih =>
      obtain ⟨k, a, i, he⟩ := hf e
      simp only [List.map_cons, idxRun_cons, he, idxStep_link, Option.bind_some]
      exact ih
  split
  · rename_i h1
    simp only [htr, h1, decide_true, Bool.or_true, if_true, List.append_nil]
    exact hlinks _ _ _ (fun e => ⟨_, _, _, rfl⟩)
  · rename_i h1
    simp only [htr, h1, decide_false, Bool.or_false, Bool.false_eq_true, if_false]
    -- induction over the ports, from the right
    have key : ∀ n, idxRun (I, c) ((List.range n).flatMap (fun i =>
        [Op.iset ⟨.getter w.uid i, .getter i⟩ (.getter w.uid i), Op.linsert (.getter w.uid i) (.uid w.uid) none] ++
          (g.subscribers w.uid i).map (fun e => Op.linsert (.uid e.sub) (.getter w.uid i) (some e.subPort.index))))
        = some (I ++ (List.range n).map (fun i => (Key.getter w.uid i, getterObj w.uid i)), c) := by
      intro n
      induction n with
      | zero => simp [idxRun]
      | succ n ih =>
        rw [List.range_succ, List.flatMap_append, idxRun_append, ih]
        simp only [Option.bind_some, List.flatMap_cons, List.flatMap_nil, List.append_nil, List.cons_append,
          List.nil_append, idxRun_cons, idxStep]
        have hf : aget (Key.getter w.uid n) (I ++ (List.range n).map (fun i => (Key.getter w.uid i, getterObj w.uid i)))
            = none := by
          rw [aget_append, hfresh n]
          simp only
          rw [aget_none_iff]
          simp only [List.map_map, List.mem_map, List.mem_range, Function.comp, not_exists, not_and]
          intro x hx heq
          simp only [Key.getter.injEq, true_and] at heq
          omega
        simp only [hf, Option.isSome_none, Bool.false_eq_true, if_false, Option.bind_some]
        rw [hlinks _ _ _ (fun e => ⟨_, _, _, rfl⟩)]
        simp [List.map_append, getterObj]
    exact key w.szout

theorem persistent_offset {A : Option Assets} {w : Worker} (hP : persistentW A w = true) :
    ∃ off, A.bind (·.offset w.gid) = some off := by
  obtain ⟨_, As, rfl, hc⟩ := persistentW_true hP
  simp only [Assets.contains, Option.isSome_iff_exists] at hc
  obtain ⟨off, hoff⟩ := hc
  exact ⟨off, by simp [Assets.offset, hoff]⟩

/-! ### closed form of one `Table.add` on the index, by kind of node -/

section closed
variable {g : Segment} {A : Option Assets} {w : Worker} {I : List (Key × Obj)} {c : Option Key}

/-- mapper (not a trainer): optional loader under the gid, the functor, the getters -/
theorem idx_mapper (hT : g.isTrainer w = false) (htr : g.trained w.uid = false)
    (hu : aget (Key.uid w.uid) I = none) (hgt : ∀ i, aget (Key.getter w.uid i) I = none) :
    idxRun (I, c) (prog g A w) =
      some (I ++ (if persistentW A w = true ∧ aget (Key.gid w.gid) I = none then [(Key.gid w.gid, loaderObj w.gid)] else [])
              ++ [(Key.uid w.uid, functorObj g A w)] ++ getterEntries g w, c) := by
  unfold prog progHead dumpProg
  simp only [hT, htr, Bool.false_and, Bool.false_eq_true, if_false, List.append_nil]
  rw [idxRun_append]
  by_cases hP : persistentW A w = true
  · by_cases hgid : aget (Key.gid w.gid) I = none
    · have h1 : aget (Key.uid w.uid) (I ++ [(Key.gid w.gid, loaderObj w.gid)]) = none := by
        rw [aget_append, hu]; simp [aget_cons, aget]
      have h2 : ∀ i, aget (Key.getter w.uid i) (I ++ [(Key.gid w.gid, loaderObj w.gid)] ++ [(Key.uid w.uid, functorObj g A w)])
          = none := by
        intro i; rw [aget_append, aget_append, hgt i]; simp [aget_cons, aget]
      simp only [hP, hgid, and_self, if_true]
      split
      · rename_i hpre
        simp only [List.cons_append, List.nil_append, idxRun_cons, idxStep, hu, hgid, Option.isSome_none,
          Option.isNone_none, Bool.false_eq_true, if_false, if_true, Option.bind_some, idxRun, h1]
        rw [idxRun_updProg (g := g) (w := w) htr _ c h2]
      · simp only [List.cons_append, List.nil_append, List.append_nil, idxRun_cons, idxStep, hu, hgid, Option.isSome_none,
          Option.isNone_none, Bool.false_eq_true, if_false, if_true, Option.bind_some, idxRun, h1]
        rw [idxRun_updProg (g := g) (w := w) htr _ c h2]
    · have h2 : ∀ i, aget (Key.getter w.uid i) (I ++ [(Key.uid w.uid, functorObj g A w)]) = none := by
        intro i; rw [aget_append, hgt i]; simp [aget_cons, aget]
      have hsome : (aget (Key.gid w.gid) I).isNone = false := by
        cases h : aget (Key.gid w.gid) I with
        | none => exact absurd h hgid
        | some _ => rfl
      simp only [hP, hgid, and_false, if_false, if_true, List.append_nil]
      split
      · simp only [List.cons_append, List.nil_append, idxRun_cons, idxStep, hu, hsome, Option.isSome_none,
          Bool.false_eq_true, if_false, Option.bind_some, idxRun]
        rw [idxRun_updProg htr _ c h2]
      · simp only [List.cons_append, List.nil_append, List.append_nil, idxRun_cons, idxStep, hu, hsome, Option.isSome_none,
          Bool.false_eq_true, if_false, Option.bind_some, idxRun]
        rw [idxRun_updProg htr _ c h2]
  · have h2 : ∀ i, aget (Key.getter w.uid i) (I ++ [(Key.uid w.uid, functorObj g A w)]) = none := by
      intro i; rw [aget_append, hgt i]; simp [aget_cons, aget]
    simp only [hP, false_and, if_false, List.append_nil, Bool.false_eq_true]
    split
    · simp only [List.cons_append, List.nil_append, idxRun_cons, idxStep, hu, Option.isSome_none,
        Bool.false_eq_true, if_false, Option.bind_some, idxRun]
      rw [idxRun_updProg htr _ c h2]
    · simp only [List.cons_append, List.nil_append, List.append_nil, idxRun_cons, idxStep, hu, Option.isSome_none,
        Bool.false_eq_true, if_false, Option.bind_some, idxRun]
      rw [idxRun_updProg htr _ c h2]

/-- trainer of a non-persistent group: the functor under uid and gid -/
theorem idx_trainer_np (hT : g.isTrainer w = true) (hP : persistentW A w = false)
    (hu : aget (Key.uid w.uid) I = none) (hgid : aget (Key.gid w.gid) I = none) :
    idxRun (I, c) (prog g A w) =
      some (I ++ [(Key.uid w.uid, functorObj g A w), (Key.gid w.gid, functorObj g A w)], c) := by
  have htr : g.trained w.uid = true := by
    simp only [isTrainer, Bool.and_eq_true] at hT; exact hT.2
  unfold prog progHead dumpProg
  have h1 : aget (Key.gid w.gid) (I ++ [(Key.uid w.uid, functorObj g A w)]) = none := by
    rw [aget_append, hgid]; simp [aget_cons, aget]
  simp only [hT, hP, htr, Bool.and_false, Bool.false_eq_true, if_false, if_true, List.append_nil]
  split <;>
    simp [idxRun_cons, idxStep, hu, idxRun, h1]

/-- trainer of a persistent group: committer (once), dumper, the loader re-keyed, the functor under uid and gid -/
theorem idx_trainer_p (hT : g.isTrainer w = true) (hP : persistentW A w = true) (hnd : (I.map (·.1)).Nodup)
    (hu : aget (Key.uid w.uid) I = none)
    (hgid : aget (Key.gid w.gid) I = none ∨ aget (Key.gid w.gid) I = some (loaderObj w.gid))
    (hl : aget (Key.loader w.gid) I = none) (hd : aget (Key.dumper w.uid) I = none)
    (hc : c = none → aget Key.committer I = none) (hcomm : CommOK c) :
    idxRun (I, c) (prog g A w) =
      some (adel (Key.gid w.gid) I ++ (if c = none then [(Key.committer, committerObj)] else [])
              ++ [(Key.dumper w.uid, dumperObj w.uid), (Key.loader w.gid, loaderObj w.gid),
                  (Key.uid w.uid, functorObj g A w), (Key.gid w.gid, functorObj g A w)], some Key.committer) := by
  have htr : g.trained w.uid = true := by
    simp only [isTrainer, Bool.and_eq_true] at hT; exact hT.2
  obtain ⟨off, hoff⟩ := persistent_offset hP
  unfold prog progHead dumpProg commitOp
  simp only [hT, hP, htr, hoff, Bool.and_self, if_true, List.append_nil]
  -- the state after the (optional) loader registration
  generalize hI1 : (if (aget (Key.gid w.gid) I).isNone then I ++ [(Key.gid w.gid, loaderObj w.gid)] else I) = I1
  have hI1gid : aget (Key.gid w.gid) I1 = some (loaderObj w.gid) := by
    rw [← hI1]
    rcases hgid with h | h
    · simp only [h, Option.isNone_none, if_true]
      rw [aget_append_right _ h]; exact aget_singleton_self
    · simp [h]
  have hI1del : adel (Key.gid w.gid) I1 = adel (Key.gid w.gid) I := by
    rw [← hI1]
    rcases hgid with h | h
    · simp only [h, Option.isNone_none, if_true]
      rw [adel_append_singleton_self h, adel_of_not_mem h]
    · simp [h]
  have hI1other : ∀ k, k ≠ Key.gid w.gid → aget k I1 = aget k I := by
    intro k hk
    rw [← hI1]
    split
    · cases hk1 : aget k I with
      | some v => exact aget_append_left _ hk1
      | none => exact aget_fresh_append hk1 (aget_singleton_ne (Ne.symm hk))
    · rfl
  -- committer
  generalize hI2 : (I1 ++ (if c = none then [(Key.committer, committerObj)] else [])) = I2
  have hI2get : ∀ k, k ≠ Key.committer → aget k I2 = aget k I1 := by
    intro k hk
    rw [← hI2]
    cases hk1 : aget k I1 with
    | some v => exact aget_append_left _ hk1
    | none => exact aget_fresh_append hk1 (aget_ite_ne _ (Ne.symm hk))
  have hstep12 : idxRun (I, c) ([Op.checkFresh (Key.uid w.uid)] ++
      [Op.isetAbsent ⟨Key.loader w.gid, Instr.loader w.gid⟩ (Key.gid w.gid)] ++ [Op.ensureCommitter]) =
      some (I2, some Key.committer) := by
    simp only [List.cons_append, List.nil_append, idxRun_cons, idxStep, hu, Option.isSome_none, Bool.false_eq_true,
      if_false, Option.bind_some, idxRun]
    have e1 : (if (aget (Key.gid w.gid) I).isNone = true then
        some (I ++ [(Key.gid w.gid, ({ id := Key.loader w.gid, instr := Instr.loader w.gid } : Obj))], c)
        else some (I, c)) = some (I1, c) := by
      rw [← hI1]; split <;> rfl
    rw [e1]
    simp only [Option.bind_some]
    rcases hcomm with hcn | hcs
    · subst hcn
      have : aget Key.committer I1 = none := by
        rw [hI1other _ (by simp)]; exact hc rfl
      simp only [Option.isNone_none, if_true, this, Option.isSome_none, Bool.false_eq_true, if_false, Option.bind_some]
      rw [← hI2]; simp
    · subst hcs
      simp only [Option.isNone_some, Bool.false_eq_true, if_false, Option.bind_some]
      rw [← hI2]; simp
  -- the rest of the block
  have hd2 : aget (Key.dumper w.uid) I2 = none := by
    rw [hI2get _ (by simp), hI1other _ (by simp)]; exact hd
  have hgid2 : aget (Key.gid w.gid) (I2 ++ [(Key.dumper w.uid, dumperObj w.uid)]) = some (loaderObj w.gid) :=
    aget_append_left _ (by rw [hI2get _ (by simp), hI1gid])
  have hdel2 : adel (Key.gid w.gid) (I2 ++ [(Key.dumper w.uid, dumperObj w.uid)]) =
      adel (Key.gid w.gid) I ++ (if c = none then [(Key.committer, committerObj)] else [])
        ++ [(Key.dumper w.uid, dumperObj w.uid)] := by
    rw [adel_append_of_mem _ (by rw [hI2get _ (by simp), hI1gid]; rfl), ← hI2,
      adel_append_of_mem _ (by rw [hI1gid]; rfl), hI1del]
  have hgidnone : aget (Key.gid w.gid) (adel (Key.gid w.gid) I) = none := aget_adel_self hnd
  have hother : ∀ k, k ≠ Key.gid w.gid → aget k (adel (Key.gid w.gid) I) = aget k I :=
    fun k hk => aget_adel_ne (Ne.symm hk) I
  have hl3 : aget (Key.loader w.gid) (adel (Key.gid w.gid) I ++ (if c = none then [(Key.committer, committerObj)] else [])
        ++ [(Key.dumper w.uid, dumperObj w.uid)]) = none :=
    aget_fresh_append (aget_fresh_append (by rw [hother _ (by simp)]; exact hl) (aget_ite_ne _ (by simp)))
      (aget_singleton_ne (by simp))
  have hu4 : aget (Key.uid w.uid) (adel (Key.gid w.gid) I ++ (if c = none then [(Key.committer, committerObj)] else [])
        ++ [(Key.dumper w.uid, dumperObj w.uid)] ++ [(Key.loader w.gid, loaderObj w.gid)]) = none :=
    aget_fresh_append (aget_fresh_append (aget_fresh_append (by rw [hother _ (by simp)]; exact hu)
      (aget_ite_ne _ (by simp))) (aget_singleton_ne (by simp))) (aget_singleton_ne (by simp))
  have hg5 : aget (Key.gid w.gid) (adel (Key.gid w.gid) I ++ (if c = none then [(Key.committer, committerObj)] else [])
        ++ [(Key.dumper w.uid, dumperObj w.uid)] ++ [(Key.loader w.gid, loaderObj w.gid)]
        ++ [(Key.uid w.uid, functorObj g A w)]) = none :=
    aget_fresh_append (aget_fresh_append (aget_fresh_append (aget_fresh_append hgidnone
      (aget_ite_ne _ (by simp))) (aget_singleton_ne (by simp))) (aget_singleton_ne (by simp)))
      (aget_singleton_ne (by simp))
  -- assemble
  have hrest : ∀ (pre : List Op), (∀ ic, idxRun ic pre = some ic) →
      idxRun (I2, some Key.committer)
        ([Op.iset ⟨Key.dumper w.uid, Instr.dumper⟩ (Key.dumper w.uid),
          Op.linsert (Key.dumper w.uid) (Key.uid w.uid) none, Op.linsertC (Key.dumper w.uid) off,
          Op.ireset (Key.gid w.gid) (Key.loader w.gid)] ++ (pre ++
          [Op.iset (functorObj g A w) (Key.uid w.uid), Op.iset (functorObj g A w) (Key.gid w.gid)])) =
      some (adel (Key.gid w.gid) I ++ (if c = none then [(Key.committer, committerObj)] else [])
              ++ [(Key.dumper w.uid, dumperObj w.uid), (Key.loader w.gid, loaderObj w.gid),
                  (Key.uid w.uid, functorObj g A w), (Key.gid w.gid, functorObj g A w)], some Key.committer) := by
    intro pre hpre
    simp only [List.cons_append, List.nil_append, idxRun_cons, idxStep, hd2, Option.isSome_none, Bool.false_eq_true,
      if_false, Option.bind_some, hgid2, hdel2, hl3]
    rw [idxRun_append, hpre]
    simp only [Option.bind_some, idxRun_cons, idxStep, hu4, hg5, Option.isSome_none, Bool.false_eq_true, if_false, idxRun]
    simp
  have key : ∀ (pre L : List Op), (∀ ic, idxRun ic pre = some ic) →
      L = ([Op.checkFresh (Key.uid w.uid)] ++
        [Op.isetAbsent ⟨Key.loader w.gid, Instr.loader w.gid⟩ (Key.gid w.gid)] ++ [Op.ensureCommitter]) ++
        ([Op.iset ⟨Key.dumper w.uid, Instr.dumper⟩ (Key.dumper w.uid),
          Op.linsert (Key.dumper w.uid) (Key.uid w.uid) none, Op.linsertC (Key.dumper w.uid) off,
          Op.ireset (Key.gid w.gid) (Key.loader w.gid)] ++ (pre ++
          [Op.iset (functorObj g A w) (Key.uid w.uid), Op.iset (functorObj g A w) (Key.gid w.gid)])) →
      idxRun (I, c) L =
        some (adel (Key.gid w.gid) I ++ (if c = none then [(Key.committer, committerObj)] else [])
              ++ [(Key.dumper w.uid, dumperObj w.uid), (Key.loader w.gid, loaderObj w.gid),
                  (Key.uid w.uid, functorObj g A w), (Key.gid w.gid, functorObj g A w)], some Key.committer) := by
    intro pre L hpre hL
    rw [hL, idxRun_append, hstep12]
    exact hrest pre hpre
  split
  · exact key [Op.prepend (Key.uid w.uid) (stateKey g A w)] _ (fun ic => rfl) (by simp)
  · exact key [] _ (fun ic => rfl) (by simp)

end closed

end ForML.Flow
