/-
C14 — helper lemmas, part 6: the columns `lazy._Columns` extracts cover what every scan needs (`lazy_needs`).
Used by `ForML.Props.C14` (`C14_lazy_columns`).
-/
import ForML.Lemmas.C14Cols

namespace ForML.PushDown
open ForML.Dsl

mutual
theorem lazyF_covers : ∀ (f : Feature) (e : Elem), e ∈ elems f → isTable (inst e.1) = true → (inst e.1, e.2) ∈ lazyF f
  | .lit _, e, h, _ => by simp [elems] at h
  | .elem o n, e, h, ht => by
    simp only [elems, List.mem_singleton] at h
    subst h
    cases o with
    | table n fs => simp [lazyF, inst]
    | ref i nm =>
      cases i with
      | table n fs => simp [lazyF, inst]
      | _ => simp [inst, isTable] at ht
    | _ => simp [inst, isTable] at ht
  | .alias f _, e, h, ht => by
    simp only [elems] at h
    simpa [lazyF] using lazyF_covers f e h ht
  | .expr _ args, e, h, ht => by
    simp only [elems] at h
    simpa [lazyF] using lazyFs_covers args e h ht
  | .cast f _, e, h, ht => by
    simp only [elems] at h
    simpa [lazyF] using lazyF_covers f e h ht
  | .window _ _ _, e, h, _ => by simp [elems] at h
theorem lazyFs_covers : ∀ (fs : Features) (e : Elem), e ∈ elemsL fs → isTable (inst e.1) = true → (inst e.1, e.2) ∈ lazyFs fs
  | .nil, e, h, _ => by simp [elemsL] at h
  | .cons f fs, e, h, ht => by
    simp only [elemsL, List.mem_append] at h
    simp only [lazyFs, List.mem_append]
    rcases h with h | h
    · exact Or.inl (lazyF_covers f e h ht)
    · exact Or.inr (lazyFs_covers fs e h ht)
end


theorem elemsAll_toList : ∀ (fs : Features) (e : Elem), e ∈ elemsAll fs.toList ↔ e ∈ elemsL fs
  | .nil, e => by simp [elemsAll, Features.toList, elemsL]
  | .cons f fs, e => by
    have ih := elemsAll_toList fs e
    simp only [elemsAll] at ih
    simp [elemsAll, Features.toList, elemsL, ih]

theorem elemsAll_ordFeatures : ∀ (os : Orderings) (e : Elem), e ∈ elemsAll (ordFeatures os) →
    isTable (inst e.1) = true → (inst e.1, e.2) ∈ lazyOrd os
  | .nil, e, h, _ => by simp [elemsAll, ordFeatures] at h
  | .cons (.mk f d) os, e, h, ht => by
    simp only [elemsAll, ordFeatures, List.flatMap_cons, List.mem_append] at h
    simp only [lazyOrd, List.mem_append]
    rcases h with h | h
    · exact Or.inl (lazyF_covers f e h ht)
    · exact Or.inr (elemsAll_ordFeatures os e h ht)

theorem elemsAll_optList_lazy (c : FeatureOpt) (e : Elem) (h : e ∈ elemsAll (optList c))
    (ht : isTable (inst e.1) = true) : (inst e.1, e.2) ∈ lazyOpt c := by
  cases c with
  | none => simp [elemsAll, optList] at h
  | some f =>
    simp only [elemsAll, optList, List.flatMap_cons, List.flatMap_nil, List.append_nil] at h
    exact lazyF_covers f e h ht

/-- the elements of `Source.features` that stand for table columns are among `starCols` -/
theorem starCols_covers : ∀ (s : Source) (e : Elem), e ∈ elemsAll (features s) → isTable (inst e.1) = true →
    (inst e.1, e.2) ∈ starCols s
  | .table n fs, e, h, _ => by
    simp only [features, elemsAll, List.mem_flatMap, List.mem_map] at h
    obtain ⟨f, ⟨c, hc, rfl⟩, he⟩ := h
    simp only [elems, List.mem_singleton] at he
    subst he
    simp only [starCols, inst, List.mem_map]
    exact ⟨c, hc, rfl⟩
  | .ref i nm, e, h, ht => by
    simp only [features, elemsAll, List.mem_flatMap, List.mem_map] at h
    obtain ⟨f, ⟨c, hc, rfl⟩, he⟩ := h
    simp only [elems, List.mem_singleton] at he
    subst he
    cases i with
    | table n fs =>
      simp only [features, List.filterMap_map, List.mem_filterMap] at hc
      obtain ⟨c', hc', hn⟩ := hc
      simp only [Function.comp, nameOf, Option.some.injEq] at hn
      subst hn
      simp only [starCols, inst, List.mem_map]
      exact ⟨c', hc', rfl⟩
    | _ => simp [inst, isTable] at ht
  | .join l r _ _, e, h, ht => by
    simp only [features, elemsAll, List.flatMap_append, List.mem_append] at h
    simp only [starCols, List.mem_append]
    rcases h with h | h
    · exact Or.inl (starCols_covers l e h ht)
    · exact Or.inr (starCols_covers r e h ht)
  | .set l r _, e, h, ht => by
    simp only [features, elemsAll, List.flatMap_append, List.mem_append] at h
    simp only [starCols, List.mem_append]
    rcases h with h | h
    · exact Or.inl (starCols_covers l e h ht)
    · exact Or.inr (starCols_covers r e h ht)
  | .query src sel _ _ _ _ _, e, h, ht => by
    simp only [features] at h
    simp only [starCols]
    by_cases hs : sel.isEmpty = true
    · simp only [hs, if_true] at h ⊢
      exact starCols_covers src e h ht
    · simp only [hs] at h ⊢
      exact lazyFs_covers sel e ((elemsAll_toList sel e).mp h) ht

/-- the columns `L` cover the table columns behind the elements of `F` -/
def LCovers (L : List (Source × String)) (F : List Feature) : Prop :=
  ∀ e ∈ elemsAll F, isTable (inst e.1) = true → (inst e.1, e.2) ∈ L

theorem lcovers_append {L : List (Source × String)} {F G : List Feature} (hF : LCovers L F) (hG : LCovers L G) :
    LCovers L (F ++ G) := by
  intro e he ht
  rcases (by simpa [elemsAll, List.flatMap_append] using he : e ∈ elemsAll F ∨ e ∈ elemsAll G) with h | h
  · exact hF e h ht
  · exact hG e h ht

/-- every scan's needed columns are among the columns `lazy._Columns` extracts for its table -/
theorem lazy_needs : ∀ (s : Source) (F : List Feature) (L : List (Source × String)), LCovers L F →
    (∀ x ∈ lazyS s, x ∈ L) → Forall2 (fun need t => ∀ n ∈ need, (t, n) ∈ L) (needs F s) (scanTables s)
  | .table n fs, F, L, hF, _ => by
    simp only [needs, scanTables]
    refine .cons (fun c hc => ?_) .nil
    have := hF _ (mem_usedBy hc) (by simp [inst, isTable])
    simpa [inst] using this
  | .ref i nm, F, L, hF, hL => by
    simp only [needs, scanTables]
    by_cases ht : isTable i = true
    · simp only [ht, if_true]
      refine .cons (fun c hc => ?_) .nil
      have := hF _ (mem_usedBy hc) (by simp [inst, ht])
      simpa [inst] using this
    · simp only [ht]
      exact lazy_needs i F L hF (by simpa [lazyS] using hL)
  | .join l r k c, F, L, hF, hL => by
    simp only [needs, scanTables]
    simp only [lazyS, List.mem_append] at hL
    have hF' : LCovers L (F ++ optList c) :=
      lcovers_append hF (fun e he ht => hL _ (Or.inl (Or.inl (elemsAll_optList_lazy c e he ht))))
    exact (lazy_needs l _ L hF' (fun x hx => hL x (Or.inl (Or.inr hx)))).append
      (lazy_needs r _ L hF' (fun x hx => hL x (Or.inr hx)))
  | .set l r k, F, L, _, hL => by
    simp only [needs, scanTables]
    simp only [lazyS, List.mem_append] at hL
    have h0 : LCovers L [] := fun e he => by simp [elemsAll] at he
    exact (lazy_needs l [] L h0 (fun x hx => hL x (Or.inl hx))).append (lazy_needs r [] L h0 (fun x hx => hL x (Or.inr hx)))
  | .query src sel pre grp post ord rows, F, L, _, hL => by
    simp only [needs, scanTables]
    simp only [lazyS, List.mem_append] at hL
    refine lazy_needs src _ L ?_ (fun x hx => hL x (Or.inr hx))
    unfold queryFeatures
    refine lcovers_append (lcovers_append (lcovers_append (lcovers_append ?_ ?_) ?_) ?_) ?_
    · intro e he ht
      refine hL _ (Or.inl (Or.inl (Or.inl (Or.inl (Or.inl ?_)))))
      by_cases hs : sel.isEmpty = true
      · simp only [hs, if_true] at he ⊢
        exact starCols_covers src e he ht
      · simp only [hs] at he ⊢
        exact lazyFs_covers sel e ((elemsAll_toList sel e).mp he) ht
    · exact fun e he ht => hL _ (Or.inl (Or.inl (Or.inl (Or.inl (Or.inr (elemsAll_optList_lazy pre e he ht))))))
    · exact fun e he ht => hL _ (Or.inl (Or.inl (Or.inr (elemsAll_optList_lazy post e he ht))))
    · exact fun e he ht => hL _ (Or.inl (Or.inl (Or.inl (Or.inr (lazyFs_covers grp e ((elemsAll_toList grp e).mp he) ht)))))
    · exact fun e he ht => hL _ (Or.inl (Or.inr (elemsAll_ordFeatures ord e he ht)))

end ForML.PushDown
