/-
C02: which instructions a call of the single-function runner *executes*. `evalT` is `eval` instrumented with the
list of the raw terms (`Task.__call__` / `Get.__call__`) it invokes, in invocation order. Erasing the trace gives
back `eval` (so every theorem about values carries over); a replica served from its queue executes nothing; a
term without replica cells (a table without shared results) executes every one of its nodes exactly once, in
post-order, whatever the queues hold; in general nothing but nodes of the term is executed.
-/
import ForML.Lemmas.C02PyEval

namespace ForML.Flow.PyFunc
open ForML.Flow

mutual
/-- `eval` with the executed node keys recorded -/
def evalT (x : Val) : Term → Queues → Val × Queues × List Key
  | .raw k r, q => (r.call [x], q, [k])
  | .call k r bs, q =>
    let (vs, q', tr) := evalArgsT x bs q
    (r.call vs, q', tr ++ [k])
  | .replica k t n, q =>
    match q.get k with
    | v :: d => (v, q.set k d, [])
    | [] =>
      let (v, q', tr) := evalT x t q
      (v, q'.set k (q'.get k ++ List.replicate n v), tr)
def evalArgsT (x : Val) : List Term → Queues → List Val × Queues × List Key
  | [], q => ([], q, [])
  | b :: bs, q =>
    let (v, q', tr) := evalT x b q
    let (vs, q'', tr') := evalArgsT x bs q'
    (v :: vs, q'', tr ++ tr')
end

/-- the instructions one request executes, in execution order (`Expression.__call__` starts from empty queues) -/
def Term.executed (term : Term) (x : Val) : List Key := (evalT x term []).2.2

mutual
/-- the node keys of a term in post-order (a forked node once per replica cell) -/
def Term.nodes : Term → List Key
  | .raw k _ => [k]
  | .call k _ bs => Term.nodesL bs ++ [k]
  | .replica _ t _ => t.nodes
def Term.nodesL : List Term → List Key
  | [] => []
  | b :: bs => b.nodes ++ Term.nodesL bs
end

mutual
/-- no replica cell inside: no result of the table is shared -/
def Term.plain : Term → Bool
  | .raw _ _ => true
  | .call _ _ bs => Term.plainL bs
  | .replica _ _ _ => false
def Term.plainL : List Term → Bool
  | [] => true
  | b :: bs => b.plain && Term.plainL bs
end

theorem evalT_raw (x : Val) (k : Key) (r : Raw) (q : Queues) : evalT x (.raw k r) q = (r.call [x], q, [k]) := by
  rw [evalT]

theorem evalT_call (x : Val) (k : Key) (r : Raw) (bs : List Term) (q : Queues) :
    evalT x (.call k r bs) q =
      (r.call (evalArgsT x bs q).1, (evalArgsT x bs q).2.1, (evalArgsT x bs q).2.2 ++ [k]) := by
  rw [evalT]

theorem evalT_replica (x : Val) (k : Key) (t : Term) (n : Nat) (q : Queues) :
    evalT x (.replica k t n) q =
      match q.get k with
      | v :: d => (v, q.set k d, [])
      | [] => ((evalT x t q).1,
          (evalT x t q).2.1.set k ((evalT x t q).2.1.get k ++ List.replicate n (evalT x t q).1), (evalT x t q).2.2) := by
  rw [evalT]

theorem evalArgsT_nil (x : Val) (q : Queues) : evalArgsT x [] q = ([], q, []) := by rw [evalArgsT]

theorem evalArgsT_cons (x : Val) (b : Term) (bs : List Term) (q : Queues) :
    evalArgsT x (b :: bs) q =
      ((evalT x b q).1 :: (evalArgsT x bs (evalT x b q).2.1).1, (evalArgsT x bs (evalT x b q).2.1).2.1,
        (evalT x b q).2.2 ++ (evalArgsT x bs (evalT x b q).2.1).2.2) := by
  rw [evalArgsT]

mutual
/-- erasing the trace gives the evaluator of the model -/
theorem evalT_erase (x : Val) : ∀ (t : Term) (q : Queues), ((evalT x t q).1, (evalT x t q).2.1) = eval x t q
  | .raw k r, q => by rw [evalT_raw, eval_raw]
  | .call k r bs, q => by
    have h := evalArgsT_erase x bs q
    rw [evalT_call, eval_call, ← h]
  | .replica k t n, q => by
    have h := evalT_erase x t q
    rw [evalT_replica, eval_replica, ← h]
    cases q.get k <;> rfl
theorem evalArgsT_erase (x : Val) :
    ∀ (bs : List Term) (q : Queues), ((evalArgsT x bs q).1, (evalArgsT x bs q).2.1) = evalArgs x bs q
  | [], q => by rw [evalArgsT_nil, evalArgs_nil]
  | b :: bs, q => by
    have h1 := evalT_erase x b q
    have h2 := evalArgsT_erase x bs (evalT x b q).2.1
    rw [evalArgsT_cons, evalArgs_cons, ← h1, ← h2]
end

mutual
/-- a term without replica cells executes its nodes, each once, in post-order, and never touches the queues -/
theorem evalT_plain (x : Val) :
    ∀ (t : Term) (q : Queues), t.plain = true → (evalT x t q).2.2 = t.nodes ∧ (evalT x t q).2.1 = q
  | .raw k r, q, _ => by rw [evalT_raw]; exact ⟨by rw [Term.nodes], rfl⟩
  | .call k r bs, q, h => by
    rw [Term.plain] at h
    have h' := evalArgsT_plain x bs q h
    rw [evalT_call, Term.nodes]
    exact ⟨by rw [h'.1], h'.2⟩
  | .replica k t n, q, h => by rw [Term.plain] at h; exact absurd h (by decide)
theorem evalArgsT_plain (x : Val) :
    ∀ (bs : List Term) (q : Queues), Term.plainL bs = true →
      (evalArgsT x bs q).2.2 = Term.nodesL bs ∧ (evalArgsT x bs q).2.1 = q
  | [], q, _ => by rw [evalArgsT_nil]; exact ⟨by rw [Term.nodesL], rfl⟩
  | b :: bs, q, h => by
    rw [Term.plainL, Bool.and_eq_true] at h
    have h1 := evalT_plain x b q h.1
    have h2 := evalArgsT_plain x bs (evalT x b q).2.1 h.2
    rw [evalArgsT_cons, Term.nodesL]
    refine ⟨by rw [h1.1, h2.1], ?_⟩
    show (evalArgsT x bs (evalT x b q).2.1).2.1 = q
    rw [h2.2, h1.2]
end

mutual
/-- whatever the queues hold, only nodes of the term are executed -/
theorem evalT_sound (x : Val) : ∀ (t : Term) (q : Queues) (k : Key), k ∈ (evalT x t q).2.2 → k ∈ t.nodes
  | .raw k r, q, k', h => by rw [evalT_raw] at h; rw [Term.nodes]; exact h
  | .call k r bs, q, k', h => by
    rw [evalT_call] at h
    rw [Term.nodes]
    rcases List.mem_append.1 h with h | h
    · exact List.mem_append.2 (.inl (evalArgsT_sound x bs q k' h))
    · exact List.mem_append.2 (.inr h)
  | .replica k t n, q, k', h => by
    rw [evalT_replica] at h
    rw [Term.nodes]
    cases hq : q.get k with
    | nil => rw [hq] at h; exact evalT_sound x t q k' h
    | cons v d => rw [hq] at h; simp at h
theorem evalArgsT_sound (x : Val) :
    ∀ (bs : List Term) (q : Queues) (k : Key), k ∈ (evalArgsT x bs q).2.2 → k ∈ Term.nodesL bs
  | [], q, k', h => by rw [evalArgsT_nil] at h; simp at h
  | b :: bs, q, k', h => by
    rw [evalArgsT_cons] at h
    rw [Term.nodesL]
    rcases List.mem_append.1 h with h | h
    · exact List.mem_append.2 (.inl (evalT_sound x b q k' h))
    · exact List.mem_append.2 (.inr (evalArgsT_sound x bs _ k' h))
end

/-- a replica cell whose queue holds a value executes nothing -/
theorem evalT_replica_served (x : Val) (k : Key) (t : Term) (n : Nat) (q : Queues) (v : Val) (d : List Val)
    (h : q.get k = v :: d) : evalT x (.replica k t n) q = (v, q.set k d, []) := by
  rw [evalT_replica, h]

/-- the first replica cell of a fork executes what its term executes and queues the value for the others -/
theorem evalT_replica_first (x : Val) (k : Key) (t : Term) (n : Nat) (q : Queues) (h : q.get k = []) :
    (evalT x (.replica k t n) q).2.2 = (evalT x t q).2.2 ∧
      (evalT x (.replica k t n) q).2.1.get k = (evalT x t q).2.1.get k ++ List.replicate n (evalT x t q).1 := by
  rw [evalT_replica, h]
  exact ⟨rfl, by simp [Queues.get_set]⟩

/-! ### at least once: every node of the term is executed by a request -/

mutual
/-- every replica cell named `k` wraps a term whose nodes are `C k` (all cells of one fork share one term) -/
def Term.cellsOk (C : Key → List Key) : Term → Bool
  | .raw _ _ => true
  | .call _ _ bs => Term.cellsOkL C bs
  | .replica k t _ => (t.nodes == C k) && t.cellsOk C
def Term.cellsOkL (C : Key → List Key) : List Term → Bool
  | [] => true
  | b :: bs => b.cellsOk C && Term.cellsOkL C bs
end

mutual
/-- the replica cells of a term: fork key and nodes of the wrapped term (outermost first) -/
def Term.cells : Term → List (Key × List Key)
  | .raw _ _ => []
  | .call _ _ bs => Term.cellsL bs
  | .replica k t _ => (k, t.nodes) :: t.cells
def Term.cellsL : List Term → List (Key × List Key)
  | [] => []
  | b :: bs => b.cells ++ Term.cellsL bs
end

/-- the nodes of the first cell named `k` (the candidate for `C` in `cellsOk`) -/
def Term.cellNodes (U : Term) (k : Key) : List Key :=
  match U.cells.find? (fun e => e.1 == k) with
  | some e => e.2
  | none => []

/-- all cells of one fork wrap terms with the same nodes -/
def Term.uniform (U : Term) : Bool := U.cellsOk U.cellNodes

/-- a queue holds values only if the nodes of the shared term were executed (earlier in this request) -/
def Served (C : Key → List Key) (q : Queues) (tr : List Key) : Prop :=
  ∀ k, q.get k ≠ [] → ∀ j ∈ C k, j ∈ tr

theorem Served.nil (C : Key → List Key) : Served C [] [] := by
  intro k h; simp [Queues.get] at h

mutual
theorem evalT_covers (C : Key → List Key) (x : Val) :
    ∀ (t : Term) (q : Queues) (tr0 : List Key), t.cellsOk C = true → Served C q tr0 →
      Served C (evalT x t q).2.1 (tr0 ++ (evalT x t q).2.2) ∧ ∀ j ∈ t.nodes, j ∈ tr0 ++ (evalT x t q).2.2
  | .raw k r, q, tr0, _, hs => by
    rw [evalT_raw, Term.nodes]
    refine ⟨fun k' hk j hj => List.mem_append.2 (.inl (hs k' hk j hj)), fun j hj => List.mem_append.2 (.inr hj)⟩
  | .call k r bs, q, tr0, hc, hs => by
    rw [Term.cellsOk] at hc
    have h := evalArgsT_covers C x bs q tr0 hc hs
    rw [evalT_call, Term.nodes]
    refine ⟨fun k' hk j hj => ?_, fun j hj => ?_⟩
    · rw [← List.append_assoc]; exact List.mem_append.2 (.inl (h.1 k' hk j hj))
    · rw [← List.append_assoc]
      rcases List.mem_append.1 hj with hj | hj
      · exact List.mem_append.2 (.inl (h.2 j hj))
      · exact List.mem_append.2 (.inr hj)
  | .replica k t n, q, tr0, hc, hs => by
    rw [Term.cellsOk, Bool.and_eq_true, beq_iff_eq] at hc
    rw [evalT_replica, Term.nodes]
    cases hq : q.get k with
    | cons v d =>
      simp only [List.append_nil]
      refine ⟨fun k' hk j hj => ?_, fun j hj => ?_⟩
      · rw [Queues.get_set] at hk
        by_cases he : k' = k
        · subst he; exact hs k' (by rw [hq]; simp) j hj
        · rw [if_neg he] at hk; exact hs k' hk j hj
      · exact hs k (by rw [hq]; simp) j (hc.1 ▸ hj)
    | nil =>
      have h := evalT_covers C x t q tr0 hc.2 hs
      refine ⟨fun k' hk j hj => ?_, h.2⟩
      show j ∈ tr0 ++ (evalT x t q).2.2
      by_cases he : k' = k
      · subst he; exact h.2 j (hc.1 ▸ hj)
      · have hk' : (evalT x t q).2.1.get k' ≠ [] := by
          intro h0; apply hk
          show (Queues.set _ _ _).get k' = []
          rw [Queues.get_set, if_neg he]; exact h0
        exact h.1 k' hk' j hj
theorem evalArgsT_covers (C : Key → List Key) (x : Val) :
    ∀ (bs : List Term) (q : Queues) (tr0 : List Key), Term.cellsOkL C bs = true → Served C q tr0 →
      Served C (evalArgsT x bs q).2.1 (tr0 ++ (evalArgsT x bs q).2.2) ∧
        ∀ j ∈ Term.nodesL bs, j ∈ tr0 ++ (evalArgsT x bs q).2.2
  | [], q, tr0, _, hs => by
    rw [evalArgsT_nil, Term.nodesL]
    exact ⟨by simpa using hs, fun j hj => by simp at hj⟩
  | b :: bs, q, tr0, hc, hs => by
    rw [Term.cellsOkL, Bool.and_eq_true] at hc
    have h1 := evalT_covers C x b q tr0 hc.1 hs
    have h2 := evalArgsT_covers C x bs (evalT x b q).2.1 (tr0 ++ (evalT x b q).2.2) hc.2 h1.1
    rw [evalArgsT_cons, Term.nodesL]
    refine ⟨?_, fun j hj => ?_⟩
    · show Served C (evalArgsT x bs (evalT x b q).2.1).2.1
        (tr0 ++ ((evalT x b q).2.2 ++ (evalArgsT x bs (evalT x b q).2.1).2.2))
      rw [← List.append_assoc]; exact h2.1
    · show j ∈ tr0 ++ ((evalT x b q).2.2 ++ (evalArgsT x bs (evalT x b q).2.1).2.2)
      rw [← List.append_assoc]
      rcases List.mem_append.1 hj with hj | hj
      · exact List.mem_append.2 (.inl (h1.2 j hj))
      · exact h2.2 j hj
end

/-- a request executes every node of the term at least once, and nothing else -/
theorem executed_iff_node (C : Key → List Key) (x : Val) (U : Term) (h : U.cellsOk C = true) (j : Key) :
    j ∈ U.executed x ↔ j ∈ U.nodes := by
  constructor
  · exact evalT_sound x U [] j
  · intro hj
    have := (evalT_covers C x U [] [] h (Served.nil C)).2 j hj
    simpa [Term.executed] using this

end ForML.Flow.PyFunc
