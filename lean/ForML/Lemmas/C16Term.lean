/-
C16 helper lemmas, part 2: a rank that every step of the serving transition system strictly decreases
(⇒ every schedule is finite, with an explicit bound).  Core Lean only.
-/
import ForML.Lemmas.C16
namespace ForML.Serving

/-- how far the task `id` still is from its result: 3 in the task queue, 2 held by a worker, 1 otherwise -/
def stage (e : Exec) (id : Nat) : Nat :=
  if id ∈ e.taskQ.map (·.id) then 3 else if id ∈ e.held.map (·.2.id) then 2 else 1

/-- `stage` over the two id lists -/
def stageL (tq hd : List Nat) (id : Nat) : Nat := if id ∈ tq then 3 else if id ∈ hd then 2 else 1

theorem stage_eq (e : Exec) (id : Nat) : stage e id = stageL (e.taskQ.map (·.id)) (e.held.map (·.2.id)) id := rfl

theorem stageL_append_ne {tq hd : List Nat} {id n : Nat} (h : id ≠ n) : stageL (tq ++ [n]) hd id = stageL tq hd id := by
  simp [stageL, h]

theorem stageL_take_ne {q hd : List Nat} {id n : Nat} (h : id ≠ n) : stageL q (n :: hd) id = stageL (n :: q) hd id := by
  simp [stageL, h]

theorem stageL_take_eq {q hd : List Nat} {n : Nat} (h : n ∉ q) : stageL q (n :: hd) n = 2 ∧ stageL (n :: q) hd n = 3 := by
  simp [stageL, h]

theorem stageL_congr_held {tq hd hd' : List Nat} {id : Nat} (h : id ∈ hd' ↔ id ∈ hd) :
    stageL tq hd' id = stageL tq hd id := by
  simp [stageL, h]

theorem stageL_finish_eq {tq hd hd' : List Nat} {n : Nat} (h1 : n ∉ tq) (h2 : n ∈ hd) (h3 : n ∉ hd') :
    stageL tq hd' n = 1 ∧ stageL tq hd n = 2 := by
  simp [stageL, h1, h2, h3]

theorem stage_congr {e e' : Exec} (h1 : e'.taskQ = e.taskQ) (h2 : e'.held = e.held) (id : Nat) :
    stage e' id = stage e id := by
  rw [stage_eq, stage_eq, h1, h2]

theorem stage_le (e : Exec) (id : Nat) : stage e id ≤ 3 := by
  unfold stage; split
  · omega
  · split <;> omega

theorem stage_pos (e : Exec) (id : Nat) : 1 ≤ stage e id := by
  unfold stage; split
  · omega
  · split <;> omega

/-- number of steps caller can still take part in, as a function of its phase -/
def phaseRank (execs : Nat → Exec) : Phase → Nat
  | .fresh => 13 | .d0 => 12 | .d1 => 11 | .d2 _ => 10 | .d3 _ => 9 | .d4 _ => 8 | .resolved => 7
  | .submitted i id => 3 + stage (execs i) id
  | .responding _ => 1
  | .done => 0

def rank (s : State) (c : Nat) : Nat := phaseRank s.execs (s.phase c)

def measure (n : Nat) (s : State) : Nat := ((List.range n).map (rank s)).sum

theorem sum_map_le {l : List Nat} {f g : Nat → Nat} (hle : ∀ x ∈ l, g x ≤ f x) :
    (l.map g).sum ≤ (l.map f).sum := by
  induction l with
  | nil => simp
  | cons a t ih =>
    simp only [List.map_cons, List.sum_cons]
    have ha := hle a (by simp)
    have := ih (fun x hx => hle x (List.mem_cons_of_mem _ hx))
    omega

theorem sum_map_lt {l : List Nat} {f g : Nat → Nat} (hle : ∀ x ∈ l, g x ≤ f x) {c : Nat} (hc : c ∈ l)
    (hlt : g c < f c) : (l.map g).sum < (l.map f).sum := by
  induction l with
  | nil => cases hc
  | cons a t ih =>
    simp only [List.map_cons, List.sum_cons]
    have ha := hle a (by simp)
    rcases List.mem_cons.1 hc with rfl | hc'
    · have := sum_map_le (l := t) (f := f) (g := g) (fun x hx => hle x (List.mem_cons_of_mem _ hx))
      omega
    · have := ih (fun x hx => hle x (List.mem_cons_of_mem _ hx)) hc'
      omega

variable {cfg : Config} {s s' : State}

/-- a step that moves one caller to a phase of lower rank and leaves the executors alone -/
theorem rank_phase_only {c : Nat} {p : Phase} (he : s'.execs = s.execs) (hp : s'.phase = upd s.phase c p)
    (hlt : phaseRank s.execs p < phaseRank s.execs (s.phase c)) :
    (∀ x, rank s' x ≤ rank s x) ∧ rank s' c < rank s c := by
  constructor
  · intro x
    by_cases hx : x = c
    · subst hx; simp only [rank, he, hp, upd_same]; omega
    · simp [rank, he, hp, upd, hx]
  · simp only [rank, he, hp, upd_same]; exact hlt

/-- a step that changes executor `i` only in a way no task's stage grows, and strictly lowers the rank of `c` -/
theorem rank_exec {i c : Nat} {e' : Exec} {ph : Nat → Phase}
    (he : s'.execs = upd s.execs i e') (hp : ∀ x, x ≠ c → s'.phase x = s.phase x)
    (hst : ∀ x id, x ≠ c → s.phase x = .submitted i id → stage e' id ≤ stage (s.execs i) id)
    (hc : rank s' c < rank s c) :
    (∀ x, rank s' x ≤ rank s x) ∧ rank s' c < rank s c := by
  refine ⟨fun x => ?_, hc⟩
  by_cases hx : x = c
  · subst hx; omega
  · simp only [rank, hp x hx, he]
    cases hph : s.phase x <;> simp only [phaseRank] <;> try omega
    rename_i j id
    by_cases hj : j = i
    · subst hj; simp only [upd_same]; have := hst x id hx hph; omega
    · simp [upd, hj]

theorem mem_erase_map_of_ne {α : Type} [BEq α] [LawfulBEq α] {l : List α} {a : α} {f : α → Nat} {x : Nat}
    (hx : x ≠ f a) : x ∈ (l.erase a).map f ↔ x ∈ l.map f := by
  simp only [List.mem_map]
  constructor
  · rintro ⟨y, hy, rfl⟩; exact ⟨y, List.mem_of_mem_erase hy, rfl⟩
  · rintro ⟨y, hy, rfl⟩
    have : y ≠ a := fun e => hx (e ▸ rfl)
    exact ⟨y, (List.mem_erase_of_ne this).2 hy, rfl⟩

/-- every step strictly lowers the rank of some caller of the configuration and raises nobody's -/
theorem rank_step (a : Step) (hI : Inv cfg s) (hs : step cfg s a = some s') :
    (∀ x, rank s' x ≤ rank s x) ∧ ∃ c, c < cfg.callers.length ∧ rank s' c < rank s c := by
  cases a with
  | arrive c =>
    obtain ⟨hlt, hf, rfl⟩ := step_arrive hs
    have := rank_phase_only (s := s) (s' := { s with phase := upd s.phase c .d0 }) (c := c) rfl rfl
      (by simp [hf, phaseRank])
    exact ⟨this.1, c, hlt, this.2⟩
  | desc c =>
    have hlt : ∀ p, s.phase c = p → p ≠ .fresh → c < cfg.callers.length :=
      fun p hp hn => hI.c.arrived_lt c (hp ▸ hn)
    rcases step_desc hs with ⟨hp, _, _, rfl⟩ | ⟨hp, _, _, rfl⟩ | ⟨hp, rfl⟩ | ⟨l, hp, rfl⟩ | ⟨u, hp, rfl⟩
      | ⟨u, hp, _, rfl⟩ | ⟨u, hp, _, rfl⟩
    · have := rank_phase_only (s := s) (s' := { s with phase := upd s.phase c .resolved }) (c := c) rfl rfl
        (by simp [hp, phaseRank])
      exact ⟨this.1, c, hlt _ hp (by simp), this.2⟩
    · have := rank_phase_only (s := s)
        (s' := { s with phase := upd s.phase c .d1, lock := if cfg.locked then some c else none }) (c := c) rfl rfl
        (by simp [hp, phaseRank])
      exact ⟨this.1, c, hlt _ hp (by simp), this.2⟩
    · have := rank_phase_only (s := s) (s' := { s with phase := upd s.phase c (.d2 cfg.inventory) }) (c := c) rfl rfl
        (by simp [hp, phaseRank])
      exact ⟨this.1, c, hlt _ hp (by simp), this.2⟩
    · have := rank_phase_only (s := s)
        (s' := { s with phase := upd s.phase c (.d3 (l.filter (fun a => a ∉ s.cache))) }) (c := c) rfl rfl
        (by simp [hp, phaseRank])
      exact ⟨this.1, c, hlt _ hp (by simp), this.2⟩
    · have := rank_phase_only (s := s)
        (s' := { s with phase := upd s.phase c (.d4 u), cache := s.cache ++ u }) (c := c) rfl rfl
        (by simp [hp, phaseRank])
      exact ⟨this.1, c, hlt _ hp (by simp), this.2⟩
    · have := rank_phase_only (s := s)
        (s' := { s with phase := upd s.phase c .resolved, lock := none }) (c := c) rfl rfl
        (by simp [hp, phaseRank])
      exact ⟨this.1, c, hlt _ hp (by simp), this.2⟩
    · have := rank_phase_only (s := s)
        (s' := { answer s c (.error .missingApp) with lock := none }) (c := c) (p := .done) rfl rfl
        (by simp [hp, phaseRank])
      exact ⟨this.1, c, hlt _ hp (by simp), this.2⟩
  | decodeFail c =>
    obtain ⟨hp, _, rfl⟩ := step_decodeFail hs
    have := rank_phase_only (s := s) (s' := answer s c (.error .unsupported)) (c := c) (p := .done) rfl rfl
      (by simp [hp, phaseRank])
    exact ⟨this.1, c, hI.c.arrived_lt c (by simp [hp]), this.2⟩
  | respond c =>
    obtain ⟨o, hp, rfl⟩ := step_respond hs
    have := rank_phase_only (s := s) (s' := answer s c (encode cfg c o)) (c := c) (p := .done) rfl rfl
      (by simp [hp, phaseRank])
    exact ⟨this.1, c, hI.c.arrived_lt c (by simp [hp]), this.2⟩
  | submit c =>
    obtain ⟨hp, _, ⟨_, rfl⟩ | ⟨_, hs'⟩⟩ := step_submit hs
    · have := rank_phase_only (s := s) (s' := answer s c (.error .notRunning)) (c := c) (p := .done) rfl rfl
        (by simp [hp, phaseRank])
      exact ⟨this.1, c, hI.c.arrived_lt c (by simp [hp]), this.2⟩
    · obtain ⟨i, hi⟩ : ∃ i, i = cfg.select (spec cfg c).app := ⟨_, rfl⟩
      rw [← hi] at hs'
      have hphase : s'.phase = upd s.phase c (.submitted i (s.execs i).next) := by rw [hs']
      obtain ⟨e', hexec, htq, hheld⟩ : ∃ e', s'.execs = upd s.execs i e'
          ∧ e'.taskQ = (s.execs i).taskQ ++ [⟨(s.execs i).next, entryOf cfg c⟩] ∧ e'.held = (s.execs i).held := by
        rw [hs']; exact ⟨_, rfl, rfl, rfl⟩
      have hc' : rank s' c < rank s c := by
        have := stage_le e' (s.execs i).next
        simp only [rank, hphase, hexec, upd_same, hp, phaseRank]; omega
      refine ⟨(rank_exec (ph := s.phase) (i := i) (c := c) hexec (fun x hx => by simp [hphase, upd, hx]) ?_ hc').1, c,
        hI.c.arrived_lt c (by simp [hp]), hc'⟩
      intro x id hx hph
      have hm := hI.c.sub_pend x i id hph
      have hlt := (hI.e i).keys_lt id (mem_keys_iff.2 ⟨x, hm⟩)
      have hne : id ≠ (s.execs i).next := by omega
      rw [stage_eq, stage_eq, htq, hheld, List.map_append]
      exact Nat.le_of_eq (stageL_append_ne hne)
  | take i w =>
    obtain ⟨_, _, _, t, q, hq, hs'⟩ := step_take hs
    obtain ⟨e', hexec, htq, hheld⟩ : ∃ e', s'.execs = upd s.execs i e' ∧ e'.taskQ = q
        ∧ e'.held = (w, t) :: (s.execs i).held := by rw [hs']; exact ⟨_, rfl, rfl, rfl⟩
    have hphase : s'.phase = s.phase := by rw [hs']
    have hfl : t.id ∈ inflight (s.execs i) := by simp [inflight, hq]
    obtain ⟨c, hc⟩ := mem_keys_iff.1 (((hI.e i).fl_keys _).1 hfl)
    have hph := hI.c.pend_phase i _ c hc
    have hnd := (hI.e i).fl_nodup
    simp only [inflight, hq, List.map_cons, List.cons_append, List.nodup_cons, List.mem_append, not_or] at hnd
    have hnq : t.id ∉ q.map (·.id) := hnd.1.1.1
    have hst : ∀ id, stage e' id = stageL (q.map (·.id)) (t.id :: (s.execs i).held.map (·.2.id)) id
        ∧ stage (s.execs i) id = stageL (t.id :: q.map (·.id)) ((s.execs i).held.map (·.2.id)) id := by
      intro id; rw [stage_eq, stage_eq, htq, hheld, hq]; exact ⟨rfl, rfl⟩
    have hc' : rank s' c < rank s c := by
      simp only [rank, hphase, hexec, hph, phaseRank, upd_same]
      rw [(hst t.id).1, (hst t.id).2, (stageL_take_eq hnq).1, (stageL_take_eq hnq).2]; omega
    refine ⟨(rank_exec (ph := s.phase) (i := i) (c := c) hexec (fun x _ => by rw [hphase]) ?_ hc').1, c,
      hI.c.arrived_lt c (by simp [hph]), hc'⟩
    intro x id _ _
    rw [(hst id).1, (hst id).2]
    by_cases hid : id = t.id
    · subst hid; rw [(stageL_take_eq hnq).1, (stageL_take_eq hnq).2]; omega
    · exact Nat.le_of_eq (stageL_take_ne hid)
  | finish i w =>
    obtain ⟨t, ht, hs'⟩ := step_finish hs
    obtain ⟨e', hexec, htq, hheld⟩ : ∃ e', s'.execs = upd s.execs i e' ∧ e'.taskQ = (s.execs i).taskQ
        ∧ e'.held = (s.execs i).held.erase (w, t) := by rw [hs']; exact ⟨_, rfl, rfl, rfl⟩
    have hphase : s'.phase = s.phase := by rw [hs']
    have hm := lookup_mem ht
    obtain ⟨c, hc⟩ := mem_keys_iff.1 (((hI.e i).fl_keys _).1 (mem_inflight_held hm))
    have hph := hI.c.pend_phase i _ c hc
    have hnd := (hI.e i).fl_nodup
    simp only [inflight] at hnd
    have hnd1 := (List.nodup_append.1 hnd).1
    have hheld' : t.id ∈ (s.execs i).held.map (·.2.id) := List.mem_map.2 ⟨(w, t), hm, rfl⟩
    have hnq : t.id ∉ (s.execs i).taskQ.map (·.id) :=
      fun h => (List.nodup_append.1 hnd1).2.2 _ h _ hheld' rfl
    have hnh : t.id ∉ ((s.execs i).held.erase (w, t)).map (·.2.id) := by
      have p : ((s.execs i).held.map (·.2.id)).Perm (t.id :: ((s.execs i).held.erase (w, t)).map (·.2.id)) :=
        (List.perm_cons_erase hm).map _
      have := p.nodup_iff.1 (List.nodup_append.1 hnd1).2.1
      exact (List.nodup_cons.1 this).1
    have hst : ∀ id, stage e' id = stageL ((s.execs i).taskQ.map (·.id))
        (((s.execs i).held.erase (w, t)).map (·.2.id)) id := by
      intro id; rw [stage_eq, htq, hheld]
    have hfin := stageL_finish_eq hnq hheld' hnh
    have hc' : rank s' c < rank s c := by
      simp only [rank, hphase, hexec, hph, phaseRank, upd_same]
      rw [hst t.id, stage_eq, hfin.1, hfin.2]; omega
    refine ⟨(rank_exec (ph := s.phase) (i := i) (c := c) hexec (fun x _ => by rw [hphase]) ?_ hc').1, c,
      hI.c.arrived_lt c (by simp [hph]), hc'⟩
    intro x id _ _
    rw [hst id, stage_eq]
    by_cases hid : id = t.id
    · subst hid; rw [hfin.1, hfin.2]; omega
    · exact Nat.le_of_eq (stageL_congr_held
        (mem_erase_map_of_ne (l := (s.execs i).held) (a := (w, t)) (f := fun y => y.2.id) (x := id) hid))
  | deliver i =>
    obtain ⟨_, r, q, hq, ⟨hl, _⟩ | ⟨c, err, hl, _, hs'⟩ | ⟨c, hl, _, hs'⟩⟩ := step_deliver hs
    · exfalso
      have : r.id ∈ inflight (s.execs i) := by simp [inflight, hq]
      exact lookup_none hl (((hI.e i).fl_keys _).1 this)
    · obtain ⟨e', hexec, htq, hheld⟩ : ∃ e', s'.execs = upd s.execs i e' ∧ e'.taskQ = (s.execs i).taskQ
          ∧ e'.held = (s.execs i).held := by rw [hs']; exact ⟨_, rfl, rfl, rfl⟩
      have hphase : s'.phase = upd s.phase c .done := by rw [hs']; rfl
      have hph := hI.c.pend_phase i _ c (lookup_mem hl)
      have hc' : rank s' c < rank s c := by
        have := stage_pos (s.execs i) r.id
        simp only [rank, hphase, hexec, hph, phaseRank, upd_same]; omega
      refine ⟨(rank_exec (ph := s.phase) (i := i) (c := c) hexec (fun x hx => by simp [hphase, upd, hx]) ?_ hc').1, c,
        hI.c.arrived_lt c (by simp [hph]), hc'⟩
      intro x id _ _; exact Nat.le_of_eq (stage_congr htq hheld id)
    · obtain ⟨e', hexec, htq, hheld⟩ : ∃ e', s'.execs = upd s.execs i e' ∧ e'.taskQ = (s.execs i).taskQ
          ∧ e'.held = (s.execs i).held := by rw [hs']; exact ⟨_, rfl, rfl, rfl⟩
      have hphase : s'.phase = upd s.phase c (.responding r.out) := by rw [hs']
      have hph := hI.c.pend_phase i _ c (lookup_mem hl)
      have hc' : rank s' c < rank s c := by
        have := stage_pos (s.execs i) r.id
        simp only [rank, hphase, hexec, hph, phaseRank, upd_same]; omega
      refine ⟨(rank_exec (ph := s.phase) (i := i) (c := c) hexec (fun x hx => by simp [hphase, upd, hx]) ?_ hc').1, c,
        hI.c.arrived_lt c (by simp [hph]), hc'⟩
      intro x id _ _; exact Nat.le_of_eq (stage_congr htq hheld id)

theorem measure_step (a : Step) (hI : Inv cfg s) (hs : step cfg s a = some s') :
    measure cfg.callers.length s' < measure cfg.callers.length s := by
  obtain ⟨hle, c, hc, hlt⟩ := rank_step a hI hs
  exact sum_map_lt (fun x _ => hle x) (List.mem_range.2 hc) hlt

theorem measure_run (sched : List Step) (hI : Inv cfg s) (hs : run cfg s sched = some s') :
    sched.length + measure cfg.callers.length s' ≤ measure cfg.callers.length s := by
  induction sched generalizing s with
  | nil => simp [Serving.run] at hs; subst hs; simp
  | cons a as ih =>
    simp only [Serving.run] at hs
    split at hs
    · cases hs
    · rename_i s1 h1
      have := ih (hI.step a h1) hs
      have := measure_step a hI h1
      simp only [List.length_cons]; omega

theorem measure_init (n : Nat) : measure n Serving.init = 13 * n := by
  have : ∀ l : List Nat, (l.map (rank Serving.init)).sum = 13 * l.length := by
    intro l
    induction l with
    | nil => simp
    | cons a t ih => simp only [List.map_cons, List.sum_cons, ih, List.length_cons]; simp [rank, Serving.init, phaseRank]; omega
  simpa [measure] using this (List.range n)

theorem rank_run_le (sched : List Step) (hI : Inv cfg s) (hs : run cfg s sched = some s') :
    ∀ x, rank s' x ≤ rank s x := by
  induction sched generalizing s with
  | nil => simp [Serving.run] at hs; subst hs; intro x; exact Nat.le_refl _
  | cons a as ih =>
    simp only [Serving.run] at hs
    split at hs
    · cases hs
    · rename_i s1 h1
      intro x
      have h2 := ih (hI.step a h1) hs x
      have h3 := (rank_step a hI h1).1 x
      omega

theorem rank_lt_iff (s : State) (c : Nat) : rank s c < 13 ↔ s.phase c ≠ .fresh := by
  unfold rank
  cases h : s.phase c <;> simp [phaseRank]
  rename_i i id
  have := stage_le (s.execs i) id
  omega

theorem run_append (cfg : Config) (s : State) (a b : List Step) :
    run cfg s (a ++ b) = (run cfg s a).bind (fun s1 => run cfg s1 b) := by
  induction a generalizing s with
  | nil => simp [Serving.run]
  | cons x xs ih =>
    simp only [List.cons_append, Serving.run]
    cases step cfg s x with
    | none => simp
    | some s1 => simpa using ih s1

/-- from every reachable state some continuation reaches a state where no step is enabled -/
theorem exists_completion (n : Nat) : ∀ s, Inv cfg s → measure cfg.callers.length s ≤ n →
    ∃ ext s', run cfg s ext = some s' ∧ stuck cfg s' = true := by
  induction n with
  | zero =>
    intro s hI hm
    cases hst : stuck cfg s with
    | true => exact ⟨[], s, rfl, hst⟩
    | false =>
      exfalso
      simp only [stuck, enabled] at hst
      cases hf : (candidates cfg (instsOf cfg)).filter (fun a => (step cfg s a).isSome) with
      | nil => simp [hf] at hst
      | cons a t =>
        have ha : a ∈ (candidates cfg (instsOf cfg)).filter (fun a => (step cfg s a).isSome) := by simp [hf]
        have hsome := (List.mem_filter.1 ha).2
        cases hs1 : step cfg s a with
        | none => simp [hs1] at hsome
        | some s1 => have := measure_step a hI hs1; omega
  | succ n ih =>
    intro s hI hm
    cases hst : stuck cfg s with
    | true => exact ⟨[], s, rfl, hst⟩
    | false =>
      simp only [stuck, enabled] at hst
      cases hf : (candidates cfg (instsOf cfg)).filter (fun a => (step cfg s a).isSome) with
      | nil => simp [hf] at hst
      | cons a t =>
        have ha : a ∈ (candidates cfg (instsOf cfg)).filter (fun a => (step cfg s a).isSome) := by simp [hf]
        have hsome := (List.mem_filter.1 ha).2
        cases hs1 : step cfg s a with
        | none => simp [hs1] at hsome
        | some s1 =>
          have hlt := measure_step a hI hs1
          obtain ⟨ext, s', hr, hstk⟩ := ih s1 (hI.step a hs1) (by omega)
          exact ⟨a :: ext, s', by simp [Serving.run, hs1, hr], hstk⟩

end ForML.Serving
