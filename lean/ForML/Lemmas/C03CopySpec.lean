/-
C03 — helper lemmas: `Segment.copy` of an apply region evaluates the region's function on another input.

Given a certified graph whose region reachable from `seg.head` is evaluable and fed from the region only, and an
alternative valuation `Wx` of that region (the same local equations, the group states of the actual valuation `W`,
another value at the head), `copySegment seg` succeeds; its copies carry the values of `Wx`, the ranks of their
originals, stay in the groups of their originals; the copy of the head is a fresh hole.
-/
import ForML.Lemmas.C03Copy

namespace ForML.Compose

/-- the local equation of region node `u` under the alternative values `Wx`, with the group states of `W` -/
def AltGood (g : Graph) (W Wx : World) (u : Nat) : Prop :=
  match g.kindOf u with
  | none => False
  | some .future => ∃ q, g.inputOf u 0 = some q ∧ ∀ i, Wx.σ ⟨u, i⟩ = Wx.σ q
  | some (.worker gid a szin szout) =>
    ∃ ins : Nat → PubRef, (∀ k, k < szin → g.inputOf u k = some (ins k)) ∧
      ∃ st, StateFor g W gid a (W.h u) st ∧
        ∀ i, Wx.σ ⟨u, i⟩ = portVal szout i (.apply a.tag st ((List.range szin).map (fun k => Wx.σ (ins k))))

/-- the valuation after the copy: a copy carries the alternative value and the rank of its original -/
def copyWorld (W Wx : World) (copies : List (Nat × Nat)) : World :=
  { σ := fun p => match origOf copies p.node with
      | some u => Wx.σ ⟨u, p.idx⟩
      | none => W.σ p
    h := fun n => match origOf copies n with
      | some u => W.h u
      | none => W.h n
    live := fun n => (∃ u, copies.lookup u = some n) ∨ W.live n }

structure CopyOk (g g' : Graph) (W Wx W' : World) (seg c : Segment) : Prop where
  inv : Inv g' W'
  wired : Wired g'
  frame : Frame g g'
  agree : Agree g.next W W'
  trains : g'.trains = g.trains
  head_ge : g.next ≤ c.head
  head_open : g'.isOpen c.head
  head_free : ∀ k, g'.inputOf c.head k = none
  head_live : W'.live c.head
  head_rank : W'.h c.head = W.h seg.head
  head_val : ∀ i, W'.σ ⟨c.head, i⟩ = Wx.σ ⟨seg.head, i⟩
  tail_ge : g.next ≤ c.tail
  tail_live : W'.live c.tail
  tail_val : W'.σ ⟨c.tail, 0⟩ = Wx.σ ⟨seg.tail, 0⟩
  /-- every new evaluable node is the copy of a node of the region: same kind (group!), same rank -/
  copies : ∀ n, g.next ≤ n → W'.live n → ∃ u, W.live u ∧ Reach g seg.head u ∧ g'.kindOf n = g.kindOf u ∧ W'.h n = W.h u ∧
    (u = seg.head ↔ n = c.head)
  /-- the copies subscribe to copies only -/
  closed : ∀ s k q, g.next ≤ s → g'.inputOf s k = some q → g.next ≤ q.node
  /-- the copy of the head reaches the copy of the tail -/
  reach : Reach g' c.head c.tail
  /-- the copy of the head is the only new hole -/
  notOpen : ∀ n, g.next ≤ n → W'.live n → n ≠ c.head → ¬ g'.isOpen n

theorem copySegment_spec {g : Graph} {W Wx : World} (hi : Inv g W) (hw : Wired g) (seg : Segment)
    (hhl : W.live seg.head) (hhk : g.kindOf seg.head = some .future)
    (hreg : ∀ n, Reach g seg.head n → n ≠ seg.head →
      W.live n ∧ ∀ k q, g.inputOf n k = some q → Reach g seg.head q.node)
    (htail : Reach g seg.head seg.tail)
    (hq0 : ∀ k q, g.inputOf seg.head k = some q → ¬ Reach g seg.head q.node)
    (hx : ∀ n, Reach g seg.head n → n ≠ seg.head → AltGood g W Wx n) :
    ∃ c g' W', Run (copySegment seg) g c g' ∧ CopyOk g g' W Wx W' seg c := by
  have hb := hi.bounded
  have hlt : ∀ n, W.live n → n < g.next := fun n hn => (hi.liveLt n hn).1
  have hhead_lt : seg.head < g.next := hlt _ hhl
  have htail_lt : seg.tail < g.next := by
    by_cases e : seg.tail = seg.head
    · rw [e]; exact hhead_lt
    · exact hlt _ (hreg _ htail e).1
  -- members, copies, graphs
  obtain ⟨M, hM⟩ : ∃ M, M = g.between seg.head seg.tail := ⟨_, rfl⟩
  obtain ⟨ns, hns⟩ : ∃ ns, ns = g.nodes.filter (fun n => M.contains n.uid) := ⟨_, rfl⟩
  obtain ⟨copies, hcopies⟩ : ∃ c, c = copyMap g.next ns := ⟨_, rfl⟩
  obtain ⟨g1, hg1⟩ : ∃ x, x = addCopies g ns := ⟨_, rfl⟩
  obtain ⟨g2, hg2⟩ : ∃ x, x = addEdges copies g1 g.edges := ⟨_, rfl⟩
  have memM : ∀ u, u ∈ M ↔ (∃ n ∈ g.nodes, n.uid = u) ∧ Reach g seg.head u ∧ Reach g u seg.tail := by
    intro u; rw [hM]; exact mem_between hb hw hhead_lt htail_lt
  have node_of_kind : ∀ u k, g.kindOf u = some k → ∃ n ∈ g.nodes, n.uid = u := by
    intro u k hk
    unfold Graph.kindOf at hk
    cases hf : g.nodes.find? (fun n => n.uid == u) with
    | none => simp [hf] at hk
    | some n =>
      have := List.find?_some hf
      exact ⟨n, List.mem_of_find?_eq_some hf, by simpa using this⟩
  have live_kind : ∀ u, W.live u → ∃ k, g.kindOf u = some k := by
    intro u hu
    have := hi.good u hu
    unfold GoodNode at this
    cases hk : g.kindOf u with
    | none => simp [hk] at this
    | some k => exact ⟨k, rfl⟩
  have headM : seg.head ∈ M := (memM _).mpr ⟨node_of_kind _ _ hhk, Reach.refl, htail⟩
  have tailM : seg.tail ∈ M := by
    refine (memM _).mpr ⟨?_, htail, Reach.refl⟩
    by_cases e : seg.tail = seg.head
    · rw [e]; exact node_of_kind _ _ hhk
    · obtain ⟨k, hk⟩ := live_kind _ (hreg _ htail e).1
      exact node_of_kind _ _ hk
  -- lookups in the copy map
  have lk_some : ∀ u, u ∈ M → ∃ c, copies.lookup u = some c := by
    intro u hu
    obtain ⟨⟨n, hn, hnu⟩, _, _⟩ := (memM u).mp hu
    rw [hcopies]
    apply copyMap_some
    refine ⟨n, ?_, hnu⟩
    rw [hns, List.mem_filter]
    exact ⟨hn, by rw [hnu]; simpa using hu⟩
  have lk_M : ∀ u c, copies.lookup u = some c → u ∈ M := by
    intro u c h
    rw [hcopies] at h
    obtain ⟨n, hn, hnu⟩ := copyMap_key _ _ _ _ h
    rw [hns, List.mem_filter] at hn
    rw [← hnu]; simpa using hn.2
  have lk_range : ∀ u c, copies.lookup u = some c → g.next ≤ c ∧ c < g2.next := by
    intro u c h
    rw [hcopies] at h
    have := copyMap_range _ _ _ _ h
    rw [hg2, addEdges_next, hg1, addCopies_next]
    exact this
  have lk_inj : ∀ u1 u2 c, copies.lookup u1 = some c → copies.lookup u2 = some c → u1 = u2 := by
    intro u1 u2 c h1 h2
    rw [hcopies] at h1 h2
    exact copyMap_inj _ _ _ _ _ h1 h2
  have lk_orig : ∀ u c, copies.lookup u = some c → origOf copies c = some u := by
    intro u c h; rw [hcopies] at h ⊢; exact copyMap_orig _ _ _ _ h
  have orig_old : ∀ n, n < g.next → origOf copies n = none := by
    intro n hn; rw [hcopies]; exact origOf_none_of_lt _ _ _ hn
  have lk_kind : ∀ u c, copies.lookup u = some c → g2.kindOf c = g.kindOf u := by
    intro u c h
    have huM := lk_M u c h
    rw [hg2, addEdges_kindOf, hg1]
    rw [hcopies] at h
    rw [copyMap_kind ns g u c hb.nodesLt h, hns, List.find?_filter]
    unfold Graph.kindOf
    congr 2
    funext a
    by_cases ha : a.uid = u
    · simp [ha, huM]
    · simp [ha]
  -- inputs in the final graph
  have in1 : ∀ u k, g1.inputOf u k = g.inputOf u k := by intro u k; rw [hg1, addCopies_inputOf]
  have in_copy : ∀ u c k, copies.lookup u = some c →
      g2.inputOf c k = (g.inputOf u k).bind (fun q => (copies.lookup q.node).map (fun p => (⟨p, q.idx⟩ : PubRef))) := by
    intro u c k h
    rw [hg2, inputOf_addEdges, in1, hb.inputOf_none (lk_range u c h).1 k, findSome_imgHit copies lk_inj u c k h g.edges hw.nodup]
    unfold Graph.inputOf
    cases g.edges.find? (fun e => e.sub == u && e.port == k) <;> simp
  have in_old : ∀ u k, u < g.next → g2.inputOf u k = g.inputOf u k := by
    intro u k hu
    rw [hg2, inputOf_addEdges, in1]
    have : g.edges.findSome? (imgHit copies u k) = none := by
      apply List.findSome?_eq_none_iff.mpr
      intro e _
      unfold imgHit edgeImage
      cases hs : copies.lookup e.sub with
      | none => simp
      | some s =>
        cases hp : copies.lookup e.pub.node with
        | none => simp
        | some p =>
          have := (lk_range _ _ hs).1
          have hne : ¬ (s = u ∧ e.port = k) := by omega
          simp [hne]
    rw [this]; simp
  have in_new : ∀ s k q, g.next ≤ s → g2.inputOf s k = some q → ∃ u q0, copies.lookup u = some s ∧ g.inputOf u k = some q0 ∧
      copies.lookup q0.node = some q.node ∧ q.idx = q0.idx := by
    intro s k q hs hq
    rw [hg2, inputOf_addEdges, in1, hb.inputOf_none hs k] at hq
    simp only [Option.none_or] at hq
    obtain ⟨e, he, hhit⟩ := List.exists_of_findSome?_eq_some hq
    unfold imgHit edgeImage at hhit
    cases hs' : copies.lookup e.sub with
    | none => simp [hs'] at hhit
    | some s' =>
      cases hp : copies.lookup e.pub.node with
      | none => simp [hs', hp] at hhit
      | some p =>
        simp only [hs', hp] at hhit
        split at hhit
        · rename_i hc
          cases hhit
          refine ⟨e.sub, e.pub, by rw [hs', hc.1], by rw [← hc.2]; exact hw.keys e he, hp, rfl⟩
        · cases hhit
  -- the run
  obtain ⟨ch, hch⟩ := lk_some _ headM
  obtain ⟨ct, hct⟩ := lk_some _ tailM
  have hfree1 : ∀ e ∈ g.edges, ∀ e', edgeImage copies e = some e' → g1.inputOf e'.sub e'.port = none := by
    intro e _ e' himg
    unfold edgeImage at himg
    cases hs : copies.lookup e.sub with
    | none => simp [hs] at himg
    | some s =>
      cases hp : copies.lookup e.pub.node with
      | none => simp [hs, hp] at himg
      | some p =>
        simp [hs, hp] at himg
        subst himg
        rw [in1]
        exact hb.inputOf_none (lk_range _ _ hs).1 _
  have hpw1 : g.edges.Pairwise (fun a b => ∀ a' b', edgeImage copies a = some a' → edgeImage copies b = some b' →
      ¬ (a'.sub = b'.sub ∧ a'.port = b'.port)) := by
    refine hw.nodup.imp ?_
    intro a b hab a' b' ha hb'
    unfold edgeImage at ha hb'
    cases hsa : copies.lookup a.sub with
    | none => simp [hsa] at ha
    | some sa =>
      cases hpa : copies.lookup a.pub.node with
      | none => simp [hsa, hpa] at ha
      | some pa =>
        cases hsb : copies.lookup b.sub with
        | none => simp [hsb] at hb'
        | some sb =>
          cases hpb : copies.lookup b.pub.node with
          | none => simp [hsb, hpb] at hb'
          | some pb =>
            simp [hsa, hpa] at ha
            simp [hsb, hpb] at hb'
            subst ha; subst hb'
            intro hk
            have e1 : sa = sb := hk.1
            have e2 : a.port = b.port := hk.2
            exact hab ⟨lk_inj _ _ _ hsa (e1 ▸ hsb), e2⟩
  have hrun : Run (copySegment seg) g ⟨ch, ct⟩ g2 := by
    have hce := run_copyEdges copies g.edges g1 hfree1 hpw1
    rw [← hg2] at hce
    have hcn := run_copyNodes ns g
    rw [← hcopies, ← hg1] at hcn
    subst hns hM
    unfold copySegment
    refine Run.bind (show Run GraphM.get g g g from rfl) (Run.bind hcn (Run.bind hce ?_))
    simp only [hch, hct]
    exact Run.pure _ _
  -- structure of the final graph
  have hn2 : g2.next = g.next + ns.length := by rw [hg2, addEdges_next, hg1, addCopies_next]
  have hf2 : Frame g g2 := by
    refine ⟨by omega, ?_, fun u k hu => in_old u k hu, ?_⟩
    · intro u hu
      rw [hg2, addEdges_kindOf, hg1]; exact addCopies_kindOf_old ns g u hu
    · intro gid _
      rw [hg2, addEdges_trainerOf, hg1, addCopies_trainerOf]
  have hb1 : Bounded g1 := by
    rw [hg1]
    apply addCopies_bounded ns g hb
    intro n hn gid a i o hk
    rw [hns] at hn
    exact hb.gidsLt n (List.mem_filter.mp hn).1 gid a i o hk
  have himg_sub : ∀ e ∈ g.edges, ∀ e', edgeImage copies e = some e' →
      (∃ u, copies.lookup u = some e'.sub) ∧ (∃ u, copies.lookup u = some e'.pub.node) := by
    intro e _ e' himg
    unfold edgeImage at himg
    cases hs : copies.lookup e.sub with
    | none => simp [hs] at himg
    | some s =>
      cases hp : copies.lookup e.pub.node with
      | none => simp [hs, hp] at himg
      | some p =>
        simp [hs, hp] at himg
        subst himg
        exact ⟨⟨_, hs⟩, ⟨_, hp⟩⟩
  have hn1 : g1.next = g2.next := by rw [hg2, addEdges_next]
  have hb2 : Bounded g2 := by
    rw [hg2]
    apply addEdges_bounded copies g.edges g1 hb1
    intro e he e' himg
    obtain ⟨⟨u, hu⟩, _⟩ := himg_sub e he e' himg
    rw [hn1]; exact (lk_range u _ hu).2
  have hw2 : Wired g2 := by
    rw [hg2]
    refine addEdges_wired copies g.edges g1 (by rw [hg1]; exact addCopies_wired ns g hw) ?_ hpw1
    intro e he e' himg
    refine ⟨hfree1 e he e' himg, ?_⟩
    obtain ⟨_, ⟨u, hu⟩⟩ := himg_sub e he e' himg
    rw [hn1]; exact (lk_range u _ hu).2
  have htr2 : g2.trains = g.trains := by rw [hg2, addEdges_trains, hg1, addCopies_trains]
  -- the valuation
  let W' := copyWorld W Wx copies
  have lk_none : ∀ u, u ∉ M → copies.lookup u = none := by
    intro u hu
    cases h : copies.lookup u with
    | none => rfl
    | some c => exact absurd (lk_M u c h) hu
  have σc : ∀ u c i, copies.lookup u = some c → W'.σ ⟨c, i⟩ = Wx.σ ⟨u, i⟩ := by
    intro u c i h
    show (match origOf copies c with | some u => Wx.σ ⟨u, i⟩ | none => W.σ ⟨c, i⟩) = _
    rw [lk_orig u c h]
  have hc : ∀ u c, copies.lookup u = some c → W'.h c = W.h u := by
    intro u c h
    show (match origOf copies c with | some u => W.h u | none => W.h c) = _
    rw [lk_orig u c h]
  have lc : ∀ u c, copies.lookup u = some c → W'.live c := fun u c h => Or.inl ⟨u, h⟩
  have σo : ∀ p : PubRef, p.node < g.next → W'.σ p = W.σ p := by
    intro p hp
    show (match origOf copies p.node with | some u => Wx.σ ⟨u, p.idx⟩ | none => W.σ p) = _
    rw [orig_old _ hp]
  have ho : ∀ n, n < g.next → W'.h n = W.h n := by
    intro n hn
    show (match origOf copies n with | some u => W.h u | none => W.h n) = _
    rw [orig_old _ hn]
  have hag : Agree g.next W W' := by
    intro n hn
    refine ⟨⟨?_, fun h => Or.inr h⟩, ho n hn, fun i => σo ⟨n, i⟩ hn⟩
    rintro (⟨u, hu⟩ | h)
    · have := (lk_range u n hu).1; omega
    · exact h
  have refOld : ∀ (q : PubRef) (r : Nat), RefOk W q r → RefOk W' q r ∧ W'.σ q = W.σ q := by
    intro q r hq
    have hlq := hlt _ hq.1
    exact ⟨⟨Or.inr hq.1, by rw [ho _ hlq]; exact hq.2⟩, σo q hlq⟩
  -- members: liveness, inputs
  have liveM : ∀ u, u ∈ M → W.live u := by
    intro u hu
    by_cases e : u = seg.head
    · rw [e]; exact hhl
    · exact (hreg u ((memM u).mp hu).2.1 e).1
  have inputM : ∀ u k q, u ∈ M → u ≠ seg.head → g.inputOf u k = some q → q.node ∈ M := by
    intro u k q hu hne hq
    obtain ⟨_, hr1, hr2⟩ := (memM u).mp hu
    have hrq : Reach g seg.head q.node := (hreg u hr1 hne).2 k q hq
    refine (memM _).mpr ⟨?_, hrq, ?_⟩
    · by_cases e : q.node = seg.head
      · rw [e]; exact node_of_kind _ _ hhk
      · obtain ⟨kd, hk⟩ := live_kind _ (hreg _ hrq e).1
        exact node_of_kind _ _ hk
    · obtain ⟨qn, qi⟩ := q
      exact reach_head_step hq hr2
  have head_in : ∀ k, g2.inputOf ch k = none := by
    intro k
    rw [in_copy _ _ k hch]
    cases hq : g.inputOf seg.head k with
    | none => rfl
    | some q0 =>
      have : q0.node ∉ M := fun hm => hq0 k q0 hq ((memM _).mp hm).2.1
      simp [Option.bind, lk_none _ this]
  -- the copies are good
  have good : ∀ n, W'.live n → g.next ≤ n → GoodNode g2 W' n := by
    intro c hl hge
    rcases hl with ⟨u, hu⟩ | hl
    · have huM := lk_M u c hu
      unfold GoodNode
      rw [lk_kind u c hu]
      by_cases ehead : u = seg.head
      · subst ehead
        have : c = ch := by rw [hch] at hu; cases hu; rfl
        rw [hhk, this, head_in 0]
        trivial
      · have hru := ((memM u).mp huM).2.1
        have hlu := (hreg u hru ehead).1
        have hgood := hi.good u hlu
        have halt := hx u hru ehead
        unfold GoodNode at hgood
        unfold AltGood at halt
        cases hk : g.kindOf u with
        | none => simp [hk] at hgood
        | some kd =>
          cases kd with
          | future =>
            simp only [hk] at hgood halt ⊢
            obtain ⟨q, hq, hσ⟩ := halt
            rw [hq] at hgood
            simp only at hgood
            obtain ⟨hrq, _⟩ := hgood
            obtain ⟨p, hp⟩ := lk_some _ (inputM u 0 q huM ehead hq)
            have hin : g2.inputOf c 0 = some ⟨p, q.idx⟩ := by
              rw [in_copy u c 0 hu, hq]; simp [Option.bind, hp]
            rw [hin]
            simp only
            refine ⟨⟨lc _ _ hp, ?_⟩, ?_⟩
            · show W'.h p < W'.h c
              rw [hc _ _ hp, hc _ _ hu]; exact hrq.2
            · intro i
              rw [σc u c i hu, σc q.node p q.idx hp]
              exact hσ i
          | worker gid a szin szout =>
            simp only [hk] at hgood halt ⊢
            obtain ⟨ins, hins, st, hst, hσ⟩ := halt
            obtain ⟨ins0, hins0, _⟩ := hgood
            have hp : ∀ k, k < szin → ∃ p, copies.lookup (ins k).node = some p :=
              fun k hk' => lk_some _ (inputM u k (ins k) huM ehead (hins k hk'))
            refine ⟨fun k => ⟨(copies.lookup (ins k).node).getD 0, (ins k).idx⟩, ?_, st, ?_, ?_⟩
            · intro k hk'
              obtain ⟨p, hpk⟩ := hp k hk'
              have e0 : ins0 k = ins k := by
                have := (hins0 k hk').1
                rw [hins k hk'] at this
                exact (Option.some.inj this).symm
              have hr0 := (hins0 k hk').2
              rw [e0] at hr0
              refine ⟨?_, ?_⟩
              · rw [in_copy u c k hu, hins k hk']
                simp [Option.bind, hpk]
              · simp only [hpk, Option.getD_some]
                refine ⟨lc _ _ hpk, ?_⟩
                show W'.h p < W'.h c
                rw [hc _ _ hpk, hc _ _ hu]; exact hr0.2
            · unfold GoodState
              rw [hc _ _ hu]
              refine hst.transport ?_ (fun q => refOld q _)
              rw [hg2, addEdges_trainerOf, hg1, addCopies_trainerOf]
            · intro i
              rw [σc u c i hu, hσ i]
              congr 2
              apply List.map_congr_left
              intro k hk'
              obtain ⟨p, hpk⟩ := hp k (List.mem_range.mp hk')
              simp only [hpk, Option.getD_some]
              rw [σc (ins k).node p (ins k).idx hpk]
    · have := hlt _ hl; omega
  have hinv : Inv g2 W' := by
    refine Inv.extend hi hf2 hb2 hag ?_ good
    intro n hl
    rcases hl with ⟨u, hu⟩ | hl
    · have huM := lk_M u n hu
      have := (hi.liveLt u (liveM u huM)).2
      refine ⟨(lk_range u n hu).2, ?_⟩
      rw [hc _ _ hu]; omega
    · have := hi.liveLt n hl
      rw [ho n this.1]; omega
  -- the copy of the head reaches the copy of the tail
  have hreach : ∀ n, Reach g seg.head n → Reach g n seg.tail → ∃ cn, copies.lookup n = some cn ∧ Reach g2 ch cn := by
    intro n hre
    induction hre with
    | refl => intro _; exact ⟨ch, hch, Reach.refl⟩
    | step hp he ih =>
      rename_i p s k i
      intro hst
      have hpt : Reach g p seg.tail := reach_head_step he hst
      obtain ⟨cp, hcp, hrcp⟩ := ih hpt
      have hrs : Reach g seg.head s := Reach.step hp he
      have hsM : s ∈ M := by
        refine (memM _).mpr ⟨?_, hrs, hst⟩
        by_cases e : s = seg.head
        · rw [e]; exact node_of_kind _ _ hhk
        · obtain ⟨kd, hk⟩ := live_kind _ (hreg _ hrs e).1
          exact node_of_kind _ _ hk
      obtain ⟨cs, hcs⟩ := lk_some _ hsM
      refine ⟨cs, hcs, Reach.step hrcp (k := k) (i := i) ?_⟩
      rw [in_copy s cs k hcs, he]
      simp [Option.bind, hcp]
  obtain ⟨ct', hct', hrt⟩ := hreach _ htail Reach.refl
  have ect : ct' = ct := by rw [hct] at hct'; cases hct'; rfl
  refine ⟨⟨ch, ct⟩, g2, W', hrun, hinv, hw2, hf2, hag, htr2, (lk_range _ _ hch).1, ?_, head_in, lc _ _ hch, hc _ _ hch,
    fun i => σc _ _ i hch, (lk_range _ _ hct).1, lc _ _ hct, σc _ _ 0 hct, ?_, ?_, ect ▸ hrt, ?_⟩
  · exact ⟨by rw [lk_kind _ _ hch]; exact hhk, head_in 0⟩
  · intro n hn hl
    rcases hl with ⟨u, hu⟩ | hl
    · have huM := lk_M u n hu
      refine ⟨u, liveM u huM, ((memM u).mp huM).2.1, lk_kind u n hu, hc u n hu, ?_⟩
      constructor
      · intro e; subst e; rw [hch] at hu; cases hu; rfl
      · intro e
        have e' : n = ch := e
        subst e'; exact lk_inj _ _ _ hu hch
    · have := hlt _ hl; omega
  · intro s k q hs hq
    obtain ⟨u, q0, _, _, hq0', _⟩ := in_new s k q hs hq
    exact (lk_range _ _ hq0').1

  · intro n hn hl hne ho
    rcases hl with ⟨u, hu⟩ | hl
    · have huM := lk_M u n hu
      have ehead : u ≠ seg.head := by
        intro e; subst e; rw [hch] at hu; cases hu; exact hne rfl
      have hru := ((memM u).mp huM).2.1
      have halt := hx u hru ehead
      unfold AltGood at halt
      have hk2 := lk_kind u n hu
      rw [Graph.isOpen, hk2] at ho
      cases hk : g.kindOf u with
      | none => simp [hk] at halt
      | some kd =>
        cases kd with
        | future =>
          simp only [hk] at halt
          obtain ⟨q, hq, _⟩ := halt
          obtain ⟨p, hp⟩ := lk_some _ (inputM u 0 q huM ehead hq)
          have : g2.inputOf n 0 = some ⟨p, q.idx⟩ := by
            rw [in_copy u n 0 hu, hq]; simp [Option.bind, hp]
          rw [this] at ho
          cases ho.2
        | worker gid a szin szout =>
          rw [hk] at ho
          cases ho.1
    · have := hlt _ hl; omega

end ForML.Compose
