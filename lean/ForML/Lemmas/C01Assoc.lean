/-
C01 — insertion-ordered association lists (`aget/aset/adel`), `CState.putAt`, and the `Contig` structure that
`itertools.groupby` needs (equal objects sit next to each other).
-/
import ForML.Model.Compile

namespace ForML.Flow

/-! ### aget / aset / adel -/

section assoc
variable {κ : Type} {α : Type} [DecidableEq κ]

theorem aget_nil (k : κ) : aget k ([] : List (κ × α)) = none := rfl

theorem aget_cons (k k' : κ) (v : α) (r : List (κ × α)) :
    aget k ((k', v) :: r) = if k' = k then some v else aget k r := rfl

theorem aget_append_singleton (k k' : κ) (v : α) (l : List (κ × α)) :
    aget k (l ++ [(k', v)]) = match aget k l with | some x => some x | none => if k' = k then some v else none := by
  induction l with
  | nil => simp [aget]
  | cons x r ih =>
    obtain ⟨k'', v''⟩ := x
    simp only [List.cons_append, aget_cons]
    split
    · rfl
    · exact ih

theorem mem_of_aget {k : κ} {v : α} {l : List (κ × α)} (h : aget k l = some v) : (k, v) ∈ l := by
  induction l with
  | nil => simp [aget] at h
  | cons x r ih =>
    obtain ⟨k', v'⟩ := x
    simp only [aget_cons] at h
    split at h
    · cases h; subst_vars; exact List.mem_cons_self
    · exact List.mem_cons_of_mem _ (ih h)

theorem aget_none_iff {k : κ} {l : List (κ × α)} : aget k l = none ↔ k ∉ l.map (·.1) := by
  induction l with
  | nil => simp [aget]
  | cons x r ih =>
    obtain ⟨k', v'⟩ := x
    simp only [aget_cons, List.map_cons, List.mem_cons, not_or]
    split
    · subst_vars; simp
    · rename_i hne
      rw [ih]
      constructor
      · intro h; exact ⟨fun e => hne e.symm, h⟩
      · intro h; exact h.2

theorem aget_of_mem_nodup {k : κ} {v : α} {l : List (κ × α)} (hnd : (l.map (·.1)).Nodup) (h : (k, v) ∈ l) :
    aget k l = some v := by
  induction l with
  | nil => cases h
  | cons x r ih =>
    obtain ⟨k', v'⟩ := x
    simp only [List.map_cons, List.nodup_cons] at hnd
    simp only [aget_cons]
    rcases List.mem_cons.mp h with heq | hr
    · cases heq; simp
    · split
      · subst_vars
        exact absurd (List.mem_map.mpr ⟨(k', v), hr, rfl⟩) hnd.1
      · exact ih hnd.2 hr

theorem mem_aset {k : κ} {v : α} {l : List (κ × α)} {x : κ × α} (h : x ∈ aset k v l) : x = (k, v) ∨ x ∈ l := by
  induction l with
  | nil => simp [aset] at h; exact Or.inl h
  | cons y r ih =>
    obtain ⟨k', v'⟩ := y
    simp only [aset] at h
    split at h
    · rcases List.mem_cons.mp h with h | h
      · exact Or.inl h
      · exact Or.inr (List.mem_cons_of_mem _ h)
    · rcases List.mem_cons.mp h with h | h
      · exact Or.inr (h ▸ List.mem_cons_self)
      · rcases ih h with h | h
        · exact Or.inl h
        · exact Or.inr (List.mem_cons_of_mem _ h)

theorem aget_aset (k k' : κ) (v : α) (l : List (κ × α)) :
    aget k' (aset k v l) = if k = k' then some v else aget k' l := by
  induction l with
  | nil => simp [aset, aget]
  | cons y r ih =>
    obtain ⟨k'', v''⟩ := y
    simp only [aset]
    split
    · subst_vars
      simp only [aget_cons]
      by_cases h : k'' = k' <;> simp [h]
    · rename_i hne
      simp only [aget_cons, ih]
      by_cases h1 : k'' = k' <;> by_cases h2 : k = k' <;> simp [h1, h2]
      subst h1 h2
      exact absurd rfl hne

theorem aset_keys_mem {k : κ} {v : α} {l : List (κ × α)} {k' : κ} :
    k' ∈ (aset k v l).map (·.1) ↔ k' = k ∨ k' ∈ l.map (·.1) := by
  induction l with
  | nil => simp [aset]
  | cons y r ih =>
    obtain ⟨k'', v''⟩ := y
    simp only [aset]
    split
    · subst_vars; simp
    · simp only [List.map_cons, List.mem_cons, ih]
      constructor
      · rintro (h | h | h)
        · exact Or.inr (Or.inl h)
        · exact Or.inl h
        · exact Or.inr (Or.inr h)
      · rintro (h | h | h)
        · exact Or.inr (Or.inl h)
        · exact Or.inl h
        · exact Or.inr (Or.inr h)

theorem mem_adel {k : κ} {l : List (κ × α)} {x : κ × α} (h : x ∈ adel k l) : x ∈ l := by
  induction l with
  | nil => simp [adel] at h
  | cons y r ih =>
    obtain ⟨k', v'⟩ := y
    simp only [adel] at h
    split at h
    · exact List.mem_cons_of_mem _ h
    · rcases List.mem_cons.mp h with h | h
      · exact h ▸ List.mem_cons_self
      · exact List.mem_cons_of_mem _ (ih h)

theorem aget_adel_ne {k k' : κ} (hne : k ≠ k') (l : List (κ × α)) : aget k' (adel k l) = aget k' l := by
  induction l with
  | nil => rfl
  | cons y r ih =>
    obtain ⟨k'', v''⟩ := y
    simp only [adel]
    split
    · subst_vars; simp [aget_cons, hne]
    · simp only [aget_cons, ih]

theorem adel_keys_sublist (k : κ) (l : List (κ × α)) : ((adel k l).map (·.1)).Sublist (l.map (·.1)) := by
  induction l with
  | nil => simp [adel]
  | cons y r ih =>
    obtain ⟨k', v'⟩ := y
    simp only [adel]
    split
    · exact List.sublist_cons_self _ _
    · simp only [List.map_cons]; exact ih.cons₂ _

theorem aget_adel_self {k : κ} {l : List (κ × α)} (hnd : (l.map (·.1)).Nodup) : aget k (adel k l) = none := by
  induction l with
  | nil => rfl
  | cons y r ih =>
    obtain ⟨k', v'⟩ := y
    simp only [List.map_cons, List.nodup_cons] at hnd
    simp only [adel]
    split
    · subst_vars; exact aget_none_iff.mpr hnd.1
    · rename_i hne
      simp only [aget_cons, hne, if_false]
      exact ih hnd.2

theorem mem_adel_of_ne {k : κ} {l : List (κ × α)} {x : κ × α} (h : x ∈ l) (hne : x.1 ≠ k) : x ∈ adel k l := by
  induction l with
  | nil => cases h
  | cons y r ih =>
    obtain ⟨k', v'⟩ := y
    simp only [adel]
    split
    · subst_vars
      rcases List.mem_cons.mp h with h | h
      · subst h; exact absurd rfl hne
      · exact h
    · rcases List.mem_cons.mp h with h | h
      · exact h ▸ List.mem_cons_self
      · exact List.mem_cons_of_mem _ (ih h)

end assoc

/-! ### CState.putAt -/

theorem putAt_length (args : List (Option Key)) (i : Nat) (x : Key) :
    (CState.putAt args i x).length = max args.length (i + 1) := by
  simp [CState.putAt]; omega

theorem putAt_getD (args : List (Option Key)) (i j : Nat) (x : Key) :
    (CState.putAt args i x).getD j none = if j = i then some x else args.getD j none := by
  unfold CState.putAt
  simp only [List.getD_eq_getElem?_getD, List.getElem?_set, List.length_append, List.length_replicate]
  by_cases hji : j = i
  · subst hji
    have : j < args.length + (j + 1 - args.length) := by omega
    simp [this]
  · have hne : ¬ i = j := fun h => hji h.symm
    simp only [hne, if_false, hji]
    by_cases hj : j < args.length
    · simp [List.getElem?_append_left hj]
    · rw [List.getElem?_append_right (by omega)]
      simp only [List.getElem?_replicate]
      have : args[j]? = none := List.getElem?_eq_none (by omega)
      rw [this]
      split <;> rfl

/-- the last slot of a non-empty argument list is filled (lists only grow up to the inserted index) -/
def LastSome (l : List (Option Key)) : Prop := l = [] ∨ ∃ a, l.getLast? = some (some a)

theorem lastSome_putAt {args : List (Option Key)} (h : LastSome args) (i : Nat) (x : Key) : LastSome (CState.putAt args i x) := by
  right
  by_cases hi : i + 1 < args.length
  · rcases h with h | ⟨a, ha⟩
    · subst h; simp at hi
    · refine ⟨a, ?_⟩
      unfold CState.putAt
      have h0 : i + 1 - args.length = 0 := by omega
      simp only [h0, List.replicate_zero, List.append_nil]
      rw [List.getLast?_eq_getElem?] at ha ⊢
      simp only [List.length_set, List.getElem?_set]
      have : ¬ i = args.length - 1 := by omega
      simp [this, ha]
  · refine ⟨x, ?_⟩
    unfold CState.putAt
    rw [List.getLast?_eq_getElem?]
    simp only [List.length_set, List.length_append, List.length_replicate, List.getElem?_set]
    have h1 : args.length + (i + 1 - args.length) - 1 = i := by omega
    have h2 : i < args.length + (i + 1 - args.length) := by omega
    simp [h1, h2]

/-- a list whose last slot is filled and whose filled slots are all below `b` is no longer than `b` -/
theorem LastSome.length_le {l : List (Option Key)} (h : LastSome l) {b : Nat}
    (hb : ∀ j a, l.getD j none = some a → j < b) : l.length ≤ b := by
  rcases h with h | ⟨a, ha⟩
  · subst h; simp
  · rw [List.getLast?_eq_getElem?] at ha
    have := hb (l.length - 1) a (by simp [List.getD_eq_getElem?_getD, ha])
    omega

/-! ### Contig: equal elements are adjacent -/

def Contig : List Key → Prop
  | [] => True
  | x :: r => Contig r ∧ (x ∈ r → r.head? = some x)

theorem Contig.append_fresh {l : List Key} (h : Contig l) {y : Key} (hy : y ∉ l ∨ l.getLast? = some y) :
    Contig (l ++ [y]) := by
  induction l with
  | nil => exact ⟨trivial, fun h => by cases h⟩
  | cons x r ih =>
    obtain ⟨hr, hx⟩ := h
    have hy' : y ∉ r ∨ r.getLast? = some y := by
      rcases hy with hy | hy
      · exact Or.inl (fun h => hy (List.mem_cons_of_mem _ h))
      · cases r with
        | nil => exact Or.inl (fun h => by cases h)
        | cons z r' => right; simpa [List.getLast?_cons_cons] using hy
    refine ⟨ih hr hy', ?_⟩
    intro hmem
    rcases List.mem_append.mp hmem with hmem | hmem
    · have := hx hmem
      cases r with
      | nil => cases hmem
      | cons z r' => simpa using this
    · simp only [List.mem_singleton] at hmem
      subst hmem
      cases r with
      | nil => simp
      | cons z r' =>
        rcases hy with hy | hy
        · exact absurd List.mem_cons_self hy
        · have : x ∈ z :: r' := by
            rw [List.getLast?_cons_cons] at hy
            exact List.mem_of_getLast? hy
          have := hx this
          simpa using this

theorem Contig.sublist_erase {l : List Key} (h : Contig l) (i : Nat) : Contig (l.eraseIdx i) := by
  induction l generalizing i with
  | nil => simpa using h
  | cons x r ih =>
    obtain ⟨hr, hx⟩ := h
    cases i with
    | zero => simpa using hr
    | succ i =>
      simp only [List.eraseIdx_cons_succ]
      refine ⟨ih hr i, ?_⟩
      intro hmem
      have hxr : x ∈ r := (List.eraseIdx_sublist r i).subset hmem
      have hhead := hx hxr
      cases r with
      | nil => cases hxr
      | cons z r' =>
        simp only [List.head?_cons, Option.some.injEq] at hhead
        subst hhead
        cases i with
        | zero =>
          simp only [List.eraseIdx_cons_zero] at hmem ⊢
          exact hr.2 hmem
        | succ i => simp

end ForML.Flow
