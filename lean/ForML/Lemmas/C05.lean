/-
Helper lemmas for C05: lookups after micro-operations (frame lemmas), crash lists, tree well-formedness.
-/
import ForML.Model.Fs
import ForML.Model.Registry

namespace ForML.Fs

theorem get_set (fs : Fs) (k q : Path) (n : Node) :
    get (set fs k n) q = if q = k then some n else get fs q := by
  simp [get, set]

theorem get_del (fs : Fs) (k q : Path) : get (del fs k) q = if q = k then none else get fs q := by
  induction fs with
  | nil => simp [get, del]
  | cons e r ih =>
    simp only [del, List.filter_cons] at ih ⊢
    by_cases hek : e.1 = k
    · simp only [hek, bne_self_eq_false, Bool.false_eq_true, if_false, ih, get]
      by_cases hq : q = k <;> simp [hq]
    · have : (e.1 != k) = true := by simp [hek]
      simp only [this, if_true, get, ih]
      by_cases hq : q = e.1
      · subst hq; simp [hek]
      · simp [hq]

theorem get_rmtree (fs : Fs) (p q : Path) :
    get (fs.filter (fun e => !(p <+: e.1))) q = if p <+: q then none else get fs q := by
  induction fs with
  | nil => simp [get]
  | cons e r ih =>
    simp only [List.filter_cons]
    by_cases hpe : p <+: e.1
    · simp only [hpe, decide_true, Bool.not_true, Bool.false_eq_true, if_false, ih, get]
      by_cases hq : q = e.1
      · subst hq; simp [hpe]
      · simp [hq]
    · simp only [hpe, decide_false, Bool.not_false, if_true, get, ih]
      by_cases hq : q = e.1
      · subst hq; simp [hpe]
      · simp [hq]

theorem swap_eq_iff (p q k e : Path) (hp : ¬ p <+: k) (hq : ¬ q <+: k) :
    (k = swapKey p q e) ↔ (k = e) := by
  unfold swapKey
  by_cases h1 : p <+: e
  · simp only [h1, if_true]
    constructor
    · intro h; exact absurd (h ▸ List.prefix_append _ _) hq
    · intro h; exact absurd (h ▸ h1) hp
  · simp only [h1, if_false]
    by_cases h2 : q <+: e
    · simp only [h2, if_true]
      constructor
      · intro h; exact absurd (h ▸ List.prefix_append _ _) hp
      · intro h; exact absurd (h ▸ h2) hq
    · simp [h2]

theorem get_moveTree_other (fs : Fs) (p q k : Path) (hp : ¬ p <+: k) (hq : ¬ q <+: k) :
    get (moveTree fs p q) k = get fs k := by
  induction fs with
  | nil => rfl
  | cons e r ih =>
    simp only [moveTree, List.map_cons, get] at ih ⊢
    rw [ih]
    by_cases h : k = e.1
    · have := (swap_eq_iff p q k e.1 hp hq).mpr h
      simp [h, ← this]
    · have : ¬ k = swapKey p q e.1 := fun h' => h ((swap_eq_iff p q k e.1 hp hq).mp h')
      simp [h, this]

/-- the paths whose lookup an operation may change -/
def touches : Op → Path → Prop
  | .mkdir p, k => k = p
  | .createEmpty p, k => k = p
  | .append p _, k => k = p
  | .copyFile p _, k => k = p
  | .rename p q, k => p <+: k ∨ q <+: k
  | .rmtree p, k => p <+: k

/-- **frame**: an operation changes nothing at a path it does not touch -/
theorem step_frame (fs fs' : Fs) (op : Op) (k : Path) (h : step fs op = some fs')
    (hk : ¬ touches op k) : get fs' k = get fs k := by
  cases op with
  | mkdir p =>
    simp only [step] at h; split at h <;> cases h
    simp only [touches] at hk; simp [get_set, hk]
  | createEmpty p =>
    simp only [step] at h; split at h <;> cases h
    simp only [touches] at hk; simp [get_set, hk]
  | copyFile p b =>
    simp only [step] at h; split at h <;> cases h
    simp only [touches] at hk; simp [get_set, hk]
  | append p b =>
    simp only [step] at h
    split at h
    · cases h; simp only [touches] at hk; simp [get_set, hk]
    · cases h
  | rename p q =>
    simp only [touches, not_or] at hk
    have hkp : k ≠ p := fun e => hk.1 (e ▸ List.prefix_refl _)
    have hkq : k ≠ q := fun e => hk.2 (e ▸ List.prefix_refl _)
    simp only [step] at h
    split at h
    · split at h <;> cases h
      simp [get_set, get_del, hkp, hkq]
    · split at h <;> cases h
      exact get_moveTree_other fs p q k hk.1 hk.2
    · cases h
  | rmtree p =>
    simp only [touches] at hk
    simp only [step] at h
    split at h
    · cases h; simp [get_rmtree, hk]
    · cases h; rfl

theorem run_frame (ops : List Op) (fs fs' : Fs) (k : Path) (h : run fs ops = some fs')
    (hk : ∀ op ∈ ops, ¬ touches op k) : get fs' k = get fs k := by
  induction ops generalizing fs with
  | nil => simp [run] at h; subst h; rfl
  | cons op rest ih =>
    simp only [run] at h
    split at h
    · rename_i fs1 h1
      rw [ih fs1 h (fun o ho => hk o (by simp [ho])), step_frame fs fs1 op k h1 (hk op (by simp))]
    · cases h

theorem runSome_run (ops : List Op) (fs : Fs) : (runSome fs ops).2 = true → run fs ops = some (runSome fs ops).1 := by
  induction ops generalizing fs with
  | nil => intro _; rfl
  | cons op rest ih =>
    simp only [runSome, run]
    cases step fs op with
    | some fs1 => exact ih fs1
    | none => simp

/-! ### crash lists -/

/-- every operation of a crash list touches only what some operation of the full list touches -/
theorem crashOps_touches (ops : List Op) (k : Nat) (cut : Option Nat) :
    ∀ op ∈ crashOps ops k cut, ∃ op' ∈ ops, ∀ key, touches op key → touches op' key := by
  intro op hop
  simp only [crashOps, List.mem_append] at hop
  rcases hop with hop | hop
  · exact ⟨op, List.mem_of_mem_take hop, fun _ h => h⟩
  · cases cut with
    | none => simp at hop
    | some c =>
      cases hk : ops[k]? with
      | none => simp [hk] at hop
      | some o =>
        have hmem : o ∈ ops := List.mem_of_getElem? hk
        cases o with
        | append p b =>
          simp [hk] at hop; subst hop
          exact ⟨_, hmem, fun _ h => h⟩
        | mkdir p => simp [hk] at hop
        | createEmpty p => simp [hk] at hop
        | rename p q => simp [hk] at hop
        | copyFile p b => simp [hk] at hop
        | rmtree p => simp [hk] at hop

/-- a call ending in an atomic `last` step (not an `append`): a crash is a crash of what precedes it, or the
complete call -/
theorem crashOps_snoc (A : List Op) (last : Op) (hl : ∀ p b, last ≠ .append p b) (k : Nat) (cut : Option Nat) :
    crashOps (A ++ [last]) k cut = (if k ≤ A.length then crashOps A k cut else A ++ [last]) := by
  unfold crashOps
  by_cases h1 : k < A.length
  · have : k ≤ A.length := Nat.le_of_lt h1
    simp only [this, if_true]
    rw [List.take_append_of_le_length this, List.getElem?_append_left h1]
  · by_cases h2 : k = A.length
    · subst h2
      simp only [Nat.le_refl, if_true, List.take_length]
      rw [List.take_append_of_le_length (Nat.le_refl _), List.take_length]
      have e1 : (A ++ [last])[A.length]? = some last := by simp
      have e2 : A[A.length]? = none := by simp
      rw [e1, e2]
      cases cut with
      | none => rfl
      | some c =>
        cases last with
        | append p b => exact absurd rfl (hl p b)
        | mkdir p => rfl
        | createEmpty p => rfl
        | rename p q => rfl
        | copyFile p b => rfl
        | rmtree p => rfl
    · have h3 : ¬ k ≤ A.length := by omega
      simp only [h3, if_false]
      have h4 : (A ++ [last]).length ≤ k := by simp; omega
      rw [List.take_of_length_le h4, List.getElem?_eq_none h4]
      cases cut <;> simp

/-! ### running lists of operations -/

theorem run_append (A B : List Op) (fs : Fs) :
    run fs (A ++ B) = (run fs A).bind (fun f => run f B) := by
  induction A generalizing fs with
  | nil => rfl
  | cons a r ih =>
    simp only [List.cons_append, run]
    cases step fs a with
    | none => rfl
    | some f => exact ih f

theorem run_runSome (ops : List Op) (fs x : Fs) (h : run fs ops = some x) : runSome fs ops = (x, true) := by
  induction ops generalizing fs with
  | nil => simp [run] at h; subst h; rfl
  | cons a r ih =>
    simp only [run] at h
    simp only [runSome]
    cases hs : step fs a with
    | none => rw [hs] at h; cases h
    | some f => rw [hs] at h; exact ih f h

theorem runSome_false (ops : List Op) (fs : Fs) (h : (runSome fs ops).2 = false) : run fs ops = none := by
  cases hr : run fs ops with
  | none => rfl
  | some x => rw [run_runSome ops fs x hr] at h; cases h

theorem runSome_append_of_run (A B : List Op) (fs f : Fs) (h : run fs A = some f) :
    runSome fs (A ++ B) = runSome f B := by
  induction A generalizing fs with
  | nil => simp [run] at h; subst h; rfl
  | cons a r ih =>
    simp only [run] at h
    simp only [List.cons_append, runSome]
    cases hs : step fs a with
    | none => rw [hs] at h; cases h
    | some g => rw [hs] at h; exact ih g h

/-- `runSome` stops where the first operation fails: its tree is the result of a prefix that runs -/
theorem runSome_prefix (ops : List Op) (fs : Fs) : ∃ j, run fs (ops.take j) = some (runSome fs ops).1 := by
  induction ops generalizing fs with
  | nil => exact ⟨0, rfl⟩
  | cons a r ih =>
    simp only [runSome]
    cases hs : step fs a with
    | none => exact ⟨0, rfl⟩
    | some g =>
      obtain ⟨j, hj⟩ := ih g
      exact ⟨j + 1, by simp [run, hs, hj]⟩

theorem crashOps_none (ops : List Op) (k : Nat) : crashOps ops k none = ops.take k := by
  simp [crashOps]

theorem crashOps_length_le (ops : List Op) (k : Nat) (cut : Option Nat) :
    (crashOps ops k cut).length ≤ (ops.take k).length + 1 := by
  unfold crashOps
  simp only [List.length_append]
  split <;> simp

/-- a crash list that does not run to its end behaves like a shorter crash list that does -/
theorem runSome_crashOps_exists (L : List Op) (fs : Fs) (k : Nat) (cut : Option Nat) :
    ∃ k' cut', run fs (crashOps L k' cut') = some (runSome fs (crashOps L k cut)).1 := by
  obtain ⟨j, hj⟩ := runSome_prefix (crashOps L k cut) fs
  by_cases hle : j ≤ (L.take k).length
  · refine ⟨min j k, none, ?_⟩
    rw [crashOps_none]
    have : (crashOps L k cut).take j = L.take (min j k) := by
      unfold crashOps
      rw [List.take_append_of_le_length hle, List.take_take]
    rw [this] at hj; exact hj
  · refine ⟨k, cut, ?_⟩
    have hlen := crashOps_length_le L k cut
    have : (crashOps L k cut).take j = crashOps L k cut := List.take_of_length_le (by omega)
    rw [this] at hj; exact hj

/-- a crash list of a prefix is a crash list of the whole -/
theorem crashOps_take (A : List Op) (j k : Nat) (cut : Option Nat) :
    crashOps (A.take j) k cut = crashOps A (min k j) (if k < j then cut else none) := by
  unfold crashOps
  by_cases h : k < j
  · have hm : min k j = k := Nat.min_eq_left (Nat.le_of_lt h)
    simp only [h, if_true, hm, List.take_take, List.getElem?_take]
  · have hm : min k j = j := Nat.min_eq_right (by omega)
    have h1 : (List.take j A)[k]? = none := by simp [List.getElem?_take, h]
    simp only [h, if_false, hm, List.take_take, h1]

/-- crash points of a concatenation: inside the first part, or the first part complete and a crash point of the
second -/
theorem crashOps_append (A B : List Op) (k : Nat) (cut : Option Nat) :
    crashOps (A ++ B) k cut = if k < A.length then crashOps A k cut else A ++ crashOps B (k - A.length) cut := by
  unfold crashOps
  by_cases h : k < A.length
  · simp only [h, if_true]
    rw [List.take_append_of_le_length (Nat.le_of_lt h), List.getElem?_append_left h]
  · simp only [h, if_false]
    have hge : A.length ≤ k := by omega
    rw [List.take_append, List.take_of_length_le hge, List.getElem?_append_right hge, List.append_assoc]

/-- an interrupted `append` succeeds whenever the complete one would -/
theorem run_crashOps_of_run (L : List Op) (fs x : Fs) (h : run fs L = some x) (k : Nat) (cut : Option Nat) :
    ∃ c, run fs (crashOps L k cut) = some c := by
  induction L generalizing fs k with
  | nil => exact ⟨fs, by simp [crashOps, run]⟩
  | cons a r ih =>
    simp only [run] at h
    cases hs : step fs a with
    | none => rw [hs] at h; cases h
    | some g =>
      rw [hs] at h
      cases k with
      | zero =>
        unfold crashOps
        simp only [List.take_zero, List.nil_append, List.getElem?_cons_zero]
        cases cut with
        | none => exact ⟨fs, rfl⟩
        | some c =>
          cases a with
          | append p b =>
            simp only [step] at hs
            split at hs
            · rename_i c0 hg
              exact ⟨set fs p (.file (c0 ++ b.take c)), by simp [run, step, hg]⟩
            · cases hs
          | mkdir p => exact ⟨fs, rfl⟩
          | createEmpty p => exact ⟨fs, rfl⟩
          | rename p q => exact ⟨fs, rfl⟩
          | copyFile p b => exact ⟨fs, rfl⟩
          | rmtree p => exact ⟨fs, rfl⟩
      | succ k =>
        obtain ⟨c, hc⟩ := ih g h k
        refine ⟨c, ?_⟩
        have : crashOps (a :: r) (k + 1) cut = a :: crashOps r k cut := by
          simp [crashOps]
        rw [this]; simp [run, hs, hc]

/-! ### well-formed trees: every entry's parent is a directory -/

theorem mem_of_get (fs : Fs) (k : Path) (n : Node) (h : get fs k = some n) : (k, n) ∈ fs := by
  induction fs with
  | nil => simp [get] at h
  | cons e r ih =>
    simp only [get] at h
    by_cases hk : k = e.1
    · simp [hk] at h; subst h; subst hk; simp
    · simp [hk] at h; exact List.mem_cons_of_mem _ (ih h)

/-- in a well-formed tree a present path has a directory as parent -/
theorem WF.parent_dir {fs : Fs} (w : WF fs) (k : Path) (n : Node) (h : get fs k = some n) (hk : k ≠ []) :
    get fs (parent k) = some .dir := by
  have := w (k, n) (mem_of_get fs k n h)
  simpa [hk] using this

theorem parent_ne (p : Path) (h : p ≠ []) : parent p ≠ p := by
  intro e
  have := congrArg List.length e
  simp [parent] at this
  cases p with
  | nil => exact h rfl
  | cons a r => simp at this

end ForML.Fs
