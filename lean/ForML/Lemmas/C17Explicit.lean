/- C17: `Explicit.select` over registry histories (lemmas). -/
import ForML.Lemmas.C17LatestInv

namespace ForML.Strategy

/-- `Explicit._instance` is unset or the configured instance (its keys are explicit: using it pins nothing new) -/
def InvE (r g : Nat) (s : EState) : Prop := s.inst = none ∨ s.inst = some ⟨0, r, some g⟩

/-- what a `select` (and use) observes: the configured generation when it is listed, `Level.Invalid` otherwise -/
def explicitObs (r g : Nat) (rels : Rels) : Obs :=
  match gensOf rels r with
  | none => .err .invalid
  | some gs => if g ∈ gs then .served r g else .err .invalid

theorem genKey_explicit_inst (rels : Rels) (r g : Nat) :
    (match genKey rels ⟨0, r, some g⟩ with
      | .error e => Obs.err e
      | .ok k => Obs.served r k) = explicitObs r g rels := by
  unfold genKey explicitObs
  cases gensOf rels r with
  | none => rfl
  | some gs =>
    simp only
    by_cases hg : g ∈ gs <;> simp [hg]

theorem stepE_select {r g : Nat} {s : EState} (h : InvE r g s) :
    (stepE r g s .select).2 = explicitObs r g s.rels ∧ InvE r g (stepE r g s .select).1 ∧
      (stepE r g s .select).1.rels = s.rels := by
  have hsel : (eSelect r g s).1 = ⟨0, r, some g⟩ ∧ (eSelect r g s).2.rels = s.rels ∧ InvE r g (eSelect r g s).2 := by
    unfold eSelect
    rcases h with h | h
    · simp [h, InvE]
    · simp [h, InvE]
  obtain ⟨h1, h2, h3⟩ := hsel
  rw [← genKey_explicit_inst]
  simp only [stepE]
  cases hs : eSelect r g s with
  | mk i s' =>
    rw [hs] at h1 h2 h3
    simp only at h1 h2 h3
    subst h1
    simp only [h2]
    cases hk : genKey s.rels ⟨0, r, some g⟩ with
    | error e => exact ⟨rfl, h3, h2⟩
    | ok k =>
      refine ⟨rfl, ?_, rfl⟩
      obtain ⟨gs, _, _⟩ := genKey_ok_mem hk
      have : k = g := by
        unfold genKey at hk
        simp only at hk
        split at hk
        · cases hk
        · split at hk
          · cases hk; rfl
          · cases hk
      subst this
      exact Or.inr rfl

theorem invE_step {r g : Nat} {s : EState} (op : EOp) (h : InvE r g s) : InvE r g (stepE r g s op).1 := by
  cases op with
  | publish x => exact h
  | commit x => exact h
  | select => exact (stepE_select h).2.1

theorem invE_exec {r g : Nat} (ops : List EOp) {s : EState} (h : InvE r g s) : InvE r g (execE r g s ops) := by
  induction ops generalizing s with
  | nil => exact h
  | cons op ops ih => exact ih (invE_step op h)

theorem runE_obs {r g : Nat} (ops : List EOp) {s : EState} (h : InvE r g s) :
    ∀ o ∈ (runE r g s ops).2, o = .quiet ∨ o = .served r g ∨ o = .err .invalid := by
  induction ops generalizing s with
  | nil => intro o ho; simp [runE] at ho
  | cons op ops ih =>
    intro o ho
    simp only [runE] at ho
    rcases List.mem_cons.mp ho with rfl | ho
    · cases op with
      | publish x => exact Or.inl rfl
      | commit x => exact Or.inl rfl
      | select =>
        rw [(stepE_select h).1]
        unfold explicitObs
        split
        · exact Or.inr (Or.inr rfl)
        · split
          · exact Or.inr (Or.inl rfl)
          · exact Or.inr (Or.inr rfl)
    · exact ih (invE_step op h) o ho

end ForML.Strategy
