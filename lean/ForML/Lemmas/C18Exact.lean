/-
C18 helper lemmas: the excluded regions are not artefacts of the proofs — inside them the round trip fails for
*every* value (leading quotes, `Decimal`, characters beyond the BMP).
-/
import ForML.Lemmas.C18Tag
import ForML.Lemmas.C18Manifest

namespace ForML.Tag

theorem looksTriple_of_leadingQuotes (s : List Nat) (hq : leadingQuotes s = true) :
    looksTriple (34 :: (s ++ [34])) = true := by
  cases s with
  | nil => simp [leadingQuotes] at hq
  | cons a r =>
    cases r with
    | nil =>
      have : a = 34 := by simpa [leadingQuotes] using hq
      subst this; rfl
    | cons b r' =>
      have : a = 34 ∧ b = 34 := by simpa [leadingQuotes] using hq
      obtain ⟨e1, e2⟩ := this
      subst e1; subst e2; rfl

theorem finish_triple_length (v : List Nat) (h : looksTriple v = true) : (finish v).length = v.length - 6 := by
  unfold finish
  simp only [h, if_true, List.length_dropLast, List.length_drop]
  omega

/-- **finding F2 is the whole region**: every string that is `"` or starts with `""` (and is outside the `\x` region)
is written, read without error, and comes back different -/
theorem str_leadingQuotes_fails (s : List Nat) (hx : noXEsc s = true) (hb : hasBX s = false)
    (hq : leadingQuotes s = true) :
    ∃ lit t, dumpStr s = .ok lit ∧ loadStr lit = .ok t ∧ t ≠ s := by
  refine ⟨34 :: escape s ++ [34], finish (34 :: (s ++ [34])), dumpStr_noBX s (by rw [hasBX_escape s hx]; exact hb), ?_, ?_⟩
  · have hu : unescape (34 :: escape s ++ [34]) = .ok (34 :: (s ++ [34])) := by
      have h1 : unescape [34] = .ok [34] := by
        rw [unescape_plain 34 [] (by decide), unescape_nil]; rfl
      rw [List.cons_append, unescape_plain 34 _ (by decide), unescape_escape s hx [34] [34] h1]
      rfl
    unfold loadStr
    simp only [List.cons_append, beq_self_eq_true, if_true]
    rw [← List.cons_append, hu]
  · intro e
    have hl := finish_triple_length _ (looksTriple_of_leadingQuotes s hq)
    rw [e] at hl
    have hne : s ≠ [] := by
      intro e'; subst e'; simp [leadingQuotes] at hq
    have : 0 < s.length := List.length_pos_iff.mpr hne
    simp only [List.length_cons, List.length_append, List.length_nil] at hl
    omega

/-- what a tag reads back as when its ordinal reads back as `o'` -/
theorem tag_load_of_ordinal (t : Tag) (ov : Option TVal) (o' : Option Ordinal) (hd : dumpOrd? t.ordinal = .ok ov)
    (hl : loadOrd? ov = .ok o') : ∃ d, dumps t = .ok d ∧ loads d = .ok { t with ordinal := o' } := by
  obtain ⟨trainTs, ordinal, tuneTs, score, states⟩ := t
  have l1 := lookup_sect .timestamp .ordinal (by decide) (trainTs.map .datetime) ov
  have l2 := lookup_sect .timestamp .score (by decide) (tuneTs.map .datetime) (score.map dumpNum)
  simp only at hd
  have e : dumps ⟨trainTs, ordinal, tuneTs, score, states⟩ = .ok
      { states := states
        training := sect [(.timestamp, trainTs.map .datetime), (.ordinal, ov)]
        tuning := sect [(.timestamp, tuneTs.map .datetime), (.score, score.map dumpNum)] } := by
    simp only [dumps, hd]
  refine ⟨_, e, ?_⟩
  simp only [loads, l1.1, l1.2, l2.1, l2.2, loadTs_dump, loadScore_dump, hl]

/-- **finding F4 is the whole region**: a tag with a `Decimal` ordinal always reads back with a float or an int
ordinal (everything else intact), never with the decimal -/
theorem tag_decimal_fails (trainTs tuneTs : Option Ts) (score : Option Num) (states text : List Nat) (i : Int) (f : Nat) :
    ∃ d o', dumps ⟨trainTs, some (.decimal text i f), tuneTs, score, states⟩ = .ok d ∧
      loads d = .ok ⟨trainTs, some o', tuneTs, score, states⟩ ∧ (o' = .float f ∨ o' = .int i) := by
  by_cases h : text.any (fun c => c == 46 || c == 101 || c == 69) = true
  · obtain ⟨d, h1, h2⟩ := tag_load_of_ordinal ⟨trainTs, some (.decimal text i f), tuneTs, score, states⟩
      (some (.float f)) (some (.float f)) (by simp only [dumpOrd?, dumpOrdinal, h, if_true]) rfl
    exact ⟨d, .float f, h1, h2, Or.inl rfl⟩
  · obtain ⟨d, h1, h2⟩ := tag_load_of_ordinal ⟨trainTs, some (.decimal text i f), tuneTs, score, states⟩
      (some (.int i)) (some (.int i)) (by simp only [dumpOrd?, dumpOrdinal, h, Bool.false_eq_true, if_false]) rfl
    exact ⟨d, .int i, h1, h2, Or.inr rfl⟩

end ForML.Tag

namespace ForML.Manifest

/-- a Unicode scalar value beyond the BMP -/
def astral (c : Nat) : Bool := 65536 ≤ c && c < 1114112

/-- **finding F5 is the whole region**: every character beyond the BMP is written as a surrogate pair and read back
as two code units -/
theorem pyStr_jesc_astral (c : Nat) (h : astral c = true) (r : List Nat) :
    pyStr (jesc c ++ r) =
      push [55296 + (c - 65536) / 1024 % 1024] (push [56320 + (c - 65536) % 1024] (pyStr r)) := by
  simp only [astral, Bool.and_eq_true, decide_eq_true_eq] at h
  have e : jesc c = u4 (55296 + (c - 65536) / 1024 % 1024) ++ u4 (56320 + (c - 65536) % 1024) := by
    unfold jesc
    have n34 : (c == 34) = false := by simp; omega
    have n92 : (c == 92) = false := by simp; omega
    have n10 : (c == 10) = false := by simp; omega
    have n13 : (c == 13) = false := by simp; omega
    have n9 : (c == 9) = false := by simp; omega
    have n8 : (c == 8) = false := by simp; omega
    have n12 : (c == 12) = false := by simp; omega
    have np : (decide (32 ≤ c) && decide (c ≤ 126)) = false := by simp; omega
    have nb : ¬ c < 65536 := by omega
    simp only [n34, n92, n10, n13, n9, n8, n12, np, nb, Bool.false_eq_true, if_false]
  rw [e, List.append_assoc, pyStr_u4_append _ (by omega), pyStr_u4_append _ (by omega)]

theorem astral_value_fails (c : Nat) (h : astral c = true) (rest : List Nat) :
    ∃ t, pyStr (jstr [c] ++ 34 :: rest) = .ok (t, rest) ∧ t ≠ [c] := by
  refine ⟨[55296 + (c - 65536) / 1024 % 1024, 56320 + (c - 65536) % 1024], ?_, by simp⟩
  simp only [jstr, List.append_nil]
  rw [pyStr_jesc_astral c h, pyStr_quote]
  rfl

end ForML.Manifest
