/-
C02 helper lemmas: the memoising evaluation `evalM` (what the reference interpreter `run` and the model of a
dask scheduler do) computes the denotation, executes every instruction at most once, and only ever adds to
the memo.
-/
import ForML.Lemmas.C02Table

namespace ForML.Flow

/-- `D` is a denotation of the (acyclic, closed) table `t`: it satisfies the unfolding equation; `r` decreases
along the arguments. (For a ranked table `den A t` is one; the same `D` also fits every closed sub-table.) -/
structure Sem (A : Option Assets) (t : Table) (r : Key → Nat) (D : Key → Val) : Prop where
  args : ∀ k s, t.find k = some s → ∀ a ∈ s.args, (t.find a).isSome ∧ r a < r k
  eq : ∀ k s, t.find k = some s → D k = exec A s.instr (s.args.map D)

theorem Ranked.sem (A : Option Assets) {t : Table} {r : Key → Nat} (hr : Ranked t r) : Sem A t r (den A t) :=
  ⟨fun _ _ hf => hr.find_args hf, fun _ _ hf => den_eq A hr hf⟩

/-- memo invariant w.r.t. table `t` and denotation `D` -/
structure MInv (D : Key → Val) (t : Table) (m : Memo) : Prop where
  sound : ∀ k v, m.get k = some v → v = D k
  keys : m.vals.map (·.1) = m.trace.reverse
  nodup : m.trace.Nodup
  bound : ∀ k, (m.get k).isSome → (t.find k).isSome

theorem lookupVal_isSome_iff {k : Key} {l : List (Key × Val)} : (lookupVal k l).isSome ↔ k ∈ l.map (·.1) := by
  induction l with
  | nil => simp [lookupVal]
  | cons x r ih =>
    obtain ⟨k', v⟩ := x
    simp only [lookupVal, List.map_cons, List.mem_cons]
    split
    · simp_all
    · rename_i hne
      rw [ih]
      constructor
      · exact Or.inr
      · rintro (h | h)
        · exact absurd h.symm hne
        · exact h

theorem Memo.get_isSome_iff {m : Memo} {k : Key} (hk : m.vals.map (·.1) = m.trace.reverse) :
    (m.get k).isSome ↔ k ∈ m.trace := by
  simp [Memo.get, lookupVal_isSome_iff, hk]

theorem MInv.empty (D : Key → Val) (t : Table) : MInv D t ⟨[], []⟩ :=
  ⟨by simp [Memo.get, lookupVal], rfl, List.nodup_nil, by simp [Memo.get, lookupVal]⟩

/-- `m'` extends `m` -/
def Memo.Ext (m m' : Memo) : Prop := ∀ k v, m.get k = some v → m'.get k = some v

theorem Memo.Ext.refl (m : Memo) : m.Ext m := fun _ _ h => h
theorem Memo.Ext.trans {a b c : Memo} (h1 : a.Ext b) (h2 : b.Ext c) : a.Ext c := fun k v h => h2 k v (h1 k v h)

/-- the step function of the argument fold inside `evalM` -/
def argStep (A : Option Assets) (t : Table) (f : Nat) (acc : Memo × List Val) (a : Key) : Memo × List Val :=
  ((evalM A t f acc.1 a).1, acc.2 ++ [(evalM A t f acc.1 a).2])

theorem evalM_succ (A : Option Assets) (t : Table) (f : Nat) (m : Memo) (k : Key) :
    evalM A t (f + 1) m k =
      match m.get k with
      | some v => (m, v)
      | none =>
        match t.find k with
        | none => (m, .error .unbound)
        | some s =>
          let r := s.args.foldl (argStep A t f) (m, [])
          (⟨(k, exec A s.instr r.2) :: r.1.vals, r.1.trace ++ [k]⟩, exec A s.instr r.2) := by
  rfl

/-- what one call of `evalM` guarantees -/
structure EvalOK (D : Key → Val) (t : Table) (r : Key → Nat) (m : Memo) (k : Key) (res : Memo × Val) : Prop where
  val : res.2 = D k
  inv : MInv D t res.1
  ext : m.Ext res.1
  has : res.1.get k = some res.2
  new : ∀ k', (res.1.get k').isSome → (m.get k').isSome ∨ r k' ≤ r k

theorem evalM_ok (A : Option Assets) {t : Table} {r : Key → Nat} {D : Key → Val} (hr : Sem A t r D) :
    ∀ (f : Nat) (m : Memo) (k : Key), r k < f → (t.find k).isSome → MInv D t m →
      EvalOK D t r m k (evalM A t f m k) := by
  intro f
  induction f with
  | zero => intro m k h; omega
  | succ f ih =>
    intro m k hf hb hm
    rw [evalM_succ]
    cases hget : m.get k with
    | some v =>
      exact ⟨hm.sound k v hget, hm, Memo.Ext.refl m, hget, fun k' h => Or.inl h⟩
    | none =>
      cases hfind : t.find k with
      | none => simp [hfind] at hb
      | some s =>
        -- the fold over the arguments
        have fold : ∀ (as : List Key) (m0 : Memo) (acc : List Val),
            (∀ a ∈ as, (t.find a).isSome ∧ r a < r k) → MInv D t m0 → m.Ext m0 →
            (∀ k', (m0.get k').isSome → (m.get k').isSome ∨ r k' < r k) →
            let res := as.foldl (argStep A t f) (m0, acc)
            res.2 = acc ++ as.map D ∧ MInv D t res.1 ∧ m.Ext res.1 ∧
              (∀ k', (res.1.get k').isSome → (m.get k').isSome ∨ r k' < r k) := by
          intro as
          induction as with
          | nil => intro m0 acc _ h0 he hn; simp [h0, he]; exact hn
          | cons a as iha =>
            intro m0 acc hlt h0 he hn
            have ha := hlt a (List.mem_cons_self ..)
            have step := ih m0 a (by omega) ha.1 h0
            simp only [List.foldl_cons]
            have := iha (evalM A t f m0 a).1 (acc ++ [(evalM A t f m0 a).2])
              (fun b hb => hlt b (List.mem_cons_of_mem _ hb)) step.inv (he.trans step.ext)
              (fun k' hk' => by
                rcases step.new k' hk' with h | h
                · exact hn k' h
                · exact Or.inr (by omega))
            simp only [argStep] at this ⊢
            refine ⟨?_, this.2⟩
            rw [this.1, step.val]
            simp
        have hargs := hr.args k s hfind
        have hres := fold s.args m [] hargs hm (Memo.Ext.refl m) (fun k' h => Or.inl h)
        simp only at hres ⊢
        generalize s.args.foldl (argStep A t f) (m, []) = res at hres ⊢
        obtain ⟨hvals, hinv, hext, hnew⟩ := hres
        have hv : exec A s.instr res.2 = D k := by
          rw [hvals, hr.eq k s hfind]; simp
        have hknot : res.1.get k = none := by
          cases hg : res.1.get k with
          | none => rfl
          | some v =>
            rcases hnew k (by simp [hg]) with h | h
            · simp [hget] at h
            · omega
        have hknotin : k ∉ res.1.trace := by
          intro hin
          have := (Memo.get_isSome_iff hinv.keys).2 hin
          simp [hknot] at this
        refine ⟨hv, ?_, ?_, ?_, ?_⟩
        · refine ⟨?_, ?_, ?_, ?_⟩
          · intro k' v' hk'
            simp only [Memo.get, lookupVal] at hk'
            split at hk'
            · rename_i he; cases hk'; rw [← he]; exact hv
            · exact hinv.sound k' v' hk'
          · simp [hinv.keys]
          · rw [List.nodup_append]
            refine ⟨hinv.nodup, by simp, ?_⟩
            intro a ha b hb
            simp at hb; subst hb
            intro he; subst he; exact hknotin ha
          · intro k' hk'
            simp only [Memo.get, lookupVal] at hk'
            split at hk'
            · rename_i he; rw [← he, hfind]; rfl
            · exact hinv.bound k' hk'
        · intro k' v' hk'
          have h1 := hext k' v' hk'
          simp only [Memo.get, lookupVal]
          split
          · rename_i he
            subst he
            simp [Memo.get] at h1 hknot
            rw [hknot] at h1; cases h1
          · exact h1
        · simp [Memo.get, lookupVal]
        · intro k' hk'
          simp only [Memo.get, lookupVal] at hk'
          split at hk'
          · rename_i he; right; rw [← he]; exact Nat.le_refl _
          · rcases hnew k' hk' with h | h
            · exact Or.inl h
            · exact Or.inr (by omega)

/-- folding `evalM` over a list of bound keys (what `run` does over the table and `evalDask` over the outputs) -/
theorem evalM_fold (A : Option Assets) {t : Table} {r : Key → Nat} {D : Key → Val} (hr : Sem A t r D) (f : Nat) :
    ∀ (ks : List Key) (m : Memo), (∀ k ∈ ks, r k < f ∧ (t.find k).isSome) → MInv D t m →
      let m' := ks.foldl (fun m k => (evalM A t f m k).1) m
      MInv D t m' ∧ m.Ext m' ∧ ∀ k ∈ ks, m'.get k = some (D k) := by
  intro ks
  induction ks with
  | nil => intro m _ hm; exact ⟨hm, Memo.Ext.refl m, by simp⟩
  | cons k ks ih =>
    intro m hks hm
    have hk := hks k (List.mem_cons_self ..)
    have step := evalM_ok A hr f m k hk.1 hk.2 hm
    have rest := ih (evalM A t f m k).1 (fun a ha => hks a (List.mem_cons_of_mem _ ha)) step.inv
    simp only [List.foldl_cons]
    refine ⟨rest.1, step.ext.trans rest.2.1, ?_⟩
    intro a ha
    rcases List.mem_cons.1 ha with rfl | ha
    · have := step.has
      rw [step.val] at this
      exact rest.2.1 _ _ this
    · exact rest.2.2 a ha

end ForML.Flow
