/-
C03 ↔ C01 bridge, lemmas part 3: `flow.Composition(source, e)` — the source operator's three workers and two `Future`
tails, the expansion of `e` on top of them, the three heads bound to the source's tails.  From `Spec True (expand e) ⟦e⟧`:
the composed graph carries a certified valuation without open holes in which the train / apply tails hold `⟦e⟧` of the
source's outputs and the recorded trainings produce `⟦e⟧`'s states.
-/
import ForML.Lemmas.C03Region
import ForML.Model.ComposeSegment

namespace ForML.Compose

/-- the graph `extract.Operator.compose(Origin())` builds from scratch -/
def sourceGraph (src : Source) : Graph :=
  { next := 8
    nodes := [⟨0, .worker 1 ⟨src.apply, false⟩ 0 1⟩, ⟨2, .worker 3 ⟨src.train, false⟩ 0 1⟩, ⟨4, .future⟩, ⟨5, .future⟩,
      ⟨6, .worker 7 ⟨src.label, false⟩ 1 2⟩]
    edges := [⟨6, 0, ⟨2, 0⟩⟩, ⟨4, 0, ⟨6, 0⟩⟩, ⟨5, 0, ⟨6, 1⟩⟩]
    trains := [] }

def sourceTrunk : Trunk := ⟨⟨0, 0⟩, ⟨2, 4⟩, ⟨2, 5⟩⟩

theorem run_composeSource (src : Source) : Run (composeSource src) {} sourceTrunk (sourceGraph src) := rfl

/-- the label extractor's output -/
def Source.extracted (src : Source) : Val := .apply src.label .none [.apply src.train .none []]

/-- the certified valuation of the source -/
def sourceWorld (src : Source) : World :=
  { σ := fun p =>
      if p.node = 0 then src.xa
      else if p.node = 2 then .apply src.train .none []
      else if p.node = 6 then .proj p.idx src.extracted
      else if p.node = 4 then src.xt
      else if p.node = 5 then src.xl
      else .none
    h := fun n => if n = 6 then 1 else if n = 4 ∨ n = 5 then 2 else 0
    live := fun n => n = 0 ∨ n = 2 ∨ n = 4 ∨ n = 5 ∨ n = 6 }

theorem source_kind0 (src : Source) : (sourceGraph src).kindOf 0 = some (.worker 1 ⟨src.apply, false⟩ 0 1) := rfl
theorem source_kind2 (src : Source) : (sourceGraph src).kindOf 2 = some (.worker 3 ⟨src.train, false⟩ 0 1) := rfl
theorem source_kind4 (src : Source) : (sourceGraph src).kindOf 4 = some .future := rfl
theorem source_kind5 (src : Source) : (sourceGraph src).kindOf 5 = some .future := rfl
theorem source_kind6 (src : Source) : (sourceGraph src).kindOf 6 = some (.worker 7 ⟨src.label, false⟩ 1 2) := rfl
theorem source_in4 (src : Source) : (sourceGraph src).inputOf 4 0 = some ⟨6, 0⟩ := rfl
theorem source_in5 (src : Source) : (sourceGraph src).inputOf 5 0 = some ⟨6, 1⟩ := rfl
theorem source_in6 (src : Source) : (sourceGraph src).inputOf 6 0 = some ⟨2, 0⟩ := rfl

theorem source_bounded (src : Source) : Bounded (sourceGraph src) := by
  constructor
  · intro n hn
    simp only [sourceGraph, List.mem_cons, List.mem_nil_iff, or_false] at hn
    rcases hn with h | h | h | h | h <;> subst h <;> simp [sourceGraph]
  · intro n hn gid a i o hk
    simp only [sourceGraph, List.mem_cons, List.mem_nil_iff, or_false] at hn
    rcases hn with h | h | h | h | h <;> subst h <;> cases hk <;> simp [sourceGraph]
  · intro e he
    simp only [sourceGraph, List.mem_cons, List.mem_nil_iff, or_false] at he
    rcases he with h | h | h <;> subst h <;> simp [sourceGraph]
  · intro t ht
    simp [sourceGraph] at ht

theorem source_wired (src : Source) : Wired (sourceGraph src) := by
  refine ⟨?_, ?_, ?_⟩
  · intro e he
    simp only [sourceGraph, List.mem_cons, List.mem_nil_iff, or_false] at he
    rcases he with h | h | h <;> subst h <;> simp [sourceGraph]
  · intro e he
    simp only [sourceGraph, List.mem_cons, List.mem_nil_iff, or_false] at he
    rcases he with h | h | h <;> subst h <;> rfl
  · simp [sourceGraph]

theorem source_inv (src : Source) : Inv (sourceGraph src) (sourceWorld src) := by
  have hb := source_bounded src
  refine ⟨hb.nodesLt, hb.gidsLt, hb.edgesLt, hb.trainsLt, ?_, ?_⟩
  · intro n hl
    rcases hl with h | h | h | h | h <;> subst h <;> simp [sourceWorld, sourceGraph]
  · intro n hl
    unfold GoodNode
    rcases hl with h | h | h | h | h <;> subst h
    · rw [source_kind0]
      refine ⟨fun _ => default, fun k hk => absurd hk (Nat.not_lt_zero k), .none, ?_, ?_⟩
      · unfold GoodState StateFor; simp
      · intro i; simp [sourceWorld, portVal, Source.xa]
    · rw [source_kind2]
      refine ⟨fun _ => default, fun k hk => absurd hk (Nat.not_lt_zero k), .none, ?_, ?_⟩
      · unfold GoodState StateFor; simp
      · intro i; simp [sourceWorld, portVal]
    · rw [source_kind4, source_in4]
      refine ⟨⟨Or.inr (Or.inr (Or.inr (Or.inr rfl))), by simp [sourceWorld]⟩, ?_⟩
      intro i; simp [sourceWorld, Source.xt, Source.extracted]
    · rw [source_kind5, source_in5]
      refine ⟨⟨Or.inr (Or.inr (Or.inr (Or.inr rfl))), by simp [sourceWorld]⟩, ?_⟩
      intro i; simp [sourceWorld, Source.xl, Source.extracted]
    · rw [source_kind6]
      refine ⟨fun _ => ⟨2, 0⟩, ?_, .none, ?_, ?_⟩
      · intro k hk
        have : k = 0 := by omega
        subst this
        exact ⟨source_in6 src, Or.inr (Or.inl rfl), by simp [sourceWorld]⟩
      · unfold GoodState StateFor; simp
      · intro i; simp [sourceWorld, portVal, Source.extracted]

/-- what the composed graph of `flow.Composition(source, e)` provides -/
structure CompOk (src : Source) (s : Sem) (t : Trunk) (g : Graph) (W : World) : Prop where
  inv : Inv g W
  wired : Wired g
  noOpen : ∀ n, W.live n → ¬ g.isOpen n
  frame : Frame (sourceGraph src) g
  heads : t.apply.head = 0 ∧ t.train.head = 2
  ta : W.live t.apply.tail ∧ W.σ ⟨t.apply.tail, 0⟩ = s.apply
  tt : W.live t.train.tail ∧ W.σ ⟨t.train.tail, 0⟩ = s.train
  trains : (∀ T ∈ g.trains, W.live T.train.node ∧ W.live T.label.node) ∧ g.trains.map (trainedUnder W) = s.states

theorem composition_spec (src : Source) {m : GraphM Trunk} {S : Scope} (hm : Spec True m S) :
    ∃ t g W, Run (do let s ← composeSource src; let t ← m; s.extendTrunk t) {} t g ∧
      CompOk src (S src.xa src.xt src.xl) t g W := by
  have hiS := source_inv src
  have hwS := source_wired src
  obtain ⟨t, g1, W1, hr1, ok⟩ := hm (sourceGraph src) (sourceWorld src) src.xa src.xt src.xl 3 hiS hwS (by simp [sourceGraph])
  have hlt0 : ∀ n, (sourceWorld src).live n → n < 8 := fun n hn => (hiS.liveLt n hn).1
  have hlt1 : ∀ n, W1.live n → n < g1.next := fun n hn => (ok.inv.liveLt n hn).1
  have hg01 : (8 : Nat) ≤ g1.next := ok.frame.next_le
  obtain ⟨d1, d2, d3⟩ := ok.distinct
  -- the source's tails seen from `W1`
  have old : ∀ q : PubRef, (sourceWorld src).live q.node → W1.live q.node ∧ W1.σ q = (sourceWorld src).σ q ∧
      W1.h q.node = (sourceWorld src).h q.node := by
    intro q hq
    have := hlt0 _ hq
    obtain ⟨a1, a2, _⟩ := ok.agree q.node this
    exact ⟨a1.mpr hq, ok.agree.σ q this, a2⟩
  have l0 : (sourceWorld src).live 0 := Or.inl rfl
  have l4 : (sourceWorld src).live 4 := Or.inr (Or.inr (Or.inl rfl))
  have l5 : (sourceWorld src).live 5 := Or.inr (Or.inr (Or.inr (Or.inl rfl)))
  obtain ⟨a0, s0, r0⟩ := old ⟨0, 0⟩ l0
  obtain ⟨a4, s4, r4⟩ := old ⟨4, 0⟩ l4
  obtain ⟨a5, s5, r5⟩ := old ⟨5, 0⟩ l5
  -- bind the apply head
  obtain ⟨hr2, hi2, hw2⟩ := bindHead ok.inv ok.wired t.apply.head ⟨0, 0⟩ ok.ha.live ok.ha.isOpen
    (by rw [ok.ha.rank]; exact ⟨a0, by rw [r0]; simp [sourceWorld]⟩)
    (fun i => by rw [ok.ha.val i, s0]; simp [sourceWorld])
  -- bind the train head
  have ft2 : (g1.pushEdge ⟨t.apply.head, 0, ⟨0, 0⟩⟩).inputOf t.train.head 0 = none := by
    rw [inputOf_pushEdge, ok.ht.free 0]
    simp [d1]
  obtain ⟨hr3, hi3, hw3⟩ := bindHead hi2 hw2 t.train.head ⟨4, 0⟩ ok.ht.live ⟨by simpa using ok.ht.isOpen.1, ft2⟩
    (by rw [ok.ht.rank]; exact ⟨a4, by rw [r4]; simp [sourceWorld]⟩)
    (fun i => by rw [ok.ht.val i, s4]; simp [sourceWorld])
  -- bind the label head
  have fl3 : ((g1.pushEdge ⟨t.apply.head, 0, ⟨0, 0⟩⟩).pushEdge ⟨t.train.head, 0, ⟨4, 0⟩⟩).inputOf t.label.head 0 = none := by
    rw [inputOf_pushEdge, inputOf_pushEdge, ok.hl.free 0]
    simp [d2, d3]
  obtain ⟨hr4, hi4, hw4⟩ := bindHead hi3 hw3 t.label.head ⟨5, 0⟩ ok.hl.live ⟨by simpa using ok.hl.isOpen.1, fl3⟩
    (by rw [ok.hl.rank]; exact ⟨a5, by rw [r5]; simp [sourceWorld]⟩)
    (fun i => by rw [ok.hl.val i, s5]; simp [sourceWorld])
  obtain ⟨g4, hg4⟩ : ∃ x, x = ((g1.pushEdge ⟨t.apply.head, 0, ⟨0, 0⟩⟩).pushEdge ⟨t.train.head, 0, ⟨4, 0⟩⟩).pushEdge
    ⟨t.label.head, 0, ⟨5, 0⟩⟩ := ⟨_, rfl⟩
  rw [← hg4] at hi4 hw4 hr4
  have k4 : ∀ u, g4.kindOf u = g1.kindOf u := by intro u; rw [hg4]; simp
  have in4 : ∀ u k q, g1.inputOf u k = some q → g4.inputOf u k = some q := by
    intro u k q hq
    rw [hg4, inputOf_pushEdge, inputOf_pushEdge, inputOf_pushEdge, hq]; rfl
  have ia4 : g4.inputOf t.apply.head 0 = some ⟨0, 0⟩ := by
    rw [hg4, inputOf_pushEdge, inputOf_pushEdge, inputOf_pushEdge, ok.ha.free 0]; simp
  have it4 : g4.inputOf t.train.head 0 = some ⟨4, 0⟩ := by
    rw [hg4, inputOf_pushEdge, inputOf_pushEdge, inputOf_pushEdge, ok.ht.free 0]; simp [d1]
  have il4 : g4.inputOf t.label.head 0 = some ⟨5, 0⟩ := by
    rw [hg4, inputOf_pushEdge, inputOf_pushEdge, inputOf_pushEdge, ok.hl.free 0]; simp [d2, d3]
  have f4 : Frame (sourceGraph src) g4 := by
    rw [hg4]
    exact ((ok.frame.pushEdge _ ok.ha.ge).pushEdge _ ok.ht.ge).pushEdge _ ok.hl.ge
  have hrun : Run (do let s ← composeSource src; let t ← m; s.extendTrunk t) {}
      ⟨⟨0, t.apply.tail⟩, ⟨2, t.train.tail⟩, ⟨2, t.label.tail⟩⟩ g4 := by
    refine Run.bind (run_composeSource src) (Run.bind hr1 ?_)
    unfold Trunk.extendTrunk Trunk.extend Trunk.extendOpt Segment.extend Segment.subscribeTo
    exact Run.bind (Run.bind hr2 (Run.pure _ _)) (Run.bind (Run.bind hr3 (Run.pure _ _))
      (Run.bind (Run.bind hr4 (Run.pure _ _)) (Run.pure _ _)))
  refine ⟨_, g4, W1, hrun, hi4, hw4, ?_, f4, ⟨rfl, rfl⟩, ok.ta, ok.tt, ?_⟩
  · -- no open holes
    intro n hl ho
    have ho1 : g1.isOpen n := by
      refine ⟨by rw [← k4]; exact ho.1, ?_⟩
      cases h : g1.inputOf n 0 with
      | none => rfl
      | some q => have := in4 _ _ _ h; rw [ho.2] at this; cases this
    by_cases hn : n < 8
    · have hl0 : (sourceWorld src).live n := ((ok.agree n hn).1).mp hl
      have ho0 : (sourceGraph src).isOpen n := (ok.frame.isOpen hn).mp ho1
      rcases hl0 with h | h | h | h | h <;> subst h
      · rw [Graph.isOpen, source_kind0] at ho0; cases ho0.1
      · rw [Graph.isOpen, source_kind2] at ho0; cases ho0.1
      · rw [Graph.isOpen, source_in4] at ho0; cases ho0.2
      · rw [Graph.isOpen, source_in5] at ho0; cases ho0.2
      · rw [Graph.isOpen, source_kind6] at ho0; cases ho0.1
    · rcases ok.opens n (by show 8 ≤ n; omega) hl ho1 with h | h | h
      · subst h; rw [ho.2] at ia4; cases ia4
      · subst h; rw [ho.2] at it4; cases it4
      · subst h; rw [ho.2] at il4; cases il4
  · obtain ⟨ts, hts, hlive, hmap⟩ := ok.trains
    have htr : g4.trains = ts := by
      rw [hg4]
      show g1.trains = ts
      rw [hts]; rfl
    rw [htr]
    exact ⟨hlive, hmap⟩

end ForML.Compose
