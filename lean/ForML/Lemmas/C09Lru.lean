/-
Helper lemmas for C09, round 5: a bounded LRU table is transparent for every history on which the key is injective,
whatever its capacity, and never holds more than its capacity.  Core Lean only.
-/
import ForML.Model.MatcherLru

namespace ForML.Matcher

open ForML.Dsl

theorem lruSeqFrom_transparent {κ ε α : Type} [DecidableEq κ] (n : Nat) (key : Source → κ) (f : Source → Except ε α) :
    ∀ (ss : List Source) (c : Memo κ α),
      (∀ a ∈ ss, ∀ b ∈ ss, key a = key b → a = b) →
      (∀ p ∈ c, ∀ s ∈ ss, p.1 = key s → f s = .ok p.2) →
      lruSeqFrom n key f c ss = ss.map f
  | [], _, _, _ => rfl
  | s :: ss, c, hinj, hc => by
    have hinj' : ∀ a ∈ ss, ∀ b ∈ ss, key a = key b → a = b :=
      fun a ha b hb => hinj a (List.mem_cons_of_mem _ ha) b (List.mem_cons_of_mem _ hb)
    have hc' : ∀ p ∈ c, ∀ s' ∈ ss, p.1 = key s' → f s' = .ok p.2 :=
      fun p hp s' hs' => hc p hp s' (List.mem_cons_of_mem _ hs')
    simp only [lruSeqFrom, List.map_cons]
    unfold lruStep
    cases hl : c.find? (fun p => decide (p.1 = key s)) with
    | some p =>
      have hm := List.mem_of_find?_eq_some hl
      have hk : p.1 = key s := by simpa using List.find?_some hl
      simp only
      rw [hc p hm s (List.mem_cons_self) hk, lruSeqFrom_transparent n key f ss _ hinj' ?_]
      intro q hq s' hs' hk'
      rcases List.mem_cons.mp hq with rfl | hq
      · exact hc' q hm s' hs' hk'
      · exact hc' q (List.mem_of_mem_eraseP hq) s' hs' hk'
    | none =>
      simp only
      cases hf : f s with
      | error e =>
        simp only
        rw [lruSeqFrom_transparent n key f ss c hinj' hc']
      | ok a =>
        simp only
        rw [lruSeqFrom_transparent n key f ss _ hinj' ?_]
        intro p hp s' hs' hk
        rcases List.mem_cons.mp (List.mem_of_mem_take hp) with rfl | hp
        · have : s = s' := hinj s List.mem_cons_self s' (List.mem_cons_of_mem _ hs') hk
          rw [← this]; exact hf
        · exact hc' p hp s' hs' hk

/-- one call never leaves more than `n` entries in a table that held at most `n` -/
theorem lruStep_bounded {κ ε α : Type} [DecidableEq κ] (n : Nat) (key : Source → κ) (f : Source → Except ε α)
    (c : Memo κ α) (s : Source) (h : c.length ≤ n) : (lruStep n key f c s).2.length ≤ n := by
  unfold lruStep
  cases hl : c.find? (fun p => decide (p.1 = key s)) with
  | some p =>
    have hm := List.mem_of_find?_eq_some hl
    have hk := List.find?_some hl
    simp only [List.length_cons]
    rw [List.length_eraseP_of_mem hm hk]
    have : 0 < c.length := List.length_pos_of_mem hm
    omega
  | none =>
    simp only
    cases f s with
    | error e => exact h
    | ok a => simp only [List.length_take]; omega

theorem lruStateFrom_bounded {κ ε α : Type} [DecidableEq κ] (n : Nat) (key : Source → κ) (f : Source → Except ε α) :
    ∀ (ss : List Source) (c : Memo κ α), c.length ≤ n → (lruStateFrom n key f c ss).length ≤ n
  | [], _, h => h
  | s :: ss, c, h => lruStateFrom_bounded n key f ss _ (lruStep_bounded n key f c s h)

end ForML.Matcher
