/-
C14 — helper lemmas, part 1: the parser context (`Segs`) only grows, and what `select` registers covers the
elements of the registered features.  Used by `ForML.Props.C14` (`C14_columns`).
-/
import ForML.Model.PushDown

namespace ForML.PushDown
open ForML.Dsl

theorem mem_addNew {α : Type} [DecidableEq α] {l : List α} {a x : α} : x ∈ addNew l a ↔ x ∈ l ∨ x = a := by
  unfold addNew
  by_cases h : a ∈ l
  · simp only [h, if_true]
    constructor
    · exact Or.inl
    · rintro (h' | h')
      · exact h'
      · exact h' ▸ h
  · simp [h]

theorem mem_addAll {α : Type} [DecidableEq α] {as l : List α} {x : α} : x ∈ addAll l as ↔ x ∈ l ∨ x ∈ as := by
  unfold addAll
  induction as generalizing l with
  | nil => simp
  | cons a as ih =>
    simp only [List.foldl_cons, ih, mem_addNew, List.mem_cons]
    constructor
    · rintro ((h | h) | h)
      · exact Or.inl h
      · exact Or.inr (Or.inl h)
      · exact Or.inr (Or.inr h)
    · rintro (h | h | h)
      · exact Or.inl (Or.inl h)
      · exact Or.inl (Or.inr h)
      · exact Or.inr h

@[simp] theorem select_fields (st : Segs) (fs : List Feature) :
    (st.select fs).fields = addAll st.fields (tableCols fs) := rfl
@[simp] theorem select_factors (st : Segs) (fs : List Feature) : (st.select fs).factors = st.factors := rfl
@[simp] theorem select_err (st : Segs) (fs : List Feature) : (st.select fs).err = st.err := rfl

theorem filter_fields (len : Bool) (st : Segs) (e : Feature) :
    (st.filter len e).fields = addAll st.fields (tableCols [e]) := by
  unfold Segs.filter
  cases factorsOf len e <;> rfl

/-- the elements of a table (directly or through a reference) among the elements of `F` are registered -/
def Covers (st : Segs) (F : List Feature) : Prop :=
  ∀ e ∈ elemsAll F, isTable (inst e.1) = true → (inst e.1, e.2) ∈ st.fields

theorem mem_tableCols {fs : List Feature} {e : Elem} (he : e ∈ elemsAll fs) (ht : isTable (inst e.1) = true) :
    (inst e.1, e.2) ∈ tableCols fs := by
  unfold tableCols
  rw [List.mem_filterMap]
  exact ⟨e, he, by simp [ht]⟩

theorem covers_select (st : Segs) (fs : List Feature) : Covers (st.select fs) fs := by
  intro e he ht
  rw [select_fields, mem_addAll]
  exact Or.inr (mem_tableCols he ht)

theorem covers_filter (len : Bool) (st : Segs) (e : Feature) : Covers (st.filter len e) [e] := by
  intro x hx ht
  rw [filter_fields, mem_addAll]
  exact Or.inr (mem_tableCols hx ht)

theorem covers_mono {st st' : Segs} {F : List Feature} (h : Covers st F) (hs : ∀ x ∈ st.fields, x ∈ st'.fields) :
    Covers st' F := fun e he ht => hs _ (h e he ht)

theorem covers_append {st : Segs} {F G : List Feature} (hF : Covers st F) (hG : Covers st G) : Covers st (F ++ G) := by
  intro e he ht
  unfold elemsAll at he
  rw [List.flatMap_append, List.mem_append] at he
  rcases he with he | he
  · exact hF e he ht
  · exact hG e he ht

theorem covers_nil (st : Segs) : Covers st [] := by
  intro e he
  simp [elemsAll] at he

theorem select_mono (st : Segs) (fs : List Feature) : ∀ x ∈ st.fields, x ∈ (st.select fs).fields := by
  intro x hx
  rw [select_fields, mem_addAll]
  exact Or.inl hx

theorem filter_mono (len : Bool) (st : Segs) (e : Feature) : ∀ x ∈ st.fields, x ∈ (st.filter len e).fields := by
  intro x hx
  rw [filter_fields, mem_addAll]
  exact Or.inl hx

/-- element-wise relation of two lists of the same length -/
inductive Forall2 {α β : Type} (R : α → β → Prop) : List α → List β → Prop where
  | nil : Forall2 R [] []
  | cons {a : α} {b : β} {as : List α} {bs : List β} : R a b → Forall2 R as bs → Forall2 R (a :: as) (b :: bs)

theorem Forall2.append {α β : Type} {R : α → β → Prop} {as as' : List α} {bs bs' : List β}
    (h : Forall2 R as bs) (h' : Forall2 R as' bs') : Forall2 R (as ++ as') (bs ++ bs') := by
  induction h with
  | nil => exact h'
  | cons hab _ ih => exact .cons hab ih

theorem Forall2.length_eq {α β : Type} {R : α → β → Prop} {as : List α} {bs : List β}
    (h : Forall2 R as bs) : as.length = bs.length := by
  induction h with
  | nil => rfl
  | cons _ _ ih => simp [ih]

/-- every scan (`generate_table` call) is offered every column it needs: same number of calls as of scans, and
call by call the needed names are among the offered ones -/
def ColsOK (needs : List (List String)) (hs : List Hint) : Prop :=
  Forall2 (fun need (h : Hint) => ∀ n ∈ need, n ∈ h.cols) needs hs

theorem mem_hint_cols {st : Segs} {t : Source} {n : String} (h : (t, n) ∈ st.fields) : n ∈ (hintOf st t).cols := by
  unfold hintOf
  simp only [List.mem_map, List.mem_filter]
  exact ⟨(t, n), ⟨h, by simp⟩, rfl⟩

theorem mem_usedBy {F : List Feature} {o : Source} {n : String} (h : n ∈ usedBy F o) : (o, n) ∈ elemsAll F := by
  unfold usedBy at h
  simp only [List.mem_map, List.mem_filter] at h
  obtain ⟨e, ⟨he, ho⟩, hn⟩ := h
  have ho' : e.1 = o := by simpa using ho
  have : e = (o, n) := by
    cases e
    simp_all
  exact this ▸ he

theorem filterOpt_mono (len : Bool) (st : Segs) (c : FeatureOpt) : ∀ x ∈ st.fields, x ∈ (st.filterOpt len c).fields := by
  cases c with
  | none => exact fun x hx => hx
  | some c => exact filter_mono len st c

theorem covers_filterOpt (len : Bool) (st : Segs) (c : FeatureOpt) : Covers (st.filterOpt len c) (optList c) := by
  cases c with
  | none => exact covers_nil _
  | some c => exact covers_filter len st c

/-- the context `visit_query` builds registers everything the query mentions -/
theorem covers_queryCtx (len : Bool) (err : Option Err) (src : Source) (sel : Features) (pre : FeatureOpt) (grp : Features)
    (post : FeatureOpt) (ord : Orderings) :
    Covers (queryCtx len err src sel pre grp post ord) (queryFeatures src sel pre grp post ord) := by
  unfold queryCtx queryFeatures
  refine covers_append (covers_append (covers_append (covers_append ?_ ?_) ?_) ?_) ?_
  · exact covers_mono (covers_select _ _)
      (fun x hx => select_mono _ _ x (select_mono _ _ x (select_mono _ _ x (filterOpt_mono _ _ _ x hx))))
  · exact covers_mono (covers_filterOpt _ _ _) (fun x hx => select_mono _ _ x (select_mono _ _ x (select_mono _ _ x hx)))
  · exact covers_mono (covers_select _ _) (fun x hx => select_mono _ _ x (select_mono _ _ x hx))
  · exact covers_mono (covers_select _ _) (fun x hx => select_mono _ _ x hx)
  · exact covers_select _ _

/-- `visit_*` offers every scan the columns its origin is used with in the features registered so far (`F`), and the
registered fields only grow -/
theorem run_cols (len : Bool) (S : Sem) (B : Backend) (db : Db) :
    ∀ (s : Source) (F : List Feature) (st : Segs), Covers st F →
      ColsOK (needs F s) (run len S B db s st).hints ∧ (∀ x ∈ st.fields, x ∈ (run len S B db s st).st.fields)
  | .table n fs, F, st, h => by
    simp only [run, needs]
    refine ⟨.cons ?_ .nil, fun x hx => hx⟩
    intro c hc
    have := mem_usedBy hc
    exact mem_hint_cols (h _ this (by simp [inst, isTable]))
  | .ref i nm, F, st, h => by
    have ih := run_cols len S B db i F st h
    simp only [run, needs]
    by_cases ht : isTable i = true
    · simp only [ht, if_true]
      refine ⟨?_, ih.2⟩
      cases i with
      | table n fs =>
        simp only [run]
        refine .cons ?_ .nil
        intro c hc
        exact mem_hint_cols (h _ (mem_usedBy hc) (by simp [inst, isTable]))
      | _ => simp [isTable] at ht
    · simp only [ht]
      exact ih
  | .join l r k c, F, st, h => by
    simp only [run, needs]
    have hst1 : Covers (st.filterOpt len c) (F ++ optList c) :=
      covers_append (covers_mono h (filterOpt_mono len st c)) (covers_filterOpt len st c)
    have iha := run_cols len S B db l _ _ hst1
    have ihb := run_cols len S B db r (F ++ optList c) _ (covers_mono hst1 iha.2)
    exact ⟨iha.1.append ihb.1, fun x hx => ihb.2 x (iha.2 x (filterOpt_mono len st c x hx))⟩
  | .set l r k, F, st, _ => by
    simp only [run, needs]
    have iha := run_cols len S B db l [] st (covers_nil _)
    have ihb := run_cols len S B db r [] (run len S B db l st).st (covers_nil _)
    exact ⟨iha.1.append ihb.1, fun x hx => ihb.2 x (iha.2 x hx)⟩
  | .query src sel pre grp post ord rows, F, st, _ => by
    simp only [run, needs]
    exact ⟨(run_cols len S B db src (queryFeatures src sel pre grp post ord) _ (covers_queryCtx len st.err src sel pre grp post ord)).1, fun x hx => hx⟩

end ForML.PushDown
