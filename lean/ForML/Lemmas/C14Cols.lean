/-
C14 — helper lemmas, part 1: the parser context (`Segs`) only grows, and what `select` registers covers the
elements of the registered features.  Used by `ForML.Props.C14` (`C14_columns`).
-/
import ForML.Model.PushDown

namespace ForML.PushDown
open ForML.Dsl

theorem mem_addNew {α : Type} [DecidableEq α] {l : List α} {a x : α} : x ∈ addNew l a ↔ x ∈ l ∨ x = a := by
  unfold addNew
  by_cases h : a ∈ l
  · simp only [h, if_true]
    constructor
    · exact Or.inl
    · rintro (h' | h')
      · exact h'
      · exact h' ▸ h
  · simp [h]

theorem mem_addAll {α : Type} [DecidableEq α] {as l : List α} {x : α} : x ∈ addAll l as ↔ x ∈ l ∨ x ∈ as := by
  unfold addAll
  induction as generalizing l with
  | nil => simp
  | cons a as ih =>
    simp only [List.foldl_cons, ih, mem_addNew, List.mem_cons]
    constructor
    · rintro ((h | h) | h)
      · exact Or.inl h
      · exact Or.inr (Or.inl h)
      · exact Or.inr (Or.inr h)
    · rintro (h | h | h)
      · exact Or.inl (Or.inl h)
      · exact Or.inl (Or.inr h)
      · exact Or.inr h

@[simp] theorem select_fields (fix : Bool) (st : Segs) (fs : List Feature) :
    (st.select fix fs).fields = addAll st.fields (tableCols fix fs) := rfl
@[simp] theorem select_factors (fix : Bool) (st : Segs) (fs : List Feature) : (st.select fix fs).factors = st.factors := rfl
@[simp] theorem select_err (fix : Bool) (st : Segs) (fs : List Feature) : (st.select fix fs).err = st.err := rfl
@[simp] theorem release_fields (st : Segs) (os : List Source) : (st.release os).fields = st.fields := rfl
@[simp] theorem release_err (st : Segs) (os : List Source) : (st.release os).err = st.err := rfl

@[simp] theorem keyOf_table (fix : Bool) (n : String) (fs : Fields) : keyOf fix (.table n fs) = .table n fs := by
  cases fix <;> rfl

theorem filter_fields (fix len : Bool) (st : Segs) (e : Feature) (ex : List Source) :
    (st.filter fix len e ex).fields = addAll st.fields (tableCols fix [e]) := by
  unfold Segs.filter
  cases factorsOf len e <;> rfl

/-- the elements of a table (directly or through a reference) among the elements of `F` are registered in the segment
of their scan -/
def Covers (fix : Bool) (st : Segs) (F : List Feature) : Prop :=
  ∀ e ∈ elemsAll F, isTable (inst e.1) = true → (keyOf fix e.1, e.2) ∈ st.fields

theorem mem_tableCols {fix : Bool} {fs : List Feature} {e : Elem} (he : e ∈ elemsAll fs) (ht : isTable (inst e.1) = true) :
    (keyOf fix e.1, e.2) ∈ tableCols fix fs := by
  unfold tableCols
  rw [List.mem_filterMap]
  exact ⟨e, he, by simp [ht]⟩

theorem covers_select (fix : Bool) (st : Segs) (fs : List Feature) : Covers fix (st.select fix fs) fs := by
  intro e he ht
  rw [select_fields, mem_addAll]
  exact Or.inr (mem_tableCols he ht)

theorem covers_filter (fix len : Bool) (st : Segs) (e : Feature) (ex : List Source) :
    Covers fix (st.filter fix len e ex) [e] := by
  intro x hx ht
  rw [filter_fields, mem_addAll]
  exact Or.inr (mem_tableCols hx ht)

theorem covers_mono {fix : Bool} {st st' : Segs} {F : List Feature} (h : Covers fix st F)
    (hs : ∀ x ∈ st.fields, x ∈ st'.fields) : Covers fix st' F := fun e he ht => hs _ (h e he ht)

theorem covers_append {fix : Bool} {st : Segs} {F G : List Feature} (hF : Covers fix st F) (hG : Covers fix st G) :
    Covers fix st (F ++ G) := by
  intro e he ht
  unfold elemsAll at he
  rw [List.flatMap_append, List.mem_append] at he
  rcases he with he | he
  · exact hF e he ht
  · exact hG e he ht

theorem covers_nil (fix : Bool) (st : Segs) : Covers fix st [] := by
  intro e he
  simp [elemsAll] at he

theorem select_mono (fix : Bool) (st : Segs) (fs : List Feature) : ∀ x ∈ st.fields, x ∈ (st.select fix fs).fields := by
  intro x hx
  rw [select_fields, mem_addAll]
  exact Or.inl hx

theorem filter_mono (fix len : Bool) (st : Segs) (e : Feature) (ex : List Source) :
    ∀ x ∈ st.fields, x ∈ (st.filter fix len e ex).fields := by
  intro x hx
  rw [filter_fields, mem_addAll]
  exact Or.inl hx

/-- element-wise relation of two lists of the same length -/
inductive Forall2 {α β : Type} (R : α → β → Prop) : List α → List β → Prop where
  | nil : Forall2 R [] []
  | cons {a : α} {b : β} {as : List α} {bs : List β} : R a b → Forall2 R as bs → Forall2 R (a :: as) (b :: bs)

theorem Forall2.append {α β : Type} {R : α → β → Prop} {as as' : List α} {bs bs' : List β}
    (h : Forall2 R as bs) (h' : Forall2 R as' bs') : Forall2 R (as ++ as') (bs ++ bs') := by
  induction h with
  | nil => exact h'
  | cons hab _ ih => exact .cons hab ih

theorem Forall2.length_eq {α β : Type} {R : α → β → Prop} {as : List α} {bs : List β}
    (h : Forall2 R as bs) : as.length = bs.length := by
  induction h with
  | nil => rfl
  | cons _ _ ih => simp [ih]

/-- every scan (`generate_table` call) is offered every column it needs: same number of calls as of scans, and
call by call the needed names are among the offered ones -/
def ColsOK (needs : List (List String)) (hs : List Hint) : Prop :=
  Forall2 (fun need (h : Hint) => ∀ n ∈ need, n ∈ h.cols) needs hs

theorem mem_hint_cols {st : Segs} {k t : Source} {n : String} (h : (k, n) ∈ st.fields) : n ∈ (hintOf st k t).cols := by
  unfold hintOf
  simp only [List.mem_map, List.mem_filter]
  exact ⟨(k, n), ⟨h, by simp⟩, rfl⟩

theorem mem_usedBy {F : List Feature} {o : Source} {n : String} (h : n ∈ usedBy F o) : (o, n) ∈ elemsAll F := by
  unfold usedBy at h
  simp only [List.mem_map, List.mem_filter] at h
  obtain ⟨e, ⟨he, ho⟩, hn⟩ := h
  have ho' : e.1 = o := by simpa using ho
  have : e = (o, n) := by
    cases e
    simp_all
  exact this ▸ he

theorem filterOpt_mono (fix len : Bool) (st : Segs) (c : FeatureOpt) (ex : List Source) :
    ∀ x ∈ st.fields, x ∈ (st.filterOpt fix len c ex).fields := by
  cases c with
  | none => exact fun x hx => hx
  | some c => exact filter_mono fix len st c ex

theorem covers_filterOpt (fix len : Bool) (st : Segs) (c : FeatureOpt) (ex : List Source) :
    Covers fix (st.filterOpt fix len c ex) (optList c) := by
  cases c with
  | none => exact covers_nil _ _
  | some c => exact covers_filter fix len st c ex

/-- `visit_join` keeps every registered field and registers the elements of its condition -/
theorem joinCtx_mono (fix len : Bool) (st : Segs) (l r : Source) (k : JoinKind) (c : FeatureOpt) :
    ∀ x ∈ st.fields, x ∈ (joinCtx fix len st l r k c).fields := by
  intro x hx
  exact filterOpt_mono _ _ _ _ _ x (by simpa using hx)

theorem covers_joinCtx (fix len : Bool) (st : Segs) (l r : Source) (k : JoinKind) (c : FeatureOpt) :
    Covers fix (joinCtx fix len st l r k c) (optList c) := covers_filterOpt _ _ _ _ _

/-- the context `visit_query` builds registers everything the query mentions -/
theorem covers_queryCtx (fix len : Bool) (err : Option Err) (src : Source) (sel : Features) (pre : FeatureOpt) (grp : Features)
    (post : FeatureOpt) (ord : Orderings) :
    Covers fix (queryCtx fix len err src sel pre grp post ord) (queryFeatures src sel pre grp post ord) := by
  unfold queryCtx queryFeatures
  refine covers_append (covers_append (covers_append (covers_append ?_ ?_) ?_) ?_) ?_
  · exact covers_mono (covers_select _ _ _)
      (fun x hx => select_mono _ _ _ x (select_mono _ _ _ x (select_mono _ _ _ x (filterOpt_mono _ _ _ _ _ x hx))))
  · exact covers_mono (covers_filterOpt _ _ _ _ _) (fun x hx => select_mono _ _ _ x (select_mono _ _ _ x (select_mono _ _ _ x hx)))
  · exact covers_mono (covers_select _ _ _) (fun x hx => select_mono _ _ _ x (select_mono _ _ _ x hx))
  · exact covers_mono (covers_select _ _ _) (fun x hx => select_mono _ _ _ x hx)
  · exact covers_select _ _ _

/-- `visit_*` offers every scan the columns its origin is used with in the features registered so far (`F`), and the
registered fields only grow -/
theorem run_cols (fix len : Bool) (S : Sem) (B : Backend) (db : Db) :
    ∀ (s : Source) (F : List Feature) (st : Segs), Covers fix st F →
      ColsOK (needs F s) (run fix len S B db s st).hints ∧ (∀ x ∈ st.fields, x ∈ (run fix len S B db s st).st.fields)
  | .table n fs, F, st, h => by
    simp only [run, needs]
    refine ⟨.cons ?_ .nil, fun x hx => hx⟩
    intro c hc
    have := h _ (mem_usedBy hc) (by simp [inst, isTable])
    exact mem_hint_cols (by simpa using this)
  | .ref i nm, F, st, h => by
    simp only [run, needs]
    by_cases ht : isTable i = true
    · simp only [ht, if_true]
      refine ⟨.cons ?_ .nil, fun x hx => hx⟩
      intro c hc
      exact mem_hint_cols (h _ (mem_usedBy hc) (by simp [inst, ht]))
    · simp only [ht, Bool.false_eq_true, if_false]
      exact run_cols fix len S B db i F st h
  | .join l r k c, F, st, h => by
    simp only [run, needs]
    have hst1 : Covers fix (joinCtx fix len st l r k c) (F ++ optList c) :=
      covers_append (covers_mono h (joinCtx_mono fix len st l r k c)) (covers_joinCtx fix len st l r k c)
    have iha := run_cols fix len S B db l _ _ hst1
    have ihb := run_cols fix len S B db r (F ++ optList c) _ (covers_mono hst1 iha.2)
    exact ⟨iha.1.append ihb.1, fun x hx => ihb.2 x (iha.2 x (joinCtx_mono fix len st l r k c x hx))⟩
  | .set l r k, F, st, _ => by
    simp only [run, needs]
    have iha := run_cols fix len S B db l [] st (covers_nil _ _)
    have ihb := run_cols fix len S B db r [] (run fix len S B db l st).st (covers_nil _ _)
    exact ⟨iha.1.append ihb.1, fun x hx => ihb.2 x (iha.2 x hx)⟩
  | .query src sel pre grp post ord rows, F, st, _ => by
    simp only [run, needs]
    exact ⟨(run_cols fix len S B db src (queryFeatures src sel pre grp post ord) _
      (covers_queryCtx fix len st.err src sel pre grp post ord)).1, fun x hx => hx⟩

end ForML.PushDown
