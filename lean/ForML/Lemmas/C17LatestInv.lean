/- C17: invariants of the `Latest` state machine over registry histories (lemmas). -/
import ForML.Lemmas.C17Latest

namespace ForML.Strategy

/-! ### `Level.key` -/

theorem genKey_ok_mem {rels : Rels} {i : Inst} {g : Nat} (h : genKey rels i = .ok g) :
    ∃ gs, gensOf rels i.release = some gs ∧ g ∈ gs := by
  unfold genKey at h
  cases hg : gensOf rels i.release with
  | none => simp [hg] at h
  | some gs =>
    simp only [hg] at h
    cases hi : i.gen with
    | none =>
      simp only [hi] at h
      cases hl : gs.getLast? with
      | none => simp [hl] at h
      | some g' =>
        simp only [hl] at h
        cases h
        exact ⟨gs, rfl, getLast?_mem hl⟩
    | some g' =>
      simp only [hi] at h
      split at h
      · cases h; exact ⟨gs, rfl, by assumption⟩
      · cases h

theorem genKey_explicit {rels : Rels} {i : Inst} {g : Nat} {gs : List Nat}
    (hr : gensOf rels i.release = some gs) (hi : i.gen = some g) (hg : g ∈ gs) : genKey rels i = .ok g := by
  simp [genKey, hr, hi, hg]

theorem genKey_lazy {rels : Rels} {i : Inst} {g : Nat} {gs : List Nat}
    (hr : gensOf rels i.release = some gs) (hi : i.gen = none) (hl : gs.getLast? = some g) : genKey rels i = .ok g := by
  simp [genKey, hr, hi, hl]

theorem genKey_pin {rels : Rels} {i : Inst} {g : Nat} (h : genKey rels i = .ok g) :
    genKey rels (i.pin g) = .ok g := by
  obtain ⟨gs, hr, hg⟩ := genKey_ok_mem h
  exact genKey_explicit (i := i.pin g) hr rfl hg

@[simp] theorem pin_release (i : Inst) (g : Nat) : (i.pin g).release = i.release := rfl
@[simp] theorem pin_project (i : Inst) (g : Nat) : (i.pin g).project = i.project := rfl
@[simp] theorem pin_gen (i : Inst) (g : Nat) : (i.pin g).gen = some g := rfl

/-- the newest generation of a release is what its implicit generation resolves to -/
theorem newestOf_listing {rels : Rels} (hwf : WF rels) {r g : Nat} (h : NewestOf rels r g) :
    ∃ gs, gensOf rels r = some gs ∧ g ∈ gs ∧ gs.getLast? = some g := by
  obtain ⟨gs, hm, hg, hmax⟩ := h
  refine ⟨gs, gensOf_of_mem hwf hm, hg, ?_⟩
  cases hl : gs.getLast? with
  | none => have : gs = [] := List.getLast?_eq_none_iff.mp hl; subst this; simp at hg
  | some g' =>
    have := newestOf_unique hwf (newestOf_last hwf hm hl) ⟨gs, hm, hg, hmax⟩
    rw [this]

/-! ### `Instance.__eq__` -/

theorem instEq_cases {rels : Rels} {a b a' b' : Inst} {v : Bool} (h : instEq rels a b = .ok (v, a', b')) :
    (v = false ∧ a' = a ∧ b' = b ∧ (a.project ≠ b.project ∨ a.release ≠ b.release)) ∨
    (∃ ga gb, genKey rels a = .ok ga ∧ genKey rels b = .ok gb ∧ a.project = b.project ∧ a.release = b.release ∧
      v = (ga == gb) ∧ a' = a.pin ga ∧ b' = b.pin gb) := by
  unfold instEq at h
  split at h
  · rename_i hp
    cases h; exact Or.inl ⟨rfl, rfl, rfl, Or.inl hp⟩
  · rename_i hp
    split at h
    · cases h
    · cases h
    · split at h
      · rename_i hr
        cases h; exact Or.inl ⟨rfl, rfl, rfl, Or.inr hr⟩
      · rename_i hr
        split at h
        · cases h
        · rename_i ga hga
          split at h
          · cases h
          · rename_i gb hgb
            cases h
            exact Or.inr ⟨ga, gb, hga, hgb, by simpa using hp, by simpa using hr, rfl, rfl, rfl⟩

/-- the comparison raises nothing when both releases are listed and the keys that get resolved resolve -/
theorem instEq_ok {rels : Rels} {a b : Inst} {ga : Nat} {gsa gsb : List Nat}
    (hra : gensOf rels a.release = some gsa) (hrb : gensOf rels b.release = some gsb)
    (hga : genKey rels a = .ok ga)
    (hgb : a.release = b.release → ∃ gb, genKey rels b = .ok gb) :
    ∃ res, instEq rels a b = .ok res := by
  unfold instEq
  split
  · exact ⟨_, rfl⟩
  · simp only [hra, hrb]
    split
    · exact ⟨_, rfl⟩
    · rename_i hr
      obtain ⟨gb, hgb⟩ := hgb (by simpa using hr)
      simp only [hga, hgb]
      exact ⟨_, rfl⟩

/-- `a == b` answers `True` exactly for the same project, release and (resolved) generation; it is symmetric -/
theorem instEq_true_iff {rels : Rels} {a b a' b' : Inst} {v : Bool} (h : instEq rels a b = .ok (v, a', b')) :
    v = true ↔ a.project = b.project ∧ a.release = b.release ∧ genKey rels a = genKey rels b := by
  rcases instEq_cases h with ⟨rfl, _, _, hne⟩ | ⟨ga, gb, hga, hgb, hp, hr, rfl, _, _⟩
  · constructor
    · intro h; cases h
    · intro ⟨hp, hr, _⟩; rcases hne with h | h <;> contradiction
  · rw [hga, hgb]
    constructor
    · intro hv; exact ⟨hp, hr, by simp at hv; rw [hv]⟩
    · intro ⟨_, _, he⟩; cases he; simp

theorem instEq_hash {rels : Rels} {a b a' b' : Inst} (h : instEq rels a b = .ok (true, a', b')) :
    instHash rels a = instHash rels b := by
  rcases instEq_cases h with ⟨hv, _⟩ | ⟨ga, gb, hga, hgb, hp, hr, hv, _, _⟩
  · cases hv
  · have : ga = gb := by simpa using hv.symm
    subst this
    simp [instHash, hga, hgb, hp, hr]

/-! ### the invariant of the `Latest` state -/

/-- the cached instance refers to something listed -/
def CacheOK (cfg : Option Nat) (rels : Rels) (i : Inst) : Prop :=
  i.project = 0 ∧
  match cfg with
  | none => ∃ g gs, i.gen = some g ∧ gensOf rels i.release = some gs ∧ g ∈ gs
  | some c => i.release = c ∧ ∀ g, i.gen = some g → ∃ gs, gensOf rels c = some gs ∧ g ∈ gs

structure InvL (cfg : Option Nat) (s : LState) : Prop where
  wf : WF s.rels
  cache : ∀ i, s.cache = some i → CacheOK cfg s.rels i

/-- `rels'` lists everything `rels` lists -/
def Grows (rels rels' : Rels) : Prop :=
  ∀ c gs, gensOf rels c = some gs → ∃ gs', gensOf rels' c = some gs' ∧ ∀ g ∈ gs, g ∈ gs'

theorem cacheOK_grows {cfg : Option Nat} {rels rels' : Rels} {i : Inst} (hg : Grows rels rels')
    (h : CacheOK cfg rels i) : CacheOK cfg rels' i := by
  refine ⟨h.1, ?_⟩
  have h2 := h.2
  cases cfg with
  | none =>
    obtain ⟨g, gs, hi, hr, hm⟩ := h2
    obtain ⟨gs', hr', hsub⟩ := hg _ _ hr
    exact ⟨g, gs', hi, hr', hsub g hm⟩
  | some c =>
    refine ⟨h2.1, ?_⟩
    intro g hi
    obtain ⟨gs, hr, hm⟩ := h2.2 g hi
    obtain ⟨gs', hr', hsub⟩ := hg _ _ hr
    exact ⟨gs', hr', hsub g hm⟩

theorem cacheOK_pin {cfg : Option Nat} {rels : Rels} {i : Inst} {g : Nat} (h : CacheOK cfg rels i)
    (hk : genKey rels i = .ok g) : CacheOK cfg rels (i.pin g) := by
  obtain ⟨gs, hr, hm⟩ := genKey_ok_mem hk
  refine ⟨h.1, ?_⟩
  have h2 := h.2
  cases cfg with
  | none => exact ⟨g, gs, rfl, hr, hm⟩
  | some c =>
    refine ⟨h2.1, ?_⟩
    intro g' hg'
    cases hg'
    exact ⟨gs, by rw [← h2.1]; exact hr, hm⟩

theorem cacheOK_pick {cfg : Option Nat} {rels : Rels} (hwf : WF rels) {i : Inst} (h : pick cfg rels = .ok i) :
    CacheOK cfg rels i := by
  unfold pick at h
  cases cfg with
  | some c => simp only at h; cases h; exact ⟨rfl, rfl, by intro g hg; cases hg⟩
  | none =>
    simp only at h
    cases hp : pickLatest rels with
    | none => simp [hp] at h
    | some y =>
      obtain ⟨r, g⟩ := y
      simp only [hp] at h; cases h
      obtain ⟨gs, hr, hm, _⟩ := newestOf_listing hwf (pickLatest_newest hwf hp).1
      exact ⟨rfl, g, gs, rfl, hr, hm⟩

/-- a cached instance that is listed resolves -/
theorem cacheOK_genKey {cfg : Option Nat} {rels : Rels} {i : Inst} (h : CacheOK cfg rels i)
    (hgen : ∀ c, cfg = some c → ∃ gs, gensOf rels c = some gs ∧ gs ≠ []) : ∃ g, genKey rels i = .ok g := by
  have h2 := h.2
  cases cfg with
  | none =>
    obtain ⟨g, gs, hi, hr, hm⟩ := h2
    exact ⟨g, genKey_explicit hr hi hm⟩
  | some c =>
    obtain ⟨gs, hr, hne⟩ := hgen c rfl
    cases hi : i.gen with
    | some g =>
      obtain ⟨gs', hr', hm⟩ := h2.2 g hi
      exact ⟨g, genKey_explicit (by rw [h2.1]; exact hr') hi hm⟩
    | none =>
      cases hl : gs.getLast? with
      | none => exact absurd (List.getLast?_eq_none_iff.mp hl) hne
      | some g => exact ⟨g, genKey_lazy (by rw [h2.1]; exact hr) hi hl⟩

/-! ### steps keep the invariant -/

theorem grows_refl (rels : Rels) : Grows rels rels := fun _ gs h => ⟨gs, h, fun _ hg => hg⟩

theorem grows_publish {rels : Rels} (hwf : WF rels) (r : Nat) : Grows rels (publishRel r rels) :=
  fun _ gs h => ⟨gs, gensOf_publishRel hwf r h, fun _ hg => hg⟩

theorem grows_commit {rels : Rels} (hwf : WF rels) (r : Nat) : Grows rels (commitRel r rels) :=
  fun _ _ h => gensOf_commitRel hwf r h

theorem invL_select {cfg : Option Nat} {s : LState} (h : InvL cfg s) : InvL cfg (select cfg s).2 := by
  unfold select
  split
  · exact h
  · split
    · exact h
    · rename_i i hp
      exact ⟨h.wf, by intro j hj; simp at hj; subst hj; exact cacheOK_pick h.wf hp⟩

theorem invL_useCached {cfg : Option Nat} {s : LState} (h : InvL cfg s) : InvL cfg (useCached s).2 := by
  unfold useCached
  split
  · exact h
  · rename_i i hc
    split
    · exact h
    · rename_i g hk
      exact ⟨h.wf, by intro j hj; simp at hj; subst hj; exact cacheOK_pin (h.cache i hc) hk⟩

theorem invL_die {sv : Bool} {cfg : Option Nat} {s : LState} (h : InvL cfg s) : InvL cfg (s.die sv) := by
  unfold LState.die
  split
  · exact h
  · exact ⟨h.wf, h.cache⟩

theorem invL_tick {sv : Bool} {cfg : Option Nat} {s : LState} (h : InvL cfg s) : InvL cfg (tick sv cfg s) := by
  unfold tick
  split
  · split
    · exact h
    · rename_i old hc
      split
      · exact invL_die (s := { s with pending := false }) ⟨h.wf, h.cache⟩
      split
      · exact invL_die h
      · rename_i new hp
        split
        · exact invL_die h
        · rename_i x old' he
          refine ⟨h.wf, ?_⟩
          intro j hj; simp at hj; subst hj
          rcases instEq_cases he with ⟨hv, _⟩ | ⟨ga, gb, _, hgb, _, _, _, _, rfl⟩
          · cases hv
          · exact cacheOK_pin (h.cache old hc) hgb
        · rename_i new' x he
          refine ⟨h.wf, ?_⟩
          intro j hj; simp at hj; subst hj
          rcases instEq_cases he with ⟨_, rfl, _, _⟩ | ⟨ga, gb, hga, _, _, _, _, rfl, _⟩
          · exact cacheOK_pick h.wf hp
          · exact cacheOK_pin (cacheOK_pick h.wf hp) hga
  · exact h

theorem stepL_state (sv : Bool) (cfg : Option Nat) (s : LState) (op : LOp) :
    (stepL sv cfg s op).1 =
      match op with
      | .publish r => { s with rels := publishRel r s.rels }
      | .commit r => { s with rels := commitRel r s.rels }
      | .tick => tick sv cfg s
      | .fault _ => { s with pending := true }
      | .select false => (select cfg s).2
      | .select true =>
        match (select cfg s).1 with
        | .error _ => (select cfg s).2
        | .ok _ => (useCached (select cfg s).2).2 := by
  cases op with
  | publish r => rfl
  | commit r => rfl
  | tick => rfl
  | fault e => rfl
  | select u =>
    cases u with
    | false =>
      simp only [stepL]
      split <;> simp_all
    | true =>
      simp only [stepL]
      split
      · simp_all
      · rename_i i s' hs
        have h1 : (select cfg s).1 = .ok i := by rw [hs]
        have h2 : (select cfg s).2 = s' := by rw [hs]
        simp only [h1, h2]
        split <;> simp_all

theorem invL_step {sv : Bool} {cfg : Option Nat} {s : LState} (op : LOp) (h : InvL cfg s) :
    InvL cfg (stepL sv cfg s op).1 := by
  rw [stepL_state]
  cases op with
  | publish r =>
    exact ⟨publishRel_wf r h.wf, fun i hi => cacheOK_grows (grows_publish h.wf r) (h.cache i hi)⟩
  | commit r =>
    exact ⟨commitRel_wf r h.wf, fun i hi => cacheOK_grows (grows_commit h.wf r) (h.cache i hi)⟩
  | tick => exact invL_tick h
  | fault e => exact ⟨h.wf, h.cache⟩
  | select u =>
    cases u with
    | false => exact invL_select h
    | true =>
      simp only
      split
      · exact invL_select h
      · exact invL_useCached (invL_select h)

theorem invL_exec {sv : Bool} {cfg : Option Nat} (ops : List LOp) {s : LState} (h : InvL cfg s) :
    InvL cfg (execL sv cfg s ops) := by
  induction ops generalizing s with
  | nil => exact h
  | cons op ops ih => exact ih (invL_step op h)

theorem invL_init {cfg : Option Nat} {rels : Rels} (hwf : WF rels) : InvL cfg (LState.init rels) :=
  ⟨hwf, by intro i hi; cases hi⟩

end ForML.Strategy
