/-
C18 helper lemmas: lawful comparators (strict total orders given as `Ordering`-valued functions),
closure under the Python tuple/list constructions, and the listing invariants.
-/
import ForML.Model.Keys

namespace ForML.Keys

/-- `cmp` is a strict total order: `.eq` exactly on equal arguments, antisymmetric, transitive. -/
structure Lawful (cmp : α → α → Ordering) : Prop where
  eq_iff : ∀ a b, cmp a b = .eq ↔ a = b
  swap : ∀ a b, cmp b a = (cmp a b).swap
  trans : ∀ a b c, cmp a b = .lt → cmp b c = .lt → cmp a c = .lt

theorem Lawful.refl {cmp : α → α → Ordering} (h : Lawful cmp) (a : α) : cmp a a = .eq :=
  (h.eq_iff a a).mpr rfl

theorem Lawful.gt_iff {cmp : α → α → Ordering} (h : Lawful cmp) (a b : α) :
    cmp a b = .gt ↔ cmp b a = .lt := by
  rw [h.swap a b]; cases cmp a b <;> simp [Ordering.swap]

theorem lawful_nat : Lawful natCmp where
  eq_iff a b := by unfold natCmp; grind
  swap a b := by unfold natCmp; grind [Ordering.swap]
  trans a b c := by unfold natCmp; grind

theorem lawful_int : Lawful intCmp where
  eq_iff a b := by unfold intCmp; grind
  swap a b := by unfold intCmp; grind [Ordering.swap]
  trans a b c := by unfold intCmp; grind

theorem lawful_list {c : α → α → Ordering} (h : Lawful c) : Lawful (listCmp c) where
  eq_iff as bs := by
    induction as generalizing bs with
    | nil => cases bs <;> simp [listCmp]
    | cons a as ih =>
      cases bs with
      | nil => simp [listCmp]
      | cons b bs =>
        simp only [listCmp]
        have := h.eq_iff a b
        cases hab : c a b <;> simp_all
  swap as bs := by
    induction as generalizing bs with
    | nil => cases bs <;> simp [listCmp, Ordering.swap]
    | cons a as ih =>
      cases bs with
      | nil => simp [listCmp, Ordering.swap]
      | cons b bs =>
        simp only [listCmp]
        rw [h.swap a b]
        cases c a b <;> simp [Ordering.swap, ih]
  trans as bs cs := by
    induction as generalizing bs cs with
    | nil => cases bs <;> cases cs <;> simp [listCmp]
    | cons a as ih =>
      cases bs with
      | nil => simp [listCmp]
      | cons b bs =>
        cases cs with
        | nil => cases hab : c a b <;> cases hbc : c b b <;> simp [listCmp, hab]
        | cons d cs =>
          simp only [listCmp]
          cases hab : c a b <;> cases hbd : c b d <;> simp
          · simp [h.trans a b d hab hbd]
          · have e := (h.eq_iff b d).mp hbd; subst e; simp [hab]
          · have e := (h.eq_iff a b).mp hab; subst e; simp [hbd]
          · have e := (h.eq_iff a b).mp hab; subst e
            have e := (h.eq_iff a d).mp hbd; subst e
            simp [h.refl]; exact ih bs cs

theorem lawful_prod {c1 : α → α → Ordering} {c2 : β → β → Ordering} (h1 : Lawful c1) (h2 : Lawful c2) :
    Lawful (prodCmp c1 c2) where
  eq_iff x y := by
    obtain ⟨a1, b1⟩ := x; obtain ⟨a2, b2⟩ := y
    simp only [prodCmp]
    have := h1.eq_iff a1 a2
    have := h2.eq_iff b1 b2
    cases ha : c1 a1 a2 <;> simp_all
  swap x y := by
    obtain ⟨a1, b1⟩ := x; obtain ⟨a2, b2⟩ := y
    simp only [prodCmp]
    rw [h1.swap a1 a2, h2.swap b1 b2]
    cases c1 a1 a2 <;> simp [Ordering.swap]
  trans x y z := by
    obtain ⟨a1, b1⟩ := x; obtain ⟨a2, b2⟩ := y; obtain ⟨a3, b3⟩ := z
    simp only [prodCmp]
    cases h12 : c1 a1 a2 <;> cases h23 : c1 a2 a3 <;> simp
    · simp [h1.trans _ _ _ h12 h23]
    · have e := (h1.eq_iff _ _).mp h23; subst e; simp [h12]
    · have e := (h1.eq_iff _ _).mp h12; subst e; simp [h23]
    · have e := (h1.eq_iff _ _).mp h12; subst e
      have e := (h1.eq_iff _ _).mp h23; subst e
      simp [h1.refl]; exact h2.trans _ _ _

theorem lawful_opt {c : α → α → Ordering} (h : Lawful c) : Lawful (optCmp c) where
  eq_iff x y := by cases x <;> cases y <;> simp [optCmp, h.eq_iff]
  swap x y := by
    cases x <;> cases y <;> simp [optCmp, Ordering.swap]
    exact h.swap _ _
  trans x y z := by
    cases x <;> cases y <;> cases z <;> simp [optCmp]
    exact h.trans _ _ _

theorem lawful_cmpKey : Lawful cmpKey :=
  lawful_prod lawful_nat (lawful_prod (lawful_list lawful_nat) (lawful_prod (lawful_list lawful_int)
    (lawful_opt (lawful_list (lawful_prod lawful_int (lawful_list lawful_nat))))))

/-! ### the comparison key of a version -/

theorem cmpkey_epoch (v : Version) : (cmpkey v).1 = v.epoch := by
  unfold cmpkey; split <;> rfl

theorem cmpkey_release (v : Version) : (cmpkey v).2.1 = trim v.release := by
  unfold cmpkey; split <;> rfl

/-- the epoch decides first, then the release segment without trailing zeros (numerically, position by position) -/
theorem vcmp_epoch_release (a b : Version) :
    (a.epoch < b.epoch → vcmp a b = .lt) ∧
    (a.epoch = b.epoch → listCmp natCmp (trim a.release) (trim b.release) = .lt → vcmp a b = .lt) := by
  have ha1 := cmpkey_epoch a
  have hb1 := cmpkey_epoch b
  have ha2 := cmpkey_release a
  have hb2 := cmpkey_release b
  unfold vcmp cmpKey
  generalize cmpkey a = ka at *
  generalize cmpkey b = kb at *
  obtain ⟨e1, r1, s1, l1⟩ := ka
  obtain ⟨e2, r2, s2, l2⟩ := kb
  simp only at ha1 hb1 ha2 hb2
  subst ha1; subst hb1; subst ha2; subst hb2
  constructor
  · intro h
    simp [prodCmp, natCmp, h]
  · intro h hl
    have : natCmp a.epoch b.epoch = .eq := by rw [h]; exact lawful_nat.refl _
    simp [prodCmp, this, hl]

theorem trim_snoc_zero (r : List Nat) : trim (r ++ [0]) = trim r := by
  simp [trim]

theorem cmpKey_same (e : Nat) (r : List Nat) (s1 s2 : List Int) (l1 l2 : Option (List (Int × List Nat))) :
    cmpKey (e, r, s1, l1) (e, r, s2, l2) =
      prodCmp (listCmp intCmp) (optCmp (listCmp (prodCmp intCmp (listCmp natCmp)))) (s1, l1) (s2, l2) := by
  have h1 : natCmp e e = .eq := lawful_nat.refl e
  have h2 : listCmp natCmp r r = .eq := (lawful_list lawful_nat).refl r
  simp [cmpKey, prodCmp, h1, h2]

/-! ### listings -/

/-- strictly ascending w.r.t. `cmp` -/
def Sorted (cmp : α → α → Ordering) (l : List α) : Prop := l.Pairwise (fun a b => cmp a b = .lt)

theorem insert_mem {cmp : α → α → Ordering} (h : Lawful cmp) (x y : α) (l : List α) :
    y ∈ insert cmp x l ↔ y = x ∨ y ∈ l := by
  induction l with
  | nil => simp [insert]
  | cons z r ih =>
    simp only [insert]
    cases hxz : cmp x z with
    | lt => simp
    | eq =>
      have e := (h.eq_iff x z).mp hxz; subst e
      simp
    | gt => simp [ih]; grind

theorem insert_sorted {cmp : α → α → Ordering} (h : Lawful cmp) (x : α) (l : List α)
    (hs : Sorted cmp l) : Sorted cmp (insert cmp x l) := by
  induction l with
  | nil => simp [insert, Sorted]
  | cons z r ih =>
    simp only [insert]
    have hs' := List.pairwise_cons.mp hs
    cases hxz : cmp x z with
    | lt =>
      refine List.pairwise_cons.mpr ⟨?_, hs⟩
      intro w hw
      rcases List.mem_cons.mp hw with e | hw
      · subst e; exact hxz
      · exact h.trans _ _ _ hxz (hs'.1 w hw)
    | eq => exact hs
    | gt =>
      refine List.pairwise_cons.mpr ⟨?_, ih hs'.2⟩
      intro w hw
      rcases (insert_mem h x w r).mp hw with e | hw
      · subst e; exact (h.gt_iff _ _).mp hxz
      · exact hs'.1 w hw

theorem foldl_insert_sorted {cmp : α → α → Ordering} (h : Lawful cmp) (xs acc : List α)
    (hs : Sorted cmp acc) : Sorted cmp (xs.foldl (fun acc x => insert cmp x acc) acc) := by
  induction xs generalizing acc with
  | nil => exact hs
  | cons x r ih => exact ih _ (insert_sorted h x acc hs)

theorem foldl_insert_mem {cmp : α → α → Ordering} (h : Lawful cmp) (xs acc : List α) (y : α) :
    y ∈ xs.foldl (fun acc x => insert cmp x acc) acc ↔ y ∈ xs ∨ y ∈ acc := by
  induction xs generalizing acc with
  | nil => simp
  | cons x r ih =>
    simp only [List.foldl_cons, ih, insert_mem h, List.mem_cons]
    grind

/-- in a strictly sorted list everything is the last element or below it -/
theorem sorted_last {cmp : α → α → Ordering} (l : List α) (m : α) (hs : Sorted cmp l)
    (hl : l.getLast? = some m) : ∀ x ∈ l, x = m ∨ cmp x m = .lt := by
  induction l with
  | nil => simp at hl
  | cons a r ih =>
    have hs' := List.pairwise_cons.mp hs
    cases r with
    | nil =>
      simp at hl; subst hl
      intro x hx; simp at hx; exact Or.inl hx
    | cons b r' =>
      have hl' : (b :: r').getLast? = some m := by simpa [List.getLast?_cons_cons] using hl
      intro x hx
      rcases List.mem_cons.mp hx with e | hx
      · subst e
        have hm : m ∈ b :: r' := List.mem_of_getLast? hl'
        exact Or.inr (hs'.1 m hm)
      · exact ih hs'.2 hl' x hx

end ForML.Keys
