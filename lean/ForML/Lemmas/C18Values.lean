/-
C18 helper lemmas: keys from Python values — which characters `int()` tolerates, `str(int)` read back, and the
first character a PEP 440 text may start with.
-/
import ForML.Model.KeysValue
import ForML.Lemmas.C18GenKey

namespace ForML.Keys

/-! ### the alphabet of `int()` -/

/-- a character `int(text)` can step over: white space, digit, underscore, sign -/
def intChar (c : Nat) : Bool := isSpace c || isDigit c || c == 95 || c == 43 || c == 45

theorem mem_lstrip (l : List Nat) (c : Nat) (h : c ∈ l) : isSpace c = true ∨ c ∈ lstrip l := by
  induction l with
  | nil => cases h
  | cons a r ih =>
    rw [lstrip]
    by_cases ha : isSpace a = true
    · rw [if_pos ha]
      rcases List.mem_cons.mp h with e | h
      · subst e; exact Or.inl ha
      · exact ih h
    · rw [if_neg ha]; exact Or.inr h

theorem mem_strip (s : List Nat) (c : Nat) (h : c ∈ s) : isSpace c = true ∨ c ∈ strip s := by
  unfold strip
  rcases mem_lstrip s c h with h1 | h1
  · exact Or.inl h1
  · rcases mem_lstrip (lstrip s).reverse c (List.mem_reverse.mpr h1) with h2 | h2
    · exact Or.inl h2
    · exact Or.inr (List.mem_reverse.mpr h2)

theorem digitsVal_chars (l : List Nat) : ∀ (acc : Nat) (pd : Bool) (n : Nat), digitsVal acc pd l = some n →
    ∀ c ∈ l, isDigit c = true ∨ c = 95 := by
  induction l with
  | nil => intro _ _ _ _ c hc; cases hc
  | cons a r ih =>
    intro acc pd n h c hc
    rw [digitsVal] at h
    by_cases ha : isDigit a = true
    · rw [if_pos ha] at h
      rcases List.mem_cons.mp hc with e | hc
      · subst e; exact Or.inl ha
      · exact ih _ _ _ h c hc
    · rw [if_neg ha] at h
      by_cases hu : (a == 95 && pd) = true
      · rw [if_pos hu] at h
        rcases List.mem_cons.mp hc with e | hc
        · subst e
          simp only [Bool.and_eq_true, beq_iff_eq] at hu
          exact Or.inr hu.1
        · exact ih _ _ _ h c hc
      · rw [if_neg hu] at h; cases h

/-- **`int()` accepts a text only over its alphabet** -/
theorem parseInt_chars (s : List Nat) (i : Int) (h : parseInt s = some i) : ∀ c ∈ s, intChar c = true := by
  intro c hc
  unfold intChar
  rcases mem_strip s c hc with hsp | hin
  · simp [hsp]
  · unfold parseInt at h
    cases hs : strip s with
    | nil => rw [hs] at hin; cases hin
    | cons a r =>
      rw [hs] at h hin
      simp only at h
      have tail : ∀ n, digitsVal 0 false r = some n → c ∈ r → isDigit c = true ∨ c = 95 :=
        fun n hn hcr => digitsVal_chars r 0 false n hn c hcr
      by_cases h43 : (a == 43) = true
      · rw [if_pos h43] at h
        rcases List.mem_cons.mp hin with e | hcr
        · subst e; simp [h43]
        · cases hd : digitsVal 0 false r with
          | none => rw [hd] at h; cases h
          | some n => rcases tail n hd hcr with h1 | h1 <;> simp [h1]
      · rw [if_neg h43] at h
        by_cases h45 : (a == 45) = true
        · rw [if_pos h45] at h
          rcases List.mem_cons.mp hin with e | hcr
          · subst e; simp [h45]
          · cases hd : digitsVal 0 false r with
            | none => rw [hd] at h; cases h
            | some n => rcases tail n hd hcr with h1 | h1 <;> simp [h1]
        · rw [if_neg h45] at h
          cases hd : digitsVal 0 false (a :: r) with
          | none => rw [hd] at h; cases h
          | some n => rcases digitsVal_chars (a :: r) 0 false n hd c hin with h1 | h1 <;> simp [h1]

/-- a text with a character outside that alphabet is not an integer -/
theorem genKey_bad_char (s : List Nat) (c : Nat) (hc : c ∈ s) (hb : intChar c = false) : genKey s = .error .notInteger := by
  unfold genKey
  cases hp : parseInt s with
  | none => rfl
  | some i =>
    have := parseInt_chars s i hp c hc
    rw [hb] at this
    cases this

/-! ### `str(int)` read back -/

theorem parseInt_intStr (i : Int) : parseInt (intStr i) = some i := by
  cases i with
  | ofNat n => exact parseInt_natStr n
  | negSucc n =>
    obtain ⟨h1, h2, h3⟩ := natStr_spec (n + 1)
    have hs : strip (45 :: natStr (n + 1)) = 45 :: natStr (n + 1) := by
      apply strip_id _ (by simp)
      · intro c hc; simp at hc; subst hc; decide
      · intro c hc
        have : c ∈ natStr (n + 1) := by
          have hl : (45 :: natStr (n + 1)).getLast? = (natStr (n + 1)).getLast? := by
            cases hn : natStr (n + 1) with
            | nil => exact absurd hn h1
            | cons a r => simp [List.getLast?_cons_cons]
          rw [hl] at hc
          exact List.mem_of_getLast? hc
        exact isDigit_not_space c (h2 c this)
    show parseInt (45 :: natStr (n + 1)) = some (Int.negSucc n)
    unfold parseInt
    rw [hs]
    simp only [show ((45 : Nat) == 43) = false by decide, show ((45 : Nat) == 45) = true by decide, if_true, Bool.false_eq_true, if_false]
    rw [digitsVal_digits _ 0 false h2 (Or.inl h1), h3]
    rfl

/-- `Generation.Key(i)` for an int: accepted exactly from one on, as itself -/
theorem genKeyV_int (i : Int) : genKeyV (.int i) = if 1 ≤ i then .ok i.toNat else .error .notNatural := by
  unfold genKeyV genKey genMin pyStr
  rw [parseInt_intStr]
  by_cases h : 1 ≤ i
  · simp [h]
  · simp [h]

theorem genKeyV_bool (b : Bool) : genKeyV (.bool b) = .error .notInteger := by
  cases b
  · exact genKey_bad_char _ 70 (by simp [pyStr]) (by decide)
  · exact genKey_bad_char _ 84 (by simp [pyStr]) (by decide)

theorem genKeyV_none : genKeyV .none = .error .notInteger :=
  genKey_bad_char _ 78 (by simp [pyStr]) (by decide)

theorem genKeyV_bytes (r : List Nat) : genKeyV (.bytes r) = .error .notInteger :=
  genKey_bad_char _ 98 (by simp [pyStr]) (by decide)

theorem genKeyV_tuple (r : List Nat) : genKeyV (.tuple r) = .error .notInteger :=
  genKey_bad_char _ 40 (by simp [pyStr]) (by decide)

theorem genKeyV_float (r : List Nat) (h : floatShape r = true) : genKeyV (.float r) = .error .notInteger := by
  unfold floatShape at h
  rw [List.any_eq_true] at h
  obtain ⟨c, hc, hp⟩ := h
  apply genKey_bad_char _ c hc
  simp only [Bool.or_eq_true, beq_iff_eq] at hp
  rcases hp with (e | e) | e <;> subst e <;> decide

/-! ### PEP 440: what a version text starts with -/

theorem vparse_bad_head (c : Nat) (r : List Nat) (h1 : isSpaceU c = false) (h2 : (lower c == 118) = false)
    (h3 : isDigit c = false) : vparse (c :: r) = none := by
  have hd : dropSpace (c :: r) = c :: r := by simp [dropSpace, h1]
  have hv : optV (c :: r) = c :: r := by simp [optV, h2]
  have he : epoch? (c :: r) = (0, c :: r) := by simp [epoch?, spanDigits, h3]
  unfold vparse
  rw [hd, hv, he]
  simp [release?, h3]

theorem relKeyV_bool (b : Bool) : relKeyV (.bool b) = none := by
  cases b
  · exact vparse_bad_head 70 _ (by decide) (by decide) (by decide)
  · exact vparse_bad_head 84 _ (by decide) (by decide) (by decide)

theorem relKeyV_none : relKeyV .none = none := vparse_bad_head 78 _ (by decide) (by decide) (by decide)
theorem relKeyV_bytes (r : List Nat) : relKeyV (.bytes r) = none := vparse_bad_head 98 _ (by decide) (by decide) (by decide)
theorem relKeyV_tuple (r : List Nat) : relKeyV (.tuple r) = none := vparse_bad_head 40 _ (by decide) (by decide) (by decide)

theorem relKeyV_negative (n : Nat) : relKeyV (.int (Int.negSucc n)) = none :=
  vparse_bad_head 45 _ (by decide) (by decide) (by decide)

end ForML.Keys
