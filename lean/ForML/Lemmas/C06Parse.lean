/-
C06 — the stack machine (`visitF`, `visitSource`, `parse`) computes the plain translation `compile` on well-formed
statements and keeps the stack discipline: every visit pushes exactly one symbol onto the current context, leaves
the suspended contexts alone and registers exactly the visited origins.
-/
import ForML.Lemmas.C06Denote

namespace ForML.C06
open ForML.Dsl ForML.Rel ForML.Parser ForML.Denote

/-- the origins in `scope` are registered in the context with the handle `compile` uses for them -/
def Registered (srcs : Sources) (origs : List (Source × String)) (scope : List Source) : Prop :=
  ∀ o ∈ scope, origs.lookup o = qual srcs o

/-! ### features -/

theorem visitF_spec (srcs : Sources) (scope : List Source) (origs : List (Source × String))
    (hreg : Registered srcs origs scope) :
    ∀ (f : Feature) (e : SqlExpr), supportedF scope f = true → compileF srcs f = some e →
      ∀ (syms : List Sym) (stk : List (Option Ctx)),
        visitF f ⟨some ⟨syms, origs⟩, stk⟩ = .ok ⟨some ⟨.feat e :: syms, origs⟩, stk⟩
  | .lit v, e, _, hc, syms, stk => by
    simp [compileF] at hc; subst hc
    simp [visitF, push]
  | .elem o n, e, hs, hc, syms, stk => by
    simp only [compileF, Option.map_eq_some_iff] at hc
    obtain ⟨q, hq, rfl⟩ := hc
    have ho : o ∈ scope := by simpa [supportedF] using hs
    have hl := hreg o ho
    rw [hq] at hl
    simp [visitF, getOrigin, hl, push, bind, Except.bind]
  | .alias f n, e, hs, hc, syms, stk => by
    simp only [compileF, Option.map_eq_some_iff] at hc
    obtain ⟨e', he', rfl⟩ := hc
    have ih := visitF_spec srcs scope origs hreg f e' (by simpa [supportedF] using hs) he' syms stk
    simp [visitF, ih, popFeat, pop, push, bind, Except.bind, pure, Except.pure]
  | .expr op .nil, e, _, hc, _, _ => by simp [compileF, compileFs] at hc
  | .expr op (.cons f1 .nil), e, hs, hc, syms, stk => by
    simp only [supportedF, supportedFs, Bool.and_eq_true, Bool.and_true] at hs
    obtain ⟨⟨⟨hop, _⟩, _⟩, hs1⟩ := hs
    cases hop' : exprOp op with
    | none => simp [hop'] at hop
    | some sop =>
      have hr : sop ≠ .raises := by simpa [hop'] using hop
      cases h1 : compileF srcs f1 with
      | none => simp [compileF, compileFs, hop', h1] at hc
      | some a =>
        simp [compileF, compileFs, hop', h1, hr] at hc
        subst hc
        have ih := visitF_spec srcs scope origs hreg f1 a hs1 h1 syms stk
        simp [visitF, visitFs, ih, featuresLength, popFeats, popFeat, pop, genExpression, hop', hr, push, bind,
          Except.bind, pure, Except.pure]
  | .expr op (.cons f1 (.cons f2 .nil)), e, hs, hc, syms, stk => by
    simp only [supportedF, supportedFs, Bool.and_eq_true, Bool.and_true] at hs
    obtain ⟨⟨⟨hop, _⟩, _⟩, hs1, hs2⟩ := hs
    cases hop' : exprOp op with
    | none => simp [hop'] at hop
    | some sop =>
      have hr : sop ≠ .raises := by simpa [hop'] using hop
      cases h1 : compileF srcs f1 with
      | none => simp [compileF, compileFs, hop', h1] at hc
      | some a =>
        cases h2 : compileF srcs f2 with
        | none => simp [compileF, compileFs, hop', h1, h2] at hc
        | some b =>
          simp [compileF, compileFs, hop', h1, h2, hr] at hc
          subst hc
          have ih1 := visitF_spec srcs scope origs hreg f1 a hs1 h1 syms stk
          have ih2 := visitF_spec srcs scope origs hreg f2 b hs2 h2 (.feat a :: syms) stk
          simp [visitF, visitFs, ih1, ih2, featuresLength, popFeats, popFeat, pop, genExpression, hop', hr, push,
            bind, Except.bind, pure, Except.pure]
  | .expr op (.cons f1 (.cons f2 (.cons f3 r))), e, hs, _, _, _ => by
    simp only [supportedF, Bool.and_eq_true] at hs
    obtain ⟨⟨⟨_, har⟩, h12⟩, _⟩ := hs
    cases op <;> simp [Op.arity, featuresLength] at har h12 <;> omega
  | .cast _ _, e, hs, _, _, _ => by simp [supportedF] at hs
  | .window _ _ _, e, hs, _, _, _ => by simp [supportedF] at hs

/-- `generate_feature` returns the compiled feature and leaves the context as it was -/
theorem genFeature_spec (srcs : Sources) (scope : List Source) (origs : List (Source × String))
    (hreg : Registered srcs origs scope) (f : Feature) (e : SqlExpr) (hs : supportedF scope f = true)
    (hc : compileF srcs f = some e) (syms : List Sym) (stk : List (Option Ctx)) :
    genFeature f ⟨some ⟨syms, origs⟩, stk⟩ = .ok (e, ⟨some ⟨syms, origs⟩, stk⟩) := by
  simp [genFeature, visitF_spec srcs scope origs hreg f e hs hc syms stk, popFeat, pop, bind, Except.bind, pure,
    Except.pure]

theorem genFeatures_spec (srcs : Sources) (scope : List Source) (origs : List (Source × String))
    (hreg : Registered srcs origs scope) :
    ∀ (fs : Features) (es : List SqlExpr), supportedFs scope fs = true → compileFs srcs fs = some es →
      ∀ (syms : List Sym) (stk : List (Option Ctx)),
        genFeatures fs ⟨some ⟨syms, origs⟩, stk⟩ = .ok (es, ⟨some ⟨syms, origs⟩, stk⟩)
  | .nil, es, _, hc, syms, stk => by
    simp [compileFs] at hc; subst hc
    simp [genFeatures, pure, Except.pure]
  | .cons f fs, es, hs, hc, syms, stk => by
    simp only [supportedFs, Bool.and_eq_true] at hs
    cases h1 : compileF srcs f with
    | none => simp [compileFs, h1] at hc
    | some e =>
      cases h2 : compileFs srcs fs with
      | none => simp [compileFs, h1, h2] at hc
      | some rest =>
        simp [compileFs, h1, h2] at hc; subst hc
        simp [genFeatures, genFeature_spec srcs scope origs hreg f e hs.1 h1 syms stk,
          genFeatures_spec srcs scope origs hreg fs rest hs.2 h2 syms stk, bind, Except.bind, pure, Except.pure]

theorem genFeatureOpt_spec (srcs : Sources) (scope : List Source) (origs : List (Source × String))
    (hreg : Registered srcs origs scope) :
    ∀ (fo : FeatureOpt) (eo : Option SqlExpr), supportedFO scope fo = true → compileFO srcs fo = some eo →
      ∀ (syms : List Sym) (stk : List (Option Ctx)),
        genFeatureOpt fo ⟨some ⟨syms, origs⟩, stk⟩ = .ok (eo, ⟨some ⟨syms, origs⟩, stk⟩)
  | .none, eo, _, hc, syms, stk => by
    simp [compileFO] at hc; subst hc
    simp [genFeatureOpt, pure, Except.pure]
  | .some f, eo, hs, hc, syms, stk => by
    simp only [compileFO, Option.map_eq_some_iff] at hc
    obtain ⟨e, he, rfl⟩ := hc
    simp [genFeatureOpt, genFeature_spec srcs scope origs hreg f e (by simpa [supportedFO] using hs) he syms stk,
      bind, Except.bind, pure, Except.pure]

theorem genOrderings_spec (srcs : Sources) (scope : List Source) (origs : List (Source × String))
    (hreg : Registered srcs origs scope) :
    ∀ (os : Orderings) (eos : List (SqlExpr × SortDir)), supportedOrd scope os = true →
      compileOrd srcs os = some eos → ∀ (syms : List Sym) (stk : List (Option Ctx)),
        genOrderings os ⟨some ⟨syms, origs⟩, stk⟩ = .ok (eos, ⟨some ⟨syms, origs⟩, stk⟩)
  | .nil, eos, _, hc, syms, stk => by
    simp [compileOrd] at hc; subst hc
    simp [genOrderings, pure, Except.pure]
  | .cons (.mk f d) os, eos, hs, hc, syms, stk => by
    simp only [supportedOrd, Bool.and_eq_true] at hs
    obtain ⟨⟨hf, hd⟩, hos⟩ := hs
    cases h1 : compileF srcs f with
    | none => simp [compileOrd, h1] at hc
    | some e =>
      cases h2 : compileOrd srcs os with
      | none => simp [compileOrd, h1, h2, orderOf_dirOf d hd] at hc
      | some rest =>
        simp [compileOrd, h1, h2, orderOf_dirOf d hd] at hc; subst hc
        simp [genOrderings, genFeature_spec srcs scope origs hreg f e hf h1 syms stk, orderOf_dirOf d hd,
          genOrderings_spec srcs scope origs hreg os rest hos h2 syms stk, bind, Except.bind, pure, Except.pure]

theorem genElems_spec (srcs : Sources) (scope : List Source) (origs : List (Source × String))
    (hreg : Registered srcs origs scope) :
    ∀ (els : List (Source × String)) (es : List SqlExpr), (∀ e ∈ els, e.1 ∈ scope) →
      els.mapM (fun e => (qual srcs e.1).map (fun q => SqlExpr.col q e.2)) = some es →
      ∀ (syms : List Sym) (stk : List (Option Ctx)),
        genElems els ⟨some ⟨syms, origs⟩, stk⟩ = .ok (es, ⟨some ⟨syms, origs⟩, stk⟩)
  | [], es, _, hc, syms, stk => by
    simp at hc; subst hc
    simp [genElems, pure, Except.pure]
  | (o, n) :: rest, es, hin, hc, syms, stk => by
    simp only [List.mapM_cons, Option.pure_def, Option.bind_eq_bind, Option.bind_eq_some_iff,
      Option.map_eq_some_iff] at hc
    obtain ⟨e, ⟨q, hq, rfl⟩, es', hes', hes⟩ := hc
    simp at hes; subst hes
    have hl := hreg o (hin (o, n) (List.mem_cons_self ..))
    rw [hq] at hl
    simp [genElems, getOrigin, hl,
      genElems_spec srcs scope origs hreg rest es' (fun e he => hin e (List.mem_cons_of_mem _ he)) hes' syms stk,
      bind, Except.bind, pure, Except.pure]

/-! ### sources -/

/-- what a visit adds to `Context.origins` (latest first): a table and a reference register themselves, a reference
also what its instance registers (a nested statement registers into its own context, i.e. nothing here) -/
def regOrigins (srcs : Sources) : Source → List (Source × String)
  | .table n fields => [(.table n fields, qualD srcs (.table n fields))]
  | .ref inst name => (.ref inst name, name) :: regOrigins srcs inst
  | .join l r _ _ => regOrigins srcs r ++ regOrigins srcs l
  | _ => []

theorem joinOpt_cross : joinOpt .cross = some (true, false, false) := by decide

/-- registered handles are the names `compile` uses -/
def Consistent (srcs : Sources) (l : List (Source × String)) : Prop := ∀ p ∈ l, qual srcs p.1 = some p.2

theorem lookup_consistent (srcs : Sources) (o : Source) :
    ∀ (l rest : List (Source × String)), Consistent srcs l → o ∈ l.map (·.1) → (l ++ rest).lookup o = qual srcs o
  | [], _, _, hm => by cases hm
  | (k, v) :: l, rest, hc, hm => by
    by_cases hk : o = k
    · subst hk
      simp [List.lookup, hc (o, v) (List.mem_cons_self ..)]
    · have hk' : (o == k) = false := by simpa using hk
      simp only [List.cons_append, List.lookup, hk']
      apply lookup_consistent srcs o l rest (fun p hp => hc p (List.mem_cons_of_mem _ hp))
      simp only [List.map_cons, List.mem_cons] at hm
      rcases hm with h | h
      · exact absurd h hk
      · exact h

theorem regOrigins_spec (srcs : Sources) :
    ∀ (s : Source), wfFrom srcs s = true → isOrigin s = true →
      Consistent srcs (regOrigins srcs s) ∧ ∀ o ∈ leaves s, o ∈ (regOrigins srcs s).map (·.1)
  | .table n fields, hwf, _ => by
    simp only [wfFrom] at hwf
    obtain ⟨pn, hpn⟩ := Option.isSome_iff_exists.mp hwf
    constructor
    · intro p hp
      simp only [regOrigins, List.mem_singleton] at hp; subst hp
      simp [qual, qualD, hpn]
    · intro o ho
      simp only [leaves, List.mem_singleton] at ho; subst ho
      simp [regOrigins]
  | .ref inst name, hwf, _ => by
    constructor
    · intro p hp
      simp only [regOrigins, List.mem_cons] at hp
      rcases hp with rfl | hp
      · simp [qual]
      · cases inst with
        | table n fields =>
          have hw : wfFrom srcs (.table n fields) = true := by simpa [wfFrom] using hwf
          exact (regOrigins_spec srcs (.table n fields) hw rfl).1 p hp
        | ref a b => simp [wfFrom] at hwf
        | join a b c d => simp [wfFrom] at hwf
        | set a b c => simp [regOrigins] at hp
        | query a b c d e f g => simp [regOrigins] at hp
    · intro o ho
      simp only [leaves, List.mem_singleton] at ho; subst ho
      simp [regOrigins]
  | .join l r k c, hwf, _ => by
    simp only [wfFrom, Bool.and_eq_true] at hwf
    obtain ⟨⟨⟨⟨⟨hl, hr⟩, hol⟩, hor⟩, _⟩, _⟩ := hwf
    obtain ⟨cl, ml⟩ := regOrigins_spec srcs l hl hol
    obtain ⟨cr, mr⟩ := regOrigins_spec srcs r hr hor
    constructor
    · intro p hp
      simp only [regOrigins, List.mem_append] at hp
      rcases hp with h | h
      · exact cr p h
      · exact cl p h
    · intro o ho
      simp only [leaves, List.mem_append] at ho
      simp only [regOrigins, List.map_append, List.mem_append]
      rcases ho with h | h
      · exact Or.inr (ml o h)
      · exact Or.inl (mr o h)
  | .set _ _ _, _, ho => by simp [isOrigin] at ho
  | .query _ _ _ _ _ _ _, _, ho => by simp [isOrigin] at ho

theorem registered_of_reg (srcs : Sources) (s : Source) (hwf : wfFrom srcs s = true) (ho : isOrigin s = true)
    (rest : List (Source × String)) : Registered srcs (regOrigins srcs s ++ rest) (leaves s) := by
  obtain ⟨hc, hm⟩ := regOrigins_spec srcs s hwf ho
  intro o ho'
  exact lookup_consistent srcs o _ rest hc (hm o ho')

/-- the visit of a well-formed source pushes exactly `compile s` and registers exactly the visited origins -/
def VisitOk (srcs : Sources) (s : Source) (q : SqlSel) : Prop :=
  ∀ (syms : List Sym) (origs : List (Source × String)) (stk : List (Option Ctx)),
    visitSource srcs s ⟨some ⟨syms, origs⟩, stk⟩ = .ok ⟨some ⟨.src q :: syms, regOrigins srcs s ++ origs⟩, stk⟩

mutual
theorem visit_from (srcs : Sources) (hT : OnlyTables srcs = true) :
    ∀ (s : Source), wfFrom srcs s = true → isOrigin s = true →
      ∃ q, compile srcs s = some q ∧ VisitOk srcs s q
  | .table n fields, hwf, _ => by
    simp only [wfFrom] at hwf
    obtain ⟨pn, hpn⟩ := Option.isSome_iff_exists.mp hwf
    refine ⟨.table pn, by simp [compile, hpn], ?_⟩
    intro syms origs stk
    simp [visitSource, hpn, setOrigin, push, bind, Except.bind, regOrigins, qualD, qual]
  | .ref inst name, hwf, _ => by
    have hinner : ∃ q, compile srcs inst = some q ∧ VisitOk srcs inst q := by
      cases inst with
      | table n fields => exact visit_from srcs hT (.table n fields) (by simpa [wfFrom] using hwf) rfl
      | ref a b => simp [wfFrom] at hwf
      | join a b c d => simp [wfFrom] at hwf
      | set a b c =>
        obtain ⟨q, hq, _, hv⟩ := visit_out srcs hT (.set a b c) (by simpa [wfFrom] using hwf)
        exact ⟨q, hq, hv⟩
      | query a b c d e f g =>
        obtain ⟨q, hq, _, hv⟩ := visit_out srcs hT (.query a b c d e f g) (by simpa [wfFrom] using hwf)
        exact ⟨q, hq, hv⟩
    obtain ⟨q, hq, hv⟩ := hinner
    refine ⟨.alias q name, by rw [compile, hq]; rfl, ?_⟩
    intro syms origs stk
    rw [visitSource]
    simp [hv syms origs stk, popSrc, pop, setOrigin, push, bind, Except.bind, pure, Except.pure, regOrigins]
  | .join l r k c, hwf, _ => by
    have hwf' := hwf
    simp only [wfFrom, Bool.and_eq_true] at hwf
    obtain ⟨⟨⟨⟨⟨hl, hr⟩, hol⟩, hor⟩, hjo⟩, hkc⟩ := hwf
    obtain ⟨L, hL, hvL⟩ := visit_from srcs hT l hl hol
    obtain ⟨R, hR, hvR⟩ := visit_from srcs hT r hr hor
    obtain ⟨opt, hopt⟩ := Option.isSome_iff_exists.mp hjo
    have hby : srcs.lookup (.join l r k c) = none := lookup_nontable srcs hT _ rfl
    have hregJ : ∀ origs, Registered srcs (regOrigins srcs r ++ (regOrigins srcs l ++ origs)) (leaves l ++ leaves r) := by
      intro origs o ho
      have := registered_of_reg srcs (.join l r k c) hwf' rfl origs o (by simpa [leaves] using ho)
      simpa [regOrigins, List.append_assoc] using this
    cases c with
    | none =>
      refine ⟨if opt.2.2 then .join R L (.lit (.bool true)) opt.1 opt.2.1 else .join L R (.lit (.bool true)) opt.1 opt.2.1,
        by simp [compile, hL, hR, hopt], ?_⟩
      intro syms origs stk
      rw [visitSource]
      simp [hvL syms origs stk, hvR (.src L :: syms) (regOrigins srcs l ++ origs) stk, popSrc, pop, hopt, push, bypass,
        hby, bind, Except.bind, pure, Except.pure, regOrigins, List.append_assoc]
    | some f =>
      have hsf : supportedF (leaves l ++ leaves r) f = true := by cases k <;> simp at hkc <;> exact hkc
      have hq : ∀ o ∈ leaves l ++ leaves r, (qual srcs o).isSome = true := by
        intro o ho
        rcases List.mem_append.mp ho with h | h
        · exact leaves_qual_some srcs l hl hol o h
        · exact leaves_qual_some srcs r hr hor o h
      obtain ⟨on, hon⟩ := compileF_some srcs _ hq f hsf
      refine ⟨if opt.2.2 then .join R L on opt.1 opt.2.1 else .join L R on opt.1 opt.2.1,
        by simp [compile, hL, hR, hopt, hon], ?_⟩
      intro syms origs stk
      rw [visitSource]
      simp [hvL syms origs stk, hvR (.src L :: syms) (regOrigins srcs l ++ origs) stk, popSrc, pop,
        genFeature_spec srcs _ _ (hregJ origs) f on hsf hon syms stk, hopt, push, bypass,
        hby, bind, Except.bind, pure, Except.pure, regOrigins, List.append_assoc]
  | .set _ _ _, _, ho => by simp [isOrigin] at ho
  | .query _ _ _ _ _ _ _, _, ho => by simp [isOrigin] at ho
theorem visit_out (srcs : Sources) (hT : OnlyTables srcs = true) :
    ∀ (s : Source), wfOut srcs s = true →
      ∃ q, compile srcs s = some q ∧ isStmtSql q = true ∧ VisitOk srcs s q
  | .set l r k, hwf => by
    simp only [wfOut, Bool.and_eq_true] at hwf
    obtain ⟨⟨hl, hr⟩, hk⟩ := hwf
    obtain ⟨L, hL, _, hvL⟩ := visit_out srcs hT l hl
    obtain ⟨R, hR, _, hvR⟩ := visit_out srcs hT r hr
    have hby : srcs.lookup (.set l r k) = none := lookup_nontable srcs hT _ rfl
    have hreg : ∀ s, wfOut srcs s = true → regOrigins srcs s = [] := by
      intro s hs
      cases s <;> simp [wfOut] at hs <;> rfl
    refine ⟨.compound (setOfKind k) L R, by simp [compile, hL, hR, setOpOf_setOfKind k hk], rfl, ?_⟩
    intro syms origs stk
    have hvL' : visitSource srcs l ⟨some ⟨syms, origs⟩, stk⟩ = .ok ⟨some ⟨.src L :: syms, origs⟩, stk⟩ := by
      simpa [hreg l hl] using hvL syms origs stk
    have hvR' : visitSource srcs r ⟨some ⟨.src L :: syms, origs⟩, stk⟩ = .ok ⟨some ⟨.src R :: .src L :: syms, origs⟩, stk⟩ := by
      simpa [hreg r hr] using hvR (.src L :: syms) origs stk
    rw [visitSource]
    simp [hvL', hvR', popSrc, pop, setOpOf_setOfKind k hk, push, bypass, hby, bind, Except.bind, pure, Except.pure,
      regOrigins]
  | .query src sel pre grp post ord rows, hwf => by
    simp only [wfOut, Bool.and_eq_true] at hwf
    obtain ⟨⟨⟨⟨⟨⟨⟨hfrom, horig⟩, hnodup⟩, hsel⟩, hpre⟩, hgrp⟩, hpost⟩, hord⟩ := hwf
    have hinj : InjOn srcs (leaves src) := injOn_of_nodupB srcs _ hnodup
    obtain ⟨frm, hfrm, hvF⟩ := visit_from srcs hT src hfrom horig
    have hq := leaves_qual_some srcs src hfrom horig
    have hby : srcs.lookup (.query src sel pre grp post ord rows) = none := lookup_nontable srcs hT _ rfl
    have hreg : Registered srcs (regOrigins srcs src) (leaves src) := by
      simpa using registered_of_reg srcs src hfrom horig []
    have hin0 : LabelsIn ([] : Labels) (leaves src) := fun _ _ h => by cases h
    obtain ⟨whr, hW, _, _⟩ := compileFO_spec srcs _ [] hinj hin0 hq pre hpre
    obtain ⟨g, hG, _, _, _, _⟩ := compileFs_spec srcs _ [] hinj hin0 hq grp hgrp
    obtain ⟨hav, hH, _, _⟩ := compileFO_spec srcs _ [] hinj hin0 hq post hpost
    obtain ⟨o, hO, _, _⟩ := compileOrd_spec srcs _ [] hinj hin0 hq ord hord
    -- the projection
    have hitems : ∃ items : List SqlExpr, items.isEmpty = false ∧
        (if sel.isEmpty then compileElems srcs src else compileFs srcs sel) = some items ∧
        (sel.isEmpty = true → ∃ es, originElems src = some es ∧ ∀ (syms : List Sym) (stk : List (Option Ctx)),
          genElems es ⟨some ⟨syms, regOrigins srcs src⟩, stk⟩ =
            .ok (items, ⟨some ⟨syms, regOrigins srcs src⟩, stk⟩)) ∧
        (sel.isEmpty = false → ∀ (syms : List Sym) (stk : List (Option Ctx)),
          genFeatures sel ⟨some ⟨syms, regOrigins srcs src⟩, stk⟩ =
            .ok (items, ⟨some ⟨syms, regOrigins srcs src⟩, stk⟩)) := by
      by_cases he : sel.isEmpty = true
      · simp only [he, if_true] at hsel ⊢
        cases hoe : originElems src with
        | none => simp [hoe] at hsel
        | some es =>
          have hne : es.isEmpty = false := by simpa [hoe] using hsel
          have hles := originElems_leaves src es hoe
          obtain ⟨items, hI, _, _, _, hIe⟩ := compileFs_spec srcs _ [] hinj hin0 hq (elemFeatures es)
            (supportedFs_elemFeatures _ es hles)
          rw [compileFs_elemFeatures] at hI
          refine ⟨items, by rw [hIe, elemFeatures_isEmpty, hne], by simp [compileElems, hoe, hI], ?_, ?_⟩
          · intro _
            exact ⟨es, rfl, fun syms stk => genElems_spec srcs _ _ hreg es items hles hI syms stk⟩
          · intro h; simp at h
      · have he' : sel.isEmpty = false := by simpa using he
        simp only [he', Bool.false_eq_true, if_false] at hsel ⊢
        obtain ⟨items, hI, _, _, _, hIe⟩ := compileFs_spec srcs _ [] hinj hin0 hq sel hsel
        refine ⟨items, by rw [hIe, he'], hI, ?_, ?_⟩
        · intro h; simp at h
        · intro _ syms stk
          exact genFeatures_spec srcs _ _ hreg sel items hsel hI syms stk
    obtain ⟨items, hne, hIc, hIvE, hIvF⟩ := hitems
    have hne' : ¬ items = [] := by
      intro h; subst h; simp at hne
    refine ⟨.select items frm whr g hav o (rowsOpts rows).1 (rowsOpts rows).2, ?_, rfl, ?_⟩
    · rw [compile]
      simp only [hfrm, hW, hG, hH, hO, Option.pure_def, Option.bind_eq_bind, Option.bind_some]
      by_cases he : sel.isEmpty = true
      · simp only [he, if_true] at hIc ⊢
        rw [hIc]; simp [hne']
      · have he' : sel.isEmpty = false := by simpa using he
        simp only [he', Bool.false_eq_true, if_false] at hIc ⊢
        rw [hIc]; simp [hne']
    · intro syms origs stk
      rw [visitSource]
      simp only [enter]
      rw [show (visitSource srcs src ⟨some {}, some ⟨syms, origs⟩ :: stk⟩) =
        .ok ⟨some ⟨[.src frm], regOrigins srcs src⟩, some ⟨syms, origs⟩ :: stk⟩ from by
          simpa using hvF [] [] (some ⟨syms, origs⟩ :: stk)]
      simp only [bind, Except.bind]
      by_cases he : sel.isEmpty = true
      · obtain ⟨es, hoe, hgen⟩ := hIvE he
        simp only [he, if_true, hoe, hgen [.src frm] (some ⟨syms, origs⟩ :: stk)]
        simp [hne, genFeatureOpt_spec srcs _ _ hreg pre whr hpre hW, genFeatures_spec srcs _ _ hreg grp g hgrp hG,
          genFeatureOpt_spec srcs _ _ hreg post hav hpost hH, genOrderings_spec srcs _ _ hreg ord o hord hO,
          popSrc, pop, exit, push, bypass, hby, bind, Except.bind, pure, Except.pure, regOrigins]
      · have he' : sel.isEmpty = false := by simpa using he
        simp only [he', Bool.false_eq_true, if_false, hIvF he' [.src frm] (some ⟨syms, origs⟩ :: stk)]
        simp [hne, genFeatureOpt_spec srcs _ _ hreg pre whr hpre hW, genFeatures_spec srcs _ _ hreg grp g hgrp hG,
          genFeatureOpt_spec srcs _ _ hreg post hav hpost hH, genOrderings_spec srcs _ _ hreg ord o hord hO,
          popSrc, pop, exit, push, bypass, hby, bind, Except.bind, pure, Except.pure, regOrigins]
end

end ForML.C06
