/-
C14 — helper lemmas, part 11: `Factors.merge` with its sameness test as a parameter (`factorsPG`).  With structural
identity it is the `factorsP` of the development; with the hash test of /repo HEAD (`sameHash`) it agrees with it on
every condition all of whose integer literals are their own CPython hash (`plainP`: no `-1`, nothing beyond ±(2^61-2)).
Used by `ForML.Props.C14` (`C14_factors_structural`, `C14_factors_hash_partial`).
-/
import ForML.Lemmas.C14Factors

namespace ForML.PushDown
open ForML.Dsl

theorem mergeFG_structural (op : Op) (l r : FMap) : mergeFG (fun a b => decide (a = b)) op l r = mergeF op l r := by
  simp [mergeFG, mergeF]

theorem orFG_structural (l r : FMap) : orFG (fun a b => decide (a = b)) l r = orF l r := by
  simp [orFG, orF]

theorem factorsPG_structural (len : Bool) : ∀ p : Pred, factorsPG (fun a b => decide (a = b)) len p = factorsP len p
  | .atom f => rfl
  | .other f => rfl
  | .and a b => by
    simp only [factorsPG, factorsP, factorsPG_structural len a, factorsPG_structural len b, mergeFG_structural, andF]
  | .or a b => by
    simp only [factorsPG, factorsP, factorsPG_structural len a, factorsPG_structural len b, orFG_structural]

/-- a feature that is its own hash key: hash equality with another such feature is identity -/
def plain (f : Feature) : Bool := hashKey f == f

theorem sameHash_plain {a b : Feature} (ha : plain a = true) (hb : plain b = true) : sameHash a b = decide (a = b) := by
  simp only [plain, beq_iff_eq] at ha hb
  simp only [sameHash, ha, hb]
  by_cases h : a = b
  · subst h
    simp
  · simp [h]

theorem plain_binop (op : Op) {a b : Feature} (ha : plain a = true) (hb : plain b = true) : plain (binop op a b) = true := by
  simp only [plain, beq_iff_eq] at ha hb ⊢
  simp [binop, hashKey, hashKeyL, ha, hb]

/-- every atom of the boolean skeleton is plain -/
def plainP : Pred → Bool
  | .atom f => plain f
  | .other _ => true
  | .and a b => plainP a && plainP b
  | .or a b => plainP a && plainP b

def PlainMap (m : FMap) : Prop := ∀ x ∈ m, plain x.2 = true

theorem mergeFG_plain (op : Op) {l r : FMap} (hl : PlainMap l) (hr : PlainMap r) :
    mergeFG sameHash op l r = mergeF op l r ∧ PlainMap (mergeF op l r) := by
  have heq : mergeFG sameHash op l r = mergeF op l r := by
    unfold mergeFG mergeF
    congr 1
    apply List.map_congr_left
    intro kv hkv
    cases hb : r.lookup kv.1 with
    | none => rfl
    | some b =>
      simp only []
      rw [sameHash_plain (hl kv hkv) (hr _ (mem_of_lookup hb))]
      simp
  refine ⟨heq, ?_⟩
  intro x hx
  obtain ⟨t, f⟩ := x
  rcases mem_mergeF hx with ⟨h, _⟩ | ⟨h, _⟩ | ⟨a, b, h1, h2, rfl⟩ | ⟨h, _⟩
  · exact hl _ h
  · exact hl _ h
  · exact plain_binop op (hl _ h1) (hr _ h2)
  · exact hr _ h

theorem filterMap_congr' {α β : Type} {f g : α → Option β} :
    ∀ {l : List α}, (∀ a ∈ l, f a = g a) → l.filterMap f = l.filterMap g
  | [], _ => rfl
  | a :: l, h => by
    simp only [List.filterMap_cons, h a List.mem_cons_self]
    rw [filterMap_congr' (fun b hb => h b (List.mem_cons_of_mem _ hb))]

theorem orFG_plain {l r : FMap} (hl : PlainMap l) (hr : PlainMap r) :
    orFG sameHash l r = orF l r ∧ PlainMap (orF l r) := by
  have heq : orFG sameHash l r = orF l r := by
    unfold orFG orF
    apply filterMap_congr'
    intro kv hkv
    cases hb : r.lookup kv.1 with
    | none => rfl
    | some b =>
      simp only []
      rw [sameHash_plain (hl kv hkv) (hr _ (mem_of_lookup hb))]
      simp
  refine ⟨heq, ?_⟩
  intro x hx
  obtain ⟨t, f⟩ := x
  rcases mem_orF hx with ⟨h, _⟩ | ⟨a, b, h1, h2, rfl⟩
  · exact hl _ h
  · exact plain_binop .or (hl _ h1) (hr _ h2)

theorem primitive_plain {f : Feature} (h : plain f = true) : PlainMap (primitive f) := by
  intro x hx
  obtain ⟨t, g⟩ := x
  rw [(primitive_ok hx).1]
  exact h

/-- on conditions without hash-colliding literals the hash test and structural identity yield the same factors -/
theorem factorsPG_hash_plain (len : Bool) :
    ∀ p : Pred, plainP p = true → factorsPG sameHash len p = factorsP len p ∧
      ∀ m, factorsP len p = .ok m → PlainMap m
  | .atom f, h => ⟨rfl, fun m hm => by
      simp only [factorsP, Except.ok.injEq] at hm
      exact hm ▸ primitive_plain h⟩
  | .other f, _ => ⟨rfl, fun m hm => by
      cases len <;> simp [factorsP] at hm
      subst hm
      intro x hx
      simp at hx⟩
  | .and a b, h => by
    simp only [plainP, Bool.and_eq_true] at h
    have iha := factorsPG_hash_plain len a h.1
    have ihb := factorsPG_hash_plain len b h.2
    simp only [factorsPG, factorsP, iha.1, ihb.1]
    cases ha : factorsP len a with
    | error e => exact ⟨rfl, fun m hm => by simp at hm⟩
    | ok l =>
      cases hb : factorsP len b with
      | error e => exact ⟨rfl, fun m hm => by simp at hm⟩
      | ok r =>
        have hm := mergeFG_plain .and (iha.2 l ha) (ihb.2 r hb)
        refine ⟨by simp [hm.1, andF], fun m hmm => ?_⟩
        simp only [Except.ok.injEq] at hmm
        exact hmm ▸ hm.2
  | .or a b, h => by
    simp only [plainP, Bool.and_eq_true] at h
    have iha := factorsPG_hash_plain len a h.1
    have ihb := factorsPG_hash_plain len b h.2
    simp only [factorsPG, factorsP, iha.1, ihb.1]
    cases ha : factorsP len a with
    | error e => exact ⟨rfl, fun m hm => by simp at hm⟩
    | ok l =>
      cases hb : factorsP len b with
      | error e => exact ⟨rfl, fun m hm => by simp at hm⟩
      | ok r =>
        have hm := orFG_plain (iha.2 l ha) (ihb.2 r hb)
        refine ⟨by simp [hm.1], fun m hmm => ?_⟩
        simp only [Except.ok.injEq] at hmm
        exact hmm ▸ hm.2

/-! ### conjunctions: whatever the sameness test, a lost conjunct is harmless

`merge` under AND keeps `left[k]` alone when the test calls the two factors the same.  For a conjunction that is a weaker
filter, never a wrong one: on every condition without a disjunction every factor produced with **any** sameness test
(the hash test of /repo HEAD included) is sound.  Only `Or.factors` (a lost disjunct) makes the hash test unsafe. -/

/-- the boolean skeleton contains no disjunction -/
def orFree : Pred → Bool
  | .atom _ => true
  | .other _ => true
  | .and a b => orFree a && orFree b
  | .or _ _ => false

theorem mem_mergeFG {same : Feature → Feature → Bool} {op : Op} {l r : FMap} {t : Source} {f : Feature}
    (h : (t, f) ∈ mergeFG same op l r) :
    (t, f) ∈ l ∨ (t, f) ∈ r ∨ ∃ a b, (t, a) ∈ l ∧ (t, b) ∈ r ∧ f = binop op a b := by
  unfold mergeFG at h
  rcases List.mem_append.mp h with h | h
  · obtain ⟨kv, hkv, heq⟩ := List.mem_map.mp h
    obtain ⟨k, a⟩ := kv
    cases hl : r.lookup k with
    | none =>
      simp only [hl] at heq
      cases heq
      exact Or.inl hkv
    | some b =>
      have hb := mem_of_lookup hl
      cases hab : same a b with
      | true =>
        simp only [hl, hab, if_true] at heq
        cases heq
        exact Or.inl hkv
      | false =>
        simp only [hl, hab, Bool.false_eq_true, if_false] at heq
        cases heq
        exact Or.inr (Or.inr ⟨a, b, hkv, hb, rfl⟩)
  · exact Or.inr (Or.inl (List.mem_filter.mp h).1)

/-- on a condition without a disjunction the factors are sound for every sameness test -/
theorem factorsPG_conj_sound (same : Feature → Feature → Bool) (len : Bool) (S : Sem) :
    ∀ (p : Pred), orFree p = true → ∀ (m : FMap), factorsPG same len p = .ok m → ∀ t f, (t, f) ∈ m → FactorOK S p t f
  | .atom g, _, m, h, t, f, hm => by
    simp only [factorsPG, Except.ok.injEq] at h
    subst h
    obtain ⟨rfl, ht, hown, hne⟩ := primitive_ok hm
    exact ⟨ht, hown, hne, fun e he => by simpa [elemsP] using he, fun env he => by simpa [evalP] using he⟩
  | .other g, _, m, h, t, f, hm => by
    simp only [factorsPG] at h
    cases len <;> simp at h
    subst h
    simp at hm
  | .or a b, ho, _, _, _, _, _ => by simp [orFree] at ho
  | .and a b, ho, m, h, t, f, hm => by
    simp only [orFree, Bool.and_eq_true] at ho
    simp only [factorsPG] at h
    cases ha : factorsPG same len a with
    | error e => simp [ha] at h
    | ok l =>
      cases hb : factorsPG same len b with
      | error e => simp [ha, hb] at h
      | ok r =>
        simp only [ha, hb, Except.ok.injEq] at h
        subst h
        have iha := factorsPG_conj_sound same len S a ho.1 l ha
        have ihb := factorsPG_conj_sound same len S b ho.2 r hb
        have lft : ∀ f, (t, f) ∈ l → FactorOK S (.and a b) t f := fun f hf =>
          let k := iha t f hf
          ⟨k.table, k.own, k.nonempty, fun e he => by simp [elemsP, k.sub e he],
           fun env he => k.sound env (and3_true.mp (by simpa [evalP] using he)).1⟩
        have rgt : ∀ f, (t, f) ∈ r → FactorOK S (.and a b) t f := fun f hf =>
          let k := ihb t f hf
          ⟨k.table, k.own, k.nonempty, fun e he => by simp [elemsP, k.sub e he],
           fun env he => k.sound env (and3_true.mp (by simpa [evalP] using he)).2⟩
        rcases mem_mergeFG hm with h1 | h1 | ⟨fa, fb, h1, h2, rfl⟩
        · exact lft f h1
        · exact rgt f h1
        · have ka := lft fa h1
          have kb := rgt fb h2
          refine ⟨ka.table, ?_, binop_nonempty _ ka.nonempty, ?_, ?_⟩
          · intro e he
            rcases (elems_binop _ _ _ _).mp he with he | he
            · exact ka.own e he
            · exact kb.own e he
          · intro e he
            rcases (elems_binop _ _ _ _).mp he with he | he
            · exact ka.sub e he
            · exact kb.sub e he
          · intro env he
            rw [eval_binop_and]
            exact and3_true.mpr ⟨ka.sound env he, kb.sound env he⟩

/-! ### disjunctions: what the sameness test has to guarantee

`Factors.__or__` keeps `left[k]` alone when the test calls the two factors the same.  That is sound exactly when the right
factor being TRUE forces the left one to be TRUE (`ImpliedTest`): structural identity has it, the hash test has not. -/

/-- whenever the test calls `a` and `b` the same, every environment on which `b` is TRUE makes `a` TRUE -/
def ImpliedTest (S : Sem) (same : Feature → Feature → Bool) : Prop :=
  ∀ a b, same a b = true → ∀ env, eval S env b = .bool true → eval S env a = .bool true

theorem mem_orFG {same : Feature → Feature → Bool} {l r : FMap} {t : Source} {f : Feature} (h : (t, f) ∈ orFG same l r) :
    (∃ b, (t, f) ∈ l ∧ (t, b) ∈ r ∧ same f b = true) ∨ (∃ a b, (t, a) ∈ l ∧ (t, b) ∈ r ∧ f = binop .or a b) := by
  unfold orFG at h
  obtain ⟨kv, hkv, heq⟩ := List.mem_filterMap.mp h
  obtain ⟨k, a⟩ := kv
  cases hl : r.lookup k with
  | none => simp [hl] at heq
  | some b =>
    have hb := mem_of_lookup hl
    cases hab : same a b with
    | true =>
      simp only [hl, hab, if_true, Option.some.injEq] at heq
      cases heq
      exact Or.inl ⟨b, hkv, hb, hab⟩
    | false =>
      simp only [hl, hab, Bool.false_eq_true, if_false, Option.some.injEq] at heq
      cases heq
      exact Or.inr ⟨a, b, hkv, hb, rfl⟩

/-- every condition, every sameness test with `ImpliedTest`: the factors are sound -/
theorem factorsPG_sound (same : Feature → Feature → Bool) (len : Bool) (S : Sem) (hsame : ImpliedTest S same) :
    ∀ (p : Pred) (m : FMap), factorsPG same len p = .ok m → ∀ t f, (t, f) ∈ m → FactorOK S p t f
  | .atom g, m, h, t, f, hm => by
    simp only [factorsPG, Except.ok.injEq] at h
    subst h
    obtain ⟨rfl, ht, hown, hne⟩ := primitive_ok hm
    exact ⟨ht, hown, hne, fun e he => by simpa [elemsP] using he, fun env he => by simpa [evalP] using he⟩
  | .other g, m, h, t, f, hm => by
    simp only [factorsPG] at h
    cases len <;> simp at h
    subst h
    simp at hm
  | .and a b, m, h, t, f, hm => by
    simp only [factorsPG] at h
    cases ha : factorsPG same len a with
    | error e => simp [ha] at h
    | ok l =>
      cases hb : factorsPG same len b with
      | error e => simp [ha, hb] at h
      | ok r =>
        simp only [ha, hb, Except.ok.injEq] at h
        subst h
        have iha := factorsPG_sound same len S hsame a l ha
        have ihb := factorsPG_sound same len S hsame b r hb
        have lft : ∀ f, (t, f) ∈ l → FactorOK S (.and a b) t f := fun f hf =>
          let k := iha t f hf
          ⟨k.table, k.own, k.nonempty, fun e he => by simp [elemsP, k.sub e he],
           fun env he => k.sound env (and3_true.mp (by simpa [evalP] using he)).1⟩
        have rgt : ∀ f, (t, f) ∈ r → FactorOK S (.and a b) t f := fun f hf =>
          let k := ihb t f hf
          ⟨k.table, k.own, k.nonempty, fun e he => by simp [elemsP, k.sub e he],
           fun env he => k.sound env (and3_true.mp (by simpa [evalP] using he)).2⟩
        rcases mem_mergeFG hm with h1 | h1 | ⟨fa, fb, h1, h2, rfl⟩
        · exact lft f h1
        · exact rgt f h1
        · have ka := lft fa h1
          have kb := rgt fb h2
          refine ⟨ka.table, ?_, binop_nonempty _ ka.nonempty, ?_, ?_⟩
          · intro e he
            rcases (elems_binop _ _ _ _).mp he with he | he
            · exact ka.own e he
            · exact kb.own e he
          · intro e he
            rcases (elems_binop _ _ _ _).mp he with he | he
            · exact ka.sub e he
            · exact kb.sub e he
          · intro env he
            rw [eval_binop_and]
            exact and3_true.mpr ⟨ka.sound env he, kb.sound env he⟩
  | .or a b, m, h, t, f, hm => by
    simp only [factorsPG] at h
    cases ha : factorsPG same len a with
    | error e => simp [ha] at h
    | ok l =>
      cases hb : factorsPG same len b with
      | error e => simp [ha, hb] at h
      | ok r =>
        simp only [ha, hb, Except.ok.injEq] at h
        subst h
        have iha := factorsPG_sound same len S hsame a l ha
        have ihb := factorsPG_sound same len S hsame b r hb
        rcases mem_orFG hm with ⟨fb, h1, h2, hs⟩ | ⟨fa, fb, h1, h2, rfl⟩
        · have ka := iha t f h1
          have kb := ihb t fb h2
          refine ⟨ka.table, ka.own, ka.nonempty, fun e he => by simp [elemsP, ka.sub e he], ?_⟩
          intro env he
          rcases or3_true.mp (by simpa [evalP] using he) with he | he
          · exact ka.sound env he
          · exact hsame f fb hs env (kb.sound env he)
        · have ka := iha t fa h1
          have kb := ihb t fb h2
          refine ⟨ka.table, ?_, binop_nonempty _ ka.nonempty, ?_, ?_⟩
          · intro e he
            rcases (elems_binop _ _ _ _).mp he with he | he
            · exact ka.own e he
            · exact kb.own e he
          · intro e he
            rcases (elems_binop _ _ _ _).mp he with he | he
            · simp [elemsP, ka.sub e he]
            · simp [elemsP, kb.sub e he]
          · intro env he
            rw [eval_binop_or]
            rcases or3_true.mp (by simpa [evalP] using he) with he | he
            · exact or3_true.mpr (Or.inl (ka.sound env he))
            · exact or3_true.mpr (Or.inr (kb.sound env he))

theorem impliedTest_structural (S : Sem) : ImpliedTest S (fun a b => decide (a = b)) := by
  intro a b h env hb
  have : a = b := by simpa using h
  exact this ▸ hb

end ForML.PushDown
