/-
C14 — helper lemmas, part 11: `Factors.merge` with its sameness test as a parameter (`factorsPG`).  With structural
identity it is the `factorsP` of the development; with the hash test of /repo HEAD (`sameHash`) it agrees with it on
every condition all of whose integer literals are their own CPython hash (`plainP`: no `-1`, nothing beyond ±(2^61-2)).
Used by `ForML.Props.C14` (`C14_factors_structural`, `C14_factors_hash_partial`).
-/
import ForML.Lemmas.C14Factors

namespace ForML.PushDown
open ForML.Dsl

theorem mergeFG_structural (op : Op) (l r : FMap) : mergeFG (fun a b => decide (a = b)) op l r = mergeF op l r := by
  simp [mergeFG, mergeF]

theorem orFG_structural (l r : FMap) : orFG (fun a b => decide (a = b)) l r = orF l r := by
  simp [orFG, orF]

theorem factorsPG_structural (len : Bool) : ∀ p : Pred, factorsPG (fun a b => decide (a = b)) len p = factorsP len p
  | .atom f => rfl
  | .other f => rfl
  | .and a b => by
    simp only [factorsPG, factorsP, factorsPG_structural len a, factorsPG_structural len b, mergeFG_structural, andF]
  | .or a b => by
    simp only [factorsPG, factorsP, factorsPG_structural len a, factorsPG_structural len b, orFG_structural]

/-- a feature that is its own hash key: hash equality with another such feature is identity -/
def plain (f : Feature) : Bool := hashKey f == f

theorem sameHash_plain {a b : Feature} (ha : plain a = true) (hb : plain b = true) : sameHash a b = decide (a = b) := by
  simp only [plain, beq_iff_eq] at ha hb
  simp only [sameHash, ha, hb]
  by_cases h : a = b
  · subst h
    simp
  · simp [h]

theorem plain_binop (op : Op) {a b : Feature} (ha : plain a = true) (hb : plain b = true) : plain (binop op a b) = true := by
  simp only [plain, beq_iff_eq] at ha hb ⊢
  simp [binop, hashKey, hashKeyL, ha, hb]

/-- every atom of the boolean skeleton is plain -/
def plainP : Pred → Bool
  | .atom f => plain f
  | .other _ => true
  | .and a b => plainP a && plainP b
  | .or a b => plainP a && plainP b

def PlainMap (m : FMap) : Prop := ∀ x ∈ m, plain x.2 = true

theorem mergeFG_plain (op : Op) {l r : FMap} (hl : PlainMap l) (hr : PlainMap r) :
    mergeFG sameHash op l r = mergeF op l r ∧ PlainMap (mergeF op l r) := by
  have heq : mergeFG sameHash op l r = mergeF op l r := by
    unfold mergeFG mergeF
    congr 1
    apply List.map_congr_left
    intro kv hkv
    cases hb : r.lookup kv.1 with
    | none => rfl
    | some b =>
      simp only []
      rw [sameHash_plain (hl kv hkv) (hr _ (mem_of_lookup hb))]
      simp
  refine ⟨heq, ?_⟩
  intro x hx
  obtain ⟨t, f⟩ := x
  rcases mem_mergeF hx with ⟨h, _⟩ | ⟨h, _⟩ | ⟨a, b, h1, h2, rfl⟩ | ⟨h, _⟩
  · exact hl _ h
  · exact hl _ h
  · exact plain_binop op (hl _ h1) (hr _ h2)
  · exact hr _ h

theorem filterMap_congr' {α β : Type} {f g : α → Option β} :
    ∀ {l : List α}, (∀ a ∈ l, f a = g a) → l.filterMap f = l.filterMap g
  | [], _ => rfl
  | a :: l, h => by
    simp only [List.filterMap_cons, h a List.mem_cons_self]
    rw [filterMap_congr' (fun b hb => h b (List.mem_cons_of_mem _ hb))]

theorem orFG_plain {l r : FMap} (hl : PlainMap l) (hr : PlainMap r) :
    orFG sameHash l r = orF l r ∧ PlainMap (orF l r) := by
  have heq : orFG sameHash l r = orF l r := by
    unfold orFG orF
    apply filterMap_congr'
    intro kv hkv
    cases hb : r.lookup kv.1 with
    | none => rfl
    | some b =>
      simp only []
      rw [sameHash_plain (hl kv hkv) (hr _ (mem_of_lookup hb))]
      simp
  refine ⟨heq, ?_⟩
  intro x hx
  obtain ⟨t, f⟩ := x
  rcases mem_orF hx with ⟨h, _⟩ | ⟨a, b, h1, h2, rfl⟩
  · exact hl _ h
  · exact plain_binop .or (hl _ h1) (hr _ h2)

theorem primitive_plain {f : Feature} (h : plain f = true) : PlainMap (primitive f) := by
  intro x hx
  obtain ⟨t, g⟩ := x
  rw [(primitive_ok hx).1]
  exact h

/-- on conditions without hash-colliding literals the hash test and structural identity yield the same factors -/
theorem factorsPG_hash_plain (len : Bool) :
    ∀ p : Pred, plainP p = true → factorsPG sameHash len p = factorsP len p ∧
      ∀ m, factorsP len p = .ok m → PlainMap m
  | .atom f, h => ⟨rfl, fun m hm => by
      simp only [factorsP, Except.ok.injEq] at hm
      exact hm ▸ primitive_plain h⟩
  | .other f, _ => ⟨rfl, fun m hm => by
      cases len <;> simp [factorsP] at hm
      subst hm
      intro x hx
      simp at hx⟩
  | .and a b, h => by
    simp only [plainP, Bool.and_eq_true] at h
    have iha := factorsPG_hash_plain len a h.1
    have ihb := factorsPG_hash_plain len b h.2
    simp only [factorsPG, factorsP, iha.1, ihb.1]
    cases ha : factorsP len a with
    | error e => exact ⟨rfl, fun m hm => by simp at hm⟩
    | ok l =>
      cases hb : factorsP len b with
      | error e => exact ⟨rfl, fun m hm => by simp at hm⟩
      | ok r =>
        have hm := mergeFG_plain .and (iha.2 l ha) (ihb.2 r hb)
        refine ⟨by simp [hm.1, andF], fun m hmm => ?_⟩
        simp only [Except.ok.injEq] at hmm
        exact hmm ▸ hm.2
  | .or a b, h => by
    simp only [plainP, Bool.and_eq_true] at h
    have iha := factorsPG_hash_plain len a h.1
    have ihb := factorsPG_hash_plain len b h.2
    simp only [factorsPG, factorsP, iha.1, ihb.1]
    cases ha : factorsP len a with
    | error e => exact ⟨rfl, fun m hm => by simp at hm⟩
    | ok l =>
      cases hb : factorsP len b with
      | error e => exact ⟨rfl, fun m hm => by simp at hm⟩
      | ok r =>
        have hm := orFG_plain (iha.2 l ha) (ihb.2 r hb)
        refine ⟨by simp [hm.1], fun m hmm => ?_⟩
        simp only [Except.ok.injEq] at hmm
        exact hmm ▸ hm.2

end ForML.PushDown
