/-
Helper lemmas for C15: the value-level cast (`pcast`, Model/EntryKind.lean), generic in the native-type table.
-/
import ForML.Model.EntryKind
set_option linter.unusedSimpArgs false
namespace ForML.Entry

/-- the class of the values the constructor behind `k._cast` returns (`bool(…)`, `int(…)`, `float(…)`,
`decimal.Decimal(…)`, `str(…)`, `….date()`, `pandas.to_datetime(…)`) -/
def ctorClass : Kind → VClass
  | .boolean => .bool | .integer => .int | .float => .float | .decimal => .decimal | .string => .str
  | .date => .date | .timestamp => .datetime

/-- what the theorems need of the native-type table: what the constructor of a kind returns is an instance of the
kind's native type -/
def TypeTable (isinst : Kind → VClass → Bool) : Prop := ∀ k, isinst k (ctorClass k) = true

theorem rawCast_class (k : Kind) (v w : PyVal) (h : rawCast k v = some w) : classOf w = ctorClass k := by
  cases k <;> simp only [rawCast, Option.map_eq_some_iff, Option.some.injEq] at h
  · subst h; rfl
  · obtain ⟨_, _, rfl⟩ := h; rfl
  · obtain ⟨_, _, rfl⟩ := h; rfl
  · obtain ⟨_, _, rfl⟩ := h; rfl
  · subst h; rfl
  · obtain ⟨_, _, rfl⟩ := h; rfl
  · obtain ⟨_, _, rfl⟩ := h; rfl

theorem pcast_hasKind (isinst : Kind → VClass → Bool) (ht : TypeTable isinst) (k : Kind) (v w : PyVal)
    (h : pcast isinst k v = some w) : hasKind isinst k w = true := by
  unfold pcast at h
  split at h
  · cases h; assumption
  · rw [hasKind, rawCast_class k v w h]; exact ht k

theorem pcast_shortcut (isinst : Kind → VClass → Bool) (k : Kind) (v : PyVal) (h : hasKind isinst k v = true) :
    pcast isinst k v = some v := by
  unfold pcast; rw [hasKind] at h; simp [h]

theorem pcast_none (isinst : Kind → VClass → Bool) (k : Kind) (v : PyVal) :
    pcast isinst k v = none ↔ hasKind isinst k v = false ∧ rawCast k v = none := by
  unfold pcast hasKind
  cases isinst k (classOf v) <;> simp

/-- the constructors keep what the value denotes, as far as the kind can express it (all kinds but `Boolean`) -/
theorem rawCast_den (k : Kind) (hk : k ≠ .boolean) (v w : PyVal) (x : Den)
    (hd : denAs k (den v) = some x) (h : rawCast k v = some w) : denAs k (den w) = some x := by
  cases k with
  | boolean => exact absurd rfl hk
  | integer =>
    cases v <;> try (rename_i t; cases t)
    all_goals simp_all [rawCast, pyInt, den, denAs]
    all_goals (try subst h) <;> simp_all [den, denAs]
  | float =>
    cases v <;> try (rename_i t; cases t)
    all_goals simp_all [rawCast, pyFloat, den, denAs]
    all_goals (try subst h) <;> simp_all [den, denAs]
  | decimal =>
    cases v <;> try (rename_i t; cases t)
    all_goals simp_all [rawCast, pyDecimal, den, denAs]
    all_goals (try subst h) <;> simp_all [den, denAs]
  | string =>
    cases v <;> try (rename_i t; cases t)
    all_goals simp_all [rawCast, pyStr, den, denAs]
    all_goals (try subst h) <;> simp_all [den, denAs]
  | date =>
    cases v <;> try (rename_i t; cases t)
    all_goals simp_all [rawCast, pyToDatetime, den, denAs]
    all_goals (try subst h) <;> simp_all [den, denAs]
  | timestamp =>
    cases v <;> try (rename_i t; cases t)
    all_goals simp_all [rawCast, pyToDatetime, den, denAs]
    all_goals (try subst h) <;> simp_all [den, denAs]

theorem pcast_den (isinst : Kind → VClass → Bool) (k : Kind) (hk : k ≠ .boolean) (v w : PyVal) (x : Den)
    (hd : denAs k (den v) = some x) (h : pcast isinst k v = some w) : denAs k (den w) = some x := by
  unfold pcast at h
  split at h
  · cases h; exact hd
  · exact rawCast_den k hk v w x hd h

end ForML.Entry
