/-
C07: lemmas about the argument-handling layer (Model/GrammarApi).

  `isort_perm`, `isort_sorted`           the stable sort by rank
  `find_primitive`                       scanning the sorted primitives finds the documented kind for every iteration
                                         order of `Primitive.__subkinds__`
  `reflectWith_eq`, `reflect_spec`       so `reflect` is order-free and equals `PyVal.kindSpec`
  `makeOrderings_terms/_pairs/_flat`     the three spellings of an ordering list make the same orderings
  `queryNew_terms`                       `Query.__new__` on made orderings = `checkQuery`
  `construct_query_eq`, `construct_join_eq`, `construct_set_eq`   `construct` goes through the API layer
-/
import ForML.Model.GrammarApi
import ForML.Lemmas.C07Main

namespace ForML.Dsl

/-! ### the sort -/

theorem insRank_perm (x : Kind) : (l : List Kind) → (insRank x l).Perm (x :: l)
  | [] => List.Perm.refl _
  | y :: ys => by
    unfold insRank
    split
    · exact List.Perm.refl _
    · exact ((insRank_perm x ys).cons y).trans (List.Perm.swap x y ys)

theorem isort_perm : (l : List Kind) → (isort l).Perm l
  | [] => List.Perm.refl _
  | x :: xs => by
    show (insRank x (isort xs)).Perm (x :: xs)
    exact (insRank_perm x (isort xs)).trans ((isort_perm xs).cons x)

theorem insRank_sorted (x : Kind) : (l : List Kind) → l.Pairwise (fun a b => a.rank ≤ b.rank) →
    (insRank x l).Pairwise (fun a b => a.rank ≤ b.rank)
  | [], _ => by simp [insRank]
  | y :: ys, h => by
    rw [List.pairwise_cons] at h
    unfold insRank
    split
    · rename_i hxy
      rw [List.pairwise_cons]
      refine ⟨fun b hb => ?_, List.pairwise_cons.mpr h⟩
      rcases List.mem_cons.mp hb with rfl | hb
      · exact hxy
      · exact Nat.le_trans hxy (h.1 b hb)
    · rename_i hxy
      rw [List.pairwise_cons]
      refine ⟨fun b hb => ?_, insRank_sorted x ys h.2⟩
      have := (insRank_perm x ys).mem_iff.mp hb
      rcases List.mem_cons.mp this with rfl | hb'
      · omega
      · exact h.1 b hb'

theorem isort_sorted : (l : List Kind) → (isort l).Pairwise (fun a b => a.rank ≤ b.rank)
  | [] => List.Pairwise.nil
  | x :: xs => insRank_sorted x (isort xs) (isort_sorted xs)

/-- in a list sorted by rank the first match is the one no other match undercuts -/
theorem find_sorted_min (p : Kind → Bool) (k0 : Kind) : (s : List Kind) →
    s.Pairwise (fun a b => a.rank ≤ b.rank) → k0 ∈ s → p k0 = true →
    (∀ k ∈ s, p k = true → k = k0 ∨ k0.rank < k.rank) → s.find? p = some k0
  | [], _, h, _, _ => by simp at h
  | y :: ys, hs, hm, hp, hu => by
    rw [List.pairwise_cons] at hs
    by_cases hy : p y = true
    · rcases hu y (List.mem_cons_self ..) hy with rfl | hlt
      · simp [List.find?, hy]
      · rcases List.mem_cons.mp hm with rfl | hm'
        · omega
        · have := hs.1 k0 hm'
          omega
    · have hne : k0 ≠ y := fun e => hy (e ▸ hp)
      have hm' : k0 ∈ ys := by
        rcases List.mem_cons.mp hm with h | h
        · exact absurd h hne
        · exact h
      simp only [List.find?, hy]
      exact find_sorted_min p k0 ys hs.2 hm' hp (fun k hk => hu k (List.mem_cons_of_mem _ hk))

/-- the kind the documentation gives a value of each python type -/
def PyTag.kind : PyTag → Option Kind
  | .bool => some .boolean | .int => some .integer | .float => some .float | .str => some .string
  | .decimal => some .decimal | .date => some .date | .datetime => some .timestamp
  | .none => Option.none | .seq => Option.none

/-- the finite facts about the seven primitives: among the kinds whose `__type__` matches a python type, the
documented one has the strictly smallest rank (and no kind matches `None` or a sequence) -/
def primOk (t : PyTag) : Bool :=
  match t.kind with
  | some k0 => primitiveKinds.contains k0 && t.isa k0 &&
      primitiveKinds.all (fun k => !t.isa k || k == k0 || decide (k0.rank < k.rank))
  | none => primitiveKinds.all (fun k => !t.isa k)

theorem primOk_all (t : PyTag) : primOk t = true := by cases t <;> decide

/-- for every iteration order of the set of primitive kinds, the rank-sorted scan finds the documented kind -/
theorem find_primitive (order : List Kind) (hp : order.Perm primitiveKinds) (t : PyTag) :
    (isort order).find? (t.isa ·) = t.kind := by
  have hperm : (isort order).Perm primitiveKinds := (isort_perm order).trans hp
  have hsorted := isort_sorted order
  have hmem : ∀ k, k ∈ isort order ↔ k ∈ primitiveKinds := fun k => hperm.mem_iff
  have hok := primOk_all t
  unfold primOk at hok
  cases hk : t.kind with
  | none =>
    rw [hk] at hok
    rw [List.find?_eq_none]
    intro k hkm
    have := List.all_eq_true.mp hok k ((hmem k).mp hkm)
    simpa using this
  | some k0 =>
    rw [hk] at hok
    simp only [Bool.and_eq_true, List.contains_iff_mem, List.all_eq_true, Bool.or_eq_true, Bool.not_eq_true',
      beq_iff_eq, decide_eq_true_eq] at hok
    obtain ⟨⟨h1, h2⟩, h3⟩ := hok
    apply find_sorted_min _ k0 _ hsorted ((hmem k0).mpr h1) h2
    intro k hkm hpk
    rcases h3 k ((hmem k).mp hkm) with (h | h) | h
    · rw [hpk] at h
      cases h
    · exact Or.inl h
    · exact Or.inr h

theorem reflectWith_spec (order : List Kind) (hp : order.Perm primitiveKinds) : (v : PyVal) →
    reflectWith order v = match v.kindSpec with
      | some k => Except.ok k
      | none => Except.error CtorErr.illtyped
  | .seq x => by
    simp only [reflectWith, find_primitive order hp, PyTag.kind, reflectWith_spec order hp x, PyVal.kindSpec]
    cases x.kindSpec <;> simp [bind, Except.bind]
  | .bool _ => by simp [reflectWith, find_primitive order hp, PyVal.tag, PyTag.kind, PyVal.kindSpec]
  | .int _ => by simp [reflectWith, find_primitive order hp, PyVal.tag, PyTag.kind, PyVal.kindSpec]
  | .float _ => by simp [reflectWith, find_primitive order hp, PyVal.tag, PyTag.kind, PyVal.kindSpec]
  | .str _ => by simp [reflectWith, find_primitive order hp, PyVal.tag, PyTag.kind, PyVal.kindSpec]
  | .decimal _ => by simp [reflectWith, find_primitive order hp, PyVal.tag, PyTag.kind, PyVal.kindSpec]
  | .date _ => by simp [reflectWith, find_primitive order hp, PyVal.tag, PyTag.kind, PyVal.kindSpec]
  | .datetime _ => by simp [reflectWith, find_primitive order hp, PyVal.tag, PyTag.kind, PyVal.kindSpec]
  | .none => by simp [reflectWith, find_primitive order hp, PyVal.tag, PyTag.kind, PyVal.kindSpec]
  | .emptySeq => by simp [reflectWith, find_primitive order hp, PyVal.tag, PyTag.kind, PyVal.kindSpec]

theorem reflect_spec (v : PyVal) : reflect v = match v.kindSpec with
    | some k => Except.ok k
    | none => Except.error CtorErr.illtyped :=
  reflectWith_spec primitiveKinds (List.Perm.refl _) v

theorem reflectWith_eq (order : List Kind) (hp : order.Perm primitiveKinds) (v : PyVal) :
    reflectWith order v = reflect v := by
  rw [reflectWith_spec order hp, reflect_spec]

theorem reflect_lit (v : Lit) : reflect v.toPy = Except.ok v.kind := by
  rw [reflect_spec]
  cases v <;> rfl

/-- the kind of the literal built from a value is the reflected kind -/
theorem literalOf_kind (v : PyVal) (f : Feature) (h : literalOf v = Except.ok f) : f.kindOf = reflect v := by
  cases v <;> simp only [literalOf, Except.ok.injEq] at h <;> try (subst h; simp [Feature.kindOf, reflect_spec, PyVal.kindSpec, Lit.kind])
  all_goals
    cases hr : reflect _ with
    | error e => simp [hr, bind, Except.bind] at h
    | ok k =>
      simp only [hr, bind, Except.bind, Except.ok.injEq] at h
      subst h
      simp [Feature.kindOf]

/-! ### `Ordering.make` -/

theorem step_ok (f : Feature) (d : Dir) (X : R (List Ordering)) (os : List Ordering) (c : Bool)
    (hX : X = (do guardG c; Except.ok os)) :
    (do let o ← mkOrdering f d; let os' ← X; (Except.ok (o :: os') : R (List Ordering))) =
      (do guardG (!f.isAlias && c); Except.ok (Ordering.mk f d :: os)) := by
  subst hX
  unfold mkOrdering
  cases f.isAlias <;> cases c <;> rfl

theorem makeOrderings_terms : (os : List Ordering) →
    makeOrderings (os.map Ordering.term) = (do guardG (os.all (fun o => !o.feature.isAlias)); Except.ok os)
  | [] => rfl
  | .mk f d :: os => by
    simp only [List.map_cons, Ordering.term, makeOrderings]
    exact step_ok f d _ os _ (makeOrderings_terms os)

theorem makeOrderings_pairs : (os : List Ordering) →
    makeOrderings (os.map (fun o => OTerm.pair o.feature (.enum o.dir))) =
      (do guardG (os.all (fun o => !o.feature.isAlias)); Except.ok os)
  | [] => rfl
  | .mk f d :: os => by
    simp only [List.map_cons, makeOrderings]
    exact step_ok f d _ os _ (makeOrderings_pairs os)

theorem makeOrderings_flat : (os : List Ordering) →
    makeOrderings (os.flatMap (fun o => [OTerm.feat o.feature, .dir (.enum o.dir)])) =
      (do guardG (os.all (fun o => !o.feature.isAlias)); Except.ok os)
  | [] => rfl
  | .mk f d :: os => by
    simp only [List.flatMap_cons, List.cons_append, List.nil_append, makeOrderings]
    exact step_ok f d _ os _ (makeOrderings_flat os)

/-- a direction in any accepted spelling is the member -/
theorem makeOrderings_pair_spelling (f : Feature) (a : DirArg) (d : Dir) (rest : List OTerm) (h : a.direction = Except.ok d) :
    makeOrderings (.pair f a :: rest) = makeOrderings (.pair f (.enum d) :: rest) := by
  simp only [makeOrderings]
  rw [h]
  rfl

theorem makeOrderings_feat_spelling (f : Feature) (s : String) (d : Dir) (rest : List OTerm)
    (h : (DirArg.str s).direction = Except.ok d) :
    makeOrderings (.feat f :: .dir (.str s) :: rest) = makeOrderings (.feat f :: .dir (.enum d) :: rest) := by
  simp only [makeOrderings, h]
  rfl

/-- an invalid spelling is the `ValueError`, whatever the feature is (`Direction(…)` is evaluated first) -/
theorem makeOrderings_bad_spelling (f : Feature) (s : String) (rest : List OTerm) (h : dirOfStr s = none) :
    makeOrderings (.feat f :: .dir (.str s) :: rest) = Except.error CtorErr.illtyped ∧
    makeOrderings (.pair f (.str s) :: rest) = Except.error CtorErr.illtyped := by
  simp [makeOrderings, DirArg.direction, h, bind, Except.bind]

/-- the features of whatever `Ordering.make` yields are operables -/
theorem mkOrdering_ok (f : Feature) (d : Dir) (o : Ordering) (h : mkOrdering f d = Except.ok o) :
    o = .mk f d ∧ f.isAlias = false := by
  unfold mkOrdering at h
  cases hf : f.isAlias <;> simp [hf, guardG, bind, Except.bind] at h
  exact ⟨h.symm, rfl⟩

theorem cons_operable (f : Feature) (d : Dir) (o : Ordering) (os : List Ordering) (h : mkOrdering f d = Except.ok o)
    (ih : os.all (fun o => !o.feature.isAlias) = true) : (o :: os).all (fun o => !o.feature.isAlias) = true := by
  obtain ⟨rfl, hf⟩ := mkOrdering_ok f d o h
  rw [List.all_cons, ih]
  simp [Ordering.feature, hf]

/-- the features of whatever `Ordering.make` yields are operables -/
theorem makeOrderings_operable : (ts : List OTerm) → (os : List Ordering) → makeOrderings ts = Except.ok os →
    os.all (fun o => !o.feature.isAlias) = true := by
  intro ts
  induction ts using makeOrderings.induct with
  | case1 => intro os h; simp only [makeOrderings, Except.ok.injEq] at h; subst h; rfl
  | case2 f e rest ih =>
    intro os h
    simp only [makeOrderings, bind_eq_ok, Except.ok.injEq] at h
    obtain ⟨o, ho, os', hos, rfl⟩ := h
    exact cons_operable f e o os' ho (ih os' hos)
  | case3 f s rest ih =>
    intro os h
    simp only [makeOrderings, bind_eq_ok, Except.ok.injEq] at h
    obtain ⟨d, _, o, ho, os', hos, rfl⟩ := h
    exact cons_operable f d o os' ho (ih os' hos)
  | case4 f rest h1 h2 ih =>
    intro os h
    rw [makeOrderings.eq_4 f rest h1 h2] at h
    simp only [bind_eq_ok, Except.ok.injEq] at h
    obtain ⟨o, ho, os', hos, rfl⟩ := h
    exact cons_operable f .asc o os' ho (ih os' hos)
  | case5 f a rest ih =>
    intro os h
    simp only [makeOrderings, bind_eq_ok, Except.ok.injEq] at h
    obtain ⟨d, _, o, ho, os', hos, rfl⟩ := h
    exact cons_operable f d o os' ho (ih os' hos)
  | case6 f d rest ih =>
    intro os h
    simp only [makeOrderings, bind_eq_ok, Except.ok.injEq] at h
    obtain ⟨o, ho, os', hos, rfl⟩ := h
    exact cons_operable f d o os' ho (ih os' hos)
  | case7 s tail hs => intro os h; simp [makeOrderings, hs] at h
  | case8 s tail hs => intro os h; simp [makeOrderings, hs] at h
  | case9 a tail ha =>
    intro os h
    cases a with
    | str s => exact absurd rfl (ha s)
    | enum _ | none => simp [makeOrderings] at h
  | case10 tail => intro os h; simp [makeOrderings] at h

/-- what `Ordering.make` yields is made again unchanged from the `Ordering` instances (the chained interface hands
the stored orderings to `Query.__new__` again) -/
theorem makeOrderings_idem (ts : List OTerm) (os : List Ordering) (h : makeOrderings ts = Except.ok os) :
    makeOrderings (os.map Ordering.term) = Except.ok os := by
  rw [makeOrderings_terms, makeOrderings_operable ts os h]
  rfl

/-! ### `Query.__new__`, `Join.__new__`, `Set.__new__` behind `construct` -/

theorem FeatureOpt.ofOption_toOption : (c : FeatureOpt) → FeatureOpt.ofOption c.toOption = c
  | .none => rfl
  | .some _ => rfl

theorem Orderings.ofList_toList : (os : Orderings) → Orderings.ofList os.toList = os
  | .nil => rfl
  | .cons o os => by simp [Orderings.toList, Orderings.ofList, Orderings.ofList_toList os]

/-- on made orderings `Query.__new__` is `checkQuery` -/
theorem queryNew_terms (eqv : Feature → Feature → Bool) (s : Source) (sel : List Feature) (pre : Option Feature)
    (grp : List Feature) (post : Option Feature) (ord : List Ordering) (rows : Option Rows) :
    queryNew eqv s sel pre grp post (ord.map Ordering.term) rows =
      (do checkQuery eqv s sel pre grp post ord
          Except.ok (.query s (Features.ofList sel) (FeatureOpt.ofOption pre) (Features.ofList grp)
            (FeatureOpt.ofOption post) (Orderings.ofList ord) rows)) := by
  simp only [queryNew, checkQuery, makeOrderings_terms]
  cases s.featuresOf with
  | error e => rfl
  | ok feats =>
    simp only [bind, Except.bind]
    cases guardG (subsetBy eqv (dissectAll Feature.isElem sel) (dissectAll Feature.isElem feats)) with
    | error e => rfl
    | ok _ =>
      cases checkFilter eqv (dissectAll Feature.isElem feats) Feature.isCumulative pre with
      | error e => rfl
      | ok _ =>
        cases checkGrouping eqv (dissectAll Feature.isElem feats) feats sel grp with
        | error e => rfl
        | ok _ =>
          cases checkFilter eqv (dissectAll Feature.isElem feats) Feature.isWindow post with
          | error e => rfl
          | ok _ =>
            simp only [List.all_nil, List.map_nil, guardG, dissectAll, List.foldl_nil, subsetBy, if_true]
            cases ord.all (fun o => !o.feature.isAlias) <;> simp

theorem construct_query_eq (eqv : Feature → Feature → Bool) (s : Source) (sel : Features) (pre : FeatureOpt) (grp : Features)
    (post : FeatureOpt) (ord : Orderings) (rows : Option Rows) :
    Source.construct eqv (.query s sel pre grp post ord rows) = (do
      let s' ← s.construct eqv
      let sel' ← sel.construct eqv
      let pre' ← pre.construct eqv
      let grp' ← grp.construct eqv
      let post' ← post.construct eqv
      let ord' ← ord.construct eqv
      queryNew eqv s' sel'.toList pre'.toOption grp'.toList post'.toOption (ord'.toList.map Ordering.term) rows) := by
  simp only [Source.construct, queryNew_terms, Features.ofList_toList, FeatureOpt.ofOption_toOption,
    Orderings.ofList_toList]

theorem construct_join_eq (eqv : Feature → Feature → Bool) (l r : Source) (k : JoinKind) (c : FeatureOpt) :
    Source.construct eqv (.join l r k c) = (do
      let l' ← l.construct eqv
      let r' ← r.construct eqv
      let c' ← c.construct eqv
      joinNew eqv l' r' (.enum k) c'.toOption) := by
  simp only [Source.construct, joinNew, JoinKindArg.kind, FeatureOpt.ofOption_toOption]
  rfl

theorem construct_set_eq (eqv : Feature → Feature → Bool) (l r : Source) (k : SetKind) :
    Source.construct eqv (.set l r k) = (do
      let l' ← l.construct eqv
      let r' ← r.construct eqv
      setNew l' r' k) := rfl

theorem JoinKind.ofWire_wire (k : JoinKind) : JoinKind.ofWire k.wire = some k := by
  cases k <;> rfl

/-- the string spelling of a join kind is the member: same checks, same stored statement -/
theorem joinNew_wire (eqv : Feature → Feature → Bool) (l r : Source) (k : JoinKind) (c : Option Feature) :
    joinNew eqv l r (.str k.wire) c = joinNew eqv l r (.enum k) c := by
  simp [joinNew, JoinKindArg.kind, JoinKind.ofWire_wire]

/-- any other string is the `ValueError` of `Join.Kind(kind)`, before any grammar check -/
theorem joinNew_bad (eqv : Feature → Feature → Bool) (l r : Source) (s : String) (c : Option Feature)
    (h : JoinKind.ofWire s = none) : joinNew eqv l r (.str s) c = Except.error CtorErr.illtyped := by
  simp [joinNew, JoinKindArg.kind, h, bind, Except.bind]

end ForML.Dsl
