/-
C01 — correctness of depth first search with a global `seen` list over an arbitrary successor function (`Segment.gdfs`),
for *any* finite graph (cyclic or not): started at an unseen node of a successor-closed universe `U` with fuel at least
the number of unseen nodes of `U`, it appends to `seen`, keeps it duplicate free and stays inside `U`; stated in the
usual closure form (`DfsOK`): every appended node has all its successors in the result and is reachable from a root.
Over an empty `seen` the result is therefore exactly the set of reachable nodes (`gdfs_reach`).
-/
import ForML.Model.Traversal

namespace ForML.Flow
namespace Segment

/-! ### the measure: members of the universe not yet seen -/

def unseenCnt (U seen : List Uid) : Nat := U.countP (fun x => !decide (x ∈ seen))

theorem countP_lt_of {α} {p q : α → Bool} {l : List α} (h : ∀ x ∈ l, p x = true → q x = true) {n : α} (hn : n ∈ l)
    (hq : q n = true) (hp : p n = false) : l.countP p < l.countP q := by
  induction l with
  | nil => cases hn
  | cons u r ih =>
    have hmono : r.countP p ≤ r.countP q := List.countP_mono_left (fun x hx => h x (List.mem_cons_of_mem _ hx))
    simp only [List.countP_cons]
    rcases List.mem_cons.mp hn with rfl | hr
    · simp only [hq, hp, if_true]
      simp
      omega
    · have := ih (fun x hx => h x (List.mem_cons_of_mem _ hx)) hr
      have hu := h u (by simp)
      cases hpu : p u <;> cases hqu : q u <;> simp_all <;> omega

theorem unseenCnt_mono {U a b : List Uid} (h : ∀ x ∈ a, x ∈ b) : unseenCnt U b ≤ unseenCnt U a := by
  unfold unseenCnt
  apply List.countP_mono_left
  intro x _ hx
  simp only [Bool.not_eq_true', decide_eq_false_iff_not] at hx ⊢
  exact fun hxa => hx (h x hxa)

theorem unseenCnt_lt {U a : List Uid} {n : Uid} (hn : n ∈ U) (ha : n ∉ a) :
    unseenCnt U (a ++ [n]) < unseenCnt U a := by
  unfold unseenCnt
  apply countP_lt_of (n := n) _ hn
  · simp [ha]
  · simp
  · intro x _ hx
    simp only [Bool.not_eq_true', decide_eq_false_iff_not] at hx ⊢
    exact fun hxa => hx (List.mem_append_left _ hxa)

theorem unseenCnt_pos {U a : List Uid} {n : Uid} (hn : n ∈ U) (ha : n ∉ a) : 0 < unseenCnt U a := by
  have := unseenCnt_lt hn ha
  omega

theorem unseenCnt_nil (U : List Uid) : unseenCnt U [] = U.length := by
  unfold unseenCnt
  induction U with
  | nil => rfl
  | cons u r ih => simp

/-! ### what a (partial) search guarantees -/

/-- `out` is `seen` extended by a search from `roots` -/
structure DfsOK (succ : Uid → List Uid) (U seen out roots : List Uid) : Prop where
  ext : ∃ new, out = seen ++ new
  nodup : seen.Nodup → out.Nodup
  univ : ∀ x ∈ out, x ∈ seen ∨ x ∈ U
  closed : ∀ x ∈ out, x ∉ seen → ∀ y ∈ succ x, y ∈ out
  rootsIn : ∀ m ∈ roots, m ∈ out
  sound : ∀ x ∈ out, x ∉ seen → ∃ m ∈ roots, Reach succ m x

theorem DfsOK.sub {succ U seen out roots} (h : DfsOK succ U seen out roots) : ∀ x ∈ seen, x ∈ out := by
  obtain ⟨new, rfl⟩ := h.ext
  exact fun x hx => List.mem_append_left _ hx

theorem DfsOK.skip {succ U seen} {m : Uid} (hm : m ∈ seen) : DfsOK succ U seen seen [m] :=
  ⟨⟨[], by simp⟩, id, fun _ hx => Or.inl hx, fun _ hx hn => absurd hx hn,
   (fun x hx => by rw [List.mem_singleton.mp hx]; exact hm), fun _ hx hn => absurd hx hn⟩

theorem DfsOK.nil {succ U seen} : DfsOK succ U seen seen [] :=
  ⟨⟨[], by simp⟩, id, fun _ hx => Or.inl hx, fun _ hx hn => absurd hx hn,
   (fun _ hx => by cases hx), fun _ hx hn => absurd hx hn⟩

theorem DfsOK.trans {succ U a b c r₁ r₂} (h₁ : DfsOK succ U a b r₁) (h₂ : DfsOK succ U b c r₂) :
    DfsOK succ U a c (r₁ ++ r₂) := by
  refine ⟨?_, fun h => h₂.nodup (h₁.nodup h), ?_, ?_, ?_, ?_⟩
  · obtain ⟨n₁, rfl⟩ := h₁.ext
    obtain ⟨n₂, rfl⟩ := h₂.ext
    exact ⟨n₁ ++ n₂, by simp⟩
  · intro x hx
    rcases h₂.univ x hx with hb | hU
    · exact h₁.univ x hb
    · exact Or.inr hU
  · intro x hx hna y hy
    by_cases hb : x ∈ b
    · exact h₂.sub y (h₁.closed x hb hna y hy)
    · exact h₂.closed x hx hb y hy
  · intro m hm
    rcases List.mem_append.mp hm with h | h
    · exact h₂.sub m (h₁.rootsIn m h)
    · exact h₂.rootsIn m h
  · intro x hx hna
    by_cases hb : x ∈ b
    · obtain ⟨m, hm, hr⟩ := h₁.sound x hb hna
      exact ⟨m, List.mem_append_left _ hm, hr⟩
    · obtain ⟨m, hm, hr⟩ := h₂.sound x hx hb
      exact ⟨m, List.mem_append_right _ hm, hr⟩

theorem Reach.head {succ} {a b c : Uid} (hab : b ∈ succ a) (h : Reach succ b c) : Reach succ a c := by
  induction h with
  | refl => exact .step .refl hab
  | step _ hc ih => exact .step ih hc

/-- from the search through the successors of `n` to the search from `n` -/
theorem DfsOK.node {succ U seen out} {n : Uid} (hU : n ∈ U) (hn : n ∉ seen)
    (h : DfsOK succ U (seen ++ [n]) out (succ n)) : DfsOK succ U seen out [n] := by
  have hnout : n ∈ out := h.sub n (by simp)
  refine ⟨?_, ?_, ?_, ?_, ?_, ?_⟩
  · obtain ⟨new, rfl⟩ := h.ext
    exact ⟨[n] ++ new, by simp⟩
  · intro hs
    apply h.nodup
    rw [List.nodup_append]
    exact ⟨hs, by simp, fun a ha b hb => by
      rw [List.mem_singleton.mp hb]
      rintro rfl
      exact hn ha⟩
  · intro x hx
    rcases h.univ x hx with hs | hu
    · rcases List.mem_append.mp hs with hs | hs
      · exact Or.inl hs
      · rw [List.mem_singleton.mp hs]; exact Or.inr hU
    · exact Or.inr hu
  · intro x hx hns y hy
    by_cases hxn : x = n
    · subst hxn
      exact h.rootsIn y hy
    · exact h.closed x hx (by simp [hns, hxn]) y hy
  · intro m hm
    rw [List.mem_singleton.mp hm]
    exact hnout
  · intro x hx hns
    refine ⟨n, by simp, ?_⟩
    by_cases hxn : x = n
    · subst hxn
      exact .refl
    · obtain ⟨m, hm, hr⟩ := h.sound x hx (by simp [hns, hxn])
      exact Reach.head hm hr

/-! ### the search -/

theorem gdfs_ok {succ : Uid → List Uid} {U : List Uid} (hcl : ∀ n ∈ U, ∀ m ∈ succ n, m ∈ U) :
    ∀ (f : Nat) (seen : List Uid) (n : Uid), n ∈ U → n ∉ seen → unseenCnt U seen ≤ f →
      DfsOK succ U seen (gdfs succ f seen n) [n] := by
  intro f
  induction f with
  | zero =>
    intro seen n hU hn hf
    have := unseenCnt_pos hU hn
    omega
  | succ f ih =>
    intro seen n hU hn hf
    apply DfsOK.node hU hn
    have hacc : unseenCnt U (seen ++ [n]) ≤ f := by
      have := unseenCnt_lt hU hn
      omega
    have hsub : ∀ m ∈ succ n, m ∈ U := hcl n hU
    show DfsOK succ U (seen ++ [n])
      ((succ n).foldl (fun seen m => if seen.contains m then seen else gdfs succ f seen m) (seen ++ [n])) (succ n)
    generalize seen ++ [n] = acc at hacc
    generalize succ n = l at hsub
    induction l generalizing acc with
    | nil => exact DfsOK.nil
    | cons m l ihl =>
      simp only [List.foldl_cons]
      have hm : m ∈ U := hsub m (by simp)
      have h1 : DfsOK succ U acc (if acc.contains m then acc else gdfs succ f acc m) [m] := by
        by_cases hc : m ∈ acc
        · simp only [List.contains_iff_mem, hc, if_true]
          exact DfsOK.skip hc
        · simp only [List.contains_iff_mem, hc, if_false]
          exact ih acc m hm hc hacc
      have hacc' : unseenCnt U (if acc.contains m then acc else gdfs succ f acc m) ≤ f :=
        Nat.le_trans (unseenCnt_mono h1.sub) hacc
      have h2 := ihl _ hacc' (fun x hx => hsub x (List.mem_cons_of_mem _ hx))
      exact h1.trans h2

/-- the result of a complete search from `a` over an empty `seen`: duplicate free, inside the universe, exactly the
reachable nodes -/
theorem gdfs_reach {succ : Uid → List Uid} {U : List Uid} (hcl : ∀ n ∈ U, ∀ m ∈ succ n, m ∈ U) {a : Uid} (ha : a ∈ U)
    {f : Nat} (hf : U.length ≤ f) :
    (gdfs succ f [] a).Nodup ∧ (∀ x ∈ gdfs succ f [] a, x ∈ U) ∧ ∀ x, x ∈ gdfs succ f [] a ↔ Reach succ a x := by
  have h := gdfs_ok hcl f [] a ha (by simp) (by rw [unseenCnt_nil]; exact hf)
  refine ⟨h.nodup List.nodup_nil, fun x hx => (h.univ x hx).resolve_left (by simp), fun x => ⟨fun hx => ?_, fun hr => ?_⟩⟩
  · obtain ⟨m, hm, hr⟩ := h.sound x hx (by simp)
    rw [List.mem_singleton.mp hm] at hr
    exact hr
  · induction hr with
    | refl => exact h.rootsIn a (by simp)
    | step _ hc ih => exact h.closed _ ih (by simp) _ hc

end Segment
end ForML.Flow
