/- Helper lemmas for the provider-bank half of C20 (core Lean only). -/
import ForML.Model.Bank

namespace ForML.Bank

/-! ### association lists -/

theorem lookupRef_mem {r : Ref} {i : ClassId} {l : List (Ref × ClassId)} (h : lookupRef r l = some i) :
    (r, i) ∈ l := by
  induction l with
  | nil => simp [lookupRef] at h
  | cons e rest ih =>
    obtain ⟨r', c⟩ := e
    by_cases hr : r' = r
    · simp [lookupRef, hr] at h
      simp [hr, h]
    · simp [lookupRef, hr] at h
      exact List.mem_cons_of_mem _ (ih h)

theorem lookupRef_setRef (r r' : Ref) (c : ClassId) (l : List (Ref × ClassId)) :
    lookupRef r (setRef r' c l) = if r' = r then some c else lookupRef r l := by
  induction l with
  | nil => simp [setRef, lookupRef]
  | cons e rest ih =>
    obtain ⟨r'', c'⟩ := e
    by_cases h1 : r'' = r'
    · subst h1
      by_cases h2 : r'' = r <;> simp [setRef, lookupRef, h2]
    · by_cases h2 : r'' = r
      · subst h2
        have : ¬ r' = r'' := fun h => h1 h.symm
        simp [setRef, lookupRef, h1, this]
      · simp [setRef, lookupRef, h1, h2, ih]

theorem mem_setRef {x : Ref × ClassId} {r : Ref} {c : ClassId} {l : List (Ref × ClassId)}
    (h : x ∈ setRef r c l) : x = (r, c) ∨ x ∈ l := by
  induction l with
  | nil => simp [setRef] at h; exact Or.inl h
  | cons e rest ih =>
    obtain ⟨r', c'⟩ := e
    by_cases h1 : r' = r
    · simp [setRef, h1] at h
      rcases h with h | h
      · exact Or.inl h
      · exact Or.inr (List.mem_cons_of_mem _ h)
    · simp [setRef, h1] at h
      rcases h with h | h
      · exact Or.inr (by simp [h])
      · rcases ih h with h | h
        · exact Or.inl h
        · exact Or.inr (List.mem_cons_of_mem _ h)

theorem lookupRef_foldl_setRef (r : Ref) (i : ClassId) (rs : List Ref) (l : List (Ref × ClassId)) :
    lookupRef r (rs.foldl (fun pr r' => setRef r' i pr) l) = if r ∈ rs then some i else lookupRef r l := by
  induction rs generalizing l with
  | nil => simp
  | cons r' rs ih =>
    simp only [List.foldl_cons, ih, lookupRef_setRef, List.mem_cons]
    by_cases h1 : r ∈ rs
    · simp [h1]
    · by_cases h2 : r' = r
      · simp [h2]
      · have : ¬ r = r' := fun h => h2 h.symm
        simp [h1, h2, this]

theorem mem_foldl_setRef {x : Ref × ClassId} {i : ClassId} {rs : List Ref} {l : List (Ref × ClassId)}
    (h : x ∈ rs.foldl (fun pr r' => setRef r' i pr) l) : x ∈ l ∨ ∃ r ∈ rs, x = (r, i) := by
  induction rs generalizing l with
  | nil => exact Or.inl h
  | cons r' rs ih =>
    simp only [List.foldl_cons] at h
    rcases ih h with h | ⟨r, hr, hx⟩
    · rcases mem_setRef h with h | h
      · exact Or.inr ⟨r', by simp, h⟩
      · exact Or.inl h
    · exact Or.inr ⟨r, List.mem_cons_of_mem _ hr, hx⟩

theorem lookupRef_register (r : Ref) (pr : List (Ref × ClassId)) (c : ClassDef) :
    lookupRef r (register pr c) = if r ∈ refs c then some c.id else lookupRef r pr := by
  simp [register, lookupRef_foldl_setRef]

/-! ### one `Bank.add` -/

theorem add_ok {b b' : Bank} {c : ClassDef} (h : b.add c = .ok b') :
    collides b c = false ∧ b'.provider = if c.abstract then b.provider else register b.provider c := by
  unfold Bank.add at h
  by_cases hc : collides b c = true
  · simp [hc] at h
  · simp only [hc] at h
    by_cases ha : c.abstract = true
    · simp [ha] at h; subst h; simp [ha, hc]
    · simp [ha] at h; subst h; simp [ha, hc]

theorem add_error {b : Bank} {c : ClassDef} {e : Err} (h : b.add c = .error e) : collides b c = true ∧ e = .collision := by
  unfold Bank.add at h
  by_cases hc : collides b c = true
  · simp [hc] at h; exact ⟨hc, h.symm⟩
  · simp only [hc] at h
    by_cases ha : c.abstract = true <;> simp [ha] at h

theorem add_of_not_collides {b : Bank} {c : ClassDef} (h : collides b c = false) : ∃ b', b.add c = .ok b' := by
  unfold Bank.add
  by_cases ha : c.abstract = true <;> simp [h, ha]

/-- `Meta.__eq__` is equality of (module, qualname) -/
theorem metaEq_iff (a b : ClassId) : metaEq a b = true ↔ a = b := by
  obtain ⟨am, aq⟩ := a
  obtain ⟨bm, bq⟩ := b
  simp [metaEq]

/-- classes that `Meta.__eq__` identifies have the same `Meta.__hash__` (what a `dict` keyed by classes needs) -/
theorem metaHash_of_eq (hashOf : Nat → Nat) (a b : ClassId) (h : metaEq a b = true) : metaHash hashOf a = metaHash hashOf b := by
  rw [(metaEq_iff a b).1 h]

theorem collides_false_iff (b : Bank) (c : ClassDef) :
    collides b c = false ↔ ∀ r ∈ refs c, ∀ d, lookupRef r b.provider = some d → d = c.id := by
  simp only [collides, List.any_eq_false]
  constructor
  · intro h r hr d hd
    have := h r hr
    simp only [hd, Bool.not_eq_true'] at this
    exact (metaEq_iff d c.id).1 (by simpa using this)
  · intro h r hr
    cases hd : lookupRef r b.provider with
    | none => simp
    | some d => simp [h r hr d hd, (metaEq_iff c.id c.id).2 rfl]

/-! ### soundness: every binding is justified by a concrete class bearing the reference -/

/-- every `reference ↦ class` binding of the bank comes from a concrete class definition in `U` that carries it -/
def BankSound (U : ClassDef → Prop) (b : Bank) : Prop :=
  ∀ r i, (r, i) ∈ b.provider → ∃ c, U c ∧ c.abstract = false ∧ r ∈ refs c ∧ c.id = i

theorem bankSound_empty (U : ClassDef → Prop) : BankSound U Bank.empty := by
  intro r i h; simp [Bank.empty] at h

theorem bankSound_add {U : ClassDef → Prop} {b b' : Bank} {c : ClassDef} (hs : BankSound U b) (hU : U c)
    (h : b.add c = .ok b') : BankSound U b' := by
  obtain ⟨_, hp⟩ := add_ok h
  intro r i hm
  rw [hp] at hm
  by_cases ha : c.abstract = true
  · simp [ha] at hm; exact hs r i hm
  · simp [ha] at hm
    rcases mem_foldl_setRef (by simpa [register] using hm) with hm | ⟨r', hr', hx⟩
    · exact hs r i hm
    · cases hx
      exact ⟨c, hU, by simpa using ha, hr', rfl⟩

def StSound (U : ClassDef → Prop) (st : St) : Prop := ∀ i b, (i, b) ∈ st.banks → BankSound U b

theorem stSound_empty (U : ClassDef → Prop) : StSound U St.empty := by
  intro i b h; simp [St.empty] at h

theorem getBank_sound {U : ClassDef → Prop} {banks : List (ClassId × Bank)}
    (h : ∀ i b, (i, b) ∈ banks → BankSound U b) (i : ClassId) : BankSound U (getBank i banks) := by
  induction banks with
  | nil => exact bankSound_empty U
  | cons e rest ih =>
    obtain ⟨j, b⟩ := e
    by_cases hj : j = i
    · simp only [getBank, hj, if_true]
      exact h j b (by simp)
    · simp only [getBank, hj, if_false]
      exact ih (fun i b hm => h i b (List.mem_cons_of_mem _ hm))

theorem mem_setBank {x : ClassId × Bank} {i : ClassId} {b : Bank} {l : List (ClassId × Bank)}
    (h : x ∈ setBank i b l) : x = (i, b) ∨ x ∈ l := by
  induction l with
  | nil => simp [setBank] at h; exact Or.inl h
  | cons e rest ih =>
    obtain ⟨j, b'⟩ := e
    by_cases h1 : j = i
    · simp [setBank, h1] at h
      rcases h with h | h
      · exact Or.inl h
      · exact Or.inr (List.mem_cons_of_mem _ h)
    · simp [setBank, h1] at h
      rcases h with h | h
      · exact Or.inr (by simp [h])
      · rcases ih h with h | h
        · exact Or.inl h
        · exact Or.inr (List.mem_cons_of_mem _ h)

theorem addToBanks_sound {U : ClassDef → Prop} {c : ClassDef} (hU : U c) (is : List ClassId) (st : St)
    (hs : StSound U st) : StSound U (addToBanks st c is).1 := by
  induction is generalizing st with
  | nil => simpa [addToBanks] using hs
  | cons i rest ih =>
    simp only [addToBanks]
    cases hadd : (getBank i st.banks).add c with
    | error e => simpa using hs
    | ok b =>
      simp only
      apply ih
      intro j b' hm
      rcases mem_setBank hm with hm | hm
      · cases hm
        exact bankSound_add (getBank_sound hs i) hU hadd
      · exact hs j b' hm

theorem initSubclass_sound {U : ClassDef → Prop} {c : ClassDef} (hU : U c) (st : St) (hs : StSound U st) :
    StSound U (initSubclass st c).1 := by
  unfold initSubclass
  split
  · exact hs
  · exact addToBanks_sound hU _ st hs

theorem execClasses_sound {U : ClassDef → Prop} (cs : List ClassDef) (hU : ∀ c ∈ cs, U c) (st : St)
    (hs : StSound U st) : StSound U (execClasses st cs).1 := by
  induction cs generalizing st with
  | nil => simpa [execClasses] using hs
  | cons c rest ih =>
    simp only [execClasses]
    have h1 := initSubclass_sound (hU c (by simp)) st hs
    cases hi : initSubclass st c with
    | mk st' e =>
      rw [hi] at h1
      cases e with
      | some e => simpa using h1
      | none => exact ih (fun c hc => hU c (List.mem_cons_of_mem _ hc)) st' h1

/-- the class statement occurs in some module of the world -/
def InWorld (w : World) (c : ClassDef) : Prop := ∃ m d, (m, d) ∈ w ∧ c ∈ d.classes

theorem findMod_mem {m : Mod} {w : World} {d : ModuleDef} (h : findMod m w = some d) : (m, d) ∈ w := by
  induction w with
  | nil => simp [findMod] at h
  | cons e rest ih =>
    obtain ⟨m', d'⟩ := e
    by_cases hm : m' = m
    · simp [findMod, hm] at h; simp [hm, h]
    · simp [findMod, hm] at h; exact List.mem_cons_of_mem _ (ih h)

theorem execMod_sound (w : World) (st : St) (m : Mod) (hs : StSound (InWorld w) st) :
    ∀ r, execMod w st m = some r → StSound (InWorld w) r.1 := by
  intro r hr
  unfold execMod at hr
  cases hf : findMod m w with
  | none => simp [hf] at hr
  | some d =>
    simp only [hf] at hr
    by_cases hl : m ∈ st.loaded
    · simp [hl] at hr; subst hr; exact hs
    · simp only [List.contains_eq_mem, hl, decide_false] at hr
      have h1 := execClasses_sound (U := InWorld w) d.classes
        (fun c hc => ⟨m, d, findMod_mem hf, hc⟩) st hs
      cases he : execClasses st d.classes with
      | mk st' e =>
        rw [he] at h1
        cases e with
        | some e => simp [he] at hr; subst hr; exact h1
        | none =>
          simp [he] at hr; subst hr
          intro i b hm; exact h1 i b hm

theorem importSubs_sound (w : World) (pkg : Nat) (subs : List Nat) (st : St) (hs : StSound (InWorld w) st) :
    StSound (InWorld w) (importSubs w st pkg subs).1 := by
  induction subs generalizing st with
  | nil => simpa [importSubs] using hs
  | cons s rest ih =>
    simp only [importSubs]
    cases he : execMod w st ⟨pkg, some s⟩ with
    | none => exact ih st hs
    | some r =>
      have h1 := execMod_sound w st _ hs r he
      obtain ⟨st', e⟩ := r
      cases e with
      | some e => simpa using h1
      | none => exact ih st' h1

theorem importMod_sound (w : World) (st : St) (m : Mod) (hs : StSound (InWorld w) st) :
    ∀ r, importMod w st m = some r → StSound (InWorld w) r.1 := by
  intro r hr
  unfold importMod at hr
  cases hsub : m.sub with
  | none => simp only [hsub] at hr; exact execMod_sound w st m hs r hr
  | some s =>
    simp only [hsub] at hr
    cases he : execMod w st ⟨m.pkg, none⟩ with
    | none => simp [he] at hr
    | some r1 =>
      have h1 := execMod_sound w st _ hs r1 he
      obtain ⟨st', e⟩ := r1
      cases e with
      | some e => simp [he] at hr; subst hr; exact h1
      | none => simp only [he] at hr; exact execMod_sound w st' m h1 r hr

theorem afterNotFound_sound (w : World) (st : St) (m : Mod) (hs : StSound (InWorld w) st) :
    StSound (InWorld w) (afterNotFound w st m) := by
  unfold afterNotFound
  cases m.sub with
  | none => exact hs
  | some s =>
    simp only
    cases he : execMod w st ⟨m.pkg, none⟩ with
    | none => exact hs
    | some r =>
      obtain ⟨st', e⟩ := r
      cases e with
      | some e => exact hs
      | none => exact execMod_sound w st _ hs _ he

theorem loadPath_sound (w : World) (st : St) (p : PathE) (hs : StSound (InWorld w) st) :
    StSound (InWorld w) (loadPath w st p).1 := by
  unfold loadPath
  cases hi : importMod w st p.mod with
  | none => exact afterNotFound_sound w st _ hs
  | some r =>
    have h1 := importMod_sound w st _ hs r hi
    obtain ⟨st', e⟩ := r
    cases e with
    | some e => exact h1
    | none =>
      simp only
      split
      · exact importSubs_sound w _ _ st' h1
      · exact h1

theorem getLoop_sound (w : World) (iface : ClassId) (r : Ref) (n : Nat) (st : St) (searched : List Mod)
    (hs : StSound (InWorld w) st) : StSound (InWorld w) (getLoop w iface r n st searched).1 := by
  induction n generalizing st searched with
  | zero => simpa [getLoop] using hs
  | succ n ih =>
    simp only [getLoop]
    split
    · exact hs
    · cases hn : nextPath (getBank iface st.banks) r searched with
      | none => exact hs
      | some p =>
        simp only
        have h1 := loadPath_sound w st p hs
        cases hl : loadPath w st p with
        | mk st' e =>
          rw [hl] at h1
          cases e with
          | some e => exact h1
          | none => exact ih st' _ h1

/-- what `Service[reference]` may return: only a concrete class of the world carrying that reference -/
theorem get_sound (w : World) (st : St) (iface : ClassId) (r : Ref)
    (hs : StSound (InWorld w) st) :
    StSound (InWorld w) (get w st iface r).1 ∧
      ∀ i, (get w st iface r).2 = .ok i →
        ∃ c, InWorld w c ∧ c.abstract = false ∧ r ∈ refs c ∧ c.id = i := by
  unfold get
  have h1 := getLoop_sound w iface r (searchFuel w) st [] hs
  cases hl : getLoop w iface r (searchFuel w) st [] with
  | mk st' e =>
    rw [hl] at h1
    cases e with
    | some e => exact ⟨h1, by intro i hi; simp [finish] at hi⟩
    | none =>
      simp only [finish]
      cases h2 : lookupRef r (getBank iface st'.banks).provider with
      | none => exact ⟨h1, by intro i hi; simp at hi⟩
      | some c =>
        refine ⟨h1, ?_⟩
        intro i hi
        simp at hi; subst hi
        exact getBank_sound h1 iface r c (lookupRef_mem h2)

/-! ### one bank, a list of registrations: order independence -/

/-- the class a reference is bound to after registering `cs` (first concrete class carrying it) -/
def regs (cs : List ClassDef) (r : Ref) : Option ClassId :=
  (cs.find? (fun c => !c.abstract && (refs c).contains r)).map (·.id)

/-- no two class definitions of the list with different identities share a reference (decidable) -/
def collisionFree (cs : List ClassDef) : Bool :=
  cs.all fun c => cs.all fun d => (c.id == d.id) || !((refs c).any fun r => (refs d).contains r)

theorem collisionFree_iff (cs : List ClassDef) :
    collisionFree cs = true ↔ ∀ c ∈ cs, ∀ d ∈ cs, ∀ r, r ∈ refs c → r ∈ refs d → c.id = d.id := by
  simp only [collisionFree, List.all_eq_true, Bool.or_eq_true, beq_iff_eq, Bool.not_eq_true',
    List.any_eq_false, List.contains_eq_mem, decide_eq_true_eq]
  constructor
  · intro h c hc d hd r hrc hrd
    rcases h c hc d hd with h | h
    · exact h
    · exact absurd hrd (h r hrc)
  · intro h c hc d hd
    by_cases hid : c.id = d.id
    · exact Or.inl hid
    · exact Or.inr (fun r hrc hrd => hid (h c hc d hd r hrc hrd))

theorem regs_some {cs : List ClassDef} {r : Ref} {i : ClassId} (h : regs cs r = some i) :
    ∃ c ∈ cs, c.abstract = false ∧ r ∈ refs c ∧ c.id = i := by
  simp only [regs, Option.map_eq_some_iff] at h
  obtain ⟨c, hf, hi⟩ := h
  have hm := List.mem_of_find?_eq_some hf
  have hp := List.find?_some hf
  simp at hp
  exact ⟨c, hm, hp.1, hp.2, hi⟩

theorem regs_none {cs : List ClassDef} {r : Ref} (h : regs cs r = none) :
    ∀ c ∈ cs, c.abstract = false → r ∉ refs c := by
  simp only [regs, Option.map_eq_none_iff, List.find?_eq_none] at h
  intro c hc ha hr
  exact h c hc (by simp [ha, hr])

theorem regs_append_single (done : List ClassDef) (c : ClassDef) (r : Ref) :
    regs (done ++ [c]) r = match regs done r with
      | some i => some i
      | none => if c.abstract = false ∧ r ∈ refs c then some c.id else none := by
  simp only [regs, List.find?_append]
  cases h : List.find? (fun c => !c.abstract && (refs c).contains r) done with
  | some x => simp
  | none =>
    by_cases ha : c.abstract = true
    · simp [List.find?, ha]
    · by_cases hr : r ∈ refs c
      · simp [List.find?, ha, hr]
      · simp [List.find?, ha, hr]

theorem addAll_char (cs : List ClassDef) : ∀ (done : List ClassDef) (b : Bank),
    (∀ r, lookupRef r b.provider = regs done r) → collisionFree (done ++ cs) = true →
    ∃ b', addAll b cs = .ok b' ∧ ∀ r, lookupRef r b'.provider = regs (done ++ cs) r := by
  induction cs with
  | nil => intro done b hb _; exact ⟨b, rfl, by simpa using hb⟩
  | cons c cs ih =>
    intro done b hb hcf
    have hcf' := (collisionFree_iff _).1 hcf
    have hcol : collides b c = false := by
      rw [collides_false_iff]
      intro r hr d hd
      rw [hb r] at hd
      obtain ⟨c', hc', _, hr', hid⟩ := regs_some hd
      rw [← hid]
      exact hcf' c' (by simp [hc']) c (by simp) r hr' hr
    obtain ⟨b1, hb1⟩ := add_of_not_collides hcol
    obtain ⟨_, hp⟩ := add_ok hb1
    have hb1' : ∀ r, lookupRef r b1.provider = regs (done ++ [c]) r := by
      intro r
      rw [regs_append_single, hp]
      by_cases ha : c.abstract = true
      · simp only [ha, if_true, hb r]
        cases regs done r <;> simp
      · simp only [ha, if_false, Bool.false_eq_true, lookupRef_register]
        by_cases hr : r ∈ refs c
        · simp only [hr, if_true]
          cases hd : regs done r with
          | none => simp
          | some i =>
            obtain ⟨c', hc', _, hr', hid⟩ := regs_some hd
            simp only [Option.some.injEq]
            rw [← hid]
            exact (hcf' c' (by simp [hc']) c (by simp) r hr' hr).symm
        · simp only [hr, if_false, hb r]
          cases regs done r <;> simp
    obtain ⟨b', hb', hr'⟩ := ih (done ++ [c]) b1 hb1' (by simpa using hcf)
    refine ⟨b', ?_, ?_⟩
    · simp [addAll, hb1, hb']
    · intro r; simpa using hr' r

theorem regs_perm {cs cs' : List ClassDef} (hp : cs.Perm cs') (hcf : collisionFree cs = true) (r : Ref) :
    regs cs r = regs cs' r := by
  have hcf' := (collisionFree_iff _).1 hcf
  cases h : regs cs r with
  | some i =>
    obtain ⟨c, hc, ha, hr, hid⟩ := regs_some h
    cases h' : regs cs' r with
    | some j =>
      obtain ⟨c', hc', _, hr', hid'⟩ := regs_some h'
      rw [← hid, ← hid']
      exact congrArg some (hcf' c hc c' (hp.mem_iff.2 hc') r hr hr')
    | none => exact absurd hr (regs_none h' c (hp.mem_iff.1 hc) ha)
  | none =>
    cases h' : regs cs' r with
    | none => rfl
    | some j =>
      obtain ⟨c', hc', ha', hr', _⟩ := regs_some h'
      exact absurd hr' (regs_none h c' (hp.mem_iff.2 hc') ha')

theorem collisionFree_perm {cs cs' : List ClassDef} (hp : cs.Perm cs') (hcf : collisionFree cs = true) :
    collisionFree cs' = true := by
  rw [collisionFree_iff] at *
  intro c hc d hd
  exact hcf c (hp.mem_iff.2 hc) d (hp.mem_iff.2 hd)

/-- persistence: a successful run of registrations leaves every concrete class bound under all its references -/
theorem addAll_bound (cs : List ClassDef) : ∀ (done : List ClassDef) (b b' : Bank),
    (∀ c ∈ done, c.abstract = false → ∀ r ∈ refs c, lookupRef r b.provider = some c.id) →
    addAll b cs = .ok b' →
    ∀ c ∈ done ++ cs, c.abstract = false → ∀ r ∈ refs c, lookupRef r b'.provider = some c.id := by
  induction cs with
  | nil => intro done b b' hb h; simp [addAll] at h; subst h; simpa using hb
  | cons d cs ih =>
    intro done b b' hb h
    simp only [addAll] at h
    cases hadd : b.add d with
    | error e => simp [hadd] at h
    | ok b1 =>
      simp only [hadd] at h
      obtain ⟨hcol, hp⟩ := add_ok hadd
      rw [collides_false_iff] at hcol
      have hb1 : ∀ c ∈ done ++ [d], c.abstract = false → ∀ r ∈ refs c, lookupRef r b1.provider = some c.id := by
        intro c hc ha r hr
        rw [hp]
        by_cases had : d.abstract = true
        · simp only [had, if_true]
          rcases List.mem_append.1 hc with hc | hc
          · exact hb c hc ha r hr
          · simp at hc; subst hc; simp [ha] at had
        · simp only [had, if_false, Bool.false_eq_true, lookupRef_register]
          rcases List.mem_append.1 hc with hc | hc
          · by_cases hrd : r ∈ refs d
            · simp only [hrd, if_true]
              exact congrArg some (hcol r hrd c.id (hb c hc ha r hr)).symm
            · simp only [hrd, if_false]; exact hb c hc ha r hr
          · simp at hc; subst hc; simp [hr]
      have := ih (done ++ [d]) b1 b' hb1 h
      simpa using this

theorem addAll_error_collision (cs : List ClassDef) : ∀ (b : Bank) (e : Err), addAll b cs = .error e → e = .collision := by
  induction cs with
  | nil => intro b e h; simp [addAll] at h
  | cons d cs ih =>
    intro b e h
    simp only [addAll] at h
    cases hadd : b.add d with
    | error e' => simp [hadd] at h; subst h; exact (add_error hadd).2
    | ok b1 => simp only [hadd] at h; exact ih b1 e h

theorem addAll_sound {U : ClassDef → Prop} (cs : List ClassDef) (hU : ∀ c ∈ cs, U c) : ∀ (b b' : Bank),
    BankSound U b → addAll b cs = .ok b' → BankSound U b' := by
  induction cs with
  | nil => intro b b' hs h; simp [addAll] at h; subst h; exact hs
  | cons d cs ih =>
    intro b b' hs h
    simp only [addAll] at h
    cases hadd : b.add d with
    | error e => simp [hadd] at h
    | ok b1 =>
      simp only [hadd] at h
      exact ih (fun c hc => hU c (List.mem_cons_of_mem _ hc)) b1 b' (bankSound_add hs (hU d (by simp)) hadd) h

end ForML.Bank

/-! ### the sorted search order (`Bank.get` after fix C20-sorted-search-paths) -/

namespace ForML.Bank

theorem Mod.le_total (a b : Mod) : (a.le b || b.le a) = true := by
  obtain ⟨ap, as⟩ := a
  obtain ⟨bp, bs⟩ := b
  cases as <;> cases bs <;> simp [Mod.le] <;> omega

theorem Mod.le_trans (a b c : Mod) (h1 : a.le b = true) (h2 : b.le c = true) : a.le c = true := by
  obtain ⟨ap, as⟩ := a
  obtain ⟨bp, bs⟩ := b
  obtain ⟨cp, cs⟩ := c
  cases as <;> cases bs <;> cases cs <;> simp [Mod.le] at h1 h2 ⊢ <;> omega

theorem Mod.le_antisymm (a b : Mod) (h1 : a.le b = true) (h2 : b.le a = true) : a = b := by
  obtain ⟨ap, as⟩ := a
  obtain ⟨bp, bs⟩ := b
  cases as <;> cases bs <;> simp [Mod.le] at h1 h2 ⊢ <;> omega

theorem PathE.le_total (a b : PathE) : (a.le b || b.le a) = true := by
  obtain ⟨am, ae⟩ := a
  obtain ⟨bm, be⟩ := b
  by_cases h : am = bm
  · subst h; cases ae <;> cases be <;> simp [PathE.le]
  · have h' : ¬ bm = am := fun e => h e.symm
    simpa [PathE.le, h, h'] using Mod.le_total am bm

theorem PathE.le_antisymm (a b : PathE) (h1 : a.le b = true) (h2 : b.le a = true) : a = b := by
  obtain ⟨am, ae⟩ := a
  obtain ⟨bm, be⟩ := b
  by_cases h : am = bm
  · subst h; cases ae <;> cases be <;> simp [PathE.le] at h1 h2 ⊢
  · have h' : ¬ bm = am := fun e => h e.symm
    simp [PathE.le, h, h'] at h1 h2
    exact absurd (Mod.le_antisymm am bm h1 h2) h

theorem PathE.le_trans (a b c : PathE) (h1 : a.le b = true) (h2 : b.le c = true) : a.le c = true := by
  obtain ⟨am, ae⟩ := a
  obtain ⟨bm, be⟩ := b
  obtain ⟨cm, ce⟩ := c
  by_cases hab : am = bm
  · subst hab
    by_cases hbc : am = cm
    · subst hbc; cases ae <;> cases be <;> cases ce <;> simp [PathE.le] at h1 h2 ⊢
    · simpa [PathE.le, hbc] using h2
  · by_cases hbc : bm = cm
    · subst hbc; simpa [PathE.le, hab] using h1
    · simp only [PathE.le, hab, hbc, if_false] at h1 h2
      have hac := Mod.le_trans am bm cm h1 h2
      by_cases hca : am = cm
      · subst hca
        exact absurd (Mod.le_antisymm am bm h1 h2) hab
      · simpa [PathE.le, hca] using hac

theorem insertPath_perm (p : PathE) (l : List PathE) : (insertPath p l).Perm (p :: l) := by
  induction l with
  | nil => simp [insertPath]
  | cons q rest ih =>
    simp only [insertPath]
    split
    · exact List.Perm.refl _
    · exact (List.Perm.cons q ih).trans (List.Perm.swap p q rest)

theorem sortPaths_perm_self (l : List PathE) : (sortPaths l).Perm l := by
  induction l with
  | nil => simp [sortPaths]
  | cons p rest ih =>
    have : sortPaths (p :: rest) = insertPath p (sortPaths rest) := rfl
    rw [this]
    exact (insertPath_perm p _).trans (List.Perm.cons p ih)

theorem insertPath_pairwise (p : PathE) (l : List PathE) (h : l.Pairwise (fun a b => PathE.le a b = true)) :
    (insertPath p l).Pairwise (fun a b => PathE.le a b = true) := by
  induction l with
  | nil => simp [insertPath]
  | cons q rest ih =>
    simp only [insertPath]
    have hq := List.pairwise_cons.1 h
    split
    · rename_i hpq
      refine List.pairwise_cons.2 ⟨?_, h⟩
      intro x hx
      rcases List.mem_cons.1 hx with rfl | hx
      · exact hpq
      · exact PathE.le_trans p q x hpq (hq.1 x hx)
    · rename_i hpq
      have hqp : q.le p = true := by
        have := PathE.le_total p q
        simp only [Bool.or_eq_true] at this
        rcases this with h | h
        · exact absurd h hpq
        · exact h
      refine List.pairwise_cons.2 ⟨?_, ih hq.2⟩
      intro x hx
      rcases List.mem_cons.1 ((insertPath_perm p rest).mem_iff.1 hx) with rfl | hx
      · exact hqp
      · exact hq.1 x hx

theorem sortPaths_pairwise (l : List PathE) : (sortPaths l).Pairwise (fun a b => PathE.le a b = true) := by
  induction l with
  | nil => simp [sortPaths]
  | cons p rest ih =>
    have : sortPaths (p :: rest) = insertPath p (sortPaths rest) := rfl
    rw [this]
    exact insertPath_pairwise p _ ih

/-- `sorted(...)` of a set does not depend on the order in which the set hands out its elements -/
theorem sortPaths_perm {l₁ l₂ : List PathE} (h : l₁.Perm l₂) : sortPaths l₁ = sortPaths l₂ := by
  apply List.Perm.eq_of_pairwise (le := fun a b => PathE.le a b = true)
  · intro a b _ _ h1 h2; exact PathE.le_antisymm a b h1 h2
  · exact sortPaths_pairwise l₁
  · exact sortPaths_pairwise l₂
  · exact ((sortPaths_perm_self l₁).trans h).trans (sortPaths_perm_self l₂).symm

theorem validOrder_perm {paths : List PathE} {order : List Mod} (h : validOrder paths order = true) :
    (arrange paths order).Perm paths := by
  simp only [validOrder, Bool.and_eq_true] at h
  exact List.isPerm_iff.1 h.2

/-- the search list of `Bank.get` is the same for every iteration order of the path set -/
theorem todoPaths_order_free (b : Bank) (r : Ref) (o1 o2 : List Mod) (h1 : validOrder b.paths o1 = true)
    (h2 : validOrder b.paths o2 = true) : todoPaths b r o1 = todoPaths b r o2 := by
  have := sortPaths_perm ((validOrder_perm h1).trans (validOrder_perm h2).symm)
  simp only [todoPaths, this]

end ForML.Bank

/-! ### defect-free worlds: nothing raises on the way of a lookup -/

namespace ForML.Bank

def allClasses (w : World) : List ClassDef := w.flatMap (fun e => e.2.classes)

/-- no class statement of the world is rejected whatever was registered before: no alias on an abstract class, and no
reference shared between a class and a concrete class of another identity (decidable) -/
def worldClean (w : World) : Bool :=
  (allClasses w).all (fun c => !(c.abstract && c.alias.isSome)) &&
  (allClasses w).all (fun c => (allClasses w).all (fun d =>
    d.abstract || c.id == d.id || (refs c).all (fun r => !(refs d).contains r)))

/-- `__import__(m)` finds the module (and its parent package) -/
def importable (w : World) (m : Mod) : Bool :=
  (findMod m w).isSome && (m.sub.isNone || (findMod ⟨m.pkg, none⟩ w).isSome)

theorem inWorld_iff (w : World) (c : ClassDef) : InWorld w c ↔ c ∈ allClasses w := by
  simp only [InWorld, allClasses, List.mem_flatMap]
  constructor
  · rintro ⟨m, d, hm, hc⟩; exact ⟨(m, d), hm, hc⟩
  · rintro ⟨⟨m, d⟩, hm, hc⟩; exact ⟨m, d, hm, hc⟩

theorem worldClean_noAbstractAlias {w : World} (h : worldClean w = true) {c : ClassDef} (hc : InWorld w c) :
    (c.alias.isSome && c.abstract) = false := by
  simp only [worldClean, Bool.and_eq_true, List.all_eq_true] at h
  have := h.1 c ((inWorld_iff w c).1 hc)
  cases ha : c.abstract <;> cases hb : c.alias.isSome <;> simp_all

theorem worldClean_noCollision {w : World} (h : worldClean w = true) {c d : ClassDef} (hc : InWorld w c)
    (hd : InWorld w d) (hda : d.abstract = false) {r : Ref} (hrc : r ∈ refs c) (hrd : r ∈ refs d) : d.id = c.id := by
  simp only [worldClean, Bool.and_eq_true, List.all_eq_true] at h
  have := h.2 c ((inWorld_iff w c).1 hc) d ((inWorld_iff w d).1 hd)
  simp only [hda, Bool.false_or, Bool.or_eq_true, beq_iff_eq, List.all_eq_true, Bool.not_eq_true',
    List.contains_eq_mem, decide_eq_false_iff_not] at this
  rcases this with h1 | h2
  · exact h1.symm
  · exact absurd hrd (h2 r hrc)

theorem add_clean {w : World} (hw : worldClean w = true) {b : Bank} (hs : BankSound (InWorld w) b) {c : ClassDef}
    (hc : InWorld w c) : ∃ b', b.add c = .ok b' := by
  apply add_of_not_collides
  rw [collides_false_iff]
  intro r hr d hd
  obtain ⟨c', hc', ha', hr', hi'⟩ := hs r d (lookupRef_mem hd)
  rw [← hi']
  exact worldClean_noCollision hw hc hc' ha' hr hr'

theorem addToBanks_clean {w : World} (hw : worldClean w = true) {c : ClassDef} (hc : InWorld w c) (is : List ClassId)
    (st : St) (hs : StSound (InWorld w) st) : (addToBanks st c is).2 = none := by
  induction is generalizing st with
  | nil => simp [addToBanks]
  | cons i rest ih =>
    simp only [addToBanks]
    obtain ⟨b, hadd⟩ := add_clean hw (getBank_sound hs i) hc
    simp only [hadd]
    apply ih
    intro j b' hm
    rcases mem_setBank hm with hm | hm
    · cases hm
      exact bankSound_add (getBank_sound hs i) hc hadd
    · exact hs j b' hm

theorem initSubclass_clean {w : World} (hw : worldClean w = true) {c : ClassDef} (hc : InWorld w c) (st : St)
    (hs : StSound (InWorld w) st) : (initSubclass st c).2 = none := by
  unfold initSubclass
  rw [worldClean_noAbstractAlias hw hc]
  exact addToBanks_clean hw hc _ st hs

theorem execClasses_clean {w : World} (hw : worldClean w = true) (cs : List ClassDef) (hc : ∀ c ∈ cs, InWorld w c)
    (st : St) (hs : StSound (InWorld w) st) : (execClasses st cs).2 = none := by
  induction cs generalizing st with
  | nil => simp [execClasses]
  | cons c rest ih =>
    simp only [execClasses]
    have h1 := initSubclass_sound (hc c (by simp)) st hs
    have h2 := initSubclass_clean hw (hc c (by simp)) st hs
    cases hi : initSubclass st c with
    | mk st' e =>
      rw [hi] at h1 h2
      simp only at h2
      subst h2
      exact ih (fun c hm => hc c (List.mem_cons_of_mem _ hm)) st' h1

theorem execMod_clean {w : World} (hw : worldClean w = true) (st : St) (m : Mod) (hs : StSound (InWorld w) st) :
    ∀ r, execMod w st m = some r → r.2 = none := by
  intro r hr
  unfold execMod at hr
  cases hf : findMod m w with
  | none => simp [hf] at hr
  | some d =>
    simp only [hf] at hr
    by_cases hl : m ∈ st.loaded
    · simp [hl] at hr; subst hr; rfl
    · simp only [List.contains_eq_mem, hl, decide_false] at hr
      have h2 := execClasses_clean hw d.classes (fun c hc => ⟨m, d, findMod_mem hf, hc⟩) st hs
      cases he : execClasses st d.classes with
      | mk st' e =>
        rw [he] at h2
        simp only at h2
        subst h2
        simp [he] at hr; subst hr; rfl

theorem importSubs_clean {w : World} (hw : worldClean w = true) (pkg : Nat) (subs : List Nat) (st : St)
    (hs : StSound (InWorld w) st) : (importSubs w st pkg subs).2 = none := by
  induction subs generalizing st with
  | nil => simp [importSubs]
  | cons s rest ih =>
    simp only [importSubs]
    cases he : execMod w st ⟨pkg, some s⟩ with
    | none => exact ih st hs
    | some r =>
      have h1 := execMod_sound w st _ hs r he
      have h2 := execMod_clean hw st _ hs r he
      obtain ⟨st', e⟩ := r
      simp only at h2
      subst h2
      exact ih st' h1

theorem importMod_clean {w : World} (hw : worldClean w = true) (st : St) (m : Mod) (hs : StSound (InWorld w) st) :
    ∀ r, importMod w st m = some r → r.2 = none := by
  intro r hr
  unfold importMod at hr
  cases hsub : m.sub with
  | none => simp only [hsub] at hr; exact execMod_clean hw st m hs r hr
  | some s =>
    simp only [hsub] at hr
    cases he : execMod w st ⟨m.pkg, none⟩ with
    | none => simp [he] at hr
    | some r1 =>
      have h1 := execMod_sound w st _ hs r1 he
      have h2 := execMod_clean hw st _ hs r1 he
      obtain ⟨st', e⟩ := r1
      simp only at h2
      subst h2
      simp only [he] at hr
      exact execMod_clean hw st' m h1 r hr

theorem execMod_isSome (w : World) (st : St) (m : Mod) : (execMod w st m).isSome = (findMod m w).isSome := by
  unfold execMod
  cases findMod m w with
  | none => rfl
  | some d =>
    simp only
    split
    · rfl
    · split <;> rfl

theorem importMod_importable {w : World} {m : Mod} (h : importable w m = true) (st : St) :
    importMod w st m ≠ none := by
  simp only [importable, Bool.and_eq_true, Bool.or_eq_true] at h
  unfold importMod
  cases hsub : m.sub with
  | none =>
    simp only
    intro hn
    have := execMod_isSome w st m
    rw [hn, h.1] at this
    simp at this
  | some s =>
    simp only
    have hp : (findMod ⟨m.pkg, none⟩ w).isSome = true := by
      rcases h.2 with h2 | h2
      · simp [hsub] at h2
      · exact h2
    have h1 := execMod_isSome w st ⟨m.pkg, none⟩
    rw [hp] at h1
    cases he : execMod w st ⟨m.pkg, none⟩ with
    | none => rw [he] at h1; simp at h1
    | some r1 =>
      obtain ⟨st', e⟩ := r1
      cases e with
      | some e => simp
      | none =>
        simp only
        intro hn
        have := execMod_isSome w st' m
        rw [hn, h.1] at this
        simp at this

theorem loadPath_clean {w : World} (hw : worldClean w = true) (st : St) (p : PathE) (hs : StSound (InWorld w) st)
    (hp : p.explicit = true → importable w p.mod = true) : (loadPath w st p).2 = none := by
  unfold loadPath
  cases hi : importMod w st p.mod with
  | none =>
    by_cases he : p.explicit = true
    · exact absurd hi (importMod_importable (hp he) st)
    · simp [he]
  | some r =>
    have h1 := importMod_sound w st _ hs r hi
    have h2 := importMod_clean hw st _ hs r hi
    obtain ⟨st', e⟩ := r
    simp only at h2
    subst h2
    simp only
    split
    · exact importSubs_clean hw _ _ st' h1
    · rfl

theorem mem_arrange {paths : List PathE} {order : List Mod} {p : PathE} (h : p ∈ arrange paths order) : p ∈ paths := by
  simp only [arrange, List.mem_filterMap] at h
  obtain ⟨m, _, hf⟩ := h
  exact List.mem_of_find?_eq_some hf

theorem mem_refPaths {r : Ref} {base : List PathE} {p : PathE} (h : p ∈ refPaths r base) : p.explicit = false := by
  unfold refPaths at h
  cases r with
  | qual c => simp at h; subst h; rfl
  | alias a =>
    simp only [List.mem_filterMap] at h
    obtain ⟨b, _, hb⟩ := h
    split at hb
    · simp at hb; subst hb; rfl
    · simp at hb

/-- (legacy search list) every explicit element of the search list is one of the bank's registered paths -/
theorem mem_todoPaths {b : Bank} {r : Ref} {order : List Mod} {p : PathE} (h : p ∈ todoPaths b r order)
    (he : p.explicit = true) : p ∈ b.paths := by
  simp only [todoPaths, List.mem_reverse, List.mem_append] at h
  rcases h with h | h
  · exact mem_arrange ((sortPaths_perm_self _).mem_iff.1 h)
  · rw [mem_refPaths h] at he; cases he

/-- every explicit element of the search list is one of the bank's registered paths -/
theorem mem_searchList_explicit {b : Bank} {r : Ref} {p : PathE} (h : p ∈ searchList b r) (he : p.explicit = true) :
    p ∈ b.paths := by
  simp only [searchList, List.mem_reverse, List.mem_append] at h
  rcases h with h | h
  · exact (sortPaths_perm_self _).mem_iff.1 h
  · rw [mem_refPaths h] at he; cases he

theorem nextPath_some {b : Bank} {r : Ref} {searched : List Mod} {p : PathE} (h : nextPath b r searched = some p) :
    p ∈ searchList b r ∧ p.mod ∉ searched := by
  unfold nextPath at h
  have h1 := List.mem_of_find?_eq_some h
  have h2 := List.find?_some h
  simp at h2
  exact ⟨h1, h2⟩

theorem nextPath_none {b : Bank} {r : Ref} {searched : List Mod} (h : nextPath b r searched = none) :
    ∀ p ∈ searchList b r, p.mod ∈ searched := by
  unfold nextPath at h
  rw [List.find?_eq_none] at h
  intro p hp
  have := h p hp
  simpa using this

end ForML.Bank

namespace ForML.Bank

/-- an import history: `import m` statements executed one after the other, each in `try/except` (the state reached
after a failing import keeps its partial registrations, as in Python) -/
def runImports (w : World) (st : St) : List Mod → St
  | [] => st
  | m :: rest =>
    match importMod w st m with
    | none => runImports w (afterNotFound w st m) rest
    | some (st', _) => runImports w st' rest

theorem runImports_sound (w : World) (ms : List Mod) (st : St) (hs : StSound (InWorld w) st) :
    StSound (InWorld w) (runImports w st ms) := by
  induction ms generalizing st with
  | nil => simpa [runImports] using hs
  | cons m rest ih =>
    simp only [runImports]
    cases hi : importMod w st m with
    | none => exact ih _ (afterNotFound_sound w st m hs)
    | some r =>
      obtain ⟨st', e⟩ := r
      exact ih st' (importMod_sound w st m hs (st', e) hi)

end ForML.Bank
