/-
C01 — a refused load fails the run and nothing is committed (`Model/Faults.lean`).
-/
import ForML.Model.Faults
import ForML.Lemmas.C01Sem

set_option linter.unusedSimpArgs false

namespace ForML.Flow
open Segment

/-- the interpreter's store agrees with `Loader.execute` against the failing accessor: a state or `none` where the
loader returns, the error value where it raises -/
theorem Store.loader_toAssets (S : Store) (g : Gid) :
    (match S.loader g with | .ok v => v | .error e => .error e) = S.toAssets.load g := by
  simp only [Store.loader, Store.toAssets, Assets.load, Assets.offset]
  cases indexOf g S.persistent with
  | none => rfl
  | some i =>
    simp only [List.getD_eq_getElem?_getD, List.getElem?_map]
    cases hi : S.outcomes[i]? with
    | none => rfl
    | some o => cases o <;> rfl

theorem Val.anyError_of_mem {l : List Val} {v : Val} (hv : v ∈ l) (he : v.hasError = true) : Val.anyError l = true := by
  induction l with
  | nil => cases hv
  | cons x r ih =>
    simp only [Val.anyError, Bool.or_eq_true]
    rcases List.mem_cons.mp hv with rfl | h
    · exact Or.inl he
    · exact Or.inr (ih h)

theorem lookupVal_mem {k : Key} {v : Val} {l : List (Key × Val)} (h : lookupVal k l = some v) : (k, v) ∈ l := by
  induction l with
  | nil => cases h
  | cons x r ih =>
    obtain ⟨k', v'⟩ := x
    simp only [lookupVal] at h
    split at h
    · rename_i hk; cases h; subst hk; exact List.mem_cons_self
    · exact List.mem_cons_of_mem _ (ih h)

theorem asState_error (e : RunErr) : (Val.error e).asState = .error e := rfl

/-- the trainer of a persistent group starts from the loaded state: a refused load is carried by its value -/
theorem trainer_hasError {g : Segment} {As : Assets} {rank : Uid → Nat} (h : WF g rank) {γ : Gid}
    (hc : As.contains γ = true) {e : RunErr} (hl : As.load γ = .error e) {tw : Worker} (htO : g.trainerOf γ = some tw) :
    (g.nodeVal (some As) g.evalFuel tw.uid).hasError = true := by
  have hss : storedState (some As) γ = .error e := by rw [storedState_persistent rfl hc, hl]
  obtain ⟨htm, htg, htt⟩ := trainerOf_some htO
  have hT := h.trainedOK htm htt
  obtain ⟨x, hx⟩ := hT.train
  obtain ⟨y, hy⟩ := hT.label
  rw [show g.evalFuel = g.workers.length + 1 from rfl, nodeVal_succ, worker?_of_mem h.nodup htm]
  simp only [htt, if_true, hx, hy, hT.stateful, htg, hss, asState_error]
  simp [Val.hasError]

/-- the member of a persistent group that is handed the loaded state: its trainer if it has one here, else any
stateful member; when the load is refused its value carries the error -/
theorem consumer_hasError {g : Segment} {As : Assets} {rank : Uid → Nat} (h : WF g rank) {w : Worker}
    (hw : w ∈ g.workers) (hst : w.stateful = true) (hc : As.contains w.gid = true) {e : RunErr}
    (hl : As.load w.gid = .error e) :
    ∃ x ∈ g.workers, x.gid = w.gid ∧ (g.nodeVal (some As) g.evalFuel x.uid).hasError = true := by
  have hss : storedState (some As) w.gid = .error e := by rw [storedState_persistent rfl hc, hl]
  cases htO : g.trainerOf w.gid with
  | some tw =>
    obtain ⟨htm, htg, htt⟩ := trainerOf_some htO
    have hT := h.trainedOK htm htt
    obtain ⟨x, hx⟩ := hT.train
    obtain ⟨y, hy⟩ := hT.label
    refine ⟨tw, htm, htg, ?_⟩
    rw [show g.evalFuel = g.workers.length + 1 from rfl, nodeVal_succ, worker?_of_mem h.nodup htm]
    simp only [htt, if_true, hx, hy, hT.stateful, htg, hss, asState_error]
    simp [Val.hasError]
  | none =>
    have hnt := trainerOf_none htO w hw rfl
    refine ⟨w, hw, rfl, ?_⟩
    rw [show g.evalFuel = g.workers.length + 1 from rfl, nodeVal_succ, worker?_of_mem h.nodup hw]
    simp only [hnt, Bool.false_eq_true, if_false, hst, Bool.not_true, htO, hss, asState_error]
    simp [Val.hasError]

end ForML.Flow
