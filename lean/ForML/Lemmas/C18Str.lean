/-
C18 helper lemmas: string ordinals through the TOML basic-string writer (`dumpStr`) and reader (`loadStr`).

`unescape` is used only through the one-step lemmas `unescape_plain` / `unescape_bs`; the region on which the
writer/reader pair is faithful is the decidable predicate `safeStr`.
-/
import ForML.Model.Tag

namespace ForML.Tag

/-- the text is `"` or starts with `""` (the reader mistakes the unescaped value for a triple-quoted string) -/
def leadingQuotes : List Nat → Bool
  | [a] => a == 34
  | a :: b :: _ => a == 34 && b == 34
  | [] => false

/-- no character that Python's `repr` writes as `\xNN` -/
def noXEsc (s : List Nat) : Bool := s.all (fun c => !isXEsc c)

/-- string ordinals on which the `toml` writer/reader pair is faithful: no `\xNN`-escaped character, no backslash
directly followed by `x`, and not `"` / not starting with `""` -/
def safeStr (s : List Nat) : Bool := noXEsc s && !hasBX s && !leadingQuotes s

/-! ### one-step lemmas for the reader -/

@[simp] theorem consOk_ok (x : Nat) (t : List Nat) : consOk x (.ok t) = .ok (x :: t) := rfl
@[simp] theorem consOk_error (x : Nat) (e : StrErr) : consOk x (.error e) = .error e := rfl

@[simp] theorem unescape_nil : unescape [] = .ok [] := by
  rw [unescape.eq_def]

theorem unescape_plain (a : Nat) (l : List Nat) (h : a ≠ 92) : unescape (a :: l) = consOk a (unescape l) := by
  rw [unescape.eq_def]
  simp [h]

theorem unescape_bs (c x : Nat) (r : List Nat) (h : escChar c = some x) :
    unescape (92 :: c :: r) = consOk x (unescape r) := by
  rw [unescape.eq_def]
  simp [h]

/-! ### the writer outside the `\x` region -/

theorem splitBX_noBX (l acc : List Nat) (h : hasBX l = false) : splitBX acc l = [acc.reverse ++ l] := by
  induction l generalizing acc with
  | nil => simp [splitBX]
  | cons a r ih =>
    cases r with
    | nil => simp [splitBX]
    | cons b r' =>
      simp only [hasBX, Bool.or_eq_false_iff] at h
      rw [splitBX, if_neg (by simp [h.1]), ih (a :: acc) h.2]
      simp

theorem dumpStr_noBX (s : List Nat) (h : hasBX (escape s) = false) :
    dumpStr s = .ok (34 :: escape s ++ [34]) := by
  unfold dumpStr
  rw [splitBX_noBX _ [] h]
  rfl

/-! ### `\x` in the escaped text = backslash followed by `x` in the text -/

/-- first character is `x` -/
def headX : List Nat → Bool
  | a :: _ => a == 120
  | [] => false

theorem hasBX_cons (a : Nat) (l : List Nat) : hasBX (a :: l) = ((a == 92 && headX l) || hasBX l) := by
  cases l with
  | nil => simp [hasBX, headX]
  | cons b r => simp [hasBX, headX]

/-- the possible shapes of `esc c` for a character that is not `\x`-escaped -/
theorem esc_shape (c : Nat) (hx : isXEsc c = false) :
    (c = 92 ∧ esc c = [92, 92]) ∨ (∃ d, c ≠ 92 ∧ d ≠ 120 ∧ d ≠ 92 ∧ esc c = [92, d]) ∨ (c ≠ 92 ∧ esc c = [c]) := by
  unfold esc
  by_cases h1 : c = 92
  · subst h1; exact Or.inl ⟨rfl, rfl⟩
  by_cases h2 : c = 34
  · subst h2; exact Or.inr (Or.inl ⟨34, by decide, by decide, by decide, rfl⟩)
  by_cases h3 : c = 9
  · subst h3; exact Or.inr (Or.inl ⟨116, by decide, by decide, by decide, rfl⟩)
  by_cases h4 : c = 10
  · subst h4; exact Or.inr (Or.inl ⟨110, by decide, by decide, by decide, rfl⟩)
  by_cases h5 : c = 13
  · subst h5; exact Or.inr (Or.inl ⟨114, by decide, by decide, by decide, rfl⟩)
  refine Or.inr (Or.inr ⟨h1, ?_⟩)
  simp [h1, h2, h3, h4, h5, hx]

theorem headX_escape (s : List Nat) (hx : noXEsc s = true) : headX (escape s) = headX s := by
  cases s with
  | nil => rfl
  | cons c r =>
    simp only [noXEsc, List.all_cons, Bool.and_eq_true, Bool.not_eq_true'] at hx
    rcases esc_shape c hx.1 with ⟨e, he⟩ | ⟨d, hc, _, _, he⟩ | ⟨_, he⟩
    · subst e; simp [escape, he, headX]
    · simp only [escape, he, headX, List.cons_append]
      have : c ≠ 120 := by
        intro e; subst e
        have : esc 120 = [120] := by decide
        rw [this] at he; cases he
      simp [this]
    · simp [escape, he, headX]

theorem hasBX_escape (s : List Nat) (hx : noXEsc s = true) : hasBX (escape s) = hasBX s := by
  induction s with
  | nil => rfl
  | cons c r ih =>
    have hx' := hx
    simp only [noXEsc, List.all_cons, Bool.and_eq_true, Bool.not_eq_true'] at hx
    have hr : noXEsc r = true := by simpa [noXEsc] using hx.2
    have ih' := ih hr
    have hh := headX_escape r hr
    rw [hasBX_cons c r]
    rcases esc_shape c hx.1 with ⟨e, he⟩ | ⟨d, hc, hd, hd', he⟩ | ⟨hc, he⟩
    · subst e
      simp only [escape, he, List.cons_append, List.nil_append]
      rw [hasBX_cons, hasBX_cons, ih', hh]
      simp [headX]
    · simp only [escape, he, List.cons_append, List.nil_append]
      rw [hasBX_cons, hasBX_cons, ih']
      have b1 : (d == 120) = false := by simpa using hd
      have b2 : (d == 92) = false := by simpa using hd'
      have b3 : (c == 92) = false := by simpa using hc
      simp only [headX, b1, b2, b3, Bool.and_false, Bool.false_and, Bool.false_or]
    · simp only [escape, he, List.cons_append, List.nil_append]
      rw [hasBX_cons, ih', hh]

/-! ### the reader on what the writer emitted -/

theorem unescape_esc_append (c : Nat) (hx : isXEsc c = false) (rest : List Nat) :
    unescape (esc c ++ rest) = consOk c (unescape rest) := by
  unfold esc
  by_cases h1 : c = 92
  · subst h1; exact unescape_bs 92 92 rest (by decide)
  by_cases h2 : c = 34
  · subst h2; exact unescape_bs 34 34 rest (by decide)
  by_cases h3 : c = 9
  · subst h3; exact unescape_bs 116 9 rest (by decide)
  by_cases h4 : c = 10
  · subst h4; exact unescape_bs 110 10 rest (by decide)
  by_cases h5 : c = 13
  · subst h5; exact unescape_bs 114 13 rest (by decide)
  simp only [beq_iff_eq, h1, h2, h3, h4, h5, hx, if_false, Bool.false_eq_true, List.cons_append, List.nil_append]
  exact unescape_plain c rest h1

theorem unescape_escape (s : List Nat) (hx : noXEsc s = true) (tail t : List Nat)
    (hr : unescape tail = .ok t) : unescape (escape s ++ tail) = .ok (s ++ t) := by
  induction s with
  | nil => simpa [escape] using hr
  | cons c r ih =>
    simp only [noXEsc, List.all_cons, Bool.and_eq_true, Bool.not_eq_true'] at hx
    have ih' := ih (by simpa [noXEsc] using hx.2)
    rw [escape, List.append_assoc, unescape_esc_append c hx.1, ih']
    rfl

theorem finish_quoted (s : List Nat) (hq : leadingQuotes s = false) : finish (34 :: (s ++ [34])) = s := by
  cases s with
  | nil => rfl
  | cons c r =>
    cases r with
    | nil =>
      have hc : (c == 34) = false := by simpa [leadingQuotes] using hq
      simp [finish, looksTriple, hc]
    | cons d r' =>
      have hcd : (c == 34 && (c == d)) = false := by
        simp only [leadingQuotes] at hq
        cases h1 : (c == 34)
        · rfl
        · have e : c = 34 := by simpa using h1
          subst e
          have : (d == 34) = false := by simpa using hq
          simp only [Bool.true_and]
          cases h2 : (34 == d)
          · rfl
          · have e : 34 = d := by simpa using h2
            subst e; simp at this
      have : looksTriple (34 :: (c :: d :: r' ++ [34])) = false := by
        simp only [looksTriple, List.cons_append]
        exact hcd
      unfold finish
      rw [this]
      simp only [Bool.false_eq_true, if_false, List.drop_succ_cons, List.drop_zero]
      exact List.dropLast_concat

/-- **string ordinals round-trip** through the TOML basic-string writer and reader on the safe region -/
theorem str_roundtrip (s : List Nat) (h : safeStr s = true) :
    dumpStr s = .ok (34 :: escape s ++ [34]) ∧ loadStr (34 :: escape s ++ [34]) = .ok s := by
  simp only [safeStr, Bool.and_eq_true, Bool.not_eq_true'] at h
  obtain ⟨⟨hx, hb⟩, hq⟩ := h
  refine ⟨dumpStr_noBX s (by rw [hasBX_escape s hx]; exact hb), ?_⟩
  have hu : unescape (34 :: escape s ++ [34]) = .ok (34 :: (s ++ [34])) := by
    have h1 : unescape [34] = .ok [34] := by
      rw [unescape_plain 34 [] (by decide), unescape_nil]; rfl
    rw [List.cons_append, unescape_plain 34 _ (by decide), unescape_escape s hx [34] [34] h1]
    rfl
  unfold loadStr
  simp only [List.cons_append, beq_self_eq_true, if_true]
  rw [← List.cons_append, hu]
  simp only [finish_quoted s hq]

end ForML.Tag
