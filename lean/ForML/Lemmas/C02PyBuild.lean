/-
C02 helper lemmas: `Expression._build` (model `buildLoop`). Every built node stands for a symbol of the table,
its raw term applied to the denotations of its remaining arguments is the symbol's instruction applied to the
denotations of all its arguments (presets and condensed loaders included), and its arguments were built before it.
-/
import ForML.Lemmas.C02Table
import ForML.Lemmas.C02PyEval
import ForML.Model.TableWF

namespace ForML.Flow.PyFunc
open ForML.Flow

abbrev Built := List (Key × Raw × List Key)

/-- `D` gives every loader symbol the state the asset accessor loads for it -/
def LoadersOK (A : Option Assets) (t : Table) (D : Key → Val) : Prop :=
  ∀ a A' g s, t.find a = some s → s.instr = .loader g → A = some A' → D a = A'.load g

/-- the built node `n` is a faithful reduction of its symbol -/
def NodeOK (A : Option Assets) (t : Table) (D : Key → Val) (n : Key × Raw × List Key) : Prop :=
  ∃ s, t.find n.1 = some s ∧
    ∀ extra, exec A s.instr (s.args.map D ++ extra) = n.2.1.call (n.2.2.map D ++ extra)

/-- arguments are built before their consumers (`seen` = keys built before the list) -/
def ArgsEarlier : List Key → Built → Prop
  | _, [] => True
  | seen, n :: rest => (∀ a ∈ n.2.2, a ∈ seen) ∧ ArgsEarlier (seen ++ [n.1]) rest

theorem argsEarlier_append (n : Key × Raw × List Key) :
    ∀ (seen : List Key) (built : Built), ArgsEarlier seen built →
      (∀ a ∈ n.2.2, a ∈ seen ++ built.map (·.1)) → ArgsEarlier seen (built ++ [n])
  | seen, [], _, h => by simpa [ArgsEarlier] using h
  | seen, m :: rest, hb, h => by
    simp only [ArgsEarlier, List.cons_append] at hb ⊢
    refine ⟨hb.1, argsEarlier_append n _ rest hb.2 ?_⟩
    intro a ha
    have := h a ha
    simp only [List.map_cons, List.mem_append, List.mem_cons] at this ⊢
    rcases this with h1 | h1 | h1
    · exact Or.inl (Or.inl h1)
    · exact Or.inl (Or.inr (Or.inl h1))
    · exact Or.inr h1

/-- the value an evaluated argument stands for -/
def rho (D : Key → Val) : Evaluated → Val
  | .value v => v
  | .instr k => D k

theorem evaluate_spec {A : Option Assets} {t : Table} {D : Key → Val} (hl : LoadersOK A t D) {a : Key}
    {e : Evaluated} (h : evaluate A t a = .ok e) : rho D e = D a := by
  unfold evaluate at h
  split at h
  · rename_i k g as hf
    split at h
    · cases h
    · rename_i A'
      split at h
      · cases h
      · cases h
        simp only [rho]
        exact (hl a A' g _ hf rfl rfl).symm
  · cases h; rfl

theorem evaluateAll_spec {A : Option Assets} {t : Table} {D : Key → Val} (hl : LoadersOK A t D) :
    ∀ {as : List Key} {evs : List Evaluated}, evaluateAll A t as = .ok evs → evs.map (rho D) = as.map D
  | [], evs, h => by simp only [evaluateAll] at h; cases h; rfl
  | a :: as, evs, h => by
    simp only [evaluateAll] at h
    split at h
    · cases h
    · rename_i v hv
      split at h
      · cases h
      · rename_i vs hvs
        cases h
        simp [evaluate_spec hl hv, evaluateAll_spec hl hvs]

theorem reduce_spec (D : Key → Val) :
    ∀ {ps : List Preset} {st : Val} {evs : List Evaluated} {st' : Val} {rem : List Evaluated},
      reduce ps st evs = .ok (st', rem) →
      ∀ extra, reducePresets ps st (evs.map (rho D) ++ extra) = some (st', rem.map (rho D) ++ extra)
  | [], st, evs, st', rem, h, extra => by
    simp only [reduce] at h; cases h; rfl
  | .setState :: ps, st, [], st', rem, h, extra => by simp [reduce] at h
  | .setState :: ps, st, .value v :: evs, st', rem, h, extra => by
    simp only [reduce] at h
    simp only [List.map_cons, List.cons_append, rho, reducePresets]
    exact reduce_spec D h extra
  | .setState :: ps, st, .instr k :: evs, st', rem, h, extra => by simp [reduce] at h

theorem resolveAll_spec (D : Key → Val) {built : Built} :
    ∀ {rem : List Evaluated} {args : List Key}, resolveAll built rem = .ok args →
      rem.map (rho D) = args.map D ∧ ∀ a ∈ args, a ∈ built.map (·.1)
  | [], args, h => by simp only [resolveAll] at h; cases h; simp
  | e :: rem, args, h => by
    simp only [resolveAll] at h
    split at h
    · cases h
    · rename_i k hk
      split at h
      · cases h
      · rename_i ks hks
        cases h
        have ih := resolveAll_spec D hks
        cases e with
        | value v => simp [resolve] at hk
        | instr k' =>
          simp only [resolve] at hk
          split at hk
          · rename_i hany
            cases hk
            refine ⟨by simp [rho, ih.1], ?_⟩
            intro a ha
            rcases List.mem_cons.1 ha with rfl | ha
            · simp only [List.any_eq_true, decide_eq_true_eq] at hany
              obtain ⟨n, hn, rfl⟩ := hany
              exact List.mem_map_of_mem hn
            · exact ih.2 a ha
          · cases hk

theorem resolveAll_instr {built : Built} :
    ∀ {as args : List Key}, resolveAll built (as.map .instr) = .ok args → args = as
  | [], args, h => by simp only [List.map_nil, resolveAll] at h; cases h; rfl
  | a :: as, args, h => by
    simp only [List.map_cons, resolveAll] at h
    split at h
    · cases h
    · rename_i k hk
      split at h
      · cases h
      · rename_i ks hks
        cases h
        simp only [resolve] at hk
        split at hk
        · cases hk; rw [resolveAll_instr hks]
        · cases hk

theorem getter_call (A : Option Assets) (i : Nat) : ∀ l, exec A (.getter i) l = (Raw.get i).call l
  | [] => rfl
  | [_] => rfl
  | _ :: _ :: _ => rfl

theorem task_call (a : Actor) (st : Val) : ∀ (act : Action) (rest : List Val),
    (match act with
      | .apply => Val.apply a st rest
      | .train => match rest with
        | [x, y] => Val.state a st x y
        | _ => Val.error .arity) = (Raw.task a st act).call rest
  | .apply, _ => rfl
  | .train, [] => rfl
  | .train, [_] => rfl
  | .train, [_, _] => rfl
  | .train, _ :: _ :: _ :: _ => rfl

theorem buildLoop_spec {A : Option Assets} {t : Table} {D : Key → Val} (hl : LoadersOK A t D) :
    ∀ (ks : List Key) (built res : Built), buildLoop A t ks built = .ok res →
      (∀ n ∈ built, NodeOK A t D n) → ArgsEarlier [] built →
      (∀ n ∈ res, NodeOK A t D n) ∧ ArgsEarlier [] res ∧
        res.map (·.1) = built.map (·.1) ++ ks.filter t.isNode := by
  intro ks
  induction ks with
  | nil => intro built res h hb he; simp only [buildLoop] at h; cases h; exact ⟨hb, he, by simp⟩
  | cons k rest ih =>
    intro built res h hb he
    simp only [buildLoop] at h
    split at h
    · cases h
    · rename_i s hfind
      split at h
      · cases h
      · cases h
      · rename_i g hinstr
        split at h
        · have := ih built res h hb he
          refine ⟨this.1, this.2.1, ?_⟩
          rw [this.2.2]
          simp [List.filter_cons, Table.isNode, hfind, hinstr]
        · cases h
      · rename_i i hinstr
        split at h
        · cases h
        · rename_i args hargs
          have hargs' := resolveAll_instr hargs
          have hin := (resolveAll_spec D hargs).2
          have := ih _ res h
            (by
              intro n hn
              rcases List.mem_append.1 hn with h1 | h1
              · exact hb n h1
              · simp at h1; subst h1
                refine ⟨s, hfind, ?_⟩
                intro extra
                simp only [hinstr, hargs']
                exact getter_call A i _)
            (argsEarlier_append _ _ _ he (by intro a ha; simpa using hin a ha))
          refine ⟨this.1, this.2.1, ?_⟩
          rw [this.2.2]
          simp [List.filter_cons, Table.isNode, hfind, hinstr]
      · rename_i a action presets hinstr
        split at h
        · cases h
        · rename_i evs hevs
          split at h
          · cases h
          · rename_i st remaining hred
            split at h
            · cases h
            · rename_i args hargs
              have hres := resolveAll_spec D hargs
              have := ih _ res h
                (by
                  intro n hn
                  rcases List.mem_append.1 hn with h1 | h1
                  · exact hb n h1
                  · simp at h1; subst h1
                    refine ⟨s, hfind, ?_⟩
                    intro extra
                    simp only [hinstr, exec, execFunctor]
                    rw [← evaluateAll_spec hl hevs, reduce_spec D hred extra, hres.1]
                    exact task_call a st action _)
                (argsEarlier_append _ _ _ he (by intro a ha; simpa using hres.2 a ha))
              refine ⟨this.1, this.2.1, ?_⟩
              rw [this.2.2]
              simp [List.filter_cons, Table.isNode, hfind, hinstr]

end ForML.Flow.PyFunc
