/-
C03 — helper lemmas: `ensemble.FullStack` (`Ensembler.compose` + `FullStack.Builder.build`) realises `denoteStack`.

The region certificate (`Spec True`) of the scope and of every base model is consumed (`Segment.copy`) and re-established
for the trunk of the ensemble itself (`spec_stack` concludes `Spec True`): the nodes reachable from the ensemble's apply
head — fold expansions of the scope, fold expansions of the bases, reducer forks, `apply_output` — are evaluable and fed
from the apply side only; the held-out copies, the stacker forks, `train_output` and `label_output` are not reachable from
it (`Lemmas/C03Areg.lean`).  Hence a stacking ensemble may sit in the scope or among the base models of another one.
-/
import ForML.Lemmas.C03Bases

namespace ForML.Compose

/-- `label_output[i].subscribe(fold.test.label)` -/
theorem subscribeLabels_spec (lO : WRef) (aL : Actor) (N lo rr : Nat) (R : Nat) (foldSem : Nat → Sem) (testV : Nat → Val)
    (lfuid : Nat) :
    ∀ (folds : List Fold) (i : Nat) (g : Graph) (W : World) (ins : Nat → PubRef), Inv g W → Wired g →
      FoldsVal W R foldSem testV lfuid i folds → lfuid < g.next → Coll g W lO.uid lO.gid aL N i ins →
      (∀ k, k < i → ins k = ⟨lfuid, 2 * k + 1⟩) →
      ∃ g' ins', Run (subscribeLabels lO i folds) g () g' ∧ LoopOk (fun u => u = lO.uid) lo g g' W W rr ∧
        Coll g' W lO.uid lO.gid aL N (i + folds.length) ins' ∧ (∀ k, k < i + folds.length → ins' k = ⟨lfuid, 2 * k + 1⟩) ∧
        g'.next = g.next ∧ g'.trains = g.trains := by
  intro folds
  induction folds with
  | nil =>
    intro i g W ins hi hw _ _ hc hins
    exact ⟨g, ins, rfl, LoopOk.refl hi hw rr, by simpa using hc, by simpa using hins, rfl, rfl⟩
  | cons f rest ih =>
    intro i g W ins hi hw hfv hlf' hc hins
    obtain ⟨_, _, _, _, hlab, hrest⟩ := hfv
    obtain ⟨r1, hi1, hw1, c1⟩ := hc.push hi hw f.testLabel (by rw [hlab]; exact hlf')
    have hl1 : LoopOk (fun u => u = lO.uid) lo g (g.pushEdge ⟨lO.uid, i, f.testLabel⟩) W W rr :=
      (LoopOk.refl hi hw rr).pushColl _ (fun _ => rfl) hc.notLive hc.lt (hc.free i (Nat.le_refl _)) (by rw [hlab]; exact hlf')
    obtain ⟨g', ins', hrun, hl', c', hins', hn', htr'⟩ := ih (i + 1) _ W _ hi1 hw1 hrest (by simpa using hlf') c1 (by
      intro k hk
      by_cases e : k = i
      · subst e; simp [hlab]
      · simp only [e, if_false]; exact hins k (by omega))
    refine ⟨g', ins', ?_, hl1.trans hl', ?_, ?_, by rw [hn']; rfl, by rw [htr']; rfl⟩
    · unfold subscribeLabels
      exact Run.bind r1 hrun
    · have : i + (f :: rest).length = i + 1 + rest.length := by simp; omega
      rw [this]; exact c'
    · intro k hk
      exact hins' k (by simp at hk; omega)

/-- what is live stays as it is when another node becomes live -/
theorem set_keep {W : World} {u : Nat} (v : Nat → Val) (ρ : Nat) (hu : ¬ W.live u) (q : PubRef) (hq : W.live q.node) :
    (W.set u v ρ).live q.node ∧ (W.set u v ρ).σ q = W.σ q ∧ (W.set u v ρ).h q.node = W.h q.node := by
  have : q.node ≠ u := fun e => hu (e ▸ hq)
  exact ⟨Or.inr hq, set_σ_other _ _ _ _ _ this, set_h_other _ _ _ _ _ this⟩

theorem RefOk.set_keep {W : World} {u : Nat} (v : Nat → Val) (ρ : Nat) (hu : ¬ W.live u) {q : PubRef} {r : Nat}
    (hq : RefOk W q r) : RefOk (W.set u v ρ) q r := by
  obtain ⟨a1, _, a3⟩ := ForML.Compose.set_keep v ρ hu q hq.1
  exact ⟨a1, by rw [a3]; exact hq.2⟩

theorem two_mul_ne_one (n : Nat) : (2 * n == 1) = false := by
  have : 2 * n ≠ 1 := by omega
  simpa using this

/-- what the head of the ensemble (the trunk's three holes, the trained splitter and its two forks) provides -/
structure StackHead (g g9 : Graph) (W W9 : World) (head : Trunk) (ff lf : WRef) (splitter n : Nat) (xa xt xl : Val) (r : Nat) :
    Prop where
  inv : Inv g9 W9
  wired : Wired g9
  frame : Frame g g9
  agree : Agree g.next W W9
  next : g9.next = g.next + 7
  ha : HeadOk g g9 W9 head.apply.head xa r
  ht : HeadOk g g9 W9 head.train.head xt r
  hl : HeadOk g g9 W9 head.label.head xl r
  distinct : head.apply.head ≠ head.train.head ∧ head.apply.head ≠ head.label.head ∧ head.train.head ≠ head.label.head
  tails : head.apply.tail = head.apply.head ∧ head.train.tail = head.train.head ∧ head.label.tail = head.label.head
  ffuid : g.next ≤ ff.uid ∧ ff.uid < g9.next
  lfuid : g.next ≤ lf.uid ∧ lf.uid < g9.next
  pubs : SplitPubs W9 head ff.uid lf.uid (r + 2) xa
    (.apply splitter (.state splitter .none xt xl) [xt]) (.apply splitter (.state splitter .none xt xl) [xl])
  trains : ∃ T, g9.trains = g.trains ++ [T] ∧ W9.live T.train.node ∧ W9.live T.label.node ∧
    trainedUnder W9 T = (splitter, .state splitter .none xt xl)
  rank : ∀ n', g.next ≤ n' → W9.live n' → W9.h n' < r + 3
  fresh : ∀ n', g.next ≤ n' → W9.live n' → ∀ gid a i o, g9.kindOf n' = some (.worker gid a i o) → g.next ≤ gid
  opens : ∀ n', g.next ≤ n' → W9.live n' → g9.isOpen n' →
    n' = head.apply.head ∨ n' = head.train.head ∨ n' = head.label.head
  /-- nothing is subscribed to the apply head yet -/
  reach : ∀ m, Reach g9 head.apply.head m → m = head.apply.head
  ffne : ff.uid ≠ head.apply.head ∧ lf.uid ≠ head.apply.head
  closed : ∀ s k q, g.next ≤ s → g9.inputOf s k = some q → g.next ≤ q.node

theorem stack_head {g : Graph} {W : World} (hi : Inv g W) (hw : Wired g) (xa xt xl : Val) (r : Nat) (hr : r ≤ g.next)
    (splitter n : Nat) :
    ∃ head g9 W9 ff lf, (∀ {β : Type} (k : Trunk → WRef → WRef → GraphM β) (b : β) (g' : Graph),
        Run (k head ff lf) g9 b g' → Run (do
          let head ← Trunk.new
          let inputSplitter ← newWorker ⟨splitter, true⟩ 1 (2 * n)
          train inputSplitter head.train.publisher head.label.publisher
          let featureFolds ← fork inputSplitter
          subscribe featureFolds.uid 0 head.train.publisher
          let labelFolds ← fork inputSplitter
          subscribe labelFolds.uid 0 head.label.publisher
          k head featureFolds labelFolds) g b g') ∧
      StackHead g g9 W W9 head ff lf splitter n xa xt xl r := by
  obtain ⟨head, g3, W3, hrun0, h0⟩ := spec_new (full := True) g W xa xt xl r hi hw hr
  obtain ⟨eh, eg⟩ := run_det hrun0 (run_trunk_new g)
  have hn3 : g3.next = g.next + 3 := by rw [eg]; rfl
  have htails : head.apply.tail = head.apply.head ∧ head.train.tail = head.train.head ∧ head.label.tail = head.label.head := by
    rw [eh]; exact ⟨rfl, rfl, rfl⟩
  have hb3 := h0.inv.bounded
  have hk0 : ∀ u, g3.next ≤ u → g3.kindOf u = none := fun u hu => hb3.kindOf_none hu
  have hin0 : ∀ u k, g3.next ≤ u → g3.inputOf u k = none := fun u k hu => hb3.inputOf_none hu k
  have htr0 : ∀ u, g3.next ≤ u → g3.trainerOf u = none := fun u hu => hb3.trainerOf_none hu
  let A : Actor := ⟨splitter, true⟩
  let T : Training := ⟨g3.next + 1, g3.next, A, head.train.publisher, head.label.publisher⟩
  let g4 := g3.bump.bump.pushNode ⟨g3.next, .worker (g3.next + 1) A 1 (2 * n)⟩
  let g5 := g4.pushTrain T
  let g6 := g5.bump.pushNode ⟨g3.next + 2, .worker (g3.next + 1) A 1 (2 * n)⟩
  let g7 := g6.pushEdge ⟨g3.next + 2, 0, head.train.publisher⟩
  let g8 := g7.bump.pushNode ⟨g3.next + 3, .worker (g3.next + 1) A 1 (2 * n)⟩
  let g9 := g8.pushEdge ⟨g3.next + 3, 0, head.label.publisher⟩
  have hlt3 : ∀ u, W3.live u → u < g3.next := fun u hu => (h0.inv.liveLt u hu).1
  have htt := hlt3 _ h0.tt.1
  have htl := hlt3 _ h0.tl.1
  have fr7 : g6.inputOf (g3.next + 2) 0 = none := by glook [hin0]
  have fr9 : g8.inputOf (g3.next + 3) 0 = none := by glook [hin0] <;> omega
  have hb9 : Bounded g9 :=
    ((((((hb3.bump.bump.pushNode _ (by gnext) (by intro _ _ _ _ h; cases h; gnext)).pushTrain _ (by gnext)).bump.pushNode _
      (by gnext) (by intro _ _ _ _ h; cases h; gnext)).pushEdge _ (by gnext)).bump.pushNode _ (by gnext)
      (by intro _ _ _ _ h; cases h; gnext)).pushEdge _ (by gnext))
  have hf9 : Frame g3 g9 :=
    ((((((Frame.refl g3).bump.bump.pushNode _ (Nat.le_refl _)).pushTrain _ (by gnext)).bump.pushNode _ (by gnext)).pushEdge _
      (by gnext)).bump.pushNode _ (by gnext)).pushEdge _ (by gnext)
  have hw9 : Wired g9 :=
    ((((((h0.wired.bump.bump.pushNode _).pushTrain _).bump.pushNode _).pushEdge _
      (by show head.train.tail < g3.next + 1 + 1 + 1; omega) fr7).bump.pushNode _).pushEdge _
      (by show head.label.tail < g3.next + 1 + 1 + 1 + 1; omega) fr9)
  have hn9 : g9.next = g.next + 7 := by show g3.next + 1 + 1 + 1 + 1 = _; omega
  have hrun : ∀ {β : Type} (k : Trunk → WRef → WRef → GraphM β) (b : β) (g' : Graph),
      Run (k head ⟨g3.next + 2, g3.next + 1, A, 1, 2 * n⟩ ⟨g3.next + 3, g3.next + 1, A, 1, 2 * n⟩) g9 b g' → Run (do
        let head ← Trunk.new
        let inputSplitter ← newWorker ⟨splitter, true⟩ 1 (2 * n)
        train inputSplitter head.train.publisher head.label.publisher
        let featureFolds ← fork inputSplitter
        subscribe featureFolds.uid 0 head.train.publisher
        let labelFolds ← fork inputSplitter
        subscribe labelFolds.uid 0 head.label.publisher
        k head featureFolds labelFolds) g b g' := by
    intro β k b g' hk
    refine Run.bind hrun0 (Run.bind (run_newWorker A 1 (2 * n) g3) (Run.bind (run_train _ _ _ g4 rfl ?_)
      (Run.bind (run_fork _ g5) (Run.bind (run_subscribe _ _ _ g6 fr7) (Run.bind (run_fork _ g7)
        (Run.bind (run_subscribe _ _ _ g8 fr9) hk))))))
    show g4.trainerOf (g3.next + 1) = none
    glook [htr0]
  -- lookups in the final graph
  have kff : g9.kindOf (g3.next + 2) = some (.worker (g3.next + 1) A 1 (2 * n)) := by glook [hk0]
  have klf : g9.kindOf (g3.next + 3) = some (.worker (g3.next + 1) A 1 (2 * n)) := by glook [hk0]
  have iff' : g9.inputOf (g3.next + 2) 0 = some head.train.publisher := by glook [hin0]
  have ilf : g9.inputOf (g3.next + 3) 0 = some head.label.publisher := by glook [hin0] <;> omega
  have tsp : g9.trainerOf (g3.next + 1) = some T := by glook [htr0]
  have hnl : ∀ u, g3.next ≤ u → ¬ W3.live u := fun u hu h => by have := hlt3 u h; omega
  have hi9 : Inv g9 W3 := h0.inv.ofFrame hf9 hb9
  have rtt : RefOk W3 head.train.publisher (r + 1) := by
    refine ⟨h0.tt.1, ?_⟩
    show W3.h head.train.tail < r + 1
    rw [htails.2.1, h0.ht.rank]; omega
  have rtl : RefOk W3 head.label.publisher (r + 1) := by
    refine ⟨h0.tl.1, ?_⟩
    show W3.h head.label.tail < r + 1
    rw [htails.2.2, h0.hl.rank]; omega
  have vtt : W3.σ head.train.publisher = xt := by
    show W3.σ ⟨head.train.tail, 0⟩ = xt
    rw [htails.2.1]; exact h0.ht.val 0
  have vtl : W3.σ head.label.publisher = xl := by
    show W3.σ ⟨head.label.tail, 0⟩ = xl
    rw [htails.2.2]; exact h0.hl.val 0
  have stF : StateFor g9 W3 (g3.next + 1) A (r + 1) (.state splitter .none xt xl) := by
    have := StateFor.trained (g := g9) (W := W3) (a := A) (r := r + 1) tsp rfl rtt rtl
    have e1 : W3.σ T.train = xt := vtt
    have e2 : W3.σ T.label = xl := vtl
    rw [e1, e2] at this
    exact this
  have hiF := hi9.liveWorker (g3.next + 2) (g3.next + 1) A 1 (2 * n) (fun _ => head.train.publisher) (r + 1)
    (.state splitter .none xt xl) kff (hnl _ (by omega)) (by omega)
    (by intro k hk; have : k = 0 := by omega
        subst this; exact ⟨iff', rtt⟩) stF
  obtain ⟨WF, hWF⟩ : ∃ x, x = W3.set (g3.next + 2) (fun i => portVal (2 * n) i (.apply A.tag (.state splitter .none xt xl)
      ((List.range 1).map (fun _ => W3.σ head.train.publisher)))) (r + 1) := ⟨_, rfl⟩
  rw [← hWF] at hiF
  have oldF : ∀ q : PubRef, W3.live q.node → WF.live q.node ∧ WF.σ q = W3.σ q ∧ WF.h q.node = W3.h q.node := by
    intro q hq
    have : q.node ≠ g3.next + 2 := fun e => hnl _ (by omega) (e ▸ hq)
    rw [hWF]
    exact ⟨Or.inr hq, set_σ_other _ _ _ _ _ this, set_h_other _ _ _ _ _ this⟩
  have hnlF : ¬ WF.live (g3.next + 3) := by
    rw [hWF]; intro h; rcases h with h | h
    · omega
    · exact hnl _ (by omega) h
  have hiL := hiF.liveWorker (g3.next + 3) (g3.next + 1) A 1 (2 * n) (fun _ => head.label.publisher) (r + 1)
    (.state splitter .none xt xl) klf hnlF (by omega)
    (by intro k hk; have : k = 0 := by omega
        subst this
        obtain ⟨a1, _, a3⟩ := oldF _ rtl.1
        exact ⟨ilf, a1, by rw [a3]; exact rtl.2⟩)
    (by rw [hWF]; exact stF.set _ _ _ (hnl _ (by omega)))
  obtain ⟨W9, hW9⟩ : ∃ x, x = WF.set (g3.next + 3) (fun i => portVal (2 * n) i (.apply A.tag (.state splitter .none xt xl)
      ((List.range 1).map (fun _ => WF.σ head.label.publisher)))) (r + 1) := ⟨_, rfl⟩
  rw [← hW9] at hiL
  have live9 : ∀ u, W9.live u ↔ (u = g3.next + 3 ∨ u = g3.next + 2 ∨ W3.live u) := by
    intro u; rw [hW9, hWF]; exact Iff.rfl
  have old9 : ∀ q : PubRef, W3.live q.node → W9.live q.node ∧ W9.σ q = W3.σ q ∧ W9.h q.node = W3.h q.node := by
    intro q hq
    obtain ⟨a1, a2, a3⟩ := oldF q hq
    have : q.node ≠ g3.next + 3 := fun e => hnl _ (by omega) (e ▸ hq)
    rw [hW9]
    exact ⟨Or.inr a1, by rw [set_σ_other _ _ _ _ _ this]; exact a2, by rw [set_h_other _ _ _ _ _ this]; exact a3⟩
  have σff : ∀ i, W9.σ ⟨g3.next + 2, i⟩ = .proj i (.apply splitter (.state splitter .none xt xl) [xt]) := by
    intro i
    rw [hW9, set_σ_other _ _ _ _ _ (by show g3.next + 2 ≠ g3.next + 3; omega), hWF, set_σ_self]
    simp [portVal, two_mul_ne_one, vtt, A]
  have σlf : ∀ i, W9.σ ⟨g3.next + 3, i⟩ = .proj i (.apply splitter (.state splitter .none xt xl) [xl]) := by
    intro i
    rw [hW9, set_σ_self]
    have : WF.σ head.label.publisher = xl := by rw [(oldF _ rtl.1).2.1]; exact vtl
    simp [portVal, two_mul_ne_one, this, A]
  have hff : W9.h (g3.next + 2) = r + 1 := by
    rw [hW9, set_h_other _ _ _ _ _ (by omega), hWF, set_h_self]
  have hlf : W9.h (g3.next + 3) = r + 1 := by rw [hW9, set_h_self]
  have hag : Agree g.next W W9 := by
    have a3 : Agree g3.next W3 W9 := by
      rw [hW9, hWF]
      exact ((Agree.refl _ W3).set _ _ _ (by omega)).set _ _ _ (by omega)
    exact h0.agree.trans a3 (by omega)
  have head9 : ∀ (h : Nat) (x : Val), HeadOk g g3 W3 h x r → HeadOk g g9 W9 h x r := by
    intro h x hh
    have hlth := hlt3 _ hh.live
    obtain ⟨a1, a2, a3⟩ := old9 ⟨h, 0⟩ hh.live
    refine ⟨hh.ge, (hf9.isOpen hlth).mpr hh.isOpen, fun k => by rw [hf9.input h k hlth]; exact hh.free k, a1,
      by rw [a3]; exact hh.rank, ?_⟩
    intro i
    obtain ⟨_, b2, _⟩ := old9 ⟨h, i⟩ hh.live
    rw [b2]; exact hh.val i
  -- the subscriptions of the head: the two forks of the splitter only
  have in9 : ∀ s k q, g.next ≤ s → g9.inputOf s k = some q →
      (s = g3.next + 2 ∧ q = head.train.publisher) ∨ (s = g3.next + 3 ∧ q = head.label.publisher) := by
    intro s k q hs hq
    have hq9 : (g8.pushEdge ⟨g3.next + 3, 0, head.label.publisher⟩).inputOf s k = some q := hq
    rcases inputOf_pushEdge_some hq9 with hq8 | ⟨e1, _, e3⟩
    · have hq7 : (g6.pushEdge ⟨g3.next + 2, 0, head.train.publisher⟩).inputOf s k = some q := hq8
      rcases inputOf_pushEdge_some hq7 with hq6 | ⟨e1, _, e3⟩
      · exfalso
        have hq3 : g3.inputOf s k = some q := hq6
        rw [eg] at hq3
        have hq0 : g.inputOf s k = some q := hq3
        rw [hi.bounded.inputOf_none hs k] at hq0; cases hq0
      · exact Or.inl ⟨e1.symm, e3.symm⟩
    · exact Or.inr ⟨e1.symm, e3.symm⟩
  have hah : head.apply.head < g3.next := hlt3 _ h0.ha.live
  have hfg9 : Frame g g9 := h0.frame.trans hf9
  have reach9 : ∀ m, Reach g9 head.apply.head m → m = head.apply.head := by
    intro m hre
    induction hre with
    | refl => rfl
    | step hp he ih =>
      rename_i p s' k i
      exfalso
      by_cases hs : s' < g.next
      · rw [hfg9.input s' k hs] at he
        have h1 := hw.pub_lt he
        have h2 := h0.ha.ge
        simp at h1; omega
      · rcases in9 s' k _ (by omega) he with ⟨_, e⟩ | ⟨_, e⟩
        · have e' : p = head.train.tail := congrArg PubRef.node e
          rw [ih, htails.2.1] at e'
          exact h0.distinct.1 e'
        · have e' : p = head.label.tail := congrArg PubRef.node e
          rw [ih, htails.2.2] at e'
          exact h0.distinct.2.1 e'
  refine ⟨head, g9, W9, _, _, hrun, hiL, hw9, h0.frame.trans hf9, hag, hn9, head9 _ _ h0.ha, head9 _ _ h0.ht, head9 _ _ h0.hl,
    h0.distinct, htails, ⟨by show g.next ≤ g3.next + 2; omega, by show g3.next + 2 < g9.next; omega⟩,
    ⟨by show g.next ≤ g3.next + 3; omega, by show g3.next + 3 < g9.next; omega⟩, ?_, ?_, ?_, ?_, ?_, reach9,
    ⟨by show g3.next + 2 ≠ head.apply.head; omega, by show g3.next + 3 ≠ head.apply.head; omega⟩, ?_⟩
  rotate_right
  · intro s k q hs hq
    rcases in9 s k q hs hq with ⟨_, e⟩ | ⟨_, e⟩
    · rw [e]; show g.next ≤ head.train.tail; exact h0.tails_ge.2.1
    · rw [e]; show g.next ≤ head.label.tail; exact h0.tails_ge.2.2
  · refine ⟨?_, ?_, ?_⟩
    · obtain ⟨a1, a2, a3⟩ := old9 ⟨head.apply.tail, 0⟩ h0.ta.1
      refine ⟨a1, ?_, ?_⟩
      · show W9.h head.apply.tail < r + 2
        rw [a3, htails.1, h0.ha.rank]; omega
      · show W9.σ ⟨head.apply.tail, 0⟩ = xa
        rw [a2, htails.1]; exact h0.ha.val 0
    · intro i
      exact ⟨(live9 _).mpr (Or.inr (Or.inl rfl)), by show W9.h (g3.next + 2) < r + 2; rw [hff]; omega, σff i⟩
    · intro i
      exact ⟨(live9 _).mpr (Or.inl rfl), by show W9.h (g3.next + 3) < r + 2; rw [hlf]; omega, σlf i⟩
  · refine ⟨T, ?_, (old9 _ h0.tt.1).1, (old9 _ h0.tl.1).1, ?_⟩
    · obtain ⟨ts, hts, _, hm⟩ := h0.trains
      have : ts = [] := by
        have := congrArg List.length hm
        simpa [Scope.origin] using this
      show g3.trains ++ [T] = _
      rw [hts, this]; simp
    · unfold trainedUnder
      have e1 : W9.σ T.train = xt := by rw [(old9 _ h0.tt.1).2.1]; exact vtt
      have e2 : W9.σ T.label = xl := by rw [(old9 _ h0.tl.1).2.1]; exact vtl
      rw [e1, e2]
  · intro n' hn' hl'
    rcases (live9 _).mp hl' with e | e | h
    · subst e; rw [hlf]; omega
    · subst e; rw [hff]; omega
    · have h3 := h0.rank n' hn' h
      have e9 : W9.h n' = W3.h n' := (old9 ⟨n', 0⟩ h).2.2
      rw [e9]
      have : g3.next - g.next = 3 := by omega
      rw [this] at h3
      exact h3
  · intro n' hn' hl' gid a i o hk
    rcases (live9 _).mp hl' with e | e | h
    · subst e; rw [klf] at hk; cases hk; omega
    · subst e; rw [kff] at hk; cases hk; omega
    · have hlt' := hlt3 _ h
      rw [hf9.kind n' hlt'] at hk
      exact h0.fresh n' hn' h gid a i o hk
  · intro n' hn' hl' ho
    rcases (live9 _).mp hl' with e | e | h
    · subst e; rw [Graph.isOpen, klf] at ho; cases ho.1
    · subst e; rw [Graph.isOpen, kff] at ho; cases ho.1
    · have hlt' := hlt3 _ h
      exact h0.opens n' hn' h ((hf9.isOpen hlt').mp ho)

set_option maxHeartbeats 1600000 in
theorem spec_stack {scope : GraphM Trunk} {S : Scope} (hs : Spec True scope S) (hS : S.Indep)
    (pairs : List (GraphM Trunk × Scope)) (hp : ∀ p ∈ pairs, Spec True p.1 p.2 ∧ p.2.Indep) (hpne : pairs ≠ [])
    (n splitter appender stacker reducer : Nat) (hn : 0 < n) :
    Spec True (composeStack (pairs.map (·.1)) n splitter appender stacker reducer scope)
      (denoteStack (pairs.map (·.2)) n splitter appender stacker reducer S) := by
  intro g W xa xt xl r hi hw hr
  obtain ⟨head, g9, W9, ff, lf, hrunH, H⟩ := stack_head hi hw xa xt xl r hr splitter n
  obtain ⟨feats, hfeats⟩ : ∃ x, x = Val.apply splitter (.state splitter .none xt xl) [xt] := ⟨_, rfl⟩
  obtain ⟨labs, hlabs⟩ : ∃ x, x = Val.apply splitter (.state splitter .none xt xl) [xl] := ⟨_, rfl⟩
  have Hpubs := H.pubs
  rw [← hfeats, ← hlabs] at Hpubs
  obtain ⟨foldSem, hfoldSem⟩ : ∃ f : Nat → Sem, f = fun k => S xa (.proj (2 * k) feats) (.proj (2 * k) labs) := ⟨_, rfl⟩
  obtain ⟨testV, htestV⟩ : ∃ f : Nat → Val,
    f = fun k => (S (.proj (2 * k + 1) feats) (.proj (2 * k) feats) (.proj (2 * k) labs)).apply := ⟨_, rfl⟩
  have hg9 := H.frame.next_le
  have hn9 := H.next
  -- the folds
  obtain ⟨a, hadef⟩ : ∃ x, x = head.apply.head := ⟨_, rfl⟩
  have hlt9' : ∀ u, W9.live u → u < g9.next := fun u hu => (H.inv.liveLt u hu).1
  have ha9 : a < g9.next := by rw [hadef]; exact hlt9' _ H.ha.live
  have hage : g.next ≤ a := by rw [hadef]; exact H.ha.ge
  obtain ⟨folds, gF, WF, rF, hlF, hlenF, hfvF, haregF, hfrF, tsF, htsF, hliveF, hmapF⟩ :=
    foldsLoop_spec hs hS head ff lf (r + 2) g.next xa feats labs g9 a H.wired H.inv.bounded ha9
      (by show Reach g9 a head.apply.tail; rw [H.tails.1, hadef]; exact Reach.refl)
      (fun h => H.ffne.1 (H.reach _ (hadef ▸ h))) (fun h => H.ffne.2 (H.reach _ (hadef ▸ h)))
      ⟨⟨by show g.next ≤ head.apply.tail; rw [H.tails.1]; exact H.ha.ge,
        by show head.apply.tail < g9.next; rw [H.tails.1]; exact hlt9' _ H.ha.live⟩, H.ffuid, H.lfuid⟩
      n 0 g9 W9 H.inv H.wired (by omega) (by omega) Hpubs (Frame.refl g9) (AReg.init H.inv.bounded ha9)
  rw [← hfoldSem, ← htestV] at hfvF
  have hnF := hlF.next_le
  obtain ⟨RF, hRF⟩ : ∃ x, x = r + 2 + (gF.next - g9.next) := ⟨_, rfl⟩
  rw [← hRF] at hfvF
  have hltF : ∀ u, WF.live u → u < gF.next := fun u hu => (hlF.inv.liveLt u hu).1
  have hbF := hlF.inv.bounded
  -- the three output collectors
  let aS : Actor := ⟨stacker, false⟩
  let aP : Actor := ⟨appender, false⟩
  let gO := ((gF.bump.bump.pushNode ⟨gF.next, .worker (gF.next + 1) aS n 1⟩).bump.bump.pushNode
    ⟨gF.next + 2, .worker (gF.next + 3) aP (pairs.map (·.1)).length 1⟩).bump.pushNode
    ⟨gF.next + 4, .worker (gF.next + 3) aP (pairs.map (·.1)).length 1⟩
  let lO : WRef := ⟨gF.next, gF.next + 1, aS, n, 1⟩
  let tO : WRef := ⟨gF.next + 2, gF.next + 3, aP, (pairs.map (·.1)).length, 1⟩
  let aO : WRef := ⟨gF.next + 4, gF.next + 3, aP, (pairs.map (·.1)).length, 1⟩
  have hbO : Bounded gO :=
    ((hbF.bump.bump.pushNode _ (by gnext) (by intro _ _ _ _ h; cases h; gnext)).bump.bump.pushNode _ (by gnext)
      (by intro _ _ _ _ h; cases h; gnext)).bump.pushNode _ (by gnext) (by intro _ _ _ _ h; cases h; gnext)
  have hfO : Frame gF gO :=
    (((Frame.refl gF).bump.bump.pushNode _ (Nat.le_refl _)).bump.bump.pushNode _ (by gnext)).bump.pushNode _ (by gnext)
  have hwO : Wired gO := ((hlF.wired.bump.bump.pushNode _).bump.bump.pushNode _).bump.pushNode _
  have hiO : Inv gO WF := hlF.inv.ofFrame hfO hbO
  have hnO : gO.next = gF.next + 5 := rfl
  have hk0 : ∀ u, gF.next ≤ u → gF.kindOf u = none := fun u hu => hbF.kindOf_none hu
  have hin0 : ∀ u k, gF.next ≤ u → gF.inputOf u k = none := fun u k hu => hbF.inputOf_none hu k
  have hnlF : ∀ u, gF.next ≤ u → ¬ WF.live u := fun u hu h => by have := hltF u h; omega
  have inO : ∀ u k, gO.inputOf u k = gF.inputOf u k := fun _ _ => rfl
  have cL0 : Coll gO WF lO.uid lO.gid aS n 0 (fun _ => default) :=
    ⟨by show gO.kindOf gF.next = _; glook [hk0], hnlF _ (Nat.le_refl _), by show gF.next < gF.next + 5; omega,
      fun k hk => absurd hk (Nat.not_lt_zero k), fun k _ => by rw [inO]; exact hin0 _ k (Nat.le_refl _)⟩
  have cT0 : Coll gO WF tO.uid tO.gid aP (pairs.map (·.1)).length 0 (fun _ => default) :=
    ⟨by show gO.kindOf (gF.next + 2) = _; glook [hk0], hnlF _ (by show gF.next ≤ gF.next + 2; omega),
      by show gF.next + 2 < gF.next + 5; omega,
      fun k hk => absurd hk (Nat.not_lt_zero k), fun k _ => by rw [inO]; exact hin0 _ k (by show gF.next ≤ gF.next + 2; omega)⟩
  have cA0 : Coll gO WF aO.uid aO.gid aP (pairs.map (·.1)).length 0 (fun _ => default) :=
    ⟨by show gO.kindOf (gF.next + 4) = _; glook [hk0], hnlF _ (by show gF.next ≤ gF.next + 4; omega),
      by show gF.next + 4 < gF.next + 5; omega,
      fun k hk => absurd hk (Nat.not_lt_zero k), fun k _ => by rw [inO]; exact hin0 _ k (by show gF.next ≤ gF.next + 4; omega)⟩
  have hlO : LoopOk (fun u => u = lO.uid ∨ u = tO.uid ∨ u = aO.uid) g.next gF gO WF WF RF :=
    LoopOk.ofFrame (by omega) hlF.inv hiO hwO hfO (Agree.refl _ _) (fun u hu hl => absurd hl (hnlF u hu))
      (fun u hu hl => absurd hl (hnlF u hu)) (fun u hu hl => absurd hl (hnlF u hu))
  -- the label subscriptions
  have hfvO : FoldsVal WF RF foldSem testV lf.uid 0 folds := hfvF
  obtain ⟨gL, insL, rL, hlL, cL, hinsL, hnL, htrL⟩ :=
    subscribeLabels_spec lO aS n g.next RF RF foldSem testV lf.uid folds 0 gO WF _ hiO hwO hfvO
      (by have := H.lfuid.2; omega) cL0 (fun k hk => absurd hk (Nat.not_lt_zero k))
  rw [Nat.zero_add, hlenF] at cL hinsL
  have hne_lt : lO.uid ≠ tO.uid := by show gF.next ≠ gF.next + 2; omega
  have hne_la : lO.uid ≠ aO.uid := by show gF.next ≠ gF.next + 4; omega
  have hne_ta : tO.uid ≠ aO.uid := by show gF.next + 2 ≠ gF.next + 4; omega
  have cTL : Coll gL WF tO.uid tO.gid aP (pairs.map (·.1)).length 0 (fun _ => default) :=
    cT0.same (hlL.kind _ cT0.lt) (fun k => hlL.input _ k cT0.lt (fun e => hne_lt e.symm)) hlL.next_le (fun h => h)
  have cAL : Coll gL WF aO.uid aO.gid aP (pairs.map (·.1)).length 0 (fun _ => default) :=
    cA0.same (hlL.kind _ cA0.lt) (fun k => hlL.input _ k cA0.lt (fun e => hne_la e.symm)) hlL.next_le (fun h => h)
  -- the base models
  have hRFle : RF ≤ gL.next := by rw [hnL, hnO]; omega
  have haF : a < gF.next := by omega
  have hfFL : Frame gF gL := hlL.frameFrom hfO (fun x hx => by rw [hx]; exact Nat.le_refl _)
  obtain ⟨gB, WB, insT, insA, rB, hlB, cT, cA, hrefB, hvT, hvA, haregB, hreachB, tsB, htsB, hliveB, hmapB⟩ :=
    basesLoop_spec folds stacker reducer tO aO hne_ta aP (pairs.map (·.1)).length RF g.next foldSem testV lf.uid
      gF a gL.next hlF.wired hbF haF
      ⟨by show gF.next ≤ gF.next + 2; omega, by show gF.next + 2 < gL.next; rw [hnL, hnO]; omega⟩
      ⟨by show gF.next ≤ gF.next + 4; omega, by show gF.next + 4 < gL.next; rw [hnL, hnO]; omega⟩
      hfrF (by rw [hlenF]; exact hn) pairs hp []
      gL WF none none _ _ RF hlL.inv hlL.wired hRFle (by rw [hnL, hnO]; omega) (Nat.le_refl _) hfvO cTL cAL trivial trivial
      (fun b hb => absurd hb (Nat.not_lt_zero b)) rfl rfl hfFL (Nat.le_refl _) (AReg.init hlL.inv.bounded (by rw [hnL, hnO]; omega))
      (fun b hb => absurd hb (Nat.not_lt_zero b))
  simp only [List.length_nil, Nat.zero_add, List.nil_append] at cT cA hrefB hvT hvA rB hreachB
  have hnB := hlB.next_le
  have hltB : ∀ u, WB.live u → u < gB.next := fun u hu => (hlB.inv.liveLt u hu).1
  -- the three collectors become evaluable
  have hlenP : (pairs.map (·.1)).length = pairs.length := List.length_map _
  have cLB : Coll gB WB lO.uid lO.gid aS n n insL :=
    cL.same (hlB.kind _ cL.lt) (fun k => hlB.input _ k cL.lt (by
      intro hx; rcases hx with e | e
      · exact hne_lt e
      · exact hne_la e)) hnB (fun h => ((hlB.agree _ cL.lt).1).mp h)
  have pubL : ∀ k, PubOk WB ⟨lf.uid, k⟩ (r + 2) (.proj k labs) := fun k =>
    ((Hpubs.lab k).loop hlF H.inv).loop hlB hlL.inv
  have hr2 : r + 2 < gB.next := by omega
  have hi1 := cLB.mkLive hlB.inv rfl (r + 2) hr2 (fun k hk => by rw [hinsL k hk]; exact ⟨(pubL _).live, (pubL _).rank⟩)
  obtain ⟨W1, hW1⟩ : ∃ x, x = WB.set lO.uid (fun _ => .apply aS.tag .none ((List.range n).map (fun k => WB.σ (insL k)))) (r + 2) :=
    ⟨_, rfl⟩
  rw [← hW1] at hi1
  have keep1 : ∀ q : PubRef, WB.live q.node → W1.live q.node ∧ W1.σ q = WB.σ q ∧ W1.h q.node = WB.h q.node := by
    intro q hq; rw [hW1]; exact set_keep _ _ cLB.notLive q hq
  have cT' : Coll gB WB tO.uid tO.gid aP (pairs.map (·.1)).length (pairs.map (·.1)).length insT := by
    have := cT; rw [← hlenP] at this; exact this
  have cA' : Coll gB WB aO.uid aO.gid aP (pairs.map (·.1)).length (pairs.map (·.1)).length insA := by
    have := cA; rw [← hlenP] at this; exact this
  have cT1 : Coll gB W1 tO.uid tO.gid aP (pairs.map (·.1)).length (pairs.map (·.1)).length insT := by
    refine cT'.same rfl (fun _ => rfl) (Nat.le_refl _) ?_
    rw [hW1]; intro h; rcases h with e | h
    · exact absurd e hne_lt.symm
    · exact h
  obtain ⟨RO, hRO⟩ : ∃ x, x = RF + (gB.next - gL.next) := ⟨_, rfl⟩
  have hROlt : RO < gB.next := by omega
  have hi2 := cT1.mkLive hi1 rfl RO hROlt (fun b hb => by
    have := (hrefB b (by rw [← hlenP]; exact hb)).1
    rw [hW1, hRO]; exact this.set_keep _ _ cLB.notLive)
  obtain ⟨W2, hW2⟩ : ∃ x, x = W1.set tO.uid
    (fun _ => .apply aP.tag .none ((List.range (pairs.map (·.1)).length).map (fun k => W1.σ (insT k)))) RO := ⟨_, rfl⟩
  rw [← hW2] at hi2
  have keep2 : ∀ q : PubRef, W1.live q.node → W2.live q.node ∧ W2.σ q = W1.σ q ∧ W2.h q.node = W1.h q.node := by
    intro q hq; rw [hW2]; exact set_keep _ _ cT1.notLive q hq
  have cA2 : Coll gB W2 aO.uid aO.gid aP (pairs.map (·.1)).length (pairs.map (·.1)).length insA := by
    refine cA'.same rfl (fun _ => rfl) (Nat.le_refl _) ?_
    rw [hW2, hW1]; intro h; rcases h with e | e | h
    · exact absurd e hne_ta.symm
    · exact absurd e hne_la.symm
    · exact h
  have hi3 := cA2.mkLive hi2 rfl RO hROlt (fun b hb => by
    have := (hrefB b (by rw [← hlenP]; exact hb)).2
    have h1 : RefOk W1 (insA b) RO := by rw [hW1, hRO]; exact this.set_keep _ _ cLB.notLive
    rw [hW2]; exact h1.set_keep _ _ cT1.notLive)
  obtain ⟨W3, hW3⟩ : ∃ x, x = W2.set aO.uid
    (fun _ => .apply aP.tag .none ((List.range (pairs.map (·.1)).length).map (fun k => W2.σ (insA k)))) RO := ⟨_, rfl⟩
  rw [← hW3] at hi3
  have keep3 : ∀ q : PubRef, W2.live q.node → W3.live q.node ∧ W3.σ q = W2.σ q ∧ W3.h q.node = W2.h q.node := by
    intro q hq; rw [hW3]; exact set_keep _ _ cA2.notLive q hq
  have keepB : ∀ q : PubRef, WB.live q.node → W3.live q.node ∧ W3.σ q = WB.σ q ∧ W3.h q.node = WB.h q.node := by
    intro q hq
    obtain ⟨a1, a2, a3⟩ := keep1 q hq
    obtain ⟨b1, b2, b3⟩ := keep2 q a1
    obtain ⟨c1, c2, c3⟩ := keep3 q b1
    exact ⟨c1, by rw [c2, b2, a2], by rw [c3, b3, a3]⟩
  have live3 : ∀ u, W3.live u ↔ (u = aO.uid ∨ u = tO.uid ∨ u = lO.uid ∨ WB.live u) := by
    intro u; rw [hW3, hW2, hW1]; exact Iff.rfl
  -- everything since the head of the ensemble, as one step (ranks are accounted for separately)
  have hAll : LoopOk (fun u => u = lO.uid ∨ u = tO.uid ∨ u = aO.uid) g.next g9 gB W9 WB (RF + gB.next) := by
    have h1 : LoopOk (fun u => u = lO.uid ∨ u = tO.uid ∨ u = aO.uid) g.next g9 gF W9 WF (RF + gB.next) :=
      hlF.weaken (fun _ h => h.elim) (by omega)
    have h2 := hlO.weaken (fun _ h => h) (show RF ≤ RF + gB.next by omega)
    have h3 : LoopOk (fun u => u = lO.uid ∨ u = tO.uid ∨ u = aO.uid) g.next gO gL WF WF (RF + gB.next) :=
      hlL.weaken (fun _ h => Or.inl h) (by omega)
    have h4 : LoopOk (fun u => u = lO.uid ∨ u = tO.uid ∨ u = aO.uid) g.next gL gB WF WB (RF + gB.next) :=
      hlB.weaken (fun _ h => Or.inr h) (by omega)
    exact ((h1.trans h2).trans h3).trans h4
  have notColl : ∀ u, u < gF.next → ¬ (u = lO.uid ∨ u = tO.uid ∨ u = aO.uid) := by
    intro u hu hx
    rcases hx with e | e | e <;> rw [e] at hu
    · exact Nat.lt_irrefl _ hu
    · have : gF.next + 2 < gF.next := hu; omega
    · have : gF.next + 4 < gF.next := hu; omega
  have hfB : Frame g gB := by
    refine ⟨by omega, ?_, ?_, ?_⟩
    · intro u hu; rw [hAll.kind u (by omega), H.frame.kind u hu]
    · intro u k hu; rw [hAll.input u k (by omega) (notColl u (by omega)), H.frame.input u k hu]
    · intro gid hg; rw [hAll.trainer gid (by omega), H.frame.trainer gid hg]
  have hagB : Agree g.next W WB := H.agree.trans hAll.agree hg9
  have hag3 : Agree g.next W W3 := by
    have : Agree g.next W W3 := by
      rw [hW3, hW2, hW1]
      exact ((hagB.set _ _ _ (by show g.next ≤ gF.next; omega)).set _ _ _ (by show g.next ≤ gF.next + 2; omega)).set _ _ _
        (by show g.next ≤ gF.next + 4; omega)
    exact this
  have hlt9 : ∀ u, W9.live u → u < g9.next := fun u hu => (H.inv.liveLt u hu).1
  have old9 : ∀ q : PubRef, W9.live q.node → W3.live q.node ∧ W3.σ q = W9.σ q ∧ W3.h q.node = W9.h q.node := by
    intro q hq
    have hq9 := hlt9 _ hq
    obtain ⟨a1, a2, _⟩ := hAll.agree q.node hq9
    obtain ⟨b1, b2, b3⟩ := keepB q (a1.mpr hq)
    exact ⟨b1, by rw [b2]; exact hAll.agree.σ q hq9, by rw [b3, a2]⟩
  have headB : ∀ (h : Nat) (x : Val), HeadOk g g9 W9 h x r → HeadOk g gB W3 h x r := by
    intro h x hh
    have hlth := hlt9 _ hh.live
    have hnc := notColl h (by omega)
    obtain ⟨a1, _, a3⟩ := old9 ⟨h, 0⟩ hh.live
    refine ⟨hh.ge, ⟨by rw [hAll.kind h hlth]; exact hh.isOpen.1, by rw [hAll.input h 0 hlth hnc]; exact hh.isOpen.2⟩,
      fun k => by rw [hAll.input h k hlth hnc]; exact hh.free k, a1, by rw [a3]; exact hh.rank, ?_⟩
    intro i
    obtain ⟨_, b2, _⟩ := old9 ⟨h, i⟩ hh.live
    rw [b2]; exact hh.val i
  -- the run
  have hrun : Run (composeStack (pairs.map (·.1)) n splitter appender stacker reducer scope) g
      ⟨⟨head.apply.head, aO.uid⟩, ⟨head.train.head, tO.uid⟩, ⟨head.label.head, lO.uid⟩⟩ gB := by
    unfold composeStack
    refine hrunH _ _ _ ?_
    exact Run.bind rF (Run.bind (run_newWorker aS n 1 gF) (Run.bind (run_newWorker aP _ 1 _) (Run.bind (run_fork tO _)
      (Run.bind rL (Run.bind rB (Run.pure _ _))))))
  -- the values of the three tails
  have kA : gB.kindOf aO.uid = some (.worker aO.gid aP (pairs.map (·.1)).length 1) := cA'.kind
  have kT : gB.kindOf tO.uid = some (.worker tO.gid aP (pairs.map (·.1)).length 1) := cT'.kind
  have kL : gB.kindOf lO.uid = some (.worker lO.gid aS n 1) := cLB.kind
  have vA : W3.σ ⟨aO.uid, 0⟩ = .apply appender .none ((pairs.map (·.2)).map (baseApplyVal reducer folds.length foldSem)) := by
    rw [hW3, set_σ_self, ← hvA, hlenP]
    congr 1
    apply List.map_congr_left
    intro b hb
    have := (hrefB b (List.mem_range.mp hb)).2.1
    obtain ⟨a1, a2, _⟩ := keep1 _ this
    rw [(keep2 _ a1).2.1, a2]
  have vT : W3.σ ⟨tO.uid, 0⟩ = .apply appender .none ((pairs.map (·.2)).map (baseTrainVal stacker folds.length foldSem testV)) := by
    rw [hW3, set_σ_other _ _ _ _ _ (by exact hne_ta), hW2, set_σ_self, ← hvT, hlenP]
    congr 1
    apply List.map_congr_left
    intro b hb
    have := (hrefB b (List.mem_range.mp hb)).1.1
    exact (keep1 _ this).2.1
  have vL : W3.σ ⟨lO.uid, 0⟩ = .apply stacker .none ((List.range n).map (fun k => .proj (2 * k + 1) labs)) := by
    rw [hW3, set_σ_other _ _ _ _ _ (by exact hne_la), hW2, set_σ_other _ _ _ _ _ (by exact hne_lt), hW1, set_σ_self]
    congr 1
    apply List.map_congr_left
    intro k hk
    rw [hinsL k (List.mem_range.mp hk)]
    exact (pubL _).val
  -- the apply side of the ensemble: a copyable region again
  have hgL5 : gL.next = gF.next + 5 := by rw [hnL, hnO]
  have hF9B : Frame g9 gB := hAll.frameFrom (Frame.refl g9) (fun x hx => by
    rcases hx with e | e | e <;> rw [e]
    · show g9.next ≤ gF.next; omega
    · show g9.next ≤ gF.next + 2; omega
    · show g9.next ≤ gF.next + 4; omega)
  have hFFB : Frame gF gB := hlB.frameFrom hfFL (fun x hx => by
    rcases hx with e | e <;> rw [e]
    · show gF.next ≤ gF.next + 2; omega
    · show gF.next ≤ gF.next + 4; omega)
  have hlenpos : 0 < pairs.length := List.length_pos_iff.mpr hpne
  -- the inputs of what lies between the folds and the base models: the three collectors
  have midIn : ∀ s k q, gF.next ≤ s → s < gL.next → gB.inputOf s k = some q →
      (s = lO.uid ∧ q.node = lf.uid) ∨ (s = tO.uid ∧ ∃ b, b < pairs.length ∧ q = insT b) ∨
        (s = aO.uid ∧ ∃ b, b < pairs.length ∧ q = insA b) := by
    intro s k q h1 h2 hq
    by_cases eL : s = lO.uid
    · rw [eL] at hq
      obtain ⟨hk, e⟩ := cLB.input_full hq
      exact Or.inl ⟨eL, by rw [e, hinsL k hk]⟩
    · by_cases eT : s = tO.uid
      · rw [eT] at hq
        obtain ⟨hk, e⟩ := cT'.input_full hq
        exact Or.inr (Or.inl ⟨eT, k, by rw [← hlenP]; exact hk, e⟩)
      · by_cases eA : s = aO.uid
        · rw [eA] at hq
          obtain ⟨hk, e⟩ := cA'.input_full hq
          exact Or.inr (Or.inr ⟨eA, k, by rw [← hlenP]; exact hk, e⟩)
        · exfalso
          rw [hlB.input s k h2 (fun hx => by rcases hx with e | e; exact eT e; exact eA e),
            hlL.input s k (by rw [hnO]; omega) eL, inO, hin0 s k h1] at hq
          cases hq
  have nT : ¬ Reach gB a tO.uid := by
    intro hre
    rcases hre.inv with h | ⟨k, q, hq, hr⟩
    · have : tO.uid = gF.next + 2 := rfl
      omega
    · obtain ⟨hk, e⟩ := cT'.input_full hq
      rw [e] at hr
      exact (hreachB k (by rw [← hlenP]; exact hk)).2.1 hr
  have nL : ¬ Reach gB a lO.uid := by
    intro hre
    rcases hre.inv with h | ⟨k, q, hq, hr⟩
    · have : lO.uid = gF.next := rfl
      omega
    · obtain ⟨hk, e⟩ := cLB.input_full hq
      rw [e, hinsL k hk] at hr
      have hr9 : Reach g9 a lf.uid := Reach.old hF9B H.wired H.lfuid.2 hr
      exact H.ffne.2 (H.reach _ (hadef ▸ hr9))
  have rA : Reach gB a aO.uid :=
    Reach.one (hreachB 0 hlenpos).1 (cA'.filled 0 (by rw [hlenP]; exact hlenpos))
  have regB : ∀ m, Reach gB a m → m ≠ a → W3.live m ∧ ∀ k q, gB.inputOf m k = some q → Reach gB a q.node := by
    intro m hre hne
    by_cases h9 : m < g9.next
    · exact absurd (by rw [hadef]; exact H.reach m (hadef ▸ Reach.old hF9B H.wired h9 hre)) hne
    · by_cases hF : m < gF.next
      · have hreF : Reach gF a m := Reach.old hFFB hlF.wired hF hre
        obtain ⟨lF, iF⟩ := haregF.reg m (by omega) hreF
        refine ⟨(keepB ⟨m, 0⟩ (((hlB.agree m (by omega)).1).mpr lF)).1, ?_⟩
        intro k q hq
        rw [hFFB.input m k hF] at hq
        exact (iF k q hq).mono (hFFB.input_mono hbF)
      · by_cases hL : m < gL.next
        · by_cases eA : m = aO.uid
          · refine ⟨(live3 _).mpr (Or.inl eA), ?_⟩
            intro k q hq
            rcases midIn m k q (by omega) hL hq with ⟨e, _⟩ | ⟨e, _⟩ | ⟨_, b, hb, e⟩
            · exact absurd (e.symm.trans eA) hne_la
            · exact absurd (e.symm.trans eA) hne_ta
            · rw [e]; exact (hreachB b hb).1
          · exfalso
            rcases hre.inv with h | ⟨k, q, hq, _⟩
            · exact hne h
            · rcases midIn m k q (by omega) hL hq with ⟨e, _⟩ | ⟨e, _⟩ | ⟨e, _⟩
              · exact nL (e ▸ hre)
              · exact nT (e ▸ hre)
              · exact eA e
        · obtain ⟨lB, iB⟩ := haregB.reg m (by omega) hre
          exact ⟨(keepB ⟨m, 0⟩ lB).1, iB⟩
  have closedB : ∀ s k q, g.next ≤ s → gB.inputOf s k = some q → g.next ≤ q.node := by
    intro s k q hs hq
    by_cases h9 : s < g9.next
    · rw [hF9B.input s k h9] at hq
      exact H.closed s k q hs hq
    · by_cases hF : s < gF.next
      · rw [hFFB.input s k hF] at hq
        rcases haregF.es s k q (by omega) hq with h | h
        · omega
        · exact h.1
      · by_cases hL : s < gL.next
        · rcases midIn s k q (by omega) hL hq with ⟨_, e⟩ | ⟨_, b, hb, e⟩ | ⟨_, b, hb, e⟩
          · rw [e]; exact H.lfuid.1
          · have := (hreachB b hb).2.2.2
            rw [e]; omega
          · have := (hreachB b hb).2.2.1
            rw [e]; omega
        · rcases haregB.es s k q (by omega) hq with h | h
          · omega
          · exact h.1
  refine ⟨_, gB, W3, hrun, hi3, hfB, hag3, headB _ _ H.ha, headB _ _ H.ht, headB _ _ H.hl, H.distinct, ?_,
    ⟨(live3 _).mpr (Or.inl rfl), ?_⟩, ⟨(live3 _).mpr (Or.inr (Or.inl rfl)), ?_⟩,
    ⟨(live3 _).mpr (Or.inr (Or.inr (Or.inl rfl))), ?_⟩, ?_, ?_, hlB.wired,
    ⟨by show g.next ≤ gF.next + 4; omega, by show g.next ≤ gF.next + 2; omega, by show g.next ≤ gF.next; omega⟩, ?_,
    fun _ m hre hne => regB m (hadef ▸ hre) (hadef ▸ hne) |>.imp id (fun h k q hq => hadef ▸ h k q hq),
    fun _ => hadef ▸ rA, fun _ => ⟨hadef ▸ nT, hadef ▸ nL⟩, fun _ => closedB⟩
  · -- open nodes
    intro n' hn' hl' ho
    rcases (live3 _).mp hl' with e | e | e | h
    · rw [e, Graph.isOpen, kA] at ho; cases ho.1
    · rw [e, Graph.isOpen, kT] at ho; cases ho.1
    · rw [e, Graph.isOpen, kL] at ho; cases ho.1
    · by_cases h9 : n' < g9.next
      · have hl9 : W9.live n' := ((hAll.agree n' h9).1).mp h
        have ho9 : g9.isOpen n' := by
          refine ⟨by rw [← hAll.kind n' h9]; exact ho.1, ?_⟩
          cases hq : g9.inputOf n' 0 with
          | none => rfl
          | some q => have := hAll.inputMono _ _ _ hq; rw [ho.2] at this; cases this
        exact H.opens n' hn' hl9 ho9
      · exact absurd ho (hAll.noOpen n' (by omega) h)
  · rw [vA]
    subst hfoldSem hfeats hlabs
    simp only [denoteStack, hlenF, List.map_map]
    rfl
  · rw [vT]
    subst hfoldSem htestV hfeats hlabs
    simp only [denoteStack, hlenF, List.map_map]
    rfl
  · rw [vL]
    subst hlabs
    simp only [denoteStack]
  · -- the trainings
    obtain ⟨T, hT, hT1, hT2, hT3⟩ := H.trains
    refine ⟨[T] ++ tsF ++ tsB, ?_, ?_, ?_⟩
    · rw [htsB, htrL]
      show gF.trains ++ tsB = _
      rw [htsF, hT]; simp [List.append_assoc]
    · intro x hx
      rcases List.mem_append.mp hx with hx | hx
      · rcases List.mem_append.mp hx with hx | hx
        · simp only [List.mem_singleton] at hx
          subst hx
          exact ⟨(old9 _ hT1).1, (old9 _ hT2).1⟩
        · obtain ⟨x1, x2⟩ := hliveF x hx
          have e1 : x.train.node < gL.next := by have := hltF _ x1; rw [hnL, hnO]; omega
          have e2 : x.label.node < gL.next := by have := hltF _ x2; rw [hnL, hnO]; omega
          exact ⟨(keepB _ (((hlB.agree _ e1).1).mpr x1)).1, (keepB _ (((hlB.agree _ e2).1).mpr x2)).1⟩
      · obtain ⟨x1, x2⟩ := hliveB x hx
        exact ⟨(keepB _ x1).1, (keepB _ x2).1⟩
    · rw [List.map_append, List.map_append]
      have p1 : [T].map (trainedUnder W3) = [(splitter, .state splitter .none xt xl)] := by
        simp only [List.map_cons, List.map_nil]
        rw [← hT3]
        unfold trainedUnder
        rw [(old9 _ hT1).2.1, (old9 _ hT2).2.1]
      have p2 : tsF.map (trainedUnder W3) = tsF.map (trainedUnder WF) := by
        apply List.map_congr_left
        intro x hx
        obtain ⟨x1, x2⟩ := hliveF x hx
        have e1 : x.train.node < gL.next := by have := hltF _ x1; rw [hnL, hnO]; omega
        have e2 : x.label.node < gL.next := by have := hltF _ x2; rw [hnL, hnO]; omega
        unfold trainedUnder
        rw [(keepB _ (((hlB.agree _ e1).1).mpr x1)).2.1, (keepB _ (((hlB.agree _ e2).1).mpr x2)).2.1,
          hlB.agree.σ _ e1, hlB.agree.σ _ e2]
      have p3 : tsB.map (trainedUnder W3) = tsB.map (trainedUnder WB) := by
        apply List.map_congr_left
        intro x hx
        obtain ⟨x1, x2⟩ := hliveB x hx
        unfold trainedUnder
        rw [(keepB _ x1).2.1, (keepB _ x2).2.1]
      rw [p1, p2, p3, hmapF, hmapB]
      subst hfoldSem hfeats hlabs
      simp only [denoteStack, hlenF, Nat.zero_add, List.flatMap_map]
  · -- groups of the new evaluable workers
    intro n' hn' hl' gid a i o hk
    rcases (live3 _).mp hl' with e | e | e | h
    · rw [e, kA] at hk; cases hk; show g.next ≤ gF.next + 3; omega
    · rw [e, kT] at hk; cases hk; show g.next ≤ gF.next + 3; omega
    · rw [e, kL] at hk; cases hk; show g.next ≤ gF.next + 1; omega
    · by_cases h9 : n' < g9.next
      · rw [hAll.kind n' h9] at hk
        exact H.fresh n' hn' (((hAll.agree n' h9).1).mp h) gid a i o hk
      · exact hAll.fresh n' (by omega) h gid a i o hk
  · -- ranks
    intro n' hn' hl'
    have hA3 : W3.h aO.uid = RO := by rw [hW3, set_h_self]
    have hT3' : W3.h tO.uid = RO := by rw [hW3, set_h_other _ _ _ _ _ (by exact hne_ta), hW2, set_h_self]
    have hL3 : W3.h lO.uid = r + 2 := by
      rw [hW3, set_h_other _ _ _ _ _ (by exact hne_la), hW2, set_h_other _ _ _ _ _ (by exact hne_lt), hW1, set_h_self]
    have hgL : gL.next = gF.next + 5 := by rw [hnL, hnO]
    rcases (live3 _).mp hl' with e | e | e | h
    · rw [e, hA3]; omega
    · rw [e, hT3']; omega
    · rw [e, hL3]; omega
    · have hk3 : W3.h n' = WB.h n' := (keepB ⟨n', 0⟩ h).2.2
      rw [hk3]
      by_cases h9 : n' < g9.next
      · have := H.rank n' hn' (((hAll.agree n' h9).1).mp h)
        rw [(hAll.agree n' h9).2.1]; omega
      · by_cases hF : n' < gL.next
        · have hlF' : WF.live n' := ((hlB.agree n' hF).1).mp h
          have := hlF.rank n' (by omega) hlF'
          rw [(hlB.agree n' hF).2.1]; omega
        · have := hlB.rank n' (by omega) h
          omega

end ForML.Compose
