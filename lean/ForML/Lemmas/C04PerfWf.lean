/-
C04 helper lemmas, part 7: the perftrack composition derived in the model (`Comp.perfOf`) of a well-formed plain
composition is well-formed (`Case.wfPerf`) — so the binding theorem needs hypotheses on the plain composition only.
-/
import ForML.Lemmas.C04Copy

namespace ForML.Persist

namespace Comp

variable {ρ : Nat → Nat} {c : Comp}

theorem mem_copied_nodes {m : Node} (h : m ∈ (c.copied ρ).nodes) :
    m ∈ c.nodes ∨ ∃ n ∈ c.nodes, m = n.fork ρ := by
  simp only [copied, List.mem_append, List.mem_map] at h
  cases h with
  | inl h => exact Or.inl h
  | inr h =>
    obtain ⟨n, hn, rfl⟩ := h
    exact Or.inr ⟨n, hn, rfl⟩

theorem tagsConsistent_copied (htc : c.tagsConsistent = true) : (c.copied ρ).tagsConsistent = true := by
  simp only [tagsConsistent, List.all_eq_true, Bool.or_eq_true, bne_iff_ne, ne_eq, beq_iff_eq]
  intro n hn m hm
  -- reduce both to their originals: a fork keeps gid and tag
  have orig : ∀ x ∈ (c.copied ρ).nodes, ∃ x0 ∈ c.nodes, x.gid = x0.gid ∧ x.tag = x0.tag := by
    intro x hx
    cases mem_copied_nodes hx with
    | inl h => exact ⟨x, h, rfl, rfl⟩
    | inr h =>
      obtain ⟨x0, hx0, rfl⟩ := h
      exact ⟨x0, hx0, rfl, rfl⟩
  obtain ⟨n0, hn0, hng, hnt⟩ := orig n hn
  obtain ⟨m0, hm0, hmg, hmt⟩ := orig m hm
  by_cases hg : n.gid = m.gid
  · right
    rw [hnt, hmt]
    exact tag_of_same_gid htc hn0 hm0 (by rw [← hng, ← hmg]; exact hg)
  · left; exact hg

theorem uidsDistinct_copied (hf : FreshFor ρ c) (hd : c.uidsDistinct = true) :
    (c.copied ρ).uidsDistinct = true := by
  simp only [uidsDistinct, List.all_eq_true, Bool.or_eq_true, bne_iff_ne, ne_eq, beq_iff_eq] at hd ⊢
  intro n hn m hm
  by_cases hu : n.uid = m.uid
  · right
    cases mem_copied_nodes hn with
    | inl hn0 =>
      cases mem_copied_nodes hm with
      | inl hm0 =>
        cases hd n hn0 m hm0 with
        | inl h => exact absurd hu h
        | inr h => exact h
      | inr hm1 =>
        obtain ⟨m0, _, rfl⟩ := hm1
        exact absurd hu.symm (hf.disj m0.uid n.uid (uid_mem_uids hn0))
    | inr hn1 =>
      obtain ⟨n0, hn0, rfl⟩ := hn1
      cases mem_copied_nodes hm with
      | inl hm0 => exact absurd hu (hf.disj n0.uid m.uid (uid_mem_uids hm0))
      | inr hm1 =>
        obtain ⟨m0, hm0, rfl⟩ := hm1
        have hu0 : n0.uid = m0.uid := hf.inj _ _ hu
        cases hd n0 hn0 m0 hm0 with
        | inl h => exact absurd hu0 h
        | inr h => rw [h]
  · left; exact hu

theorem trainedStateful_copied (hts : c.trainedStateful = true) : (c.copied ρ).trainedStateful = true := by
  simp only [trainedStateful, List.all_eq_true] at hts ⊢
  intro n hn
  cases mem_copied_nodes hn with
  | inl h => exact hts n h
  | inr h =>
    obtain ⟨n0, _, rfl⟩ := h
    simp [Node.fork]

theorem appliedDerived_copied (hf : FreshFor ρ c) (had : c.appliedDerived c.applyHead c.applyTail = true) :
    (c.copied ρ).appliedDerived c.applyHead c.applyTail = true := by
  simp only [appliedDerived, visitNodes_copied_orig hf, derived_copied_orig] at had ⊢
  exact had

theorem noTrainer_copied (hf : FreshFor ρ c) (hnt : c.noTrainer c.applyHead c.applyTail = true) :
    (c.copied ρ).noTrainer c.applyHead c.applyTail = true := by
  simp only [noTrainer, visitNodes_copied_orig hf] at hnt ⊢
  exact hnt

end Comp

/-- the derived perftrack composition of a well-formed plain composition is well-formed -/
theorem wfPerf_perfOf {ρ : Nat → Nat} {c : Comp} (closed : Bool) (hf : FreshFor ρ c) (hwf : c.wfPlain = true)
    (htail : c.tailClean = true) : (⟨c, c.perfOf ρ closed⟩ : Case).wfPerf = true := by
  have hwf' := hwf
  simp only [Comp.wfPlain, Bool.and_eq_true] at hwf'
  obtain ⟨⟨⟨⟨⟨⟨htc, hd⟩, hts⟩, _⟩, hada⟩, _⟩, hnta⟩ := hwf'
  simp only [Case.wfPerf, Comp.perfOf]
  cases hch : (closed || c.isChain) with
  | false => simp
  | true =>
    simp only [if_true, Bool.and_eq_true, beq_iff_eq]
    refine ⟨⟨⟨⟨⟨Comp.tagsConsistent_copied htc, Comp.uidsDistinct_copied hf hd⟩, Comp.trainedStateful_copied hts⟩,
      ?_⟩, ?_⟩, ?_⟩
    · exact Comp.appliedDerived_copied hf hada
    · exact Comp.noTrainer_copied hf hnta
    · have h := Comp.persistent_copied hf htail hd hnta
      simp only [Comp.persistentTags, h]
      congr 1
      funext g
      exact Comp.tagOfGid_copied ρ c g

end ForML.Persist
