/-
C02 helper lemmas: a successfully constructed `Expression` computes, on every input, the denotation of the
table's sink with the input fed to the head.
-/
import ForML.Lemmas.C02PyAssemble
import ForML.Lemmas.C02PyOrder

namespace ForML.Flow.PyFunc
open ForML.Flow

/-- `Expression.Node` of a built entry -/
def mkNode (built : Built) (n : Key × Raw × List Key) : Node := ⟨n.1, n.2.1, countUses built n.1, n.2.2⟩

theorem earlier_of_built (built : Built) : ∀ (seen : List Key) (bs : Built), ArgsEarlier seen bs →
    Earlier seen (bs.map (mkNode built))
  | _, [], _ => trivial
  | seen, b :: bs, h => ⟨h.1, earlier_of_built built _ bs h.2⟩

/-- the keys part of `buildLoop_spec` (needs no denotation) -/
theorem buildLoop_keys {A : Option Assets} {t : Table} :
    ∀ (ks : List Key) (built res : Built), buildLoop A t ks built = .ok res →
      res.map (·.1) = built.map (·.1) ++ ks.filter t.isNode := by
  intro ks
  induction ks with
  | nil => intro built res h; simp only [buildLoop] at h; cases h; simp
  | cons k rest ih =>
    intro built res h
    simp only [buildLoop] at h
    split at h
    · cases h
    · rename_i s hfind
      split at h
      · cases h
      · cases h
      · rename_i g hinstr
        split at h
        · rw [ih built res h]; simp [List.filter_cons, Table.isNode, hfind, hinstr]
        · cases h
      · rename_i i hinstr
        split at h
        · cases h
        · rw [ih _ res h]; simp [List.filter_cons, Table.isNode, hfind, hinstr]
      · rename_i a action presets hinstr
        split at h
        · cases h
        · split at h
          · cases h
          · split at h
            · cases h
            · rw [ih _ res h]; simp [List.filter_cons, Table.isNode, hfind, hinstr]

theorem providers_get_map : ∀ (ns : List Node), (ns.map (·.key)).Nodup → ∀ n ∈ ns,
    Providers.get (ns.map fun n => (n.key, [Term.raw n.key n.raw])) n.key = some [.raw n.key n.raw]
  | [], _, n, h => by cases h
  | m :: ns, hn, n, h => by
    simp only [List.map_cons, List.nodup_cons] at hn
    simp only [List.map_cons, Providers.get]
    rcases List.mem_cons.1 h with rfl | h'
    · simp
    · have : m.key ≠ n.key := fun e => hn.1 (e ▸ List.mem_map_of_mem h')
      simp [this, providers_get_map ns hn.2 n h']

/-- the denotation with input gives every loader the loaded state (loaders take no arguments, the head is
not a loader) -/
theorem loadersOK_denIn {A : Option Assets} {t : Table} {r : Key → Nat} (hr : Ranked t r)
    (hs : t.pyShape = true) {hd : Key} (hhd : t.isNode hd = true) (x : Val) :
    LoadersOK A t (denIn A t hd x) := by
  intro a A' g s hf hi hA
  simp only [Table.pyShape, Bool.and_eq_true, List.all_eq_true] at hs
  have hm := Table.find_some hf
  have hargs := hs.1 s hm.1
  simp only [hi, List.isEmpty_iff] at hargs
  have hne : a ≠ hd := by
    intro e
    subst e
    simp [Table.isNode, hf, hi] at hhd
  rw [denIn_eq A hr hd x hf, hargs, hi, hA]
  simp [hne, exec]

/-- **soundness of a constructed expression** -/
theorem expression_sound {A : Option Assets} {t : Table} {r : Key → Nat} (hr : Ranked t r)
    (hs : t.pyShape = true) {U : Term} (he : expression A t = .ok U) :
    ∃ hd sink, t.sinks = [sink] ∧ t.isNode hd = true ∧
      (∃ ks built, order t = .ok ks ∧ buildLoop A t ks [] = .ok built ∧ built.head?.map (·.1) = some hd) ∧
      ∀ x, U.run x = denIn A t hd x sink := by
  unfold expression at he
  split at he
  · cases he
  · -- build
    cases hb : build A t with
    | error e => simp [hb] at he
    | ok dag =>
      simp only [hb] at he
      unfold build at hb
      cases ho : order t with
      | error e => simp [ho] at hb
      | ok ks =>
        simp only [ho] at hb
        cases hl : buildLoop A t ks [] with
        | error e => simp [hl] at hb
        | ok built =>
          simp only [hl] at hb
          cases hb
          -- order facts
          obtain ⟨hksn, tail, l, hsinks, hks⟩ := order_spec hr ho
          have hkeys := buildLoop_keys ks [] built hl
          simp only [List.map_nil, List.nil_append] at hkeys
          have hshape := hs
          simp only [Table.pyShape, Bool.and_eq_true, List.all_eq_true] at hshape
          have htailnode : t.isNode tail = true := hshape.2 tail (by rw [hsinks]; simp)
          have hkeys' : built.map (·.1) = l.filter t.isNode ++ [tail] := by
            rw [hkeys, hks, List.filter_append]; simp [htailnode]
          have hbn : (built.map (·.1)).Nodup := by
            rw [hkeys]; exact hksn.sublist (List.filter_sublist ..)
          -- shape of the dag
          cases built with
          | nil => simp at hkeys'
          | cons b0 brest =>
            simp only [List.map_cons] at he
            split at he
            · rename_i first rest last hdag hlast
              cases hdag
              -- the last node is the sink
              have hlastkey : last.key = tail := by
                have h1 : ((b0 :: brest).map (mkNode (b0 :: brest))).getLast? = some last := hlast
                rw [List.getLast?_map] at h1
                have h2 : ((b0 :: brest).map (·.1)).getLast? = some tail := by rw [hkeys']; simp
                rw [List.getLast?_map] at h2
                cases hg : (b0 :: brest).getLast? with
                | none => simp [hg] at h1
                | some bl =>
                  simp only [hg, Option.map_some, Option.some.injEq] at h1 h2
                  rw [← h1]; exact h2
              split at he
              · cases he
              · rename_i hcheck
                simp only [Bool.or_eq_true, decide_eq_true_eq, Bool.not_eq_true', not_or, Bool.not_eq_false,
                  List.isEmpty_iff] at hcheck
                have hfirstargs : b0.2.2 = [] := hcheck.2
                split at he
                · cases he
                · rename_i p has
                  split at he
                  · rename_i term hget
                    split at he
                    · cases he
                      have hhd : t.isNode b0.1 = true := by
                        have : b0.1 ∈ List.filter t.isNode ks := by rw [← hkeys]; simp
                        exact (List.mem_filter.1 this).2
                      refine ⟨b0.1, tail, hsinks, hhd, ⟨ks, b0 :: brest, rfl, by first | rfl | exact hl, rfl⟩, ?_⟩
                      have hload := fun x => loadersOK_denIn (A := A) hr hs hhd x
                      have hspec := fun x => buildLoop_spec (hload x) ks [] _ hl (by simp) trivial
                      simp only [List.map_cons, List.nodup_cons] at hbn
                      have has' : assemble (brest.map (mkNode (b0 :: brest)))
                          ((b0.1, fork b0.1 (Term.raw b0.1 b0.2.1) (countUses (b0 :: brest) b0.1)) ::
                            (brest.map (mkNode (b0 :: brest))).map (fun n => (n.key, [Term.raw n.key n.raw])))
                          = .ok p := has
                      have hrestkeys : (brest.map (mkNode (b0 :: brest))).map (·.key) = brest.map (·.1) := by
                        simp [mkNode, List.map_map, Function.comp_def]
                      have hpinv0 : PInv (fun x => denIn A t b0.1 x)
                          ((b0.1, fork b0.1 (Term.raw b0.1 b0.2.1) (countUses (b0 :: brest) b0.1)) ::
                            (brest.map (mkNode (b0 :: brest))).map (fun n => (n.key, [Term.raw n.key n.raw])))
                          [b0.1] (brest.map (mkNode (b0 :: brest))) := by
                        refine ⟨?_, ?_⟩
                        · intro n hn
                          have hne : b0.1 ≠ n.key := by
                            intro e
                            apply hbn.1
                            rw [← hrestkeys, e]
                            exact List.mem_map_of_mem hn
                          simp only [Providers.get, hne, if_false]
                          exact providers_get_map _ (by rw [hrestkeys]; exact hbn.2) n hn
                        · intro k hk d hd U' hU' x
                          simp only [List.mem_singleton] at hk
                          subst hk
                          simp only [Providers.get, if_true, Option.some.injEq] at hd
                          subst hd
                          refine good_fork _ (good_raw ?_) U' hU'
                          obtain ⟨s, hf, hex⟩ := (hspec x).1 b0 (List.mem_cons_self ..)
                          have := hex [x]
                          rw [hfirstargs] at this
                          show b0.2.1.call [x] = denIn A t b0.1 x b0.1
                          rw [denIn_eq A hr b0.1 x hf]
                          simpa using this.symm
                      have hfinal := assemble_spec (D := fun x => denIn A t b0.1 x) _ [b0.1] _ p has'
                        (by rw [hrestkeys]; exact hbn.2)
                        (by
                          intro n hn hin
                          simp only [List.mem_singleton] at hin
                          apply hbn.1
                          rw [← hrestkeys, ← hin]
                          exact List.mem_map_of_mem hn)
                        (by
                          have := (hspec (.none)).2.1
                          exact earlier_of_built _ _ brest this.2)
                        (by
                          intro n hn x
                          obtain ⟨b, hb, rfl⟩ := List.mem_map.1 hn
                          obtain ⟨s, hf, hex⟩ := (hspec x).1 b (List.mem_cons_of_mem _ hb)
                          have hne : b.1 ≠ b0.1 := fun e => hbn.1 (e ▸ List.mem_map_of_mem hb)
                          have := hex []
                          simp only [List.append_nil] at this
                          show b.2.1.call (b.2.2.map (denIn A t b0.1 x)) = denIn A t b0.1 x b.1
                          rw [denIn_eq A hr b0.1 x hf, ← this]
                          simp [hne])
                        hpinv0
                      intro x
                      have hmem : last.key ∈ [b0.1] ++ (brest.map (mkNode (b0 :: brest))).map (·.key) := by
                        rw [hrestkeys, hlastkey]
                        have : tail ∈ (b0 :: brest).map (·.1) := by rw [hkeys']; simp
                        simpa using this
                      have hgood := hfinal.good last.key hmem _ hget U (List.mem_singleton.2 rfl) x
                      have := (hgood [] (SoundQ.nil _)).1
                      rw [hlastkey] at this
                      exact this
                    · cases he
                  · cases he
            · cases he

end ForML.Flow.PyFunc
