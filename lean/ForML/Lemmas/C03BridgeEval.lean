/-
C03 ↔ C01 bridge, lemmas part 2: direct evaluation of the translated segment (`Flow.Segment.nodeVal`, the specification
side of C01) agrees with the certified valuation of the composition graph (`World`, hence with `Compose.eval`), on every
evaluable member and on every trained fork.

Hypotheses (`BridgeHyp`): the certified valuation without open holes; C01's well-formedness of the translated segment
(`WF`, the propositional form of the decidable `Segment.wf`); decidable bookkeeping facts about the recorded trainings
(one per group, the trained fork is a 1-input worker of that group and actor without subscriptions, its publishers are
members when it is); truthy states (actor symbols below `falsyBase`); and what the asset accessor holds for the groups
whose trainer is / is not a member.
-/
import ForML.Lemmas.C03BridgeSeg
import ForML.Lemmas.C01Sem

namespace ForML.Compose
open ForML

structure BridgeHyp (g : Graph) (W : World) (M : List Nat) (head tl : Nat) (A : Option Flow.Assets) (rank : Nat → Nat) :
    Prop where
  inv : Inv g W
  wired : Wired g
  noOpen : ∀ n, W.live n → ¬ g.isOpen n
  wf : Flow.Segment.WF (segmentOn g M head tl) rank
  headSrc : ∃ gid a o, g.kindOf head = some (.worker gid a 0 o)
  trainLive : ∀ T ∈ g.trains, W.live T.train.node ∧ W.live T.label.node
  gidNodup : g.trains.Pairwise (fun a b => a.gid ≠ b.gid)
  trainKind : ∀ T ∈ g.trains, ∃ o, g.kindOf T.node = some (.worker T.gid T.actor 1 o)
  trainNoIn : ∀ T ∈ g.trains, ∀ k, g.inputOf T.node k = none
  trainIn : ∀ T ∈ g.trains, T.node ∈ M →
    (∀ x, g.resolve g.resolveFuel T.train = some x → x.node ∈ M) ∧ (∀ y, g.resolve g.resolveFuel T.label = some y → y.node ∈ M)
  /-- the trained fork of a group has the actor of the group -/
  groupActor : ∀ n gid a i o T, g.kindOf n = some (.worker gid a i o) → g.trainerOf gid = some T → T.actor = a
  tags : ∀ w ∈ (segmentOn g M head tl).workers, w.actor < 1000
  stored1 : ∀ gid, (∀ T, g.trainerOf gid = some T → T.node ∈ M) → (Flow.Segment.storedState A gid).asState = .none
  stored2 : ∀ gid T, g.trainerOf gid = some T → T.node ∉ M →
    (∃ w ∈ (segmentOn g M head tl).workers, w.gid = gid ∧ w.stateful = true) →
    (Flow.Segment.storedState A gid).asState = conv (trainedUnder W T).2

section
variable {g : Graph} {W : World} {M : List Nat} {head tl : Nat} {A : Option Flow.Assets} {rank : Nat → Nat}

/-- the subscription holding an input port, by membership -/
theorem publisher_eq_of_mem {s : Flow.Segment} (hp : (s.edges.map fun e => (e.sub, e.subPort)).Nodup) {e : Flow.Edge}
    (he : e ∈ s.edges) : s.publisher e.sub e.subPort = some e := by
  obtain ⟨e', he'⟩ := Option.isSome_iff_exists.mp (Flow.Segment.publisher_isSome_of_mem he)
  obtain ⟨hm, hs, hpt⟩ := Flow.Segment.publisher_some he'
  have : e' = e := Flow.Segment.eq_of_nodup_map (fun e : Flow.Edge => (e.sub, e.subPort)) hp hm he (by simp [hs, hpt])
  rw [he', this]

theorem trainerOf_mem {gid : Nat} {T : Training} (h : g.trainerOf gid = some T) : T ∈ g.trains ∧ T.gid = gid := by
  unfold Graph.trainerOf at h
  have := List.find?_some h
  exact ⟨List.mem_of_find?_eq_some h, by simpa using this⟩

/-- one training per group: the recorded training of a group is *the* trainer of the group -/
theorem trainerOf_of_mem (hnd : g.trains.Pairwise (fun a b => a.gid ≠ b.gid)) {T : Training} (hT : T ∈ g.trains) :
    g.trainerOf T.gid = some T := by
  cases h : g.trainerOf T.gid with
  | none =>
    unfold Graph.trainerOf at h
    have := List.find?_eq_none.mp h T hT
    simp at this
  | some T' =>
    obtain ⟨hm, hg⟩ := trainerOf_mem h
    by_cases e : T' = T
    · rw [e]
    · exfalso
      have : ∀ {l : List Training}, l.Pairwise (fun a b => a.gid ≠ b.gid) → T ∈ l → T' ∈ l → T' ≠ T → T'.gid ≠ T.gid := by
        intro l hl
        induction hl with
        | nil => intro h; cases h
        | cons hx _ ih =>
          intro h1 h2 hne
          rcases List.mem_cons.mp h1 with e1 | h1 <;> rcases List.mem_cons.mp h2 with e2 | h2
          · exact absurd (e2.trans e1.symm) hne
          · rw [e1]; exact fun h => hx _ h2 h.symm
          · rw [e2]; exact hx _ h1
          · exact ih h1 h2 hne
      exact this hnd hT hm e hg

variable (H : BridgeHyp g W M head tl A rank)
include H

/-- the worker of a member of the translated segment -/
theorem BridgeHyp.worker {n gid : Nat} {a : Actor} {i o : Nat} (hM : n ∈ M) (hk : g.kindOf n = some (.worker gid a i o)) :
    (⟨n, gid, a.tag, a.stateful, i, o⟩ : Flow.Worker) ∈ (segmentOn g M head tl).workers ∧
      (segmentOn g M head tl).worker? n = some ⟨n, gid, a.tag, a.stateful, i, o⟩ := by
  have hm : (⟨n, gid, a.tag, a.stateful, i, o⟩ : Flow.Worker) ∈ (segmentOn g M head tl).workers :=
    mem_seg_workers.mpr ⟨mem_allWorkers.mpr ⟨H.inv.bounded.uid_lt hk, by rw [hk]⟩, hM⟩
  exact ⟨hm, Flow.Segment.worker?_of_mem H.wf.nodup hm⟩

/-- a member that is evaluable is not a trained fork -/
theorem BridgeHyp.live_not_trained {n : Nat} (hl : W.live n) : (segmentOn g M head tl).trained n = false := by
  cases h : (segmentOn g M head tl).trained n with
  | false => rfl
  | true =>
    exfalso
    obtain ⟨T, hT, hn⟩ := trained_seg h
    obtain ⟨o, hk⟩ := H.trainKind T hT
    have hg := H.inv.good n hl
    unfold GoodNode at hg
    rw [← hn, hk] at hg
    obtain ⟨ins, hins, _⟩ := hg
    have := (hins 0 (by omega)).1
    rw [H.trainNoIn T hT 0] at this
    cases this

/-- the subscription of input port `k` of an evaluable member: it is in the translated segment, from the worker port
the recorded publisher stands for -/
theorem BridgeHyp.input {n gid : Nat} {a : Actor} {szin szout k : Nat} {q0 : PubRef} (hl : W.live n) (hM : n ∈ M)
    (hk : g.kindOf n = some (.worker gid a szin szout)) (hks : k < szin) (hin : g.inputOf n k = some q0)
    (hq0 : W.live q0.node) :
    ∃ q, (∃ gid' a' i' o', g.kindOf q.node = some (.worker gid' a' i' o')) ∧ W.live q.node ∧ q.node ∈ M ∧ W.σ q = W.σ q0 ∧
      W.h q.node ≤ W.h q0.node ∧
      (segmentOn g M head tl).publisher n (.apply k) = some ⟨q.node, q.idx, n, .apply k⟩ := by
  obtain ⟨q, hr, hkq, hlq, hσq, hhq⟩ := resolve_live' H.inv H.noOpen q0 hq0
  obtain ⟨hwm, hw⟩ := H.worker hM hk
  have hnt := H.live_not_trained hl
  -- the head has no input port
  have hne : n ≠ head := by
    intro e
    obtain ⟨gid', a', o', hh⟩ := H.headSrc
    rw [← e, hk] at hh
    cases hh
    omega
  -- the port is subscribed inside the segment
  have hp := H.wf.portsOK _ hwm
  simp only [Flow.Segment.portsOK, hnt] at hp
  have hne' : ¬ n = (segmentOn g M head tl).head := hne
  simp only [Bool.false_eq_true, if_false, hne', List.all_eq_true, List.mem_range] at hp
  have hc := hp k hks
  simp only [List.contains_iff_mem, List.mem_map, List.mem_filter, decide_eq_true_eq] at hc
  obtain ⟨e, ⟨he, hes⟩, hep⟩ := hc
  obtain ⟨hor, hpM, _⟩ := mem_seg_edges.mp he
  have hea : e ∈ g.applyEdges := by
    rcases hor with h | h
    · exact h
    · exfalso
      obtain ⟨T, _, x, y, _, _, h | h⟩ := mem_trainEdges.mp h <;> rw [h] at hep <;> cases hep
  obtain ⟨ge, hge, _, q', hr', hee⟩ := mem_applyEdges.mp hea
  have hsub : ge.sub = n := by rw [hee] at hes; exact hes
  have hport : ge.port = k := by
    rw [hee] at hep
    exact Flow.InPort.apply.inj hep
  have hkey := H.wired.keys ge hge
  rw [hsub, hport, hin] at hkey
  have hq' : q' = q := by
    rw [← Option.some.inj hkey, hr] at hr'
    exact (Option.some.inj hr').symm
  subst hq'
  have heq : e = ⟨q'.node, q'.idx, n, .apply k⟩ := by rw [hee, hsub, hport]
  refine ⟨q', hkq, hlq, by rw [heq] at hpM; exact hpM, hσq, hhq, ?_⟩
  have := publisher_eq_of_mem H.wf.ports he
  rw [heq] at this
  exact this

/-- value of the output port an edge starts from, once the publisher's value is known -/
theorem BridgeHyp.portValue {q : PubRef} {gid : Nat} {a : Actor} {i o : Nat} {out : Val} {F sub : Nat} {p : Flow.InPort}
    (hM : q.node ∈ M) (hk : g.kindOf q.node = some (.worker gid a i o)) (hσ : ∀ j, W.σ ⟨q.node, j⟩ = portVal o j out)
    (hv : (segmentOn g M head tl).nodeVal A F q.node = conv out) :
    Flow.Segment.portValOf (segmentOn g M head tl) ((segmentOn g M head tl).nodeVal A F) ⟨q.node, q.idx, sub, p⟩ =
      conv (W.σ q) := by
  obtain ⟨_, hw⟩ := H.worker hM hk
  unfold Flow.Segment.portValOf
  simp only [hw, hv]
  have : W.σ q = portVal o q.idx out := hσ q.idx
  rw [this, conv_portVal]

end

/-- what the induction provides for an evaluable member -/
def NodeStmt (g : Graph) (W : World) (M : List Nat) (head tl : Nat) (A : Option Flow.Assets) (n : Nat) : Prop :=
  ∀ gid a szin szout, g.kindOf n = some (.worker gid a szin szout) →
    ∃ out, (∀ i, W.σ ⟨n, i⟩ = portVal szout i out) ∧
      ∀ F, 2 * W.h n + 2 < F → (segmentOn g M head tl).nodeVal A F n = conv out

section
variable {g : Graph} {W : World} {M : List Nat} {head tl : Nat} {A : Option Flow.Assets} {rank : Nat → Nat}
variable (H : BridgeHyp g W M head tl A rank)
include H

/-- a trained fork that is a member evaluates to the state it trains, once its publishers are done -/
theorem BridgeHyp.trainer (k : Nat) (ih : ∀ n, W.live n → n ∈ M → W.h n < k → NodeStmt g W M head tl A n)
    {T : Training} (hT : T ∈ g.trains) (hM : T.node ∈ M) (hx : W.h T.train.node < k) (hy : W.h T.label.node < k) :
    ∀ F, 2 * k + 1 < F → (segmentOn g M head tl).nodeVal A F T.node = conv (trainedUnder W T).2 := by
  intro F hF
  obtain ⟨F', rfl⟩ : ∃ F', F = F' + 1 := ⟨F - 1, by omega⟩
  obtain ⟨o, hk⟩ := H.trainKind T hT
  obtain ⟨hwm, hw⟩ := H.worker hM hk
  obtain ⟨lx, ly⟩ := H.trainLive T hT
  obtain ⟨x, hrx, ⟨gx, ax, ix, ox, hkx⟩, hlx, hσx, hhx⟩ := resolve_live' H.inv H.noOpen T.train lx
  obtain ⟨y, hry, ⟨gy, ay, iy, oy, hky⟩, hly, hσy, hhy⟩ := resolve_live' H.inv H.noOpen T.label ly
  obtain ⟨mx, my⟩ := H.trainIn T hT hM
  have hxM := mx x hrx
  have hyM := my y hry
  -- the two subscriptions
  have hex : (⟨x.node, x.idx, T.node, .train⟩ : Flow.Edge) ∈ (segmentOn g M head tl).edges :=
    mem_seg_edges.mpr ⟨Or.inr (mem_trainEdges.mpr ⟨T, hT, x, y, hrx, hry, Or.inl rfl⟩), hxM, hM⟩
  have hey : (⟨y.node, y.idx, T.node, .label⟩ : Flow.Edge) ∈ (segmentOn g M head tl).edges :=
    mem_seg_edges.mpr ⟨Or.inr (mem_trainEdges.mpr ⟨T, hT, x, y, hrx, hry, Or.inr rfl⟩), hyM, hM⟩
  have hpx := publisher_eq_of_mem H.wf.ports hex
  have hpy := publisher_eq_of_mem H.wf.ports hey
  have htr : (segmentOn g M head tl).trained T.node = true :=
    Flow.Segment.trained_iff.mpr ⟨_, hex, rfl, rfl⟩
  -- the values of the publishers
  obtain ⟨outx, hox, hvx⟩ := ih x.node hlx hxM (by omega) gx ax ix ox hkx
  obtain ⟨outy, hoy, hvy⟩ := ih y.node hly hyM (by omega) gy ay iy oy hky
  have vx := H.portValue (sub := T.node) (p := .train) hxM hkx hox (hvx F' (by omega))
  have vy := H.portValue (sub := T.node) (p := .label) hyM hky hoy (hvy F' (by omega))
  -- the previous state: none
  have hprev : (Flow.Segment.storedState A T.gid).asState = .none := by
    apply H.stored1
    intro T' hT'
    have := trainerOf_of_mem H.gidNodup hT
    rw [this] at hT'
    cases hT'
    exact hM
  have hst : T.actor.stateful = true := by
    have := (H.wf.trainedOK hwm htr).stateful
    exact this
  rw [Flow.Segment.nodeVal_succ, hw]
  simp only [htr, if_true, hpx, hpy, hst, hprev, vx, vy]
  simp only [trainedUnder, conv, hσx, hσy]

/-- **evaluable members**: direct evaluation of the translated segment yields the certified value -/
theorem BridgeHyp.node : ∀ (k n : Nat), W.h n < k → W.live n → n ∈ M → NodeStmt g W M head tl A n := by
  intro k
  induction k with
  | zero => intro n h; omega
  | succ k ihk =>
    intro n hnk hl hM gid a szin szout hk
    have ih : ∀ m, W.live m → m ∈ M → W.h m < W.h n → NodeStmt g W M head tl A m :=
      fun m hlm hMm hlt => ihk m (by omega) hlm hMm
    have hg := H.inv.good n hl
    unfold GoodNode at hg
    simp only [hk] at hg
    obtain ⟨ins, hins, st, hst, hσ⟩ := hg
    obtain ⟨hwm, hw⟩ := H.worker hM hk
    have hnt := H.live_not_trained hl
    refine ⟨.apply a.tag st ((List.range szin).map (fun j => W.σ (ins j))), hσ, ?_⟩
    intro F hF
    obtain ⟨F', rfl⟩ : ∃ F', F = F' + 1 := ⟨F - 1, by omega⟩
    -- the arguments
    have hargs : (List.range szin).filterMap (fun i => ((segmentOn g M head tl).publisher n (.apply i)).map
        (Flow.Segment.portValOf (segmentOn g M head tl) ((segmentOn g M head tl).nodeVal A F'))) =
        (List.range szin).map (fun j => conv (W.σ (ins j))) := by
      rw [← List.filterMap_eq_map]
      apply Flow.Segment.filterMap_congr'
      intro j hj
      have hj' : j < szin := List.mem_range.mp hj
      obtain ⟨hin, hql, hqh⟩ := hins j hj'
      obtain ⟨q, ⟨gq, aq, iq, oq, hkq⟩, hlq, hqM, hσq, hhq, hpub⟩ := H.input hl hM hk hj' hin hql
      obtain ⟨outq, hoq, hvq⟩ := ih q.node hlq hqM (by omega) gq aq iq oq hkq
      rw [hpub]
      simp only [Option.map_some, Function.comp]
      rw [H.portValue hqM hkq hoq (hvq F' (by omega)), hσq]
    -- the state
    have hstate : (if !a.stateful then Flow.Val.none
        else match (segmentOn g M head tl).trainerOf gid with
          | some t => ((segmentOn g M head tl).nodeVal A F' t.uid).asState
          | none => (Flow.Segment.storedState A gid).asState) = conv st := by
      unfold GoodState StateFor at hst
      by_cases hsf : a.stateful = true
      · simp only [hsf, if_true, Bool.not_true, Bool.false_eq_true, if_false] at hst ⊢
        -- a trained member of this group comes from the recorded trainer of the group
        have trained_is : ∀ w' ∈ (segmentOn g M head tl).workers, w'.gid = gid →
            (segmentOn g M head tl).trained w'.uid = true → ∃ T, g.trainerOf gid = some T ∧ T.node = w'.uid := by
          intro w' hw' hg' htr'
          obtain ⟨T', hT', hn'⟩ := trained_seg htr'
          obtain ⟨o', hk'⟩ := H.trainKind T' hT'
          have := (mem_allWorkers.mp (mem_seg_workers.mp hw').1).2
          rw [← hn', hk'] at this
          have hgid : T'.gid = w'.gid := by injection this with h; injection h
          refine ⟨T', ?_, hn'⟩
          rw [← hg', ← hgid]
          exact trainerOf_of_mem H.gidNodup hT'
        cases htg : g.trainerOf gid with
        | none =>
          simp only [htg] at hst
          have hnone : (segmentOn g M head tl).trainerOf gid = none := by
            cases h : (segmentOn g M head tl).trainerOf gid with
            | none => rfl
            | some t =>
              obtain ⟨ht1, ht2, ht3⟩ := Flow.Segment.trainerOf_some h
              obtain ⟨T, hT, _⟩ := trained_is t ht1 ht2 ht3
              rw [htg] at hT; cases hT
          rw [hnone, hst]
          simp only [conv]
          exact H.stored1 gid (fun T hT => by rw [htg] at hT; cases hT)
        | some T =>
          simp only [htg] at hst
          obtain ⟨⟨lx, hx⟩, ⟨ly, hy⟩, hsteq⟩ := hst
          obtain ⟨hTm, hTg⟩ := trainerOf_mem htg
          have hconv : conv st = conv (trainedUnder W T).2 := by
            rw [hsteq]
            simp only [trainedUnder]
            rw [H.groupActor n gid a szin szout T hk htg]
          by_cases hTM : T.node ∈ M
          · -- the trainer is a member: it is the trained member of the group
            obtain ⟨o', hk'⟩ := H.trainKind T hTm
            obtain ⟨hwT, hwT?⟩ := H.worker hTM hk'
            have hv := H.trainer (W.h n) (fun m hlm hMm hlt => ih m hlm hMm hlt) hTm hTM hx hy F' (by omega)
            have htrT : (segmentOn g M head tl).trained T.node = true := by
              obtain ⟨lx', ly'⟩ := H.trainLive T hTm
              obtain ⟨x, hrx, _, _, _, _⟩ := resolve_live' H.inv H.noOpen T.train lx'
              obtain ⟨y, hry, _, _, _, _⟩ := resolve_live' H.inv H.noOpen T.label ly'
              obtain ⟨mx, _⟩ := H.trainIn T hTm hTM
              exact Flow.Segment.trained_iff.mpr ⟨⟨x.node, x.idx, T.node, .train⟩,
                mem_seg_edges.mpr ⟨Or.inr (mem_trainEdges.mpr ⟨T, hTm, x, y, hrx, hry, Or.inl rfl⟩), mx x hrx, hTM⟩, rfl, rfl⟩
            have hsome : ∃ t, (segmentOn g M head tl).trainerOf gid = some t ∧ t.uid = T.node := by
              cases h : (segmentOn g M head tl).trainerOf gid with
              | none =>
                have := Flow.Segment.trainerOf_none h _ hwT (by simp [hTg])
                rw [htrT] at this; cases this
              | some t =>
                obtain ⟨ht1, ht2, ht3⟩ := Flow.Segment.trainerOf_some h
                obtain ⟨T2, hT2, hn2⟩ := trained_is t ht1 ht2 ht3
                rw [htg] at hT2; cases hT2
                exact ⟨t, rfl, hn2.symm⟩
            obtain ⟨t, ht, htu⟩ := hsome
            rw [ht]
            simp only [htu, hv]
            rw [hconv]
            -- a trained state is truthy
            have hlt : T.actor.tag < 1000 := H.tags _ hwT
            simp only [trainedUnder, conv, Flow.Val.asState, Flow.Val.truthy, Flow.Actor.falsyState, Flow.falsyBase]
            have : T.actor.tag / (2 * 1000) % 2 = 0 := by
              rw [Nat.div_eq_of_lt (by omega)]
            simp [this]
          · -- the trainer is outside: the stored state
            have hnone : (segmentOn g M head tl).trainerOf gid = none := by
              cases h : (segmentOn g M head tl).trainerOf gid with
              | none => rfl
              | some t =>
                obtain ⟨ht1, ht2, ht3⟩ := Flow.Segment.trainerOf_some h
                obtain ⟨T2, hT2, hn2⟩ := trained_is t ht1 ht2 ht3
                rw [htg] at hT2; cases hT2
                exact absurd (hn2 ▸ (mem_seg_workers.mp ht1).2) hTM
            rw [hnone, hconv]
            exact H.stored2 gid T htg hTM ⟨_, hwm, rfl, hsf⟩
      · have hsf' : a.stateful = false := by simpa using hsf
        simp only [hsf', Bool.not_false, if_true] at hst ⊢
        simp at hst
        rw [hst]; rfl
    rw [Flow.Segment.nodeVal_succ, hw]
    simp only [hnt, Bool.false_eq_true, if_false, hargs]
    simp only [conv, convL_eq_map, List.map_map]
    congr 1

end

end ForML.Compose
