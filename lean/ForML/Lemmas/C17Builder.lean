/- C17: the variant list `ABTest.Builder` hands to the constructor is the declared one (lemmas). -/
import ForML.Model.StrategyBuilder

namespace ForML.Strategy

theorem foldl_over (args : List VArg) : ∀ (pre : List Variant) (v : Variant),
    args.foldl Builder.over (pre ++ [v]) = pre ++ v :: declaredFrom v.project v.release args := by
  induction args with
  | nil => intro pre v; simp [declaredFrom]
  | cons a rest ih =>
    intro pre v
    simp only [List.foldl_cons, declaredFrom]
    have hstep : Builder.over (pre ++ [v]) a =
        (pre ++ [v]) ++ [⟨a.project.getD v.project, a.release.getD v.release, a.generation, a.target⟩] := by
      simp [Builder.over]
    rw [hstep, ih]
    simp

theorem build_eq_declared (first : Variant) (args : List VArg) :
    Builder.build first args = declared first args := by
  have := foldl_over args [] first
  simpa [Builder.build, declared] using this

theorem declaredFrom_length (p r : Nat) (args : List VArg) : (declaredFrom p r args).length = args.length := by
  induction args generalizing p r with
  | nil => rfl
  | cons a rest ih => simp [declaredFrom, ih]

theorem declaredFrom_last (p r : Nat) (args : List VArg) (a : VArg) :
    ∃ p' r', (declaredFrom p r (args ++ [a])).getLast? =
      some ⟨a.project.getD p', a.release.getD r', a.generation, a.target⟩ := by
  induction args generalizing p r with
  | nil => exact ⟨p, r, by simp [declaredFrom]⟩
  | cons b rest ih =>
    obtain ⟨p', r', h⟩ := ih (b.project.getD p) (b.release.getD r)
    refine ⟨p', r', ?_⟩
    simp only [List.cons_append, declaredFrom]
    rw [List.getLast?_cons_of_ne_nil]
    · exact h
    · intro e
      have := congrArg List.length e
      rw [declaredFrom_length] at this
      simp at this

end ForML.Strategy
