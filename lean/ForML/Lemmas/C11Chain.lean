/-
C11 helper lemmas, part 4: the holders of one subscription form a chain along the registrations (`Chain`) as long
as no placeholder input port gets a second publisher (`SingleReg`); with (I8) this gives the one-publisher rule.
-/
import ForML.Lemmas.C11Step

namespace ForML.Graph

/-- output port `b` is registered as a publisher of the placeholder input/output lane `a` -/
def regStep (g : G) (a b : Nat × Nat) : Prop :=
  ∃ r ∈ g.regs, r.fut = a.1 ∧ r.idx = a.2 ∧ r.pub = b.1 ∧ r.out = b.2

/-- `b` is upstream of `a` through registrations (reflexive, transitive) -/
inductive Up (g : G) : Nat × Nat → Nat × Nat → Prop
  | refl (a : Nat × Nat) : Up g a a
  | step {a b c : Nat × Nat} : regStep g a b → Up g b c → Up g a c

theorem Up.trans {g : G} {a b c : Nat × Nat} (h1 : Up g a b) (h2 : Up g b c) : Up g a c := by
  induction h1 with
  | refl => exact h2
  | step hs _ ih => exact .step hs (ih h2)

theorem Up.mono {g g' : G} (h : ∀ r ∈ g.regs, r ∈ g'.regs) {a b : Nat × Nat} (hu : Up g a b) : Up g' a b := by
  induction hu with
  | refl => exact .refl _
  | step hs _ ih =>
    obtain ⟨r, hr, h1⟩ := hs
    exact .step ⟨r, h r hr, h1⟩ ih

/-- no placeholder input port has two different publishers -/
def SingleReg (g : G) : Prop :=
  ∀ r ∈ g.regs, ∀ r' ∈ g.regs, r.fut = r'.fut → r.idx = r'.idx → r.pub = r'.pub ∧ r.out = r'.out

theorem regStep_fun {g : G} (hs : SingleReg g) {a b c : Nat × Nat} (h1 : regStep g a b) (h2 : regStep g a c) :
    b = c := by
  obtain ⟨r, hr, a1, a2, a3, a4⟩ := h1
  obtain ⟨r', hr', b1, b2, b3, b4⟩ := h2
  obtain ⟨e1, e2⟩ := hs r hr r' hr' (by rw [a1, b1]) (by rw [a2, b2])
  apply Prod.ext
  · rw [← a3, ← b3, e1]
  · rw [← a4, ← b4, e2]

theorem Up.comparable {g : G} (hs : SingleReg g) {a x y : Nat × Nat} (h1 : Up g a x) (h2 : Up g a y) :
    Up g x y ∨ Up g y x := by
  induction h1 with
  | refl => exact .inl h2
  | step hab hbx ih =>
    cases h2 with
    | refl => exact .inr (.step hab hbx)
    | step hab' hby =>
      have := regStep_fun hs hab hab'
      subst this
      exact ih hby

theorem tree_up (g : G) : ∀ (fuel n i : Nat) (x : Nat × Nat), x ∈ tree fuel g n i → Up g (n, i) x := by
  intro fuel
  induction fuel with
  | zero => intro n i x h; simp [tree] at h
  | succ k ih =>
    intro n i x h
    simp only [tree, List.mem_cons] at h
    rcases h with rfl | h
    · exact .refl _
    · split at h
      · simp only [List.mem_flatMap] at h
        obtain ⟨t, ht, hx⟩ := h
        refine .step ?_ (ih t.1 t.2 x hx)
        unfold pubsAt at ht
        simp only [List.mem_map, List.mem_filter, decide_eq_true_eq] at ht
        obtain ⟨r, ⟨hr, h1, h2⟩, rfl⟩ := ht
        exact ⟨r, hr, h1, h2, rfl, rfl⟩
      · cases h

theorem up_worker {g : G} (i8 : I8 g) {n i : Nat} (hw : isWorker g n = true) {x : Nat × Nat}
    (h : Up g (n, i) x) : x = (n, i) := by
  cases h with
  | refl => rfl
  | step hs _ =>
    obtain ⟨r, hr, h1, _⟩ := hs
    have := (i8 r hr).1
    simp only at h1
    rw [h1] at this
    exact (not_worker_and_future g n hw this).elim

/-- the ports holding one subscription are totally ordered by `Up` -/
def Chain (g : G) : Prop :=
  ∀ e ∈ g.edges, ∀ e' ∈ g.edges, e.sub = e'.sub →
    Up g (e.pub, e.out) (e'.pub, e'.out) ∨ Up g (e'.pub, e'.out) (e.pub, e.out)

theorem i1_of_chain {g : G} (i8 : I8 g) (hc : Chain g) : I1 g := by
  intro e he e' he' hw hw' hs
  rcases hc e he e' he' hs with h | h
  · have := up_worker i8 hw h
    cases e; cases e'; simp_all
  · have := up_worker i8 hw' h
    cases e; cases e'; simp_all

/-- appending edges of one fresh subscription along one registration tree keeps the chain property -/
theorem chain_publish (g g' : G) (s : Sub) (L : List Edge) (p pi fuel : Nat) (hs : SingleReg g) (hc : Chain g)
    (hr : g'.regs = g.regs) (he : g'.edges = g.edges ++ L)
    (hfresh : ∀ e ∈ g.edges, e.sub ≠ s)
    (hL : ∀ e ∈ L, e.sub = s ∧ (e.pub, e.out) ∈ tree fuel g p pi) : Chain g' := by
  have mono : ∀ {a b : Nat × Nat}, Up g a b → Up g' a b := fun h => Up.mono (by rw [hr]; exact fun _ h => h) h
  intro e h1 e' h2 hsub
  rw [he] at h1 h2
  rcases List.mem_append.mp h1 with h1 | h1 <;> rcases List.mem_append.mp h2 with h2 | h2
  · rcases hc e h1 e' h2 hsub with h | h
    · exact .inl (mono h)
    · exact .inr (mono h)
  · rw [(hL e' h2).1] at hsub; exact absurd hsub (hfresh e h1)
  · rw [(hL e h1).1] at hsub; exact absurd hsub.symm (hfresh e' h2)
  · have u1 := tree_up g fuel p pi _ (hL e h1).2
    have u2 := tree_up g fuel p pi _ (hL e' h2).2
    rcases Up.comparable hs u1 u2 with h | h
    · exact .inl (mono h)
    · exact .inr (mono h)

/-- the first registration on a placeholder port (and the edges its collapse appended) keeps `SingleReg` and `Chain` -/
theorem chain_register (g : G) (f i p pi : Nat) (L : List Edge) (hs : SingleReg g) (hc : Chain g)
    (hno : ∀ r ∈ g.regs, ¬(r.fut = f ∧ r.idx = i))
    (hL : RegFacts g f i p pi L) :
    SingleReg { g with edges := g.edges ++ L, regs := g.regs ++ [⟨f, i, p, pi⟩] } ∧
    Chain { g with edges := g.edges ++ L, regs := g.regs ++ [⟨f, i, p, pi⟩] } := by
  let g1 : G := { g with regs := g.regs ++ [⟨f, i, p, pi⟩] }
  let g' : G := { g with edges := g.edges ++ L, regs := g.regs ++ [⟨f, i, p, pi⟩] }
  have hs1 : SingleReg g1 := by
    intro r hr r' hr' h1 h2
    rcases List.mem_append.mp hr with hr | hr <;> rcases List.mem_append.mp hr' with hr' | hr'
    · exact hs r hr r' hr' h1 h2
    · simp only [List.mem_singleton] at hr'; subst hr'
      exact absurd ⟨h1, h2⟩ (hno r hr)
    · simp only [List.mem_singleton] at hr; subst hr
      exact absurd ⟨h1.symm, h2.symm⟩ (hno r' hr')
    · simp only [List.mem_singleton] at hr hr'; subst hr; subst hr'; exact ⟨rfl, rfl⟩
  have hs' : SingleReg g' := hs1
  refine ⟨hs', ?_⟩
  have mono : ∀ {a b : Nat × Nat}, Up g a b → Up g' a b :=
    fun h => Up.mono (g' := g') (fun r hr => List.mem_append_left _ hr) h
  have mono1 : ∀ {a b : Nat × Nat}, Up g1 a b → Up g' a b := fun h => Up.mono (g := g1) (g' := g') (fun r hr => hr) h
  have hnew : regStep g' (f, i) (p, pi) := ⟨⟨f, i, p, pi⟩, List.mem_append_right _ (by simp), rfl, rfl, rfl, rfl⟩
  -- an old holder of a subscription held by (f, i) is downstream of (f, i)
  have hold : ∀ e0 ∈ g.edges, (⟨f, i, e0.sub⟩ : Edge) ∈ g.edges → Up g (e0.pub, e0.out) (f, i) := by
    intro e0 h0 hfi
    rcases hc e0 h0 _ hfi rfl with h | h
    · exact h
    · cases h with
      | refl => exact .refl _
      | step hst _ =>
        obtain ⟨r, hr, h1, h2, _⟩ := hst
        exact absurd ⟨h1, h2⟩ (hno r hr)
  intro e h1 e' h2 hsub
  rcases List.mem_append.mp h1 with h1 | h1 <;> rcases List.mem_append.mp h2 with h2 | h2
  · rcases hc e h1 e' h2 hsub with h | h
    · exact .inl (mono h)
    · exact .inr (mono h)
  · obtain ⟨hfi, _, _, _, ht⟩ := hL e' h2
    rw [← hsub] at hfi
    exact .inl ((mono (hold e h1 hfi)).trans (.step hnew (mono1 (tree_up g1 _ p pi _ ht))))
  · obtain ⟨hfi, _, _, _, ht⟩ := hL e h1
    rw [hsub] at hfi
    exact .inr ((mono (hold e' h2 hfi)).trans (.step hnew (mono1 (tree_up g1 _ p pi _ ht))))
  · have u1 := tree_up g1 _ p pi _ (hL e h1).2.2.2.2
    have u2 := tree_up g1 _ p pi _ (hL e' h2).2.2.2.2
    rcases Up.comparable hs1 u1 u2 with h | h
    · exact .inl (mono1 h)
    · exact .inr (mono1 h)

theorem chain_congr (g g' : G) (hr : g'.regs = g.regs) (he : g'.edges = g.edges) (hc : Chain g) : Chain g' := by
  intro e h1 e' h2 hsub
  rw [he] at h1 h2
  rcases hc e h1 e' h2 hsub with h | h
  · exact .inl (Up.mono (by rw [hr]; exact fun _ h => h) h)
  · exact .inr (Up.mono (by rw [hr]; exact fun _ h => h) h)

end ForML.Graph
