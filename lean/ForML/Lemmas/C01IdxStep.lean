/-
C01 — one `Table.add` preserves the index invariant (for any next node of a well-formed segment):
here the common facts and the mapper (non-trainer) case.
-/
import ForML.Lemmas.C01IdxInv

namespace ForML.Flow
open CState Segment

section
variable {g : Segment} {A : Option Assets} {rank : Uid → Nat}

/-- a group has at most one trainer -/
theorem trainer_unique (h : WF g rank) {t w : Worker} (ht : t ∈ g.workers) (hw : w ∈ g.workers) (hg : t.gid = w.gid)
    (hT : g.isTrainer t = true) (hT' : g.isTrainer w = true) : t = w := by
  simp only [isTrainer, Bool.and_eq_true] at hT hT'
  apply eq_of_nodup_map (fun w : Worker => w.uid) (l := g.workers) h.nodup ht hw
  apply Classical.byContradiction
  intro hne
  have := ((h.group t ht w hw hg).2.2 hT.2 hne).1
  rw [hT'.2] at this; cases this

/-- persistence is a property of the group -/
theorem persistent_group (h : WF g rank) {t w : Worker} (ht : t ∈ g.workers) (hw : w ∈ g.workers) (hg : t.gid = w.gid)
    (hP : persistentW A t = true) : persistentW A w = true := by
  have hst := (h.group t ht w hw hg).2.1
  unfold persistentW at hP ⊢
  rw [← hst, ← hg]; exact hP

variable {vis : List Uid} {I : List (Key × Obj)} {c : Option Key}

theorem fresh_uid (inv : IdxInv g A vis (I, c)) {n : Uid} (hv : n ∉ vis) : aget (Key.uid n) I = none := by
  cases h : aget (Key.uid n) I with
  | none => rfl
  | some o => obtain ⟨_, _, hm, _⟩ := inv.sound _ _ h; exact absurd hm hv

theorem fresh_getter (inv : IdxInv g A vis (I, c)) {n : Uid} (hv : n ∉ vis) (i : Nat) :
    aget (Key.getter n i) I = none := by
  cases h : aget (Key.getter n i) I with
  | none => rfl
  | some o => obtain ⟨_, _, _, hm, _⟩ := inv.sound _ _ h; exact absurd hm hv

theorem fresh_dumper (inv : IdxInv g A vis (I, c)) {n : Uid} (hv : n ∉ vis) : aget (Key.dumper n) I = none := by
  cases h : aget (Key.dumper n) I with
  | none => rfl
  | some o => obtain ⟨_, _, _, hm, _⟩ := inv.sound _ _ h; exact absurd hm hv

theorem commOK_of (inv : IdxInv g A vis (I, c)) : CommOK c := by
  rcases inv.comm with ⟨h, _⟩ | ⟨h, _⟩
  · exact Or.inl h
  · exact Or.inr h

theorem fresh_committer (inv : IdxInv g A vis (I, c)) (hc : c = none) : aget Key.committer I = none := by
  cases h : aget Key.committer I with
  | none => rfl
  | some o =>
    obtain ⟨_, t, ht, hv, hT, hP⟩ := inv.sound _ _ h
    rcases inv.comm with ⟨_, hno⟩ | ⟨hs, _⟩
    · exact absurd hP (fun hP => hno t ht hv hT hP)
    · simp only at hs; rw [hc] at hs; cases hs

/-- identities already in the index -/
theorem id_not_uid (inv : IdxInv g A vis (I, c)) {B : List (Key × Obj)} (hB : ∀ x ∈ B, x ∈ I) {n : Uid} (hv : n ∉ vis) :
    Key.uid n ∉ B.map (·.2.id) := by
  intro hx
  obtain ⟨k, o, hget, _, hid⟩ := mem_ids_of hB inv.keys hx
  rcases (inv.sound k o hget).id_cases with ⟨h1, _⟩ | ⟨γ, _, rfl⟩ | ⟨γ, t, _, _, htv, rfl⟩
  · rw [hid] at h1; subst h1
    rw [fresh_uid inv hv] at hget; cases hget
  · cases hid
  · simp only [functorObj, Key.uid.injEq] at hid
    rw [hid] at htv; exact hv htv

theorem id_not_getter (inv : IdxInv g A vis (I, c)) {B : List (Key × Obj)} (hB : ∀ x ∈ B, x ∈ I) {n : Uid} (hv : n ∉ vis)
    (i : Nat) : Key.getter n i ∉ B.map (·.2.id) := by
  intro hx
  obtain ⟨k, o, hget, _, hid⟩ := mem_ids_of hB inv.keys hx
  rcases (inv.sound k o hget).id_cases with ⟨h1, _⟩ | ⟨γ, _, rfl⟩ | ⟨γ, t, _, _, htv, rfl⟩
  · rw [hid] at h1; subst h1
    rw [fresh_getter inv hv] at hget; cases hget
  · cases hid
  · cases hid

theorem id_not_dumper (inv : IdxInv g A vis (I, c)) {B : List (Key × Obj)} (hB : ∀ x ∈ B, x ∈ I) {n : Uid} (hv : n ∉ vis) :
    Key.dumper n ∉ B.map (·.2.id) := by
  intro hx
  obtain ⟨k, o, hget, _, hid⟩ := mem_ids_of hB inv.keys hx
  rcases (inv.sound k o hget).id_cases with ⟨h1, _⟩ | ⟨γ, _, rfl⟩ | ⟨γ, t, _, _, htv, rfl⟩
  · rw [hid] at h1; subst h1
    rw [fresh_dumper inv hv] at hget; cases hget
  · cases hid
  · cases hid

theorem id_not_committer (inv : IdxInv g A vis (I, c)) {B : List (Key × Obj)} (hB : ∀ x ∈ B, x ∈ I) (hc : c = none) :
    Key.committer ∉ B.map (·.2.id) := by
  intro hx
  obtain ⟨k, o, hget, _, hid⟩ := mem_ids_of hB inv.keys hx
  rcases (inv.sound k o hget).id_cases with ⟨h1, _⟩ | ⟨γ, _, rfl⟩ | ⟨γ, t, _, _, htv, rfl⟩
  · rw [hid] at h1; subst h1
    rw [fresh_committer inv hc] at hget; cases hget
  · cases hid
  · cases hid

/-- the loader identity is in `B ⊆ I` only through its own key or as the alias of its group -/
theorem id_loader_cases (inv : IdxInv g A vis (I, c)) {B : List (Key × Obj)} (hB : ∀ x ∈ B, x ∈ I) {γ : Gid}
    (hx : Key.loader γ ∈ B.map (·.2.id)) :
    (∃ o, (Key.loader γ, o) ∈ B) ∨ (Key.gid γ, loaderObj γ) ∈ B := by
  obtain ⟨k, o, hget, hmem, hid⟩ := mem_ids_of hB inv.keys hx
  rcases (inv.sound k o hget).id_cases with ⟨h1, _⟩ | ⟨γ', hk, rfl⟩ | ⟨γ', t, _, _, _, rfl⟩
  · rw [hid] at h1; subst h1
    exact Or.inl ⟨o, hmem⟩
  · simp only [loaderObj, Key.loader.injEq] at hid
    subst hid hk
    exact Or.inr hmem
  · cases hid

/-- **mapper step** -/
theorem idx_step_mapper (h : WF g rank) (inv : IdxInv g A vis (I, c)) {w : Worker} (hw : w ∈ g.workers)
    (hv : w.uid ∉ vis) (hT : g.isTrainer w = false) (htr : g.trained w.uid = false) :
    ∃ ic', idxRun (I, c) (prog g A w) = some ic' ∧ IdxInv g A (vis ++ [w.uid]) ic' := by
  have hu := fresh_uid inv hv
  have hgt := fresh_getter inv hv
  refine ⟨_, idx_mapper hT htr hu hgt, ?_⟩
  have hwk := worker?_of_mem h.nodup hw
  -- no visited trainer in the group when the gid is unbound
  have hnoT : aget (Key.gid w.gid) I = none → ∀ t ∈ g.workers, t.gid = w.gid → g.isTrainer t = true → t.uid ∉ vis := by
    intro hnone t ht hg hTt hm
    have := inv.c_gidT t ht hm hTt
    rw [hg, hnone] at this; cases this
  have hnotw : ∀ t ∈ g.workers, g.isTrainer t = true → t.uid ≠ w.uid := by
    intro t ht hTt heq
    have : t = w := eq_of_nodup_map (fun w : Worker => w.uid) (l := g.workers) h.nodup ht hw heq
    subst this; rw [hT] at hTt; cases hTt
  -- the new entries
  generalize hL : (if persistentW A w = true ∧ aget (Key.gid w.gid) I = none
    then [(Key.gid w.gid, loaderObj w.gid)] else []) = Lopt
  have hLget : ∀ k o, aget k Lopt = some o →
      k = Key.gid w.gid ∧ o = loaderObj w.gid ∧ persistentW A w = true ∧ aget (Key.gid w.gid) I = none := by
    intro k o hko
    rw [← hL] at hko
    split at hko
    · rename_i hc
      simp only [aget_cons, aget_nil] at hko
      split at hko
      · cases hko; subst_vars; exact ⟨rfl, rfl, hc.1, hc.2⟩
      · cases hko
    · cases hko
  have hLnone : ∀ k, k ≠ Key.gid w.gid → aget k Lopt = none := by
    intro k hk
    cases hko : aget k Lopt with
    | none => rfl
    | some o => exact absurd (hLget k o hko).1 hk
  -- lookups in the result
  have hget : ∀ k o, aget k (I ++ Lopt ++ [(Key.uid w.uid, functorObj g A w)] ++ getterEntries g w) = some o →
      aget k I = some o ∨
      (k = Key.gid w.gid ∧ o = loaderObj w.gid ∧ persistentW A w = true ∧ aget (Key.gid w.gid) I = none) ∨
      (k = Key.uid w.uid ∧ o = functorObj g A w) ∨
      (∃ i, k = Key.getter w.uid i ∧ o = getterObj w.uid i ∧ i < w.szout ∧ g.trained w.uid = false ∧ w.szout ≠ 1) := by
    intro k o hko
    rw [aget_append, aget_append, aget_append] at hko
    cases h1 : aget k I with
    | some o1 => simp only [h1] at hko; left; exact hko
    | none =>
      simp only [h1] at hko
      cases h2 : aget k Lopt with
      | some o2 => simp only [h2] at hko; cases hko; exact Or.inr (Or.inl (hLget k o h2))
      | none =>
        simp only [h2, aget_cons, aget_nil] at hko
        by_cases heq : Key.uid w.uid = k
        · simp only [heq, if_true, Option.some.injEq] at hko
          exact Or.inr (Or.inr (Or.inl ⟨heq.symm, hko.symm⟩))
        · simp only [heq, if_false] at hko
          exact Or.inr (Or.inr (Or.inr (aget_getterEntries k o hko)))
  have hkeep : ∀ k o, aget k I = some o →
      aget k (I ++ Lopt ++ [(Key.uid w.uid, functorObj g A w)] ++ getterEntries g w) = some o := by
    intro k o hko
    exact aget_append_left _ (aget_append_left _ (aget_append_left _ hko))
  refine ⟨?_, ?_, ?_, ?_, ?_, ?_, ?_, ?_, ?_⟩
  · -- keys
    show ((I ++ Lopt ++ [(Key.uid w.uid, functorObj g A w)] ++ getterEntries g w).map (·.1)).Nodup
    apply keys_nodup_append _ (getterEntries_keys_nodup g w)
    · intro k hk
      simp only [List.mem_map] at hk
      obtain ⟨⟨k', o⟩, hm, rfl⟩ := hk
      have hko := aget_of_mem_nodup (getterEntries_keys_nodup g w) hm
      obtain ⟨i, rfl, _⟩ := aget_getterEntries _ _ hko
      exact aget_fresh_append (aget_fresh_append (hgt i) (hLnone _ (by simp))) (aget_singleton_ne (by simp))
    · apply keys_nodup_append _ (by simp)
      · intro k hk
        simp only [List.map_cons, List.map_nil, List.mem_singleton] at hk
        subst hk
        exact aget_fresh_append hu (hLnone _ (by simp))
      · apply keys_nodup_append inv.keys
        · rw [← hL]; split <;> simp
        · intro k hk
          simp only [List.mem_map] at hk
          obtain ⟨⟨k', o⟩, hm, rfl⟩ := hk
          rw [← hL] at hm
          split at hm
          · rename_i hc
            simp only [List.mem_singleton, Prod.mk.injEq] at hm
            obtain ⟨rfl, _⟩ := hm
            exact hc.2
          · cases hm
  · -- contiguity
    show Contig ((I ++ Lopt ++ [(Key.uid w.uid, functorObj g A w)] ++ getterEntries g w).map (·.2.id))
    simp only [List.map_append, List.map_cons, List.map_nil]
    rw [getterEntries_ids]
    have hsub : ∀ x ∈ I, x ∈ I := fun _ h => h
    have hidsL : ∀ x, x ∈ (I.map (·.2.id)) ++ Lopt.map (·.2.id) → x ∈ I.map (·.2.id) ∨ x = Key.loader w.gid := by
      intro x hx
      rcases List.mem_append.mp hx with hx | hx
      · exact Or.inl hx
      · right
        rw [← hL] at hx
        split at hx
        · simpa [loaderObj] using hx
        · cases hx
    apply Contig.append_list
    · apply Contig.append_fresh
      · -- the optional loader
        rw [← hL]
        split
        · rename_i hc
          simp only [List.map_cons, List.map_nil]
          apply inv.contig.append_fresh
          left
          intro hx
          rcases id_loader_cases inv hsub hx with ⟨o, hm⟩ | hm
          · have hko := aget_of_mem_nodup inv.keys hm
            obtain ⟨_, t, ht, hg, htv, hTt, _⟩ := inv.sound _ _ hko
            exact hnoT hc.2 t ht hg hTt htv
          · have hko := aget_of_mem_nodup inv.keys hm
            rw [hc.2] at hko; cases hko
        · simpa using inv.contig
      · left
        intro hx
        rcases hidsL _ hx with hx | hx
        · exact id_not_uid inv hsub hv hx
        · cases hx
    · have := getterEntries_keys_nodup g w
      exact this
    · intro x hx hmem
      simp only [List.mem_map] at hx
      obtain ⟨⟨k', o⟩, hm, rfl⟩ := hx
      have hko := aget_of_mem_nodup (getterEntries_keys_nodup g w) hm
      obtain ⟨i, rfl, _⟩ := aget_getterEntries _ _ hko
      simp only [List.mem_append, List.mem_singleton] at hmem
      rcases hmem with hmem | hmem
      · rcases hidsL _ (List.mem_append.mpr hmem) with hx | hx
        · exact id_not_getter inv hsub hv i hx
        · cases hx
      · simp [functorObj] at hmem
  · -- committer field: no new persistent trainer
    rcases inv.comm with ⟨hc, hno⟩ | ⟨hc, t, ht, htv, hTt, hPt⟩
    · left
      refine ⟨hc, ?_⟩
      intro t ht htv hTt hPt
      rcases List.mem_append.mp htv with htv | htv
      · exact hno t ht htv hTt hPt
      · simp only [List.mem_singleton] at htv
        exact hnotw t ht hTt htv
    · exact Or.inr ⟨hc, t, ht, List.mem_append_left _ htv, hTt, hPt⟩
  · -- soundness
    intro k o hko
    rcases hget k o hko with h1 | ⟨rfl, rfl, hP, hnone⟩ | ⟨rfl, rfl⟩ | ⟨i, rfl, rfl, hi, htr', hne⟩
    · apply (inv.sound k o h1).mono
      intro γ _ _ t ht _ hTt
      exact hnotw t ht hTt
    · right
      refine ⟨rfl, ⟨w, hw, by simp, rfl, hP⟩, ?_⟩
      intro t ht hg hTt hm
      rcases List.mem_append.mp hm with hm | hm
      · exact hnoT hnone t ht hg hTt hm
      · simp only [List.mem_singleton] at hm
        exact hnotw t ht hTt hm
    · exact ⟨w, hwk, by simp, rfl⟩
    · exact ⟨rfl, w, hwk, by simp, htr', hne, hi⟩
  · -- c_uid
    intro w' hw' hv'
    rcases List.mem_append.mp hv' with hv' | hv'
    · exact hkeep _ _ (inv.c_uid w' hw' hv')
    · simp only [List.mem_singleton] at hv'
      have : w' = w := eq_of_nodup_map (fun w : Worker => w.uid) (l := g.workers) h.nodup hw' hw hv'
      subst this
      show aget _ (I ++ Lopt ++ [(Key.uid w'.uid, functorObj g A w')] ++ getterEntries g w') = _
      exact aget_append_left _ (by
        rw [aget_append_right _ (aget_fresh_append hu (hLnone _ (by simp)))]
        exact aget_singleton_self)
  · -- c_gidT
    intro t ht htv hTt
    rcases List.mem_append.mp htv with htv | htv
    · exact hkeep _ _ (inv.c_gidT t ht htv hTt)
    · simp only [List.mem_singleton] at htv
      exact absurd htv (hnotw t ht hTt)
  · -- c_gidL
    intro w' hw' hv' hP' hno
    have hno' : ∀ t ∈ g.workers, t.gid = w'.gid → g.isTrainer t = true → t.uid ∉ vis :=
      fun t ht hg hTt hm => hno t ht hg hTt (List.mem_append_left _ hm)
    rcases List.mem_append.mp hv' with hv' | hv'
    · exact hkeep _ _ (inv.c_gidL w' hw' hv' hP' hno')
    · simp only [List.mem_singleton] at hv'
      have : w' = w := eq_of_nodup_map (fun w : Worker => w.uid) (l := g.workers) h.nodup hw' hw hv'
      subst this
      cases hgid : aget (Key.gid w'.gid) I with
      | some o =>
        rcases inv.sound _ _ hgid with ⟨t, ht, hg, hTt, htv, _⟩ | ⟨rfl, _⟩
        · exact absurd htv (hno' t ht hg hTt)
        · exact hkeep _ _ hgid
      | none =>
        show aget _ (I ++ Lopt ++ [(Key.uid w'.uid, functorObj g A w')] ++ getterEntries g w') = _
        apply aget_append_left
        apply aget_append_left
        rw [aget_append_right _ hgid, ← hL]
        simp [hP', hgid, aget]
  · -- c_pt
    intro t ht htv hTt hPt
    rcases List.mem_append.mp htv with htv | htv
    · obtain ⟨h1, h2, h3⟩ := inv.c_pt t ht htv hTt hPt
      exact ⟨hkeep _ _ h1, hkeep _ _ h2, hkeep _ _ h3⟩
    · simp only [List.mem_singleton] at htv
      exact absurd htv (hnotw t ht hTt)
  · -- c_getter
    intro w' hw' hv' htr' hne i hi
    rcases List.mem_append.mp hv' with hv' | hv'
    · exact hkeep _ _ (inv.c_getter w' hw' hv' htr' hne i hi)
    · simp only [List.mem_singleton] at hv'
      have : w' = w := eq_of_nodup_map (fun w : Worker => w.uid) (l := g.workers) h.nodup hw' hw hv'
      subst this
      show aget _ (I ++ Lopt ++ [(Key.uid w'.uid, functorObj g A w')] ++ getterEntries g w') = _
      rw [aget_append_right _ (aget_fresh_append (aget_fresh_append (hgt i) (hLnone _ (by simp)))
        (aget_singleton_ne (by simp)))]
      exact getterEntries_get htr' hne hi

end

end ForML.Flow
