/-
Helper lemmas for the header string level of C19 (core Lean only): `str.strip`, the quote-parity
scanner of `cgi._parseparam`, quoted-string escaping vs the two sequential `replace`s of
`cgi.parse_header`, the parameter loop, and the per-range / per-header reading of rendered syntax.
-/
import ForML.Lemmas.C19
import ForML.Model.CodecHeader

namespace ForML.Codec

deriving instance DecidableEq for Except

/-! ### `str.strip` -/

theorem dropWhile_ws_append (w s : Str) (hw : w.all isWs = true) : (w ++ s).dropWhile isWs = s.dropWhile isWs := by
  induction w with
  | nil => rfl
  | cons c r ih =>
    simp only [List.all_cons, Bool.and_eq_true] at hw
    simp [hw.1, ih hw.2]

theorem trim_ws_left (w s : Str) (hw : w.all isWs = true) : trim (w ++ s) = trim s := by
  unfold trim; rw [dropWhile_ws_append w s hw]

theorem all_reverse (w : Str) (p : Char → Bool) : w.reverse.all p = w.all p := by
  simp [List.all_eq]

theorem dropWhile_nil_of_all (w : Str) (hw : w.all isWs = true) : w.dropWhile isWs = [] := by
  induction w with
  | nil => rfl
  | cons c r ih =>
    simp only [List.all_cons, Bool.and_eq_true] at hw
    simp [hw.1, ih hw.2]

theorem trim_ws_right (s w : Str) (hw : w.all isWs = true) : trim (s ++ w) = trim s := by
  unfold trim
  induction s with
  | nil => simp [dropWhile_nil_of_all w hw]
  | cons c r ih =>
    by_cases hc : isWs c = true
    · simp only [List.cons_append, List.dropWhile_cons, hc, if_true]; exact ih
    · simp only [List.cons_append, List.dropWhile_cons, hc]
      simp only [Bool.false_eq_true, if_false]
      rw [← List.cons_append, List.reverse_append, dropWhile_ws_append _ _ (by rw [all_reverse]; exact hw)]

theorem trim_ws (w : Str) (hw : w.all isWs = true) : trim w = [] := by
  have := trim_ws_right [] w hw
  simpa [trim] using this

/-- `tight` unfolded: first and last character exist and are not white space -/
theorem tight_iff (s : Str) : tight s = true ↔ ∃ a b, s.head? = some a ∧ s.getLast? = some b ∧ isWs a = false ∧ isWs b = false := by
  unfold tight
  cases h1 : s.head? <;> cases h2 : s.getLast? <;> simp

theorem trim_tight (s : Str) (h : tight s = true) : trim s = s := by
  obtain ⟨a, b, ha, hb, hwa, hwb⟩ := (tight_iff s).mp h
  unfold trim
  cases s with
  | nil => simp at ha
  | cons c r =>
    simp at ha; subst ha
    have h1 : (c :: r).dropWhile isWs = c :: r := by simp [hwa]
    rw [h1]
    have hl : (c :: r).reverse.head? = some b := by rw [List.head?_reverse]; exact hb
    cases hrev : (c :: r).reverse with
    | nil => simp at hrev
    | cons x t =>
      rw [hrev] at hl; simp at hl; subst hl
      have : (x :: t).dropWhile isWs = x :: t := by simp [hwb]
      rw [this, ← hrev, List.reverse_reverse]

theorem tight_ne_nil (s : Str) (h : tight s = true) : s ≠ [] := by
  intro hs; subst hs; simp [tight] at h

/-- a text that starts with a tight text's first character and ends with a non-blank is tight -/
theorem tight_append_last (s t : Str) (b : Char) (hs : tight s = true) (hb : isWs b = false) :
    tight (s ++ t ++ [b]) = true := by
  obtain ⟨a, _, ha, _, hwa, _⟩ := (tight_iff s).mp hs
  rw [tight_iff]
  refine ⟨a, b, ?_, ?_, hwa, hb⟩
  · cases s with
    | nil => simp at ha
    | cons c r => simpa using ha
  · simp

theorem tight_append_tight (s m t : Str) (hs : tight s = true) (ht : tight t = true) : tight (s ++ m ++ t) = true := by
  obtain ⟨_, b', _, hb', _, hwb⟩ := (tight_iff t).mp ht
  obtain ⟨ys, rfl⟩ := List.getLast?_eq_some_iff.mp hb'
  have := tight_append_last s (m ++ ys) b' hs hwb
  simpa [List.append_assoc] using this

/-! ### the quote-parity scanner of `cgi._parseparam` -/

/-- quote parity after scanning `s` from the state `(prev, q)` -/
def scanQ : Option Char → Bool → Str → Bool
  | _, q, [] => q
  | prev, q, c :: r => scanQ (some c) (if c == '"' && prev != some '\\' then !q else q) r

/-- no `;` of `s` is a separator when scanning from `(prev, q)` -/
def noCut : Option Char → Bool → Str → Bool
  | _, _, [] => true
  | prev, q, c :: r => !(c == ';' && !q) && noCut (some c) (if c == '"' && prev != some '\\' then !q else q) r

/-- previous character after scanning `s` -/
def scanPrev (prev : Option Char) (s : Str) : Option Char :=
  match s.getLast? with
  | some c => some c
  | none => prev

theorem scanPrev_cons (prev : Option Char) (c : Char) (r : Str) : scanPrev prev (c :: r) = scanPrev (some c) r := by
  unfold scanPrev
  cases r with
  | nil => rfl
  | cons d t =>
    rw [List.getLast?_cons_cons]
    cases h : (d :: t).getLast? with
    | none => simp at h
    | some x => rfl

/-- a stretch without separator is accumulated as it stands -/
theorem splitParams_seg (seg rest acc : Str) (prev : Option Char) (q : Bool) (h : noCut prev q seg = true) :
    splitParams prev q (seg ++ rest) acc = splitParams (scanPrev prev seg) (scanQ prev q seg) rest (seg.reverse ++ acc) := by
  induction seg generalizing prev q acc with
  | nil => simp [scanPrev, scanQ]
  | cons c r ih =>
    rw [noCut] at h
    obtain ⟨h1, h2⟩ := (Bool.and_eq_true _ _).mp h
    rw [Bool.not_eq_true'] at h1
    rw [List.cons_append, splitParams, h1, ih _ _ _ h2, scanPrev_cons, scanQ]
    simp

theorem noCut_append (a b : Str) (prev : Option Char) (q : Bool) :
    noCut prev q (a ++ b) = (noCut prev q a && noCut (scanPrev prev a) (scanQ prev q a) b) := by
  induction a generalizing prev q with
  | nil => simp [noCut, scanPrev, scanQ]
  | cons c r ih => simp only [List.cons_append, noCut, ih, scanPrev_cons, scanQ, Bool.and_assoc]

theorem scanQ_append (a b : Str) (prev : Option Char) (q : Bool) :
    scanQ prev q (a ++ b) = scanQ (scanPrev prev a) (scanQ prev q a) b := by
  induction a generalizing prev q with
  | nil => simp [scanPrev, scanQ]
  | cons c r ih => simp only [List.cons_append, scanQ, ih, scanPrev_cons]

theorem scanPrev_append (a b : Str) (prev : Option Char) : scanPrev prev (a ++ b) = scanPrev (scanPrev prev a) b := by
  induction a generalizing prev with
  | nil => simp [scanPrev]
  | cons c r ih => simp only [List.cons_append, scanPrev_cons, ih]

/-- neither separator nor quote -/
def quiet (c : Char) : Bool := c != ';' && c != '"'

theorem quiet_scan (s : Str) (prev : Option Char) (q : Bool) (h : s.all quiet = true) :
    noCut prev q s = true ∧ scanQ prev q s = q := by
  induction s generalizing prev with
  | nil => simp [noCut, scanQ]
  | cons c r ih =>
    simp only [List.all_cons, Bool.and_eq_true, quiet, bne_iff_ne, ne_eq] at h
    obtain ⟨⟨h1, h2⟩, hr⟩ := h
    have := ih (some c) hr
    simp [noCut, scanQ, h1, h2, this]

theorem ws_quiet (w : Str) (h : w.all isWs = true) : w.all quiet = true := by
  rw [List.all_eq_true] at *
  intro c hc
  have := h c hc
  simp only [quiet, Bool.and_eq_true, bne_iff_ne, ne_eq]
  constructor <;> (intro e; subst e; simp [isWs] at this)

theorem nospecial_quiet (s : Str) (h : s.all (fun c => !special c) = true) : s.all quiet = true := by
  rw [List.all_eq_true] at *
  intro c hc
  have := h c hc
  simp only [special, Bool.not_eq_true', Bool.or_eq_false_iff, beq_eq_false_iff_ne, ne_eq] at this
  simp [quiet, this.1.2, this.2]

/-! ### quoted-string bodies -/

theorem escape_getLast? (v : Str) : (escape v).getLast? = v.getLast? := by
  induction v with
  | nil => rfl
  | cons c r ih =>
    cases r with
    | nil => by_cases h : (c == '\\' || c == '"') = true <;> simp [escape, h]
    | cons d t =>
      have hne : escape (d :: t) ≠ [] := by
        simp only [escape]; split <;> simp
      simp only [escape] at *
      split
      · rw [List.getLast?_cons_cons, List.getLast?_cons_of_ne_nil (by simpa [escape] using hne), ih]
        simp [List.getLast?_cons_cons]
      · rw [List.getLast?_cons_of_ne_nil (by simpa [escape] using hne), ih]
        simp [List.getLast?_cons_cons]

/-- inside a quoted-string (parity odd) nothing cuts and the parity stays odd, whatever came before -/
theorem escape_scan (v : Str) (prev : Option Char) : noCut prev true (escape v) = true ∧ scanQ prev true (escape v) = true := by
  induction v generalizing prev with
  | nil => simp [escape, noCut, scanQ]
  | cons c r ih =>
    simp only [escape]
    by_cases hb : c = '\\'
    · subst hb
      have := ih (some '\\')
      simp [noCut, scanQ, this]
    · by_cases hq : c = '"'
      · subst hq
        have := ih (some '"')
        simp [noCut, scanQ, this]
      · have := ih (some c)
        simp [hb, hq, noCut, scanQ, this]

/-- a whole quoted-string read from even parity, after a character other than `\`, ends at even parity
without a cut — provided the value does not end with a backslash -/
theorem quoted_scan (v : Str) (prev : Option Char) (hprev : prev ≠ some '\\') (hlast : v.getLast? ≠ some '\\') :
    noCut prev false ('"' :: escape v ++ ['"']) = true ∧ scanQ prev false ('"' :: escape v ++ ['"']) = false := by
  have hesc := escape_scan v (some '"')
  have hp : scanPrev (some '"') (escape v) ≠ some '\\' := by
    unfold scanPrev
    rw [escape_getLast?]
    cases hv : v.getLast? with
    | none => simp
    | some c => simp; intro e; subst e; exact hlast hv
  have hopen : (('"' : Char) == '"' && prev != some '\\') = true := by simp [hprev]
  have hclose : (('"' : Char) == '"' && scanPrev (some '"') (escape v) != some '\\') = true := by simp [hp]
  rw [List.cons_append]
  constructor
  · rw [noCut, hopen]
    simp only [if_true, Bool.not_false]
    rw [noCut_append, hesc.1, hesc.2]
    simp [noCut]
  · rw [scanQ, hopen]
    simp only [if_true, Bool.not_false]
    rw [scanQ_append, hesc.2, scanQ, hclose]
    simp [scanQ]

/-- first `replace`: `\\` → `\` leaves exactly the quotes escaped -/
def escapeQuotes : Str → Str
  | [] => []
  | c :: r => if c == '"' then '\\' :: '"' :: escapeQuotes r else c :: escapeQuotes r

theorem replace2_cons_ne (a b to c : Char) (s : Str) (h : c ≠ a) : replace2 a b to (c :: s) = c :: replace2 a b to s := by
  cases s with
  | nil => simp [replace2]
  | cons d r => simp [replace2, h]

theorem replace2_cons_next (a b to d : Char) (s : Str) (h : d ≠ b) :
    replace2 a b to (a :: d :: s) = a :: replace2 a b to (d :: s) := by
  simp [replace2, h]

theorem replace_backslashes (v : Str) : replace2 '\\' '\\' '\\' (escape v) = escapeQuotes v := by
  induction v with
  | nil => rfl
  | cons c r ih =>
    simp only [escape, escapeQuotes]
    by_cases hb : c = '\\'
    · subst hb; simp [replace2, ih]
    · by_cases hq : c = '"'
      · subst hq
        simp only [beq_self_eq_true, Bool.or_true, if_true]
        rw [replace2_cons_next _ _ _ _ _ (by decide), replace2_cons_ne _ _ _ _ _ (by decide), ih]
      · have hc : (c == '\\' || c == '"') = false := by simp [hb, hq]
        have hc' : (c == '"') = false := by simp [hq]
        rw [hc, hc']
        simp only [Bool.false_eq_true, if_false]
        rw [replace2_cons_ne _ _ _ _ _ hb, ih]

theorem escapeQuotes_head (v : Str) : (escapeQuotes v).head? ≠ some '"' := by
  cases v with
  | nil => simp [escapeQuotes]
  | cons c r =>
    simp only [escapeQuotes]
    split
    · simp
    · rename_i h; simp at h; simpa using h

theorem replace_quotes (v : Str) : replace2 '\\' '"' '"' (escapeQuotes v) = v := by
  induction v with
  | nil => rfl
  | cons c r ih =>
    simp only [escapeQuotes]
    by_cases hq : c = '"'
    · subst hq; simp [replace2, ih]
    · simp only [hq, beq_iff_eq, if_false]
      by_cases hb : c = '\\'
      · subst hb
        cases he : escapeQuotes r with
        | nil =>
          rw [he] at ih
          simp [replace2] at ih ⊢
          exact ih
        | cons d t =>
          have hd : d ≠ '"' := by
            have := escapeQuotes_head r
            rw [he] at this; simpa using this
          rw [replace2_cons_next _ _ _ _ _ hd, ← he, ih]
      · rw [replace2_cons_ne _ _ _ _ _ hb, ih]

/-- `cgi.parse_header`'s un-quoting inverts the quoted-string writer -/
theorem unquote_quoted (v : Str) : unquote ('"' :: escape v ++ ['"']) = v := by
  unfold unquote
  have h1 : ('"' :: escape v ++ ['"']).length ≥ 2 := by simp
  have h2 : ('"' :: escape v ++ ['"']).head? = some '"' := rfl
  have h3 : ('"' :: escape v ++ ['"']).getLast? = some '"' := by
    rw [List.getLast?_eq_some_iff]; exact ⟨'"' :: escape v, rfl⟩
  have h4 : (List.drop 1 ('"' :: escape v ++ ['"'])).dropLast = escape v := by simp
  simp only [h1, h2, h3, h4, decide_true, beq_self_eq_true, Bool.and_self, if_true]
  rw [replace_backslashes, replace_quotes]

/-- a token (no quote in it) is left alone -/
theorem unquote_token (v : Str) (h : v.all (fun c => !special c) = true) : unquote v = v := by
  unfold unquote
  cases v with
  | nil => simp
  | cons c r =>
    simp only [List.all_cons, Bool.and_eq_true, special, Bool.not_eq_true', Bool.or_eq_false_iff,
      beq_eq_false_iff_ne, ne_eq] at h
    have : ¬ c = '"' := h.1.2
    simp [this]

/-! ### one parameter as written -/

theorem ws_ne (c : Char) (h : isWs c = true) : c ≠ '\\' ∧ c ≠ '=' ∧ c ≠ ',' ∧ c ≠ ';' ∧ c ≠ '"' := by
  refine ⟨?_, ?_, ?_, ?_, ?_⟩ <;> (intro e; subst e; simp [isWs] at h)

theorem scanPrev_ws (prev : Option Char) (w : Str) (hw : w.all isWs = true) (hp : prev ≠ some '\\') :
    scanPrev prev w ≠ some '\\' := by
  unfold scanPrev
  cases h : w.getLast? with
  | none => exact hp
  | some c =>
    have hc : c ∈ w := List.mem_of_getLast? h
    have := (ws_ne c (List.all_eq_true.mp hw c hc)).1
    simpa using this

theorem wfRfc_of_wf_param (p : ParamSpec) (h : p.wf = true) : p.wfRfc = true := by
  cases p with
  | flag pre w1 text => exact h
  | kv pre w1 name w2 w3 value quoted =>
    cases quoted
    · exact h
    · simp only [ParamSpec.wf, ParamSpec.wfRfc, Bool.and_eq_true, if_true] at h ⊢
      exact ⟨h.1, h.2.2⟩

theorem wfRfc_of_wf (r : RangeSpec) (h : r.wf = true) : r.wfRfc = true := by
  simp only [RangeSpec.wf, RangeSpec.wfRfc, Bool.and_eq_true, List.all_eq_true] at h ⊢
  exact ⟨h.1, fun p hp => wfRfc_of_wf_param p (h.2 p hp)⟩

theorem tight_quoted (v : Str) : tight ('"' :: escape v ++ ['"']) = true := by
  rw [tight_iff]
  exact ⟨'"', '"', rfl, by rw [List.getLast?_eq_some_iff]; exact ⟨'"' :: escape v, rfl⟩, by decide, by decide⟩

/-- the value text is empty or tight -/
theorem valueText_tight (value : Str) (quoted : Bool)
    (h : (if quoted then true else (value.isEmpty || tight value)) = true) :
    (valueText value quoted).isEmpty = true ∨ tight (valueText value quoted) = true := by
  cases quoted
  · simp only [Bool.false_eq_true, if_false, Bool.or_eq_true] at h
    simpa [valueText] using h
  · right; simp only [valueText, if_true]; exact tight_quoted value

/-- scanning a parameter body from the state after its `;`: no cut, even parity at the end -/
theorem body_scan (p : ParamSpec) (hwf : p.wfRfc = true) :
    noCut none false p.body = true ∧ scanQ none false p.body = false := by
  cases p with
  | flag pre w1 text =>
    simp only [ParamSpec.wfRfc, Bool.and_eq_true] at hwf
    obtain ⟨⟨⟨_, hw1⟩, htext⟩, _⟩ := hwf
    have hq : (ParamSpec.flag pre w1 text).body.all quiet = true := by
      simp only [ParamSpec.body]
      split
      · rfl
      · rw [List.all_append, ws_quiet w1 hw1, Bool.true_and]
        refine nospecial_quiet text ?_
        rw [List.all_eq_true] at htext ⊢
        intro c hc; have := htext c hc; simp only [Bool.and_eq_true] at this; exact this.1
    exact quiet_scan _ none false hq
  | kv pre w1 name w2 w3 value quoted =>
    simp only [ParamSpec.wfRfc, Bool.and_eq_true] at hwf
    obtain ⟨⟨⟨⟨⟨⟨_, hw1⟩, hw2⟩, hw3⟩, _⟩, hname⟩, hval⟩ := hwf
    have hnameq : name.all quiet = true := by
      refine nospecial_quiet name ?_
      rw [List.all_eq_true] at hname ⊢
      intro c hc; have := hname c hc; simp only [Bool.and_eq_true] at this; exact this.1
    have hpre : (w1 ++ name ++ w2 ++ ['=']).all quiet = true := by
      simp only [List.all_append, ws_quiet w1 hw1, hnameq, ws_quiet w2 hw2, Bool.true_and]
      decide
    cases quoted with
    | false =>
      simp only [Bool.false_eq_true, if_false, Bool.and_eq_true] at hval
      have hq : (ParamSpec.kv pre w1 name w2 w3 value false).body.all quiet = true := by
        simp only [ParamSpec.body, valueText, Bool.false_eq_true, if_false]
        have hv := nospecial_quiet value hval.1
        have : w1 ++ name ++ w2 ++ '=' :: (if value.isEmpty = true then [] else w3 ++ value)
            = (w1 ++ name ++ w2 ++ ['=']) ++ (if value.isEmpty = true then [] else w3 ++ value) := by simp
        rw [this, List.all_append, hpre, Bool.true_and]
        split
        · rfl
        · rw [List.all_append, ws_quiet w3 hw3, hv]; rfl
      exact quiet_scan _ none false hq
    | true =>
      simp only [if_true] at hval
      have hlast : value.getLast? ≠ some '\\' := by simpa using hval
      have hbody : (ParamSpec.kv pre w1 name w2 w3 value true).body
          = (w1 ++ name ++ w2 ++ ['='] ++ w3) ++ ('"' :: escape value ++ ['"']) := by
        simp [ParamSpec.body, valueText]
      have hP : (w1 ++ name ++ w2 ++ ['='] ++ w3).all quiet = true := by
        rw [List.all_append, hpre, ws_quiet w3 hw3]; rfl
      have hPs := quiet_scan _ none false hP
      have hprev : scanPrev none (w1 ++ name ++ w2 ++ ['='] ++ w3) ≠ some '\\' := by
        rw [scanPrev_append]
        refine scanPrev_ws _ w3 hw3 ?_
        rw [scanPrev_append]
        simp [scanPrev]
      have hQ := quoted_scan value _ hprev hlast
      rw [hbody, noCut_append (w1 ++ name ++ w2 ++ ['='] ++ w3), scanQ_append (w1 ++ name ++ w2 ++ ['='] ++ w3),
        hPs.1, hPs.2, hQ.1, hQ.2]
      exact ⟨rfl, rfl⟩

/-- `_parseparam` over the rendered parameters: the current part is closed (stripped), then one
stripped part per parameter -/
theorem splitParams_params (ps : List ParamSpec) (hwf : ∀ p ∈ ps, p.wfRfc = true) (prev : Option Char) (acc : Str) :
    splitParams prev false (ps.flatMap ParamSpec.render) acc = trim acc.reverse :: ps.map (fun p => trim p.body) := by
  induction ps generalizing prev acc with
  | nil => simp [splitParams]
  | cons p ps ih =>
    have hp := hwf p (by simp)
    have hpre : p.pre.all isWs = true := by
      cases p <;> simp only [ParamSpec.wfRfc, Bool.and_eq_true] at hp <;> simp [ParamSpec.pre, hp]
    have h1 := quiet_scan p.pre prev false (ws_quiet _ hpre)
    have h2 := body_scan p hp
    have hflat : (p :: ps).flatMap ParamSpec.render = p.pre ++ (';' :: (p.body ++ ps.flatMap ParamSpec.render)) := by
      simp [List.flatMap_cons, ParamSpec.render]
    rw [hflat, splitParams_seg _ _ _ _ _ h1.1, h1.2, splitParams]
    simp only [beq_self_eq_true, Bool.not_false, Bool.and_self, if_true]
    rw [splitParams_seg _ _ _ _ _ h2.1, h2.2, ih (fun q hq => hwf q (List.mem_cons_of_mem _ hq))]
    simp [trim_ws_right _ _ hpre]

theorem splitEq_append (a b : Str) (h : ∀ c ∈ a, c ≠ '=') : splitEq (a ++ '=' :: b) = some (a, b) := by
  induction a with
  | nil => simp [splitEq]
  | cons c r ih =>
    have hc : c ≠ '=' := h c (by simp)
    simp [splitEq, hc, ih (fun d hd => h d (List.mem_cons_of_mem _ hd))]

theorem splitEq_none (s : Str) (h : ∀ c ∈ s, c ≠ '=') : splitEq s = none := by
  induction s with
  | nil => rfl
  | cons c r ih =>
    have hc : c ≠ '=' := h c (by simp)
    simp [splitEq, hc, ih (fun d hd => h d (List.mem_cons_of_mem _ hd))]

/-- one turn of the parameter loop of `cgi.parse_header` -/
def paramStep (d : Options) (p : Str) : Options :=
  match splitEq p with
  | none => d
  | some (n, v) => setOpt (lower (trim n)) (unquote (trim v)) d

theorem paramDict_eq (parts : List Str) : paramDict parts = parts.foldl paramStep [] := rfl

/-- one turn of the dictionary a range means -/
def semStep (d : Options) (p : ParamSpec) : Options :=
  match p.sem with
  | none => d
  | some (k, v) => setOpt k v d

theorem opts_eq (r : RangeSpec) : r.opts = r.params.foldl semStep [] := rfl

/-- one turn of the parameter loop of `cgi.parse_header` on a rendered parameter does what the parameter means -/
theorem param_step (p : ParamSpec) (hwf : p.wfRfc = true) (d : Options) :
    paramStep d (trim p.body) = semStep d p := by
  unfold paramStep semStep
  cases p with
  | flag pre w1 text =>
    simp only [ParamSpec.wfRfc, Bool.and_eq_true] at hwf
    obtain ⟨⟨⟨_, hw1⟩, htext⟩, htight⟩ := hwf
    have hne : ∀ c ∈ text, c ≠ '=' := by
      intro c hc
      have := List.all_eq_true.mp htext c hc
      simp only [Bool.and_eq_true, bne_iff_ne, ne_eq] at this; exact this.2
    have htrim : trim (ParamSpec.flag pre w1 text).body = text := by
      simp only [ParamSpec.body]
      split
      · rename_i he; simp at he; subst he; rfl
      · rename_i he
        rw [trim_ws_left _ _ hw1]
        simp only [he, Bool.false_or] at htight
        exact trim_tight _ htight
    rw [htrim, splitEq_none text hne]; rfl
  | kv pre w1 name w2 w3 value quoted =>
    simp only [ParamSpec.wfRfc, Bool.and_eq_true] at hwf
    obtain ⟨⟨⟨⟨⟨⟨_, hw1⟩, hw2⟩, hw3⟩, hnt⟩, hname⟩, hval⟩ := hwf
    have hne : ∀ c ∈ name ++ w2, c ≠ '=' := by
      intro c hc
      rcases List.mem_append.mp hc with h | h
      · have := List.all_eq_true.mp hname c h
        simp only [Bool.and_eq_true, bne_iff_ne, ne_eq] at this; exact this.2
      · exact (ws_ne c (List.all_eq_true.mp hw2 c h)).2.1
    have hvt : (valueText value quoted).isEmpty = true ∨ tight (valueText value quoted) = true := by
      apply valueText_tight
      cases quoted
      · simp only [Bool.false_eq_true, if_false, Bool.and_eq_true] at hval ⊢; exact hval.2
      · rfl
    have hun : unquote (valueText value quoted) = value := by
      cases quoted
      · simp only [Bool.false_eq_true, if_false, Bool.and_eq_true] at hval
        exact unquote_token value hval.1
      · exact unquote_quoted value
    -- the stripped body
    have htrim : trim (ParamSpec.kv pre w1 name w2 w3 value quoted).body
        = (name ++ w2) ++ '=' :: (if (valueText value quoted).isEmpty then [] else w3 ++ valueText value quoted) := by
      simp only [ParamSpec.body]
      rw [List.append_assoc, List.append_assoc, trim_ws_left _ _ hw1, ← List.append_assoc]
      apply trim_tight
      rcases hvt with he | ht
      · simp only [he, if_true]
        have := tight_append_last name w2 '=' hnt (by decide)
        simpa [List.append_assoc] using this
      · have hne' : (valueText value quoted).isEmpty = false := by
          cases hv : valueText value quoted with
          | nil => rw [hv] at ht; simp [tight] at ht
          | cons _ _ => rfl
        simp only [hne', Bool.false_eq_true, if_false]
        have := tight_append_tight name (w2 ++ '=' :: w3) _ hnt ht
        simpa [List.append_assoc] using this
    rw [htrim, splitEq_append _ _ hne]
    have h1 : trim (name ++ w2) = name := by rw [trim_ws_right _ _ hw2]; exact trim_tight _ hnt
    have h2 : trim (if (valueText value quoted).isEmpty then [] else w3 ++ valueText value quoted) = valueText value quoted := by
      rcases hvt with he | ht
      · simp only [he, if_true]
        have : valueText value quoted = [] := by simpa using he
        rw [this]; rfl
      · have hne' : (valueText value quoted).isEmpty = false := by
          cases hv : valueText value quoted with
          | nil => rw [hv] at ht; simp [tight] at ht
          | cons _ _ => rfl
        simp only [hne', Bool.false_eq_true, if_false]
        rw [trim_ws_left _ _ hw3]; exact trim_tight _ ht
    simp only [h1, h2, hun, ParamSpec.sem]

/-- the parameter loop over the rendered parameters builds the dictionary the range means -/
theorem paramDict_params (ps : List ParamSpec) (hwf : ∀ p ∈ ps, p.wfRfc = true) :
    paramDict (ps.map (fun p => trim p.body)) = ps.foldl semStep [] := by
  rw [paramDict_eq]
  generalize ([] : Options) = d0
  induction ps generalizing d0 with
  | nil => rfl
  | cons p ps ih =>
    simp only [List.map_cons, List.foldl_cons]
    rw [param_step p (hwf p (by simp)) d0]
    exact ih (fun q hq => hwf q (List.mem_cons_of_mem _ hq)) _

/-! ### one range, the whole header -/

/-- `cgi.parse_header` on a rendered range (without its outer white space) -/
theorem parseHeader_core (r : RangeSpec) (hwf : r.wfRfc = true) : parseHeader r.core = (r.kind, r.opts) := by
  simp only [RangeSpec.wfRfc, Bool.and_eq_true, List.all_eq_true] at hwf
  obtain ⟨⟨⟨⟨_, _⟩, hkt⟩, hks⟩, hps⟩ := hwf
  have hk := quiet_scan r.kind none false (nospecial_quiet r.kind (List.all_eq_true.mpr hks))
  unfold parseHeader RangeSpec.core
  rw [splitParams_seg _ _ _ _ _ hk.1, hk.2, splitParams_params _ hps]
  simp only [List.append_nil, List.reverse_reverse]
  rw [trim_tight _ hkt, paramDict_params _ hps, opts_eq]

/-- last character of a rendered parameter: not white space -/
theorem render_last (p : ParamSpec) (hwf : p.wfRfc = true) : ∃ t b, p.render = t ++ [b] ∧ isWs b = false := by
  cases p with
  | flag pre w1 text =>
    simp only [ParamSpec.wfRfc, Bool.and_eq_true] at hwf
    obtain ⟨⟨⟨_, _⟩, _⟩, htight⟩ := hwf
    simp only [ParamSpec.render, ParamSpec.pre, ParamSpec.body]
    split
    · exact ⟨pre, ';', rfl, by decide⟩
    · rename_i he
      simp only [he, Bool.false_or] at htight
      obtain ⟨_, b, _, hb, _, hwb⟩ := (tight_iff text).mp htight
      obtain ⟨ys, rfl⟩ := List.getLast?_eq_some_iff.mp hb
      exact ⟨pre ++ ';' :: (w1 ++ ys), b, by simp, hwb⟩
  | kv pre w1 name w2 w3 value quoted =>
    simp only [ParamSpec.wfRfc, Bool.and_eq_true] at hwf
    obtain ⟨⟨_, _⟩, hval⟩ := hwf
    have hvt : (valueText value quoted).isEmpty = true ∨ tight (valueText value quoted) = true := by
      apply valueText_tight
      cases quoted
      · simp only [Bool.false_eq_true, if_false, Bool.and_eq_true] at hval ⊢; exact hval.2
      · rfl
    simp only [ParamSpec.render, ParamSpec.pre, ParamSpec.body]
    rcases hvt with he | ht
    · simp only [he, if_true]
      exact ⟨pre ++ ';' :: (w1 ++ name ++ w2), '=', by simp, by decide⟩
    · have hne' : (valueText value quoted).isEmpty = false := by
        cases hv : valueText value quoted with
        | nil => rw [hv] at ht; simp [tight] at ht
        | cons _ _ => rfl
      simp only [hne', Bool.false_eq_true, if_false]
      obtain ⟨_, b, _, hb, _, hwb⟩ := (tight_iff _).mp ht
      obtain ⟨ys, hys⟩ := List.getLast?_eq_some_iff.mp hb
      rw [hys]
      exact ⟨pre ++ ';' :: (w1 ++ name ++ w2 ++ '=' :: (w3 ++ ys)), b, by simp, hwb⟩

theorem tight_core (r : RangeSpec) (hwf : r.wfRfc = true) : tight r.core = true := by
  have hwf' := hwf
  simp only [RangeSpec.wfRfc, Bool.and_eq_true, List.all_eq_true] at hwf
  obtain ⟨⟨⟨⟨_, _⟩, hkt⟩, _⟩, hps⟩ := hwf
  unfold RangeSpec.core
  rcases List.eq_nil_or_concat r.params with hnil | ⟨ps, p, hcat⟩
  · rw [hnil]; simpa using hkt
  · rw [hcat, List.concat_eq_append, List.flatMap_append]
    obtain ⟨t, b, hr, hb⟩ := render_last p (hps p (by rw [hcat]; simp))
    simp only [List.flatMap_cons, List.flatMap_nil, List.append_nil, hr]
    have := tight_append_last r.kind (List.flatMap ParamSpec.render ps ++ t) b hkt hb
    simpa [List.append_assoc] using this

/-- stripping a rendered range leaves its core -/
theorem trim_render (r : RangeSpec) (hwf : r.wfRfc = true) : trim r.render = r.core := by
  have ht := tight_core r hwf
  simp only [RangeSpec.wfRfc, Bool.and_eq_true] at hwf
  obtain ⟨⟨⟨⟨hw0, hwe⟩, _⟩, _⟩, _⟩ := hwf
  unfold RangeSpec.render
  rw [trim_ws_right _ _ hwe, trim_ws_left _ _ hw0, trim_tight _ ht]

/-- one item of the comma-separated list is read as the range it renders -/
theorem range1_render (r : RangeSpec) (hwf : r.wfRfc = true) : range1 (trim r.render) = r.range := by
  rw [trim_render r hwf]
  unfold range1 RangeSpec.range
  rw [parseHeader_core r hwf]
  simp only []
  cases getOpt ['q'] r.opts with
  | none => rfl
  | some v => cases parseQ v <;> rfl

theorem rangesOf_render (rs : List RangeSpec) (hwf : ∀ r ∈ rs, r.wfRfc = true) :
    rangesOf (rs.map (fun r => trim r.render)) = specRanges rs := by
  induction rs with
  | nil => rfl
  | cons r rs ih =>
    simp only [List.map_cons, rangesOf, specRanges]
    rw [range1_render r (hwf r (by simp)), ih (fun q hq => hwf q (List.mem_cons_of_mem _ hq))]
    cases r.range with
    | error e => rfl
    | ok x => cases specRanges rs <;> rfl

/-! ### no comma in a well-formed rendering -/

def noComma (s : Str) : Bool := s.all (fun c => c != ',')

theorem noComma_ws (w : Str) (h : w.all isWs = true) : noComma w = true := by
  unfold noComma
  rw [List.all_eq_true] at *
  intro c hc
  simpa using (ws_ne c (h c hc)).2.2.1

theorem noComma_nospecial (s : Str) (p : Char → Bool) (h : s.all (fun c => !special c && p c) = true) : noComma s = true := by
  unfold noComma
  rw [List.all_eq_true] at *
  intro c hc
  have := h c hc
  simp only [special, Bool.and_eq_true, Bool.not_eq_true', Bool.or_eq_false_iff, beq_eq_false_iff_ne, ne_eq] at this
  simpa using this.1.1.1

theorem noComma_nospecial' (s : Str) (h : s.all (fun c => !special c) = true) : noComma s = true := by
  apply noComma_nospecial s (fun _ => true)
  simpa using h

theorem noComma_escape (v : Str) (h : noComma v = true) : noComma (escape v) = true := by
  unfold noComma at *
  induction v with
  | nil => rfl
  | cons c r ih =>
    simp only [List.all_cons, Bool.and_eq_true] at h
    simp only [escape]
    split <;> simp [h.1, ih h.2]

theorem noComma_append (a b : Str) : noComma (a ++ b) = (noComma a && noComma b) := by
  simp [noComma, List.all_append]

theorem noComma_param (p : ParamSpec) (hwf : p.wf = true) : noComma p.render = true := by
  cases p with
  | flag pre w1 text =>
    simp only [ParamSpec.wf, Bool.and_eq_true] at hwf
    obtain ⟨⟨⟨hpre, hw1⟩, htext⟩, _⟩ := hwf
    simp only [ParamSpec.render, ParamSpec.pre, ParamSpec.body]
    have h3 := noComma_nospecial text _ htext
    split
    · rw [noComma_append, noComma_ws _ hpre]; rfl
    · rw [noComma_append, noComma_ws _ hpre, Bool.true_and]
      show noComma ([';'] ++ (w1 ++ text)) = true
      rw [noComma_append, noComma_append, noComma_ws _ hw1, h3]; rfl
  | kv pre w1 name w2 w3 value quoted =>
    simp only [ParamSpec.wf, Bool.and_eq_true] at hwf
    obtain ⟨⟨⟨⟨⟨⟨hpre, hw1⟩, hw2⟩, hw3⟩, _⟩, hname⟩, hval⟩ := hwf
    have hn := noComma_nospecial name _ hname
    have hv : noComma (valueText value quoted) = true := by
      cases quoted
      · simp only [Bool.false_eq_true, if_false, Bool.and_eq_true] at hval
        simpa [valueText] using noComma_nospecial' value hval.1
      · simp only [if_true, Bool.and_eq_true] at hval
        have := noComma_escape value hval.1
        simp only [valueText, if_true]
        show noComma (['"'] ++ escape value ++ ['"']) = true
        rw [noComma_append, noComma_append, this]; rfl
    have htail : noComma (if (valueText value quoted).isEmpty then [] else w3 ++ valueText value quoted) = true := by
      split
      · rfl
      · rw [noComma_append, noComma_ws _ hw3, hv]; rfl
    simp only [ParamSpec.render, ParamSpec.pre, ParamSpec.body]
    have e : ∀ X : Str, pre ++ ';' :: (w1 ++ name ++ w2 ++ '=' :: X) = pre ++ ([';'] ++ (w1 ++ name ++ w2 ++ (['='] ++ X))) := by
      intro X; simp
    rw [e]
    simp only [noComma_append, noComma_ws _ hpre, noComma_ws _ hw1, noComma_ws _ hw2, hn, htail, Bool.true_and]
    rfl

theorem noComma_render (r : RangeSpec) (hwf : r.wf = true) : noComma r.render = true := by
  simp only [RangeSpec.wf, Bool.and_eq_true] at hwf
  obtain ⟨⟨⟨⟨hw0, hwe⟩, _⟩, hks⟩, hps⟩ := hwf
  have hpar : noComma (r.params.flatMap ParamSpec.render) = true := by
    unfold noComma
    rw [List.all_flatMap, List.all_eq_true]
    rw [List.all_eq_true] at hps
    intro p hp
    exact noComma_param p (hps p hp)
  unfold RangeSpec.render RangeSpec.core
  simp only [noComma_append, noComma_ws _ hw0, noComma_ws _ hwe, noComma_nospecial' r.kind hks, hpar, Bool.true_and]

/-- the comma split takes a well-formed header apart into its rendered ranges -/
theorem splitCsv_render (rs : List RangeSpec) (hne : rs ≠ []) (hwf : ∀ r ∈ rs, r.wf = true) :
    splitCsv (renderHeader rs) = rs.map (fun r => trim r.render) := by
  unfold splitCsv renderHeader
  rw [splitOn_join ',' _ (by simpa using hne)]
  · simp [List.map_map]
  · intro c hc
    obtain ⟨r, hr, rfl⟩ := List.mem_map.mp hc
    have := noComma_render r (hwf r hr)
    unfold noComma at this
    intro hmem
    have := List.all_eq_true.mp this ',' hmem
    simp at this

/-- **reading back the concrete syntax**: for every non-empty list of well-formed ranges, written with any
white space, any case of the parameter names, token or quoted-string values, parameters without `=`
and repeated names, the tokenisation + `cgi.parse_header` + `float(q)` of `Encoding.parse` yields exactly the
ranges that were written (or the `ValueError` of the first `q` that is not a number) -/
theorem ranges_render (rs : List RangeSpec) (hne : rs ≠ []) (hwf : ∀ r ∈ rs, r.wf = true) :
    ranges (renderHeader rs) = specRanges rs := by
  unfold ranges
  rw [splitCsv_render rs hne hwf, rangesOf_render rs (fun r hr => wfRfc_of_wf r (hwf r hr))]

/-! ### quality spellings (`float(q)` on the grammar slice) -/

theorem trim_decomp (s : Str) : ∃ w1 w2, w1.all isWs = true ∧ w2.all isWs = true ∧ s = w1 ++ trim s ++ w2 := by
  refine ⟨s.takeWhile isWs, ((s.dropWhile isWs).reverse.takeWhile isWs).reverse, List.all_takeWhile, ?_, ?_⟩
  · rw [all_reverse]; exact List.all_takeWhile
  · unfold trim
    have h1 : s = s.takeWhile isWs ++ s.dropWhile isWs := List.takeWhile_append_dropWhile.symm
    have h2 : (s.dropWhile isWs).reverse
        = (s.dropWhile isWs).reverse.takeWhile isWs ++ (s.dropWhile isWs).reverse.dropWhile isWs :=
      List.takeWhile_append_dropWhile.symm
    have h3 : s.dropWhile isWs
        = ((s.dropWhile isWs).reverse.dropWhile isWs).reverse ++ ((s.dropWhile isWs).reverse.takeWhile isWs).reverse := by
      rw [← List.reverse_append, ← h2, List.reverse_reverse]
    rw [List.append_assoc, ← h3, ← h1]

theorem digit_ne (c : Char) (h : isDigit c = true) : c ≠ '.' ∧ c ≠ '-' ∧ c ≠ '+' ∧ isWs c = false := by
  simp only [isDigit, Bool.and_eq_true, decide_eq_true_eq] at h
  have h1 : '0'.val ≤ c.val := h.1
  have h2 : c.val ≤ '9'.val := h.2
  refine ⟨?_, ?_, ?_, ?_⟩
  · intro e; subst e; revert h1; decide
  · intro e; subst e; revert h1; decide
  · intro e; subst e; revert h1; decide
  · cases hw : isWs c
    · rfl
    · exfalso
      simp only [isWs, Bool.or_eq_true, beq_iff_eq] at hw
      rcases hw with ((((((((h | h) | h) | h) | h) | h) | h) | h) | h) | h <;> (subst h; revert h1; decide)

theorem digits_no_dot (i : Str) (h : i.all isDigit = true) : '.' ∉ i := by
  intro hm
  exact (digit_ne '.' (List.all_eq_true.mp h _ hm)).1 rfl

theorem joinWith_splitOn (sep : Char) (s : Str) : joinWith sep (splitOn sep s) = s := by
  induction s with
  | nil => rfl
  | cons c r ih =>
    simp only [splitOn]
    split
    · rename_i hc
      have : c = sep := by simpa using hc
      subst this
      cases hs : splitOn c r with
      | nil => exact absurd hs (splitOn_ne_nil c r)
      | cons p ps => rw [hs] at ih; simp [joinWith, ih]
    · cases hs : splitOn sep r with
      | nil => exact absurd hs (splitOn_ne_nil sep r)
      | cons p ps =>
        rw [hs] at ih
        cases ps with
        | nil => simp [joinWith] at ih ⊢; exact ih
        | cons p2 ps2 => simp only [joinWith] at ih ⊢; rw [← ih]; rfl

/-- unsigned part: digits, optionally a point and up to three more digits -/
theorem parseQAbs_int (i : Str) (hi : i.all isDigit = true) (hne : i.length ≥ 1) :
    parseQAbs i = some (digitsVal i * 1000) := by
  unfold parseQAbs
  rw [splitOn_free '.' i (digits_no_dot i hi)]
  simp [hi, hne]

theorem parseQAbs_frac (i f : Str) (hi : i.all isDigit = true) (hf : f.all isDigit = true)
    (hne : i.length + f.length ≥ 1) (h3 : f.length ≤ 3) :
    parseQAbs (i ++ '.' :: f) = some (digitsVal i * 1000 + digitsVal f * 10 ^ (3 - f.length)) := by
  unfold parseQAbs
  rw [splitOn_append '.' i f (digits_no_dot i hi), splitOn_free '.' f (digits_no_dot f hf)]
  simp [hi, hf, hne, h3]

/-- converse: whatever `parseQAbs` accepts is of one of the two forms -/
theorem parseQAbs_some (s : Str) (n : Nat) (h : parseQAbs s = some n) :
    (s.all isDigit = true ∧ s.length ≥ 1 ∧ n = digitsVal s * 1000) ∨
    (∃ i f, s = i ++ '.' :: f ∧ i.all isDigit = true ∧ f.all isDigit = true ∧ i.length + f.length ≥ 1 ∧ f.length ≤ 3 ∧
      n = digitsVal i * 1000 + digitsVal f * 10 ^ (3 - f.length)) := by
  unfold parseQAbs at h
  have hj := joinWith_splitOn '.' s
  split at h
  · rename_i i hs
    rw [hs] at hj; simp only [joinWith] at hj; subst hj
    split at h
    · rename_i hc
      simp only [Bool.and_eq_true, decide_eq_true_eq] at hc
      left; exact ⟨hc.2, hc.1, by simpa using h.symm⟩
    · cases h
  · rename_i i f hs
    rw [hs] at hj; simp only [joinWith] at hj
    split at h
    · rename_i hc
      simp only [Bool.and_eq_true, decide_eq_true_eq] at hc
      right
      exact ⟨i, f, hj.symm, hc.1.1.1, hc.1.1.2, hc.1.2, hc.2, by simpa using h.symm⟩
    · cases h
  · cases h

/-- the sign dispatch of `parseQ` on the stripped text -/
def signMatch (t : Str) : Option Int :=
  match t with
  | '-' :: r => (parseQAbs r).map (fun n => - (n : Int))
  | '+' :: r => (parseQAbs r).map (fun n => (n : Int))
  | r => (parseQAbs r).map (fun n => (n : Int))

theorem parseQ_eq (s : Str) : parseQ s = signMatch (trim s) := rfl

theorem signMatch_unsigned (c : Char) (r : Str) (h1 : c ≠ '-') (h2 : c ≠ '+') :
    signMatch (c :: r) = (parseQAbs (c :: r)).map (fun n => (n : Int)) := by
  unfold signMatch
  split
  · rename_i heq; cases heq; exact absurd rfl h1
  · rename_i heq; cases heq; exact absurd rfl h2
  · rfl

theorem parseQ_unsigned (s : Str) (c : Char) (r : Str) (h : trim s = c :: r) (h1 : c ≠ '-') (h2 : c ≠ '+') :
    parseQ s = (parseQAbs (c :: r)).map (fun n => (n : Int)) := by
  rw [parseQ_eq, h, signMatch_unsigned c r h1 h2]

theorem qspec_abs (s : QSpec) (h : s.wf = true) : parseQAbs s.abs = some s.absValue := by
  unfold QSpec.wf at h
  unfold QSpec.abs QSpec.absValue
  cases hf : s.frac with
  | none =>
    rw [hf] at h
    simp only [Bool.and_eq_true, decide_eq_true_eq] at h
    simp only [List.append_nil, Nat.add_zero]
    exact parseQAbs_int _ h.1.2 h.2
  | some f =>
    rw [hf] at h
    simp only [Bool.and_eq_true, decide_eq_true_eq] at h
    exact parseQAbs_frac _ _ h.1.2 h.2.1.1 h.2.1.2 h.2.2

/-- first and last character of the unsigned text: a digit or the point -/
theorem qspec_abs_tight (s : QSpec) (h : s.wf = true) :
    ∃ c r, s.abs = c :: r ∧ c ≠ '-' ∧ c ≠ '+' ∧ tight s.abs = true := by
  have hdot : isWs '.' = false := by decide
  unfold QSpec.wf at h
  have hd : ∀ c ∈ s.abs, isDigit c = true ∨ c = '.' := by
    intro c hc
    unfold QSpec.abs at hc
    cases hf : s.frac with
    | none =>
      rw [hf] at h hc
      simp only [Bool.and_eq_true] at h
      simp only [List.append_nil] at hc
      exact Or.inl (List.all_eq_true.mp h.1.2 c hc)
    | some f =>
      rw [hf] at h hc
      simp only [Bool.and_eq_true] at h
      rcases List.mem_append.mp hc with h' | h'
      · exact Or.inl (List.all_eq_true.mp h.1.2 c h')
      · rcases List.mem_cons.mp h' with h'' | h''
        · exact Or.inr h''
        · exact Or.inl (List.all_eq_true.mp h.2.1.1 c h'')
  have hne : s.abs ≠ [] := by
    unfold QSpec.abs
    cases hf : s.frac with
    | none =>
      rw [hf] at h
      simp only [Bool.and_eq_true, decide_eq_true_eq] at h
      intro e; simp only [List.append_nil] at e; rw [e] at h; simp at h
    | some f => simp
  have hnw : ∀ c ∈ s.abs, isWs c = false ∧ c ≠ '-' ∧ c ≠ '+' := by
    intro c hc
    rcases hd c hc with h' | h'
    · have := digit_ne c h'; exact ⟨this.2.2.2, this.2.1, this.2.2.1⟩
    · subst h'; exact ⟨hdot, by decide, by decide⟩
  cases habs : s.abs with
  | nil => exact absurd habs hne
  | cons c r =>
    refine ⟨c, r, rfl, (hnw c (by rw [habs]; simp)).2.1, (hnw c (by rw [habs]; simp)).2.2, ?_⟩
    rw [tight_iff]
    have hl : (c :: r).getLast? = some ((c :: r).getLast (by simp)) := List.getLast?_eq_some_getLast _
    refine ⟨c, (c :: r).getLast (by simp), rfl, hl, (hnw c (by rw [habs]; simp)).1, ?_⟩
    exact (hnw _ (by rw [habs]; exact List.getLast_mem _)).1

/-- **`float(q)` on the spellings of the grammar**: white space, optional sign, digits, optional point with up
to three decimals — the key is the number written, in thousandths -/
theorem parseQ_render (s : QSpec) (h : s.wf = true) : parseQ s.render = some s.value := by
  obtain ⟨c, r, habs, hc1, hc2, htight⟩ := qspec_abs_tight s h
  have hq := qspec_abs s h
  have hw : s.w1.all isWs = true ∧ s.w2.all isWs = true := by
    unfold QSpec.wf at h
    simp only [Bool.and_eq_true] at h
    exact ⟨h.1.1.1, h.1.1.2⟩
  have hrender : s.render = s.w1 ++ (QSpec.signText s.sign ++ s.abs) ++ s.w2 := by
    unfold QSpec.render QSpec.abs; simp only [List.append_assoc]
  have hval : s.value = if s.sign == some true then - (s.absValue : Int) else (s.absValue : Int) := rfl
  cases hs : s.sign with
  | none =>
    have ht : trim s.render = c :: r := by
      rw [hrender, hs, trim_ws_right _ _ hw.2, trim_ws_left _ _ hw.1]
      simp only [QSpec.signText, List.nil_append]
      rw [trim_tight _ htight, habs]
    rw [parseQ_unsigned _ c r ht hc1 hc2, ← habs, hq, hval, hs]
    rfl
  | some neg =>
    have hsg : tight (QSpec.signText (some neg) ++ s.abs) = true := by
      obtain ⟨_, b, _, hb, _, hwb⟩ := (tight_iff _).mp htight
      rw [tight_iff]
      cases neg
      · exact ⟨'+', b, rfl, by simp only [QSpec.signText, List.singleton_append]; rw [habs] at hb ⊢; simpa [List.getLast?_cons_cons] using hb, by decide, hwb⟩
      · exact ⟨'-', b, rfl, by simp only [QSpec.signText, List.singleton_append]; rw [habs] at hb ⊢; simpa [List.getLast?_cons_cons] using hb, by decide, hwb⟩
    have ht : trim s.render = QSpec.signText (some neg) ++ s.abs := by
      rw [hrender, hs, trim_ws_right _ _ hw.2, trim_ws_left _ _ hw.1, trim_tight _ hsg]
    rw [parseQ_eq, ht, hval, hs]
    cases neg
    · simp only [QSpec.signText, List.singleton_append, signMatch, hq]; rfl
    · simp only [QSpec.signText, List.singleton_append, signMatch, hq]; rfl

/-- converse (the error mapping is exact): what `float(q)` accepts on the slice is a well-formed spelling, so the
`ValueError` is raised exactly for the texts outside the grammar -/
theorem parseQ_some (s : Str) (q : Int) (h : parseQ s = some q) : ∃ spec : QSpec, spec.wf = true ∧ s = spec.render ∧ q = spec.value := by
  obtain ⟨w1, w2, hw1, hw2, hs⟩ := trim_decomp s
  have mk : ∀ (sign : Option Bool) (r : Str) (n : Nat), parseQAbs r = some n →
      ∃ i fr, (QSpec.mk w1 sign i fr w2).wf = true ∧ r = (QSpec.mk w1 sign i fr w2).abs ∧ n = (QSpec.mk w1 sign i fr w2).absValue := by
    intro sign r n hn
    rcases parseQAbs_some r n hn with ⟨hd, hl, hv⟩ | ⟨i, f, hr, hi, hf, hl, h3, hv⟩
    · exact ⟨r, none, by simp [QSpec.wf, hw1, hw2, hd, hl], by simp [QSpec.abs], by simp [QSpec.absValue, hv]⟩
    · exact ⟨i, some f, by simp [QSpec.wf, hw1, hw2, hi, hf, hl, h3], by simp [QSpec.abs, hr], by simp [QSpec.absValue, hv]⟩
  rw [parseQ_eq] at h
  unfold signMatch at h
  split at h
  · rename_i r ht
    cases hn : parseQAbs r with
    | none => rw [hn] at h; cases h
    | some n =>
      rw [hn] at h; simp at h
      obtain ⟨i, fr, hwf, hr, hv⟩ := mk (some true) r n hn
      refine ⟨⟨w1, some true, i, fr, w2⟩, hwf, ?_, ?_⟩
      · rw [hs, ht, hr]; simp [QSpec.render, QSpec.abs, QSpec.signText, List.append_assoc]
      · rw [← h, hv]; rfl
  · rename_i r ht
    cases hn : parseQAbs r with
    | none => rw [hn] at h; cases h
    | some n =>
      rw [hn] at h; simp at h
      obtain ⟨i, fr, hwf, hr, hv⟩ := mk (some false) r n hn
      refine ⟨⟨w1, some false, i, fr, w2⟩, hwf, ?_, ?_⟩
      · rw [hs, ht, hr]; simp [QSpec.render, QSpec.abs, QSpec.signText, List.append_assoc]
      · rw [← h, hv]; rfl
  · cases hn : parseQAbs (trim s) with
    | none => rw [hn] at h; cases h
    | some n =>
      rw [hn] at h; simp at h
      obtain ⟨i, fr, hwf, hr, hv⟩ := mk none (trim s) n hn
      refine ⟨⟨w1, none, i, fr, w2⟩, hwf, ?_, ?_⟩
      · conv => lhs; rw [hs, hr]
        simp [QSpec.render, QSpec.abs, QSpec.signText, List.append_assoc]
      · rw [← h, hv]; rfl

theorem digitsVal_snoc (f : Str) (c : Char) : digitsVal (f ++ [c]) = 10 * digitsVal f + (c.toNat - '0'.toNat) := by
  simp [digitsVal, List.foldl_append]

theorem digitsVal_zero_cons (i : Str) : digitsVal ('0' :: i) = digitsVal i := by
  simp [digitsVal]

/-! ### `Encoding.header`, the gateway in normal form -/

theorem header_eq_render (e : Encoding) : e.header = renderHeader [e.spec] := by
  unfold Encoding.header renderHeader Encoding.spec RangeSpec.render RangeSpec.core
  simp only [List.map_cons, List.map_nil, joinWith, List.nil_append, List.append_nil]
  have key : ∀ opts : Options, opts ≠ [] →
      (opts.map (fun kv => ParamSpec.kv [] [' '] kv.1 [] [] kv.2 false)).flatMap ParamSpec.render
        = [';', ' '] ++ joinStr [';', ' '] (opts.map fun kv => kv.1 ++ '=' :: kv.2) := by
    intro opts
    induction opts with
    | nil => intro h; exact absurd rfl h
    | cons kv r ih =>
      intro _
      have hone : (ParamSpec.kv [] [' '] kv.1 [] [] kv.2 false).render = [';', ' '] ++ (kv.1 ++ '=' :: kv.2) := by
        simp only [ParamSpec.render, ParamSpec.pre, ParamSpec.body, valueText, Bool.false_eq_true, if_false,
          List.nil_append, List.append_nil]
        cases kv.2 <;> simp
      cases r with
      | nil => simp only [List.map_cons, List.map_nil, List.flatMap_cons, List.flatMap_nil, hone, joinStr, List.append_nil]
      | cons kv2 r2 =>
        have := ih (by simp)
        simp only [List.map_cons, List.flatMap_cons, joinStr, hone] at this ⊢
        rw [this]; simp [List.append_assoc]
  cases ho : e.options with
  | nil => simp
  | cons kv r =>
    have := key (kv :: r) (by simp)
    simp only [List.isEmpty_cons, Bool.false_eq_true, if_false]
    rw [this, List.append_assoc]

theorem gateway_eq (encoders decoders : List Encoding) (ct accept : Option Str) :
    gateway encoders decoders ct accept =
      match parse (ct.getD defaultContentType) with
      | .error _ => .serverError
      | .ok [] => .serverError
      | .ok (enc :: _) =>
        match acceptedOf enc accept with
        | .error _ => .serverError
        | .ok accs => serve encoders decoders enc accs := by
  unfold gateway requestOf acceptedOf
  cases parse (ct.getD defaultContentType) with
  | error e => rfl
  | ok es =>
    cases es with
    | nil => rfl
    | cons enc rest =>
      cases accept with
      | none => rfl
      | some a =>
        by_cases ha : a.isEmpty = true
        · simp [ha]
        · simp only [ha, Bool.false_eq_true, if_false]
          cases parse a <;> rfl

end ForML.Codec
