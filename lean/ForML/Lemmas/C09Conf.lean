/-
Helper lemmas for C09, pools built from the configuration (`ForML.Model.MatcherConf`): dict pops / updates as list
lookups, what `Feed._extract` yields, membership of the pool built through `Multi._lookup`.  Core Lean only.
-/
import ForML.Model.MatcherConf
import ForML.Lemmas.C09

namespace ForML.Matcher

open ForML.Dsl

/-! ### dicts as association lists -/

theorem lookup_filter_key {β : Type} (p : String → Bool) (k : String) :
    ∀ l : List (String × β), (l.filter (fun e => p e.1)).lookup k = if p k then l.lookup k else none
  | [] => by simp [List.lookup]
  | (a, b) :: l => by
    have ih := lookup_filter_key (β := β) p k l
    by_cases hka : k = a
    · subst hka
      cases hp : p k
      · simp [List.filter, hp, ih]
      · simp [List.filter, hp, List.lookup]
    · have hne : (k == a) = false := by simpa using hka
      cases hp : p a
      · simp [List.filter, hp, ih, List.lookup, hne]
      · simp [List.filter, hp, ih, List.lookup, hne]

theorem lookup_popKey (k k' : String) (kw : Options) :
    (popKey k kw).lookup k' = if k' = k then none else kw.lookup k' := by
  unfold popKey
  rw [lookup_filter_key (fun x => x != k)]
  by_cases h : k' = k <;> simp [h]

theorem lookup_append' {β : Type} (k : String) :
    ∀ a b : List (String × β), (a ++ b).lookup k = match a.lookup k with | some v => some v | none => b.lookup k
  | [], b => by simp [List.lookup]
  | (x, y) :: a, b => by
    have ih := lookup_append' (β := β) k a b
    by_cases h : k = x
    · subst h; simp [List.lookup]
    · have hne : (k == x) = false := by simpa using h
      simp [List.lookup, hne, ih]

theorem lookup_update (kw other : Options) (k : String) :
    (update kw other).lookup k = match other.lookup k with | some v => some v | none => kw.lookup k := by
  unfold update
  rw [lookup_append', lookup_filter_key (fun x => (other.lookup x).isNone)]
  cases h : other.lookup k
  · cases kw.lookup k <;> simp
  · simp

theorem lookup_map_scalar (k : String) :
    ∀ ps : List (String × Scalar), (ps.map (fun e => (e.1, Val.scalar e.2))).lookup k = (ps.lookup k).map Val.scalar
  | [] => by simp [List.lookup]
  | (a, b) :: ps => by
    have ih := lookup_map_scalar k ps
    by_cases h : k = a
    · subst h; simp [List.lookup]
    · have hne : (k == a) = false := by simpa using h
      simp [List.lookup, hne, ih]

/-! ### `Feed._extract` -/

/-- the slot priority is the section's own `priority` option (0 when absent) -/
theorem feedExtract_priority {ref : String} {kw : Options} {d : Descriptor} (h : feedExtract ref kw = .ok d) :
    configuredPriority kw = .scalar (.num d.priority) := by
  unfold feedExtract at h
  unfold configuredPriority
  cases hp : providerExtract ref (popKey "priority" kw) with
  | error e => simp [hp] at h
  | ok pr =>
    obtain ⟨prov, rest⟩ := pr
    simp only [hp] at h
    cases hq : (kw.lookup "priority").getD (.scalar (.num 0)) with
    | table t => simp [hq] at h
    | scalar v =>
      cases v with
      | text s => simp [hq] at h
      | num n =>
        simp only [hq] at h
        cases prov with
        | table t => simp at h
        | scalar pv =>
          cases pv with
          | num m => simp at h
          | text p =>
            simp only [Except.ok.injEq] at h
            subst h
            rfl

/-- what `Section._extract` hands on, as a mapping -/
theorem sectionExtract_lookup {kw rest : Options} (h : sectionExtract kw = .ok rest) (k : String) :
    rest.lookup k =
      match kw.lookup "params" with
      | some (.table ps) =>
        (match ps.lookup k with
         | some v => some (.scalar v)
         | none => if k = "params" then none else kw.lookup k)
      | _ => if k = "params" then none else kw.lookup k := by
  unfold sectionExtract at h
  cases hp : kw.lookup "params" with
  | none =>
    simp only [hp, Except.ok.injEq] at h
    subst h
    by_cases hk : k = "params"
    · subst hk; simp [hp]
    · simp [hk]
  | some v =>
    cases v with
    | table ps =>
      simp only [hp, Except.ok.injEq] at h
      subst h
      rw [lookup_update, lookup_map_scalar, lookup_popKey]
      cases hq : ps.lookup k <;> simp [hq]
    | scalar sv =>
      cases sv with
      | num n => simp [hp] at h
      | text s =>
        simp only [hp] at h
        by_cases hs : s = ""
        · simp only [hs, if_true, Except.ok.injEq] at h
          subst h
          rw [lookup_popKey]
        · simp [hs] at h

/-- the keyword arguments the feed constructor receives, as a mapping: the `params` sub-table first, the section's
own generic options otherwise -/
theorem feedExtract_params {ref : String} {kw : Options} {d : Descriptor} (h : feedExtract ref kw = .ok d)
    (k : String) : d.params.lookup k = ctorSpec kw k := by
  unfold feedExtract at h
  cases hp : providerExtract ref (popKey "priority" kw) with
  | error e => simp [hp] at h
  | ok pr =>
    obtain ⟨prov, rest⟩ := pr
    have hrest : d.params = rest := by
      simp only [hp] at h
      split at h
      · split at h
        · simp only [Except.ok.injEq] at h; subst h; rfl
        · simp at h
      · simp at h
      · simp at h
    unfold providerExtract at hp
    cases hs : sectionExtract (popKey "provider" (popKey "priority" kw)) with
    | error e => simp [hs] at hp
    | ok r =>
      simp only [hs, Except.ok.injEq, Prod.mk.injEq] at hp
      obtain ⟨_, hr⟩ := hp
      subst hr
      rw [hrest, sectionExtract_lookup hs k]
      have hpar : (popKey "provider" (popKey "priority" kw)).lookup "params" = kw.lookup "params" := by
        rw [lookup_popKey, lookup_popKey]; simp
      have hk : (popKey "provider" (popKey "priority" kw)).lookup k =
          if k = "provider" then none else if k = "priority" then none else kw.lookup k := by
        rw [lookup_popKey, lookup_popKey]
      rw [hpar, hk]
      unfold ctorSpec reserved
      have hown : (if k = "params" then none else if k = "provider" then none else if k = "priority" then none
            else kw.lookup k) =
          (if ["priority", "provider", "params"].contains k then none else kw.lookup k) := by
        by_cases h1 : k = "params"
        · subst h1; simp
        · by_cases h2 : k = "provider"
          · subst h2; simp
          · by_cases h3 : k = "priority"
            · subst h3; simp
            · simp [h1, h2, h3]
      cases hq : kw.lookup "params" with
      | none => simpa using hown
      | some v =>
        cases v with
        | scalar sv => simpa using hown
        | table ps =>
          simp only
          cases ps.lookup k with
          | some v => rfl
          | none => simpa using hown

/-! ### slots and pools -/

/-- the slot the code builds for a member is the slot of its property-shaped reading -/
theorem slotOf_spec {m : Member} {f : Slot} (h : slotOf m = .ok f) : m.slotSpec = some f := by
  cases m with
  | inst S =>
    simp only [slotOf, Except.ok.injEq] at h
    subst h; rfl
  | conf ref sec provider =>
    unfold slotOf descriptorOf at h
    cases sec with
    | none => simp at h
    | some kw =>
      simp only at h
      cases hd : feedExtract ref kw with
      | error e => simp [hd] at h
      | ok d =>
        simp only [hd, Except.ok.injEq] at h
        subst h
        simp only [Member.slotSpec, feedExtract_priority hd]
        have : (fun k => d.params.lookup k) = ctorSpec kw := funext (feedExtract_params hd)
        rw [this]

theorem poolSingle_spec : ∀ {members : List Member} {pool : Pool}, poolSingle members = .ok pool →
    members.map Member.slotSpec = pool.map some
  | [], pool, h => by
    simp only [poolSingle, Except.ok.injEq] at h
    subst h; rfl
  | m :: ms, pool, h => by
    unfold poolSingle at h
    cases hm : slotOf m with
    | error e => simp [hm] at h
    | ok x =>
      cases hr : poolSingle ms with
      | error e => simp [hm, hr] at h
      | ok xs =>
        simp only [hm, hr, Except.ok.injEq] at h
        subst h
        simp [slotOf_spec hm, poolSingle_spec hr]

theorem poolSingle_error : ∀ {members : List Member} {e : ConfErr}, poolSingle members = .error e →
    ∃ m ∈ members, slotOf m = .error e
  | [], e, h => by simp [poolSingle] at h
  | m :: ms, e, h => by
    unfold poolSingle at h
    cases hm : slotOf m with
    | error e' =>
      simp only [hm, Except.error.injEq] at h
      subst h
      exact ⟨m, by simp, hm⟩
    | ok x =>
      cases hr : poolSingle ms with
      | error e' =>
        simp only [hm, hr, Except.error.injEq] at h
        subst h
        obtain ⟨m', hm', he⟩ := poolSingle_error hr
        exact ⟨m', by simp [hm'], he⟩
      | ok xs => simp [hm, hr] at h

theorem poolSingle_get {members : List Member} {pool : Pool} (h : poolSingle members = .ok pool) (i : Nat) :
    (members[i]?).bind Member.slotSpec = pool[i]? := by
  have hs := poolSingle_spec h
  have := congrArg (fun l => l[i]?) hs
  simp only [List.getElem?_map] at this
  cases hm : members[i]? with
  | none =>
    simp only [hm, Option.map_none] at this
    cases hp : pool[i]? with
    | none => simp
    | some f => simp [hp] at this
  | some m =>
    simp only [hm, Option.map_some] at this
    cases hp : pool[i]? with
    | none => simp [hp] at this
    | some f =>
      simp only [hp, Option.map_some, Option.some.injEq] at this
      simpa using this

/-! ### arguments given by their reference string -/

/-- the answer of `Importer.match` on a pool of descriptors / instances in the vocabulary of `matchArgsLegacy` -/
def liftMatch : Except ConfErr (Except MatchError Nat) → Except ConfErr (Except ArgErr Nat)
  | .error e => .error e
  | .ok (.ok i) => .ok (.ok i)
  | .ok (.error _) => .ok (.error .missing)

theorem argPool_eq : ∀ (args : List Arg), argPool args = poolSingle (args.map Arg.toMember)
  | [] => rfl
  | a :: as => by
    simp only [argPool, argSlot, List.map_cons, poolSingle, argPool_eq as]

theorem matchArgs_eq (args : List Arg) (s : Source) : matchArgs args s = matchConf (args.map Arg.toMember) s := by
  unfold matchArgs matchConf
  rw [argPool_eq]

/-! ### `Multi._lookup`: the sorted descriptors are the same descriptors -/

theorem mem_insertAsc (x z : Tagged) (l : List Tagged) : z ∈ insertAsc x l ↔ z = x ∨ z ∈ l := by
  induction l with
  | nil => simp [insertAsc]
  | cons y ys ih =>
    simp only [insertAsc]
    split
    · simp only [List.mem_cons, ih]
      constructor
      · rintro (h | h | h) <;> simp [h]
      · rintro (h | h | h) <;> simp [h]
    · simp [List.mem_cons]

theorem mem_sortAsc (z : Tagged) : ∀ l : List Tagged, z ∈ sortAsc l ↔ z ∈ l
  | [] => by simp [sortAsc]
  | x :: xs => by simp [sortAsc, mem_insertAsc, mem_sortAsc z xs]

/-- the slot of a sorted descriptor -/
def Tagged.entry (t : Tagged) : Nat × Slot := (t.idx, ⟨.fin t.desc.priority, t.sources⟩)

theorem splitFrom_spec : ∀ (members : List Member) (i : Nat) (is : List (Nat × Slot)) (ds : List Tagged),
    splitFrom i members = .ok (is, ds) →
    ∀ z : Nat × Slot, (z ∈ is ∨ ∃ t ∈ ds, t.entry = z) ↔
      ∃ k m, members[k]? = some m ∧ z.1 = i + k ∧ m.slotSpec = some z.2
  | [], i, is, ds, h, z => by
    simp only [splitFrom, Except.ok.injEq, Prod.mk.injEq] at h
    obtain ⟨rfl, rfl⟩ := h
    simp
  | m :: ms, i, is, ds, h, z => by
    unfold splitFrom at h
    cases m with
    | inst S =>
      simp only at h
      cases hr : splitFrom (i + 1) ms with
      | error e => simp [hr] at h
      | ok pr =>
        obtain ⟨is', ds'⟩ := pr
        simp only [hr, Except.ok.injEq, Prod.mk.injEq] at h
        obtain ⟨rfl, rfl⟩ := h
        have ih := splitFrom_spec ms (i + 1) is' ds' hr z
        constructor
        · rintro (hz | hz)
          · rcases List.mem_cons.mp hz with rfl | hz
            · exact ⟨0, .inst S, by simp, by simp, rfl⟩
            · obtain ⟨k, m, hk, he, hs⟩ := ih.mp (Or.inl hz)
              exact ⟨k + 1, m, by simpa using hk, by omega, hs⟩
          · obtain ⟨k, m, hk, he, hs⟩ := ih.mp (Or.inr hz)
            exact ⟨k + 1, m, by simpa using hk, by omega, hs⟩
        · rintro ⟨k, m, hk, he, hs⟩
          cases k with
          | zero =>
            simp only [List.getElem?_cons_zero, Option.some.injEq] at hk
            subst hk
            simp only [Member.slotSpec, Option.some.injEq] at hs
            left
            obtain ⟨a, b⟩ := z
            simp only at he hs
            subst hs
            simp [he]
          | succ k =>
            have := ih.mpr ⟨k, m, by simpa using hk, by omega, hs⟩
            rcases this with h1 | h1
            · exact Or.inl (List.mem_cons_of_mem _ h1)
            · exact Or.inr h1
    | conf ref sec provider =>
      simp only at h
      cases hd : descriptorOf ref sec with
      | error e => simp [hd] at h
      | ok d =>
        cases hr : splitFrom (i + 1) ms with
        | error e => simp [hd, hr] at h
        | ok pr =>
          obtain ⟨is', ds'⟩ := pr
          simp only [hd, hr, Except.ok.injEq, Prod.mk.injEq] at h
          obtain ⟨rfl, rfl⟩ := h
          have ih := splitFrom_spec ms (i + 1) is' ds' hr z
          have hslot : (Member.conf ref sec provider).slotSpec =
              some ⟨.fin d.priority, provider (fun k => d.params.lookup k)⟩ :=
            slotOf_spec (by simp [slotOf, hd])
          constructor
          · rintro (hz | ⟨t, ht, hz⟩)
            · obtain ⟨k, m, hk, he, hs⟩ := ih.mp (Or.inl hz)
              exact ⟨k + 1, m, by simpa using hk, by omega, hs⟩
            · rcases List.mem_cons.mp ht with rfl | ht
              · refine ⟨0, .conf ref sec provider, by simp, ?_, ?_⟩
                · rw [← hz]; simp [Tagged.entry]
                · rw [hslot, ← hz]; simp [Tagged.entry]
              · obtain ⟨k, m, hk, he, hs⟩ := ih.mp (Or.inr ⟨t, ht, hz⟩)
                exact ⟨k + 1, m, by simpa using hk, by omega, hs⟩
          · rintro ⟨k, m, hk, he, hs⟩
            cases k with
            | zero =>
              simp only [List.getElem?_cons_zero, Option.some.injEq] at hk
              subst hk
              rw [hslot] at hs
              simp only [Option.some.injEq] at hs
              right
              refine ⟨_, List.mem_cons_self, ?_⟩
              obtain ⟨a, b⟩ := z
              simp only at he hs
              subst hs
              simp [Tagged.entry, he]
            | succ k =>
              have := ih.mpr ⟨k, m, by simpa using hk, by omega, hs⟩
              rcases this with h1 | ⟨t, ht, hz⟩
              · exact Or.inl h1
              · exact Or.inr ⟨t, List.mem_cons_of_mem _ ht, hz⟩

/-- the arguments `io.Importer` receives through `setup.Feed.resolve` are the members of the pool, each once, with
the priority and the sources of its property-shaped reading -/
theorem mem_poolMulti {members : List Member} {tagged : List (Nat × Slot)} (h : poolMulti members = .ok tagged)
    (z : Nat × Slot) : z ∈ tagged ↔ (members[z.1]?).bind Member.slotSpec = some z.2 := by
  unfold poolMulti at h
  cases hs : splitFrom 0 members with
  | error e => simp [hs] at h
  | ok pr =>
    obtain ⟨is, ds⟩ := pr
    simp only [hs, Except.ok.injEq] at h
    subst h
    have hspec := splitFrom_spec members 0 is ds hs z
    have hmap : z ∈ (sortAsc ds).map (fun t => (t.idx, (⟨.fin t.desc.priority, t.sources⟩ : Slot))) ↔
        ∃ t ∈ ds, t.entry = z := by
      simp only [List.mem_map, mem_sortAsc, Tagged.entry]
    rw [List.mem_append, hmap, hspec]
    constructor
    · rintro ⟨k, m, hk, he, hs'⟩
      have : z.1 = k := by omega
      rw [this, hk]
      simpa using hs'
    · intro hb
      cases hm : members[z.1]? with
      | none => simp [hm] at hb
      | some m =>
        rw [hm] at hb
        exact ⟨z.1, m, hm, by omega, by simpa using hb⟩

end ForML.Matcher
