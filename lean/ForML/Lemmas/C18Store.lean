/-
C18 helper lemmas: the file-level machine of ForML.Model.ManifestStore (mtimes, bytecode cache) refines the logical
store `Path → Content` as long as no cached module is stale, and the logical store is read-your-writes.
-/
import ForML.Model.ManifestStore

namespace ForML.Store

/-! ### invariants of the file level -/

/-- a cache entry that the import system would accept was compiled from the text that is there -/
def freshDir (d : Dir) : Prop :=
  ∀ c m mt, d.pyc = some c → d.man = some (m, mt) → c.mtime = mt → c.size = m.size → c.code = m

def Fresh (s : Store) : Prop := ∀ p d, s p = some (.dir d) → freshDir d

/-- no bytecode file anywhere -/
def NoPyc (s : Store) : Prop := ∀ p d, s p = some (.dir d) → d.pyc = none

theorem fresh_of_noPyc {s : Store} (h : NoPyc s) : Fresh s := by
  intro p d hp c m mt hc
  rw [h p d hp] at hc
  cases hc

theorem set_get (s : Store) (p q : Path) (e : Entry) : (s.set p e) q = if q = p then some e else s q := rfl
theorem del_get (s : Store) (p q : Path) : (s.del p) q = if q = p then none else s q := rfl
theorem lset_get (s : LStore) (p q : Path) (e : LEntry) : (s.set p e) q = if q = p then some e else s q := rfl
theorem ldel_get (s : LStore) (p q : Path) : (s.del p) q = if q = p then none else s q := rfl

theorem abs_set (s : Store) (p : Path) (e : Entry) : abs (s.set p e) = (abs s).set p (absE e) := by
  funext q
  simp only [abs, set_get, lset_get]
  split <;> rfl

theorem abs_del (s : Store) (p : Path) : abs (s.del p) = (abs s).del p := by
  funext q
  simp only [abs, del_get, ldel_get]
  split <;> rfl

theorem fresh_set {s : Store} (h : Fresh s) (p : Path) (e : Entry) (he : ∀ d, e = .dir d → freshDir d) :
    Fresh (s.set p e) := by
  intro q d hq
  rw [set_get] at hq
  split at hq
  · cases hq; exact he d rfl
  · exact h q d hq

theorem fresh_del {s : Store} (h : Fresh s) (p : Path) : Fresh (s.del p) := by
  intro q d hq
  rw [del_get] at hq
  split at hq
  · cases hq
  · exact h q d hq

theorem noPyc_set {s : Store} (h : NoPyc s) (p : Path) (e : Entry) (he : ∀ d, e = .dir d → d.pyc = none) :
    NoPyc (s.set p e) := by
  intro q d hq
  rw [set_get] at hq
  split at hq
  · cases hq; exact he d rfl
  · exact h q d hq

theorem noPyc_del {s : Store} (h : NoPyc s) (p : Path) : NoPyc (s.del p) := by
  intro q d hq
  rw [del_get] at hq
  split at hq
  · cases hq
  · exact h q d hq

/-! ### the import system on a directory -/

theorem loadDir_man (bc : Bool) (d : Dir) : (loadDir bc d).1.man = d.man := by
  unfold loadDir
  split
  · rfl
  · split
    · split
      · rfl
      · split <;> rfl
    · split <;> rfl

theorem loadDir_tree (bc : Bool) (d : Dir) : (loadDir bc d).1.tree = d.tree := by
  unfold loadDir
  split
  · rfl
  · split
    · split
      · rfl
      · split <;> rfl
    · split <;> rfl

/-- on a fresh directory the import returns the text that is there -/
theorem loadDir_result (bc : Bool) (d : Dir) (h : freshDir d) :
    (loadDir bc d).2 = match d.man with | some (m, _) => .ok m | none => .error .missing := by
  unfold loadDir
  cases hm : d.man with
  | none => rfl
  | some x =>
    obtain ⟨m, mt⟩ := x
    simp only
    cases hc : d.pyc with
    | none => rfl
    | some c =>
      simp only
      split
      · rename_i hv
        simp only [Bool.and_eq_true, beq_iff_eq] at hv
        rw [h c m mt hc hm hv.1 hv.2]
      · rfl

theorem loadDir_fresh (bc : Bool) (d : Dir) (h : freshDir d) : freshDir (loadDir bc d).1 := by
  unfold loadDir
  split
  · exact h
  · rename_i m mt hm
    have hnew : freshDir { d with pyc := some ⟨mt, m.size, m⟩ } := by
      intro c m' mt' hc hm' _ _
      simp only at hc hm'
      cases hc
      rw [hm] at hm'
      cases hm'
      rfl
    split
    · split
      · exact h
      · split
        · exact hnew
        · exact h
    · split
      · exact hnew
      · exact h

theorem loadDir_noPyc (d : Dir) (h : d.pyc = none) : (loadDir false d).1 = d := by
  unfold loadDir
  split
  · rfl
  · rw [h]; rfl

/-! ### `Manifest.read` -/

theorem absE_load (bc : Bool) (d : Dir) : absE (.dir (loadDir bc d).1) = absE (.dir d) := by
  simp only [absE, loadDir_man, loadDir_tree]

theorem readAt_abs (bc : Bool) (s : Store) (p : Path) : abs (readAt bc s p).1 = abs s := by
  unfold readAt
  split
  · rfl
  · rfl
  · rename_i d hd
    simp only
    rw [abs_set, absE_load]
    funext q
    rw [lset_get]
    split
    · rename_i e; subst e; simp [abs, hd]
    · rfl

theorem readAt_result (bc : Bool) (s : Store) (p : Path) (h : Fresh s) : (readAt bc s p).2 = lread (abs s) p := by
  unfold readAt lread abs
  split
  · rename_i hp; simp [hp, lman]
  · rename_i m tr hp; simp [hp, lman, absE]
  · rename_i d hd
    simp only [hd, Option.map, absE, lman]
    rw [loadDir_result bc d (h p d hd)]
    cases d.man with
    | none => rfl
    | some x => rfl

theorem readAt_fresh (bc : Bool) (s : Store) (p : Path) (h : Fresh s) : Fresh (readAt bc s p).1 := by
  unfold readAt
  split
  · exact h
  · exact h
  · rename_i d hd
    apply fresh_set h
    intro d' e
    cases e
    exact loadDir_fresh bc d (h p d hd)

theorem readAt_noPyc (s : Store) (p : Path) (h : NoPyc s) : NoPyc (readAt false s p).1 := by
  unfold readAt
  split
  · exact h
  · exact h
  · rename_i d hd
    apply noPyc_set h
    intro d' e
    cases e
    rw [loadDir_noPyc d (h p d hd)]
    exact h p d hd

/-- reading does not change what a location holds, up to the cache -/
theorem readAt_get (bc : Bool) (s : Store) (p q : Path) :
    ((readAt bc s p).1 q).map absE = (s q).map absE := by
  have := congrFun (readAt_abs bc s p) q
  exact this

theorem treeOf_abs (e : Option Entry) : treeOf e = ltree (e.map absE) := by
  cases e with
  | none => rfl
  | some e => cases e <;> rfl

/-! ### `install` -/

theorem copyTo_abs (s : Store) (src dst : Path) (t : Nat) (m : SM) :
    abs (copyTo s src dst t m).1 = (lcopy (abs s) src dst m).1 ∧ (copyTo s src dst t m).2 = (lcopy (abs s) src dst m).2 := by
  unfold copyTo lcopy
  have hsrc : (abs s) src = (s src).map absE := rfl
  rw [hsrc]
  cases hs : s src with
  | none => exact ⟨rfl, rfl⟩
  | some e =>
    cases e with
    | zip m0 tr =>
      simp only [Option.map, absE]
      split
      · exact ⟨abs_set _ _ _, by first | rfl | trivial⟩
      · exact ⟨abs_set _ _ _, by first | rfl | trivial⟩
    | dir d =>
      simp only [Option.map, absE]
      exact ⟨abs_set _ _ _, by first | rfl | trivial⟩

theorem copyTo_fresh (s : Store) (src dst : Path) (t : Nat) (m : SM) (h : Fresh s) : Fresh (copyTo s src dst t m).1 := by
  unfold copyTo
  split
  · split
    · apply fresh_set h; intro d e; cases e
    · apply fresh_set h
      intro d e
      cases e
      intro c m' mt hc
      cases hc
  · rename_i d hd
    apply fresh_set h
    intro d' e
    cases e
    exact h src d hd
  · exact h

theorem copyTo_noPyc (s : Store) (src dst : Path) (t : Nat) (m : SM) (h : NoPyc s) : NoPyc (copyTo s src dst t m).1 := by
  unfold copyTo
  split
  · split
    · apply noPyc_set h; intro d e; cases e
    · apply noPyc_set h; intro d e; cases e; rfl
  · rename_i d hd
    apply noPyc_set h
    intro d' e
    cases e
    exact h src d hd
  · exact h

/-- `install` at the file level against the logical level, from a fresh store -/
theorem installAt_refines (bc : Bool) (s : Store) (src dst : Path) (t : Nat) (h : Fresh s) :
    (installAt bc s src dst t).2 = (lstep (abs s) (.install src dst t)).2 ∧
    abs (installAt bc s src dst t).1 = (lstep (abs s) (.install src dst t)).1 ∧
    Fresh (installAt bc s src dst t).1 := by
  have h1r := readAt_result bc s src h
  have h1a := readAt_abs bc s src
  have h1f := readAt_fresh bc s src h
  unfold installAt
  simp only [lstep]
  rw [← h1r]
  generalize hr1 : readAt bc s src = r1 at h1r h1a h1f
  obtain ⟨s1, res1⟩ := r1
  simp only at h1r h1a h1f
  cases res1 with
  | error e => exact ⟨rfl, h1a, h1f⟩
  | ok m =>
    simp only
    by_cases hsd : src = dst
    · simp only [hsd, if_true]
      refine ⟨?_, h1a, h1f⟩
      rw [treeOf_abs, ← h1a]
      rfl
    · simp only [hsd, if_false]
      have h2r := readAt_result bc s1 dst h1f
      have h2a := readAt_abs bc s1 dst
      have h2f := readAt_fresh bc s1 dst h1f
      rw [← h1a, ← h2r]
      generalize hr2 : readAt bc s1 dst = r2 at h2r h2a h2f
      obtain ⟨s2, res2⟩ := r2
      simp only at h2r h2a h2f
      have hc := copyTo_abs s2 src dst t m
      rw [h2a] at hc
      cases res2 with
      | error e => exact ⟨hc.2, hc.1, copyTo_fresh s2 src dst t m h2f⟩
      | ok m' =>
        simp only
        split
        · refine ⟨?_, h2a, h2f⟩
          rw [treeOf_abs, ← h2a]
          rfl
        · exact ⟨hc.2, hc.1, copyTo_fresh s2 src dst t m h2f⟩

/-! ### one step and whole histories -/

theorem step_refines (bc : Bool) (s : Store) (op : Op) (h : Fresh s) :
    (step bc s op).2 = (lstep (abs s) op).2 ∧ abs (step bc s op).1 = (lstep (abs s) op).1 ∧ Fresh (step bc s op).1 := by
  cases op with
  | write p m t =>
    simp only [step, lstep]
    have hp : (abs s) p = (s p).map absE := rfl
    rw [hp]
    cases hs : s p with
    | none =>
      refine ⟨rfl, abs_set _ _ _, ?_⟩
      apply fresh_set h
      intro d e
      cases e
      intro c m' mt hc
      cases hc
    | some e =>
      cases e with
      | zip m0 tr => exact ⟨rfl, rfl, h⟩
      | dir d =>
        refine ⟨rfl, abs_set _ _ _, ?_⟩
        apply fresh_set h
        intro d' e
        cases e
        intro c m' mt hc
        cases hc
  | create p m tr =>
    simp only [step, lstep]
    have hp : (abs s) p = (s p).map absE := rfl
    rw [hp]
    cases hs : s p with
    | none =>
      refine ⟨rfl, abs_set _ _ _, ?_⟩
      apply fresh_set h; intro d e; cases e
    | some e =>
      cases e with
      | zip m0 tr0 =>
        refine ⟨rfl, abs_set _ _ _, ?_⟩
        apply fresh_set h; intro d e; cases e
      | dir d => exact ⟨rfl, rfl, h⟩
  | install src dst t => exact installAt_refines bc s src dst t h
  | read p =>
    simp only [step, lstep]
    have hr := readAt_result bc s p h
    have ha := readAt_abs bc s p
    have hf := readAt_fresh bc s p h
    rw [← hr]
    generalize readAt bc s p = r at hr ha hf
    obtain ⟨s1, res⟩ := r
    cases res with
    | ok m => exact ⟨rfl, ha, hf⟩
    | error e => exact ⟨rfl, ha, hf⟩
  | remove p => exact ⟨rfl, abs_del _ _, fresh_del h p⟩

/-- **refinement**: from a fresh store the file-level machine (with the repaired `Manifest.write`) observes exactly what
the logical store `Path → Content` observes — for every history, clock and bytecode setting -/
theorem run_refines (bc : Bool) (h : List Op) : ∀ (s : Store), Fresh s →
    (run bc s h).2 = (lrun (abs s) h).2 ∧ abs (run bc s h).1 = (lrun (abs s) h).1 := by
  induction h with
  | nil => intro s _; exact ⟨rfl, rfl⟩
  | cons op h ih =>
    intro s hf
    obtain ⟨h1, h2, h3⟩ := step_refines bc s op hf
    obtain ⟨i1, i2⟩ := ih _ h3
    simp only [run, lrun]
    rw [h1, i1, i2, h2]
    exact ⟨rfl, rfl⟩

/-! ### the logical store is read-your-writes -/

theorem lrun_append (s : LStore) (h1 h2 : List Op) :
    (lrun s (h1 ++ h2)).1 = (lrun (lrun s h1).1 h2).1 ∧ (lrun s (h1 ++ h2)).2 = (lrun s h1).2 ++ (lrun (lrun s h1).1 h2).2 := by
  induction h1 generalizing s with
  | nil => exact ⟨rfl, rfl⟩
  | cons op h ih =>
    obtain ⟨i1, i2⟩ := ih (lstep s op).1
    simp only [List.cons_append, lrun, i1, i2]
    constructor <;> first | rfl | trivial

theorem run_append (bc : Bool) (s : Store) (h1 h2 : List Op) :
    (run bc s (h1 ++ h2)).1 = (run bc (run bc s h1).1 h2).1 ∧
    (run bc s (h1 ++ h2)).2 = (run bc s h1).2 ++ (run bc (run bc s h1).1 h2).2 := by
  induction h1 generalizing s with
  | nil => exact ⟨rfl, rfl⟩
  | cons op h ih =>
    obtain ⟨i1, i2⟩ := ih (step bc s op).1
    simp only [List.cons_append, run, i1, i2]
    constructor <;> first | rfl | trivial

theorem lcopy_frame (s : LStore) (src dst : Path) (m : SM) (p : Path) (hp : dst ≠ p) : (lcopy s src dst m).1 p = s p := by
  unfold lcopy
  split
  · split <;> simp [lset_get, Ne.symm hp]
  · simp [lset_get, Ne.symm hp]
  · rfl

/-- an operation that does not target `p` leaves `p` alone (reads never change anything) -/
theorem lstep_frame (s : LStore) (op : Op) (p : Path) (h : target op ≠ some p) : (lstep s op).1 p = s p := by
  cases op with
  | write q m t =>
    have hq : q ≠ p := fun e => h (by rw [e]; rfl)
    simp only [lstep]
    split <;> simp [lset_get, Ne.symm hq]
  | create q m tr =>
    have hq : q ≠ p := fun e => h (by rw [e]; rfl)
    simp only [lstep]
    split <;> simp [lset_get, Ne.symm hq]
  | install src dst t =>
    have hq : dst ≠ p := fun e => h (by rw [e]; rfl)
    simp only [lstep]
    split
    · rfl
    · split
      · rfl
      · split
        · split
          · rfl
          · exact lcopy_frame s src dst _ p hq
        · exact lcopy_frame s src dst _ p hq
  | read q =>
    simp only [lstep]
    split <;> rfl
  | remove q =>
    have hq : q ≠ p := fun e => h (by rw [e]; rfl)
    simp [lstep, ldel_get, Ne.symm hq]

theorem lrun_frame (h : List Op) (p : Path) : ∀ s : LStore, (∀ op ∈ h, target op ≠ some p) → (lrun s h).1 p = s p := by
  induction h with
  | nil => intro _ _; rfl
  | cons op h ih =>
    intro s hall
    simp only [lrun]
    rw [ih _ (fun o ho => hall o (by simp [ho])), lstep_frame s op p (hall op (by simp))]

/-- a successful write puts the manifest there -/
theorem lstep_write (s : LStore) (p : Path) (m : SM) (t : Nat) (h : (lstep s (.write p m t)).2 = .done) :
    lman ((lstep s (.write p m t)).1 p) = some m := by
  simp only [lstep] at h ⊢
  split at h
  · cases h
  · simp [lset_get, lman]
  · simp [lset_get, lman]

/-- a successful create puts the manifest and the tree there -/
theorem lstep_create (s : LStore) (p : Path) (m : SM) (tr : Tree) (h : (lstep s (.create p m tr)).2 = .manifest m) :
    (lstep s (.create p m tr)).1 p = some (.zip m tr) := by
  simp only [lstep] at h ⊢
  cases hs : s p with
  | none => simp [lset_get]
  | some e =>
    cases e with
    | zip m0 tr0 => simp [lset_get]
    | dir man tr0 => rw [hs] at h; cases h

theorem lstep_read (s : LStore) (p : Path) :
    (lstep s (.read p)).1 = s ∧ (lstep s (.read p)).2 = match lman (s p) with | some m => .manifest m | none => .error .missing := by
  simp only [lstep, lread]
  cases lman (s p) <;> (constructor <;> first | rfl | trivial)

theorem lcopy_result (s : LStore) (src dst : Path) (m : SM) (hm : lman (s src) = some m) :
    lman ((lcopy s src dst m).1 dst) = some m ∧ (lcopy s src dst m).2 = .installed m (ltree (s src)) ∧
    ltree ((lcopy s src dst m).1 dst) = ltree (s src) := by
  unfold lcopy
  cases hs : s src with
  | none => rw [hs] at hm; cases hm
  | some e =>
    rw [hs] at hm
    cases e with
    | zip m0 tr =>
      simp only [lman] at hm
      cases hm
      simp only
      split <;> simp [lset_get, lman, ltree]
    | dir man tr =>
      simp only [lman] at hm
      subst hm
      simp [lset_get, lman, ltree]

/-- **install**: when it succeeds the artifact carries the package's manifest, the target holds a manifest equal to it
(`==`), and — unless the target already held an equal manifest — the package's content -/
theorem lstep_install (s : LStore) (src dst : Path) (t : Nat) (m : SM) (tr : Option Tree)
    (h : (lstep s (.install src dst t)).2 = .installed m tr) :
    lman (s src) = some m ∧
    (∃ m', lman ((lstep s (.install src dst t)).1 dst) = some m' ∧ (m' = m ∨ meq m' m = true)) ∧
    tr = ltree ((lstep s (.install src dst t)).1 dst) ∧
    ((∀ m', lman (s dst) = some m' → meq m' m = true → ltree (s dst) = ltree (s src)) → tr = ltree (s src)) := by
  cases hsrc : lman (s src) with
  | none => simp only [lstep, lread, hsrc] at h; cases h
  | some m0 =>
    by_cases hsd : src = dst
    · subst hsd
      simp only [lstep, lread, hsrc, if_true] at h ⊢
      injection h with h1 h2
      subst h1; subst h2
      exact ⟨rfl, ⟨_, rfl, Or.inl rfl⟩, rfl, fun _ => rfl⟩
    · have hc := lcopy_result s src dst m0 hsrc
      cases hdst : lman (s dst) with
      | none =>
        simp only [lstep, lread, hsrc, hsd, hdst, if_false] at h ⊢
        rw [hc.2.1] at h
        injection h with h1 h2
        subst h1; subst h2
        exact ⟨rfl, ⟨_, hc.1, Or.inl rfl⟩, hc.2.2.symm, fun _ => rfl⟩
      | some m' =>
        by_cases he : meq m' m0 = true
        · simp only [lstep, lread, hsrc, hsd, hdst, he, if_false, if_true] at h ⊢
          injection h with h1 h2
          subst h1; subst h2
          exact ⟨rfl, ⟨_, rfl, Or.inr he⟩, rfl, fun hyp => hyp m' rfl he⟩
        · have he' : meq m' m0 = false := by simpa using he
          simp only [lstep, lread, hsrc, hsd, hdst, he', Bool.false_eq_true, if_false] at h ⊢
          rw [hc.2.1] at h
          injection h with h1 h2
          subst h1; subst h2
          exact ⟨rfl, ⟨_, hc.1, Or.inl rfl⟩, hc.2.2.symm, fun _ => rfl⟩

/-! ### the already-installed test -/

/-- `install` of the code that exists is the logical install with full-manifest equality as the guard -/
theorem lstep_install_guard (s : LStore) (src dst : Path) (t : Nat) : lstep s (.install src dst t) = linstallG meq s src dst := rfl

/-- `Manifest.__eq__` holds exactly when all four fields agree -/
theorem meq_fields (a b : SM) : meq a b = true ↔
    a.name = b.name ∧ Keys.vcmp a.version b.version = .eq ∧ a.package = b.package ∧ modEq a.modules b.modules = true := by
  simp [meq, and_assoc]

/-- the target held a manifest that differs from the package's in some field: the package is installed — the target
then holds exactly the package's manifest and content, and those are the components loaded -/
theorem lstep_install_differs (s : LStore) (src dst : Path) (t : Nat) (m m' : SM) (tr : Option Tree)
    (h : (lstep s (.install src dst t)).2 = .installed m tr) (hsd : src ≠ dst) (hd : lman (s dst) = some m')
    (hne : meq m' m = false) :
    tr = ltree (s src) ∧ lman ((lstep s (.install src dst t)).1 dst) = some m ∧
    ltree ((lstep s (.install src dst t)).1 dst) = ltree (s src) := by
  cases hsrc : lman (s src) with
  | none => simp only [lstep, lread, hsrc] at h; cases h
  | some m0 =>
    have hc := lcopy_result s src dst m0 hsrc
    have hm : m0 = m := by
      by_cases he : meq m' m0 = true
      · simp only [lstep, lread, hsrc, hsd, hd, he, if_false, if_true] at h
        injection h with h1 _
      · have he' : meq m' m0 = false := by simpa using he
        simp only [lstep, lread, hsrc, hsd, hd, he', Bool.false_eq_true, if_false] at h
        rw [hc.2.1] at h
        injection h with h1 _
    subst hm
    simp only [lstep, lread, hsrc, hsd, hd, hne, Bool.false_eq_true, if_false] at h ⊢
    rw [hc.2.1] at h
    injection h with _ h2
    exact ⟨h2.symm, hc.1, hc.2.2⟩

end ForML.Store
