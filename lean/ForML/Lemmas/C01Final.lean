/-
C01 — the state after `segment.accept(table)` for an arbitrary visit order: no assertion fires, and the three
components are the ones characterised in C01Fold (prefixed), C01AbsFinal (absolute), C01IdxStepT (index).
-/
import ForML.Lemmas.C01IdxStepT
import ForML.Lemmas.C01Group

namespace ForML.Flow
open CState Segment

/-- the visit order covers exactly the members, each once -/
structure OrderOK (g : Segment) (order : List Uid) : Prop where
  nodup : order.Nodup
  sub : ∀ n ∈ order, n ∈ g.uids
  all : ∀ w ∈ g.workers, w.uid ∈ order

theorem orderOK_of_perm {g : Segment} {order : List Uid} (hp : order.Perm g.uids) (hnd : g.uids.Nodup) : OrderOK g order :=
  ⟨hp.symm.nodup hnd, fun n hn => hp.subset hn, fun w hw => hp.symm.subset (mem_uids.mpr ⟨w, hw, rfl⟩)⟩

/-- the state the compiler model reaches -/
structure Final (g : Segment) (A : Option Assets) (order : List Uid) (s : CState) : Prop where
  ok : s.fail = none
  idx : IdxInv g A order (s.index, s.committer)
  abs : AbsSpec [] s.absolute (allProg g A order)
  pre : PreInv g A order s.prefixed

theorem final_state {g : Segment} {A : Option Assets} {rank : Uid → Nat} (h : WF g rank) {order : List Uid}
    (ho : OrderOK g order) : Final g A order (addAll g A order) := by
  obtain ⟨⟨I, c⟩, hidx, inv⟩ := idx_all (A := A) h order ho.nodup ho.sub
  obtain ⟨B, habs, hspec⟩ := abs_final (A := A) h ho.nodup ho.sub
  have hpre := preInv_all g A order ho.nodup (fun n hn => by
    obtain ⟨w, hw, rfl⟩ := mem_uids.mp (ho.sub n hn)
    rw [worker?_of_mem h.nodup hw]; rfl)
  have hdec := runOps_decomp (allProg g A order) CState.init I c B rfl (Or.inl rfl) hidx habs
  rw [addAll_eq, hdec.1]
  exact ⟨rfl, inv, hspec, hpre⟩

/-! ### lookups in the final state -/

section
variable {g : Segment} {A : Option Assets} {rank : Uid → Nat} {order : List Uid} {s : CState}

/-- the slots of the absolute linkage are exactly the links the graph prescribes -/
theorem Final.slot_iff (hf : Final g A order s) (h : WF g rank) (ho : OrderOK g order) (k : Key) (j : Nat) (a : Key) :
    slot s.absolute k j = some a ↔ ∃ w ∈ g.workers, LinkSpec g A w k j a := by
  constructor
  · intro hs
    rcases hf.abs.sound k j a hs with h0 | ⟨op, hop, ht, hsrc⟩
    · simp [slot, aget] at h0
    · obtain ⟨w, hw, _, hl⟩ := allProg_links h ho.sub hop ht
      exact ⟨w, hw, hsrc ▸ hl⟩
  · rintro ⟨w, hw, hl⟩
    obtain ⟨op, hop, ht, hsrc⟩ := allProg_links_complete (order := order) h hw (ho.all w hw) hl
    rw [← hsrc]
    exact hf.abs.written op hop k j ht

theorem Final.ab_slot (hf : Final g A order s) (k : Key) (j : Nat) : (s.ab k).getD j none = slot s.absolute k j := rfl

theorem Final.ab_lastSome (hf : Final g A order s) (k : Key) : LastSome (s.ab k) := by
  unfold CState.ab
  cases hk : aget k s.absolute with
  | none => exact Or.inl rfl
  | some l => exact hf.abs.last (fun _ _ h => by simp [aget] at h) k l hk

theorem Final.pf_uid (hf : Final g A order s) (h : WF g rank) (ho : OrderOK g order) {w : Worker} (hw : w ∈ g.workers) :
    s.pf (.uid w.uid) = if g.hasPreset A w then [stateKey g A w] else [] := by
  unfold CState.pf
  have hwk := worker?_of_mem h.nodup hw
  split
  · rename_i hp
    rw [hf.pre.complete w hwk (ho.all w hw) hp]; rfl
  · rename_i hp
    cases hk : aget (Key.uid w.uid) s.prefixed with
    | none => rfl
    | some l =>
      obtain ⟨w', hw', hk', _, hp', _⟩ := hf.pre.sound _ _ hk
      have : w' = w := by
        have := Key.uid.inj hk'
        rw [← this, hwk] at hw'; cases hw'; rfl
      subst this
      exact absurd hp' hp

theorem Final.pf_other (hf : Final g A order s) {k : Key} (hk : ∀ n, k ≠ Key.uid n) : s.pf k = [] := by
  unfold CState.pf
  cases hg : aget k s.prefixed with
  | none => rfl
  | some l =>
    obtain ⟨w', _, hk', _⟩ := hf.pre.sound _ _ hg
    exact absurd hk' (hk _)

/-- keys that are never linked into: group aliases and loaders -/
theorem Final.ab_nolink (hf : Final g A order s) (h : WF g rank) (ho : OrderOK g order) {k : Key}
    (hk : (∃ γ, k = Key.gid γ) ∨ (∃ γ, k = Key.loader γ)) : s.ab k = [] := by
  have hls := hf.ab_lastSome k
  rcases hls with h0 | ⟨a, ha⟩
  · exact h0
  · exfalso
    rw [List.getLast?_eq_getElem?] at ha
    have hs : slot s.absolute k ((s.ab k).length - 1) = some a := by
      rw [← hf.ab_slot]; simp [List.getD_eq_getElem?_getD, ha]
    obtain ⟨w, _, hl⟩ := (hf.slot_iff h ho k _ a).mp hs
    rcases linkSpec_inv hl with ⟨hk', _⟩ | ⟨hk', _⟩ | ⟨i, hk', _⟩ | ⟨e, hk', _⟩ <;>
      rcases hk with ⟨γ, rfl⟩ | ⟨γ, rfl⟩ <;> cases hk'

end

end ForML.Flow
