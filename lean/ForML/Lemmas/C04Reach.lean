/-
C04 helper lemmas, part 11: `Comp.visit` (the model of `Traversal.each`) is *the* pre-order of the reachable part of
the segment — it starts with the head, lists no node twice, is closed under the subscriptions `each` follows
(`Comp.next`), and every listed node is reachable from the head over them.
-/
import ForML.Lemmas.C04Fuel

namespace ForML.Persist

namespace Comp

/-- reachable from `h` over the subscriptions `Traversal.each` follows (at the tail only trained subscribers) -/
inductive Reach (c : Comp) (t h : Nat) : Nat → Prop where
  | refl : Reach c t h h
  | step {u v : Nat} : Reach c t h u → v ∈ c.next t u → Reach c t h v

theorem dfs_seen_sub (c : Comp) (t : Nat) :
    ∀ (f : Nat) (stack seen : List Nat) (x : Nat), x ∈ seen → x ∈ c.dfs t f stack seen := by
  intro f
  induction f with
  | zero => intro stack seen x hx; simpa [dfs] using hx
  | succ f ih =>
    intro stack seen x hx
    cases stack with
    | nil => simpa [dfs] using hx
    | cons u rest =>
      simp only [dfs]
      split
      · exact ih rest seen x hx
      · exact ih _ _ x (List.mem_append_left _ hx)

/-- with enough fuel the result contains the stack and is closed under `next` -/
theorem dfs_closed (c : Comp) (t : Nat) :
    ∀ (f : Nat) (stack seen : List Nat), c.potential stack seen ≤ f →
      (∀ u ∈ seen, ∀ v ∈ c.next t u, v ∈ seen ∨ v ∈ stack) →
      (∀ u ∈ stack, u ∈ c.dfs t f stack seen) ∧
      (∀ u ∈ c.dfs t f stack seen, ∀ v ∈ c.next t u, v ∈ c.dfs t f stack seen) := by
  intro f
  induction f with
  | zero =>
    intro stack seen hp hinv
    have hs : stack = [] := by
      cases stack with
      | nil => rfl
      | cons x xs => simp [potential] at hp
    subst hs
    refine ⟨fun u hu => (by cases hu), ?_⟩
    intro u hu v hv
    simp only [dfs] at hu ⊢
    cases hinv u hu v hv with
    | inl h => exact h
    | inr h => cases h
  | succ f ih =>
    intro stack seen hp hinv
    cases stack with
    | nil =>
      refine ⟨fun u hu => (by cases hu), ?_⟩
      intro u hu v hv
      simp only [dfs] at hu ⊢
      cases hinv u hu v hv with
      | inl h => exact h
      | inr h => cases h
    | cons x rest =>
      cases hsx : seen.contains x with
      | true =>
        have hx : x ∈ seen := by simpa using hsx
        have hres : c.dfs t (f + 1) (x :: rest) seen = c.dfs t f rest seen := by simp [dfs, hx]
        rw [hres]
        have hp' : c.potential rest seen ≤ f := by
          simp only [potential, List.length_cons] at hp ⊢
          omega
        have hinv' : ∀ u ∈ seen, ∀ v ∈ c.next t u, v ∈ seen ∨ v ∈ rest := by
          intro u hu v hv
          cases hinv u hu v hv with
          | inl h => exact Or.inl h
          | inr h =>
            simp only [List.mem_cons] at h
            cases h with
            | inl h => exact Or.inl (h ▸ hx)
            | inr h => exact Or.inr h
        have := ih rest seen hp' hinv'
        refine ⟨?_, this.2⟩
        intro u hu
        simp only [List.mem_cons] at hu
        cases hu with
        | inl h => exact h ▸ dfs_seen_sub c t f rest seen x hx
        | inr h => exact this.1 u h
      | false =>
        have hx : x ∉ seen := by simpa using hsx
        have hres : c.dfs t (f + 1) (x :: rest) seen = c.dfs t f (c.next t x ++ rest) (seen ++ [x]) := by
          simp [dfs, hx]
        rw [hres]
        have hp' : c.potential (c.next t x ++ rest) (seen ++ [x]) ≤ f := by
          have := potential_push c t x rest seen hsx
          omega
        have hinv' : ∀ u ∈ seen ++ [x], ∀ v ∈ c.next t u, v ∈ seen ++ [x] ∨ v ∈ c.next t x ++ rest := by
          intro u hu v hv
          simp only [List.mem_append, List.mem_singleton] at hu ⊢
          cases hu with
          | inl hu =>
            cases hinv u hu v hv with
            | inl h => exact Or.inl (Or.inl h)
            | inr h =>
              simp only [List.mem_cons] at h
              cases h with
              | inl h => exact Or.inl (Or.inr h)
              | inr h => exact Or.inr (Or.inr h)
          | inr hu => exact Or.inr (Or.inl (hu ▸ hv))
        have := ih (c.next t x ++ rest) (seen ++ [x]) hp' hinv'
        refine ⟨?_, this.2⟩
        intro u hu
        simp only [List.mem_cons] at hu
        cases hu with
        | inl h => exact h ▸ dfs_seen_sub c t f (c.next t x ++ rest) (seen ++ [x]) x (by simp)
        | inr h => exact this.1 u (List.mem_append_right _ h)

theorem dfs_nodup (c : Comp) (t : Nat) :
    ∀ (f : Nat) (stack seen : List Nat), seen.Nodup → (c.dfs t f stack seen).Nodup := by
  intro f
  induction f with
  | zero => intro stack seen h; simpa [dfs] using h
  | succ f ih =>
    intro stack seen h
    cases stack with
    | nil => simpa [dfs] using h
    | cons x rest =>
      simp only [dfs]
      split
      · exact ih rest seen h
      · rename_i hx
        apply ih
        have hx' : x ∉ seen := by simpa using hx
        rw [List.nodup_append]
        refine ⟨h, by simp, ?_⟩
        intro a ha b hb
        simp only [List.mem_singleton] at hb
        subst hb
        exact fun e => hx' (e ▸ ha)

theorem dfs_reach (c : Comp) (t h : Nat) :
    ∀ (f : Nat) (stack seen : List Nat), (∀ u ∈ stack, Reach c t h u) → (∀ u ∈ seen, Reach c t h u) →
      ∀ u ∈ c.dfs t f stack seen, Reach c t h u := by
  intro f
  induction f with
  | zero => intro stack seen _ hseen u hu; simp only [dfs] at hu; exact hseen u hu
  | succ f ih =>
    intro stack seen hst hseen u hu
    cases stack with
    | nil => simp only [dfs] at hu; exact hseen u hu
    | cons x rest =>
      simp only [dfs] at hu
      have hx := hst x List.mem_cons_self
      have hrest : ∀ v ∈ rest, Reach c t h v := fun v hv => hst v (List.mem_cons_of_mem _ hv)
      split at hu
      · exact ih rest seen hrest hseen u hu
      · apply ih (c.next t x ++ rest) (seen ++ [x]) _ _ u hu
        · intro v hv
          simp only [List.mem_append] at hv
          cases hv with
          | inl h' => exact Reach.step hx h'
          | inr h' => exact hrest v h'
        · intro v hv
          simp only [List.mem_append, List.mem_singleton] at hv
          cases hv with
          | inl h' => exact hseen v h'
          | inr h' => exact h' ▸ hx

/-- `visit` lists exactly the nodes reachable from the head, each once -/
theorem visit_spec (c : Comp) (h t : Nat) :
    (c.visit h t).Nodup ∧ (∀ v, v ∈ c.visit h t ↔ Reach c t h v) := by
  have hclosed := dfs_closed c t c.fuel [h] [] (potential_init c h) (fun u hu => by cases hu)
  refine ⟨dfs_nodup c t c.fuel [h] [] List.nodup_nil, ?_⟩
  intro v
  constructor
  · intro hv
    exact dfs_reach c t h c.fuel [h] [] (fun u hu => by
      simp only [List.mem_singleton] at hu
      exact hu ▸ Reach.refl) (fun u hu => by cases hu) v hv
  · intro hr
    induction hr with
    | refl => exact hclosed.1 h List.mem_cons_self
    | step _ hv ih => exact hclosed.2 _ ih _ hv

end Comp

end ForML.Persist
