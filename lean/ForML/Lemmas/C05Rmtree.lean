/-
C05, round 5: the unlink / rmdir sequence INSIDE `shutil.rmtree(staged, ignore_errors=True)` (posix.Registry.push,
the left-over temporary package of an interrupted publish).  `Fs.step (.rmtree p)` removes the subtree in one step; here
the removal is split into its system calls (`os.unlink` of a file, `os.rmdir` of an EMPTY directory, in any order the
walk may choose), a process may die after any number of them, and it is proved that such a partly removed left-over
(1) is still a tree, (2) differs from the tree before only below `p`, (3) shows a fresh reader exactly the previous
view when `p` is the temporary package name, and (4) is removed by the retry's `rmtree` to exactly the tree the
undisturbed `rmtree` would have produced.  Core Lean only.
-/
import ForML.Lemmas.C05Reg

namespace ForML.Fs

/-- nothing strictly below `k` (what `os.rmdir` demands; trivially true of a file in a well-formed tree) -/
def leaf (fs : Fs) (k : Path) : Bool := fs.all (fun e => !(k <+: e.1) || e.1 == k)

/-- one `os.unlink` / `os.rmdir` issued by `shutil.rmtree p`: an existing file or EMPTY directory at or below `p` -/
def unlinkStep (fs : Fs) (p k : Path) : Option Fs :=
  if p <+: k ∧ (get fs k).isSome ∧ leaf fs k = true then some (del fs k) else none

/-- the first `ks.length` system calls of an `rmtree p` (a process death after them leaves this tree) -/
def runUnlinks (fs : Fs) (p : Path) : List Path → Option Fs
  | [] => some fs
  | k :: r => match unlinkStep fs p k with
    | some fs' => runUnlinks fs' p r
    | none => none

theorem unlinkStep_frame (fs fs' : Fs) (p k q : Path) (h : unlinkStep fs p k = some fs') (hq : ¬ p <+: q) :
    get fs' q = get fs q := by
  unfold unlinkStep at h
  split at h
  · rename_i c
    cases h
    have : q ≠ k := fun e => hq (e ▸ c.1)
    simp [get_del, this]
  · cases h

theorem unlinkStep_sub (fs fs' : Fs) (p k q : Path) (n : Node) (h : unlinkStep fs p k = some fs')
    (hq : get fs' q = some n) : get fs q = some n := by
  unfold unlinkStep at h
  split at h
  · cases h
    rw [get_del] at hq
    split at hq
    · cases hq
    · exact hq
  · cases h

theorem unlinkStep_filter (fs fs' : Fs) (p k : Path) (h : unlinkStep fs p k = some fs') :
    fs'.filter (fun e => !(p <+: e.1)) = fs.filter (fun e => !(p <+: e.1)) := by
  unfold unlinkStep at h
  split at h
  · rename_i c
    cases h
    simp only [del, List.filter_filter]
    apply List.filter_congr
    intro e _
    by_cases he : e.1 = k
    · have : p <+: e.1 := he ▸ c.1
      simp [this]
    · simp [he]
  · cases h

theorem unlinkStep_wf (fs fs' : Fs) (p k : Path) (h : unlinkStep fs p k = some fs') (w : WF fs) : WF fs' := by
  unfold unlinkStep at h
  split at h
  · rename_i c
    cases h
    intro e he
    simp only [del, List.mem_filter, bne_iff_ne, ne_eq] at he
    rcases w e he.1 with h0 | h1
    · exact Or.inl h0
    · right
      rw [get_del]
      have hne : parent e.1 ≠ k := by
        intro hk
        have hl := c.2.2
        simp only [leaf, List.all_eq_true] at hl
        have := hl e he.1
        have hp : k <+: e.1 := hk ▸ List.dropLast_prefix e.1
        simp [hp] at this
        exact he.2 this
      simp [hne, h1]
  · cases h

theorem runUnlinks_frame (p q : Path) (hq : ¬ p <+: q) :
    ∀ (ks : List Path) (fs fs' : Fs), runUnlinks fs p ks = some fs' → get fs' q = get fs q
  | [], fs, fs', h => by simp only [runUnlinks] at h; cases h; rfl
  | k :: r, fs, fs', h => by
    simp only [runUnlinks] at h
    cases h1 : unlinkStep fs p k with
    | none => rw [h1] at h; cases h
    | some m =>
      rw [h1] at h
      rw [runUnlinks_frame p q hq r m fs' h, unlinkStep_frame fs m p k q h1 hq]

theorem runUnlinks_sub (p q : Path) (n : Node) :
    ∀ (ks : List Path) (fs fs' : Fs), runUnlinks fs p ks = some fs' → get fs' q = some n → get fs q = some n
  | [], fs, fs', h, hq => by simp only [runUnlinks] at h; cases h; exact hq
  | k :: r, fs, fs', h, hq => by
    simp only [runUnlinks] at h
    cases h1 : unlinkStep fs p k with
    | none => rw [h1] at h; cases h
    | some m =>
      rw [h1] at h
      exact unlinkStep_sub fs m p k q n h1 (runUnlinks_sub p q n r m fs' h hq)

theorem runUnlinks_filter (p : Path) :
    ∀ (ks : List Path) (fs fs' : Fs), runUnlinks fs p ks = some fs' →
      fs'.filter (fun e => !(p <+: e.1)) = fs.filter (fun e => !(p <+: e.1))
  | [], fs, fs', h => by simp only [runUnlinks] at h; cases h; rfl
  | k :: r, fs, fs', h => by
    simp only [runUnlinks] at h
    cases h1 : unlinkStep fs p k with
    | none => rw [h1] at h; cases h
    | some m =>
      rw [h1] at h
      rw [runUnlinks_filter p r m fs' h, unlinkStep_filter fs m p k h1]

theorem runUnlinks_wf (p : Path) :
    ∀ (ks : List Path) (fs fs' : Fs), runUnlinks fs p ks = some fs' → WF fs → WF fs'
  | [], fs, fs', h, w => by simp only [runUnlinks] at h; cases h; exact w
  | k :: r, fs, fs', h, w => by
    simp only [runUnlinks] at h
    cases h1 : unlinkStep fs p k with
    | none => rw [h1] at h; cases h
    | some m =>
      rw [h1] at h
      exact runUnlinks_wf p r m fs' h (unlinkStep_wf fs m p k h1 w)

/-- the walk's last call, `rmdir p` itself, is accepted only when everything below is gone: the result is the
one-step `rmtree` -/
theorem unlinkStep_self (fs fs' : Fs) (p : Path) (h : unlinkStep fs p p = some fs') :
    fs' = fs.filter (fun e => !(p <+: e.1)) := by
  unfold unlinkStep at h
  split at h
  · rename_i c
    cases h
    have hl := c.2.2
    simp only [leaf, List.all_eq_true] at hl
    simp only [del]
    apply List.filter_congr
    intro e he
    have := hl e he
    by_cases hep : e.1 = p
    · simp [hep]
    · simp [hep] at this
      simp [hep, this]
  · cases h

/-- once `p` itself is gone the walk is over and the tree is exactly that of the one-step `rmtree p` -/
theorem runUnlinks_done (p : Path) :
    ∀ (ks : List Path) (fs fs' : Fs), runUnlinks fs p ks = some fs' → get fs p = some .dir → get fs' p = none →
      fs' = fs.filter (fun e => !(p <+: e.1))
  | [], fs, fs', h, hd, hn => by simp only [runUnlinks] at h; cases h; rw [hd] at hn; cases hn
  | k :: r, fs, fs', h, hd, hn => by
    simp only [runUnlinks] at h
    cases h1 : unlinkStep fs p k with
    | none => rw [h1] at h; cases h
    | some m =>
      rw [h1] at h
      by_cases hk : k = p
      · subst hk
        have hm := unlinkStep_self fs m k h1
        cases r with
        | nil => simp only [runUnlinks] at h; cases h; exact hm
        | cons k' r' =>
          simp only [runUnlinks] at h
          have : unlinkStep m k k' = none := by
            unfold unlinkStep
            split
            · rename_i c
              have := c.2.1
              rw [hm, get_rmtree] at this
              simp [c.1] at this
            · rfl
          rw [this] at h; cases h
      · have hmd : get m p = some .dir := by
          unfold unlinkStep at h1
          split at h1
          · cases h1; rw [get_del]; simp [Ne.symm hk, hd]
          · cases h1
        rw [runUnlinks_done p r m fs' h hmd hn, unlinkStep_filter fs m p k h1]

/-- the retry's `rmtree p` on a partly removed left-over gives the tree of the undisturbed `rmtree p` -/
theorem rmtree_resume (fs fs' : Fs) (p : Path) (ks : List Path) (h : runUnlinks fs p ks = some fs')
    (hp : p ≠ []) (hd : get fs' p = some .dir) : step fs' (.rmtree p) = step fs (.rmtree p) := by
  have hd0 := runUnlinks_sub p p .dir ks fs fs' h hd
  simp [step, hd, hd0, runUnlinks_filter p ks fs fs' h, hp]

end ForML.Fs

namespace ForML.Registry
open ForML.Fs

/-- two trees that differ only below the temporary package name of one release show a reader the same -/
theorem vis_frame_tmp (a b : Fs) (p v : Nat)
    (hf : ∀ key, ¬ (packageTmpP p v <+: key) → get a key = get b key) : ViewEq a b := by
  have rl : ∀ p' v', relListed a p' v' = relListed b p' v' := by
    intro p' v'
    have e1 := hf (projectP p') (by simp [projectP, packageTmpP])
    have e2 := hf (releaseP p' v') (by simp [releaseP, packageTmpP])
    have e3 := hf (packageP p' v') (by simp [packageP, packageTmpP])
    simp [relListed, isDir, e1, e2, e3]
  intro key
  unfold vis
  split
  · rename_i p' v'
    have e := hf (packageP p' v') (by simp [packageP, packageTmpP])
    rw [rl, e]
  · rename_i p' v' i
    have e := hf (packageP p' v' ++ [Seg.member i]) (by simp [packageP, packageTmpP])
    rw [rl, e]
  · rename_i p' v' g'
    have e1 := hf (generationP p' v' g') (by simp [generationP, packageTmpP])
    have e2 := hf (tagP p' v' g') (by simp [tagP, packageTmpP])
    simp [genListed, genValid, isDir, rl, e1, e2]
  · rename_i p' v' g' s
    have e1 := hf (generationP p' v' g') (by simp [generationP, packageTmpP])
    have e2 := hf (tagP p' v' g') (by simp [tagP, packageTmpP])
    have e3 := hf (stateP p' v' g' s) (by simp [stateP, packageTmpP])
    simp [genListed, genValid, isDir, tagOf, rl, e1, e2, e3]
  · rfl

end ForML.Registry
