/-
C04 helper lemmas, part 2: a lifecycle action performed on a fresh expansion (injectively renamed uids / gids) has
exactly the same effect on the registry and hands exactly the same states to the same actor occurrences as on the
original expansion: nothing but positions ties an expansion to the registry.
-/
import ForML.Lemmas.C04Rename

namespace ForML.Persist

theorem mapE_map {α β γ : Type} (f : β → Except Err γ) (g : α → β) (l : List α) :
    mapE f (l.map g) = mapE (fun x => f (g x)) l := by
  induction l with
  | nil => rfl
  | cons x xs ih => simp only [List.map_cons, mapE, ih]

theorem mapE_congr {α β : Type} (f g : α → Except Err β) (l : List α) (h : ∀ x ∈ l, f x = g x) :
    mapE f l = mapE g l := by
  induction l with
  | nil => rfl
  | cons x xs ih =>
    have hx := h x (List.mem_cons_self)
    have hxs := ih (fun y hy => h y (List.mem_cons_of_mem _ hy))
    simp only [mapE, hx, hxs]

section
variable {ρ σ : Nat → Nat}
variable (P : List Nat) (gen : Except Err (Option Generation))

theorem has_rename (hσ : Inj σ) (g : Nat) : (⟨P.map σ, gen⟩ : Assets).has (σ g) = (⟨P, gen⟩ : Assets).has g := by
  simp only [Assets.has, hσ.contains_map]

theorem load_rename (hσ : Inj σ) (g : Nat) : (⟨P.map σ, gen⟩ : Assets).load (σ g) = (⟨P, gen⟩ : Assets).load g := by
  simp only [Assets.load, hσ.contains_map, hσ.idxOf_map]

theorem prevOf_rename (hσ : Inj σ) (n : Node) : prevOf ⟨P.map σ, gen⟩ (n.rename ρ σ) = prevOf ⟨P, gen⟩ n := by
  simp only [prevOf, Node.rename_gid, has_rename P gen hσ, load_rename P gen hσ]

theorem newState_rename (hσ : Inj σ) (run hp : Nat) (n : Node) :
    newState ⟨P.map σ, gen⟩ run hp (n.rename ρ σ) = newState ⟨P, gen⟩ run hp n := by
  simp only [newState, prevOf_rename P gen hσ, Node.rename_tag]

theorem trainerOf_rename (hσ : Inj σ) (order : List Node) (g : Nat) :
    trainerOf (order.map (Node.rename ρ σ)) (σ g) = (trainerOf order g).map (Node.rename ρ σ) := by
  simp only [trainerOf, List.find?_map]
  congr 2
  funext m
  simp [Function.comp, hσ.beq]

theorem receive_rename (hρ : Inj ρ) (hσ : Inj σ) (c : Comp) (order : List Node) (run hp : Nat) (n : Node) :
    receive (c.rename ρ σ) (order.map (Node.rename ρ σ)) ⟨P.map σ, gen⟩ run hp (n.rename ρ σ)
      = receive c order ⟨P, gen⟩ run hp n := by
  simp only [receive, Node.rename_gid, has_rename P gen hσ, load_rename P gen hσ, Comp.derived_rename hρ hσ,
    trainerOf_rename hσ]
  cases trainerOf order n.gid with
  | none => rfl
  | some t => simp only [Option.map_some, newState_rename P gen hσ]

theorem observe_rename (hρ : Inj ρ) (hσ : Inj σ) (c : Comp) (order : List Node) (run hp : Nat) (n : Node) :
    observe (c.rename ρ σ) (order.map (Node.rename ρ σ)) ⟨P.map σ, gen⟩ run hp (n.rename ρ σ)
      = observe c order ⟨P, gen⟩ run hp n := by
  simp only [observe, Node.rename_stateful, Node.rename_trained, Node.rename_tag, prevOf_rename P gen hσ,
    receive_rename P gen hρ hσ]

theorem observeAll_rename (hρ : Inj ρ) (hσ : Inj σ) (c : Comp) (order : List Node) (run hp : Nat) :
    observeAll (c.rename ρ σ) (order.map (Node.rename ρ σ)) ⟨P.map σ, gen⟩ run hp
      = observeAll c order ⟨P, gen⟩ run hp := by
  simp only [observeAll, mapE_map]
  rw [mapE_congr _ (observe c order ⟨P, gen⟩ run hp) order (fun n _ => observe_rename P gen hρ hσ c order run hp n)]

theorem committedState_rename (hσ : Inj σ) (order : List Node) (run hp : Nat) (g : Nat) :
    committedState (order.map (Node.rename ρ σ)) ⟨P.map σ, gen⟩ run hp (σ g)
      = committedState order ⟨P, gen⟩ run hp g := by
  simp only [committedState, trainerOf_rename hσ]
  cases trainerOf order g with
  | none => rfl
  | some t => simp only [Option.map_some, newState_rename P gen hσ]

theorem commit_rename (hσ : Inj σ) (order : List Node) (run hp : Nat) :
    commit (order.map (Node.rename ρ σ)) ⟨P.map σ, gen⟩ run hp = commit order ⟨P, gen⟩ run hp := by
  simp only [commit, List.any_map, mapE_map]
  have hany : ((fun n : Node => n.stateful && n.trained && (⟨P.map σ, gen⟩ : Assets).has n.gid) ∘ Node.rename ρ σ)
      = (fun n : Node => n.stateful && n.trained && (⟨P, gen⟩ : Assets).has n.gid) := by
    funext n
    simp only [Function.comp, Node.rename_stateful, Node.rename_trained, Node.rename_gid, has_rename P gen hσ]
  rw [hany]
  rw [mapE_congr _ (committedState order ⟨P, gen⟩ run hp) P
    (fun g _ => committedState_rename P gen hσ order run hp g)]

end

theorem runSegment_rename {ρ σ : Nat → Nat} (hρ : Inj ρ) (hσ : Inj σ) (c : Comp) (h t : Nat)
    (reg : Registry) (a : Action) :
    runSegment (c.rename ρ σ) (ρ h) (ρ t) reg a = runSegment c h t reg a := by
  simp only [runSegment, Comp.persistent_rename hρ hσ, Comp.visitNodes_rename σ hρ,
    observeAll_rename _ _ hρ hσ, commit_rename _ _ hσ]

/-- `C04` core: an action cannot tell a fresh expansion from the original one -/
theorem step_rename {ρ σ : Nat → Nat} (hρ : Inj ρ) (hσ : Inj σ) (cs : Case) (reg : Registry) (a : Action) :
    step (cs.rename ρ σ) reg a = step cs reg a := by
  cases hk : a.kind with
  | train =>
    simp only [step, hk, Case.rename]
    exact (by
      cases select reg a.gen with
      | error e => rfl
      | ok g => exact runSegment_rename hρ hσ cs.plain _ _ reg a)
  | apply =>
    simp only [step, hk, Case.rename]
    exact runSegment_rename hρ hσ cs.plain _ _ reg a
  | serve =>
    simp only [step, hk, Case.rename]
    exact runSegment_rename hρ hσ cs.plain _ _ reg a
  | perftrack =>
    simp only [step, hk, Case.rename]
    cases cs.perf with
    | error e => rfl
    | ok p => exact runSegment_rename hρ hσ p _ _ reg a

end ForML.Persist
