/-
C03 — operators written against the public composition API (`Compose.ApiOp`): each realises its hand-written
denotation (`denoteApi`), at either certification level.

* `spec_apiUnary`: `left.extend(<path>=worker)` — one path extended by a fresh stateless worker, the two omitted
  segments kept as they are (tails included); `apiUnary_use`: `left.use(<path>=left.<path>.extend(worker))` is the same
  construction;
* `spec_labelMix`: labels rewritten from the labels and the train-mode features through an untrained side branch on the
  tail of the train segment, `left.extend(label=Segment(head, mixer))`;
* `spec_monitor`: a trained side branch; `spec_tee`: an untrained sink on the tail of the train segment;
* `spec_api`: `composeApi op` realises `denoteApi op`.
-/
import ForML.Lemmas.C03Ops
import ForML.Lemmas.C03Indep

namespace ForML.Compose

/-- an input of the graph with one more subscription is an old input or the new subscription -/
theorem inputOf_pushEdge_some' {g : Graph} {e : Edge} {u k : Nat} {q : PubRef} (h : (g.pushEdge e).inputOf u k = some q) :
    g.inputOf u k = some q ∨ (e.sub = u ∧ e.port = k ∧ e.pub = q) := by
  rw [inputOf_pushEdge] at h
  cases h0 : g.inputOf u k with
  | some q' => rw [h0] at h; simp at h; exact Or.inl (by rw [h])
  | none =>
    rw [h0] at h
    by_cases hc : e.sub = u ∧ e.port = k
    · simp [hc] at h; exact Or.inr ⟨hc.1, hc.2, h⟩
    · simp [hc] at h

def Sem.get (s : Sem) : Path → Val
  | .apply => s.apply
  | .train => s.train
  | .label => s.label

def Sem.set (s : Sem) (p : Path) (v : Val) : Sem :=
  match p with
  | .apply => ⟨v, s.train, s.label, s.states⟩
  | .train => ⟨s.apply, v, s.label, s.states⟩
  | .label => ⟨s.apply, s.train, v, s.states⟩

def Trunk.withTail (t : Trunk) (p : Path) (u : Nat) : Trunk :=
  match p with
  | .apply => ⟨⟨t.apply.head, u⟩, t.train, t.label⟩
  | .train => ⟨t.apply, ⟨t.train.head, u⟩, t.label⟩
  | .label => ⟨t.apply, t.train, ⟨t.label.head, u⟩⟩

/-- `Trunk.use` of an extended segment is `Trunk.extend` with that segment alone supplied -/
theorem apiUnary_use (p : Path) (tag : Nat) (left : Trunk) : apiUnary p true tag left = apiUnary p false tag left := by
  funext g
  cases p <;>
    simp only [apiUnary, if_true, Bool.false_eq_true, if_false, Trunk.extend, Trunk.extendOpt, Trunk.use, Trunk.seg,
      bind_apply, pure_apply, Option.getD_some, Option.getD_none] <;>
    (repeat' split) <;> first | rfl | simp_all

theorem spec_apiUnary {full : Prop} {m : GraphM Trunk} {S : Scope} (hs : Spec full m S) (p : Path) (tag : Nat) :
    Spec full (do let left ← m; apiUnary p false tag left)
      (fun xa xt xl => (S xa xt xl).set p (.apply tag .none [(S xa xt xl).get p])) := by
  intro g W xa xt xl r hi hw hr
  obtain ⟨left, g1, W1, hrun1, h1⟩ := hs g W xa xt xl r hi hw hr
  obtain ⟨q, hqd⟩ : ∃ q, q = (left.seg p).publisher := ⟨_, rfl⟩
  let g2 := g1.bump.bump.pushNode ⟨g1.next, .worker (g1.next + 1) ⟨tag, false⟩ 1 1⟩
  let g3 := g2.pushEdge ⟨g1.next, 0, q⟩
  have hgg := h1.frame.next_le
  have hb1 := h1.inv.bounded
  have hk0 : ∀ u, g1.next ≤ u → g1.kindOf u = none := fun u hu => hb1.kindOf_none hu
  have hin0 : ∀ u k, g1.next ≤ u → g1.inputOf u k = none := fun u k hu => hb1.inputOf_none hu k
  have htr0 : ∀ u, g1.next ≤ u → g1.trainerOf u = none := fun u hu => hb1.trainerOf_none hu
  have hb2 : Bounded g2 := hb1.bump.bump.pushNode _ (by gnext) (by intro _ _ _ _ h; cases h; gnext)
  have hf2 : Frame g1 g2 := (Frame.refl g1).bump.bump.pushNode _ (Nat.le_refl _)
  have hf3 : Frame g1 g3 := hf2.pushEdge _ (Nat.le_refl _)
  have hn3 : g3.next = g1.next + 2 := rfl
  have hfree : g2.inputOf g1.next 0 = none := by glook [hin0]
  -- the tail that is extended
  have hq : W1.live q.node ∧ W1.σ q = (S xa xt xl).get p ∧ g.next ≤ q.node := by
    rw [hqd]
    cases p
    · exact ⟨h1.ta.1, h1.ta.2, h1.tails_ge.1⟩
    · exact ⟨h1.tt.1, h1.tt.2, h1.tails_ge.2.1⟩
    · exact ⟨h1.tl.1, h1.tl.2, h1.tails_ge.2.2⟩
  obtain ⟨R, hR⟩ : ∃ R, R = r + (g1.next - g.next) := ⟨_, rfl⟩
  have rkq : RefOk W1 q R := ⟨hq.1, by rw [hR]; exact h1.rank _ hq.2.2 hq.1⟩
  have hqlt : q.node < g1.next := (h1.inv.liveLt _ hq.1).1
  have hw3 : Wired g3 := (h1.wired.bump.bump.pushNode _).pushEdge _ (by show q.node < g1.next + 1 + 1; omega) hfree
  -- the run
  have hrun : Run (do let left ← m; apiUnary p false tag left) g (left.withTail p g1.next) g3 := by
    refine Run.bind hrun1 ?_
    unfold apiUnary
    refine Run.bind (run_newWorker ⟨tag, false⟩ 1 1 g1) ?_
    simp only [Bool.false_eq_true, if_false]
    cases p <;> subst hqd
    · exact run_trunk_extend (run_extendOpt_some _ _ _ hfree) (run_extendOpt_none _ _) (run_extendOpt_none _ _)
    · exact run_trunk_extend (run_extendOpt_none _ _) (run_extendOpt_some _ _ _ hfree) (run_extendOpt_none _ _)
    · exact run_trunk_extend (run_extendOpt_none _ _) (run_extendOpt_none _ _) (run_extendOpt_some _ _ _ hfree)
  have hnl : ∀ u, g1.next ≤ u → ¬ W1.live u := fun u hu h => by have := (h1.inv.liveLt u h).1; omega
  have hi2 : Inv g2 W1 := h1.inv.ofFrame hf2 hb2
  have hi3 : Inv g3 W1 := hi2.pushEdge_notLive _ (hnl _ (Nat.le_refl _)) (by gnext)
  have hk3 : g3.kindOf g1.next = some (.worker (g1.next + 1) ⟨tag, false⟩ 1 1) := by glook [hk0]
  have hi3in : g3.inputOf g1.next 0 = some q := by glook [hin0]
  have hin3 : ∀ n k q', g1.next ≤ n → g3.inputOf n k = some q' → n = g1.next ∧ q' = q := by
    intro n k q' hn hq'
    have : g3.inputOf n k = if g1.next = n ∧ 0 = k then some q else none := by
      glook [hin0 n k hn]
    rw [this] at hq'
    split at hq'
    · rename_i hc; cases hq'; exact ⟨hc.1.symm, rfl⟩
    · cases hq'
  have hi4 := hi3.liveUnary g1.next (g1.next + 1) ⟨tag, false⟩ q R .none hk3 (hnl _ (Nat.le_refl _)) (by omega) hi3in rkq
    (StateFor.stateless rfl)
  have hne : ∀ q' : PubRef, W1.live q'.node → q'.node ≠ g1.next := fun q' hq' h => hnl _ (Nat.le_refl _) (h ▸ hq')
  have hheadA : (left.withTail p g1.next).apply.head = left.apply.head := by cases p <;> rfl
  have hheadT : (left.withTail p g1.next).train.head = left.train.head := by cases p <;> rfl
  have hheadL : (left.withTail p g1.next).label.head = left.label.head := by cases p <;> rfl
  have hnew : (W1.set g1.next (fun _ => Val.apply tag .none [W1.σ q]) R).σ ⟨g1.next, 0⟩ =
      .apply tag .none [(S xa xt xl).get p] := by
    rw [set_σ_self, hq.2.1]
  have keep : ∀ u v, W1.live u → W1.σ ⟨u, 0⟩ = v →
      (W1.set g1.next (fun _ => Val.apply tag .none [W1.σ q]) R).live u ∧
        (W1.set g1.next (fun _ => Val.apply tag .none [W1.σ q]) R).σ ⟨u, 0⟩ = v := by
    intro u v hl hv
    exact ⟨Or.inr hl, by rw [set_σ_other _ _ _ _ _ (hne ⟨u, 0⟩ hl)]; exact hv⟩
  -- reachability of the new node from the apply head
  have reOld : ∀ n, n < g1.next → Reach g3 left.apply.head n → Reach g1 left.apply.head n :=
    fun n hn h => Reach.old hf3 h1.wired hn h
  have reNew : Reach g3 left.apply.head g1.next → Reach g1 left.apply.head q.node := by
    intro hre
    rcases hre.inv with h | ⟨k, q', hq', hr'⟩
    · exact absurd h.symm (by have := (h1.inv.liveLt _ h1.ha.live).1; omega)
    · rw [(hin3 _ k q' (Nat.le_refl _) hq').2] at hr'
      exact reOld _ hqlt hr'
  refine ⟨_, g3, _, hrun,
    h1.step hi4 hf3 ((Agree.refl _ W1).set _ _ _ (Nat.le_refl _)) ?_ (left.withTail p g1.next) hheadA hheadT hheadL
      ((S xa xt xl).set p (.apply tag .none [(S xa xt xl).get p])) ?_ ?_ ?_ ?_ ?_ ?_⟩
  · intro u hu hl ho
    rcases hl with hl | hl
    · subst hl
      rw [Graph.isOpen, hk3] at ho
      cases ho.1
    · exact hnl u hu hl
  · cases p
    · exact ⟨Or.inl rfl, hnew⟩
    · exact keep _ _ h1.ta.1 h1.ta.2
    · exact keep _ _ h1.ta.1 h1.ta.2
  · cases p
    · exact keep _ _ h1.tt.1 h1.tt.2
    · exact ⟨Or.inl rfl, hnew⟩
    · exact keep _ _ h1.tt.1 h1.tt.2
  · cases p
    · exact keep _ _ h1.tl.1 h1.tl.2
    · exact keep _ _ h1.tl.1 h1.tl.2
    · exact ⟨Or.inl rfl, hnew⟩
  · refine ⟨[], by simp [g3, g2], (fun x hx => by cases hx), ?_⟩
    cases p <;> simp [Sem.set]
  · intro u hu hl gid a' i o hk
    rcases hl with hl | hl
    · subst hl
      rw [hk3] at hk
      cases hk
      omega
    · exact absurd hl (hnl u hu)
  · refine ⟨hw3, ?_, ?_, ?_, ?_, ?_, ?_⟩
    · cases p
      · exact ⟨by show g.next ≤ g1.next; omega, h1.tails_ge.2.1, h1.tails_ge.2.2⟩
      · exact ⟨h1.tails_ge.1, by show g.next ≤ g1.next; omega, h1.tails_ge.2.2⟩
      · exact ⟨h1.tails_ge.1, h1.tails_ge.2.1, by show g.next ≤ g1.next; omega⟩
    · intro n hn hl
      rcases hl with hl | hl
      · subst hl
        show (W1.set g1.next _ R).h g1.next < _
        rw [set_h_self, hn3, hR]; omega
      · exact absurd hl (hnl n hn)
    · intro hfull n hn hre hne'
      have hn' : n = g1.next := by
        rcases hre.inv with h | ⟨k, q', hq', _⟩
        · exact absurd h hne'
        · exact (hin3 n k q' hn hq').1
      subst hn'
      refine ⟨Or.inl rfl, ?_⟩
      intro k q' hq'
      rw [(hin3 _ k q' (Nat.le_refl _) hq').2]
      exact (reNew hre).mono (hf3.input_mono hb1)
    · intro hfull
      cases p
      · have hre : Reach g3 left.apply.head q.node := by
          rw [hqd]; exact (h1.regTail hfull).mono (hf3.input_mono hb1)
        exact Reach.one hre hi3in
      · exact (h1.regTail hfull).mono (hf3.input_mono hb1)
      · exact (h1.regTail hfull).mono (hf3.input_mono hb1)
    · intro hfull
      have oldT : ¬ Reach g3 left.apply.head left.train.tail := fun hre =>
        (h1.sep hfull).1 (reOld _ (h1.inv.liveLt _ h1.tt.1).1 hre)
      have oldL : ¬ Reach g3 left.apply.head left.label.tail := fun hre =>
        (h1.sep hfull).2 (reOld _ (h1.inv.liveLt _ h1.tl.1).1 hre)
      cases p
      · exact ⟨oldT, oldL⟩
      · refine ⟨fun hre => ?_, oldL⟩
        have := reNew hre
        rw [hqd] at this
        exact (h1.sep hfull).1 this
      · refine ⟨oldT, fun hre => ?_⟩
        have := reNew hre
        rw [hqd] at this
        exact (h1.sep hfull).2 this
    · intro _ s k q' hs hq'
      rw [(hin3 s k q' hs hq').2]
      exact hq.2.2

/-! ### a trained side branch -/

theorem spec_monitor {full : Prop} {m : GraphM Trunk} {S : Scope} (hs : Spec full m S) (a : Actor) (ha : a.stateful = true) :
    Spec full (composeApi (.monitor a) m) (denoteApi (.monitor a) S) := by
  intro g W xa xt xl r hi hw hr
  obtain ⟨left, g1, W1, hrun1, h1⟩ := hs g W xa xt xl r hi hw hr
  let T : Training := ⟨g1.next + 1, g1.next, a, left.train.publisher, left.label.publisher⟩
  let g2 := g1.bump.bump.pushNode ⟨g1.next, .worker (g1.next + 1) a 1 1⟩
  let g3 := g2.pushTrain T
  have hgg := h1.frame.next_le
  have hb1 := h1.inv.bounded
  have hk0 : ∀ u, g1.next ≤ u → g1.kindOf u = none := fun u hu => hb1.kindOf_none hu
  have hin0 : ∀ u k, g1.next ≤ u → g1.inputOf u k = none := fun u k hu => hb1.inputOf_none hu k
  have htr0 : ∀ u, g1.next ≤ u → g1.trainerOf u = none := fun u hu => hb1.trainerOf_none hu
  have hb2 : Bounded g2 := hb1.bump.bump.pushNode _ (by gnext) (by intro _ _ _ _ h; cases h; gnext)
  have hb3 : Bounded g3 := hb2.pushTrain _ (by gnext)
  have hf3 : Frame g1 g3 := ((Frame.refl g1).bump.bump.pushNode _ (Nat.le_refl _)).pushTrain _ (by gnext)
  have hw3 : Wired g3 := (h1.wired.bump.bump.pushNode _).pushTrain _
  have hrun : Run (composeApi (.monitor a) m) g left g3 := by
    unfold composeApi
    refine Run.bind hrun1 (Run.bind (run_newWorker a 1 1 g1) (Run.bind (run_train _ _ _ g2 ha ?_) (Run.pure _ _)))
    glook [htr0]
  have hnl : ∀ u, g1.next ≤ u → ¬ W1.live u := fun u hu h => by have := (h1.inv.liveLt u h).1; omega
  have hi3 : Inv g3 W1 := h1.inv.ofFrame hf3 hb3
  have hin3 : ∀ n k, g1.next ≤ n → g3.inputOf n k = none := by
    intro n k hn
    glook [hin0 n k hn]
  have noNew : ∀ n, g1.next ≤ n → ¬ Reach g3 left.apply.head n := by
    intro n hn hre
    rcases hre.inv with h | ⟨k, q', hq', _⟩
    · have := (h1.inv.liveLt _ h1.ha.live).1; omega
    · rw [hin3 n k hn] at hq'; cases hq'
  have reOld : ∀ n, n < g1.next → Reach g3 left.apply.head n → Reach g1 left.apply.head n :=
    fun n hn h => Reach.old hf3 h1.wired hn h
  refine ⟨left, g3, W1, hrun,
    h1.step hi3 hf3 (Agree.refl _ W1) (fun u hu hl _ => hnl u hu hl) left rfl rfl rfl _ h1.ta h1.tt h1.tl ?_
      (fun u hu hl => absurd hl (hnl u hu)) ?_⟩
  · refine ⟨[T], rfl, ?_, ?_⟩
    · intro x hx
      simp only [List.mem_singleton] at hx
      subst hx
      exact ⟨h1.tt.1, h1.tl.1⟩
    · simp only [denoteApi, List.map_cons, List.map_nil, trainedUnder, trainedState, ha, if_true, T, Segment.publisher]
      rw [h1.tt.2, h1.tl.2]
  · refine ⟨hw3, h1.tails_ge, fun n hn hl => absurd hl (hnl n hn), ?_, ?_, ?_, ?_⟩
    · intro _ n hn hre _
      exact absurd hre (noNew n hn)
    · exact fun hfull => (h1.regTail hfull).mono (hf3.input_mono hb1)
    · intro hfull
      exact ⟨fun hre => (h1.sep hfull).1 (reOld _ (h1.inv.liveLt _ h1.tt.1).1 hre),
        fun hre => (h1.sep hfull).2 (reOld _ (h1.inv.liveLt _ h1.tl.1).1 hre)⟩
    · intro _ s k q' hs hq'
      rw [hin3 s k hs] at hq'; cases hq'

/-! ### an untrained sink on the tail of the train segment -/

theorem spec_tee {full : Prop} {m : GraphM Trunk} {S : Scope} (hs : Spec full m S) (tag : Nat) :
    Spec full (composeApi (.tee tag) m) (denoteApi (.tee tag) S) := by
  intro g W xa xt xl r hi hw hr
  obtain ⟨left, g1, W1, hrun1, h1⟩ := hs g W xa xt xl r hi hw hr
  let g2 := g1.bump.bump.pushNode ⟨g1.next, .worker (g1.next + 1) ⟨tag, false⟩ 1 1⟩
  let g3 := g2.pushEdge ⟨g1.next, 0, left.train.publisher⟩
  have hgg := h1.frame.next_le
  have hb1 := h1.inv.bounded
  have hk0 : ∀ u, g1.next ≤ u → g1.kindOf u = none := fun u hu => hb1.kindOf_none hu
  have hin0 : ∀ u k, g1.next ≤ u → g1.inputOf u k = none := fun u k hu => hb1.inputOf_none hu k
  have hb2 : Bounded g2 := hb1.bump.bump.pushNode _ (by gnext) (by intro _ _ _ _ h; cases h; gnext)
  have hf2 : Frame g1 g2 := (Frame.refl g1).bump.bump.pushNode _ (Nat.le_refl _)
  have hf3 : Frame g1 g3 := hf2.pushEdge _ (Nat.le_refl _)
  have hfree : g2.inputOf g1.next 0 = none := by glook [hin0]
  have htlt : left.train.tail < g1.next := (h1.inv.liveLt _ h1.tt.1).1
  have hw3 : Wired g3 := (h1.wired.bump.bump.pushNode _).pushEdge _ (by show left.train.tail < g1.next + 1 + 1; omega) hfree
  have hrun : Run (composeApi (.tee tag) m) g left g3 := by
    unfold composeApi
    exact Run.bind hrun1 (Run.bind (run_newWorker ⟨tag, false⟩ 1 1 g1) (Run.bind (run_subscribe _ _ _ g2 hfree) (Run.pure _ _)))
  have hnl : ∀ u, g1.next ≤ u → ¬ W1.live u := fun u hu h => by have := (h1.inv.liveLt u h).1; omega
  have hi2 : Inv g2 W1 := h1.inv.ofFrame hf2 hb2
  have hi3 : Inv g3 W1 := hi2.pushEdge_notLive _ (hnl _ (Nat.le_refl _)) (by gnext)
  have hin3 : ∀ n k q', g1.next ≤ n → g3.inputOf n k = some q' → n = g1.next ∧ q' = left.train.publisher := by
    intro n k q' hn hq'
    have : g3.inputOf n k = if g1.next = n ∧ 0 = k then some left.train.publisher else none := by
      glook [hin0 n k hn]
    rw [this] at hq'
    split at hq'
    · rename_i hc; cases hq'; exact ⟨hc.1.symm, rfl⟩
    · cases hq'
  have reOld : ∀ n, n < g1.next → Reach g3 left.apply.head n → Reach g1 left.apply.head n :=
    fun n hn h => Reach.old hf3 h1.wired hn h
  have noNew : full → ∀ n, g1.next ≤ n → ¬ Reach g3 left.apply.head n := by
    intro hfull n hn hre
    rcases hre.inv with h | ⟨k, q', hq', hr'⟩
    · have := (h1.inv.liveLt _ h1.ha.live).1; omega
    · rw [(hin3 n k q' hn hq').2] at hr'
      exact (h1.sep hfull).1 (reOld _ htlt hr')
  refine ⟨left, g3, W1, hrun,
    h1.step hi3 hf3 (Agree.refl _ W1) (fun u hu hl _ => hnl u hu hl) left rfl rfl rfl _ h1.ta h1.tt h1.tl ?_
      (fun u hu hl => absurd hl (hnl u hu)) ?_⟩
  · exact ⟨[], by simp [g3, g2], (fun x hx => by cases hx), by simp [denoteApi]⟩
  · refine ⟨hw3, h1.tails_ge, fun n hn hl => absurd hl (hnl n hn), ?_, ?_, ?_, ?_⟩
    · intro hfull n hn hre _
      exact absurd hre (noNew hfull n hn)
    · exact fun hfull => (h1.regTail hfull).mono (hf3.input_mono hb1)
    · intro hfull
      exact ⟨fun hre => (h1.sep hfull).1 (reOld _ htlt hre),
        fun hre => (h1.sep hfull).2 (reOld _ (h1.inv.liveLt _ h1.tl.1).1 hre)⟩
    · intro _ s k q' hs hq'
      rw [(hin3 s k q' hs hq').2]
      exact h1.tails_ge.2.1

/-! ### labels rewritten from the train-mode features -/

theorem spec_labelMix {full : Prop} {m : GraphM Trunk} {S : Scope} (hs : Spec full m S) (tag : Nat) :
    Spec full (composeApi (.labelMix tag) m) (denoteApi (.labelMix tag) S) := by
  intro g W xa xt xl r hi hw hr
  obtain ⟨left, g1, W1, hrun1, h1⟩ := hs g W xa xt xl r hi hw hr
  obtain ⟨s, hs'⟩ : ∃ s, s = S xa xt xl := ⟨_, rfl⟩
  rw [← hs'] at h1
  let g2 := g1.bump.pushNode ⟨g1.next, .future⟩
  let g3 := g2.bump.bump.pushNode ⟨g1.next + 1, .worker (g1.next + 2) ⟨tag, false⟩ 2 1⟩
  let g4 := g3.pushEdge ⟨g1.next + 1, 0, ⟨g1.next, 0⟩⟩
  let g5 := g4.pushEdge ⟨g1.next + 1, 1, left.train.publisher⟩
  let g6 := g5.pushEdge ⟨g1.next, 0, left.label.publisher⟩
  have hgg := h1.frame.next_le
  have hb1 := h1.inv.bounded
  have hk0 : ∀ u, g1.next ≤ u → g1.kindOf u = none := fun u hu => hb1.kindOf_none hu
  have hin0 : ∀ u k, g1.next ≤ u → g1.inputOf u k = none := fun u k hu => hb1.inputOf_none hu k
  have htlt : left.train.tail < g1.next := (h1.inv.liveLt _ h1.tt.1).1
  have hllt : left.label.tail < g1.next := (h1.inv.liveLt _ h1.tl.1).1
  have hb5 : Bounded g5 :=
    (((hb1.bump.pushNode _ (by gnext) (by intro _ _ _ _ h; cases h)).bump.bump.pushNode _ (by gnext)
      (by intro _ _ _ _ h; cases h; gnext)).pushEdge _ (by gnext)).pushEdge _ (by gnext)
  have hf5 : Frame g1 g5 :=
    ((((Frame.refl g1).bump.pushNode _ (Nat.le_refl _)).bump.bump.pushNode _ (by gnext)).pushEdge _ (by gnext)).pushEdge _
      (by gnext)
  have hf6 : Frame g1 g6 := hf5.pushEdge _ (Nat.le_refl _)
  have hn6 : g6.next = g1.next + 3 := rfl
  have fr4 : g3.inputOf (g1.next + 1) 0 = none := by glook [hin0]
  have fr5 : g4.inputOf (g1.next + 1) 1 = none := by glook [hin0]
  have fr6 : g5.inputOf g1.next 0 = none := by glook [hin0] <;> omega
  have hw6 : Wired g6 :=
    (((((h1.wired.bump.pushNode _).bump.bump.pushNode _).pushEdge _ (by show g1.next < g1.next + 1 + 1 + 1; omega) fr4).pushEdge _
      (by show left.train.tail < g1.next + 1 + 1 + 1; omega) fr5).pushEdge _
      (by show left.label.tail < g1.next + 1 + 1 + 1; omega) fr6)
  have hrun : Run (composeApi (.labelMix tag) m) g ⟨left.apply, left.train, ⟨left.label.head, g1.next + 1⟩⟩ g6 := by
    unfold composeApi
    refine Run.bind hrun1 (Run.bind (run_newFuture g1) (Run.bind (run_newWorker ⟨tag, false⟩ 2 1 g2)
      (Run.bind (run_subscribe _ _ _ g3 fr4) (Run.bind (run_subscribe _ _ _ g4 fr5) ?_))))
    exact run_trunk_extend (run_extendOpt_none _ _) (run_extendOpt_none _ _) (run_extendOpt_seg _ ⟨g1.next, g1.next + 1⟩ _ fr6)
  -- lookups
  have k0 : g5.kindOf g1.next = some .future := by glook [hk0]
  have k1 : g5.kindOf (g1.next + 1) = some (.worker (g1.next + 2) ⟨tag, false⟩ 2 1) := by glook [hk0]
  have i10 : g5.inputOf (g1.next + 1) 0 = some ⟨g1.next, 0⟩ := by glook [hin0]
  have i11 : g5.inputOf (g1.next + 1) 1 = some left.train.publisher := by glook [hin0]
  have in6 : ∀ n k q', g1.next ≤ n → g6.inputOf n k = some q' →
      (n = g1.next + 1 ∧ (q' = ⟨g1.next, 0⟩ ∨ q' = left.train.publisher)) ∨ (n = g1.next ∧ q' = left.label.publisher) := by
    intro n k q' hn hq'
    rcases inputOf_pushEdge_some' hq' with h | ⟨e1, _, e3⟩
    · rcases inputOf_pushEdge_some' h with h | ⟨e1, _, e3⟩
      · rcases inputOf_pushEdge_some' h with h | ⟨e1, _, e3⟩
        · have : g1.inputOf n k = some q' := h
          rw [hin0 n k hn] at this; cases this
        · exact Or.inl ⟨e1.symm, Or.inl e3.symm⟩
      · exact Or.inl ⟨e1.symm, Or.inr e3.symm⟩
    · exact Or.inr ⟨e1.symm, e3.symm⟩
  have hnl : ∀ u, g1.next ≤ u → ¬ W1.live u := fun u hu h => by have := (h1.inv.liveLt u h).1; omega
  obtain ⟨R, hR⟩ : ∃ R, R = r + (g1.next - g.next) := ⟨_, rfl⟩
  have rkT : RefOk W1 left.train.publisher R := ⟨h1.tt.1, by rw [hR]; exact h1.rank _ h1.tails_ge.2.1 h1.tt.1⟩
  have rkL : RefOk W1 left.label.publisher R := ⟨h1.tl.1, by rw [hR]; exact h1.rank _ h1.tails_ge.2.2 h1.tl.1⟩
  have hi5 : Inv g5 W1 := h1.inv.ofFrame hf5 hb5
  -- the head of the label segment: a hole carrying the labels
  have hiA := hi5.liveHole g1.next s.label R ⟨k0, fr6⟩ (hnl _ (Nat.le_refl _)) (by show R < g1.next + 1 + 1 + 1; omega)
  obtain ⟨WA, hWA⟩ : ∃ x, x = W1.set g1.next (fun _ => s.label) R := ⟨_, rfl⟩
  rw [← hWA] at hiA
  have keepA : ∀ q' : PubRef, W1.live q'.node → WA.live q'.node ∧ WA.σ q' = W1.σ q' ∧ WA.h q'.node = W1.h q'.node := by
    intro q' hq'
    have : q'.node ≠ g1.next := fun e => hnl _ (Nat.le_refl _) (e ▸ hq')
    rw [hWA]
    exact ⟨Or.inr hq', set_σ_other _ _ _ _ _ this, set_h_other _ _ _ _ _ this⟩
  have hnlA : ¬ WA.live (g1.next + 1) := by
    rw [hWA]; intro h; rcases h with h | h
    · omega
    · exact hnl _ (by omega) h
  -- the mixer
  have hiB := hiA.liveWorker (g1.next + 1) (g1.next + 2) ⟨tag, false⟩ 2 1
    (fun k => if k = 0 then ⟨g1.next, 0⟩ else left.train.publisher) (R + 1) .none k1 hnlA
    (by show R + 1 < g1.next + 1 + 1 + 1; omega)
    (by
      intro k hk
      by_cases hk0' : k = 0
      · subst hk0'
        simp only [if_true]
        refine ⟨i10, ?_, ?_⟩
        · rw [hWA]; exact Or.inl rfl
        · show WA.h g1.next < R + 1
          rw [hWA, set_h_self]; omega
      · have : k = 1 := by omega
        subst this
        simp only [hk0', if_false]
        obtain ⟨a1, _, a3⟩ := keepA _ rkT.1
        exact ⟨i11, a1, by rw [a3]; have := rkT.2; omega⟩)
    (StateFor.stateless rfl)
  obtain ⟨WB, hWB⟩ : ∃ x, x = WA.set (g1.next + 1) (fun i => portVal 1 i (.apply tag .none ((List.range 2).map
      (fun k => WA.σ (if k = 0 then (⟨g1.next, 0⟩ : PubRef) else left.train.publisher))))) (R + 1) := ⟨_, rfl⟩
  have hiB' : Inv g5 WB := by rw [hWB]; exact hiB
  have keepB : ∀ q' : PubRef, WA.live q'.node → WB.live q'.node ∧ WB.σ q' = WA.σ q' ∧ WB.h q'.node = WA.h q'.node := by
    intro q' hq'
    have : q'.node ≠ g1.next + 1 := fun e => hnlA (e ▸ hq')
    rw [hWB]
    exact ⟨Or.inr hq', set_σ_other _ _ _ _ _ this, set_h_other _ _ _ _ _ this⟩
  have keep : ∀ q' : PubRef, W1.live q'.node → WB.live q'.node ∧ WB.σ q' = W1.σ q' ∧ WB.h q'.node = W1.h q'.node := by
    intro q' hq'
    obtain ⟨a1, a2, a3⟩ := keepA q' hq'
    obtain ⟨b1, b2, b3⟩ := keepB q' a1
    exact ⟨b1, by rw [b2, a2], by rw [b3, a3]⟩
  have lA : WA.live g1.next := by rw [hWA]; exact Or.inl rfl
  have liveB : ∀ u, WB.live u ↔ (u = g1.next + 1 ∨ u = g1.next ∨ W1.live u) := by
    intro u; rw [hWB, hWA]; exact Iff.rfl
  have σA : ∀ i, WB.σ ⟨g1.next, i⟩ = s.label := by
    intro i
    rw [(keepB ⟨g1.next, i⟩ lA).2.1, hWA, set_σ_self]
  have hA : WB.h g1.next = R := by rw [(keepB ⟨g1.next, 0⟩ lA).2.2, hWA, set_h_self]
  have σB : WB.σ ⟨g1.next + 1, 0⟩ = .apply tag .none [s.label, s.train] := by
    rw [hWB, set_σ_self]
    have e0 : WA.σ ⟨g1.next, 0⟩ = s.label := by rw [hWA, set_σ_self]
    have e1 : WA.σ left.train.publisher = s.train := by rw [(keepA _ h1.tt.1).2.1]; exact h1.tt.2
    simp [portVal, List.range, List.range.loop, e0, e1]
  have hB : WB.h (g1.next + 1) = R + 1 := by rw [hWB, set_h_self]
  -- bind the head to the label tail
  have hi6 : Inv g6 WB := hiB'.bindFuture g1.next left.label.publisher ((liveB _).mpr (Or.inr (Or.inl rfl))) ⟨k0, fr6⟩
    (by rw [hA]; obtain ⟨a1, _, a3⟩ := keep _ rkL.1; exact ⟨a1, by rw [a3]; exact rkL.2⟩)
    (fun i => by rw [σA i, (keep _ h1.tl.1).2.1]; exact h1.tl.2.symm)
  have hag : Agree g1.next W1 WB := by
    rw [hWB, hWA]
    exact ((Agree.refl _ W1).set _ _ _ (Nat.le_refl _)).set _ _ _ (by omega)
  -- reachability
  have reOld : ∀ n, n < g1.next → Reach g6 left.apply.head n → Reach g1 left.apply.head n :=
    fun n hn h => Reach.old hf6 h1.wired hn h
  have noNew : full → ∀ n, g1.next ≤ n → ¬ Reach g6 left.apply.head n := by
    intro hfull n hn hre
    induction hre with
    | refl => have := (h1.inv.liveLt _ h1.ha.live).1; omega
    | step hp he ih =>
      rename_i p s' k i
      rcases in6 s' k _ hn he with ⟨_, h | h⟩ | ⟨_, h⟩
      · have : p = g1.next := congrArg PubRef.node h
        exact ih (by omega)
      · have : p = left.train.tail := congrArg PubRef.node h
        exact (h1.sep hfull).1 (reOld _ htlt (this ▸ hp))
      · have : p = left.label.tail := congrArg PubRef.node h
        exact (h1.sep hfull).2 (reOld _ hllt (this ▸ hp))
  refine ⟨_, g6, WB, hrun,
    h1.step hi6 hf6 hag ?_ ⟨left.apply, left.train, ⟨left.label.head, g1.next + 1⟩⟩ rfl rfl rfl
      (denoteApi (.labelMix tag) S xa xt xl) ?_ ?_ ?_ ?_ ?_ ?_⟩
  · intro u hu hl ho
    rcases (liveB u).mp hl with e | e | h
    · subst e; rw [Graph.isOpen] at ho
      have : g6.kindOf (g1.next + 1) = g5.kindOf (g1.next + 1) := rfl
      rw [this, k1] at ho; cases ho.1
    · subst e
      have : g6.inputOf g1.next 0 = some left.label.publisher := by
        show (g5.pushEdge _).inputOf g1.next 0 = _
        rw [inputOf_pushEdge, fr6]; simp
      rw [ho.2] at this; cases this
    · exact hnl u hu h
  · obtain ⟨a1, a2, _⟩ := keep ⟨_, 0⟩ h1.ta.1
    exact ⟨a1, by rw [a2, h1.ta.2, hs']; rfl⟩
  · obtain ⟨a1, a2, _⟩ := keep ⟨_, 0⟩ h1.tt.1
    exact ⟨a1, by rw [a2, h1.tt.2, hs']; rfl⟩
  · exact ⟨(liveB _).mpr (Or.inl rfl), by rw [σB, hs']; rfl⟩
  · exact ⟨[], by simp [g6, g5, g4, g3, g2], (fun x hx => by cases hx), by rw [hs']; simp [denoteApi]⟩
  · intro u hu hl gid a' i o hk
    rcases (liveB u).mp hl with e | e | h
    · subst e
      have : g6.kindOf (g1.next + 1) = g5.kindOf (g1.next + 1) := rfl
      rw [this, k1] at hk; cases hk; omega
    · subst e
      have : g6.kindOf g1.next = g5.kindOf g1.next := rfl
      rw [this, k0] at hk; cases hk
    · exact absurd h (hnl u hu)
  · refine ⟨hw6, ⟨h1.tails_ge.1, h1.tails_ge.2.1, by show g.next ≤ g1.next + 1; omega⟩, ?_, ?_, ?_, ?_, ?_⟩
    · intro n hn hl
      rcases (liveB n).mp hl with e | e | h
      · subst e; rw [hB, hn6, hR]; omega
      · subst e; rw [hA, hn6, hR]; omega
      · exact absurd h (hnl n hn)
    · intro hfull n hn hre _
      exact absurd hre (noNew hfull n hn)
    · exact fun hfull => (h1.regTail hfull).mono (hf6.input_mono hb1)
    · intro hfull
      exact ⟨fun hre => (h1.sep hfull).1 (reOld _ htlt hre), fun hre => noNew hfull _ (by show g1.next ≤ g1.next + 1; omega) hre⟩
    · intro _ s' k q' hs'' hq'
      rcases in6 s' k q' hs'' hq' with ⟨_, h | h⟩ | ⟨_, h⟩
      · rw [h]; show g.next ≤ g1.next; omega
      · rw [h]; exact h1.tails_ge.2.1
      · rw [h]; exact h1.tails_ge.2.2

/-! ### all of them -/

theorem GraphM.bind_assoc' {α β γ} (m : GraphM α) (f : α → GraphM β) (k : β → GraphM γ) :
    (m >>= f) >>= k = m >>= fun a => f a >>= k := by
  funext g
  simp only [bind_apply]
  cases m g with
  | error e => rfl
  | ok r => rfl

theorem GraphM.bind_pure' {α} (m : GraphM α) : (m >>= pure) = m := by
  funext g
  simp only [bind_apply]
  cases h : m g with
  | error e => rfl
  | ok r => cases r; rfl

/-- one optional `extend(<path>=worker)` on top of a scope -/
def mapPath (p : Path) (o : Option Nat) (S : Scope) : Scope := fun xa xt xl =>
  match o with
  | none => S xa xt xl
  | some t => (S xa xt xl).set p (.apply t .none [(S xa xt xl).get p])

theorem spec_apiUnaryOpt {full : Prop} {m : GraphM Trunk} {S : Scope} (hs : Spec full m S) (p : Path) (via : Bool)
    (o : Option Nat) : Spec full (m >>= apiUnaryOpt p via o) (mapPath p o S) := by
  cases o with
  | none =>
    have : (m >>= apiUnaryOpt p via none) = m := GraphM.bind_pure' m
    rw [this]
    exact hs
  | some t =>
    have h := spec_apiUnary hs p t
    cases via with
    | false => exact h
    | true =>
      have : (m >>= apiUnaryOpt p true (some t)) = (m >>= apiUnaryOpt p false (some t)) := by
        congr 1
        funext left
        exact apiUnary_use p t left
      rw [this]
      exact h

theorem denoteApi_extend (oa ot ol : Option Nat) (via : Bool) (S : Scope) :
    denoteApi (.extend oa ot ol via) S = mapPath .label ol (mapPath .train ot (mapPath .apply oa S)) := by
  funext xa xt xl
  cases oa <;> cases ot <;> cases ol <;> rfl

theorem composeApi_extend (oa ot ol : Option Nat) (via : Bool) (m : GraphM Trunk) :
    composeApi (.extend oa ot ol via) m =
      ((m >>= apiUnaryOpt .apply via oa) >>= apiUnaryOpt .train via ot) >>= apiUnaryOpt .label via ol := by
  rw [GraphM.bind_assoc', GraphM.bind_assoc']
  rfl

/-- **every operator of the family realises its denotation** (`monitor`: a trained actor is stateful) -/
theorem spec_api {full : Prop} {m : GraphM Trunk} {S : Scope} (hs : Spec full m S) (op : ApiOp)
    (hop : ∀ a, op = .monitor a → a.stateful = true) : Spec full (composeApi op m) (denoteApi op S) := by
  cases op with
  | extend oa ot ol via =>
    rw [composeApi_extend, denoteApi_extend]
    exact spec_apiUnaryOpt (spec_apiUnaryOpt (spec_apiUnaryOpt hs .apply via oa) .train via ot) .label via ol
  | labelMix tag => exact spec_labelMix hs tag
  | monitor a => exact spec_monitor hs a (hop a rfl)
  | tee tag => exact spec_tee hs tag

/-- `Trunk.extend` / `Trunk.use` keep an omitted segment as it is — head and tail -/
theorem trunk_extend_omitted (t : Trunk) (a tr l : Option Segment) (g : Graph) (t' : Trunk) (g' : Graph)
    (h : Run (t.extend a tr l) g t' g') :
    (a = none → t'.apply = t.apply) ∧ (tr = none → t'.train = t.train) ∧ (l = none → t'.label = t.label) := by
  unfold Run Trunk.extend at h
  simp only [bind_apply] at h
  cases ha : Trunk.extendOpt t.apply a g with
  | error e => simp [ha] at h
  | ok r1 =>
    obtain ⟨s1, g1⟩ := r1
    simp only [ha] at h
    cases hb : Trunk.extendOpt t.train tr g1 with
    | error e => simp [hb] at h
    | ok r2 =>
      obtain ⟨s2, g2⟩ := r2
      simp only [hb] at h
      cases hc : Trunk.extendOpt t.label l g2 with
      | error e => simp [hc] at h
      | ok r3 =>
        obtain ⟨s3, g3⟩ := r3
        simp only [hc, pure_apply] at h
        injection h with h
        injection h with h1 h2
        subst h1
        refine ⟨?_, ?_, ?_⟩
        · intro e; subst e
          have : Trunk.extendOpt t.apply none g = .ok (t.apply, g) := rfl
          rw [this] at ha; injection ha with ha; injection ha with e1 _; exact e1.symm
        · intro e; subst e
          have : Trunk.extendOpt t.train none g1 = .ok (t.train, g1) := rfl
          rw [this] at hb; injection hb with hb; injection hb with e1 _; exact e1.symm
        · intro e; subst e
          have : Trunk.extendOpt t.label none g2 = .ok (t.label, g2) := rfl
          rw [this] at hc; injection hc with hc; injection hc with e1 _; exact e1.symm

end ForML.Compose
