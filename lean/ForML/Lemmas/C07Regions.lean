/-
C07: what the hypotheses `tame` and `resolvable` of the partial theorems exclude, exactly.

  `Source.tame_iff_consulted`     `tame` ⟺ no table with a repeated field name ∧ every consulted source is `plain`
  `Source.plain_eq`               `plain` = named ∧ distinct (`plainN`) ∧ `kinded`
  `Source.tame_false_iff`         `¬ tame` ⟺ `dupTable ∨ unnamedAt ∨ duplicateAt ∨ unkindedAt`
  `Source.kinded_of_resolvable`   every output of a `resolvable` source has a kind (no `wf` / `tame` needed)
  `Source.unkindedAt_of_resolvable`  hence `resolvable` ⇒ `¬ unkindedAt`
  `Source.resolvable_iff_regions` `resolvable` ⟺ `¬ unknownElement ∧ ¬ illTypedCall`
-/
import ForML.Model.GrammarNorm
import ForML.Lemmas.C07ErrKind

namespace ForML.Dsl

/-! ### `tame` unfolded -/

theorem Source.plain_eq (s : Source) : s.plain = (s.plainN && s.kinded) := by
  unfold Source.plain Source.plainN Source.kinded
  rw [Bool.eq_iff_iff]
  simp only [Bool.and_eq_true, List.all_eq_true, decide_eq_true_eq]
  constructor
  · rintro ⟨⟨h1, h2⟩, h3⟩
    exact ⟨⟨⟨h1, fun p hp => (h2 p hp).1⟩, h3⟩, fun p hp => (h2 p hp).2⟩
  · rintro ⟨⟨⟨h1, h2⟩, h3⟩, h4⟩
    exact ⟨⟨h1, fun p hp => ⟨h2 p hp, h4 p hp⟩⟩, h3⟩

mutual
theorem Feature.tame_iff_consulted : (f : Feature) →
    (f.tame = true ↔ f.dupTable = false ∧ ∀ x ∈ f.consulted, x.plain = true)
  | .lit _ => by simp [Feature.tame, Feature.dupTable, Feature.consulted]
  | .elem o n => by
    simp only [Feature.tame, Feature.dupTable, Feature.consulted, Bool.and_eq_true, Source.tame_iff_consulted o,
      List.mem_append, List.mem_singleton]
    constructor
    · rintro ⟨⟨h1, h2⟩, h3⟩
      exact ⟨h1, fun x hx => hx.elim (h2 x) (fun e => e ▸ h3)⟩
    · rintro ⟨h1, h2⟩
      exact ⟨⟨h1, fun x hx => h2 x (Or.inl hx)⟩, h2 o (Or.inr rfl)⟩
  | .alias f n => by simp only [Feature.tame, Feature.dupTable, Feature.consulted, Feature.tame_iff_consulted f]
  | .expr op args => by simp only [Feature.tame, Feature.dupTable, Feature.consulted, Features.tame_iff_consulted args]
  | .cast f k => by simp only [Feature.tame, Feature.dupTable, Feature.consulted, Feature.tame_iff_consulted f]
  | .window fn ps os => by
    simp only [Feature.tame, Feature.dupTable, Feature.consulted, Bool.and_eq_true, Feature.tame_iff_consulted fn,
      Features.tame_iff_consulted ps, Orderings.tame_iff_consulted os, List.mem_append, Bool.or_eq_false_iff]
    constructor
    · rintro ⟨⟨⟨a1, a2⟩, ⟨b1, b2⟩⟩, ⟨c1, c2⟩⟩
      exact ⟨⟨⟨a1, b1⟩, c1⟩, fun x hx => hx.elim (fun h => h.elim (a2 x) (b2 x)) (c2 x)⟩
    · rintro ⟨⟨⟨a1, b1⟩, c1⟩, h⟩
      exact ⟨⟨⟨a1, fun x hx => h x (Or.inl (Or.inl hx))⟩, ⟨b1, fun x hx => h x (Or.inl (Or.inr hx))⟩⟩,
        ⟨c1, fun x hx => h x (Or.inr hx)⟩⟩
theorem Features.tame_iff_consulted : (fs : Features) →
    (fs.tame = true ↔ fs.dupTable = false ∧ ∀ x ∈ fs.consulted, x.plain = true)
  | .nil => by simp [Features.tame, Features.dupTable, Features.consulted]
  | .cons f fs => by
    simp only [Features.tame, Features.dupTable, Features.consulted, Bool.and_eq_true, Feature.tame_iff_consulted f,
      Features.tame_iff_consulted fs, List.mem_append, Bool.or_eq_false_iff]
    constructor
    · rintro ⟨⟨a1, a2⟩, ⟨b1, b2⟩⟩
      exact ⟨⟨a1, b1⟩, fun x hx => hx.elim (a2 x) (b2 x)⟩
    · rintro ⟨⟨a1, b1⟩, h⟩
      exact ⟨⟨a1, fun x hx => h x (Or.inl hx)⟩, ⟨b1, fun x hx => h x (Or.inr hx)⟩⟩
theorem FeatureOpt.tame_iff_consulted : (c : FeatureOpt) →
    (c.tame = true ↔ c.dupTable = false ∧ ∀ x ∈ c.consulted, x.plain = true)
  | .none => by simp [FeatureOpt.tame, FeatureOpt.dupTable, FeatureOpt.consulted]
  | .some f => by simp only [FeatureOpt.tame, FeatureOpt.dupTable, FeatureOpt.consulted, Feature.tame_iff_consulted f]
theorem Ordering.tame_iff_consulted : (o : Ordering) →
    (o.tame = true ↔ o.dupTable = false ∧ ∀ x ∈ o.consulted, x.plain = true)
  | .mk f d => by simp only [Ordering.tame, Ordering.dupTable, Ordering.consulted, Feature.tame_iff_consulted f]
theorem Orderings.tame_iff_consulted : (os : Orderings) →
    (os.tame = true ↔ os.dupTable = false ∧ ∀ x ∈ os.consulted, x.plain = true)
  | .nil => by simp [Orderings.tame, Orderings.dupTable, Orderings.consulted]
  | .cons o os => by
    simp only [Orderings.tame, Orderings.dupTable, Orderings.consulted, Bool.and_eq_true, Ordering.tame_iff_consulted o,
      Orderings.tame_iff_consulted os, List.mem_append, Bool.or_eq_false_iff]
    constructor
    · rintro ⟨⟨a1, a2⟩, ⟨b1, b2⟩⟩
      exact ⟨⟨a1, b1⟩, fun x hx => hx.elim (a2 x) (b2 x)⟩
    · rintro ⟨⟨a1, b1⟩, h⟩
      exact ⟨⟨a1, fun x hx => h x (Or.inl hx)⟩, ⟨b1, fun x hx => h x (Or.inr hx)⟩⟩
theorem Source.tame_iff_consulted : (s : Source) →
    (s.tame = true ↔ s.dupTable = false ∧ ∀ x ∈ s.consulted, x.plain = true)
  | .table n fs => by simp [Source.tame, Source.dupTable, Source.consulted]
  | .ref i n => by
    simp only [Source.tame, Source.dupTable, Source.consulted, Bool.and_eq_true, Source.tame_iff_consulted i,
      List.mem_append, List.mem_singleton]
    constructor
    · rintro ⟨⟨h1, h2⟩, h3⟩
      exact ⟨h1, fun x hx => hx.elim (h2 x) (fun e => e ▸ h3)⟩
    · rintro ⟨h1, h2⟩
      exact ⟨⟨h1, fun x hx => h2 x (Or.inl hx)⟩, h2 i (Or.inr rfl)⟩
  | .join l r k c => by
    simp only [Source.tame, Source.dupTable, Source.consulted, Bool.and_eq_true, Source.tame_iff_consulted l,
      Source.tame_iff_consulted r, FeatureOpt.tame_iff_consulted c, List.mem_append, Bool.or_eq_false_iff]
    constructor
    · rintro ⟨⟨⟨a1, a2⟩, ⟨b1, b2⟩⟩, ⟨c1, c2⟩⟩
      exact ⟨⟨⟨a1, b1⟩, c1⟩, fun x hx => hx.elim (fun h => h.elim (a2 x) (b2 x)) (c2 x)⟩
    · rintro ⟨⟨⟨a1, b1⟩, c1⟩, h⟩
      exact ⟨⟨⟨a1, fun x hx => h x (Or.inl (Or.inl hx))⟩, ⟨b1, fun x hx => h x (Or.inl (Or.inr hx))⟩⟩,
        ⟨c1, fun x hx => h x (Or.inr hx)⟩⟩
  | .set l r k => by
    simp only [Source.tame, Source.dupTable, Source.consulted, Bool.and_eq_true, Source.tame_iff_consulted l,
      Source.tame_iff_consulted r, List.mem_append, List.mem_cons, List.not_mem_nil, or_false, Bool.or_eq_false_iff]
    constructor
    · rintro ⟨⟨⟨⟨a1, a2⟩, ⟨b1, b2⟩⟩, hl⟩, hr⟩
      refine ⟨⟨a1, b1⟩, fun x hx => ?_⟩
      rcases hx with (hx | hx) | hx | hx
      · exact a2 x hx
      · exact b2 x hx
      · exact hx ▸ hl
      · exact hx ▸ hr
    · rintro ⟨⟨a1, b1⟩, h⟩
      exact ⟨⟨⟨⟨a1, fun x hx => h x (Or.inl (Or.inl hx))⟩, ⟨b1, fun x hx => h x (Or.inl (Or.inr hx))⟩⟩,
        h l (Or.inr (Or.inl rfl))⟩, h r (Or.inr (Or.inr rfl))⟩
  | .query s sel pre grp post ord rows => by
    simp only [Source.tame, Source.dupTable, Source.consulted, Bool.and_eq_true, Source.tame_iff_consulted s,
      Features.tame_iff_consulted sel, FeatureOpt.tame_iff_consulted pre, Features.tame_iff_consulted grp,
      FeatureOpt.tame_iff_consulted post, Orderings.tame_iff_consulted ord, List.mem_append, Bool.or_eq_false_iff]
    constructor
    · rintro ⟨⟨⟨⟨⟨⟨a1, a2⟩, ⟨b1, b2⟩⟩, ⟨c1, c2⟩⟩, ⟨d1, d2⟩⟩, ⟨e1, e2⟩⟩, ⟨f1, f2⟩⟩
      refine ⟨⟨⟨⟨⟨⟨a1, b1⟩, c1⟩, d1⟩, e1⟩, f1⟩, fun x hx => ?_⟩
      rcases hx with ((((hx | hx) | hx) | hx) | hx) | hx
      · exact a2 x hx
      · exact b2 x hx
      · exact c2 x hx
      · exact d2 x hx
      · exact e2 x hx
      · exact f2 x hx
    · rintro ⟨⟨⟨⟨⟨⟨a1, b1⟩, c1⟩, d1⟩, e1⟩, f1⟩, h⟩
      exact ⟨⟨⟨⟨⟨⟨a1, fun x hx => h x (Or.inl (Or.inl (Or.inl (Or.inl (Or.inl hx)))))⟩,
        ⟨b1, fun x hx => h x (Or.inl (Or.inl (Or.inl (Or.inl (Or.inr hx)))))⟩⟩,
        ⟨c1, fun x hx => h x (Or.inl (Or.inl (Or.inl (Or.inr hx))))⟩⟩,
        ⟨d1, fun x hx => h x (Or.inl (Or.inl (Or.inr hx)))⟩⟩,
        ⟨e1, fun x hx => h x (Or.inl (Or.inr hx))⟩⟩,
        ⟨f1, fun x hx => h x (Or.inr hx)⟩⟩
end

/-- `tame` fails exactly in four regions -/
theorem Source.tame_false_iff (r : Source) :
    r.tame = false ↔ (r.dupTable = true ∨ r.unnamedAt = true ∨ r.duplicateAt = true ∨ r.unkindedAt = true) := by
  rw [← Bool.not_eq_true, Source.tame_iff_consulted]
  simp only [Source.unnamedAt, Source.duplicateAt, Source.unkindedAt, List.any_eq_true,
    Bool.not_eq_eq_eq_not, Bool.not_true]
  constructor
  · intro h
    by_cases hd : r.dupTable = true
    · exact Or.inl hd
    · have hd' : r.dupTable = false := by simpa using hd
      have : ¬ ∀ x ∈ r.consulted, x.plain = true := fun h' => h ⟨hd', h'⟩
      simp only [Classical.not_forall] at this
      obtain ⟨x, hx, hp⟩ := this
      have hp' : x.plain = false := by simpa using hp
      rw [Source.plain_eq] at hp'
      simp only [Source.plainN, Bool.and_eq_false_iff] at hp'
      rcases hp' with (hp' | hp') | hp'
      · exact Or.inr (Or.inl ⟨x, hx, Bool.and_eq_false_iff.mpr hp'⟩)
      · exact Or.inr (Or.inr (Or.inl ⟨x, hx, by simpa using hp'⟩))
      · exact Or.inr (Or.inr (Or.inr ⟨x, hx, hp'⟩))
  · rintro (hd | ⟨x, hx, hp⟩ | ⟨x, hx, hp⟩ | ⟨x, hx, hp⟩) ⟨hd', h⟩
    · rw [hd] at hd'
      cases hd'
    all_goals
      have := h x hx
      rw [Source.plain_eq] at this
      simp only [Source.plainN, Bool.and_eq_true] at this
      simp_all

/-! ### `resolvable` scripts have kinds everywhere -/

theorem sigLookup_some_of_any (n : String) : (sg : List (Option String × Option Kind)) →
    sg.all (fun p => p.2.isSome) = true → sg.any (fun p => p.1 == some n) = true → ∃ k, sigLookup n sg = some k
  | [], _, h => by simp at h
  | (m, k) :: rest, hk, h => by
    simp only [List.all_cons, Bool.and_eq_true] at hk
    simp only [List.any_cons, Bool.or_eq_true, beq_iff_eq] at h
    simp only [sigLookup]
    by_cases hm : m = some n
    · simp only [hm, if_true]
      exact Option.isSome_iff_exists.mp hk.1
    · simp only [hm, if_false]
      rcases h with h | h
      · exact absurd h hm
      · exact sigLookup_some_of_any n rest hk.2 h

mutual
theorem Feature.kindS_of_resolvable : (f : Feature) → f.resolvable = true → ∃ k, f.kindS = some k
  | .lit v, _ => ⟨_, rfl⟩
  | .elem o n, hr => by
    simp only [Feature.resolvable, Bool.and_eq_true] at hr
    simp only [Feature.kindS]
    exact sigLookup_some_of_any n o.sig (Source.kinded_of_resolvable o hr.1) hr.2
  | .alias f n, hr => by
    simp only [Feature.resolvable] at hr
    simp only [Feature.kindS]
    exact Feature.kindS_of_resolvable f hr
  | .cast f k, _ => ⟨k, rfl⟩
  | .window fn ps os, hr => by
    simp only [Feature.resolvable, Bool.and_eq_true, Bool.or_eq_true, beq_iff_eq] at hr
    simp only [Feature.kindS]
    by_cases h : fn = .expr .rownumber .nil
    · subst h
      exact ⟨.integer, by simp [Feature.kindS, Op.group]⟩
    · have h2 : fn.resolvable = true := by
        rcases hr.1.1 with h' | h'
        · exact absurd h' h
        · exact h'
      exact Feature.kindS_of_resolvable fn h2
  | .expr op args, hr => by
    simp only [Feature.resolvable, Bool.and_eq_true, decide_eq_true_eq] at hr
    cases hg : op.group <;> simp only [Feature.kindS, hg] <;> try exact ⟨_, rfl⟩
    obtain ⟨ks, hks, hlen⟩ := Features.kindsS_of_resolvable args hr.1.1
    have hpos := Op.arity_pos_of_arith op hg
    rw [hks, mapM_id_map_some]
    cases ks with
    | nil =>
      simp only [List.length_nil] at hlen
      omega
    | cons k rest => exact ⟨rest.foldl maxRank k, by simp [largest_foldl]⟩
theorem Features.kindsS_of_resolvable : (fs : Features) → fs.resolvable = true →
    ∃ ks : List Kind, fs.kindsS = ks.map some ∧ ks.length = fs.toList.length
  | .nil, _ => ⟨[], rfl, rfl⟩
  | .cons f fs, hr => by
    simp only [Features.resolvable, Bool.and_eq_true] at hr
    obtain ⟨k, hk⟩ := Feature.kindS_of_resolvable f hr.1
    obtain ⟨ks, hks, hl⟩ := Features.kindsS_of_resolvable fs hr.2
    exact ⟨k :: ks, by simp [Features.kindsS, hk, hks], by simp [Features.toList, hl]⟩
theorem Features.sigOf_kinded : (fs : Features) → fs.resolvable = true → fs.sigOf.all (fun p => p.2.isSome) = true
  | .nil, _ => rfl
  | .cons f fs, hr => by
    simp only [Features.resolvable, Bool.and_eq_true] at hr
    obtain ⟨k, hk⟩ := Feature.kindS_of_resolvable f hr.1
    simp [Features.sigOf, hk, Features.sigOf_kinded fs hr.2]
theorem Source.kinded_of_resolvable : (s : Source) → s.resolvable = true → s.sig.all (fun p => p.2.isSome) = true
  | .table n fs, _ => by simp [Source.sig]
  | .ref i n, hr => by
    simp only [Source.resolvable] at hr
    simpa [Source.sig] using Source.kinded_of_resolvable i hr
  | .join l r k c, hr => by
    simp only [Source.resolvable, Bool.and_eq_true] at hr
    simp only [Source.sig, List.all_append, Bool.and_eq_true]
    exact ⟨Source.kinded_of_resolvable l hr.1.1, Source.kinded_of_resolvable r hr.1.2⟩
  | .set l r k, hr => by
    simp only [Source.resolvable, Bool.and_eq_true] at hr
    simpa [Source.sig] using Source.kinded_of_resolvable l hr.1
  | .query s sel pre grp post ord rows, hr => by
    simp only [Source.resolvable, Bool.and_eq_true] at hr
    simp only [Source.sig]
    split
    · exact Source.kinded_of_resolvable s hr.1.1.1.1.1
    · exact Features.sigOf_kinded sel hr.1.1.1.1.2
end

mutual
theorem Feature.consulted_resolvable : (f : Feature) → f.resolvable = true → ∀ x ∈ f.consulted, x.resolvable = true
  | .lit _, _ => by simp [Feature.consulted]
  | .elem o n, hr => by
    simp only [Feature.resolvable, Bool.and_eq_true] at hr
    simp only [Feature.consulted, List.mem_append, List.mem_singleton]
    rintro x (hx | rfl)
    · exact Source.consulted_resolvable o hr.1 x hx
    · exact hr.1
  | .alias f n, hr => by
    simp only [Feature.resolvable] at hr
    simpa [Feature.consulted] using Feature.consulted_resolvable f hr
  | .expr op args, hr => by
    simp only [Feature.resolvable, Bool.and_eq_true] at hr
    simpa [Feature.consulted] using Features.consulted_resolvable args hr.1.1
  | .cast f k, hr => by
    simp only [Feature.resolvable] at hr
    simpa [Feature.consulted] using Feature.consulted_resolvable f hr
  | .window fn ps os, hr => by
    simp only [Feature.resolvable, Bool.and_eq_true, Bool.or_eq_true, beq_iff_eq] at hr
    simp only [Feature.consulted, List.mem_append]
    rintro x ((hx | hx) | hx)
    · rcases hr.1.1 with h | h
      · subst h
        simp [Feature.consulted, Features.consulted] at hx
      · exact Feature.consulted_resolvable fn h x hx
    · exact Features.consulted_resolvable ps hr.1.2 x hx
    · exact Orderings.consulted_resolvable os hr.2 x hx
theorem Features.consulted_resolvable : (fs : Features) → fs.resolvable = true → ∀ x ∈ fs.consulted, x.resolvable = true
  | .nil, _ => by simp [Features.consulted]
  | .cons f fs, hr => by
    simp only [Features.resolvable, Bool.and_eq_true] at hr
    simp only [Features.consulted, List.mem_append]
    rintro x (hx | hx)
    · exact Feature.consulted_resolvable f hr.1 x hx
    · exact Features.consulted_resolvable fs hr.2 x hx
theorem FeatureOpt.consulted_resolvable : (c : FeatureOpt) → c.resolvable = true → ∀ x ∈ c.consulted, x.resolvable = true
  | .none, _ => by simp [FeatureOpt.consulted]
  | .some f, hr => by
    simp only [FeatureOpt.resolvable] at hr
    simpa [FeatureOpt.consulted] using Feature.consulted_resolvable f hr
theorem Ordering.consulted_resolvable : (o : Ordering) → o.resolvable = true → ∀ x ∈ o.consulted, x.resolvable = true
  | .mk f d, hr => by
    simp only [Ordering.resolvable] at hr
    simpa [Ordering.consulted] using Feature.consulted_resolvable f hr
theorem Orderings.consulted_resolvable : (os : Orderings) → os.resolvable = true → ∀ x ∈ os.consulted, x.resolvable = true
  | .nil, _ => by simp [Orderings.consulted]
  | .cons o os, hr => by
    simp only [Orderings.resolvable, Bool.and_eq_true] at hr
    simp only [Orderings.consulted, List.mem_append]
    rintro x (hx | hx)
    · exact Ordering.consulted_resolvable o hr.1 x hx
    · exact Orderings.consulted_resolvable os hr.2 x hx
theorem Source.consulted_resolvable : (s : Source) → s.resolvable = true → ∀ x ∈ s.consulted, x.resolvable = true
  | .table _ _, _ => by simp [Source.consulted]
  | .ref i n, hr => by
    simp only [Source.resolvable] at hr
    simp only [Source.consulted, List.mem_append, List.mem_singleton]
    rintro x (hx | rfl)
    · exact Source.consulted_resolvable i hr x hx
    · exact hr
  | .join l r k c, hr => by
    simp only [Source.resolvable, Bool.and_eq_true] at hr
    simp only [Source.consulted, List.mem_append]
    rintro x ((hx | hx) | hx)
    · exact Source.consulted_resolvable l hr.1.1 x hx
    · exact Source.consulted_resolvable r hr.1.2 x hx
    · exact FeatureOpt.consulted_resolvable c hr.2 x hx
  | .set l r k, hr => by
    simp only [Source.resolvable, Bool.and_eq_true] at hr
    simp only [Source.consulted, List.mem_append, List.mem_cons, List.not_mem_nil, or_false]
    rintro x ((hx | hx) | rfl | rfl)
    · exact Source.consulted_resolvable l hr.1 x hx
    · exact Source.consulted_resolvable r hr.2 x hx
    · exact hr.1
    · exact hr.2
  | .query s sel pre grp post ord rows, hr => by
    simp only [Source.resolvable, Bool.and_eq_true] at hr
    obtain ⟨⟨⟨⟨⟨h1, h2⟩, h3⟩, h4⟩, h5⟩, h6⟩ := hr
    simp only [Source.consulted, List.mem_append]
    rintro x (((((hx | hx) | hx) | hx) | hx) | hx)
    · exact Source.consulted_resolvable s h1 x hx
    · exact Features.consulted_resolvable sel h2 x hx
    · exact FeatureOpt.consulted_resolvable pre h3 x hx
    · exact Features.consulted_resolvable grp h4 x hx
    · exact FeatureOpt.consulted_resolvable post h5 x hx
    · exact Orderings.consulted_resolvable ord h6 x hx
end

theorem Source.unkindedAt_of_resolvable (r : Source) (hr : r.resolvable = true) : r.unkindedAt = false := by
  simp only [Source.unkindedAt, List.any_eq_false, Bool.not_eq_true', Bool.not_eq_false, Source.kinded]
  intro x hx
  exact Source.kinded_of_resolvable x (Source.consulted_resolvable r hr x hx)

/-! ### `resolvable` unfolded -/

mutual
theorem Feature.resolvable_iff_regions : (f : Feature) →
    (f.resolvable = true ↔ f.unknownElement = false ∧ f.illTypedCall = false)
  | .lit _ => by simp [Feature.resolvable, Feature.unknownElement, Feature.illTypedCall]
  | .elem o n => by
    simp only [Feature.resolvable, Feature.unknownElement, Feature.illTypedCall, Bool.and_eq_true,
      Source.resolvable_iff_regions o, Bool.or_eq_false_iff, Bool.not_eq_false']
    constructor
    · rintro ⟨⟨a, b⟩, c⟩
      exact ⟨⟨a, c⟩, b⟩
    · rintro ⟨⟨a, c⟩, b⟩
      exact ⟨⟨a, b⟩, c⟩
  | .alias f n => by simp only [Feature.resolvable, Feature.unknownElement, Feature.illTypedCall, Feature.resolvable_iff_regions f]
  | .cast f k => by simp only [Feature.resolvable, Feature.unknownElement, Feature.illTypedCall, Feature.resolvable_iff_regions f]
  | .expr op args => by
    simp only [Feature.resolvable, Feature.unknownElement, Feature.illTypedCall, Bool.and_eq_true,
      Features.resolvable_iff_regions args, Bool.or_eq_false_iff, Bool.not_eq_false', bne_iff_ne, ne_eq,
      beq_eq_false_iff_ne]
    constructor
    · rintro ⟨⟨⟨a, b⟩, c⟩, d⟩
      exact ⟨a, ⟨b, c⟩, d⟩
    · rintro ⟨a, ⟨b, c⟩, d⟩
      exact ⟨⟨⟨a, b⟩, c⟩, d⟩
  | .window fn ps os => by
    simp only [Feature.resolvable, Feature.unknownElement, Feature.illTypedCall, Bool.and_eq_true, Bool.or_eq_true,
      beq_iff_eq, Features.resolvable_iff_regions ps, Orderings.resolvable_iff_regions os, Bool.or_eq_false_iff,
      Bool.and_eq_false_iff, bne_eq_false_iff_eq]
    by_cases h : fn = .expr .rownumber .nil
    · subst h
      simp [Feature.unknownElement, Features.unknownElement]
      constructor
      · rintro ⟨⟨a, b⟩, c, d⟩
        exact ⟨⟨a, c⟩, b, d⟩
      · rintro ⟨⟨a, c⟩, b, d⟩
        exact ⟨⟨a, b⟩, c, d⟩
    · simp only [h, false_or, Feature.resolvable_iff_regions fn]
      constructor
      · rintro ⟨⟨⟨a, a'⟩, b, b'⟩, c, c'⟩
        exact ⟨⟨⟨a, b⟩, c⟩, ⟨a', b'⟩, c'⟩
      · rintro ⟨⟨⟨a, b⟩, c⟩, ⟨a', b'⟩, c'⟩
        exact ⟨⟨⟨a, a'⟩, b, b'⟩, c, c'⟩
theorem Features.resolvable_iff_regions : (fs : Features) →
    (fs.resolvable = true ↔ fs.unknownElement = false ∧ fs.illTypedCall = false)
  | .nil => by simp [Features.resolvable, Features.unknownElement, Features.illTypedCall]
  | .cons f fs => by
    simp only [Features.resolvable, Features.unknownElement, Features.illTypedCall, Bool.and_eq_true,
      Feature.resolvable_iff_regions f, Features.resolvable_iff_regions fs, Bool.or_eq_false_iff]
    constructor
    · rintro ⟨⟨a, a'⟩, b, b'⟩
      exact ⟨⟨a, b⟩, a', b'⟩
    · rintro ⟨⟨a, b⟩, a', b'⟩
      exact ⟨⟨a, a'⟩, b, b'⟩
theorem FeatureOpt.resolvable_iff_regions : (c : FeatureOpt) →
    (c.resolvable = true ↔ c.unknownElement = false ∧ c.illTypedCall = false)
  | .none => by simp [FeatureOpt.resolvable, FeatureOpt.unknownElement, FeatureOpt.illTypedCall]
  | .some f => by
    simp only [FeatureOpt.resolvable, FeatureOpt.unknownElement, FeatureOpt.illTypedCall, Feature.resolvable_iff_regions f]
theorem Ordering.resolvable_iff_regions : (o : Ordering) →
    (o.resolvable = true ↔ o.unknownElement = false ∧ o.illTypedCall = false)
  | .mk f d => by
    simp only [Ordering.resolvable, Ordering.unknownElement, Ordering.illTypedCall, Feature.resolvable_iff_regions f]
theorem Orderings.resolvable_iff_regions : (os : Orderings) →
    (os.resolvable = true ↔ os.unknownElement = false ∧ os.illTypedCall = false)
  | .nil => by simp [Orderings.resolvable, Orderings.unknownElement, Orderings.illTypedCall]
  | .cons o os => by
    simp only [Orderings.resolvable, Orderings.unknownElement, Orderings.illTypedCall, Bool.and_eq_true,
      Ordering.resolvable_iff_regions o, Orderings.resolvable_iff_regions os, Bool.or_eq_false_iff]
    constructor
    · rintro ⟨⟨a, a'⟩, b, b'⟩
      exact ⟨⟨a, b⟩, a', b'⟩
    · rintro ⟨⟨a, b⟩, a', b'⟩
      exact ⟨⟨a, a'⟩, b, b'⟩
theorem Source.resolvable_iff_regions : (s : Source) →
    (s.resolvable = true ↔ s.unknownElement = false ∧ s.illTypedCall = false)
  | .table _ _ => by simp [Source.resolvable, Source.unknownElement, Source.illTypedCall]
  | .ref i n => by simp only [Source.resolvable, Source.unknownElement, Source.illTypedCall, Source.resolvable_iff_regions i]
  | .join l r k c => by
    simp only [Source.resolvable, Source.unknownElement, Source.illTypedCall, Bool.and_eq_true,
      Source.resolvable_iff_regions l, Source.resolvable_iff_regions r, FeatureOpt.resolvable_iff_regions c,
      Bool.or_eq_false_iff]
    constructor
    · rintro ⟨⟨⟨a, a'⟩, b, b'⟩, c, c'⟩
      exact ⟨⟨⟨a, b⟩, c⟩, ⟨a', b'⟩, c'⟩
    · rintro ⟨⟨⟨a, b⟩, c⟩, ⟨a', b'⟩, c'⟩
      exact ⟨⟨⟨a, a'⟩, b, b'⟩, c, c'⟩
  | .set l r k => by
    simp only [Source.resolvable, Source.unknownElement, Source.illTypedCall, Bool.and_eq_true,
      Source.resolvable_iff_regions l, Source.resolvable_iff_regions r, Bool.or_eq_false_iff]
    constructor
    · rintro ⟨⟨a, a'⟩, b, b'⟩
      exact ⟨⟨a, b⟩, a', b'⟩
    · rintro ⟨⟨a, b⟩, a', b'⟩
      exact ⟨⟨a, a'⟩, b, b'⟩
  | .query s sel pre grp post ord rows => by
    simp only [Source.resolvable, Source.unknownElement, Source.illTypedCall, Bool.and_eq_true,
      Source.resolvable_iff_regions s, Features.resolvable_iff_regions sel, FeatureOpt.resolvable_iff_regions pre,
      Features.resolvable_iff_regions grp, FeatureOpt.resolvable_iff_regions post, Orderings.resolvable_iff_regions ord,
      Bool.or_eq_false_iff]
    constructor
    · rintro ⟨⟨⟨⟨⟨⟨a, a'⟩, b, b'⟩, c, c'⟩, d, d'⟩, e, e'⟩, f, f'⟩
      exact ⟨⟨⟨⟨⟨⟨a, b⟩, c⟩, d⟩, e⟩, f⟩, ⟨⟨⟨⟨a', b'⟩, c'⟩, d'⟩, e'⟩, f'⟩
    · rintro ⟨⟨⟨⟨⟨⟨a, b⟩, c⟩, d⟩, e⟩, f⟩, ⟨⟨⟨⟨a', b'⟩, c'⟩, d'⟩, e'⟩, f'⟩
      exact ⟨⟨⟨⟨⟨⟨a, a'⟩, b, b'⟩, c, c'⟩, d, d'⟩, e, e'⟩, f, f'⟩
end

end ForML.Dsl
