/-
C11 helper lemmas, part 3: outcome of `publish`, `Future.register` and `Worker.train` on a well-formed state:
either an error with the state untouched, or the state extended by the edges `publishTo` appended.
-/
import ForML.Lemmas.C11Wf

namespace ForML.Graph

/-- the state with the `_PORTS` entry of a new subscription -/
def withPort (g : G) (s : Sub) : G := { g with ports := g.ports ++ [s] }

theorem withPort_same_nodes (g : G) (s : Sub) : (withPort g s).nodes = g.nodes := rfl

theorem delPort_withPort (g : G) (s : Sub) (h : s ∉ g.ports) : delPort (withPort g s) s = g := by
  unfold delPort withPort
  simp only [filter_ne_append g.ports s h]

theorem canPub_of_good (g : G) (s : Sub) (e : Edge) (i6 : I6 g)
    (h : isFuture g e.pub = true ∨ trained (withPort g s) e.pub = false) : CanPub g e.pub := by
  rcases h with h | h
  · exact .inl h
  · right
    intro e0 h0 hn
    exact trained_false (withPort g s) e.pub h e0.sub (List.mem_append_left _ (i6.2 e0 h0)) hn

theorem canPub_of_good' (g : G) (e : Edge) (i6 : I6 g)
    (h : isFuture g e.pub = true ∨ trained g e.pub = false) : CanPub g e.pub := by
  rcases h with h | h
  · exact .inl h
  · right
    intro e0 h0 hn
    exact trained_false g e.pub h e0.sub (i6.2 e0 h0) hn

/-- facts about the edges a successful `publish` appended -/
def PubFacts (g : G) (p pi : Nat) (s : Sub) (L : List Edge) : Prop :=
  s ∉ g.ports ∧ (∀ e ∈ g.edges, e.sub ≠ s) ∧
  (∀ e ∈ g.edges, e.sub.node = s.node → e.sub.port.isApply = s.port.isApply) ∧
  (s.port.isApply = false → ∀ e ∈ g.edges, e.pub ≠ s.node) ∧
  (⟨p, pi, s⟩ : Edge) ∈ L ∧
  (∀ e ∈ L, e.sub = s ∧ e.pub ≠ s.node ∧ e.pub < g.nodes.length ∧ CanPub g e.pub) ∧
  (∀ e ∈ L, (e.pub, e.out) ∈ tree (fuelOf g) g p pi)

/-- `publish` to a worker on a well-formed state -/
theorem publish_cases (g : G) (p pi : Nat) (s : Sub) (hw : Wf g)
    (hs : isWorker g s.node = true) (hp : p < g.nodes.length) :
    (∃ e, publish g p pi s = (g, .err e)) ∨
    (∃ L, publish g p pi s = ({ g with edges := g.edges ++ L, ports := g.ports ++ [s] }, .ok) ∧
      publishTo (fuelOf g) (withPort g s) p pi s =
        ({ g with edges := g.edges ++ L, ports := g.ports ++ [s] }, .ok) ∧ PubFacts g p pi s L) := by
  obtain ⟨i2, i3, i4, i5, i6, i7, i8⟩ := hw
  have hsf := isFuture_of_isWorker g _ hs
  unfold publish
  simp only [hsf, Bool.false_eq_true, false_and, ↓reduceIte]
  cases hsub : subscription g s with
  | some e => exact .inl ⟨e, rfl⟩
  | none =>
    obtain ⟨c1, c2, c3, _⟩ := subscription_none g s hsub
    have hfresh : ∀ e ∈ g.edges, e.sub ≠ s := fun e he h => c1 (h ▸ i6.2 e he)
    have hregs : ∀ r ∈ (withPort g s).regs, r.pub < (withPort g s).nodes.length := fun r hr => (i8 r hr).2
    have spec := publishTo_spec (fuelOf g) (withPort g s) p pi s hp hregs
    have undo := unpublish_undo (fuelOf g) (withPort g s) p pi s hp hregs hfresh
    have hwp : ({ g with ports := g.ports ++ [s] } : G) = withPort g s := rfl
    simp only
    rw [hwp]
    rcases hres : publishTo (fuelOf g) (withPort g s) p pi s with ⟨g2, r⟩
    rw [hres] at spec undo
    obtain ⟨hsame, ⟨L, hL, hgood, hfirst⟩, hr⟩ := spec
    rcases hr with hr | ⟨e, hr⟩
    · simp only at hr
      subst hr
      right
      have hg2 : g2 = { g with edges := g.edges ++ L, ports := g.ports ++ [s] } := by
        have : Same ({ g with edges := g.edges ++ L, ports := g.ports ++ [s] } : G) g2 := hsame
        exact eq_of_same this hL
      refine ⟨L, by simp [hg2], by rw [hg2], c1, hfresh, ?_, ?_, ?_, ?_, ?_⟩
      · intro e he hn
        have := c2 e.sub (i6.2 e he) hn
        rw [← hn, any_apply g i3 i6 e he] at this
        exact this
      · intro ha e he hpub
        have := c3 ha
        unfold publishes at this
        have := List.any_eq_false.mp this e he
        simp [hpub] at this
      · rcases List.mem_append.mp (hfirst rfl) with h | h
        · exact absurd rfl (hfresh _ h)
        · exact h
      · intro e he
        obtain ⟨⟨a, b, c, d⟩, _⟩ := hgood e he
        exact ⟨a, b, c, canPub_of_good g s e i6 d⟩
      · intro e he
        have := (hgood e he).2
        rw [tree_congr (g := g) (g' := withPort g s) rfl rfl] at this
        exact this
    · simp only at hr
      subst hr
      left
      simp only at undo
      exact ⟨e, by simp [undo, delPort_withPort g s c1]⟩

/-- a failing `publish` to a worker leaves a well-formed state exactly as it was -/
theorem publish_atomic (g : G) (p pi : Nat) (s : Sub) (hw : Wf g)
    (hs : isWorker g s.node = true) (hp : p < g.nodes.length)
    (he : (publish g p pi s).2.isErr = true) : (publish g p pi s).1 = g := by
  rcases publish_cases g p pi s hw hs hp with ⟨e, h⟩ | ⟨L, h, _⟩
  · rw [h]
  · rw [h] at he; simp [Res.isErr] at he

/-- the group rule checked by `Subscription.__new__` is the precondition `wf_publish` needs -/
theorem trainOK_of_subscription (g : G) (s : Sub) (hw : Wf g) (hs : isWorker g s.node = true)
    (h : subscription g s = none) : TrainOK g s := by
  obtain ⟨_, _, _, _, i6, i7, _⟩ := hw
  have c5 := (subscription_none g s h).2.2.2.2
  intro ha e he hea hgid
  apply Classical.byContradiction
  intro hne
  have hany := c5 ha
  obtain ⟨k, hk⟩ := gid_of_worker g s.node hs
  have hmem : e.sub.node ∈ group g s.node := by
    unfold group
    simp only [hk, List.mem_filter, List.mem_range, decide_eq_true_eq]
    exact ⟨isWorker_lt _ _ (i7 e he).2, by rw [hgid, hk]⟩
  have htr : trained g e.sub.node = true := trained_true g e.sub (i6.2 e he) hea
  have := List.any_eq_false.mp hany e.sub.node hmem
  simp [htr, hne] at this

theorem publish_wf (g : G) (p pi : Nat) (s : Sub) (hw : Wf g)
    (hs : isWorker g s.node = true) (hp : p < g.nodes.length) :
    Wf (publish g p pi s).1 := by
  cases hsub : subscription g s with
  | some e =>
    have hsf := isFuture_of_isWorker g _ hs
    have : publish g p pi s = (g, .err e) := by
      unfold publish
      simp only [hsf, Bool.false_eq_true, false_and, ↓reduceIte, hsub]
    rw [this]; exact hw
  | none =>
    have ht := trainOK_of_subscription g s hw hs hsub
    rcases publish_cases g p pi s hw hs hp with ⟨e, h⟩ | ⟨L, h, _, _, _, f2, f3, f4, f5, _⟩
    · rw [h]; exact hw
    · rw [h]
      exact wf_publish g s L hw f2 f3 hs ht ⟨_, f4⟩ f5

theorem mem_out (g : G) (f i : Nat) (s : Sub) (h : s ∈ out g f i) : (⟨f, i, s⟩ : Edge) ∈ g.edges := by
  unfold out at h
  simp only [List.mem_map, List.mem_filter, decide_eq_true_eq] at h
  obtain ⟨e, ⟨he, h1, h2⟩, h3⟩ := h
  cases e; simp_all

theorem foldl_opt_congr {α : Type} (f f' : α → Option Err) : ∀ (l : List α) (acc : Option Err),
    (∀ t ∈ l, f t = f' t) →
    l.foldl (fun (acc : Option Err) t => match acc with
      | none => f t
      | e => e) acc =
    l.foldl (fun (acc : Option Err) t => match acc with
      | none => f' t
      | e => e) acc := by
  intro l
  induction l with
  | nil => intros; rfl
  | cons t l ih =>
    intro acc h
    simp only [List.foldl_cons]
    rw [h t List.mem_cons_self]
    exact ih _ (fun x hx => h x (List.mem_cons_of_mem _ hx))

/-- the dry run of a publisher that does not follow the placeholder `r.fut` is not affected by a new
registration on that placeholder (its upstream does not contain it) -/
theorem publishable_reg (g : G) (r : Reg) (s : Sub) : ∀ (fuel n idx : Nat),
    (isFuture g n = true → follows fuel g n r.fut = false) →
    publishable fuel { g with regs := g.regs ++ [r] } n idx s = publishable fuel g n idx s := by
  intro fuel
  induction fuel with
  | zero => intros; rfl
  | succ k ih =>
    intro n idx hfol
    unfold publishable
    have hF : isFuture { g with regs := g.regs ++ [r] } n = isFuture g n := rfl
    have hT : trained { g with regs := g.regs ++ [r] } n = trained g n := rfl
    rw [hF, hT]
    by_cases hf : isFuture g n = true
    · simp only [hf, ↓reduceIte]
      have h := hfol hf
      unfold follows at h
      simp only [Bool.or_eq_false_iff, beq_eq_false_iff_ne, ne_eq] at h
      obtain ⟨hne, hany⟩ := h
      have hpubs : pubsAt { g with regs := g.regs ++ [r] } n idx = pubsAt g n idx := by
        unfold pubsAt
        simp only [List.filter_append, List.map_append]
        have : List.filter (fun r' : Reg => decide (r'.fut = n ∧ r'.idx = idx)) [r] = [] := by
          simp [Ne.symm hne]
        rw [this]; simp
      rw [hpubs]
      split
      · rfl
      · apply foldl_opt_congr
        intro t ht
        apply ih
        intro hft
        unfold pubsAt at ht
        simp only [List.mem_map, List.mem_filter, decide_eq_true_eq] at ht
        obtain ⟨r', ⟨hr', h1, _⟩, rfl⟩ := ht
        have := List.any_eq_false.mp hany r' (by simp [List.mem_filter, hr', h1])
        simpa [hft] using this
    · simp [hf]

/-- facts about the edges a successful registration appended -/
def RegFacts (g : G) (f i p pi : Nat) (L : List Edge) : Prop :=
  ∀ e ∈ L, (⟨f, i, e.sub⟩ : Edge) ∈ g.edges ∧ e.pub ≠ e.sub.node ∧ e.pub < g.nodes.length ∧ CanPub g e.pub ∧
    (e.pub, e.out) ∈ tree (fuelOf g) { g with regs := g.regs ++ [⟨f, i, p, pi⟩] } p pi

/-- `Future.register` on a well-formed state -/
theorem register_cases (g : G) (f i p pi : Nat) (hw : Wf g)
    (_hf : isFuture g f = true) (hp : p < g.nodes.length) :
    (∃ e, register g f i p pi = (g, .err e)) ∨
    (∃ L, register g f i p pi =
      ({ g with edges := g.edges ++ L, regs := g.regs ++ [⟨f, i, p, pi⟩] }, .ok) ∧ RegFacts g f i p pi L) := by
  obtain ⟨i2, i3, i4, i5, i6, i7, i8⟩ := hw
  unfold register
  by_cases hfol : (isFuture g p && follows (fuelOf g) g p f) = true
  · simp only [hfol, ↓reduceIte]; exact .inl ⟨_, rfl⟩
  · simp only [hfol, Bool.false_eq_true, ↓reduceIte]
    split
    · rename_i e _; exact .inl ⟨e, rfl⟩
    · rename_i hdry
      right
      let g1 : G := { g with regs := g.regs ++ [⟨f, i, p, pi⟩] }
      have hall0 := (foldl_none (fun s => publishable (fuelOf g) g p pi s) _ _ hdry).2
      have hall : ∀ s ∈ out g f i, publishable (fuelOf g) g1 p pi s = none := by
        intro s hs
        rw [← hall0 s hs]
        apply publishable_reg g ⟨f, i, p, pi⟩ s
        intro hpf
        simpa [hpf] using hfol
      have hregs : ∀ r ∈ g1.regs, r.pub < g1.nodes.length := by
        intro r hr
        rcases List.mem_append.mp hr with hr | hr
        · exact (i8 r hr).2
        · simp only [List.mem_singleton] at hr; subst hr; exact hp
      have key : ∀ (ss : List Sub) (acc : G × Res), (∀ s ∈ ss, s ∈ out g f i) →
          (Same g1 acc.1 ∧ acc.2 = .ok ∧ ∃ L, acc.1.edges = g.edges ++ L ∧ RegFacts g f i p pi L) →
          (let r := ss.foldl (fun (acc : G × Res) s => match acc.2 with
              | .ok => publishTo (fuelOf g) acc.1 p pi s
              | _ => acc) acc
           Same g1 r.1 ∧ r.2 = .ok ∧ ∃ L, r.1.edges = g.edges ++ L ∧ RegFacts g f i p pi L) := by
        intro ss
        induction ss with
        | nil => intro acc _ h; exact h
        | cons s ss ihs =>
          intro acc hmem ⟨hsame, hok, L, hL, hfacts⟩
          simp only [List.foldl_cons, hok]
          apply ihs _ (fun x hx => hmem x (List.mem_cons_of_mem _ hx))
          have hs := hmem s List.mem_cons_self
          have hp' : p < acc.1.nodes.length := by rw [hsame.1]; exact hp
          have hregs' : ∀ r ∈ acc.1.regs, r.pub < acc.1.nodes.length := by
            rw [hsame.1, hsame.2.1]; exact hregs
          obtain ⟨hs2, ⟨L2, hL2, hgood2, _⟩, _⟩ := publishTo_spec (fuelOf g) acc.1 p pi s hp' hregs'
          refine ⟨hsame.trans hs2, publishable_ok _ g1 acc.1 p pi s hsame (hall s hs), L ++ L2,
            by rw [hL2, hL, List.append_assoc], ?_⟩
          intro e he
          rcases List.mem_append.mp he with he | he
          · exact hfacts e he
          · obtain ⟨hg, ht⟩ := hgood2 e he
            obtain ⟨a, b, c, d⟩ := hg.same hsame
            rw [hsame.tree] at ht
            refine ⟨by rw [a]; exact mem_out g f i s hs, by rw [a]; exact b, c, canPub_of_good' g e i6 d, ht⟩
      have := key (out g f i) (g1, .ok) (fun _ h => h) ⟨Same.refl g1, rfl, [], by simp [g1], by intro e he; cases he⟩
      obtain ⟨hsame, hok, L, hL, hfacts⟩ := this
      refine ⟨L, ?_, hfacts⟩
      apply Prod.ext
      · have : Same ({ g with edges := g.edges ++ L, regs := g.regs ++ [⟨f, i, p, pi⟩] } : G) _ := hsame
        exact eq_of_same this hL
      · exact hok

theorem register_atomic (g : G) (f i p pi : Nat) (hw : Wf g) (hf : isFuture g f = true) (hp : p < g.nodes.length)
    (he : (register g f i p pi).2.isErr = true) : (register g f i p pi).1 = g := by
  rcases register_cases g f i p pi hw hf hp with ⟨e, h⟩ | ⟨L, h, _⟩
  · rw [h]
  · rw [h] at he; simp [Res.isErr] at he

theorem register_wf (g : G) (f i p pi : Nat) (hw : Wf g) (hf : isFuture g f = true) (hp : p < g.nodes.length) :
    Wf (register g f i p pi).1 := by
  rcases register_cases g f i p pi hw hf hp with ⟨e, h⟩ | ⟨L, h, hfacts⟩
  · rw [h]; exact hw
  · rw [h]
    refine wf_register g ⟨f, i, p, pi⟩ L hw ⟨hf, hp⟩ ?_
    intro e he
    obtain ⟨a, b, c, d, _⟩ := hfacts e he
    exact ⟨⟨_, a, rfl⟩, b, c, d⟩

/-- publishing to a placeholder other than the publisher itself is the registration -/
theorem publish_future (g : G) (p pi : Nat) (s : Sub) (hf : isFuture g s.node = true) (hne : s.node ≠ p) :
    publish g p pi s = register g s.node s.port.index p pi := by
  unfold publish
  simp [hf, hne]

/-- a placeholder publishing to itself is refused (`Future node subscribing` at the latest) -/
theorem publish_self_future (g : G) (p pi : Nat) (s : Sub) (hf : isFuture g s.node = true) (heq : s.node = p) :
    ∃ e, publish g p pi s = (g, .err e) := by
  unfold publish
  simp only [heq, ne_eq, not_true_eq_false, and_false, ↓reduceIte]
  cases hsub : subscription g s with
  | some e => exact ⟨e, rfl⟩
  | none =>
    have := (subscription_none g s hsub).2.2.2.1
    rw [hf] at this; cases this

/-- `Worker.train` on a well-formed state: an error with the state untouched (also when the label publish
fails after the train publish went through), or both subscriptions published -/
theorem train_cases (g : G) (n tp ti lp li : Nat) (hw : Wf g) :
    (∃ e, train g n tp ti lp li = (g, .err e)) ∨
    (∃ L1 L2, train g n tp ti lp li =
        ({ g with edges := g.edges ++ L1 ++ L2, ports := g.ports ++ [⟨n, .train⟩] ++ [⟨n, .label⟩] }, .ok) ∧
      PubFacts g tp ti ⟨n, .train⟩ L1 ∧
      PubFacts { g with edges := g.edges ++ L1, ports := g.ports ++ [⟨n, .train⟩] } lp li ⟨n, .label⟩ L2 ∧
      Wf { g with edges := g.edges ++ L1 ++ L2, ports := g.ports ++ [⟨n, .train⟩] ++ [⟨n, .label⟩] } ∧
      publishTo (fuelOf g) (withPort g ⟨n, .train⟩) tp ti ⟨n, .train⟩ =
        ({ g with edges := g.edges ++ L1, ports := g.ports ++ [⟨n, .train⟩] }, .ok) ∧
      publishTo (fuelOf g) (withPort { g with edges := g.edges ++ L1, ports := g.ports ++ [⟨n, .train⟩] } ⟨n, .label⟩)
          lp li ⟨n, .label⟩ =
        ({ g with edges := g.edges ++ L1 ++ L2, ports := g.ports ++ [⟨n, .train⟩] ++ [⟨n, .label⟩] }, .ok)) := by
  unfold train
  by_cases hguard : (!isWorker g n) = true ∨ g.nodes.length ≤ tp ∨ g.nodes.length ≤ lp
  · simp only [hguard, ↓reduceIte]; exact .inl ⟨_, rfl⟩
  · simp only [hguard, ↓reduceIte]
    have hn : isWorker g n = true := by
      cases h : isWorker g n with
      | true => rfl
      | false => exact absurd (.inl (by simp [h])) hguard
    have htp : tp < g.nodes.length := by
      rcases Nat.lt_or_ge tp g.nodes.length with h | h
      · exact h
      · exact absurd (.inr (.inl h)) hguard
    have hlp : lp < g.nodes.length := by
      rcases Nat.lt_or_ge lp g.nodes.length with h | h
      · exact h
      · exact absurd (.inr (.inr h)) hguard
    split
    · exact .inl ⟨_, rfl⟩
    · split
      · exact .inl ⟨_, rfl⟩
      · rename_i _ hfork
        obtain ⟨i2, i3, i4, i5, i6, i7, i8⟩ := hw
        have hw : Wf g := ⟨i2, i3, i4, i5, i6, i7, i8⟩
        -- the fork check: no member of the group is the target of a train/label subscription
        have hnone : ∀ e ∈ g.edges, e.sub.port.isApply = false → gid? g e.sub.node = gid? g n → False := by
          intro e he ha hgid
          obtain ⟨k, hk⟩ := gid_of_worker g n hn
          apply hfork
          apply List.any_eq_true.mpr
          refine ⟨e.sub.node, ?_, trained_true g e.sub (i6.2 e he) ha⟩
          unfold group
          simp only [hk, List.mem_filter, List.mem_range, decide_eq_true_eq]
          exact ⟨isWorker_lt _ _ (i7 e he).2, by rw [hgid, hk]⟩
        rcases publish_cases g tp ti ⟨n, .train⟩ hw hn htp with ⟨e, h⟩ | ⟨L1, h, hundo, facts1⟩
        · rw [h]; exact .inl ⟨e, rfl⟩
        · rw [h]
          simp only
          obtain ⟨f1, f1', f2, f3, f4, f5, f6⟩ := facts1
          let g1 : G := { g with edges := g.edges ++ L1, ports := g.ports ++ [⟨n, .train⟩] }
          have hw1 : Wf g1 :=
            wf_publish g ⟨n, .train⟩ L1 hw f2 f3 hn (fun _ e he ha hg => (hnone e he ha hg).elim) ⟨_, f4⟩ f5
          have hn1 : isWorker g1 n = true := hn
          have hlp1 : lp < g1.nodes.length := hlp
          rcases publish_cases g1 lp li ⟨n, .label⟩ hw1 hn1 hlp1 with ⟨e, h2⟩ | ⟨L2, h2, hpt2, facts2⟩
          · left
            refine ⟨e, ?_⟩
            rw [h2]
            simp only
            have hmem : (⟨tp, ti, ⟨n, .train⟩⟩ : Edge) ∈ g1.edges := List.mem_append_right _ f4
            have hg1 : g1 = (publishTo (fuelOf g) (withPort g ⟨n, .train⟩) tp ti ⟨n, .train⟩).1 := by
              rw [hundo]
            have hundo2 := unpublish_undo (fuelOf g) (withPort g ⟨n, .train⟩) tp ti ⟨n, .train⟩ htp
              (fun r hr => (i8 r hr).2) f1'
            unfold unpublish
            rw [if_pos hmem]
            have hfuel : fuelOf g1 = fuelOf g := rfl
            rw [hfuel, hg1, hundo2, delPort_withPort g _ f1]
          · right
            refine ⟨L1, L2, ?_, ⟨f1, f1', f2, f3, f4, f5, f6⟩, facts2, ?_, hundo, hpt2⟩
            · rw [h2]
            · obtain ⟨_, _, k2, k3, k4, k5, _⟩ := facts2
              refine wf_publish g1 ⟨n, .label⟩ L2 hw1 k2 k3 hn1 ?_ ⟨_, k4⟩ k5
              intro _ e he ha hg
              rcases List.mem_append.mp he with he | he
              · exact (hnone e he ha hg).elim
              · rw [(f5 e he).1]

end ForML.Graph
