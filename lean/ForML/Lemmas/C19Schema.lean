/-
Helper lemmas for C19 (core Lean only): the schema cache of `Pandas.Schema.from_frame` as a state machine.
-/
import ForML.Lemmas.C19
import ForML.Model.CodecTable

namespace ForML.Codec

/-! ### the schema cache -/

/-- every cached schema is the list of names of every frame with that key -/
def CacheOK [DecidableEq κ] (key : FrameSig → κ) (cache : Cache κ) : Prop :=
  ∀ kv ∈ cache, ∀ f : FrameSig, key f = kv.1 → kv.2 = f.names

theorem cacheGet_mem [DecidableEq κ] (k : κ) (cache : Cache κ) (v : List Str) (h : cacheGet k cache = some v) :
    (k, v) ∈ cache := by
  induction cache with
  | nil => simp [cacheGet] at h
  | cons kv r ih =>
    obtain ⟨k', v'⟩ := kv
    simp only [cacheGet] at h
    split at h
    · rename_i hk; cases h; subst hk; simp
    · exact List.mem_cons_of_mem _ (ih h)

theorem fromFrame_ok [DecidableEq κ] (key : FrameSig → κ) (hkey : ∀ f g, key f = key g → f.names = g.names)
    (cache : Cache κ) (hc : CacheOK key cache) (f : FrameSig) :
    CacheOK key (fromFrame key cache f).1 ∧
    (∀ ns, (fromFrame key cache f).2 = .schema ns → ns = f.names) ∧
    ((fromFrame key cache f).2 = .emptyFrame → f.empty = true) ∧
    ((fromFrame key cache f).2 = .untypable → f.untypable = true) := by
  unfold fromFrame
  cases hg : cacheGet (key f) cache with
  | some names =>
    have hn := hc _ (cacheGet_mem _ _ _ hg) f rfl
    simp only at hn
    refine ⟨hc, ?_, ?_, ?_⟩
    · intro ns h; cases h; exact hn
    · intro h; cases h
    · intro h; cases h
  | none =>
    by_cases he : f.empty = true
    · simp only [he, if_true]
      refine ⟨hc, ?_, ?_, ?_⟩
      · intro ns h; cases h
      · intro _; trivial
      · intro h; cases h
    · by_cases hu : f.untypable = true
      · simp only [he, hu, Bool.false_eq_true, if_false, if_true]
        refine ⟨hc, ?_, ?_, ?_⟩
        · intro ns h; cases h
        · intro h; cases h
        · intro _; trivial
      · simp only [he, hu, Bool.false_eq_true, if_false]
        refine ⟨?_, ?_, ?_, ?_⟩
        · intro kv hkv g hg'
          rcases List.mem_cons.mp hkv with rfl | hmem
          · exact (hkey g f hg').symm
          · exact hc kv hmem g hg'
        · intro ns h; cases h; rfl
        · intro h; cases h
        · intro h; cases h

theorem runFrames_length [DecidableEq κ] (key : FrameSig → κ) (cache : Cache κ) (fs : List FrameSig) :
    (runFrames key cache fs).length = fs.length := by
  induction fs generalizing cache with
  | nil => rfl
  | cons f fs ih => simp [runFrames, ih]

theorem runFrames_ok [DecidableEq κ] (key : FrameSig → κ) (hkey : ∀ f g, key f = key g → f.names = g.names)
    (cache : Cache κ) (hc : CacheOK key cache) (fs : List FrameSig) :
    ∀ fr ∈ fs.zip (runFrames key cache fs),
      (∀ ns, fr.2 = .schema ns → ns = fr.1.names) ∧ (fr.2 = .emptyFrame → fr.1.empty = true) ∧
      (fr.2 = .untypable → fr.1.untypable = true) := by
  induction fs generalizing cache with
  | nil => simp [runFrames]
  | cons f fs ih =>
    have h := fromFrame_ok key hkey cache hc f
    intro fr hfr
    simp only [runFrames, List.zip_cons_cons, List.mem_cons] at hfr
    rcases hfr with rfl | hmem
    · exact h.2
    · exact ih _ h.1 fr hmem

theorem keyItems_names (f g : FrameSig) (h : keyItems f = keyItems g) : f.names = g.names := by
  unfold keyItems at h
  exact (Prod.mk.injEq .. ▸ h).1

end ForML.Codec
