/-
C14 — helper lemmas, part 2: Kleene connectives, evaluation depends only on the elements a feature mentions, and the
factors of a condition are implied by it (`factorsP_sound`).  Used by `ForML.Props.C14` (`C14_factors`, `C14_filter_partial`).
-/
import ForML.Model.PushDown

namespace ForML.PushDown
open ForML.Dsl

/-! ### three-valued logic -/

theorem and3_true {a b : Val} : and3 a b = .bool true ↔ a = .bool true ∧ b = .bool true := by
  cases a with
  | bool x => cases x <;> cases b with
    | bool y => cases y <;> simp [and3]
    | _ => simp [and3]
  | _ => cases b with
    | bool y => cases y <;> simp [and3]
    | _ => simp [and3]

theorem or3_true {a b : Val} : or3 a b = .bool true ↔ a = .bool true ∨ b = .bool true := by
  cases a with
  | bool x => cases x <;> cases b with
    | bool y => cases y <;> simp [or3]
    | _ => simp [or3]
  | _ => cases b with
    | bool y => cases y <;> simp [or3]
    | _ => simp [or3]

/-! ### evaluation only looks at the mentioned elements -/

mutual
theorem eval_congr (S : Sem) (e1 e2 : Env) :
    ∀ f : Feature, (∀ el ∈ elems f, e1.get el.1 el.2 = e2.get el.1 el.2) → eval S e1 f = eval S e2 f
  | .lit _, _ => by simp [eval]
  | .elem o n, h => by
    simp only [eval]
    exact h (o, n) (by simp [elems])
  | .alias f _, h => by
    simp only [eval]
    exact eval_congr S e1 e2 f (by simpa [elems] using h)
  | .expr op args, h => by
    simp only [eval]
    rw [evalL_congr S e1 e2 args (by simpa [elems] using h)]
  | .cast f k, h => by
    simp only [eval]
    rw [eval_congr S e1 e2 f (by simpa [elems] using h)]
  | .window _ _ _, _ => by simp [eval]
theorem evalL_congr (S : Sem) (e1 e2 : Env) :
    ∀ fs : Features, (∀ el ∈ elemsL fs, e1.get el.1 el.2 = e2.get el.1 el.2) → evalL S e1 fs = evalL S e2 fs
  | .nil, _ => by simp [evalL]
  | .cons f fs, h => by
    simp only [evalL]
    rw [eval_congr S e1 e2 f (fun el hel => h el (by simp [elemsL, hel])),
      evalL_congr S e1 e2 fs (fun el hel => h el (by simp [elemsL, hel]))]
end

/-! ### the boolean skeleton -/

def evalP (S : Sem) (e : Env) : Pred → Val
  | .atom f => eval S e f
  | .other f => eval S e f
  | .and a b => and3 (evalP S e a) (evalP S e b)
  | .or a b => or3 (evalP S e a) (evalP S e b)

def elemsP : Pred → List Elem
  | .atom f => elems f
  | .other f => elems f
  | .and a b => elemsP a ++ elemsP b
  | .or a b => elemsP a ++ elemsP b

theorem evalP_toPred (S : Sem) (e : Env) (f : Feature) : evalP S e (toPred f) = eval S e f := by
  fun_induction toPred f with
  | case1 a b iha ihb => simp [evalP, iha, ihb, eval, evalL, applyOp]
  | case2 a b iha ihb => simp [evalP, iha, ihb, eval, evalL, applyOp]
  | case3 a => simp [evalP]
  | case4 op args _ _ _ h => simp [evalP]
  | case5 op args _ _ _ h => simp [evalP]
  | case6 f _ _ _ _ => simp [evalP]

theorem mem_elemsP_toPred (f : Feature) (x : Elem) : x ∈ elemsP (toPred f) ↔ x ∈ elems f := by
  fun_induction toPred f with
  | case1 a b iha ihb => simp [elemsP, iha, ihb, elems, elemsL]
  | case2 a b iha ihb => simp [elemsP, iha, ihb, elems, elemsL]
  | case3 a => simp [elemsP]
  | case4 op args _ _ _ h => simp [elemsP]
  | case5 op args _ _ _ h => simp [elemsP]
  | case6 f _ _ _ _ => simp [elemsP]

/-! ### factors -/

theorem mem_of_lookup {α β : Type} [BEq α] [LawfulBEq α] {l : List (α × β)} {k : α} {v : β}
    (h : l.lookup k = some v) : (k, v) ∈ l := by
  induction l with
  | nil => simp at h
  | cons kv l ih =>
    obtain ⟨k', v'⟩ := kv
    simp only [List.lookup_cons] at h
    by_cases hk : k == k'
    · simp only [hk] at h
      have hk' : k = k' := by simpa using hk
      cases h
      simp [hk']
    · simp only [hk] at h
      exact List.mem_cons_of_mem _ (ih h)

/-- what makes `f` a sound row filter for table `t` given the condition `p` -/
structure FactorOK (S : Sem) (p : Pred) (t : Source) (f : Feature) : Prop where
  table : isTable t = true
  own : ∀ e ∈ elems f, e.1 = t
  nonempty : elems f ≠ []
  sub : ∀ e ∈ elems f, e ∈ elemsP p
  sound : ∀ env, evalP S env p = .bool true → eval S env f = .bool true

theorem primitive_ok {g : Feature} {t : Source} {f : Feature} (h : (t, f) ∈ primitive g) :
    f = g ∧ isTable t = true ∧ (∀ e ∈ elems g, e.1 = t) ∧ elems g ≠ [] := by
  unfold primitive at h
  split at h
  · simp at h
  · rename_i o n rest heq
    split at h
    · rename_i hc
      simp only [Bool.and_eq_true, List.all_eq_true, beq_iff_eq] at hc
      simp only [List.mem_singleton, Prod.mk.injEq] at h
      obtain ⟨rfl, rfl⟩ := h
      refine ⟨rfl, hc.1, ?_, by simp [heq]⟩
      intro e he
      rw [heq] at he
      rcases List.mem_cons.mp he with rfl | he
      · rfl
      · exact hc.2 e he
    · simp at h

theorem elems_binop (op : Op) (a b : Feature) (x : Elem) : x ∈ elems (binop op a b) ↔ x ∈ elems a ∨ x ∈ elems b := by
  simp [binop, elems, elemsL]

theorem mem_mergeF {op : Op} {l r : FMap} {t : Source} {f : Feature} (h : (t, f) ∈ mergeF op l r) :
    ((t, f) ∈ l ∧ r.lookup t = none) ∨ ((t, f) ∈ l ∧ (t, f) ∈ r) ∨
    (∃ a b, (t, a) ∈ l ∧ (t, b) ∈ r ∧ f = binop op a b) ∨ ((t, f) ∈ r ∧ l.lookup t = none) := by
  unfold mergeF at h
  rcases List.mem_append.mp h with h | h
  · obtain ⟨kv, hkv, heq⟩ := List.mem_map.mp h
    obtain ⟨k, a⟩ := kv
    cases hl : r.lookup k with
    | none =>
      simp only [hl] at heq
      cases heq
      exact Or.inl ⟨hkv, hl⟩
    | some b =>
      simp only [hl] at heq
      have hb := mem_of_lookup hl
      by_cases hab : a = b
      · simp only [hab, if_true] at heq
        cases heq
        exact Or.inr (Or.inl ⟨hab ▸ hkv, hb⟩)
      · simp only [hab, if_false] at heq
        cases heq
        exact Or.inr (Or.inr (Or.inl ⟨a, b, hkv, hb, rfl⟩))
  · obtain ⟨hr, hn⟩ := List.mem_filter.mp h
    exact Or.inr (Or.inr (Or.inr ⟨hr, by simpa using hn⟩))

theorem mem_orF {l r : FMap} {t : Source} {f : Feature} (h : (t, f) ∈ orF l r) :
    ((t, f) ∈ l ∧ (t, f) ∈ r) ∨ (∃ a b, (t, a) ∈ l ∧ (t, b) ∈ r ∧ f = binop .or a b) := by
  unfold orF at h
  obtain ⟨kv, hkv, heq⟩ := List.mem_filterMap.mp h
  obtain ⟨k, a⟩ := kv
  cases hl : r.lookup k with
  | none => simp [hl] at heq
  | some b =>
    simp only [hl, Option.some.injEq] at heq
    have hb := mem_of_lookup hl
    by_cases hab : a = b
    · simp only [hab, if_true] at heq
      cases heq
      exact Or.inl ⟨hab ▸ hkv, hb⟩
    · simp only [hab, if_false] at heq
      cases heq
      exact Or.inr ⟨a, b, hkv, hb, rfl⟩

theorem eval_binop_and (S : Sem) (e : Env) (a b : Feature) : eval S e (binop .and a b) = and3 (eval S e a) (eval S e b) := by
  simp [binop, eval, evalL, applyOp]

theorem eval_binop_or (S : Sem) (e : Env) (a b : Feature) : eval S e (binop .or a b) = or3 (eval S e a) (eval S e b) := by
  simp [binop, eval, evalL, applyOp]

theorem binop_nonempty (op : Op) {a b : Feature} (h : elems a ≠ []) : elems (binop op a b) ≠ [] := by
  intro hn
  apply h
  have : ∀ x, x ∉ elems (binop op a b) := by simp [hn]
  apply List.eq_nil_iff_forall_not_mem.mpr
  intro x hx
  exact this x ((elems_binop op a b x).mpr (Or.inl hx))

/-- every factor of a condition is a predicate over its table alone that holds whenever the condition holds -/
theorem factorsP_sound (len : Bool) (S : Sem) :
    ∀ (p : Pred) (m : FMap), factorsP len p = .ok m → ∀ t f, (t, f) ∈ m → FactorOK S p t f
  | .atom g, m, h, t, f, hm => by
    simp only [factorsP, Except.ok.injEq] at h
    subst h
    obtain ⟨rfl, ht, hown, hne⟩ := primitive_ok hm
    exact ⟨ht, hown, hne, fun e he => by simpa [elemsP] using he, fun env he => by simpa [evalP] using he⟩
  | .other g, m, h, t, f, hm => by
    simp only [factorsP] at h
    cases len <;> simp at h
    subst h
    simp at hm
  | .and a b, m, h, t, f, hm => by
    simp only [factorsP] at h
    cases ha : factorsP len a with
    | error e => simp [ha] at h
    | ok l =>
      cases hb : factorsP len b with
      | error e => simp [ha, hb] at h
      | ok r =>
        simp only [ha, hb, Except.ok.injEq] at h
        subst h
        have iha := factorsP_sound len S a l ha
        have ihb := factorsP_sound len S b r hb
        have lft : ∀ f, (t, f) ∈ l → FactorOK S (.and a b) t f := fun f hf =>
          let k := iha t f hf
          ⟨k.table, k.own, k.nonempty, fun e he => by simp [elemsP, k.sub e he],
           fun env he => k.sound env (and3_true.mp (by simpa [evalP] using he)).1⟩
        have rgt : ∀ f, (t, f) ∈ r → FactorOK S (.and a b) t f := fun f hf =>
          let k := ihb t f hf
          ⟨k.table, k.own, k.nonempty, fun e he => by simp [elemsP, k.sub e he],
           fun env he => k.sound env (and3_true.mp (by simpa [evalP] using he)).2⟩
        rcases mem_mergeF hm with ⟨h1, _⟩ | ⟨h1, _⟩ | ⟨fa, fb, h1, h2, rfl⟩ | ⟨h1, _⟩
        · exact lft f h1
        · exact lft f h1
        · have ka := lft fa h1
          have kb := rgt fb h2
          refine ⟨ka.table, ?_, binop_nonempty _ ka.nonempty, ?_, ?_⟩
          · intro e he
            rcases (elems_binop _ _ _ _).mp he with he | he
            · exact ka.own e he
            · exact kb.own e he
          · intro e he
            rcases (elems_binop _ _ _ _).mp he with he | he
            · exact ka.sub e he
            · exact kb.sub e he
          · intro env he
            rw [eval_binop_and]
            exact and3_true.mpr ⟨ka.sound env he, kb.sound env he⟩
        · exact rgt f h1
  | .or a b, m, h, t, f, hm => by
    simp only [factorsP] at h
    cases ha : factorsP len a with
    | error e => simp [ha] at h
    | ok l =>
      cases hb : factorsP len b with
      | error e => simp [ha, hb] at h
      | ok r =>
        simp only [ha, hb, Except.ok.injEq] at h
        subst h
        have iha := factorsP_sound len S a l ha
        have ihb := factorsP_sound len S b r hb
        rcases mem_orF hm with ⟨h1, h2⟩ | ⟨fa, fb, h1, h2, rfl⟩
        · have ka := iha t f h1
          have kb := ihb t f h2
          refine ⟨ka.table, ka.own, ka.nonempty, fun e he => by simp [elemsP, ka.sub e he], ?_⟩
          intro env he
          rcases or3_true.mp (by simpa [evalP] using he) with he | he
          · exact ka.sound env he
          · exact kb.sound env he
        · have ka := iha t fa h1
          have kb := ihb t fb h2
          refine ⟨ka.table, ?_, binop_nonempty _ ka.nonempty, ?_, ?_⟩
          · intro e he
            rcases (elems_binop _ _ _ _).mp he with he | he
            · exact ka.own e he
            · exact kb.own e he
          · intro e he
            rcases (elems_binop _ _ _ _).mp he with he | he
            · simp [elemsP, ka.sub e he]
            · simp [elemsP, kb.sub e he]
          · intro env he
            rw [eval_binop_or]
            rcases or3_true.mp (by simpa [evalP] using he) with he | he
            · exact or3_true.mpr (Or.inl (ka.sound env he))
            · exact or3_true.mpr (Or.inr (kb.sound env he))

end ForML.PushDown
