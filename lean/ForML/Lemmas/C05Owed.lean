/-
Helper lemmas for C05, several writers: what is staged for a training in progress stays staged — byte for byte —
whatever the other handles do in between (their dumps draw other ids, their commits move their own ids, a publish or a
process death never looks into a stage directory), so that a commit finds exactly what was dumped through its handle.
-/
import ForML.Lemmas.C05World

namespace ForML.Registry
open ForML.Fs

/-! ### what a single call can touch, exactly -/

theorem single_tree_frame (fs x : Fs) (c : Fs → List Op) (key : Path) (h : CrashTree fs [c] x)
    (hk : ∀ op ∈ c fs, ¬ touches op key) : get x key = get fs key := by
  have hat : ∀ a ∈ atomsAll (c fs), ¬ touches a key := by
    intro a ha ht
    obtain ⟨o, ho, h2⟩ := atomsAll_touches _ a ha
    exact hk o ho (h2 key ht)
  cases h with
  | here _ _ _ k cut _ hr =>
    apply run_frame _ _ _ _ hr
    intro op hop ht
    obtain ⟨a, ha, h1⟩ := crashOps_touches _ k cut op hop
    exact hat a ha (h1 key ht)
  | later _ _ _ fs' _ hr hrest =>
    cases hrest
    exact run_frame _ _ _ _ hr hat

theorem writeOps_touches_fine (fs : Fs) (p v sid : Nat) (b : Bytes) :
    ∀ op ∈ writeOps fs p v sid b, ∀ key, touches op key →
      key = projectP p ∨ key = releaseP p v ∨ key = stageP p v ∨ key = stagedStateP p v sid := by
  intro op hop key hk
  simp only [writeOps, List.mem_append, List.mem_cons, List.not_mem_nil, or_false] at hop
  rcases hop with hop | rfl | rfl
  · obtain ⟨q, hq, rfl, _⟩ := mem_mkdirP _ _ _ hop
    simp only [stageP, prefixes, List.map_cons, List.map_nil, List.mem_cons, List.not_mem_nil, or_false] at hq
    simp only [touches] at hk; subst hk
    rcases hq with rfl | rfl | rfl
    · exact Or.inl rfl
    · exact Or.inr (Or.inl rfl)
    · exact Or.inr (Or.inr (Or.inl rfl))
  · simp only [touches] at hk; exact Or.inr (Or.inr (Or.inr hk))
  · simp only [touches] at hk; exact Or.inr (Or.inr (Or.inr hk))

theorem closeOps_touches_fine (impl : Impl) (fs : Fs) (p v g : Nat) (t : Tag) :
    ∀ op ∈ closeOps impl fs p v g t, ∀ key, touches op key →
      key = projectP p ∨ key = releaseP p v ∨ generationP p v g <+: key ∨ ∃ s ∈ t.sids, stagedStateP p v s <+: key := by
  intro op hop key hk
  simp only [closeOps, List.mem_append, List.mem_map] at hop
  rcases hop with (hop | ⟨s, hs, rfl⟩) | hop
  · obtain ⟨q, hq, rfl, _⟩ := mem_mkdirP _ _ _ hop
    simp only [generationP, prefixes, List.map_cons, List.map_nil, List.mem_cons, List.not_mem_nil, or_false] at hq
    simp only [touches] at hk; subst hk
    rcases hq with rfl | rfl | rfl
    · exact Or.inl rfl
    · exact Or.inr (Or.inl rfl)
    · exact Or.inr (Or.inr (Or.inl (List.prefix_refl _)))
  · simp only [touches] at hk
    rcases hk with hk | hk
    · exact Or.inr (Or.inr (Or.inr ⟨s, hs, hk⟩))
    · exact Or.inr (Or.inr (Or.inl (List.IsPrefix.trans (by simp [generationP, stateP]) hk)))
  · refine Or.inr (Or.inr (Or.inl ?_))
    unfold tagWriteOps at hop
    split at hop
    · simp only [List.mem_cons, List.not_mem_nil, or_false] at hop
      rcases hop with rfl | rfl | rfl
      · simp only [touches] at hk; subst hk; simp [generationP, tagTmpP]
      · simp only [touches] at hk; subst hk; simp [generationP, tagTmpP]
      · simp only [touches] at hk
        rcases hk with hk | hk
        · exact List.IsPrefix.trans (by simp [generationP, tagTmpP]) hk
        · exact List.IsPrefix.trans (by simp [generationP, tagP]) hk
    · simp only [List.mem_cons, List.not_mem_nil, or_false] at hop
      rcases hop with rfl | rfl
      · simp only [touches] at hk; subst hk; simp [generationP, tagP]
      · simp only [touches] at hk; subst hk; simp [generationP, tagP]

/-- the staged files a call leaves alone -/
def StagedSafe : Act → Nat → Nat → Nat → Prop
  | .write p' v' sid _, p, v, s => ¬ (p' = p ∧ v' = v ∧ sid = s)
  | .close p' v' _ sids, p, v, s => ¬ (p' = p ∧ v' = v ∧ s ∈ sids)
  | _, _, _, _ => True

/-- whatever a call leaves behind — complete, raising or interrupted anywhere — a staged state it does not own is still
there, byte for byte -/
theorem act_staged_frame (fs : Fs) (g : Good fs) (a : Act) (x : Fs) (hx : LeftByAct fs a x) (p v s : Nat)
    (safe : StagedSafe a p v s) : get x (stagedStateP p v s) = get fs (stagedStateP p v s) := by
  cases a with
  | idle =>
    have : x = fs := by
      rcases hx with rfl | ⟨k, cut, rfl⟩
      · rfl
      · simp [runAct, atomsAll, crashOps, runSome]
    rw [this]
  | publish dp name w pkg =>
    have hl : LeftBy fs (.publish dp name w pkg) x := hx
    cases hg : publishGuard Impl.repaired fs dp name w with
    | some e =>
      have hfs : x = fs := by
        rcases hl with rfl | ⟨k, cut, rfl⟩
        · simp [exec, hg]
        · exact crashIn_nil _ _ _ _ _ (by simp [exec, hg])
      rw [hfs]
    | none =>
      have hex : exec Impl.repaired fs (.publish dp name w pkg)
          = runCalls fs [fun f => pushOps Impl.repaired f name w pkg] := by simp [exec, hg]
      have htree0 : CrashTree fs [fun f => pushOps Impl.repaired f name w pkg] x := by
        apply leftByAct_tree
        rcases hl with rfl | ⟨k, cut, rfl⟩
        · left; rw [hex]
        · right; exact ⟨k, cut, by simp only [crashIn, hex]⟩
      have htree : CrashTree fs [fun f => pushOps ⟨true, true⟩ f name w pkg] x := htree0
      rcases publish_tree true fs x name w pkg htree with hq | hfull
      · exact hq.1 _ (by simp [stagedStateP, projectP]) (by simp [stagedStateP, releaseP])
          (by simp [stagedStateP, packageTmpP])
      · cases hfull with
        | call _ _ _ fs' _ hr hrest =>
          cases hrest
          exact (push_full_frame true fs x name w pkg hr).1 _ (by simp [stagedStateP, projectP])
            (by simp [stagedStateP, releaseP]) (by simp [stagedStateP, packageTmpP]) (by simp [stagedStateP, packageP])
  | write p' v' sid b =>
    have htree := leftByAct_tree fs [fun f => writeOps f p' v' sid b] x hx
    apply single_tree_frame fs x _ _ htree
    intro op hop ht
    rcases writeOps_touches_fine fs p' v' sid b op hop _ ht with h | h | h | h
    · simp [stagedStateP, projectP] at h
    · simp [stagedStateP, releaseP] at h
    · simp [stagedStateP, stageP] at h
    · simp only [stagedStateP, List.cons.injEq, Seg.proj.injEq, Seg.rel.injEq, Seg.state.injEq, and_true, true_and] at h
      exact safe ⟨h.1.symm, h.2.1.symm, h.2.2.symm⟩
  | close p' v' ord sids =>
    have htree := leftByAct_tree fs [closeAt Impl.repaired p' v' ord sids] x hx
    apply single_tree_frame fs x _ _ htree
    intro op hop ht
    rcases closeOps_touches_fine _ fs p' v' _ _ op hop _ ht with h | h | h | ⟨s', hs', h⟩
    · simp [stagedStateP, projectP] at h
    · simp [stagedStateP, releaseP] at h
    · simp [stagedStateP, generationP] at h
    · have := h.eq_of_length (by simp [stagedStateP])
      simp only [stagedStateP, List.cons.injEq, Seg.proj.injEq, Seg.rel.injEq, Seg.state.injEq, and_true, true_and] at this
      exact safe ⟨this.1, this.2.1, this.2.2 ▸ hs'⟩

/-- … also where a transient fault makes the call raise -/
theorem act_staged_frame_F (fs : Fs) (g : Good fs) (a : Act) (j : Nat) (p v s : Nat) (safe : StagedSafe a p v s) :
    get (faultTree fs a j) (stagedStateP p v s) = get fs (stagedStateP p v s) := by
  by_cases hp : ∃ dp name w pkg, a = .publish dp name w pkg
  · obtain ⟨dp, name, w, pkg, rfl⟩ := hp
    have hft : faultTree fs (.publish dp name w pkg) j = faultIn Impl.repaired fs (.publish dp name w pkg) j := rfl
    rcases fault_publish_cases fs g dp name w pkg j with h | ⟨_, hq⟩
    · rw [hft, h]
      exact act_staged_frame fs g (.publish dp name w pkg) _ (Or.inr ⟨j, none, rfl⟩) p v s safe
    · rw [hft]
      exact hq.1 _ (by simp [stagedStateP, projectP]) (by simp [stagedStateP, releaseP])
        (by simp [stagedStateP, packageTmpP])
  · have hne : ∀ dp name w pkg, a ≠ .publish dp name w pkg := fun dp name w pkg e => hp ⟨dp, name, w, pkg, e⟩
    rw [faultTree_crash fs a j hne]
    exact act_staged_frame fs g a _ (Or.inr ⟨j, none, rfl⟩) p v s safe

/-! ### the handle table -/

theorem lookupH_mem (hs : List (Nat × Handle)) (h : Nat) (x : Handle) (hl : lookupH hs h = some x) : (h, x) ∈ hs := by
  induction hs with
  | nil => simp [lookupH] at hl
  | cons e r ih =>
    simp only [lookupH] at hl
    split at hl
    · rename_i he; cases hl
      have : e = (h, e.2) := by obtain ⟨e1, e2⟩ := e; simp only at he; simp [he]
      rw [this]; simp
    · exact List.mem_cons_of_mem _ (ih hl)

theorem mem_setH (hs : List (Nat × Handle)) (h : Nat) (x : Handle) (e : Nat × Handle) :
    e ∈ setH hs h x ↔ e = (h, x) ∨ (e ∈ hs ∧ e.1 ≠ h) := by
  simp [setH, List.mem_filter]

theorem resolveRel_rel (fs : Fs) (x : Handle) (v : Nat) (h : x.rel = some v) : (resolveRel fs x).1.rel = some v := by
  cases hpl : projListed fs x.proj with
  | false => simp [resolveRel, hpl, h]
  | true => simp [resolveRel, hpl, h]

theorem resolveRel_same (fs : Fs) (x : Handle) (v v' : Nat) (h : x.rel = some v) (hr : (resolveRel fs x).2 = .ok v') :
    v' = v := by
  have := (resolveRel_ok fs x v' hr).2.1
  rw [resolveRel_rel fs x v h] at this
  cases this; rfl

/-! ### the handle after an operation -/

/-- the shapes of the registry call behind an operation -/
theorem actOf_shape (w : World) (h : Nat) (op : HOp) :
    actOf w h op = .idle
    ∨ (∃ x name v pkg, lookupH w.hs h = some x ∧ actOf w h op = .publish x.proj name v pkg)
    ∨ (∃ x v sid b, lookupH w.hs h = some x ∧ op = .dump sid b ∧ actOf w h op = .write x.proj v sid b
        ∧ (resolveRel w.fs x).2 = .ok v)
    ∨ (∃ x v ord, lookupH w.hs h = some x ∧ op = .commit ∧ actOf w h op = .close x.proj v ord x.sids
        ∧ (resolveRel w.fs x).2 = .ok v) := by
  by_cases hop : ∃ proc p v g, op = .open proc p v g
  · obtain ⟨proc, p, v, g, rfl⟩ := hop; exact Or.inl rfl
  · by_cases hlook : op = .look
    · subst hlook; exact Or.inl rfl
    · have hop' : ∀ proc p v g, op ≠ .open proc p v g := fun proc p v g e => hop ⟨proc, p, v, g, e⟩
      rw [actOf_general w h op hop' hlook]
      cases hl : lookupH w.hs h with
      | none => exact Or.inl rfl
      | some x =>
        dsimp only
        cases he : (plan w.fs x op).err with
        | some e => exact Or.inl rfl
        | none =>
          dsimp only
          cases op with
          | «open» proc p v g => exact absurd rfl (hop' proc p v g)
          | look => exact absurd rfl hlook
          | publish name v pkg => exact Or.inr (Or.inl ⟨x, name, v, pkg, rfl, rfl⟩)
          | begin ord n => exact Or.inl rfl
          | dump sid b =>
            obtain ⟨v, hres, hact⟩ := plan_dump_ok w.fs x sid b he
            exact Or.inr (Or.inr (Or.inl ⟨x, v, sid, b, rfl, rfl, hact, hres⟩))
          | commit =>
            obtain ⟨ord, v, _, hres, hact⟩ := plan_commit_ok w.fs x he
            exact Or.inr (Or.inr (Or.inr ⟨x, v, ord, rfl, rfl, hact, hres⟩))

/-- how an operation through handle `h` leaves that handle -/
def Next (w : World) (h : Nat) (op : HOp) (x' : Handle) : Prop :=
  (∃ proc p v g, op = .open proc p v g ∧ x' = ⟨proc, p, v, g, none, [], false⟩)
  ∨ ∃ x, lookupH w.hs h = some x ∧ x'.proj = x.proj ∧ x'.proc = x.proc
      ∧ (∀ v, x.rel = some v → x'.rel = some v)
      ∧ ((x'.dumped = x.dumped ∧ (x'.done = true ∨ (x'.done = x.done ∧ ∀ p v o s, actOf w h op ≠ .close p v o s)))
        ∨ x'.dumped = []
        ∨ ∃ sid b v, op = .dump sid b ∧ x'.dumped = x.dumped ++ [(sid, b)] ∧ x'.done = x.done ∧ x'.rel = some v
            ∧ actOf w h op = .write x.proj v sid b
            ∧ (runAct Impl.repaired w.fs (.write x.proj v sid b)).err = none)

theorem plan_fields (fs : Fs) (x : Handle) (op : HOp) (hb : ∀ o n, op ≠ .begin o n) :
    (plan fs x op).x.proj = x.proj ∧ (plan fs x op).x.proc = x.proc ∧ (plan fs x op).x.dumped = x.dumped
      ∧ (∀ v, x.rel = some v → (plan fs x op).x.rel = some v)
      ∧ ((plan fs x op).x.done = x.done ∨ ((plan fs x op).x.done = true ∧ op = .commit ∧ (plan fs x op).err = none)) := by
  have rf := resolveRel_fields fs x
  have rr := fun v => resolveRel_rel fs x v
  cases op with
  | «open» proc p v g => simp [plan]
  | publish name v pkg => simp [plan]
  | begin ord n => exact absurd rfl (hb ord n)
  | look => simp [plan]
  | dump sid b =>
    cases ha : x.acc with
    | none => simp [plan, ha]
    | some a =>
      cases hr : resolveRel fs x with
      | mk x' r =>
        rw [hr] at rf rr
        cases r with
        | error e => simp only [plan, ha, hr]; exact ⟨rf.1, rf.2.1, rf.2.2.2.2.1, rr, Or.inl rf.2.2.2.2.2⟩
        | ok v => simp only [plan, ha, hr]; exact ⟨rf.1, rf.2.1, rf.2.2.2.2.1, rr, Or.inl rf.2.2.2.2.2⟩
  | commit =>
    cases ha : x.acc with
    | none => simp [plan, ha]
    | some a =>
      obtain ⟨ord, n⟩ := a
      by_cases hn : x.sids.length ≠ n
      · simp [plan, ha, hn]
      · cases hr : resolveRel fs x with
        | mk x' r =>
          rw [hr] at rf rr
          cases r with
          | error e => simp only [plan, ha, hn, hr, if_false]; exact ⟨rf.1, rf.2.1, rf.2.2.2.2.1, rr, Or.inl rf.2.2.2.2.2⟩
          | ok v =>
            simp only [plan, ha, hn, hr, if_false]
            refine ⟨rf.1, rf.2.1, rf.2.2.2.2.1, rr, Or.inr ?_⟩
            simp

theorem perform_hs (w : World) (h : Nat) (op : HOp) :
    ((perform Impl.repaired w h op).w.hs = w.hs ∧ actOf w h op = .idle)
    ∨ ∃ x', (perform Impl.repaired w h op).w.hs = setH w.hs h x' ∧ Next w h op x' := by
  by_cases hop : ∃ proc p v g, op = .open proc p v g
  · obtain ⟨proc, p, v, g, rfl⟩ := hop
    simp only [perform]
    split
    · exact Or.inl ⟨rfl, rfl⟩
    · exact Or.inr ⟨_, rfl, Or.inl ⟨proc, p, v, g, rfl, rfl⟩⟩
  · by_cases hlook : op = .look
    · subst hlook
      simp only [perform]
      cases hl : lookupH w.hs h with
      | none => exact Or.inl ⟨rfl, rfl⟩
      | some x =>
        right
        dsimp only
        have rf := resolveRel_fields w.fs x
        have rr := fun v => resolveRel_rel w.fs x v
        have hidle : ∀ p v o s, actOf w h .look ≠ .close p v o s := by intro p v o s e; cases e
        have fin : ∀ x2 : Handle, x2.proj = x.proj → x2.proc = x.proc → (∀ v, x.rel = some v → x2.rel = some v) →
            x2.dumped = x.dumped → x2.done = x.done → Next w h .look x2 := by
          intro x2 a1 a2 a3 a4 a5
          exact Or.inr ⟨x, hl, a1, a2, a3, Or.inl ⟨a4, Or.inr ⟨a5, hidle⟩⟩⟩
        rw [(lookOn_eq w h x).2.1]
        unfold lookTag
        cases hr : resolveRel w.fs x with
        | mk x1 r =>
          rw [hr] at rf rr
          cases r with
          | error e => exact ⟨x1, rfl, fin x1 rf.1 rf.2.1 rr rf.2.2.2.2.1 rf.2.2.2.2.2⟩
          | ok v =>
            dsimp only
            have gen_fields : ∀ x2 r2, resolveGen w.fs x.proj v x1 = (x2, r2) →
                x2.proj = x1.proj ∧ x2.proc = x1.proc ∧ x2.rel = x1.rel ∧ x2.dumped = x1.dumped ∧ x2.done = x1.done := by
              intro x2 r2 hg
              unfold resolveGen at hg
              split at hg
              · cases hg; simp
              · split at hg <;> (cases hg; simp)
            cases hg : resolveGen w.fs x.proj v x1 with
            | mk x2 rg =>
              obtain ⟨g1, g2, g3, g4, g5⟩ := gen_fields x2 rg hg
              have hx2 : Next w h .look x2 :=
                fin x2 (g1.trans rf.1) (g2.trans rf.2.1) (fun v hv => g3.trans (rr v hv)) (g4.trans rf.2.2.2.2.1)
                  (g5.trans rf.2.2.2.2.2)
              cases rg with
              | error e => exact ⟨x2, rfl, hx2⟩
              | ok og =>
                cases og with
                | none => exact ⟨x2, rfl, hx2⟩
                | some g =>
                  dsimp only
                  cases lookupTag w.tags x.proc (x.proj, v, g) with
                  | some t => exact ⟨x2, rfl, hx2⟩
                  | none =>
                    dsimp only
                    cases tagOf w.fs x.proj v g with
                    | some t => exact ⟨x2, rfl, hx2⟩
                    | none => exact ⟨x2, rfl, hx2⟩
    · have hop' : ∀ proc p v g, op ≠ .open proc p v g := fun proc p v g e => hop ⟨proc, p, v, g, e⟩
      rw [perform_general w h op hop' hlook]
      cases hl : lookupH w.hs h with
      | none => exact Or.inl ⟨rfl, by rw [actOf_general w h op hop' hlook, hl]⟩
      | some x =>
        right
        dsimp only
        by_cases hb : ∃ o n, op = .begin o n
        · obtain ⟨o, n, rfl⟩ := hb
          refine ⟨{ x with acc := some (o, n), dumped := [], done := false }, ?_, Or.inr ⟨x, hl, rfl, rfl, fun v hv => hv,
            Or.inr (Or.inl rfl)⟩⟩
          simp [plan, runAct, afterOk]
        · have hb' : ∀ o n, op ≠ .begin o n := fun o n e => hb ⟨o, n, e⟩
          obtain ⟨f1, f2, f3, f4, f5⟩ := plan_fields w.fs x op hb'
          have hact := actOf_general w h op hop' hlook
          rw [hl] at hact
          dsimp only at hact
          cases he : (plan w.fs x op).err with
          | some e =>
            rw [he] at hact
            dsimp only at hact ⊢
            refine ⟨_, rfl, Or.inr ⟨x, hl, f1, f2, f4, Or.inl ⟨f3, ?_⟩⟩⟩
            rcases f5 with f5 | ⟨_, _, f5⟩
            · exact Or.inr ⟨f5, by intro p v o s e'; rw [hact] at e'; cases e'⟩
            · rw [he] at f5; cases f5
          | none =>
            rw [he] at hact
            dsimp only at hact ⊢
            cases herr : (runAct Impl.repaired w.fs (plan w.fs x op).act).err with
            | some e =>
              simp only [Option.isNone_some, Bool.false_eq_true, if_false]
              refine ⟨_, rfl, Or.inr ⟨x, hl, f1, f2, f4, Or.inl ⟨f3, ?_⟩⟩⟩
              rcases f5 with f5 | ⟨f5, _, _⟩
              · by_cases hc : op = .commit
                · subst hc
                  obtain ⟨ord, v, _, _, hpa⟩ := plan_commit_ok w.fs x he
                  -- a commit whose plan succeeds sets `done`
                  have : (plan w.fs x .commit).x.done = true := by
                    cases ha : x.acc with
                    | none => simp [plan, ha] at he
                    | some a =>
                      obtain ⟨o, n⟩ := a
                      by_cases hn : x.sids.length ≠ n
                      · simp [plan, ha, hn] at he
                      · cases hr : resolveRel w.fs x with
                        | mk x' r =>
                          cases r with
                          | error e => simp [plan, ha, hn, hr] at he
                          | ok v => simp [plan, ha, hn, hr]
                  exact Or.inl this
                · refine Or.inr ⟨f5, ?_⟩
                  intro p v o s e'
                  rcases actOf_shape w h op with h1 | ⟨_, _, _, _, _, h1⟩ | ⟨_, _, _, _, _, _, h1, _⟩ | ⟨_, _, _, _, h1, _, _⟩
                  · rw [h1] at e'; cases e'
                  · rw [h1] at e'; cases e'
                  · rw [h1] at e'; cases e'
                  · exact hc h1
              · exact Or.inl f5
            | none =>
              simp only [Option.isNone_none, if_true]
              cases op with
              | «open» proc p v g => exact absurd rfl (hop' proc p v g)
              | look => exact absurd rfl hlook
              | begin o n => exact absurd rfl (hb' o n)
              | publish name v pkg =>
                refine ⟨_, rfl, Or.inr ⟨x, hl, f1, f2, f4, Or.inl ⟨f3, ?_⟩⟩⟩
                rcases f5 with f5 | ⟨_, f5, _⟩
                · exact Or.inr ⟨f5, by intro p v' o s e'; rw [hact] at e'; cases e'⟩
                · cases f5
              | commit =>
                refine ⟨_, rfl, Or.inr ⟨x, hl, f1, f2, f4, Or.inl ⟨f3, ?_⟩⟩⟩
                rcases f5 with f5 | ⟨f5, _, _⟩
                · obtain ⟨ord, v, _, _, hpa⟩ := plan_commit_ok w.fs x he
                  have : (plan w.fs x .commit).x.done = true := by
                    cases ha : x.acc with
                    | none => simp [plan, ha] at he
                    | some a =>
                      obtain ⟨o, n⟩ := a
                      by_cases hn : x.sids.length ≠ n
                      · simp [plan, ha, hn] at he
                      · cases hr : resolveRel w.fs x with
                        | mk x' r =>
                          cases r with
                          | error e => simp [plan, ha, hn, hr] at he
                          | ok v => simp [plan, ha, hn, hr]
                  exact Or.inl this
                · exact Or.inl f5
              | dump sid b =>
                obtain ⟨v, hres, hpa⟩ := plan_dump_ok w.fs x sid b he
                have hrel : (plan w.fs x (.dump sid b)).x.rel = some v := by
                  cases ha : x.acc with
                  | none => simp [plan, ha] at he
                  | some a =>
                    cases hr : resolveRel w.fs x with
                    | mk x' r =>
                      have := (resolveRel_ok w.fs x v hres).2.1
                      rw [hr] at this hres
                      cases r with
                      | error e => cases hres
                      | ok v' => simp only [plan, ha, hr]; exact this
                refine ⟨_, rfl, Or.inr ⟨x, hl, f1, f2, f4, Or.inr (Or.inr ⟨sid, b, v, rfl, ?_, ?_, hrel, ?_, ?_⟩)⟩⟩
                · simp [afterOk, f3]
                · rcases f5 with f5 | ⟨_, f5, _⟩
                  · simp [afterOk, f5]
                  · cases f5
                · rw [hact, hpa]
                · rw [← hpa]; exact herr

/-! ### what is owed to the trainings in progress -/

def HOp.dumpSid : HOp → Option Nat
  | .dump sid _ => some sid
  | _ => none

def HEv.dumpSid : HEv → Option Nat
  | .run _ op => op.dumpSid
  | .die _ op _ _ => op.dumpSid
  | .fault _ op _ => op.dumpSid

/-- the state ids drawn by the dumps of a history (`uuid.uuid4()` in `Release.dump`), in order -/
def dumpSids (evs : List HEv) : List Nat := evs.filterMap HEv.dumpSid

/-- for every handle with a training in progress (dumps since `begin`, no commit yet): every dumped state is staged,
byte for byte, in the stage directory of the release the handle is bound to; state ids were drawn by earlier dumps and
belong to one handle -/
structure Owed (w : World) (used : List Nat) : Prop where
  staged : ∀ e ∈ w.hs, e.2.done = false → ∀ sb ∈ e.2.dumped,
    ∃ v, e.2.rel = some v ∧ get w.fs (stagedStateP e.2.proj v sb.1) = some (.file sb.2)
  used : ∀ e ∈ w.hs, ∀ s ∈ e.2.sids, s ∈ used
  owner : ∀ e1 ∈ w.hs, ∀ e2 ∈ w.hs, ∀ s, s ∈ e1.2.sids → s ∈ e2.2.sids → e1 = e2

theorem mem_sids (x : Handle) (sb : Nat × Bytes) (h : sb ∈ x.dumped) : sb.1 ∈ x.sids :=
  List.mem_map.mpr ⟨sb, h, rfl⟩

/-- the call of the next operation leaves alone what is owed to an entry — unless it is the commit of that very handle -/
theorem staged_kept (w : World) (used : List Nat) (inv : Owed w used) (h : Nat) (op : HOp)
    (fresh : ∀ sid, op.dumpSid = some sid → sid ∉ used) (e0 : Nat × Handle) (he0 : e0 ∈ w.hs) (v s : Nat)
    (hs : s ∈ e0.2.sids)
    (hne : (∀ x, lookupH w.hs h = some x → e0 ≠ (h, x)) ∨ ∀ p v o s, actOf w h op ≠ .close p v o s) :
    StagedSafe (actOf w h op) e0.2.proj v s := by
  rcases actOf_shape w h op with h1 | ⟨_, _, _, _, _, h1⟩ | ⟨x, v', sid, b, _, hop, h1, _⟩ | ⟨x, v', ord, hl, _, h1, _⟩
  · rw [h1]; trivial
  · rw [h1]; trivial
  · rw [h1]
    intro hc
    have : sid ∉ used := fresh sid (by rw [hop]; rfl)
    exact this (hc.2.2 ▸ inv.used e0 he0 s hs)
  · rw [h1]
    intro hc
    rcases hne with hne | hne
    · exact hne x hl (inv.owner e0 he0 (h, x) (lookupH_mem _ _ _ hl) s hs hc.2.2)
    · exact hne _ _ _ _ h1

theorem commit_done (fs : Fs) (x : Handle) (he : (plan fs x .commit).err = none) : (plan fs x .commit).x.done = true := by
  cases ha : x.acc with
  | none => simp [plan, ha] at he
  | some a =>
    obtain ⟨o, n⟩ := a
    by_cases hn : x.sids.length ≠ n
    · simp [plan, ha, hn] at he
    · cases hr : resolveRel fs x with
      | mk x' r =>
        cases r with
        | error e => simp [plan, ha, hn, hr] at he
        | ok v => simp [plan, ha, hn, hr]

/-- the handle a faulted operation leaves: same project, same dumps, keys stay resolved, and — if the operation was a
commit that reached the registry — nothing owed any more -/
theorem faultHandle_fields (w : World) (h : Nat) (x : Handle) (op : HOp) (hl : lookupH w.hs h = some x) :
    (faultHandle w.fs x op).proj = x.proj ∧ (faultHandle w.fs x op).dumped = x.dumped
      ∧ (∀ v, x.rel = some v → (faultHandle w.fs x op).rel = some v)
      ∧ ((faultHandle w.fs x op).done = true
          ∨ ((faultHandle w.fs x op).done = x.done ∧ ∀ p v o s, actOf w h op ≠ .close p v o s)) := by
  have notclose : ∀ op', (op' ≠ .commit ∨ (plan w.fs x op').err ≠ none) → ∀ p v o s, actOf w h op' ≠ .close p v o s := by
    intro op' hh p v o s e'
    rcases actOf_shape w h op' with h1 | ⟨_, _, _, _, _, h1⟩ | ⟨_, _, _, _, _, _, h1, _⟩ | ⟨x0, v0, o0, hl0, hc, h1, _⟩
    · rw [h1] at e'; cases e'
    · rw [h1] at e'; cases e'
    · rw [h1] at e'; cases e'
    · subst hc
      rcases hh with h2 | h2
      · exact h2 rfl
      · have hact := actOf_general w h .commit (by intros; simp) (by simp)
        rw [hl] at hact
        cases hpe : (plan w.fs x .commit).err with
        | none => exact h2 hpe
        | some e0 =>
          simp only [hpe] at hact
          rw [hact] at e'; cases e'
  cases op with
  | «open» proc p v g => exact ⟨rfl, rfl, fun v hv => hv, Or.inr ⟨rfl, notclose _ (Or.inl (by simp))⟩⟩
  | look => exact ⟨rfl, rfl, fun v hv => hv, Or.inr ⟨rfl, notclose _ (Or.inl (by simp))⟩⟩
  | begin o n => exact ⟨rfl, rfl, fun v hv => hv, Or.inr ⟨rfl, notclose _ (Or.inl (by simp))⟩⟩
  | publish name v pkg =>
    obtain ⟨f1, _, f3, f4, f5⟩ := plan_fields w.fs x (.publish name v pkg) (by intros; simp)
    refine ⟨f1, f3, f4, Or.inr ⟨?_, notclose _ (Or.inl (by simp))⟩⟩
    rcases f5 with f5 | ⟨_, f5, _⟩
    · exact f5
    · cases f5
  | dump sid b =>
    obtain ⟨f1, _, f3, f4, f5⟩ := plan_fields w.fs x (.dump sid b) (by intros; simp)
    refine ⟨f1, f3, f4, Or.inr ⟨?_, notclose _ (Or.inl (by simp))⟩⟩
    rcases f5 with f5 | ⟨_, f5, _⟩
    · exact f5
    · cases f5
  | commit =>
    obtain ⟨f1, _, f3, f4, f5⟩ := plan_fields w.fs x .commit (by intros; simp)
    refine ⟨f1, f3, f4, ?_⟩
    cases hpe : (plan w.fs x .commit).err with
    | none => exact Or.inl (commit_done w.fs x hpe)
    | some e0 =>
      rcases f5 with f5 | ⟨_, _, f5⟩
      · exact Or.inr ⟨f5, notclose _ (Or.inr (by rw [hpe]; simp))⟩
      · rw [hpe] at f5; cases f5

theorem applyH_owed (w : World) (used : List Nat) (e : HEv) (inv : Owed w used) (g2 : Good2 w.fs)
    (fresh : ∀ sid, e.dumpSid = some sid → sid ∉ used) :
    Owed (applyH Impl.repaired w e) (used ++ e.dumpSid.toList) := by
  cases e with
  | die h op k cut =>
    simp only [applyH]
    cases hl : lookupH w.hs h with
    | none =>
      exact ⟨inv.staged, fun e0 he0 s hs => List.mem_append_left _ (inv.used e0 he0 s hs), inv.owner⟩
    | some x =>
      dsimp only
      have hleft : LeftByAct w.fs (actOf w h op)
          (runSome w.fs (crashOps (atomsAll (perform Impl.repaired w h op).calls.flatten) k cut)).1 :=
        Or.inr ⟨k, cut, by rw [(perform_act w h op).2]⟩
      have hsub : ∀ e0 ∈ (killProc { w with fs := (runSome w.fs (crashOps (atomsAll
          (perform Impl.repaired w h op).calls.flatten) k cut)).1 } x.proc).hs, e0 ∈ w.hs ∧ e0 ≠ (h, x) := by
        intro e0 he0
        simp only [killProc, List.mem_filter, bne_iff_ne, ne_eq] at he0
        exact ⟨he0.1, fun e' => he0.2 (by rw [e'])⟩
      refine ⟨?_, ?_, ?_⟩
      · intro e0 he0 hd sb hsb
        obtain ⟨hin, hne⟩ := hsub e0 he0
        obtain ⟨v, hv, hg⟩ := inv.staged e0 hin hd sb hsb
        refine ⟨v, hv, ?_⟩
        show get (runSome w.fs _).1 _ = _
        rw [act_staged_frame w.fs g2.good _ _ hleft e0.2.proj v sb.1
          (staged_kept w used inv h op fresh e0 hin v sb.1 (mem_sids _ _ hsb)
            (Or.inl (fun x' hx' => by rw [hl] at hx'; cases hx'; exact hne)))]
        exact hg
      · intro e0 he0 s hs
        exact List.mem_append_left _ (inv.used e0 (hsub e0 he0).1 s hs)
      · intro e1 he1 e2 he2 s h1 h2
        exact inv.owner e1 (hsub e1 he1).1 e2 (hsub e2 he2).1 s h1 h2
  | fault h op j =>
    simp only [applyH]
    cases hl : lookupH w.hs h with
    | none =>
      exact ⟨inv.staged, fun e0 he0 s hs => List.mem_append_left _ (inv.used e0 he0 s hs), inv.owner⟩
    | some x =>
      dsimp only
      have hfs : (runSome w.fs (faultAtoms (atomsAll (perform Impl.repaired w h op).calls.flatten) j)).1
          = faultTree w.fs (actOf w h op) j := by simp only [faultTree, (perform_act w h op).2]
      rw [hfs]
      obtain ⟨q1, q2, q3, q4⟩ := faultHandle_fields w h x op hl
      have hxin := lookupH_mem _ _ _ hl
      have keep : ∀ e0 ∈ w.hs, e0.2.done = false → ∀ sb ∈ e0.2.dumped,
          ((∀ x', lookupH w.hs h = some x' → e0 ≠ (h, x')) ∨ ∀ p v o s, actOf w h op ≠ .close p v o s) →
          ∃ v, e0.2.rel = some v
            ∧ get (faultTree w.fs (actOf w h op) j) (stagedStateP e0.2.proj v sb.1) = some (.file sb.2) := by
        intro e0 hin hd sb hsb hne
        obtain ⟨v, hv, hg⟩ := inv.staged e0 hin hd sb hsb
        refine ⟨v, hv, ?_⟩
        rw [act_staged_frame_F w.fs g2.good _ j e0.2.proj v sb.1
          (staged_kept w used inv h op fresh e0 hin v sb.1 (mem_sids _ _ hsb) hne)]
        exact hg
      have hsids : (faultHandle w.fs x op).sids = x.sids := by simp [Handle.sids, q2]
      refine ⟨?_, ?_, ?_⟩
      · intro e0 he0 hd sb hsb
        rw [mem_setH] at he0
        rcases he0 with rfl | ⟨hin, hne⟩
        · simp only at hd hsb
          rcases q4 with q4 | ⟨q4, hnc⟩
          · rw [q4] at hd; cases hd
          · rw [q4] at hd; rw [q2] at hsb
            obtain ⟨v, hv, hg⟩ := keep (h, x) hxin hd sb hsb (Or.inr hnc)
            exact ⟨v, q3 v hv, by simp only [q1]; exact hg⟩
        · exact keep e0 hin hd sb hsb (Or.inl (fun x' _ e' => hne (by rw [e'])))
      · intro e0 he0 s hs
        rw [mem_setH] at he0
        rcases he0 with rfl | ⟨hin, _⟩
        · simp only [hsids] at hs
          exact List.mem_append_left _ (inv.used _ hxin s hs)
        · exact List.mem_append_left _ (inv.used e0 hin s hs)
      · intro e1 he1 e2 he2 s h1 h2
        rw [mem_setH] at he1 he2
        have clash : ∀ e0, e0 ∈ w.hs → e0.1 ≠ h → s ∈ e0.2.sids → s ∈ x.sids → False := by
          intro e0 hin hne hs0 hsx
          exact hne (by rw [inv.owner e0 hin (h, x) hxin s hs0 hsx])
        rcases he1 with rfl | ⟨hin1, hne1⟩ <;> rcases he2 with rfl | ⟨hin2, hne2⟩
        · rfl
        · simp only [hsids] at h1; exact absurd (clash e2 hin2 hne2 h2 h1) id
        · simp only [hsids] at h2; exact absurd (clash e1 hin1 hne1 h1 h2) id
        · exact inv.owner e1 hin1 e2 hin2 s h1 h2
  | run h op =>
    simp only [applyH]
    have hleft : LeftByAct w.fs (actOf w h op) (perform Impl.repaired w h op).w.fs := Or.inl (perform_act w h op).1
    have keep : ∀ e0 ∈ w.hs, e0.2.done = false → ∀ sb ∈ e0.2.dumped,
        ((∀ x, lookupH w.hs h = some x → e0 ≠ (h, x)) ∨ ∀ p v o s, actOf w h op ≠ .close p v o s) →
        ∃ v, e0.2.rel = some v
          ∧ get (perform Impl.repaired w h op).w.fs (stagedStateP e0.2.proj v sb.1) = some (.file sb.2) := by
      intro e0 hin hd sb hsb hne
      obtain ⟨v, hv, hg⟩ := inv.staged e0 hin hd sb hsb
      refine ⟨v, hv, ?_⟩
      rw [act_staged_frame w.fs g2.good _ _ hleft e0.2.proj v sb.1
        (staged_kept w used inv h op fresh e0 hin v sb.1 (mem_sids _ _ hsb) hne)]
      exact hg
    rcases perform_hs w h op with ⟨hhs, hidle⟩ | ⟨x', hhs, hnext⟩
    · refine ⟨?_, ?_, ?_⟩
      · intro e0 he0 hd sb hsb
        rw [hhs] at he0
        exact keep e0 he0 hd sb hsb (Or.inr (by intro p v o s e'; rw [hidle] at e'; cases e'))
      · intro e0 he0 s hs
        rw [hhs] at he0
        exact List.mem_append_left _ (inv.used e0 he0 s hs)
      · intro e1 he1 e2 he2 s h1 h2
        rw [hhs] at he1 he2
        exact inv.owner e1 he1 e2 he2 s h1 h2
    · -- the entries afterwards: the new handle, and the old entries of the other handles
      have other : ∀ e0, e0 ∈ w.hs → e0.1 ≠ h → ∀ x, lookupH w.hs h = some x → e0 ≠ (h, x) := by
        intro e0 _ hne x _ e'; exact hne (by rw [e'])
      have xsids : ∀ s ∈ x'.sids, (∃ x, lookupH w.hs h = some x ∧ s ∈ x.sids) ∨ op.dumpSid = some s := by
        intro s hs
        rcases hnext with ⟨proc, p, v, g, _, rfl⟩ | ⟨x, hl, _, _, _, hd⟩
        · simp [Handle.sids] at hs
        · rcases hd with ⟨hd, _⟩ | hd | ⟨sid, b, v, rfl, hd, _⟩
          · left; exact ⟨x, hl, by simpa [Handle.sids, hd] using hs⟩
          · simp [Handle.sids, hd] at hs
          · simp only [Handle.sids, hd, List.map_append, List.map_cons, List.map_nil, List.mem_append, List.mem_cons,
              List.not_mem_nil, or_false] at hs
            rcases hs with hs | rfl
            · left; exact ⟨x, hl, hs⟩
            · right; rfl
      refine ⟨?_, ?_, ?_⟩
      · intro e0 he0 hd sb hsb
        rw [hhs, mem_setH] at he0
        rcases he0 with rfl | ⟨hin, hne⟩
        · -- the handle the operation went through
          rcases hnext with ⟨proc, p, v, g, _, rfl⟩ | ⟨x, hl, hproj, _, hrel, hdump⟩
          · simp at hsb
          · have hxin := lookupH_mem _ _ _ hl
            rcases hdump with ⟨hdd, hdone⟩ | hdd | ⟨sid, b, v, rfl, hdd, hdn, hrv, hact, herr⟩
            · rcases hdone with hdone | ⟨hdone, hnc⟩
              · simp only at hd; rw [hdone] at hd; cases hd
              · simp only at hd hsb
                rw [hdone] at hd; rw [hdd] at hsb
                obtain ⟨v, hv, hg⟩ := keep (h, x) hxin hd sb hsb (Or.inr hnc)
                exact ⟨v, hrel v hv, by simp only [hproj]; exact hg⟩
            · simp only at hsb; rw [hdd] at hsb; cases hsb
            · simp only at hd hsb
              rw [hdn] at hd
              rw [hdd, List.mem_append] at hsb
              have hnc : ∀ p v o s, actOf w h (.dump sid b) ≠ .close p v o s := by
                intro p v' o s e'; rw [hact] at e'; cases e'
              rcases hsb with hsb | hsb
              · obtain ⟨v', hv', hg⟩ := keep (h, x) hxin hd sb hsb (Or.inr hnc)
                exact ⟨v', hrel v' hv', by simp only [hproj]; exact hg⟩
              · simp only [List.mem_cons, List.not_mem_nil, or_false] at hsb
                subst hsb
                refine ⟨v, hrv, ?_⟩
                simp only [hproj]
                rw [(perform_act w h _).1, hact]
                exact (write_ok w.fs x.proj v sid b herr).1
        · exact keep e0 hin hd sb hsb (Or.inl (other e0 hin hne))
      · intro e0 he0 s hs
        rw [hhs, mem_setH] at he0
        rcases he0 with rfl | ⟨hin, _⟩
        · rcases xsids s hs with ⟨x, hl, hsx⟩ | hds
          · exact List.mem_append_left _ (inv.used _ (lookupH_mem _ _ _ hl) s hsx)
          · simp [HEv.dumpSid, hds]
        · exact List.mem_append_left _ (inv.used e0 hin s hs)
      · intro e1 he1 e2 he2 s h1 h2
        rw [hhs, mem_setH] at he1 he2
        have clash : ∀ e0, e0 ∈ w.hs → e0.1 ≠ h → s ∈ e0.2.sids → s ∈ x'.sids → False := by
          intro e0 hin hne hs0 hsx
          rcases xsids s hsx with ⟨x, hl, hsx'⟩ | hds
          · exact other e0 hin hne x hl (inv.owner e0 hin (h, x) (lookupH_mem _ _ _ hl) s hs0 hsx')
          · exact fresh s (by simp [HEv.dumpSid, hds]) (inv.used e0 hin s hs0)
        rcases he1 with rfl | ⟨hin1, hne1⟩ <;> rcases he2 with rfl | ⟨hin2, hne2⟩
        · rfl
        · exact absurd (clash e2 hin2 hne2 h2 h1) id
        · exact absurd (clash e1 hin1 hne1 h1 h2) id
        · exact inv.owner e1 hin1 e2 hin2 s h1 h2

theorem dumpSids_cons (e : HEv) (r : List HEv) : dumpSids (e :: r) = e.dumpSid.toList ++ dumpSids r := by
  simp only [dumpSids, List.filterMap_cons]
  cases e.dumpSid <;> simp

theorem playH_owed_from (evs : List HEv) : ∀ w used, Owed w used → Good2 w.fs → (used ++ dumpSids evs).Nodup →
    Owed (playH Impl.repaired w evs) (used ++ dumpSids evs) := by
  induction evs with
  | nil => intro w used inv _ _; simpa [dumpSids, playH] using inv
  | cons e r ih =>
    intro w used inv g2 nd
    rw [dumpSids_cons, ← List.append_assoc] at nd ⊢
    simp only [playH]
    apply ih _ _ _ (applyH_good2 w g2 e) nd
    apply applyH_owed w used e inv g2
    intro sid hsid hin
    have hnd := (List.nodup_append.mp (List.nodup_append.mp nd).1)
    rw [hsid] at hnd
    exact hnd.2.2 sid hin sid (by simp) rfl

/-- along any interleaved history in which every dump draws a fresh state id, what was dumped through a handle since
`begin` stays staged until that handle commits -/
theorem playH_owed (evs : List HEv) (nd : (dumpSids evs).Nodup) :
    Owed (playH Impl.repaired World.empty evs) (dumpSids evs) := by
  have h0 : Owed World.empty [] :=
    ⟨fun e he => by simp [World.empty] at he, fun e he => by simp [World.empty] at he,
      fun e he => by simp [World.empty] at he⟩
  have := playH_owed_from evs World.empty [] h0 empty_good2 (by simpa using nd)
  simpa using this

/-! ### the single-writer step is one schedule of a handle -/

theorem lookupH_setH (hs : List (Nat × Handle)) (h : Nat) (x : Handle) : lookupH (setH hs h x) h = some x := by
  simp [setH, lookupH]

/-- the events of one training through handle `h`: `begin`, one `dump` per state, `commit` -/
def trainEvents (h ord : Nat) (sts : List (Nat × Bytes)) : List HEv :=
  .run h (.begin ord sts.length) :: (sts.map (fun s => HEv.run h (.dump s.1 s.2)) ++ [.run h .commit])

theorem relListed_of_stageEq {p v : Nat} {fs0 fs : Fs} (h : StageEq p v fs0 fs) : relListed fs p v = relListed fs0 p v := by
  simp [relListed, isDir, h (projectP p) (by simp [stageP, projectP]), h (releaseP p v) (by simp [stageP, releaseP]),
    h (packageP p v) (by simp [stageP, packageP])]

theorem projListed_of_relListed (fs : Fs) (p v : Nat) (h : relListed fs p v = true) : projListed fs p = true := by
  simp only [projListed, Bool.not_eq_true', List.isEmpty_eq_false_iff]
  intro e
  have := (mem_releasesOf fs p v).mpr h
  rw [e] at this; cases this

theorem resolveRel_explicit (fs : Fs) (x : Handle) (v : Nat) (hr : x.rel = some v) (hl : relListed fs x.proj v = true) :
    resolveRel fs x = (x, .ok v) := by
  simp [resolveRel, projListed_of_relListed fs x.proj v hl, hr, hl]

/-- the dumps of a training through a handle bound to the listed release `p/v`, one after the other on the shared tree,
are the `write` calls of the single-writer step -/
theorem dumps_simulate (p v ord n : Nat) (fs0 : Fs) (hp : get fs0 (projectP p) ≠ none) (hv : get fs0 (releaseP p v) ≠ none)
    (hl0 : relListed fs0 p v = true) (h : Nat) :
    ∀ (sts : List (Nat × Bytes)) (w : World) (m : Fs) (x : Handle), StageEq p v fs0 w.fs →
      lookupH w.hs h = some x → x.proj = p → x.rel = some v → x.acc = some (ord, n) →
      FullTree w.fs (writeCalls p v sts) m →
      ∃ w' x', w' = playH Impl.repaired w (sts.map (fun s => HEv.run h (.dump s.1 s.2))) ∧ w'.fs = m
        ∧ lookupH w'.hs h = some x' ∧ x'.proj = p ∧ x'.rel = some v ∧ x'.acc = some (ord, n)
        ∧ x'.dumped = x.dumped ++ sts := by
  intro sts
  induction sts with
  | nil =>
    intro w m x _ hl hpj hr ha hm
    cases hm
    exact ⟨w, x, rfl, rfl, hl, hpj, hr, ha, by simp⟩
  | cons s r ih =>
    intro w m x hse hl hpj hr ha hm
    simp only [writeCalls, List.map_cons] at hm
    cases hm with
    | call _ _ _ fs' _ hrun hrest =>
      have hlst : relListed w.fs x.proj v = true := by rw [hpj, relListed_of_stageEq hse]; exact hl0
      have hres := resolveRel_explicit w.fs x v hr hlst
      have hplan : plan w.fs x (.dump s.1 s.2) = ⟨x, .write x.proj v s.1 s.2, none⟩ := by
        simp [plan, ha, hres]
      have hrc : runCalls w.fs [fun f => writeOps f p v s.1 s.2] = ⟨fs', [writeOps w.fs p v s.1 s.2], none⟩ := by
        simp [runCalls, run_runSome _ _ _ hrun]
      have hperf : perform Impl.repaired w h (.dump s.1 s.2)
          = ⟨{ w with fs := fs', hs := setH w.hs h { x with dumped := x.dumped ++ [(s.1, s.2)] } },
              [writeOps w.fs p v s.1 s.2], none, none⟩ := by
        rw [perform_general w h _ (by intros; simp) (by simp), hl]
        simp only [hplan, runAct, hpj, hrc, actErr, afterOk, Option.isNone_none, if_true]
      have hp' : get w.fs (projectP p) ≠ none := by rw [hse _ (by simp [stageP, projectP])]; exact hp
      have hv' : get w.fs (releaseP p v) ≠ none := by rw [hse _ (by simp [stageP, releaseP])]; exact hv
      have hrun' := hrun
      simp only [atomsAll_writeOps] at hrun'
      have hf := write_full_frame w.fs fs' p v s.1 s.2 hp' hv' hrun'
      let w1 : World := { w with fs := fs', hs := setH w.hs h { x with dumped := x.dumped ++ [(s.1, s.2)] } }
      have hse1 : StageEq p v fs0 w1.fs := fun key hk => by
        show get fs' key = _; rw [hf key hk, hse key hk]
      obtain ⟨w', x', hw', hfs', hl', a1, a2, a3, a4⟩ :=
        ih w1 m { x with dumped := x.dumped ++ [(s.1, s.2)] } hse1 (lookupH_setH _ _ _) hpj hr ha hrest
      refine ⟨w', x', ?_, hfs', hl', a1, a2, a3, by rw [a4]; simp⟩
      rw [hw']
      simp only [List.map_cons, playH, applyH, hperf]
      rfl

/-- **the single-writer step is one schedule of the handle model**: a training step of Part 2 that succeeds on a tree
leaves exactly the tree that a fresh handle on that release leaves with `open`, `begin`, one `dump` per state, `commit`
— from any world with that tree, whatever other handles exist -/
theorem train_simulates (w : World) (h proc p v ord : Nat) (sts : List (Nat × Bytes))
    (hok : (exec Impl.repaired w.fs (.train p v ord sts)).err = none) :
    (playH Impl.repaired w (.run h (.open proc p (some v) none) :: trainEvents h ord sts)).fs
      = (exec Impl.repaired w.fs (.train p v ord sts)).fs := by
  cases hg : trainGuard w.fs p v with
  | some e => simp [exec, hg] at hok
  | none =>
    obtain ⟨hl0, hp, hv⟩ := trainGuard_none w.fs p v hg
    have hex : exec Impl.repaired w.fs (.train p v ord sts) = runCalls w.fs (trainCalls Impl.repaired p v ord sts) := by
      simp [exec, hg]
    rw [hex] at hok ⊢
    have hfull := runCalls_full _ w.fs hok
    generalize (runCalls w.fs (trainCalls Impl.repaired p v ord sts)).fs = x at hfull ⊢
    rw [trainCalls_eq] at hfull
    obtain ⟨m, hw, hc⟩ := hfull.append_inv
    -- open, begin
    let x1 : Handle := ⟨proc, p, some v, none, some (ord, sts.length), [], false⟩
    let w1 : World := { w with hs := setH (setH w.hs h ⟨proc, p, some v, none, none, [], false⟩) h x1 }
    have hstart : playH Impl.repaired w (.run h (.open proc p (some v) none) :: trainEvents h ord sts)
        = playH Impl.repaired w1 (sts.map (fun s => HEv.run h (.dump s.1 s.2)) ++ [.run h .commit]) := by
      simp only [trainEvents, playH, applyH]
      have h1 : (perform Impl.repaired w h (.open proc p (some v) none)).w
          = { w with hs := setH w.hs h ⟨proc, p, some v, none, none, [], false⟩ } := by
        simp [perform]
      rw [h1]
      have h2 : (perform Impl.repaired { w with hs := setH w.hs h ⟨proc, p, some v, none, none, [], false⟩ } h
          (.begin ord sts.length)).w = w1 := by
        rw [perform_general _ h _ (by intros; simp) (by simp)]
        simp only [lookupH_setH]
        simp [plan, runAct, afterOk, actErr, w1, x1]
      rw [h2]
    rw [hstart, playH_append]
    obtain ⟨w', x', hw', hfs', hl', a1, a2, a3, a4⟩ :=
      dumps_simulate p v ord sts.length w.fs hp hv hl0 h sts w1 m x1 (fun _ _ => rfl) (lookupH_setH _ _ _) rfl rfl rfl hw
    rw [← hw']
    -- commit
    have hse := writes_stageEq p v w.fs hp hv sts w.fs m (fun _ _ => rfl) hw
    have hlm : relListed w'.fs x'.proj v = true := by rw [hfs', a1, relListed_of_stageEq hse]; exact hl0
    have hres := resolveRel_explicit w'.fs x' v a2 hlm
    have hsids : x'.sids = sts.map (·.1) := by simp [Handle.sids, a4, x1]
    have hplan : plan w'.fs x' .commit = ⟨{ x' with done := true }, .close x'.proj v ord x'.sids, none⟩ := by
      simp [plan, a3, hsids, hres]
    have hrc := hc.runCalls
    simp only [playH, applyH]
    rw [perform_general w' h .commit (by intros; simp) (by simp), hl']
    rw [hfs'] at hplan
    simp only [hfs', hplan, runAct, a1, hsids]
    exact hrc.2

end ForML.Registry
