/-
C06 — LIMIT / OFFSET arithmetic: what `generate_query` emits for `Rows(count, offset)` (`LIMIT count`, and `OFFSET offset`
only when the offset is non-zero) selects exactly the rows `[offset, offset + count)` of the result without a limit, in
the SQL the parser emits and in the reference denotation alike.  Core Lean only.
-/
import ForML.Lemmas.C06Parse

namespace ForML.C06
open ForML.Dsl ForML.Rel ForML.Parser ForML.Denote

/-! ### `mapM` over a window -/

theorem mapM_take {α β : Type} (f : α → Option β) : ∀ (l : List α) (out : List β) (n : Nat),
    l.mapM f = some out → (l.take n).mapM f = some (out.take n)
  | [], out, n, h => by simp at h; subst h; simp
  | a :: l, out, 0, _ => by simp
  | a :: l, out, n + 1, h => by
    rw [List.mapM_cons] at h
    cases hf : f a with
    | none => simp [hf] at h
    | some b =>
      cases hl : l.mapM f with
      | none => simp [hf, hl] at h
      | some bs =>
        simp [hf, hl] at h
        subst h
        simp [List.take, List.mapM_cons, hf, mapM_take f l bs n hl]

theorem mapM_drop {α β : Type} (f : α → Option β) : ∀ (l : List α) (out : List β) (n : Nat),
    l.mapM f = some out → (l.drop n).mapM f = some (out.drop n)
  | [], out, n, h => by simp at h; subst h; simp
  | a :: l, out, 0, h => by simpa using h
  | a :: l, out, n + 1, h => by
    rw [List.mapM_cons] at h
    cases hf : f a with
    | none => simp [hf] at h
    | some b =>
      cases hl : l.mapM f with
      | none => simp [hf, hl] at h
      | some bs =>
        simp [hf, hl] at h
        subst h
        simpa using mapM_drop f l bs n hl

/-! ### one SELECT block -/

/-- the rows `[offset, offset + count)` -/
def windowOf {α : Type} (off lim : Option Int) (l : List α) : List α :=
  let l := match off with
    | none => l
    | some o => l.drop (toNat' o)
  match lim with
  | none => l
  | some n => l.take (toNat' n)

/-- `runQuery` up to (and without) OFFSET / LIMIT and the projection -/
def preWindow (c : Clauses) (width : Nat) (rows : List Row) : Option (List Unit') := do
  let rows ← match c.whr with
    | none => some rows
    | some p => filterRows (fun r => p [r] r) rows
  let us ← units c width rows
  let us ← match c.hav with
    | none => some us
    | some p => filterRows (fun (u : Unit') => p u.1 u.2) us
  if c.ord.isEmpty then some us else do
    let keyed ← us.mapM (fun (u : Unit') => do
      let ks ← c.ord.mapM (fun (e : Ev × SortDir) => e.1 u.1 u.2)
      pure (ks, u))
    pure ((sortKeyed (c.ord.map (·.2)) keyed).map (·.2))

theorem runQuery_eq (c : Clauses) (w : Nat) (rows : List Row) :
    runQuery c w rows =
      (preWindow c w rows).bind (fun us => (windowOf c.off c.lim us).mapM (fun (u : Unit') => c.sel.mapM (fun e => e u.1 u.2))) := by
  obtain ⟨agg, sel, whr, grp, hav, ord, off, lim⟩ := c
  unfold runQuery preWindow windowOf
  cases whr <;> cases hav <;> cases off <;> cases lim <;> by_cases ho : ord.isEmpty = true <;>
    simp [bind, Option.bind_assoc, ho, pure]

theorem preWindow_window (c : Clauses) (off lim : Option Int) (w : Nat) (rows : List Row) :
    preWindow { c with off := off, lim := lim } w rows = preWindow c w rows := rfl

/-- OFFSET / LIMIT cut the window out of the result of the same block without them -/
theorem runQuery_window (c : Clauses) (w : Nat) (rows out : List Row) (off lim : Option Int)
    (h : runQuery { c with off := none, lim := none } w rows = some out) :
    runQuery { c with off := off, lim := lim } w rows = some (windowOf off lim out) := by
  rw [runQuery_eq] at h ⊢
  rw [preWindow_window] at h ⊢
  cases hp : preWindow c w rows with
  | none => simp [hp] at h
  | some us =>
    simp only [hp, Option.bind_some, windowOf] at h ⊢
    cases off with
    | none =>
      cases lim with
      | none => exact h
      | some n => exact mapM_take _ us out _ h
    | some o =>
      have hd := mapM_drop _ us out (toNat' o) h
      cases lim with
      | none => exact hd
      | some n => exact mapM_take _ _ _ _ hd

/-! ### the emitted SQL -/

/-- the SELECT with its LIMIT / OFFSET replaced -/
def withWindow (lim off : Option Int) : SqlSel → SqlSel
  | .select items frm whr grp hav ord _ _ => .select items frm whr grp hav ord lim off
  | q => q

/-- `generate_query` treats `rows` independently of everything else -/
theorem compile_rows (srcs : Sources) (src : Source) (sel : Features) (pre : FeatureOpt) (grp : Features)
    (post : FeatureOpt) (ord : Orderings) (rows : Option Rows) :
    compile srcs (.query src sel pre grp post ord rows) =
      (compile srcs (.query src sel pre grp post ord none)).map (withWindow (rowsOpts rows).1 (rowsOpts rows).2) := by
  simp only [compile, bind, Option.bind]
  cases compile srcs src with
  | none => rfl
  | some frm =>
    simp only []
    by_cases hs : sel.isEmpty = true
    · simp only [hs, if_true]
      cases compileElems srcs src with
      | none => rfl
      | some items =>
        cases compileFO srcs pre <;> cases compileFs srcs grp <;> cases compileFO srcs post <;>
          cases compileOrd srcs ord <;> by_cases hi : items.isEmpty = true <;>
          simp [hi, pure, withWindow, rowsOpts]
    · simp only [hs]
      cases compileFs srcs sel with
      | none => rfl
      | some items =>
        cases compileFO srcs pre <;> cases compileFs srcs grp <;> cases compileFO srcs post <;>
          cases compileOrd srcs ord <;> by_cases hi : items.isEmpty = true <;>
          simp [hi, pure, withWindow, rowsOpts]

/-- what `visit_query` emits is a SELECT -/
theorem compile_query_select (srcs : Sources) (src : Source) (sel : Features) (pre : FeatureOpt) (grp : Features)
    (post : FeatureOpt) (ord : Orderings) (rows : Option Rows) (q : SqlSel)
    (h : compile srcs (.query src sel pre grp post ord rows) = some q) :
    ∃ items frm whr g hav o, q = .select items frm whr g hav o (rowsOpts rows).1 (rowsOpts rows).2 := by
  simp only [compile, bind, Option.bind] at h
  cases hc : compile srcs src with
  | none => simp [hc] at h
  | some frm =>
    simp only [hc] at h
    by_cases hs : sel.isEmpty = true
    · simp only [hs, if_true] at h
      cases hi : compileElems srcs src with
      | none => simp [hi] at h
      | some items =>
        simp only [hi] at h
        cases h4 : compileFO srcs pre <;> cases h5 : compileFs srcs grp <;> cases h6 : compileFO srcs post <;>
          cases h7 : compileOrd srcs ord <;> by_cases hie : items.isEmpty = true <;>
          simp [h4, h5, h6, h7, hie, pure] at h
        exact ⟨_, _, _, _, _, _, h.symm⟩
    · simp only [hs] at h
      cases hi : compileFs srcs sel with
      | none => simp [hi] at h
      | some items =>
        simp only [hi] at h
        cases h4 : compileFO srcs pre <;> cases h5 : compileFs srcs grp <;> cases h6 : compileFO srcs post <;>
          cases h7 : compileOrd srcs ord <;> by_cases hie : items.isEmpty = true <;>
          simp [h4, h5, h6, h7, hie, pure] at h
        exact ⟨_, _, _, _, _, _, h.symm⟩

theorem evalSql_window (items : List SqlExpr) (frm : SqlSel) (whr : Option SqlExpr) (grp : List SqlExpr)
    (hav : Option SqlExpr) (ord : List (SqlExpr × SortDir)) (lim off : Option Int) (db : Db) (R : ORel)
    (h : evalSql (.select items frm whr grp hav ord none none) db = some R) :
    evalSql (.select items frm whr grp hav ord lim off) db = some ⟨R.names, windowOf off lim R.rows⟩ := by
  simp only [evalSql, evalOut] at h ⊢
  cases hF : evalFrom frm db with
  | none => simp [hF] at h
  | some F =>
    simp only [hF] at h ⊢
    cases hr : runQuery (sqlClauses F.cols items whr grp hav ord none none) F.cols.length F.rows with
    | none => simp [hr] at h
    | some out =>
      simp only [hr, Option.map_some, Option.some.injEq] at h
      have := runQuery_window (sqlClauses F.cols items whr grp hav ord none none) F.cols.length F.rows out off lim hr
      have hc : sqlClauses F.cols items whr grp hav ord lim off =
          { sqlClauses F.cols items whr grp hav ord none none with off := off, lim := lim } := rfl
      rw [hc, this, ← h]
      rfl

/-- `Rows(count, offset)` as the window it denotes: OFFSET is omitted when zero — skipping zero rows -/
theorem windowOf_rowsOpts (c o : Int) (l : List Row) :
    windowOf (rowsOpts (some (c, o))).2 (rowsOpts (some (c, o))).1 l = (l.drop (toNat' o)).take (toNat' c) := by
  by_cases h : o = 0
  · subst h; simp [rowsOpts, windowOf, toNat']
  · simp [rowsOpts, windowOf, h]

/-- the documented meaning of `limit(count, offset)`: skip `offset` rows, keep `count` -/
theorem denote_window (srcs : Sources) (src : Source) (sel : Features) (pre : FeatureOpt) (grp : Features)
    (post : FeatureOpt) (ord : Orderings) (c o : Int) (db : Db) (R : ORel)
    (h : denote srcs (.query src sel pre grp post ord none) db = some R) :
    denote srcs (.query src sel pre grp post ord (some (c, o))) db =
      some ⟨R.names, (R.rows.drop (toNat' o)).take (toNat' c)⟩ := by
  simp only [denote, denoteOut] at h ⊢
  cases hF : denoteFrom srcs src db with
  | none => simp [hF] at h
  | some F =>
    simp only [hF] at h ⊢
    cases hs : (if sel.isEmpty = true then (originElems src).map elemFeatures else some sel) with
    | none => simp [hs] at h
    | some sel' =>
      simp only [hs] at h ⊢
      by_cases he : sel'.isEmpty = true
      · simp [he] at h
      · have he' : sel'.isEmpty = false := by simpa using he
        simp only [he', Bool.false_eq_true, if_false] at h ⊢
        cases hr : runQuery (dslClauses F.labels sel' pre grp post ord none) F.labels.length F.rows with
        | none => simp [hr] at h
        | some out =>
          simp only [hr, Option.map_some, Option.some.injEq] at h
          have := runQuery_window (dslClauses F.labels sel' pre grp post ord none) F.labels.length F.rows out
            (some o) (some c) hr
          have hc : dslClauses F.labels sel' pre grp post ord (some (c, o)) =
              { dslClauses F.labels sel' pre grp post ord none with off := some o, lim := some c } := rfl
          rw [hc, this, ← h]
          rfl

end ForML.C06
