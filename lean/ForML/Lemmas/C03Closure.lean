/-
C03 — helper lemmas: the breadth-first closure used by `Segment.copy` (`Graph.between`) computes reachability.

`closure step fuel frontier seen` is sound (everything it returns is reachable from what was seen) and, when every
node is below a bound `N` and the fuel exceeds `N`, complete (the result is closed under `step`): each round adds at
least one new node, and a duplicate-free list of numbers below `N` has at most `N` elements.
-/
import ForML.Lemmas.C03Reach

namespace ForML.Compose

/-! ### lists without duplicates -/

theorem nodup_eraseDups_aux : ∀ (n : Nat) (l : List Nat), l.length ≤ n → l.eraseDups.Nodup := by
  intro n
  induction n with
  | zero =>
    intro l hl
    have : l = [] := List.eq_nil_of_length_eq_zero (by omega)
    subst this
    simp
  | succ n ih =>
    intro l hl
    cases l with
    | nil => simp
    | cons a as =>
      rw [List.eraseDups_cons, List.nodup_cons]
      refine ⟨?_, ih _ ?_⟩
      · intro hm
        rw [List.mem_eraseDups, List.mem_filter] at hm
        simp at hm
      · have := List.length_filter_le (fun b => !b == a) as
        simp only [List.length_cons] at hl
        omega

theorem nodup_eraseDups (l : List Nat) : l.eraseDups.Nodup := nodup_eraseDups_aux l.length l (Nat.le_refl _)

theorem length_le_of_nodup_lt {l : List Nat} {N : Nat} (hnd : l.Nodup) (hlt : ∀ u ∈ l, u < N) : l.length ≤ N := by
  have := hnd.length_le_of_subset (l₂ := List.range N) (fun u hu => List.mem_range.mpr (hlt u hu))
  simpa using this

/-! ### the closure -/

/-- reflexive-transitive closure of `u ∈ step v` -/
inductive Star (step : Nat → List Nat) (a : Nat) : Nat → Prop
  | refl : Star step a a
  | tail {v u : Nat} : Star step a v → u ∈ step v → Star step a u

theorem closure_invariant (step : Nat → List Nat) (P : Nat → Prop) (hP : ∀ v u, P v → u ∈ step v → P u) :
    ∀ (fuel : Nat) (frontier seen : List Nat), (∀ s ∈ seen, P s) → (∀ v ∈ frontier, v ∈ seen) →
      ∀ u ∈ Graph.closure step fuel frontier seen, P u := by
  intro fuel
  induction fuel with
  | zero => intro frontier seen hs _ u hu; exact hs u hu
  | succ fuel ih =>
    intro frontier seen hs hf u hu
    unfold Graph.closure at hu
    simp only at hu
    split at hu
    · exact hs u hu
    · refine ih _ _ ?_ ?_ u hu
      · intro s hs'
        rcases List.mem_append.mp hs' with h | h
        · exact hs s h
        · have h1 := (List.mem_filter.mp h).1
          rw [List.mem_eraseDups, List.mem_flatMap] at h1
          obtain ⟨v, hv, hsv⟩ := h1
          exact hP v s (hs v (hf v hv)) hsv
      · intro v hv
        exact List.mem_append.mpr (Or.inr hv)

theorem closure_closed (step : Nat → List Nat) (N : Nat) (hN : ∀ v u, u ∈ step v → u < N) :
    ∀ (fuel : Nat) (frontier seen : List Nat), (∀ u ∈ seen, u < N) → seen.Nodup → (∀ v ∈ frontier, v ∈ seen) →
      (∀ v ∈ seen, v ∉ frontier → ∀ u ∈ step v, u ∈ seen) → N < fuel + seen.length →
      (∀ s ∈ seen, s ∈ Graph.closure step fuel frontier seen) ∧
        ∀ v ∈ Graph.closure step fuel frontier seen, ∀ u ∈ step v, u ∈ Graph.closure step fuel frontier seen := by
  intro fuel
  induction fuel with
  | zero =>
    intro frontier seen hs hnd _ _ hfuel
    have := length_le_of_nodup_lt hnd hs
    omega
  | succ fuel ih =>
    intro frontier seen hs hnd hf hc hfuel
    -- what one round adds
    have hstep : ∀ v ∈ seen, ∀ u ∈ step v, u ∈ seen ∨
        u ∈ ((frontier.flatMap step).eraseDups.filter (fun u => !seen.contains u)) := by
      intro v hv u hu
      by_cases hvf : v ∈ frontier
      · by_cases hus : u ∈ seen
        · exact Or.inl hus
        · right
          rw [List.mem_filter, List.mem_eraseDups, List.mem_flatMap]
          refine ⟨⟨v, hvf, hu⟩, ?_⟩
          simpa using hus
      · exact Or.inl (hc v hv hvf u hu)
    unfold Graph.closure
    simp only
    split
    · rename_i hempty
      refine ⟨fun s hs' => hs', ?_⟩
      intro v hv u hu
      rcases hstep v hv u hu with h | h
      · exact h
      · have : ((frontier.flatMap step).eraseDups.filter (fun u => !seen.contains u)) = [] := by
          simpa using hempty
        rw [this] at h; cases h
    · rename_i hne
      have hnew_lt : ∀ u ∈ ((frontier.flatMap step).eraseDups.filter (fun u => !seen.contains u)), u < N := by
        intro u hu
        have h1 := (List.mem_filter.mp hu).1
        rw [List.mem_eraseDups, List.mem_flatMap] at h1
        obtain ⟨v, _, huv⟩ := h1
        exact hN v u huv
      have hnew_nd : ((frontier.flatMap step).eraseDups.filter (fun u => !seen.contains u)).Nodup :=
        (nodup_eraseDups _).sublist List.filter_sublist
      have hlen : 0 < ((frontier.flatMap step).eraseDups.filter (fun u => !seen.contains u)).length := by
        cases hnew : ((frontier.flatMap step).eraseDups.filter (fun u => !seen.contains u)) with
        | nil => rw [hnew] at hne; simp at hne
        | cons _ _ => simp
      have := ih ((frontier.flatMap step).eraseDups.filter (fun u => !seen.contains u))
        (seen ++ ((frontier.flatMap step).eraseDups.filter (fun u => !seen.contains u)))
        (by
          intro u hu
          rcases List.mem_append.mp hu with h | h
          · exact hs u h
          · exact hnew_lt u h)
        (by
          rw [List.nodup_append]
          refine ⟨hnd, hnew_nd, ?_⟩
          intro a ha b hb hab
          subst hab
          have := (List.mem_filter.mp hb).2
          simp at this
          exact this ha)
        (fun v hv => List.mem_append.mpr (Or.inr hv))
        (by
          intro v hv hvn u hu
          rcases List.mem_append.mp hv with h | h
          · rcases hstep v h u hu with h' | h'
            · exact List.mem_append.mpr (Or.inl h')
            · exact List.mem_append.mpr (Or.inr h')
          · exact absurd h hvn)
        (by rw [List.length_append]; omega)
      exact ⟨fun s hs' => this.1 s (List.mem_append.mpr (Or.inl hs')), this.2⟩

theorem closure_star {step : Nat → List Nat} {R : List Nat} (hcl : ∀ v ∈ R, ∀ u ∈ step v, u ∈ R) {a u : Nat} (ha : a ∈ R)
    (h : Star step a u) : u ∈ R := by
  induction h with
  | refl => exact ha
  | tail _ hu ih => exact hcl _ ih _ hu

/-! ### successors / predecessors and `Reach` -/

theorem mem_successors {g : Graph} (hw : Wired g) {v u : Nat} :
    u ∈ g.successors v ↔ ∃ k i, g.inputOf u k = some ⟨v, i⟩ := by
  unfold Graph.successors
  simp only [List.mem_map, List.mem_filter]
  constructor
  · rintro ⟨e, ⟨he, hv⟩, hu⟩
    have := hw.keys e he
    refine ⟨e.port, e.pub.idx, ?_⟩
    have hv' : e.pub.node = v := by simpa using hv
    rw [← hu, this]
    congr 1
    cases hp : e.pub
    rw [hp] at hv'
    simp at hv'
    simp [hv']
  · rintro ⟨k, i, hq⟩
    exact ⟨⟨u, k, ⟨v, i⟩⟩, ⟨inputOf_mem hq, by simp⟩, rfl⟩

theorem mem_predecessors {g : Graph} (hw : Wired g) {v u : Nat} :
    u ∈ g.predecessors v ↔ ∃ k i, g.inputOf v k = some ⟨u, i⟩ := by
  unfold Graph.predecessors
  simp only [List.mem_map, List.mem_filter]
  constructor
  · rintro ⟨e, ⟨he, hv⟩, hu⟩
    have := hw.keys e he
    refine ⟨e.port, e.pub.idx, ?_⟩
    have hv' : e.sub = v := by simpa using hv
    rw [← hv', this]
    congr 1
    cases hp : e.pub
    rw [hp] at hu
    simp at hu
    simp [hu]
  · rintro ⟨k, i, hq⟩
    exact ⟨⟨v, k, ⟨u, i⟩⟩, ⟨inputOf_mem hq, by simp⟩, rfl⟩

theorem star_succ_iff {g : Graph} (hw : Wired g) {a u : Nat} : Star g.successors a u ↔ Reach g a u := by
  constructor
  · intro h
    induction h with
    | refl => exact Reach.refl
    | tail _ hu ih =>
      obtain ⟨k, i, hq⟩ := (mem_successors hw).mp hu
      exact Reach.step ih hq
  · intro h
    induction h with
    | refl => exact Star.refl
    | step _ he ih => exact Star.tail ih ((mem_successors hw).mpr ⟨_, _, he⟩)

/-- `Reach` read backwards -/
theorem reach_head_step {g : Graph} {a s b k i : Nat} (he : g.inputOf s k = some ⟨a, i⟩) (h : Reach g s b) : Reach g a b := by
  induction h with
  | refl => exact Reach.step Reach.refl he
  | step _ he' ih => exact Reach.step ih he'

theorem star_pred_iff {g : Graph} (hw : Wired g) {t u : Nat} : Star g.predecessors t u ↔ Reach g u t := by
  constructor
  · intro h
    induction h with
    | refl => exact Reach.refl
    | tail _ hu ih =>
      obtain ⟨k, i, hq⟩ := (mem_predecessors hw).mp hu
      exact reach_head_step hq ih
  · intro h
    induction h with
    | refl => exact Star.refl
    | step hp he ih =>
      -- `ih : Star predecessors p u`? no: induction on `Reach g u t` moves the end point
      rename_i p s k i
      -- Reach g u p, edge p -> s: Star pred s u follows from Star pred p u composed after one step s -> p
      have h1 : Star g.predecessors s p := Star.tail Star.refl ((mem_predecessors hw).mpr ⟨k, i, he⟩)
      -- compose: Star pred s p and Star pred p u
      clear hp
      induction ih with
      | refl => exact h1
      | tail _ hu ih' => exact Star.tail ih' hu

/-! ### `Graph.between` -/

theorem mem_down {g : Graph} (hb : Bounded g) (hw : Wired g) {head u : Nat} (hh : head < g.next) :
    u ∈ Graph.closure g.successors (g.next + 1) [head] [head] ↔ Reach g head u := by
  constructor
  · intro hu
    refine closure_invariant g.successors (fun u => Reach g head u) ?_ _ _ _ ?_ (fun v hv => hv) u hu
    · intro v u' hv hu'
      obtain ⟨k, i, hq⟩ := (mem_successors hw).mp hu'
      exact Reach.step hv hq
    · intro s hs
      simp only [List.mem_singleton] at hs
      subst hs; exact Reach.refl
  · intro hre
    have hcl := closure_closed g.successors g.next (by
        intro v u' hu'
        unfold Graph.successors at hu'
        simp only [List.mem_map, List.mem_filter] at hu'
        obtain ⟨e, ⟨he, _⟩, hu''⟩ := hu'
        rw [← hu'']; exact hb.edgesLt e he) (g.next + 1) [head] [head]
      (by intro x hx; simp only [List.mem_singleton] at hx; subst hx; exact hh)
      (by simp) (fun v hv => hv) (by intro v hv hv'; exact absurd hv hv') (by simp; omega)
    exact closure_star hcl.2 (hcl.1 head (by simp)) ((star_succ_iff hw).mpr hre)

theorem mem_up {g : Graph} (_hb : Bounded g) (hw : Wired g) {tail u : Nat} (hh : tail < g.next) :
    u ∈ Graph.closure g.predecessors (g.next + 1) [tail] [tail] ↔ Reach g u tail := by
  constructor
  · intro hu
    refine closure_invariant g.predecessors (fun u => Reach g u tail) ?_ _ _ _ ?_ (fun v hv => hv) u hu
    · intro v u' hv hu'
      obtain ⟨k, i, hq⟩ := (mem_predecessors hw).mp hu'
      exact reach_head_step hq hv
    · intro s hs
      simp only [List.mem_singleton] at hs
      subst hs; exact Reach.refl
  · intro hre
    have hcl := closure_closed g.predecessors g.next (by
        intro v u' hu'
        unfold Graph.predecessors at hu'
        simp only [List.mem_map, List.mem_filter] at hu'
        obtain ⟨e, ⟨he, _⟩, hu''⟩ := hu'
        rw [← hu'']; exact hw.pubsLt e he) (g.next + 1) [tail] [tail]
      (by intro x hx; simp only [List.mem_singleton] at hx; subst hx; exact hh)
      (by simp) (fun v hv => hv) (by intro v hv hv'; exact absurd hv hv') (by simp; omega)
    exact closure_star hcl.2 (hcl.1 tail (by simp)) ((star_pred_iff hw).mpr hre)

/-- what `Segment.copy` copies: the recorded nodes on a path from `head` to `tail` -/
theorem mem_between {g : Graph} (hb : Bounded g) (hw : Wired g) {head tail u : Nat} (hh : head < g.next)
    (ht : tail < g.next) :
    u ∈ g.between head tail ↔ (∃ n ∈ g.nodes, n.uid = u) ∧ Reach g head u ∧ Reach g u tail := by
  unfold Graph.between
  simp only [List.mem_filter, List.mem_map, Bool.and_eq_true, List.contains_iff_mem]
  rw [mem_down hb hw hh, mem_up hb hw ht]

end ForML.Compose
