/-
C03 — helper lemmas: bookkeeping of the *apply side* of a graph under construction, as the stacking ensemble needs it
to certify its own apply path as a copyable region again.

`a` is the apply head of the ensemble.  While the loops of the ensemble run, older *collector* nodes (`X`: the stacker /
reducer forks and the output collectors) keep receiving subscriptions; everything else is finished once its round is
over.  `reach_stable`: a finished node that was not reachable from `a` does not become reachable later.  `AReg`: the
loop invariant — every tracked node (uid `≥ c`) reachable from `a` is evaluable and fed from the apply side only, and
tracked nodes subscribe to tracked nodes or to the given older publishers (uid `< b`).  `iter_reach`: one round
(expand a scope / base model, copy its apply segment, bind the three heads and the head of the copy): the new nodes
reachable from `a` are exactly the apply region of the expansion (this is where its `reg`/`sep`/`closed` certificate is
consumed).
-/
import ForML.Lemmas.C03Region

namespace ForML.Compose

/-- an input of the graph with one more subscription is an old input or the new subscription -/
theorem inputOf_pushEdge_some {g : Graph} {e : Edge} {u k : Nat} {q : PubRef} (h : (g.pushEdge e).inputOf u k = some q) :
    g.inputOf u k = some q ∨ (e.sub = u ∧ e.port = k ∧ e.pub = q) := by
  rw [inputOf_pushEdge] at h
  cases h0 : g.inputOf u k with
  | some q' => rw [h0] at h; simp at h; exact Or.inl (by rw [h])
  | none =>
    rw [h0] at h
    by_cases hc : e.sub = u ∧ e.port = k
    · simp [hc] at h; exact Or.inr ⟨hc.1, hc.2, h⟩
    · simp [hc] at h

theorem inputOf_pushEdge_mono {g : Graph} {e : Edge} {u k : Nat} {q : PubRef} (h : g.inputOf u k = some q) :
    (g.pushEdge e).inputOf u k = some q := by
  rw [inputOf_pushEdge, h]; rfl

/-! ### reachability while older collectors are still being subscribed -/

/-- a path of the extended graph to an old node is an old path, or passes through a node of `X` -/
theorem reach_split {g g' : Graph} {X : Nat → Prop} (hw : Wired g)
    (hin : ∀ u k, u < g.next → ¬ X u → g'.inputOf u k = g.inputOf u k) {a n : Nat} (h : Reach g' a n) :
    n < g.next → Reach g a n ∨ ∃ x, X x ∧ x < g.next ∧ Reach g x n := by
  induction h with
  | refl => intro _; exact Or.inl Reach.refl
  | step hp he ih =>
    rename_i p s k i
    intro hs
    by_cases hx : X s
    · exact Or.inr ⟨s, hx, hs, Reach.refl⟩
    · rw [hin s k hs hx] at he
      have hp' : p < g.next := hw.pub_lt he
      rcases ih hp' with h | ⟨x, hxx, hxl, h⟩
      · exact Or.inl (Reach.step h he)
      · exact Or.inr ⟨x, hxx, hxl, Reach.step h he⟩

/-- nothing recorded in `gb` is reachable from a node created after `gb` -/
theorem no_back {gb g : Graph} (hf : Frame gb g) (hwb : Wired gb) {x p : Nat} (hx : gb.next ≤ x) (hp : p < gb.next) :
    ¬ Reach g x p := by
  intro h
  have h1 := Reach.old hf hwb hp h
  have := Reach.new (Frame.refl gb) hwb hx h1
  omega

/-- a tracked node (uid `≥ c`) is not reachable from an untracked node created after `gb` -/
theorem new_unreach {gb g : Graph} (hf : Frame gb g) (hwb : Wired gb) {c : Nat}
    (es : ∀ s k q, c ≤ s → g.inputOf s k = some q → c ≤ q.node ∨ q.node < gb.next)
    {x n : Nat} (hx : gb.next ≤ x) (hxc : x < c) (h : Reach g x n) : n < c := by
  induction h with
  | refl => exact hxc
  | step hp he ih =>
    rename_i p s k i
    by_cases hs : s < c
    · exact hs
    · exfalso
      rcases es s k _ (by omega) he with h | h
      · simp at h; omega
      · exact no_back hf hwb hx (by simpa using h) hp

/-- a finished tracked node reachable in the extended graph was reachable before -/
theorem reach_stable {gb g g' : Graph} {X : Nat → Prop} {c : Nat} (hf : Frame gb g) (hwb : Wired gb) (hw : Wired g)
    (hX : ∀ x, X x → gb.next ≤ x ∧ x < c)
    (hin : ∀ u k, u < g.next → ¬ X u → g'.inputOf u k = g.inputOf u k)
    (es : ∀ s k q, c ≤ s → g.inputOf s k = some q → c ≤ q.node ∨ q.node < gb.next)
    {a n : Nat} (hn : n < g.next) (hc : c ≤ n) (h : Reach g' a n) : Reach g a n := by
  rcases reach_split hw hin h hn with h | ⟨x, hx, _, h⟩
  · exact h
  · have := new_unreach hf hwb es (hX x hx).1 (hX x hx).2 h
    omega

/-! ### the loop invariant -/

structure AReg (a lo b c : Nat) (g : Graph) (W : World) : Prop where
  /-- tracked nodes subscribe to tracked nodes or to the given older publishers -/
  es : ∀ s k q, c ≤ s → g.inputOf s k = some q → c ≤ q.node ∨ (lo ≤ q.node ∧ q.node < b)
  /-- a tracked node reachable from `a` is evaluable and fed from the apply side only -/
  reg : ∀ n, c ≤ n → Reach g a n → W.live n ∧ ∀ k q, g.inputOf n k = some q → Reach g a q.node

theorem AReg.es' {a lo b c : Nat} {g : Graph} {W : World} (h : AReg a lo b c g W) :
    ∀ s k q, c ≤ s → g.inputOf s k = some q → c ≤ q.node ∨ q.node < b := by
  intro s k q hs hq
  rcases h.es s k q hs hq with h | h
  · exact Or.inl h
  · exact Or.inr h.2

/-- nothing is tracked yet -/
theorem AReg.init {a lo b : Nat} {g : Graph} {W : World} (hb : Bounded g) (ha : a < g.next) : AReg a lo b g.next g W := by
  refine ⟨?_, ?_⟩
  · intro s k q hs hq
    rw [hb.inputOf_none hs k] at hq; cases hq
  · intro n hn hre
    exfalso
    rcases hre.inv with h | ⟨k, q, hq, _⟩
    · omega
    · rw [hb.inputOf_none hn k] at hq; cases hq

theorem AReg.stable {a lo c : Nat} {gb g g' : Graph} {W : World} {X : Nat → Prop} (h : AReg a lo gb.next c g W)
    (hf : Frame gb g) (hwb : Wired gb) (hw : Wired g) (hX : ∀ x, X x → gb.next ≤ x ∧ x < c)
    (hin : ∀ u k, u < g.next → ¬ X u → g'.inputOf u k = g.inputOf u k) {a' n : Nat} (hn : n < g.next) (hc : c ≤ n)
    (hre : Reach g' a' n) : Reach g a' n :=
  reach_stable hf hwb hw hX hin h.es' hn hc hre

/-- one round: the older tracked nodes are finished, the new ones come with their own certificate -/
theorem AReg.step {a lo c : Nat} {gb g g' : Graph} {W W' : World} {X : Nat → Prop} (h : AReg a lo gb.next c g W)
    (hf : Frame gb g) (hwb : Wired gb) (hw : Wired g)
    (hX : ∀ x, X x → gb.next ≤ x ∧ x < c)
    (hin : ∀ u k, u < g.next → ¬ X u → g'.inputOf u k = g.inputOf u k)
    (hmono : ∀ u k q, g.inputOf u k = some q → g'.inputOf u k = some q)
    (hag : Agree g.next W W')
    (esNew : ∀ s k q, g.next ≤ s → g'.inputOf s k = some q → c ≤ q.node ∨ (lo ≤ q.node ∧ q.node < gb.next))
    (regNew : ∀ n, g.next ≤ n → Reach g' a n → W'.live n ∧ ∀ k q, g'.inputOf n k = some q → Reach g' a q.node) :
    AReg a lo gb.next c g' W' := by
  have notX : ∀ s, c ≤ s → ¬ X s := fun s hs hx => by have := (hX s hx).2; omega
  refine ⟨?_, ?_⟩
  · intro s k q hs hq
    by_cases hlt : s < g.next
    · rw [hin s k hlt (notX s hs)] at hq
      exact h.es s k q hs hq
    · exact esNew s k q (by omega) hq
  · intro n hn hre
    by_cases hlt : n < g.next
    · have hre0 : Reach g a n := h.stable hf hwb hw hX hin hlt hn hre
      obtain ⟨hl, hall⟩ := h.reg n hn hre0
      refine ⟨((hag n hlt).1).mpr hl, ?_⟩
      intro k q hq
      rw [hin n k hlt (notX n hn)] at hq
      exact (hall k q hq).mono hmono
    · exact regNew n (by omega) hre

/-- a subscription of an untracked collector created after `gb` -/
theorem AReg.pushEdge {a lo c : Nat} {gb g : Graph} {W : World} (h : AReg a lo gb.next c g W) (hf : Frame gb g) (hwb : Wired gb)
    (hw : Wired g) (hb : Bounded g) (ha : a < g.next) (hcg : c ≤ g.next) (e : Edge) (hs : gb.next ≤ e.sub ∧ e.sub < c) :
    AReg a lo gb.next c (g.pushEdge e) W := by
  have same : ∀ u k, u ≠ e.sub → (g.pushEdge e).inputOf u k = g.inputOf u k := by
    intro u k hu
    rw [inputOf_pushEdge]
    have : ¬ (e.sub = u ∧ e.port = k) := fun hc => hu hc.1.symm
    simp [this]
  refine h.step (X := fun u => u = e.sub) hf hwb hw (fun x hx => by rw [hx]; exact hs) (fun u k _ hx => same u k hx)
    (fun u k q hq => inputOf_pushEdge_mono hq) (Agree.refl _ _) ?_ ?_
  · intro s k q hs' hq
    rw [same s k (by omega), hb.inputOf_none hs' k] at hq; cases hq
  · intro n hn hre
    exfalso
    rcases hre.inv with h' | ⟨k, q, hq, _⟩
    · omega
    · rw [same n k (by omega), hb.inputOf_none hn k] at hq; cases hq

/-! ### one round of the ensemble -/

/-- what one round adds to the apply side: the new nodes reachable from `a` are evaluable and fed from the apply side
only; the apply tail of the expansion is on the apply side; its train and label tails and the tail of the copy are not -/
structure IterReg (a : Nat) (g g6 : Graph) (W' : World) (t : Trunk) (c : Segment) : Prop where
  reg : ∀ n, g.next ≤ n → Reach g6 a n → W'.live n ∧ ∀ k q, g6.inputOf n k = some q → Reach g6 a q.node
  ta : Reach g6 a t.apply.tail
  tt : ¬ Reach g6 a t.train.tail
  tl : ¬ Reach g6 a t.label.tail
  tc : ¬ Reach g6 a c.tail

/-- the structural side of `IterOk`: where the subscriptions of a round go, and the apply-side certificate for every
admissible apply head `a` -/
structure IterExt (g g6 : Graph) (W' : World) (t : Trunk) (c : Segment) (pa pt pl px : PubRef) : Prop where
  closed : ∀ s k q, g.next ≤ s → g6.inputOf s k = some q → g.next ≤ q.node ∨ q = pa ∨ q = pt ∨ q = pl ∨ q = px
  areg : ∀ a, a < g.next → Reach g a pa.node → ¬ Reach g a pt.node → ¬ Reach g a pl.node → ¬ Reach g a px.node →
    IterReg a g g6 W' t c

theorem iter_reach {g g1 g6 : Graph} {W' : World} {t : Trunk} {c : Segment} {pa pt pl px : PubRef}
    (hw : Wired g) (hf6 : Frame g g6) (hb : Bounded g)
    (hhead : g.next ≤ t.apply.head ∧ t.apply.head < g1.next)
    (hcl1 : ∀ s k q, g.next ≤ s → g1.inputOf s k = some q → g.next ≤ q.node)
    (hin6 : ∀ s k q, g6.inputOf s k = some q →
      (s < g1.next ∧ g1.inputOf s k = some q) ∨ (g1.next ≤ s ∧ g1.next ≤ q.node) ∨ (s = t.apply.head ∧ q = pa) ∨
      (s = t.train.head ∧ q = pt) ∨ (s = t.label.head ∧ q = pl) ∨ (g1.next ≤ s ∧ q = px))
    (hmono : ∀ s k q, g1.inputOf s k = some q → g6.inputOf s k = some q)
    (hia : g6.inputOf t.apply.head 0 = some pa)
    (hfree : ∀ k, g1.inputOf t.apply.head k = none)
    (hnt : ¬ Reach g1 t.apply.head t.train.head) (hnl : ¬ Reach g1 t.apply.head t.label.head)
    (hreg1 : ∀ n, Reach g1 t.apply.head n → n ≠ t.apply.head → ∀ k q, g1.inputOf n k = some q → Reach g1 t.apply.head q.node)
    (hlive : ∀ n, Reach g1 t.apply.head n → W'.live n)
    (htail : Reach g1 t.apply.head t.apply.tail)
    (hsep : ¬ Reach g1 t.apply.head t.train.tail ∧ ¬ Reach g1 t.apply.head t.label.tail)
    (htge : g.next ≤ t.train.tail ∧ g.next ≤ t.label.tail ∧ g1.next ≤ c.tail)
    (hpt : pt.node < g.next) (hpl : pl.node < g.next) (hpx : px.node < g.next) :
    IterExt g g6 W' t c pa pt pl px := by
  refine ⟨?_, ?_⟩
  · intro s k q hs hq
    rcases hin6 s k q hq with ⟨_, h⟩ | ⟨_, h⟩ | ⟨_, h⟩ | ⟨_, h⟩ | ⟨_, h⟩ | ⟨_, h⟩
    · exact Or.inl (hcl1 s k q hs h)
    · exact Or.inl (by omega)
    · exact Or.inr (Or.inl h)
    · exact Or.inr (Or.inr (Or.inl h))
    · exact Or.inr (Or.inr (Or.inr (Or.inl h)))
    · exact Or.inr (Or.inr (Or.inr (Or.inr h)))
  intro a ha ra rt rl rx
  have mono0 : ∀ s k q, g.inputOf s k = some q → g6.inputOf s k = some q := hf6.input_mono hb
  -- the new nodes reachable from `a` lie in the apply region of the expansion
  have fwd : ∀ n, Reach g6 a n → (n < g.next ∧ Reach g a n) ∨ (g.next ≤ n ∧ n < g1.next ∧ Reach g1 t.apply.head n) := by
    intro n hre
    induction hre with
    | refl => exact Or.inl ⟨ha, Reach.refl⟩
    | step hp he ih =>
      rename_i p s k i
      by_cases hs : s < g.next
      · rw [hf6.input s k hs] at he
        have hp' : p < g.next := hw.pub_lt he
        rcases ih with ⟨_, ih⟩ | ⟨ih, _⟩
        · exact Or.inl ⟨hs, Reach.step ih he⟩
        · omega
      · refine Or.inr ⟨by omega, ?_⟩
        rcases hin6 s k _ he with ⟨h1, h2⟩ | ⟨h1, h2⟩ | ⟨h1, h2⟩ | ⟨h1, h2⟩ | ⟨h1, h2⟩ | ⟨h1, h2⟩
        · have hpg : g.next ≤ p := hcl1 s k _ (by omega) h2
          rcases ih with ⟨ih, _⟩ | ⟨_, _, ih⟩
          · omega
          · exact ⟨h1, Reach.step ih h2⟩
        · exfalso
          simp at h2
          rcases ih with ⟨ih, _⟩ | ⟨_, ih, _⟩ <;> omega
        · rw [h1]; exact ⟨hhead.2, Reach.refl⟩
        · exfalso
          have hpe : p = pt.node := by rw [← h2]
          rcases ih with ⟨_, ih⟩ | ⟨ih, _⟩
          · exact rt (hpe ▸ ih)
          · omega
        · exfalso
          have hpe : p = pl.node := by rw [← h2]
          rcases ih with ⟨_, ih⟩ | ⟨ih, _⟩
          · exact rl (hpe ▸ ih)
          · omega
        · exfalso
          have hpe : p = px.node := by rw [← h2]
          rcases ih with ⟨_, ih⟩ | ⟨ih, _⟩
          · exact rx (hpe ▸ ih)
          · omega
  have rhead : Reach g6 a t.apply.head := Reach.one (ra.mono mono0) hia
  have bwd : ∀ n, Reach g1 t.apply.head n → Reach g6 a n := fun n h => rhead.trans (h.mono hmono)
  have new : ∀ n, g.next ≤ n → Reach g6 a n → n < g1.next ∧ Reach g1 t.apply.head n := by
    intro n hn hre
    rcases fwd n hre with ⟨h, _⟩ | ⟨_, h⟩
    · omega
    · exact h
  refine ⟨?_, bwd _ htail, fun h => hsep.1 (new _ htge.1 h).2, fun h => hsep.2 (new _ htge.2.1 h).2, ?_⟩
  · intro n hn hre
    obtain ⟨hlt, hre1⟩ := new n hn hre
    refine ⟨hlive n hre1, ?_⟩
    intro k q hq
    rcases hin6 n k q hq with ⟨_, h2⟩ | ⟨h1, _⟩ | ⟨_, h2⟩ | ⟨h1, _⟩ | ⟨h1, _⟩ | ⟨h1, _⟩
    · by_cases hh : n = t.apply.head
      · rw [hh, hfree k] at h2; cases h2
      · exact bwd _ (hreg1 n hre1 hh k q h2)
    · omega
    · rw [h2]; exact ra.mono mono0
    · exact absurd (h1 ▸ hre1) hnt
    · exact absurd (h1 ▸ hre1) hnl
    · omega
  · intro h
    have := (new _ (by omega) h).1
    omega

end ForML.Compose
