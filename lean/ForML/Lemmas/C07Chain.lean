/-
C07: the chained `Queryable` interface (`select/where/having/groupby/orderby/limit`, Model/GrammarApi).

  `QState`, `QState.upd`, `QState.Valid`   the arguments a `Query` stores / one call replaces / `Query.__new__` accepts
  `applyOp_ok_iff`      one call on a stored query succeeds iff the replaced arguments are accepted; it stores them
  `checkQuery_ok_iff`   `Query.__new__` = six independent parts (features of the source, selection, where, selection ×
                        grouping, having, ordering)
  `applyOp_comm`        two calls of different kinds other than `groupby` commute on any accepted query
  `runChain_perm`       hence every ordering of such calls gives the same statement or fails alike
  `runChain_eq_ctor`    and what they give is what the constructor gives for the collected arguments
-/
import ForML.Model.GrammarApi
import ForML.Lemmas.C07Api

namespace ForML.Dsl

variable (eqv : Feature → Feature → Bool)

/-- the arguments a `Query` instance stores -/
structure QState where
  s : Source
  sel : List Feature
  pre : Option Feature
  grp : List Feature
  post : Option Feature
  ord : List Ordering
  rows : Option Rows

def QState.toSource (q : QState) : Source :=
  .query q.s (Features.ofList q.sel) (FeatureOpt.ofOption q.pre) (Features.ofList q.grp) (FeatureOpt.ofOption q.post)
    (Orderings.ofList q.ord) q.rows

/-- `Query.__new__` accepts the stored arguments (as it did when the instance was made) -/
def QState.Valid (q : QState) : Prop := checkQuery eqv q.s q.sel q.pre q.grp q.post q.ord = Except.ok ()

instance (q : QState) : Decidable (q.Valid eqv) := inferInstanceAs (Decidable (_ = _))

/-- the arguments after one call -/
def QState.upd (q : QState) : QOp → R QState
  | .select fs => .ok { q with sel := fs }
  | .where_ c => do
    let c' ← andWith c q.pre
    .ok { q with pre := some c' }
  | .having c => do
    let c' ← andWith c q.post
    .ok { q with post := some c' }
  | .groupby fs => .ok { q with grp := fs }
  | .orderby ts => do
    let os ← makeOrderings ts
    .ok { q with ord := os }
  | .limit c o => .ok { q with rows := some (c, o) }

/-- which argument a call replaces -/
def QOp.slot : QOp → Nat
  | .select _ => 0 | .where_ _ => 1 | .having _ => 2 | .groupby _ => 3 | .orderby _ => 4 | .limit _ _ => 5

def QOp.isGroupby : QOp → Bool
  | .groupby _ => true
  | _ => false

theorem FeatureOpt.toOption_ofOption : (c : Option Feature) → (FeatureOpt.ofOption c).toOption = c
  | Option.none => rfl
  | Option.some _ => rfl

theorem exists_unit (p : Unit → Prop) : (∃ a, p a) ↔ p () := ⟨fun ⟨(), h⟩ => h, fun h => ⟨(), h⟩⟩

/-! ### one call -/

theorem queryNew_made_ok_iff (s : Source) (sel : List Feature) (pre : Option Feature) (grp : List Feature)
    (post : Option Feature) (ord : List Ordering) (rows : Option Rows) (c' : Source) :
    queryNew eqv s sel pre grp post (ord.map Ordering.term) rows = Except.ok c' ↔
      checkQuery eqv s sel pre grp post ord = Except.ok () ∧
        c' = .query s (Features.ofList sel) (FeatureOpt.ofOption pre) (Features.ofList grp) (FeatureOpt.ofOption post)
          (Orderings.ofList ord) rows := by
  rw [queryNew_terms, bind_unit_eq_ok]
  simp [eq_comm]

/-- raw ordering terms: made first, then as if the made orderings had been handed over -/
theorem queryNew_ok_iff_make (s : Source) (sel : List Feature) (pre : Option Feature) (grp : List Feature)
    (post : Option Feature) (ts : List OTerm) (rows : Option Rows) (c' : Source) :
    queryNew eqv s sel pre grp post ts rows = Except.ok c' ↔
      ∃ os, makeOrderings ts = Except.ok os ∧ queryNew eqv s sel pre grp post (os.map Ordering.term) rows = Except.ok c' := by
  unfold queryNew
  simp only [bind_eq_ok, exists_unit]
  constructor
  · rintro ⟨h1, os, hos, feats, hf, h2, h3⟩
    exact ⟨os, hos, h1, os, makeOrderings_idem _ _ hos, feats, hf, h2, h3⟩
  · rintro ⟨os, hos, h1, os', hos', feats, hf, h2, h3⟩
    rw [makeOrderings_idem _ _ hos] at hos'
    cases hos'
    exact ⟨h1, os, hos, feats, hf, h2, h3⟩

theorem applyOp_ok_iff (q : QState) (op : QOp) (c' : Source) :
    q.toSource.applyOp eqv op = Except.ok c' ↔ ∃ q', q.upd op = Except.ok q' ∧ q'.Valid eqv ∧ c' = q'.toSource := by
  cases op with
  | select fs =>
    simp only [QState.toSource, Source.applyOp, queryOp, Features.toList_ofList, FeatureOpt.toOption_ofOption,
      Orderings.toList_ofList, queryNew_made_ok_iff, QState.upd, Except.ok.injEq, QState.Valid]
    constructor
    · rintro ⟨h, rfl⟩
      exact ⟨_, rfl, h, rfl⟩
    · rintro ⟨_, rfl, h, rfl⟩
      exact ⟨h, rfl⟩
  | groupby fs =>
    simp only [QState.toSource, Source.applyOp, queryOp, Features.toList_ofList, FeatureOpt.toOption_ofOption,
      Orderings.toList_ofList, queryNew_made_ok_iff, QState.upd, Except.ok.injEq, QState.Valid]
    constructor
    · rintro ⟨h, rfl⟩
      exact ⟨_, rfl, h, rfl⟩
    · rintro ⟨_, rfl, h, rfl⟩
      exact ⟨h, rfl⟩
  | limit c o =>
    simp only [QState.toSource, Source.applyOp, queryOp, Features.toList_ofList, FeatureOpt.toOption_ofOption,
      Orderings.toList_ofList, queryNew_made_ok_iff, QState.upd, Except.ok.injEq, QState.Valid]
    constructor
    · rintro ⟨h, rfl⟩
      exact ⟨_, rfl, h, rfl⟩
    · rintro ⟨_, rfl, h, rfl⟩
      exact ⟨h, rfl⟩
  | where_ c =>
    simp only [QState.toSource, Source.applyOp, queryOp, Features.toList_ofList, FeatureOpt.toOption_ofOption,
      Orderings.toList_ofList, bind_eq_ok, queryNew_made_ok_iff, QState.upd, Except.ok.injEq, QState.Valid]
    constructor
    · rintro ⟨w, hw, h, rfl⟩
      exact ⟨_, ⟨w, hw, rfl⟩, h, rfl⟩
    · rintro ⟨_, ⟨w, hw, rfl⟩, h, rfl⟩
      exact ⟨w, hw, h, rfl⟩
  | having c =>
    simp only [QState.toSource, Source.applyOp, queryOp, Features.toList_ofList, FeatureOpt.toOption_ofOption,
      Orderings.toList_ofList, bind_eq_ok, queryNew_made_ok_iff, QState.upd, Except.ok.injEq, QState.Valid]
    constructor
    · rintro ⟨w, hw, h, rfl⟩
      exact ⟨_, ⟨w, hw, rfl⟩, h, rfl⟩
    · rintro ⟨_, ⟨w, hw, rfl⟩, h, rfl⟩
      exact ⟨w, hw, h, rfl⟩
  | orderby ts =>
    simp only [QState.toSource, Source.applyOp, queryOp, Features.toList_ofList, FeatureOpt.toOption_ofOption]
    rw [queryNew_ok_iff_make]
    simp only [bind_eq_ok, queryNew_made_ok_iff, QState.upd, Except.ok.injEq, QState.Valid]
    constructor
    · rintro ⟨os, hos, h, rfl⟩
      exact ⟨_, ⟨os, hos, rfl⟩, h, rfl⟩
    · rintro ⟨_, ⟨os, hos, rfl⟩, h, rfl⟩
      exact ⟨os, hos, h, rfl⟩

/-! ### `Query.__new__` in parts -/

/-- the parts of `Query.__new__`, given the features of the source -/
structure Parts (feats sel : List Feature) (pre : Option Feature) (grp : List Feature) (post : Option Feature)
    (ord : List Ordering) : Prop where
  selection : subsetBy eqv (dissectAll Feature.isElem sel) (dissectAll Feature.isElem feats) = true
  prefilter : checkFilter eqv (dissectAll Feature.isElem feats) Feature.isCumulative pre = Except.ok ()
  grouping : checkGrouping eqv (dissectAll Feature.isElem feats) feats sel grp = Except.ok ()
  postfilter : checkFilter eqv (dissectAll Feature.isElem feats) Feature.isWindow post = Except.ok ()
  operable : ord.all (fun o => !o.feature.isAlias) = true
  ordering : subsetBy eqv (dissectAll Feature.isElem (ord.map Ordering.feature)) (dissectAll Feature.isElem feats) = true

theorem checkQuery_ok_iff (s : Source) (sel : List Feature) (pre : Option Feature) (grp : List Feature)
    (post : Option Feature) (ord : List Ordering) :
    checkQuery eqv s sel pre grp post ord = Except.ok () ↔
      ∃ feats, s.featuresOf = Except.ok feats ∧ Parts eqv feats sel pre grp post ord := by
  unfold checkQuery
  simp only [bind_eq_ok, exists_unit, guardG_eq_ok]
  constructor
  · rintro ⟨feats, hf, h1, h2, h3, h4, h5, h6⟩
    exact ⟨feats, hf, ⟨h1, h2, h3, h4, h5, h6⟩⟩
  · rintro ⟨feats, hf, ⟨h1, h2, h3, h4, h5, h6⟩⟩
    exact ⟨feats, hf, h1, h2, h3, h4, h5, h6⟩

theorem QState.valid_iff (q : QState) :
    q.Valid eqv ↔ ∃ feats, q.s.featuresOf = Except.ok feats ∧ Parts eqv feats q.sel q.pre q.grp q.post q.ord :=
  checkQuery_ok_iff eqv _ _ _ _ _ _

/-! ### two calls of different kinds commute -/

/-- the source and the grouping are not touched by a call other than `groupby`; every call leaves the source alone -/
theorem QState.upd_s (q q' : QState) (op : QOp) (h : q.upd op = Except.ok q') : q'.s = q.s := by
  cases op <;> simp only [QState.upd, bind_eq_ok, Except.ok.injEq] at h
  all_goals first
    | (subst h; rfl)
    | (obtain ⟨_, _, rfl⟩ := h; rfl)

/-- the replaced arguments of two calls of different kinds do not depend on the order of the calls -/
theorem QState.upd_comm (q qa qab : QState) (a b : QOp) (hs : a.slot ≠ b.slot) (ha : q.upd a = Except.ok qa)
    (hb : qa.upd b = Except.ok qab) : ∃ qb, q.upd b = Except.ok qb ∧ qb.upd a = Except.ok qab := by
  cases a <;> cases b <;> simp only [QOp.slot, ne_eq, not_true_eq_false] at hs <;>
    simp only [QState.upd, bind_eq_ok, Except.ok.injEq] at ha hb ⊢
  all_goals first
    | (subst ha; subst hb; exact ⟨_, rfl, rfl⟩)
    | (subst ha; obtain ⟨x, hx, rfl⟩ := hb; exact ⟨_, ⟨x, hx, rfl⟩, rfl⟩)
    | (obtain ⟨x, hx, rfl⟩ := ha; subst hb; exact ⟨_, rfl, x, hx, rfl⟩)
    | (obtain ⟨x, hx, rfl⟩ := ha; obtain ⟨y, hy, rfl⟩ := hb; exact ⟨_, ⟨y, hy, rfl⟩, x, hx, rfl⟩)

/-- between an accepted query and an accepted query two calls (not `groupby`, different kinds) later, the query in
between is accepted: each of its parts is a part of one of the two -/
theorem QState.valid_between (q qa qab : QState) (a b : QOp) (hs : a.slot ≠ b.slot) (hga : a.isGroupby = false)
    (hgb : b.isGroupby = false) (ha : q.upd a = Except.ok qa) (hb : qa.upd b = Except.ok qab)
    (hv : q.Valid eqv) (hvab : qab.Valid eqv) : qa.Valid eqv := by
  rw [QState.valid_iff] at hv hvab ⊢
  obtain ⟨feats, hf, p⟩ := hv
  obtain ⟨feats', hf', p'⟩ := hvab
  have e1 := QState.upd_s q qa a ha
  have e2 := QState.upd_s qa qab b hb
  rw [e2, e1, hf] at hf'
  cases hf'
  refine ⟨feats, by rw [e1]; exact hf, ?_⟩
  cases a <;> cases b <;> simp only [QOp.slot, ne_eq, not_true_eq_false] at hs <;>
    simp only [QOp.isGroupby, Bool.true_eq_false] at hga hgb <;>
    simp only [QState.upd, bind_eq_ok, Except.ok.injEq] at ha hb
  all_goals
    first
      | subst ha
      | obtain ⟨x, hx, rfl⟩ := ha
    first
      | subst hb
      | obtain ⟨y, hy, rfl⟩ := hb
    exact ⟨by first | exact p.selection | exact p'.selection, by first | exact p.prefilter | exact p'.prefilter,
      by first | exact p.grouping | exact p'.grouping, by first | exact p.postfilter | exact p'.postfilter,
      by first | exact p.operable | exact p'.operable, by first | exact p.ordering | exact p'.ordering⟩

/-- success and result of a computation, the exception forgotten -/
def okOf {α : Type} : R α → Option α
  | .ok a => some a
  | .error _ => none

theorem okOf_eq_some {α : Type} (x : R α) (a : α) : okOf x = some a ↔ x = Except.ok a := by
  cases x <;> simp [okOf]

theorem okOf_ext {α : Type} (x y : R α) (h : ∀ a, x = Except.ok a ↔ y = Except.ok a) : okOf x = okOf y := by
  cases x with
  | ok a => exact ((okOf_eq_some y a).mpr ((h a).mp rfl)).symm
  | error e =>
    cases y with
    | ok b => exact absurd ((h b).mpr rfl) (by simp)
    | error _ => rfl

theorem two_calls_ok_iff (q : QState) (a b : QOp) (c'' : Source) :
    (do let c ← q.toSource.applyOp eqv a; c.applyOp eqv b) = Except.ok c'' ↔
      ∃ qa qab, q.upd a = Except.ok qa ∧ qa.Valid eqv ∧ qa.upd b = Except.ok qab ∧ qab.Valid eqv ∧ c'' = qab.toSource := by
  simp only [bind_eq_ok, applyOp_ok_iff]
  constructor
  · rintro ⟨_, ⟨qa, h1, h2, rfl⟩, h⟩
    obtain ⟨qab, h3, h4, rfl⟩ := (applyOp_ok_iff eqv qa b c'').mp h
    exact ⟨qa, qab, h1, h2, h3, h4, rfl⟩
  · rintro ⟨qa, qab, h1, h2, h3, h4, rfl⟩
    exact ⟨_, ⟨qa, h1, h2, rfl⟩, (applyOp_ok_iff eqv qa b _).mpr ⟨qab, h3, h4, rfl⟩⟩

/-- two calls of different kinds, neither of them `groupby`, on an accepted query: either order gives the same
statement, or both are refused -/
theorem applyOp_comm (q : QState) (hv : q.Valid eqv) (a b : QOp) (hs : a.slot ≠ b.slot) (hga : a.isGroupby = false)
    (hgb : b.isGroupby = false) :
    okOf (do let c ← q.toSource.applyOp eqv a; c.applyOp eqv b) =
      okOf (do let c ← q.toSource.applyOp eqv b; c.applyOp eqv a) := by
  apply okOf_ext
  intro c''
  rw [two_calls_ok_iff, two_calls_ok_iff]
  constructor
  · rintro ⟨qa, qab, h1, _, h3, h4, rfl⟩
    obtain ⟨qb, h5, h6⟩ := QState.upd_comm q qa qab a b hs h1 h3
    exact ⟨qb, qab, h5, QState.valid_between eqv q qb qab b a (Ne.symm hs) hgb hga h5 h6 hv h4, h6, h4, rfl⟩
  · rintro ⟨qb, qab, h1, _, h3, h4, rfl⟩
    obtain ⟨qa, h5, h6⟩ := QState.upd_comm q qb qab b a (Ne.symm hs) h1 h3
    exact ⟨qa, qab, h5, QState.valid_between eqv q qa qab a b hs hga hgb h5 h6 hv h4, h6, h4, rfl⟩

/-! ### any ordering of the calls -/

theorem runChain_cons (c : Source) (op : QOp) (ops : List QOp) :
    runChain eqv c (op :: ops) = (do let c' ← c.applyOp eqv op; runChain eqv c' ops) := rfl

theorem okOf_bind_congr {α β : Type} (x : R α) (f g : α → R β) (h : ∀ a, x = Except.ok a → okOf (f a) = okOf (g a)) :
    okOf (x >>= f) = okOf (x >>= g) := by
  cases x with
  | error e => rfl
  | ok a => exact h a rfl

theorem okOf_bind_left {α β : Type} (x y : R α) (f : α → R β) (h : okOf x = okOf y) : okOf (x >>= f) = okOf (y >>= f) := by
  cases x <;> cases y <;> simp_all [okOf, bind, Except.bind]

/-- calls of pairwise different kinds, none of them `groupby`, applied to an accepted query in any order: the same
statement, or refused in every order -/
theorem runChain_perm (ops ops' : List QOp) (hp : ops.Perm ops') :
    (ops.map QOp.slot).Nodup → (∀ op ∈ ops, op.isGroupby = false) →
    ∀ q : QState, q.Valid eqv → okOf (runChain eqv q.toSource ops) = okOf (runChain eqv q.toSource ops') := by
  induction hp with
  | nil => intros; rfl
  | cons x _ ih =>
    intro hn hg q _
    rw [runChain_cons, runChain_cons]
    apply okOf_bind_congr
    intro c hc
    obtain ⟨q', _, hv', rfl⟩ := (applyOp_ok_iff eqv q x c).mp hc
    simp only [List.map_cons, List.nodup_cons] at hn
    exact ih hn.2 (fun op h => hg op (List.mem_cons_of_mem _ h)) q' hv'
  | swap x y l =>
    intro hn hg q hv
    simp only [runChain_cons, ← bind_assoc]
    apply okOf_bind_left
    simp only [List.map_cons, List.nodup_cons, List.mem_cons, not_or] at hn
    exact applyOp_comm eqv q hv y x hn.1.1 (hg y (by simp)) (hg x (by simp))
  | trans h1 _ ih1 ih2 =>
    intro hn hg q hv
    rw [ih1 hn hg q hv]
    exact ih2 ((h1.map QOp.slot).nodup_iff.mp hn) (fun op h => hg op (h1.mem_iff.mpr h)) q hv

/-! ### what a chain gives is what the constructor gives -/

/-- a chain that goes through stores arguments the constructor accepts, and it stores exactly them -/
theorem runChain_sound : (ops : List QOp) → (q : QState) → (c : Source) →
    runChain eqv q.toSource ops = Except.ok c → ops ≠ [] →
    ∃ q' : QState, q'.Valid eqv ∧ c = q'.toSource ∧ q'.s = q.s ∧
      queryNew eqv q'.s q'.sel q'.pre q'.grp q'.post (q'.ord.map Ordering.term) q'.rows = Except.ok c
  | [], _, _, _, h => absurd rfl h
  | op :: ops, q, c, h, _ => by
    rw [runChain_cons, bind_eq_ok] at h
    obtain ⟨c1, h1, h2⟩ := h
    obtain ⟨q1, hu, hv1, rfl⟩ := (applyOp_ok_iff eqv q op c1).mp h1
    have hs1 := QState.upd_s q q1 op hu
    cases ops with
    | nil =>
      simp only [runChain, Except.ok.injEq] at h2
      subst h2
      exact ⟨q1, hv1, rfl, hs1, (queryNew_made_ok_iff eqv _ _ _ _ _ _ _ _).mpr ⟨hv1, rfl⟩⟩
    | cons op2 rest =>
      obtain ⟨q', hv', hc, hs', hq⟩ := runChain_sound (op2 :: rest) q1 c h2 (by simp)
      exact ⟨q', hv', hc, hs'.trans hs1, hq⟩

end ForML.Dsl
