/-
C06 — source level: the plain translation `compile` preserves the denotation
(`evalFrom (compile s) = denoteFrom s` up to the relabelling `phi`, `evalOut (compile s) = denoteOut s`).
-/
import ForML.Lemmas.C06Feature

namespace ForML.C06
open ForML.Dsl ForML.Rel ForML.Parser ForML.Denote

/-! ### the generated join / set tables -/

theorem joinOpt_inner : joinOpt .inner = some (false, false, false) := by decide
theorem joinOpt_left : joinOpt .left = some (false, true, false) := by decide
theorem joinOpt_right : joinOpt .right = some (false, true, true) := by decide
theorem joinOpt_full : joinOpt .full = some (true, false, false) := by decide
theorem joinOpt_cross' : joinOpt .cross = some (true, false, false) := by decide

theorem setOpOf_setOfKind (k : SetKind) (h : (setOpOf k).isSome = true) : setOpOf k = some (setOfKind k) := by
  cases k <;> simp [setOpOf, Generated.C06.setOps, SetKind.wire, List.lookup, setOfKind] at h ⊢

/-! ### scopes -/

theorem mem_of_contains {l : List Source} {a : Source} (h : l.contains a = true) : a ∈ l := by
  simpa using h

theorem injOn_of_nodupB (srcs : Sources) : ∀ (l : List Source), nodupB (l.map (qualD srcs)) = true → InjOn srcs l
  | [], _ => by intro a ha; cases ha
  | x :: xs, h => by
    simp only [List.map_cons, nodupB, Bool.and_eq_true, Bool.not_eq_true'] at h
    obtain ⟨hx, hxs⟩ := h
    have ih := injOn_of_nodupB srcs xs hxs
    have hnot : ∀ b ∈ xs, qualD srcs x ≠ qualD srcs b := by
      intro b hb heq
      have : (xs.map (qualD srcs)).contains (qualD srcs x) = true := by
        simp only [List.contains_eq_mem, List.mem_map, decide_eq_true_eq]
        exact ⟨b, hb, heq.symm⟩
      rw [this] at hx
      exact absurd hx (by decide)
    intro a ha b hb hab
    rcases List.mem_cons.mp ha with rfl | ha'
    · rcases List.mem_cons.mp hb with rfl | hb'
      · rfl
      · exact absurd hab (hnot b hb')
    · rcases List.mem_cons.mp hb with rfl | hb'
      · exact absurd hab.symm (hnot a ha')
      · exact ih a ha' b hb' hab

theorem InjOn.mono {srcs : Sources} {big small : List Source} (h : InjOn srcs big) (hs : ∀ a ∈ small, a ∈ big) :
    InjOn srcs small :=
  fun a ha b hb hab => h a (hs a ha) b (hs b hb) hab

theorem LabelsIn.mono {labels : Labels} {small big : List Source} (h : LabelsIn labels small)
    (hs : ∀ a ∈ small, a ∈ big) : LabelsIn labels big :=
  fun o n hm => hs o (h o n hm)

theorem LabelsIn.append {a b : Labels} {scope : List Source} (ha : LabelsIn a scope) (hb : LabelsIn b scope) :
    LabelsIn (a ++ b) scope := by
  intro o n hm
  rcases List.mem_append.mp hm with h | h
  · exact ha o n h
  · exact hb o n h

/-- every origin of a well-formed FROM tree has a name in the SQL -/
theorem leaves_qual_some (srcs : Sources) :
    ∀ (s : Source), wfFrom srcs s = true → isOrigin s = true → ∀ o ∈ leaves s, (qual srcs o).isSome = true
  | .table n fields, hwf, _, o, ho => by
    simp only [leaves, List.mem_singleton] at ho; subst ho
    simpa [qual, wfFrom] using hwf
  | .ref inst name, _, _, o, ho => by
    simp only [leaves, List.mem_singleton] at ho; subst ho
    simp [qual]
  | .join l r k c, hwf, _, o, ho => by
    simp only [wfFrom, Bool.and_eq_true] at hwf
    obtain ⟨⟨⟨⟨⟨hl, hr⟩, hol⟩, hor⟩, _⟩, _⟩ := hwf
    simp only [leaves, List.mem_append] at ho
    rcases ho with h | h
    · exact leaves_qual_some srcs l hl hol o h
    · exact leaves_qual_some srcs r hr hor o h
  | .set _ _ _, _, ho, _, _ => by simp [isOrigin] at ho
  | .query _ _ _ _ _ _ _, _, ho, _, _ => by simp [isOrigin] at ho

/-- the labels an origin denotes belong to its leaves -/
theorem denoteFrom_labels (srcs : Sources) (db : Db) :
    ∀ (s : Source) (R : DRel), denoteFrom srcs s db = some R → LabelsIn R.labels (leaves s)
  | .table n fields, R, h => by
    simp only [denoteFrom] at h
    split at h
    · simp only [Option.map_eq_some_iff] at h
      obtain ⟨t, _, rfl⟩ := h
      intro o n' hm
      simp only [List.mem_map] at hm
      obtain ⟨c, _, hc⟩ := hm
      injection hc with hc; injection hc with h1 _
      simp [leaves, ← h1]
    · simp at h
  | .ref inst name, R, h => by
    intro o n' hm
    cases inst with
    | table n fields =>
      simp only [denoteFrom] at h
      split at h
      · simp only [Option.map_eq_some_iff] at h
        obtain ⟨t, _, rfl⟩ := h
        simp only [List.mem_map] at hm
        obtain ⟨c, _, hc⟩ := hm
        injection hc with hc; injection hc with h1 _
        simp [leaves, ← h1]
      · simp at h
    | ref i2 n2 =>
      simp only [denoteFrom, Option.map_eq_some_iff] at h
      obtain ⟨t, _, rfl⟩ := h
      simp only [List.mem_map] at hm
      obtain ⟨x, _, hx⟩ := hm
      cases x with
      | none => simp at hx
      | some y => simp at hx; simp [leaves, ← hx.1]
    | join a b k c =>
      simp only [denoteFrom, Option.map_eq_some_iff] at h
      obtain ⟨t, _, rfl⟩ := h
      simp only [List.mem_map] at hm
      obtain ⟨x, _, hx⟩ := hm
      cases x with
      | none => simp at hx
      | some y => simp at hx; simp [leaves, ← hx.1]
    | set a b k =>
      simp only [denoteFrom, Option.map_eq_some_iff] at h
      obtain ⟨t, _, rfl⟩ := h
      simp only [List.mem_map] at hm
      obtain ⟨x, _, hx⟩ := hm
      cases x with
      | none => simp at hx
      | some y => simp at hx; simp [leaves, ← hx.1]
    | query a b c d e f g =>
      simp only [denoteFrom, Option.map_eq_some_iff] at h
      obtain ⟨t, _, rfl⟩ := h
      simp only [List.mem_map] at hm
      obtain ⟨x, _, hx⟩ := hm
      cases x with
      | none => simp at hx
      | some y => simp at hx; simp [leaves, ← hx.1]
  | .join l r k c, R, h => by
    have key : ∀ (L R' : DRel), denoteFrom srcs l db = some L → denoteFrom srcs r db = some R' →
        LabelsIn (L.labels ++ R'.labels) (leaves l ++ leaves r) ∧ LabelsIn (R'.labels ++ L.labels) (leaves l ++ leaves r) := by
      intro L R' hL hR
      have h1 := (denoteFrom_labels srcs db l L hL).mono (big := leaves l ++ leaves r)
        (fun a ha => List.mem_append.mpr (Or.inl ha))
      have h2 := (denoteFrom_labels srcs db r R' hR).mono (big := leaves l ++ leaves r)
        (fun a ha => List.mem_append.mpr (Or.inr ha))
      exact ⟨h1.append h2, h2.append h1⟩
    simp only [leaves]
    cases hL : denoteFrom srcs l db with
    | none => cases k <;> cases c <;> simp [denoteFrom, hL] at h
    | some L =>
      cases hR : denoteFrom srcs r db with
      | none => cases k <;> cases c <;> simp [denoteFrom, hL, hR] at h
      | some R' =>
        obtain ⟨k1, k2⟩ := key L R' hL hR
        cases k <;> cases c <;> simp only [denoteFrom, hL, hR, Option.map_eq_some_iff] at h <;>
          first
          | (obtain ⟨rows, _, rfl⟩ := h; first | exact k1 | exact k2)
          | (injection h with h; subst h; exact k1)
          | simp at h
  | .set _ _ _, R, h => by simp [denoteFrom] at h
  | .query _ _ _ _ _ _ _, R, h => by simp [denoteFrom] at h

/-! ### the default projection -/

theorem originElems_leaves : ∀ (s : Source) (es : List (Source × String)), originElems s = some es →
    ∀ e ∈ es, e.1 ∈ leaves s
  | .table n fields, es, h, e, he => by
    simp only [originElems, Option.some.injEq] at h; subst h
    simp only [List.mem_map] at he
    obtain ⟨f, _, rfl⟩ := he
    simp [leaves]
  | .ref inst name, es, h, e, he => by
    simp only [originElems] at h
    have : ∀ (ns : List (Option String)) (es : List (Source × String)),
        ns.mapM (fun n => n.map (fun n => (Source.ref inst name, n))) = some es → ∀ e ∈ es, e.1 = Source.ref inst name := by
      intro ns
      induction ns with
      | nil => intro es h e he; simp at h; subst h; cases he
      | cons x xs ih =>
        intro es h e he
        simp only [List.mapM_cons, Option.pure_def, Option.bind_eq_bind, Option.bind_eq_some_iff] at h
        obtain ⟨y, hy, ys, hys, hes⟩ := h
        simp at hes; subst hes
        rcases List.mem_cons.mp he with rfl | he'
        · cases x with
          | none => simp at hy
          | some v => simp at hy; subst hy; rfl
        · exact ih ys hys e he'
    simp [leaves, this _ es h e he]
  | .join l r k c, es, h, e, he => by
    simp only [originElems, Option.pure_def, Option.bind_eq_bind, Option.bind_eq_some_iff] at h
    obtain ⟨a, ha, b, hb, hes⟩ := h
    simp at hes; subst hes
    simp only [leaves, List.mem_append]
    rcases List.mem_append.mp he with h1 | h1
    · exact Or.inl (originElems_leaves l a ha e h1)
    · exact Or.inr (originElems_leaves r b hb e h1)
  | .set _ _ _, es, h, _, _ => by simp [originElems] at h
  | .query _ _ _ _ _ _ _, es, h, _, _ => by simp [originElems] at h

theorem supportedFs_elemFeatures (scope : List Source) : ∀ (es : List (Source × String)),
    (∀ e ∈ es, e.1 ∈ scope) → supportedFs scope (elemFeatures es) = true
  | [], _ => rfl
  | (o, n) :: rest, h => by
    simp only [elemFeatures, supportedFs, supportedF, Bool.and_eq_true]
    refine ⟨?_, supportedFs_elemFeatures scope rest (fun e he => h e (List.mem_cons_of_mem _ he))⟩
    simpa using h (o, n) (List.mem_cons_self ..)

theorem compileFs_elemFeatures (srcs : Sources) : ∀ (es : List (Source × String)),
    compileFs srcs (elemFeatures es) = es.mapM (fun e => (qual srcs e.1).map (fun q => SqlExpr.col q e.2))
  | [] => rfl
  | (o, n) :: rest => by
    simp only [elemFeatures, compileFs, compileF, compileFs_elemFeatures srcs rest, List.mapM_cons]
    cases qual srcs o <;> simp
    cases List.mapM (fun e => Option.map (fun q => SqlExpr.col q e.snd) (qual srcs e.fst)) rest <;> simp

theorem elemFeatures_isEmpty (es : List (Source × String)) : (elemFeatures es).isEmpty = es.isEmpty := by
  cases es with
  | nil => rfl
  | cons e rest => obtain ⟨o, n⟩ := e; rfl

/-! ### OFFSET 0 is no OFFSET -/

theorem runQuery_off_zero (c : Clauses) (w : Nat) (rows : List Row) :
    runQuery { c with off := some 0 } w rows = runQuery { c with off := none } w rows := by
  simp [runQuery, units, toNat']

def isStmtSql : SqlSel → Bool
  | .select _ _ _ _ _ _ _ _ => true
  | .compound _ _ _ => true
  | _ => false

theorem evalFrom_alias_stmt (q : SqlSel) (name : String) (db : Db) (h : isStmtSql q = true) :
    evalFrom (.alias q name) db =
      (evalOut q db).map (fun o => ⟨o.names.map (fun n => n.map (fun n => (name, n))), o.rows⟩) := by
  cases q <;> simp [isStmtSql] at h <;> simp [evalFrom]

/-! ### the translation preserves the denotation -/

/-- FROM-level correspondence: same rows, labels renamed by `phi` -/
def relOf (srcs : Sources) (R : DRel) : SRel := ⟨R.labels.map (phi srcs), R.rows⟩

theorem lookup_nontable (srcs : Sources) (hT : OnlyTables srcs = true) (s : Source) (hs : isTable s = false) :
    srcs.lookup s = none := by
  induction srcs with
  | nil => rfl
  | cons p rest ih =>
    obtain ⟨k, v⟩ := p
    simp only [OnlyTables, List.all_cons, Bool.and_eq_true] at hT
    have hk : (s == k) = false := by
      cases hsk : s == k with
      | false => rfl
      | true =>
        have : s = k := by simpa using hsk
        subst this
        simp [hs] at hT
    simp only [List.lookup, hk]
    exact ih hT.2

/-- the SELECT block the parser emits means what the query's clauses mean -/
theorem clauses_run (cols : Cols) (labels : Labels) (items g : List SqlExpr) (whr hav : Option SqlExpr)
    (o : List (SqlExpr × SortDir)) (sel grp : Features) (pre post : FeatureOpt) (ord : Orderings) (rows : Option Rows)
    (h1 : items.map (evalS cols) = evsOf labels sel) (h1a : items.any (·.hasAgg) = hasAggFs sel)
    (h2 : whr.map (evalS cols) = evOfOpt labels pre)
    (h3 : g.map (evalS cols) = evsOf labels grp) (h3e : g.isEmpty = grp.isEmpty)
    (h4 : hav.map (evalS cols) = evOfOpt labels post) (h4a : (hav.map (·.hasAgg)).getD false = hasAggFO post)
    (h5 : o.map (fun e => (evalS cols e.1, e.2)) = evsOfOrd labels ord) (h5a : o.any (·.1.hasAgg) = hasAggOrd ord)
    (w : Nat) (rs : List Row) :
    runQuery (sqlClauses cols items whr g hav o (rowsOpts rows).1 (rowsOpts rows).2) w rs =
      runQuery (dslClauses labels sel pre grp post ord rows) w rs := by
  have base : ∀ (off lim : Option Int),
      sqlClauses cols items whr g hav o lim off =
        { dslClauses labels sel pre grp post ord rows with off := off, lim := lim } := by
    intro off lim
    simp only [sqlClauses, dslClauses, h1, h1a, h2, h3, h3e, h4, h4a, h5, h5a]
  cases rows with
  | none => rw [base]; rfl
  | some p =>
    obtain ⟨c, o'⟩ := p
    rw [base]
    by_cases h0 : o' = 0
    · subst h0
      simp only [rowsOpts, if_true]
      exact (runQuery_off_zero { dslClauses labels sel pre grp post ord (some (c, 0)) with lim := some c } w rs).symm
    · simp only [rowsOpts, if_neg h0]
      rfl

theorem filterRows_true {α : Type} (p : α → Option Val) (h : ∀ x, p x = some (.bool true)) :
    ∀ (l : List α), filterRows p l = some l
  | [] => rfl
  | x :: xs => by
    simp [filterRows, h x, truth, filterRows_true p h xs]

theorem productRows_eq (l r : List Row) :
    (l.flatMap (fun a => r.map (fun b => (a, b)))).map (fun p => p.1 ++ p.2) = productRows l r := by
  simp [productRows, List.map_flatMap, List.map_map, Function.comp_def]

/-- FULL JOIN ON TRUE is the product when both sides are empty or both are not -/
theorem joinRows_true_balanced (l r : List Row) (wl wr : Nat) (on : Row → Option Val)
    (hon : ∀ x, on x = some (.bool true)) (hb : l.isEmpty = r.isEmpty) :
    joinRows l r wl wr on true true = some (productRows l r) := by
  unfold joinRows
  simp only [filterRows_true (fun (p : Row × Row) => on (p.1 ++ p.2)) (fun p => hon _), Option.pure_def,
    Option.bind_eq_bind, Option.bind_some, if_true, productRows_eq]
  cases l with
  | nil =>
    cases r with
    | nil => simp [productRows]
    | cons b bs => simp at hb
  | cons a as =>
    cases r with
    | nil => simp at hb
    | cons b bs =>
      have hl : ((a :: as).filter (fun x => !((List.flatMap (fun a => List.map (fun b => (a, b)) (b :: bs)) (a :: as)).any (fun p => p.1 == x)))) = [] := by
        rw [List.filter_eq_nil_iff]
        intro x hx
        simp only [Bool.not_eq_true, Bool.not_eq_false', List.any_eq_true]
        refine ⟨(x, b), ?_, by simp⟩
        simp only [List.mem_flatMap, List.mem_map]
        exact ⟨x, hx, b, List.mem_cons_self .., rfl⟩
      have hr : ((b :: bs).filter (fun x => !((List.flatMap (fun a => List.map (fun b => (a, b)) (b :: bs)) (a :: as)).any (fun p => p.2 == x)))) = [] := by
        rw [List.filter_eq_nil_iff]
        intro x hx
        simp only [Bool.not_eq_true, Bool.not_eq_false', List.any_eq_true]
        refine ⟨(a, x), ?_, by simp⟩
        simp only [List.mem_flatMap, List.mem_map]
        exact ⟨a, List.mem_cons_self .., x, hx, rfl⟩
      rw [hl, hr]
      simp

theorem crossBalanced_of_noCross (srcs : Sources) (db : Db) : ∀ (s : Source), noCross s = true → crossBalanced srcs s db = true
  | .table _ _, _ => rfl
  | .ref inst _, h => by simpa [crossBalanced] using crossBalanced_of_noCross srcs db inst (by simpa [noCross] using h)
  | .join l r k c, h => by
    simp only [noCross, Bool.and_eq_true] at h
    simp [crossBalanced, crossBalanced_of_noCross srcs db l h.1.2, crossBalanced_of_noCross srcs db r h.2, h.1.1]
  | .set l r _, h => by
    simp only [noCross, Bool.and_eq_true] at h
    simp [crossBalanced, crossBalanced_of_noCross srcs db l h.1, crossBalanced_of_noCross srcs db r h.2]
  | .query src _ _ _ _ _ _, h => by
    simpa [crossBalanced] using crossBalanced_of_noCross srcs db src (by simpa [noCross] using h)

mutual
theorem from_spec (srcs : Sources) :
    ∀ (s : Source), wfFrom srcs s = true → isOrigin s = true → InjOn srcs (leaves s) →
      ∃ q, compile srcs s = some q ∧
        ∀ db, crossBalanced srcs s db = true → evalFrom q db = (denoteFrom srcs s db).map (relOf srcs)
  | .table n fields, hwf, _, _ => by
    simp only [wfFrom] at hwf
    obtain ⟨pn, hpn⟩ := Option.isSome_iff_exists.mp hwf
    refine ⟨.table pn, by simp [compile, hpn], ?_⟩
    intro db _
    simp only [evalFrom, denoteFrom, hpn]
    cases db.lookup pn with
    | none => rfl
    | some t =>
      simp [relOf, phi, qualD, qual, hpn, Function.comp_def]
  | .ref inst name, hwf, _, _ => by
    cases inst with
    | table n fields =>
      simp only [wfFrom] at hwf
      obtain ⟨pn, hpn⟩ := Option.isSome_iff_exists.mp hwf
      refine ⟨.alias (.table pn) name, by simp [compile, hpn], ?_⟩
      intro db _
      simp only [evalFrom, denoteFrom, hpn]
      cases db.lookup pn with
      | none => rfl
      | some t => simp [relOf, phi, qualD, qual, Function.comp_def]
    | ref i2 n2 => simp [wfFrom] at hwf
    | join a b k c => simp [wfFrom] at hwf
    | set a b k =>
      have hw : wfOut srcs (.set a b k) = true := by simpa [wfFrom] using hwf
      obtain ⟨q, hq, hst, hev⟩ := out_spec srcs (.set a b k) hw
      refine ⟨.alias q name, by rw [compile, hq]; rfl, ?_⟩
      intro db hb
      rw [evalFrom_alias_stmt q name db hst, hev db (by simpa [crossBalanced] using hb)]
      simp only [denoteFrom]
      cases denoteOut srcs (.set a b k) db with
      | none => rfl
      | some o =>
        simp only [Option.map_some, relOf, List.map_map]
        congr 2
        apply List.map_congr_left
        intro x _
        cases x <;> simp [phi, qualD, qual]
    | query a b c d e f g =>
      have hw : wfOut srcs (.query a b c d e f g) = true := by simpa [wfFrom] using hwf
      obtain ⟨q, hq, hst, hev⟩ := out_spec srcs (.query a b c d e f g) hw
      refine ⟨.alias q name, by rw [compile, hq]; rfl, ?_⟩
      intro db hb
      rw [evalFrom_alias_stmt q name db hst, hev db (by simpa [crossBalanced] using hb)]
      simp only [denoteFrom]
      cases denoteOut srcs (.query a b c d e f g) db with
      | none => rfl
      | some o =>
        simp only [Option.map_some, relOf, List.map_map]
        congr 2
        apply List.map_congr_left
        intro x _
        cases x <;> simp [phi, qualD, qual]
  | .join l r k c, hwf, _, hinj => by
    simp only [wfFrom, Bool.and_eq_true] at hwf
    obtain ⟨⟨⟨⟨⟨hl, hr⟩, hol⟩, hor⟩, _⟩, hkc⟩ := hwf
    simp only [leaves] at hinj
    have hinjl : InjOn srcs (leaves l) := hinj.mono (fun a ha => List.mem_append.mpr (Or.inl ha))
    have hinjr : InjOn srcs (leaves r) := hinj.mono (fun a ha => List.mem_append.mpr (Or.inr ha))
    obtain ⟨L, hL, hevL⟩ := from_spec srcs l hl hol hinjl
    obtain ⟨R, hR, hevR⟩ := from_spec srcs r hr hor hinjr
    have hsplit : ∀ db, crossBalanced srcs (.join l r k c) db = true →
        crossBalanced srcs l db = true ∧ crossBalanced srcs r db = true := by
      intro db hb
      simp only [crossBalanced, Bool.and_eq_true] at hb
      exact ⟨hb.1.1, hb.1.2⟩
    have hq : ∀ o ∈ leaves l ++ leaves r, (qual srcs o).isSome = true := by
      intro o ho
      rcases List.mem_append.mp ho with h | h
      · exact leaves_qual_some srcs l hl hol o h
      · exact leaves_qual_some srcs r hr hor o h
    cases c with
    | none =>
      have hk : k = .cross := by cases k <;> simp at hkc <;> rfl
      subst hk
      refine ⟨.join L R (.lit (.bool true)) true false, by simp [compile, hL, hR, joinOpt_cross'], ?_⟩
      intro db hb
      obtain ⟨hbl, hbr⟩ := hsplit db hb
      simp only [evalFrom, denoteFrom, hevL db hbl, hevR db hbr]
      cases hdl : denoteFrom srcs l db with
      | none => simp
      | some A =>
        cases hdr : denoteFrom srcs r db with
        | none => simp
        | some B =>
          have hbal : A.rows.isEmpty = B.rows.isEmpty := by
            simp only [crossBalanced, hdl, hdr, Bool.and_eq_true] at hb
            simpa using hb.2
          simp only [Option.map_some, relOf]
          rw [show (true || false) = true from rfl,
            joinRows_true_balanced A.rows B.rows _ _
              (evalS (List.map (phi srcs) A.labels ++ List.map (phi srcs) B.labels) (SqlExpr.lit (Lit.bool true)) [])
              (fun x => rfl) hbal]
          simp
    | some f =>
      have hsf : supportedF (leaves l ++ leaves r) f = true := by cases k <;> simp at hkc <;> exact hkc
      obtain ⟨on, hon⟩ := compileF_some srcs _ hq f hsf
      -- meaning of the condition over either column order
      have hcond : ∀ (A B : DRel), LabelsIn (A.labels ++ B.labels) (leaves l ++ leaves r) →
          evalS ((relOf srcs A).cols ++ (relOf srcs B).cols) on [] = evalF (A.labels ++ B.labels) f [] := by
        intro A B hin
        have := evalS_compileF srcs _ (A.labels ++ B.labels) hinj hin f on hsf hon
        simp only [relOf, ← List.map_append]
        rw [this]
      cases k with
      | cross => simp at hkc
      | inner =>
        refine ⟨.join L R on false false, by simp [compile, hL, hR, hon, joinOpt_inner], ?_⟩
        intro db hb
        obtain ⟨hbl, hbr⟩ := hsplit db hb
        simp only [evalFrom, denoteFrom, hevL db hbl, hevR db hbr]
        cases hdl : denoteFrom srcs l db with
        | none => simp
        | some A =>
          cases hdr : denoteFrom srcs r db with
          | none => simp
          | some B =>
            have hin := ((denoteFrom_labels srcs db l A hdl).mono (big := leaves l ++ leaves r)
              (fun a ha => List.mem_append.mpr (Or.inl ha))).append
              ((denoteFrom_labels srcs db r B hdr).mono (big := leaves l ++ leaves r)
              (fun a ha => List.mem_append.mpr (Or.inr ha)))
            simp only [Option.map_some, hcond A B hin]
            simp [relOf]
            cases joinRows A.rows B.rows A.labels.length B.labels.length (evalF (A.labels ++ B.labels) f []) false false <;> simp [relOf]
      | left =>
        refine ⟨.join L R on false true, by simp [compile, hL, hR, hon, joinOpt_left], ?_⟩
        intro db hb
        obtain ⟨hbl, hbr⟩ := hsplit db hb
        simp only [evalFrom, denoteFrom, hevL db hbl, hevR db hbr]
        cases hdl : denoteFrom srcs l db with
        | none => simp
        | some A =>
          cases hdr : denoteFrom srcs r db with
          | none => simp
          | some B =>
            have hin := ((denoteFrom_labels srcs db l A hdl).mono (big := leaves l ++ leaves r)
              (fun a ha => List.mem_append.mpr (Or.inl ha))).append
              ((denoteFrom_labels srcs db r B hdr).mono (big := leaves l ++ leaves r)
              (fun a ha => List.mem_append.mpr (Or.inr ha)))
            simp only [Option.map_some, hcond A B hin]
            simp [relOf]
            cases joinRows A.rows B.rows A.labels.length B.labels.length (evalF (A.labels ++ B.labels) f []) true false <;> simp [relOf]
      | right =>
        refine ⟨.join R L on false true, by simp [compile, hL, hR, hon, joinOpt_right], ?_⟩
        intro db hb
        obtain ⟨hbl, hbr⟩ := hsplit db hb
        simp only [evalFrom, denoteFrom, hevL db hbl, hevR db hbr]
        cases hdl : denoteFrom srcs l db with
        | none => cases denoteFrom srcs r db <;> simp
        | some A =>
          cases hdr : denoteFrom srcs r db with
          | none => simp
          | some B =>
            have hin := ((denoteFrom_labels srcs db r B hdr).mono (big := leaves l ++ leaves r)
              (fun a ha => List.mem_append.mpr (Or.inr ha))).append
              ((denoteFrom_labels srcs db l A hdl).mono (big := leaves l ++ leaves r)
              (fun a ha => List.mem_append.mpr (Or.inl ha)))
            simp only [Option.map_some, hcond B A hin]
            simp [relOf]
            cases joinRows B.rows A.rows B.labels.length A.labels.length (evalF (B.labels ++ A.labels) f []) true false <;> simp [relOf]
      | full =>
        refine ⟨.join L R on true false, by simp [compile, hL, hR, hon, joinOpt_full], ?_⟩
        intro db hb
        obtain ⟨hbl, hbr⟩ := hsplit db hb
        simp only [evalFrom, denoteFrom, hevL db hbl, hevR db hbr]
        cases hdl : denoteFrom srcs l db with
        | none => simp
        | some A =>
          cases hdr : denoteFrom srcs r db with
          | none => simp
          | some B =>
            have hin := ((denoteFrom_labels srcs db l A hdl).mono (big := leaves l ++ leaves r)
              (fun a ha => List.mem_append.mpr (Or.inl ha))).append
              ((denoteFrom_labels srcs db r B hdr).mono (big := leaves l ++ leaves r)
              (fun a ha => List.mem_append.mpr (Or.inr ha)))
            simp only [Option.map_some, hcond A B hin]
            simp [relOf]
            cases joinRows A.rows B.rows A.labels.length B.labels.length (evalF (A.labels ++ B.labels) f []) true true <;> simp [relOf]
  | .set _ _ _, _, ho, _ => by simp [isOrigin] at ho
  | .query _ _ _ _ _ _ _, _, ho, _ => by simp [isOrigin] at ho
theorem out_spec (srcs : Sources) :
    ∀ (s : Source), wfOut srcs s = true →
      ∃ q, compile srcs s = some q ∧ isStmtSql q = true ∧
        ∀ db, crossBalanced srcs s db = true → evalOut q db = denoteOut srcs s db
  | .set l r k, hwf => by
    simp only [wfOut, Bool.and_eq_true] at hwf
    obtain ⟨⟨hl, hr⟩, hk⟩ := hwf
    obtain ⟨L, hL, _, hevL⟩ := out_spec srcs l hl
    obtain ⟨R, hR, _, hevR⟩ := out_spec srcs r hr
    refine ⟨.compound (setOfKind k) L R, by simp [compile, hL, hR, setOpOf_setOfKind k hk], rfl, ?_⟩
    intro db hb
    simp only [crossBalanced, Bool.and_eq_true] at hb
    simp only [evalOut, denoteOut, hevL db hb.1, hevR db hb.2]
    cases denoteOut srcs l db <;> cases denoteOut srcs r db <;> rfl
  | .query src sel pre grp post ord rows, hwf => by
    simp only [wfOut, Bool.and_eq_true] at hwf
    obtain ⟨⟨⟨⟨⟨⟨⟨hfrom, horig⟩, hnodup⟩, hsel⟩, hpre⟩, hgrp⟩, hpost⟩, hord⟩ := hwf
    have hinj : InjOn srcs (leaves src) := injOn_of_nodupB srcs _ hnodup
    obtain ⟨frm, hfrm, hevF⟩ := from_spec srcs src hfrom horig hinj
    have hq := leaves_qual_some srcs src hfrom horig
    -- the projection as a list of features
    have hselspec : ∃ sel' : Features,
        (if sel.isEmpty then (originElems src).map elemFeatures else some sel) = some sel' ∧
        supportedFs (leaves src) sel' = true ∧ sel'.isEmpty = false ∧
        (if sel.isEmpty then compileElems srcs src else compileFs srcs sel) = compileFs srcs sel' := by
      by_cases he : sel.isEmpty = true
      · simp only [he, if_true] at hsel ⊢
        cases hoe : originElems src with
        | none => simp [hoe] at hsel
        | some es =>
          have hne : es.isEmpty = false := by simpa [hoe] using hsel
          refine ⟨elemFeatures es, rfl, supportedFs_elemFeatures _ es (originElems_leaves src es hoe), ?_, ?_⟩
          · rw [elemFeatures_isEmpty, hne]
          · simp [compileElems, hoe, compileFs_elemFeatures]
      · have he' : sel.isEmpty = false := by simpa using he
        simp only [he', Bool.false_eq_true, if_false] at hsel ⊢
        exact ⟨sel, rfl, hsel, he', rfl⟩
    obtain ⟨sel', hsel'eq, hsel's, hsel'ne, hitems⟩ := hselspec
    have hin0 : LabelsIn ([] : Labels) (leaves src) := fun _ _ h => by cases h
    obtain ⟨items, hI, _, _, _, hIe⟩ := compileFs_spec srcs _ [] hinj hin0 hq sel' hsel's
    obtain ⟨whr, hW, _, _⟩ := compileFO_spec srcs _ [] hinj hin0 hq pre hpre
    obtain ⟨g, hG, _, _, _, _⟩ := compileFs_spec srcs _ [] hinj hin0 hq grp hgrp
    obtain ⟨hav, hH, _, _⟩ := compileFO_spec srcs _ [] hinj hin0 hq post hpost
    obtain ⟨o, hO, _, _⟩ := compileOrd_spec srcs _ [] hinj hin0 hq ord hord
    have hne : items.isEmpty = false := by rw [hIe, hsel'ne]
    refine ⟨.select items frm whr g hav o (rowsOpts rows).1 (rowsOpts rows).2, ?_, rfl, ?_⟩
    · rw [compile]
      simp only [hfrm, hW, hG, hH, hO, Option.pure_def, Option.bind_eq_bind, Option.bind_some]
      have hne' : ¬ items = [] := by
        intro h; subst h; simp at hne
      by_cases he : sel.isEmpty = true
      · simp only [he, if_true] at hitems ⊢
        rw [hitems, hI]; simp [hne']
      · have he' : sel.isEmpty = false := by simpa using he
        simp only [he', Bool.false_eq_true, if_false] at hitems ⊢
        rw [hitems, hI]; simp [hne']
    · intro db hb
      simp only [evalOut, denoteOut, hevF db (by simpa [crossBalanced] using hb), hsel'eq]
      cases hd : denoteFrom srcs src db with
      | none => rfl
      | some R =>
        have hin := denoteFrom_labels srcs db src R hd
        obtain ⟨items', hI', h1, h1n, h1a, _⟩ := compileFs_spec srcs _ R.labels hinj hin hq sel' hsel's
        obtain ⟨whr', hW', h2, _⟩ := compileFO_spec srcs _ R.labels hinj hin hq pre hpre
        obtain ⟨g', hG', h3, _, _, h3e⟩ := compileFs_spec srcs _ R.labels hinj hin hq grp hgrp
        obtain ⟨hav', hH', h4, h4a⟩ := compileFO_spec srcs _ R.labels hinj hin hq post hpost
        obtain ⟨o', hO', h5, h5a⟩ := compileOrd_spec srcs _ R.labels hinj hin hq ord hord
        rw [hI] at hI'; rw [hW] at hW'; rw [hG] at hG'; rw [hH] at hH'; rw [hO] at hO'
        injection hI' with hI'; injection hW' with hW'; injection hG' with hG'; injection hH' with hH'
        injection hO' with hO'
        subst hI' hW' hG' hH' hO'
        simp only [Option.map_some, relOf, hsel'ne, Bool.false_eq_true, if_false, List.length_map]
        rw [clauses_run (R.labels.map (phi srcs)) R.labels items g whr hav o sel' grp pre post ord rows
          h1 h1a h2 h3 h3e h4 h4a h5 h5a, h1n]
end

end ForML.C06
