/-
C06 — source level: the plain translation `compile` preserves the denotation
(`evalFrom (compile s) = denoteFrom s` up to the relabelling `phi`, `evalOut (compile s) = denoteOut s`).
-/
import ForML.Lemmas.C06Feature

namespace ForML.C06
open ForML.Dsl ForML.Rel ForML.Parser ForML.Denote

/-! ### the generated join / set tables -/

theorem joinOpt_inner : joinOpt .inner = some (false, false, false) := by decide
theorem joinOpt_left : joinOpt .left = some (false, true, false) := by decide
theorem joinOpt_right : joinOpt .right = some (false, true, true) := by decide
theorem joinOpt_full : joinOpt .full = some (true, false, false) := by decide

theorem setOpOf_setOfKind (k : SetKind) (h : (setOpOf k).isSome = true) : setOpOf k = some (setOfKind k) := by
  cases k <;> simp [setOpOf, Generated.C06.setOps, SetKind.wire, List.lookup, setOfKind] at h ⊢

/-! ### scopes -/

theorem mem_of_contains {l : List Source} {a : Source} (h : l.contains a = true) : a ∈ l := by
  simpa using h

theorem injOn_of_nodupB (srcs : Sources) : ∀ (l : List Source), nodupB (l.map (qualD srcs)) = true → InjOn srcs l
  | [], _ => by intro a ha; cases ha
  | x :: xs, h => by
    simp only [List.map_cons, nodupB, Bool.and_eq_true, Bool.not_eq_true'] at h
    obtain ⟨hx, hxs⟩ := h
    have ih := injOn_of_nodupB srcs xs hxs
    have hnot : ∀ b ∈ xs, qualD srcs x ≠ qualD srcs b := by
      intro b hb heq
      have : (xs.map (qualD srcs)).contains (qualD srcs x) = true := by
        simp only [List.contains_eq_mem, List.mem_map, decide_eq_true_eq]
        exact ⟨b, hb, heq.symm⟩
      rw [this] at hx
      exact absurd hx (by decide)
    intro a ha b hb hab
    rcases List.mem_cons.mp ha with rfl | ha'
    · rcases List.mem_cons.mp hb with rfl | hb'
      · rfl
      · exact absurd hab (hnot b hb')
    · rcases List.mem_cons.mp hb with rfl | hb'
      · exact absurd hab.symm (hnot a ha')
      · exact ih a ha' b hb' hab

theorem InjOn.mono {srcs : Sources} {big small : List Source} (h : InjOn srcs big) (hs : ∀ a ∈ small, a ∈ big) :
    InjOn srcs small :=
  fun a ha b hb hab => h a (hs a ha) b (hs b hb) hab

theorem LabelsIn.mono {labels : Labels} {small big : List Source} (h : LabelsIn labels small)
    (hs : ∀ a ∈ small, a ∈ big) : LabelsIn labels big :=
  fun o n hm => hs o (h o n hm)

theorem LabelsIn.append {a b : Labels} {scope : List Source} (ha : LabelsIn a scope) (hb : LabelsIn b scope) :
    LabelsIn (a ++ b) scope := by
  intro o n hm
  rcases List.mem_append.mp hm with h | h
  · exact ha o n h
  · exact hb o n h

/-- every origin of a well-formed FROM tree has a name in the SQL -/
theorem leaves_qual_some (srcs : Sources) :
    ∀ (s : Source), wfFrom srcs s = true → isOrigin s = true → ∀ o ∈ leaves s, (qual srcs o).isSome = true
  | .table n fields, hwf, _, o, ho => by
    simp only [leaves, List.mem_singleton] at ho; subst ho
    simpa [qual, wfFrom] using hwf
  | .ref inst name, _, _, o, ho => by
    simp only [leaves, List.mem_singleton] at ho; subst ho
    simp [qual]
  | .join l r k c, hwf, _, o, ho => by
    simp only [wfFrom, Bool.and_eq_true] at hwf
    obtain ⟨⟨⟨⟨⟨hl, hr⟩, hol⟩, hor⟩, _⟩, _⟩ := hwf
    simp only [leaves, List.mem_append] at ho
    rcases ho with h | h
    · exact leaves_qual_some srcs l hl hol o h
    · exact leaves_qual_some srcs r hr hor o h
  | .set _ _ _, _, ho, _, _ => by simp [isOrigin] at ho
  | .query _ _ _ _ _ _ _, _, ho, _, _ => by simp [isOrigin] at ho

/-- the labels an origin denotes belong to its leaves -/
theorem denoteFrom_labels (srcs : Sources) (db : Db) :
    ∀ (s : Source) (R : DRel), denoteFrom srcs s db = some R → LabelsIn R.labels (leaves s)
  | .table n fields, R, h => by
    simp only [denoteFrom] at h
    split at h
    · simp only [Option.map_eq_some_iff] at h
      obtain ⟨t, _, rfl⟩ := h
      intro o n' hm
      simp only [List.mem_map] at hm
      obtain ⟨c, _, hc⟩ := hm
      injection hc with hc; injection hc with h1 _
      simp [leaves, ← h1]
    · simp at h
  | .ref inst name, R, h => by
    intro o n' hm
    cases inst with
    | table n fields =>
      simp only [denoteFrom] at h
      split at h
      · simp only [Option.map_eq_some_iff] at h
        obtain ⟨t, _, rfl⟩ := h
        simp only [List.mem_map] at hm
        obtain ⟨c, _, hc⟩ := hm
        injection hc with hc; injection hc with h1 _
        simp [leaves, ← h1]
      · simp at h
    | ref i2 n2 =>
      simp only [denoteFrom, Option.map_eq_some_iff] at h
      obtain ⟨t, _, rfl⟩ := h
      simp only [List.mem_map] at hm
      obtain ⟨x, _, hx⟩ := hm
      cases x with
      | none => simp at hx
      | some y => simp at hx; simp [leaves, ← hx.1]
    | join a b k c =>
      simp only [denoteFrom, Option.map_eq_some_iff] at h
      obtain ⟨t, _, rfl⟩ := h
      simp only [List.mem_map] at hm
      obtain ⟨x, _, hx⟩ := hm
      cases x with
      | none => simp at hx
      | some y => simp at hx; simp [leaves, ← hx.1]
    | set a b k =>
      simp only [denoteFrom, Option.map_eq_some_iff] at h
      obtain ⟨t, _, rfl⟩ := h
      simp only [List.mem_map] at hm
      obtain ⟨x, _, hx⟩ := hm
      cases x with
      | none => simp at hx
      | some y => simp at hx; simp [leaves, ← hx.1]
    | query a b c d e f g =>
      simp only [denoteFrom, Option.map_eq_some_iff] at h
      obtain ⟨t, _, rfl⟩ := h
      simp only [List.mem_map] at hm
      obtain ⟨x, _, hx⟩ := hm
      cases x with
      | none => simp at hx
      | some y => simp at hx; simp [leaves, ← hx.1]
  | .join l r k c, R, h => by
    have key : ∀ (L R' : DRel), denoteFrom srcs l db = some L → denoteFrom srcs r db = some R' →
        LabelsIn (L.labels ++ R'.labels) (leaves l ++ leaves r) ∧ LabelsIn (R'.labels ++ L.labels) (leaves l ++ leaves r) := by
      intro L R' hL hR
      have h1 := (denoteFrom_labels srcs db l L hL).mono (big := leaves l ++ leaves r)
        (fun a ha => List.mem_append.mpr (Or.inl ha))
      have h2 := (denoteFrom_labels srcs db r R' hR).mono (big := leaves l ++ leaves r)
        (fun a ha => List.mem_append.mpr (Or.inr ha))
      exact ⟨h1.append h2, h2.append h1⟩
    simp only [leaves]
    cases hL : denoteFrom srcs l db with
    | none => cases k <;> cases c <;> simp [denoteFrom, hL] at h
    | some L =>
      cases hR : denoteFrom srcs r db with
      | none => cases k <;> cases c <;> simp [denoteFrom, hL, hR] at h
      | some R' =>
        obtain ⟨k1, k2⟩ := key L R' hL hR
        cases k <;> cases c <;> simp only [denoteFrom, hL, hR, Option.map_eq_some_iff] at h <;>
          first
          | (obtain ⟨rows, _, rfl⟩ := h; first | exact k1 | exact k2)
          | (injection h with h; subst h; exact k1)
          | simp at h
  | .set _ _ _, R, h => by simp [denoteFrom] at h
  | .query _ _ _ _ _ _ _, R, h => by simp [denoteFrom] at h

/-! ### the default projection -/

theorem originElems_leaves : ∀ (s : Source) (es : List (Source × String)), originElems s = some es →
    ∀ e ∈ es, e.1 ∈ leaves s
  | .table n fields, es, h, e, he => by
    simp only [originElems, Option.some.injEq] at h; subst h
    simp only [List.mem_map] at he
    obtain ⟨f, _, rfl⟩ := he
    simp [leaves]
  | .ref inst name, es, h, e, he => by
    simp only [originElems] at h
    have : ∀ (ns : List (Option String)) (es : List (Source × String)),
        ns.mapM (fun n => n.map (fun n => (Source.ref inst name, n))) = some es → ∀ e ∈ es, e.1 = Source.ref inst name := by
      intro ns
      induction ns with
      | nil => intro es h e he; simp at h; subst h; cases he
      | cons x xs ih =>
        intro es h e he
        simp only [List.mapM_cons, Option.pure_def, Option.bind_eq_bind, Option.bind_eq_some_iff] at h
        obtain ⟨y, hy, ys, hys, hes⟩ := h
        simp at hes; subst hes
        rcases List.mem_cons.mp he with rfl | he'
        · cases x with
          | none => simp at hy
          | some v => simp at hy; subst hy; rfl
        · exact ih ys hys e he'
    simp [leaves, this _ es h e he]
  | .join l r k c, es, h, e, he => by
    simp only [originElems, Option.pure_def, Option.bind_eq_bind, Option.bind_eq_some_iff] at h
    obtain ⟨a, ha, b, hb, hes⟩ := h
    simp at hes; subst hes
    simp only [leaves, List.mem_append]
    rcases List.mem_append.mp he with h1 | h1
    · exact Or.inl (originElems_leaves l a ha e h1)
    · exact Or.inr (originElems_leaves r b hb e h1)
  | .set _ _ _, es, h, _, _ => by simp [originElems] at h
  | .query _ _ _ _ _ _ _, es, h, _, _ => by simp [originElems] at h

theorem supportedFs_elemFeatures (scope : List Source) : ∀ (es : List (Source × String)),
    (∀ e ∈ es, e.1 ∈ scope) → supportedFs scope (elemFeatures es) = true
  | [], _ => rfl
  | (o, n) :: rest, h => by
    simp only [elemFeatures, supportedFs, supportedF, Bool.and_eq_true]
    refine ⟨?_, supportedFs_elemFeatures scope rest (fun e he => h e (List.mem_cons_of_mem _ he))⟩
    simpa using h (o, n) (List.mem_cons_self ..)

theorem compileFs_elemFeatures (srcs : Sources) : ∀ (es : List (Source × String)),
    compileFs srcs (elemFeatures es) = es.mapM (fun e => (qual srcs e.1).map (fun q => SqlExpr.col q e.2))
  | [] => rfl
  | (o, n) :: rest => by
    simp only [elemFeatures, compileFs, compileF, compileFs_elemFeatures srcs rest, List.mapM_cons]
    cases qual srcs o <;> simp
    cases List.mapM (fun e => Option.map (fun q => SqlExpr.col q e.snd) (qual srcs e.fst)) rest <;> simp

theorem elemFeatures_isEmpty (es : List (Source × String)) : (elemFeatures es).isEmpty = es.isEmpty := by
  cases es with
  | nil => rfl
  | cons e rest => obtain ⟨o, n⟩ := e; rfl

/-! ### OFFSET 0 is no OFFSET -/

theorem runQuery_off_zero (c : Clauses) (w : Nat) (rows : List Row) :
    runQuery { c with off := some 0 } w rows = runQuery { c with off := none } w rows := by
  simp [runQuery, units, toNat']

def isStmtSql : SqlSel → Bool
  | .select _ _ _ _ _ _ _ _ => true
  | .compound _ _ _ => true
  | _ => false

theorem evalFrom_alias_stmt (q : SqlSel) (name : String) (db : Db) (h : isStmtSql q = true) :
    evalFrom (.alias q name) db =
      (evalOut q db).map (fun o => ⟨o.names.map (fun n => n.map (fun n => (name, n))), o.rows⟩) := by
  cases q <;> simp [isStmtSql] at h <;> simp [evalFrom]

end ForML.C06
