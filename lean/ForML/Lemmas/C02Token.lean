/-
C02 helper lemmas: dask's naming of pure tasks.

`dask.delayed(leaf, pure=True, traverse=False)(*args)` names the task by a hash of the function object's content and
of the names of the argument tasks (`tokenize(func, *args)`): a Merkle token of the instruction and the tokens of its
arguments. Two instruction objects of equal content over equally named arguments therefore become ONE task of the
graph, executed once, whose result every consumer of either receives. `Table.token` is that name (the content of a
functor being its builder - class, positional and keyword arguments - and its action chain).

`value_of_token`: the value of an instruction is a function of its token - the reason why the collapse is invisible in
the data (and why the harness demands 1..size executions per class of equal instructions from dask, exactly size from
every other back-end). The converse direction - two builders that differ in any argument never share a task - is what
the harness observes on the real dask (`hyper-near-equal` and the generated tables).
-/
import ForML.Model.Builder

namespace ForML.Flow

/-- name of a pure task: the instruction and the names of its argument tasks -/
inductive Token (I : Type) where
  | node (i : I) (args : List (Token I))
  | unbound
  | fuel
  deriving Repr, Inhabited

/-- `tokenize(leaf, *[link(a) for a in args])` -/
def Table.token (t : Table) : Nat → Key → Token Instr
  | 0, _ => .fuel
  | f + 1, k =>
    match t.find k with
    | none => .unbound
    | some s => .node s.instr (s.args.map (Table.token t f))

theorem map_value_of_token {t : Table} {A : Option Assets} {f : Nat}
    (ih : ∀ k₁ k₂, t.token f k₁ = t.token f k₂ → Table.value A t f k₁ = Table.value A t f k₂) :
    ∀ (l₁ l₂ : List Key), l₁.map (t.token f) = l₂.map (t.token f) →
      l₁.map (Table.value A t f) = l₂.map (Table.value A t f)
  | [], [], _ => rfl
  | [], _ :: _, h => by simp at h
  | _ :: _, [], h => by simp at h
  | a :: l₁, b :: l₂, h => by
    simp only [List.map_cons, List.cons.injEq] at h ⊢
    exact ⟨ih a b h.1, map_value_of_token ih l₁ l₂ h.2⟩

/-- equally named tasks compute the same value -/
theorem value_of_token (A : Option Assets) (t : Table) :
    ∀ (f : Nat) (k₁ k₂ : Key), t.token f k₁ = t.token f k₂ → Table.value A t f k₁ = Table.value A t f k₂
  | 0, _, _, _ => rfl
  | f + 1, k₁, k₂, h => by
    simp only [Table.token, Table.value] at h ⊢
    cases h1 : t.find k₁ with
    | none =>
      cases h2 : t.find k₂ with
      | none => rfl
      | some s₂ => simp [h1, h2] at h
    | some s₁ =>
      cases h2 : t.find k₂ with
      | none => simp [h1, h2] at h
      | some s₂ =>
        simp only [h1, h2, Token.node.injEq] at h ⊢
        rw [h.1, map_value_of_token (value_of_token A t f) _ _ h.2]

/-! ### an arbitrary naming of instruction content (`normalize_token`) and the merged evaluation

What dask hashes of the function object is decided by `normalize_token`: pickled content by default, whatever a
registered handler returns otherwise. `nm : Instr → N` is that function; `Table.sameName` says that two instructions get
the same task name (equal `nm` of the instructions, pairwise equally named argument tasks); `Table.valueMerged` is what
the graph computes when equally named tasks are one task - an instruction is evaluated by *a representative* of its
name (the first symbol of the table carrying it), over the merged arguments of that representative. -/

/-- pairwise `p` on two lists of equal length -/
def all₂ (p : α → β → Bool) : List α → List β → Bool
  | [], [] => true
  | a :: as, b :: bs => p a b && all₂ p as bs
  | _, _ => false

/-- do `k₁` and `k₂` get the same task name under the content naming `nm`? -/
def Table.sameName [DecidableEq N] (nm : Instr → N) (t : Table) : Nat → Key → Key → Bool
  | 0, _, _ => true
  | f + 1, k₁, k₂ =>
    match t.find k₁, t.find k₂ with
    | none, none => true
    | some s₁, some s₂ => decide (nm s₁.instr = nm s₂.instr) && all₂ (Table.sameName nm t f) s₁.args s₂.args
    | _, _ => false

/-- the instruction that stands for the task name of `k`: the first symbol of the table with that name -/
def Table.repKey [DecidableEq N] (nm : Instr → N) (t : Table) (f : Nat) (k : Key) : Key :=
  match t.find? (fun s => t.sameName nm f s.id k) with
  | some s => s.id
  | none => k

/-- evaluation of the graph in which equally named tasks are one task -/
def Table.valueMerged [DecidableEq N] (nm : Instr → N) (A : Option Assets) (t : Table) : Nat → Key → Val
  | 0, _ => .error .fuel
  | f + 1, k =>
    match t.find (t.repKey nm (f + 1) k) with
    | none => .error .unbound
    | some s => exec A s.instr (s.args.map (Table.valueMerged nm A t f))

/-- the naming tells the instruction contents of the table apart -/
def Table.namesInjective (nm : Instr → N) (t : Table) : Prop :=
  ∀ s₁ ∈ t, ∀ s₂ ∈ t, nm s₁.instr = nm s₂.instr → s₁.instr = s₂.instr

theorem Table.find_mem : ∀ {t : Table} {k : Key} {s : Symbol}, t.find k = some s → s ∈ t
  | [], _, _, h => by cases h
  | x :: r, k, s, h => by
    simp only [Table.find] at h
    split at h
    · cases h; exact List.mem_cons_self ..
    · exact List.mem_cons_of_mem _ (Table.find_mem h)

theorem all₂_map_eq {p : α → α → Bool} {g : α → β} (h : ∀ a b, p a b = true → g a = g b) :
    ∀ (l₁ l₂ : List α), all₂ p l₁ l₂ = true → l₁.map g = l₂.map g
  | [], [], _ => rfl
  | [], _ :: _, hp => by simp [all₂] at hp
  | _ :: _, [], hp => by simp [all₂] at hp
  | a :: l₁, b :: l₂, hp => by
    simp only [all₂, Bool.and_eq_true] at hp
    simp only [List.map_cons, List.cons.injEq]
    exact ⟨h a b hp.1, all₂_map_eq h l₁ l₂ hp.2⟩

/-- under a naming that is injective on the instruction contents of the table, equally named tasks compute the same
value -/
theorem value_of_sameName [DecidableEq N] {nm : Instr → N} (A : Option Assets) {t : Table}
    (hinj : t.namesInjective nm) :
    ∀ (f : Nat) (k₁ k₂ : Key), t.sameName nm f k₁ k₂ = true → Table.value A t f k₁ = Table.value A t f k₂
  | 0, _, _, _ => rfl
  | f + 1, k₁, k₂, h => by
    simp only [Table.sameName] at h
    simp only [Table.value]
    cases h1 : t.find k₁ with
    | none =>
      cases h2 : t.find k₂ with
      | none => rfl
      | some s₂ => simp [h1, h2] at h
    | some s₁ =>
      cases h2 : t.find k₂ with
      | none => simp [h1, h2] at h
      | some s₂ =>
        simp only [h1, h2, Bool.and_eq_true, decide_eq_true_eq] at h
        simp only
        rw [hinj s₁ (Table.find_mem h1) s₂ (Table.find_mem h2) h.1,
          all₂_map_eq (value_of_sameName A hinj f) _ _ h.2]

theorem Table.sameName_repKey [DecidableEq N] (nm : Instr → N) (t : Table) (f : Nat) (k : Key) :
    t.repKey nm f k = k ∨ t.sameName nm f (t.repKey nm f k) k = true := by
  unfold Table.repKey
  cases h : t.find? (fun s => t.sameName nm f s.id k) with
  | none => exact Or.inl rfl
  | some s => exact Or.inr (by simpa using List.find?_some h)

/-- **merging equally named tasks is invisible iff the naming is injective on instruction content** (this direction):
with such a naming the merged graph computes, for every instruction, the dependency-ordered value -/
theorem valueMerged_eq [DecidableEq N] {nm : Instr → N} (A : Option Assets) {t : Table} (hinj : t.namesInjective nm) :
    ∀ (f : Nat) (k : Key), Table.valueMerged nm A t f k = Table.value A t f k
  | 0, _ => rfl
  | f + 1, k => by
    have hv : Table.value A t (f + 1) (t.repKey nm (f + 1) k) = Table.value A t (f + 1) k := by
      rcases Table.sameName_repKey nm t (f + 1) k with h | h
      · rw [h]
      · exact value_of_sameName A hinj (f + 1) _ _ h
    rw [← hv]
    simp only [Table.valueMerged, Table.value]
    cases t.find (t.repKey nm (f + 1) k) with
    | none => rfl
    | some s =>
      simp only
      congr 1
      exact List.map_congr_left (fun a _ => valueMerged_eq A hinj f a)

/-! ### the same for tables whose functors carry their builder -/

def PTable.find (T : PTable) (k : Key) : Option PSymbol :=
  match T with
  | [] => none
  | s :: r => if s.id = k then some s else PTable.find r k

/-- the task name as dask computes it: the content of a functor is its builder and its action chain -/
def PTable.token (T : PTable) : Nat → Key → Token PInstr
  | 0, _ => .fuel
  | f + 1, k =>
    match T.find k with
    | none => .unbound
    | some s => .node s.instr (s.args.map (PTable.token T f))

theorem lower_find {code : Instance → Actor} : ∀ {T : PTable} {t : Table}, T.lower code = some t → ∀ k,
    (T.find k = none ∧ t.find k = none) ∨
    ∃ S s, T.find k = some S ∧ t.find k = some s ∧ S.instr.lower code = some s.instr ∧ s.args = S.args
  | [], t, h, k => by
    simp only [PTable.lower, mapOpt] at h
    cases h
    exact Or.inl ⟨rfl, rfl⟩
  | S :: R, t, h, k => by
    simp only [PTable.lower, mapOpt] at h
    split at h
    · cases h
    · rename_i s hs
      split at h
      · cases h
      · rename_i r hr
        cases h
        simp only [PSymbol.lower] at hs
        split at hs
        · cases hs
        · rename_i i hi
          cases hs
          simp only [PTable.find, Table.find]
          by_cases hk : S.id = k
          · simp only [hk, if_true]
            exact Or.inr ⟨S, _, rfl, rfl, hi, rfl⟩
          · simp only [hk, if_false]
            exact lower_find (T := R) hr k

/-- equally named tasks of a table with builders are equally named, hence equal in value, in the lowered table:
dask merges two functors only if builder (class, positional and keyword arguments) and action chain are equal - and
then they make the same actor -/
theorem ptoken_lower {code : Instance → Actor} {T : PTable} {t : Table} (hl : T.lower code = some t) :
    ∀ (f : Nat) (k₁ k₂ : Key), T.token f k₁ = T.token f k₂ → t.token f k₁ = t.token f k₂
  | 0, _, _, _ => rfl
  | f + 1, k₁, k₂, h => by
    simp only [PTable.token, Table.token] at h ⊢
    rcases lower_find hl k₁ with ⟨hT1, ht1⟩ | ⟨S1, s1, hT1, ht1, hi1, ha1⟩ <;>
      rcases lower_find hl k₂ with ⟨hT2, ht2⟩ | ⟨S2, s2, hT2, ht2, hi2, ha2⟩
    · simp [ht1, ht2]
    · simp [hT1, hT2] at h
    · simp [hT1, hT2] at h
    · simp only [hT1, hT2, Token.node.injEq] at h
      simp only [ht1, ht2, Token.node.injEq]
      obtain ⟨hi, hargs⟩ := h
      rw [hi] at hi1
      have hinstr : s1.instr = s2.instr := Option.some.inj (hi1.symm.trans hi2)
      refine ⟨hinstr, ?_⟩
      rw [ha1, ha2]
      have ih := ptoken_lower hl f
      clear hT1 hT2 ht1 ht2 hi1 hi2 ha1 ha2 hinstr hi
      generalize S1.args = l₁ at hargs ⊢
      generalize S2.args = l₂ at hargs ⊢
      induction l₁ generalizing l₂ with
      | nil => cases l₂ with
        | nil => rfl
        | cons _ _ => simp at hargs
      | cons a l₁ ihl => cases l₂ with
        | nil => simp at hargs
        | cons b l₂ =>
          simp only [List.map_cons, List.cons.injEq] at hargs ⊢
          exact ⟨ih a b hargs.1, ihl l₂ hargs.2⟩

end ForML.Flow
